#!/bin/bash
# Builds the framework from files on disk only (offline): Lean library + model driver, audit tool, harness.
set -e
cd /verif
export CARGO_NET_OFFLINE=true
export CARGO_TARGET_DIR=/verif/.work/target
mkdir -p .work evidence
[ -f tools/gen_all.py ] && python3 tools/gen_all.py
(cd lean && lake build Jamm jmodel Jamm.AuditTool)
(cd lean && for f in Jamm/Props/C*.lean; do lake build Jamm.Props.$(basename $f .lean); done)
[ -f harness/Cargo.lock ] || cp /repo/Cargo.lock harness/Cargo.lock
(cd harness && cargo build --offline)
[ -f shim/ioshim.c ] && cc -O1 -shared -fPIC -o .work/ioshim.so shim/ioshim.c -ldl
echo setup-ok
