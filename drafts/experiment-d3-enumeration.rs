use jammdb::*;
use std::panic::{catch_unwind, AssertUnwindSafe};
fn path(n:&str)->std::path::PathBuf{ let p=std::env::temp_dir().join(format!("scratch_{}.db",n)); let _=std::fs::remove_file(&p); p}
fn k(i:u32)->Vec<u8>{ let mut v=format!("k{:05}",i).into_bytes(); v.resize(200,b'_'); v }
// 3-level tree of long keys; every 4th entry is a sub-bucket. In tx2 touch one sub-bucket and delete kv keys in [a,b).
fn run(n:u32,a:u32,b:u32,touch:u32)->Result<(),String>{
    let p=path("t9");
    let db=OpenOptions::new().pagesize(1024).open(&p).unwrap();
    { let tx=db.tx(true).unwrap(); let bk=tx.create_bucket("b").unwrap();
      for i in 0..n { if i%4==1 { let s=bk.create_bucket(k(i)).unwrap(); s.put("x","y").unwrap(); } else { bk.put(k(i), vec![b'x';100]).unwrap(); } }
      drop(bk); tx.commit().map_err(|e|format!("commit1 {e}"))?; }
    { let tx=db.tx(true).unwrap(); let bk=tx.get_bucket("b").unwrap();
      { let s=bk.get_bucket(k(touch)).unwrap(); s.put("x","z").unwrap(); }
      for i in a..b { if i%4!=1 { bk.delete(k(i)).map_err(|e|format!("del {e}"))?; } }
      drop(bk); tx.commit().map_err(|e|format!("commit2 {e}"))?; }
    let chk=db.check().is_ok();
    let tx=db.tx(false).unwrap(); let bk=tx.get_bucket("b").unwrap();
    let got:Vec<Vec<u8>>=bk.cursor().map(|d|d.key().to_vec()).collect();
    let mut want=vec![]; for i in 0..n { if i%4==1 || !(a..b).contains(&i) { want.push(k(i)); } }
    if !chk && got==want && bk.next_int()==n as u64 { return Err(format!("check-fails-only touch={}",touch)); }
    if got!=want { let sorted=got.windows(2).all(|w|w[0]<w[1]); return Err(format!("scan mismatch chk={} sorted={} dup={} touch={}",chk,sorted, got.len() as i64-want.len() as i64,touch)); }
    if bk.next_int()!=n as u64 { return Err(format!("next_int {} != {}",bk.next_int(),n)); }
    Ok(())
}
thread_local!{ static LOC: std::cell::RefCell<String> = std::cell::RefCell::new(String::new()); }
fn main(){
    std::panic::set_hook(Box::new(|i| { LOC.with(|l| *l.borrow_mut()=i.location().map(|x|format!("{}:{}",x.file(),x.line())).unwrap_or_default()); }));
    let n=40u32; let mut fails=std::collections::BTreeMap::<String,(u32,(u32,u32,u32))>::new(); let mut total=0;
    for a in 0..n { for b in (a+1)..=n { for touch in (1..n).step_by(4) { total+=1;
        let r=catch_unwind(AssertUnwindSafe(|| run(n,a,b,touch)));
        let msg=match r { Ok(Ok(()))=>"OK".into(), Ok(Err(e))=>e, Err(p)=> format!("PANIC at {} {}", LOC.with(|l|l.borrow().clone()), p.downcast_ref::<String>().cloned().or(p.downcast_ref::<&str>().map(|s|s.to_string())).unwrap_or_default()) };
        let e=fails.entry(msg).or_insert((0,(a,b,touch))); e.0+=1; }}}
    println!("total {}", total);
    for (m,(c,w)) in fails { println!("{:5} first={:?} {}", c, w, m); }
}
