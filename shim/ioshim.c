/* ioshim — LD_PRELOAD library for the I/O streams (C02, C11, C06, C13).
 *
 * Interposes the libc calls Rust's std makes on the database file (open64/openat, write, pwrite64,
 * lseek64, fsync, fdatasync, ftruncate, close), logs them with their payloads, and can make the n-th
 * write / fsync after arming fail (optionally after a short write).
 *   JSHIM_LOG   file the log is appended to
 *   JSHIM_PATH  substring identifying the database file(s) to track
 * Log lines:  O <fd> <path> | W <fd> <offset> <len> <hex> | S <fd> | T <fd> <len> | C <fd> | M <text>
 *             F <kind> <errno>   (an injected failure)
 * Entry points for the harness (looked up with dlsym):  jshim_mark(const char*),
 *   jshim_arm(int kind (1 write, 2 fsync), int nth, int err, long short_len), jshim_disarm()
 */
#define _GNU_SOURCE
#include <dlfcn.h>
#include <errno.h>
#include <fcntl.h>
#include <stdarg.h>
#include <stdio.h>
#include <stdlib.h>
#include <string.h>
#include <sys/types.h>
#include <unistd.h>

#define MAXFD 4096
static int tracked[MAXFD];
static long long offs[MAXFD];
static int logfd = -1;
static const char *pat = NULL;
static int inited = 0;

static int arm_kind = 0, arm_nth = 0, arm_err = 0, arm_count = 0, arm_pending_fail = 0;
static long arm_short = -1;
static int arm_fired = 0; /* 0 nothing injected yet, 1 a short write without error, 2 an error was returned to the caller */

static ssize_t (*real_write)(int, const void *, size_t);
static ssize_t (*real_pwrite64)(int, const void *, size_t, off64_t);
static off64_t (*real_lseek64)(int, off64_t, int);
static off_t (*real_lseek)(int, off_t, int);
static int (*real_fsync)(int);
static int (*real_fdatasync)(int);
static int (*real_close)(int);
static int (*real_ftruncate64)(int, off64_t);
static int (*real_open64)(const char *, int, ...);
static int (*real_open)(const char *, int, ...);
static int (*real_openat)(int, const char *, int, ...);
static int (*real_openat64)(int, const char *, int, ...);

/* JSHIM_PARK="<call>:<nth>:<fifo>": at the nth occurrence of <call> (open, write, fsync, mmap, close) on
 * the database file, create <fifo>.at and block until somebody opens <fifo> for writing */
static char park_call[16];
static int park_nth = 0, park_count = 0;
static char park_path[512];

static void maybe_park(const char *call) {
    if (park_nth <= 0 || strcmp(call, park_call) != 0) return;
    park_count++;
    if (park_count != park_nth) return;
    char at[560];
    snprintf(at, sizeof at, "%s.at", park_path);
    int (*o)(const char *, int, ...) = real_open64 ? real_open64 : real_open;
    int fd = o(at, O_WRONLY | O_CREAT, 0644);
    if (fd >= 0) real_close(fd);
    int f = o(park_path, O_RDONLY); /* blocks until a writer opens the fifo */
    if (f >= 0) real_close(f);
}

static void init(void) {
    if (inited) return;
    inited = 1;
    real_write = dlsym(RTLD_NEXT, "write");
    real_pwrite64 = dlsym(RTLD_NEXT, "pwrite64");
    real_lseek64 = dlsym(RTLD_NEXT, "lseek64");
    real_lseek = dlsym(RTLD_NEXT, "lseek");
    real_fsync = dlsym(RTLD_NEXT, "fsync");
    real_fdatasync = dlsym(RTLD_NEXT, "fdatasync");
    real_close = dlsym(RTLD_NEXT, "close");
    real_ftruncate64 = dlsym(RTLD_NEXT, "ftruncate64");
    real_open64 = dlsym(RTLD_NEXT, "open64");
    real_open = dlsym(RTLD_NEXT, "open");
    real_openat = dlsym(RTLD_NEXT, "openat");
    real_openat64 = dlsym(RTLD_NEXT, "openat64");
    pat = getenv("JSHIM_PATH");
    const char *pk = getenv("JSHIM_PARK");
    if (pk) {
        const char *c1 = strchr(pk, ':');
        const char *c2 = c1 ? strchr(c1 + 1, ':') : NULL;
        if (c1 && c2 && (size_t)(c1 - pk) < sizeof park_call) {
            memcpy(park_call, pk, (size_t)(c1 - pk));
            park_call[c1 - pk] = 0;
            park_nth = atoi(c1 + 1);
            snprintf(park_path, sizeof park_path, "%s", c2 + 1);
        }
    }
    const char *lp = getenv("JSHIM_LOG");
    if (lp) {
        int (*o)(const char *, int, ...) = real_open64 ? real_open64 : real_open;
        logfd = o(lp, O_WRONLY | O_CREAT | O_APPEND, 0644);
    }
}

static void logline(const char *s, size_t n) {
    if (logfd >= 0) {
        size_t done = 0;
        while (done < n) {
            ssize_t r = real_write(logfd, s + done, n - done);
            if (r <= 0) break;
            done += (size_t)r;
        }
    }
}

static void logf_(const char *fmt, ...) {
    char buf[512];
    va_list ap;
    va_start(ap, fmt);
    int n = vsnprintf(buf, sizeof buf, fmt, ap);
    va_end(ap);
    if (n > 0) logline(buf, (size_t)n < sizeof buf ? (size_t)n : sizeof buf - 1);
}

static void log_write(int fd, long long off, const void *data, size_t len) {
    static const char hx[] = "0123456789abcdef";
    size_t cap = len * 2 + 96;
    char *buf = malloc(cap);
    if (!buf) return;
    int n = snprintf(buf, cap, "W %d %lld %zu ", fd, off, len);
    const unsigned char *p = data;
    for (size_t i = 0; i < len; i++) {
        buf[n++] = hx[p[i] >> 4];
        buf[n++] = hx[p[i] & 15];
    }
    buf[n++] = '\n';
    logline(buf, (size_t)n);
    free(buf);
}

static void track_open(int fd, const char *path) {
    if (fd >= 0 && fd < MAXFD && pat && path && strstr(path, pat)) {
        tracked[fd] = 1;
        offs[fd] = 0;
        logf_("O %d %s\n", fd, path);
        maybe_park("open"); /* parked right after the file was opened / created */
    }
}

void jshim_mark(const char *text) {
    init();
    logf_("M %s\n", text);
}

void jshim_arm(int kind, int nth, int err, long short_len) {
    init();
    arm_kind = kind;
    arm_nth = nth;
    arm_err = err;
    arm_short = short_len;
    arm_count = 0;
    arm_pending_fail = 0;
    arm_fired = 0;
}

int jshim_fired(void) { return arm_fired; }

void jshim_disarm(void) {
    arm_kind = 0;
    arm_pending_fail = 0;
}

int open64(const char *path, int flags, ...) {
    init();
    mode_t mode = 0;
    if (flags & (O_CREAT | O_TMPFILE)) {
        va_list ap;
        va_start(ap, flags);
        mode = va_arg(ap, mode_t);
        va_end(ap);
    }
    int fd = real_open64(path, flags, mode);
    track_open(fd, path);
    return fd;
}

int open(const char *path, int flags, ...) {
    init();
    mode_t mode = 0;
    if (flags & (O_CREAT | O_TMPFILE)) {
        va_list ap;
        va_start(ap, flags);
        mode = va_arg(ap, mode_t);
        va_end(ap);
    }
    int fd = real_open(path, flags, mode);
    track_open(fd, path);
    return fd;
}

int openat(int dirfd, const char *path, int flags, ...) {
    init();
    mode_t mode = 0;
    if (flags & (O_CREAT | O_TMPFILE)) {
        va_list ap;
        va_start(ap, flags);
        mode = va_arg(ap, mode_t);
        va_end(ap);
    }
    int fd = real_openat(dirfd, path, flags, mode);
    track_open(fd, path);
    return fd;
}

int openat64(int dirfd, const char *path, int flags, ...) {
    init();
    mode_t mode = 0;
    if (flags & (O_CREAT | O_TMPFILE)) {
        va_list ap;
        va_start(ap, flags);
        mode = va_arg(ap, mode_t);
        va_end(ap);
    }
    int fd = real_openat64(dirfd, path, flags, mode);
    track_open(fd, path);
    return fd;
}

int close(int fd) {
    init();
    if (fd >= 0 && fd < MAXFD && tracked[fd]) {
        maybe_park("close");
        tracked[fd] = 0;
        logf_("C %d\n", fd);
    }
    return real_close(fd);
}

ssize_t write(int fd, const void *buf, size_t count) {
    init();
    if (fd >= 0 && fd < MAXFD && tracked[fd]) {
        maybe_park("write");
        if (arm_pending_fail) {
            arm_pending_fail = 0;
            arm_kind = 0;
            arm_fired = 2;
            logf_("F write %d\n", arm_err);
            errno = arm_err;
            return -1;
        }
        if (arm_kind == 1) {
            arm_count++;
            if (arm_count == arm_nth) {
                if (arm_err == 0) {
                    /* a short write that is not followed by an error (the caller must retry the rest);
                       a call shorter than the requested length is cut in half instead */
                    size_t n0 = (arm_short > 0 && (size_t)arm_short < count) ? (size_t)arm_short : count / 2;
                    if (n0 == 0) n0 = count;
                    ssize_t r = real_write(fd, buf, n0);
                    if (r > 0) {
                        log_write(fd, offs[fd], buf, (size_t)r);
                        offs[fd] += r;
                    }
                    arm_kind = 0;
                    if (arm_fired < 1) arm_fired = 1;
                    logf_("F shortwrite %ld\n", arm_short);
                    return r;
                }
                if (arm_short >= 0 && (size_t)arm_short < count) {
                    /* short write now, the error on the retry */
                    size_t n = (size_t)arm_short;
                    ssize_t r = n ? real_write(fd, buf, n) : 0;
                    if (r > 0) {
                        log_write(fd, offs[fd], buf, (size_t)r);
                        offs[fd] += r;
                    }
                    arm_pending_fail = 1;
                    if (n == 0) {
                        arm_pending_fail = 0;
                        arm_kind = 0;
                        arm_fired = 2;
            logf_("F write %d\n", arm_err);
                        errno = arm_err;
                        return -1;
                    }
                    return r;
                }
                arm_kind = 0;
                arm_fired = 2;
            logf_("F write %d\n", arm_err);
                errno = arm_err;
                return -1;
            }
        }
        ssize_t r = real_write(fd, buf, count);
        if (r > 0) {
            log_write(fd, offs[fd], buf, (size_t)r);
            offs[fd] += r;
        }
        return r;
    }
    return real_write(fd, buf, count);
}

ssize_t pwrite64(int fd, const void *buf, size_t count, off64_t off) {
    init();
    ssize_t r = real_pwrite64(fd, buf, count, off);
    if (fd >= 0 && fd < MAXFD && tracked[fd] && r > 0) log_write(fd, off, buf, (size_t)r);
    return r;
}

off64_t lseek64(int fd, off64_t off, int whence) {
    init();
    off64_t r = real_lseek64(fd, off, whence);
    if (fd >= 0 && fd < MAXFD && tracked[fd] && r >= 0) offs[fd] = r;
    return r;
}

off_t lseek(int fd, off_t off, int whence) {
    init();
    off_t r = real_lseek(fd, off, whence);
    if (fd >= 0 && fd < MAXFD && tracked[fd] && r >= 0) offs[fd] = r;
    return r;
}

static int sync_common(int fd, int (*real)(int), const char *name) {
    if (fd >= 0 && fd < MAXFD && tracked[fd]) {
        maybe_park("fsync");
        if (arm_kind == 2) {
            arm_count++;
            if (arm_count == arm_nth) {
                arm_kind = 0;
                arm_fired = 2;
                logf_("F %s %d\n", name, arm_err);
                errno = arm_err;
                return -1;
            }
        }
        int r = real(fd);
        if (r == 0) logf_("S %d\n", fd);
        return r;
    }
    return real(fd);
}

int fsync(int fd) {
    init();
    return sync_common(fd, real_fsync, "fsync");
}

int fdatasync(int fd) {
    init();
    return sync_common(fd, real_fdatasync, "fdatasync");
}

int ftruncate64(int fd, off64_t len) {
    init();
    if (fd >= 0 && fd < MAXFD && tracked[fd]) logf_("U ftruncate64 %lld\n", (long long)len);
    return real_ftruncate64(fd, len);
}

/* write-like calls the model of the commit does not know: logged as `U <name>` so that the shape check of
   the crash stream refuses the trace instead of silently missing the bytes */
#include <sys/uio.h>
ssize_t writev(int fd, const struct iovec *iov, int cnt) {
    init();
    static ssize_t (*real)(int, const struct iovec *, int);
    if (!real) real = dlsym(RTLD_NEXT, "writev");
    if (fd >= 0 && fd < MAXFD && tracked[fd]) logf_("U writev\n");
    return real(fd, iov, cnt);
}
ssize_t pwritev(int fd, const struct iovec *iov, int cnt, off_t off) {
    init();
    static ssize_t (*real)(int, const struct iovec *, int, off_t);
    if (!real) real = dlsym(RTLD_NEXT, "pwritev");
    if (fd >= 0 && fd < MAXFD && tracked[fd]) logf_("U pwritev\n");
    return real(fd, iov, cnt, off);
}
ssize_t pwritev64(int fd, const struct iovec *iov, int cnt, off64_t off) {
    init();
    static ssize_t (*real)(int, const struct iovec *, int, off64_t);
    if (!real) real = dlsym(RTLD_NEXT, "pwritev64");
    if (fd >= 0 && fd < MAXFD && tracked[fd]) logf_("U pwritev64\n");
    return real(fd, iov, cnt, off);
}
int ftruncate(int fd, off_t len) {
    init();
    static int (*real)(int, off_t);
    if (!real) real = dlsym(RTLD_NEXT, "ftruncate");
    if (fd >= 0 && fd < MAXFD && tracked[fd]) logf_("U ftruncate %lld\n", (long long)len);
    return real(fd, len);
}

#include <sys/mman.h>
static void *(*real_mmap)(void *, size_t, int, int, int, off_t);
static void *(*real_mmap64)(void *, size_t, int, int, int, off64_t);

void *mmap(void *addr, size_t len, int prot, int flags, int fd, off_t off) {
    init();
    if (!real_mmap) real_mmap = dlsym(RTLD_NEXT, "mmap");
    if (fd >= 0 && fd < MAXFD && tracked[fd]) {
        logf_("P %d %zu\n", fd, len);
        maybe_park("mmap");
    }
    return real_mmap(addr, len, prot, flags, fd, off);
}

void *mmap64(void *addr, size_t len, int prot, int flags, int fd, off64_t off) {
    init();
    if (!real_mmap64) real_mmap64 = dlsym(RTLD_NEXT, "mmap64");
    if (fd >= 0 && fd < MAXFD && tracked[fd]) {
        logf_("P %d %zu\n", fd, len);
        maybe_park("mmap");
    }
    return real_mmap64(addr, len, prot, flags, fd, off);
}
