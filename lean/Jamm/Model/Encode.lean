/-
Layer S, the writer: `Page::write_node` (`page.rs:201`) as a sequence of byte writes into a byte source.

The page header fields, then one element record per entry whose `pos` is relative to the record's own
address, then the keys (and values) packed in entry order right after the last record.  Bytes the code
does not write (struct padding, the tail of the run) are left as they are.  `decodePage ∘ writeNodePage`
is the identity on nodes that fit (`Proofs/EncodeLemmas.lean`); the correspondence run checks after every
commit that re-encoding each decoded tree page reproduces the real bytes at every written offset, i.e.
that the real writer lays pages out exactly like this one.
-/
import Jamm.Model.Codec
namespace Jamm

namespace Src
/-- overwrite `bs.length` bytes at `off` -/
def write (s : Src) (off : Nat) (bs : List UInt8) : Src :=
  { size := s.size
    get := fun i => if off ≤ i ∧ i < off + bs.length then bs.getD (i - off) 0 else s.get i }
end Src

/-- little-endian image of `x` on `n` bytes -/
def leBytes (x n : Nat) : List UInt8 :=
  (List.range n).map (fun i => ((x / 256 ^ i) % 256).toUInt8)

/-- the value bytes of a leaf entry: the data, or the bucket header record -/
def LeafVal.bytes (L : Layout) : LeafVal → Bytes
  | .kv v => v
  | .bkt root nextInt =>
    (List.range L.bmSize).map (fun i =>
      if L.bmRoot ≤ i ∧ i < L.bmRoot + 8 then (leBytes root 8).getD (i - L.bmRoot) 0
      else if L.bmNextInt ≤ i ∧ i < L.bmNextInt + 8 then (leBytes nextInt 8).getD (i - L.bmNextInt) 0
      else 0)

def LeafVal.ty (L : Layout) : LeafVal → Nat
  | .kv _ => L.elemData
  | .bkt _ _ => L.elemBucket

section
variable (L : Layout)

/-- element records and packed data of a leaf: entry `i` of `n`, `doff` bytes of data written so far -/
def writeLeafElems (base n : Nat) : List (Bytes × LeafVal) → Nat → Nat → Src → Src
  | [], _, _, s => s
  | (k, v) :: rest, i, doff, s =>
    let e := base + L.pgPtr + i * L.leafSize
    let vb := v.bytes L
    let pos := (n - i) * L.leafSize + doff
    let s := s.write (e + L.leafType) [(v.ty L).toUInt8]
    let s := s.write (e + L.leafPos) (leBytes pos 8)
    let s := s.write (e + L.leafKsize) (leBytes k.length 8)
    let s := s.write (e + L.leafVsize) (leBytes vb.length 8)
    let s := s.write (e + pos) (k ++ vb)
    writeLeafElems base n rest (i + 1) (doff + k.length + vb.length) s

def writeBranchElems (base n : Nat) : List (Bytes × Nat) → Nat → Nat → Src → Src
  | [], _, _, s => s
  | (k, page) :: rest, i, doff, s =>
    let e := base + L.pgPtr + i * L.branchSize
    let pos := (n - i) * L.branchSize + doff
    let s := s.write (e + L.branchPage) (leBytes page 8)
    let s := s.write (e + L.branchKsize) (leBytes k.length 8)
    let s := s.write (e + L.branchPos) (leBytes pos 8)
    let s := s.write (e + pos) k
    writeBranchElems base n rest (i + 1) (doff + k.length) s

def writeHeader (base id ty count overflow : Nat) (s : Src) : Src :=
  let s := s.write (base + L.pgId) (leBytes id 8)
  let s := s.write (base + L.pgType) [ty.toUInt8]
  let s := s.write (base + L.pgCount) (leBytes count 8)
  s.write (base + L.pgOverflow) (leBytes overflow 8)

/-- `Page::write_node` for a leaf node stored at page `pid` with `overflow` further pages -/
def writeLeafPage (pagesize pid overflow : Nat) (es : List (Bytes × LeafVal)) (s : Src) : Src :=
  let base := pid * pagesize
  writeLeafElems L base es.length es 0 0 (writeHeader L base pid L.typeLeaf es.length overflow s)

def writeBranchPage (pagesize pid overflow : Nat) (es : List (Bytes × Nat)) (s : Src) : Src :=
  let base := pid * pagesize
  writeBranchElems L base es.length es 0 0 (writeHeader L base pid L.typeBranch es.length overflow s)

/-- bytes a leaf node occupies from the start of its page (`Node::size` + page header) -/
def leafBytes (es : List (Bytes × LeafVal)) : Nat :=
  L.pgPtr + es.length * L.leafSize + (es.map (fun e => e.1.length + (e.2.bytes L).length)).sum

def branchBytes (es : List (Bytes × Nat)) : Nat :=
  L.pgPtr + es.length * L.branchSize + (es.map (fun e => e.1.length)).sum

/-- what the round trip needs of the layout table: the fields of each record are pairwise disjoint and
inside the record; one-byte tags fit a byte; the two element tags and the four page tags differ -/
def Layout.WFEnc : Bool :=
  -- page header: id, type (1), count, overflow inside [0, pgPtr), disjoint; the record is pgPtr..pageSize
  L.pgId + 8 ≤ L.pgType ∧ L.pgType + 1 ≤ L.pgCount ∧ L.pgCount + 8 ≤ L.pgOverflow ∧ L.pgOverflow + 8 ≤ L.pgPtr ∧
  L.pgPtr ≤ L.pageSize ∧
  -- leaf element
  L.leafType + 1 ≤ L.leafPos ∧ L.leafPos + 8 ≤ L.leafKsize ∧ L.leafKsize + 8 ≤ L.leafVsize ∧ L.leafVsize + 8 ≤ L.leafSize ∧
  -- branch element
  L.branchPage + 8 ≤ L.branchKsize ∧ L.branchKsize + 8 ≤ L.branchPos ∧ L.branchPos + 8 ≤ L.branchSize ∧
  -- bucket header record
  L.bmRoot + 8 ≤ L.bmNextInt ∧ L.bmNextInt + 8 ≤ L.bmSize ∧
  L.elemData < 256 ∧ L.elemBucket < 256 ∧ L.elemData ≠ L.elemBucket ∧
  L.typeLeaf < 256 ∧ L.typeBranch < 256 ∧ L.typeMeta < 256 ∧ L.typeFreelist < 256 ∧
  L.typeLeaf ≠ L.typeMeta ∧ L.typeLeaf ≠ L.typeBranch ∧ L.typeBranch ≠ L.typeMeta

def LeafVal.fits : LeafVal → Bool
  | .kv _ => true
  | .bkt root nextInt => root < 2 ^ 64 ∧ nextInt < 2 ^ 64

end
end Jamm
