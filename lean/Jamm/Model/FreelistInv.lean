/-
The accounting invariant of the release protocol, as executable predicates (so that the driver can
evaluate them on what the real code did, and so that they are obviously decidable).
-/
import Jamm.Model.Freelist
namespace Jamm

def ascending : List Nat → Bool
  | [] => true
  | [_] => true
  | a :: b :: rest => decide (a < b) && ascending (b :: rest)

def disjointB (a b : List Nat) : Bool := a.all (fun p => !b.contains p)

def nodupB : List Nat → Bool
  | [] => true
  | a :: rest => !rest.contains a && nodupB rest

/-- pages freed by transactions with id above `t` -/
def FL.pendingAbove (f : FL) (t : Nat) : List Nat := (f.pending.filter (fun e => t < e.1)).flatMap (·.2)

/-- the system invariant:
 1. the free set is ascending (hence duplicate free); pending keys ascend and are at most the current id;
 2. reachable pages, free pages and pending pages are pairwise disjoint, each duplicate free, and all
    lie in `[2, numPages)`;
 4. the two header pages exist (`2 ≤ numPages`);
 3. every open reader started from a snapshot no newer than the current one, and every page of its
    snapshot is still reachable or was freed by a *later* transaction (and is still pending). -/
def Sys.invB (s : Sys) : Bool :=
  ascending s.shared.free && ascending (s.shared.pending.map (·.1)) &&
  s.shared.pending.all (fun e => e.1 ≤ s.cur.txId) &&
  nodupB s.cur.reach && nodupB s.shared.pendingPages &&
  disjointB s.cur.reach s.shared.free && disjointB s.cur.reach s.shared.pendingPages &&
  disjointB s.shared.free s.shared.pendingPages &&
  (s.cur.reach ++ s.shared.free ++ s.shared.pendingPages).all (fun p => 2 ≤ p && p < s.numPages) &&
  s.readers.all (fun r => r.txId ≤ s.cur.txId &&
    r.reach.all (fun p => s.cur.reach.contains p || (s.shared.pendingAbove r.txId).contains p)) &&
  decide (2 ≤ s.numPages)

/-- a protocol-abiding writer: frees only pages of the snapshot it started from, each once, and asks for
non-empty runs -/
def Sys.clientOkB (s : Sys) : Ev → Bool
  | .beginR => true
  | .endR i => i < s.readers.length
  | .dropW _ => true
  | .commitW w => w.freed.all (fun p => s.cur.reach.contains p) && nodupB w.freed && w.requests.all (fun n => 0 < n)

/-- a maximal-run view of first fit: is there a run of `n` consecutive ids in the (ascending) list? -/
def hasRun (n : Nat) (free : List Nat) : Bool :=
  free.any (fun s => (List.range n).all (fun i => free.contains (s + i)))

end Jamm
