/-
Layer C — commit on one bucket's tree: the local steps of `rebalance` (`bucket.rs merge_nodes`, after
the `fix:` commits) and the functional shape of `spill` (`node.rs spill / split`).

Trees are the value trees of `Tree.lean`.  A node's `pid` field encodes `2·page_id + m` where `m = 1`
when the transaction has materialised the page as a node (only such nodes are rewritten by `spill`).
Leaf payloads are arbitrary (`E`, with the stored size of an entry given by `esz`); `Ent` (value size,
is-a-nested-bucket) with `entSize` is all that the split thresholds depend on.

`rebalance` is replayed step by step: *which* node is merged at which moment is read from the real run
(feature-gated notes), the model performs the step and the results are compared (the code's traversal
order — children in first-touch order — is an oracle for the model, not part of it).  `spill` needs no
oracle.  The code appends and then sorts the entries of two merged nodes; on well-formed trees that is
concatenation in key order, which is what the model does (Rust's `sort` is trusted).
-/
import Jamm.Model.Tree
import Jamm.Model.Split
set_option linter.unusedSectionVars false

namespace Jamm

structure Ent where
  vsize : Nat
  isBucket : Bool
  deriving DecidableEq, Repr, Inhabited

def nodeMat (p : Nat) : Bool := p % 2 == 1
def nodePage (p : Nat) : Nat := p / 2
def mkPid (page : Nat) (mat : Bool) : Nat := 2 * page + (if mat then 1 else 0)

namespace Forest
variable {K E : Type}

def append : Forest K E → Forest K E → Forest K E
  | .nil, g => g
  | .cons k t rest, g => .cons k t (append rest g)

def ofList : List (K × Tree K E) → Forest K E
  | [] => .nil
  | (k, t) :: rest => .cons k t (ofList rest)

def toList : Forest K E → List (K × Tree K E)
  | .nil => []
  | .cons k t rest => (k, t) :: toList rest

end Forest

namespace Tree
variable {K E : Type}

def isEmptyNode : Tree K E → Bool
  | .leaf _ es => es.isEmpty
  | .branch _ kids => kids.length == 0

/-- `NodeData::merge`: the entries of `b` appended to those of `a`; the result lives in `keep`'s node
(materialised) -/
def mergeInto (keepPid : Nat) : Tree K E → Tree K E → Tree K E
  | .leaf _ es1, .leaf _ es2 => .leaf (mkPid (nodePage keepPid) true) (es1 ++ es2)
  | .branch _ k1, .branch _ k2 => .branch (mkPid (nodePage keepPid) true) (Forest.append k1 k2)
  | a, _ => a   -- `panic!("incompatible data types")`: siblings always have the same kind

end Tree

section
variable {K E : Type}

/-- the merge step of `merge_nodes` on the entry list of the parent: child `i` is removed; if it still
has entries they move into the right sibling (i = 0, which then takes the child's key) or into the
left sibling (i > 0) -/
def Forest.mergeChild : Forest K E → Nat → Forest K E
  | .nil, _ => .nil
  | .cons k x .nil, 0 => if x.isEmptyNode then .nil else .cons k x .nil       -- only child: removed only when empty
  | .cons k x (.cons k' s rest), 0 =>
    if x.isEmptyNode then .cons k' s rest
    else .cons k (Tree.mergeInto s.pid x s) rest                               -- right merge: survivor takes the key
  | .cons kl l (.cons k x rest), 1 =>
    if x.isEmptyNode then .cons kl l rest
    else .cons kl (Tree.mergeInto l.pid l x) rest                              -- left merge
  | .cons k t rest, i + 1 => .cons k t (Forest.mergeChild rest i)

mutual
/-- apply `f` to the entry list of the materialised branch whose page is `page`.  The parent of a merged
node is a node of the transaction, and so are all its ancestors: pages the transaction never
materialised are not entered. -/
def Tree.atBranch (page : Nat) (f : Forest K E → Forest K E) : Tree K E → Tree K E
  | .leaf p es => .leaf p es
  | .branch p kids =>
    if !nodeMat p then .branch p kids
    else if nodePage p = page then .branch p (f kids)
    else .branch p (Forest.atBranch page f kids)
def Forest.atBranch (page : Nat) (f : Forest K E → Forest K E) : Forest K E → Forest K E
  | .nil => .nil
  | .cons k t rest => .cons k (Tree.atBranch page f t) (Forest.atBranch page f rest)
end

mutual
/-- `put_leaf` of a nested bucket's header at commit (`InnerBucket::spill`): the nodes on the search path
to `key` become nodes of the transaction.  Their contents do not change (a bucket header has a fixed
size); they are rewritten, so their pages are freed and new ones requested. -/
def Tree.touch [Ord K] (key : K) : Tree K E → Tree K E
  | .leaf p es => .leaf (mkPid (nodePage p) true) es
  | .branch p kids => .branch (mkPid (nodePage p) true) (Forest.touchAt key kids (indexOf kids.keys key).1)
def Forest.touchAt [Ord K] (key : K) : Forest K E → Nat → Forest K E
  | .nil, _ => .nil
  | .cons k t rest, 0 => .cons k (Tree.touch key t) rest
  | .cons k t rest, i + 1 => .cons k t (Forest.touchAt key rest i)
end

def Tree.touchAll [Ord K] (t : Tree K E) (keys : List K) : Tree K E := keys.foldl (fun t k => t.touch k) t

/-- one reported step of `rebalance` -/
inductive RbStep where
  | merge (parentPage index : Nat)
  | collapse      -- a root branch with a single entry is replaced by that child
  | emptyRoot     -- a root branch with no entry becomes an empty leaf
  deriving Repr, DecidableEq

def Tree.rbStep (t : Tree K E) : RbStep → Tree K E
  | .merge parent i => Tree.atBranch parent (fun f => Forest.mergeChild f i) t
  | .collapse =>
    match t with
    | .branch _ (.cons _ c .nil) => c
    | _ => t
  | .emptyRoot =>
    match t with
    | .branch p .nil => .leaf p []
    | _ => t

def Tree.rebalance (t : Tree K E) (steps : List RbStep) : Tree K E := steps.foldl Tree.rbStep t

end

/-! ### spill: shape of the rewritten tree -/

def entSize (bmSize : Nat) (e : Bytes × Ent) : Nat := e.1.length + (if e.2.isBucket then bmSize else e.2.vsize)

def firstKeyOr (d : Bytes) : List (Bytes × α) → Bytes
  | [] => d
  | (k, _) :: _ => k

section
variable {E : Type} (p : Params) (pagesize hdr leafHdr branchHdr : Nat) (esz : Bytes × E → Nat)

mutual
/-- the pieces a node is written as, each with the key its parent will hold for it.  Pages the
transaction never materialised are kept as they are, under the key the parent already holds; written
pieces are marked unmaterialised (a node is spilled once).  `esz` is the stored size of a leaf entry
(`entSize bmSize` for the size-only payload `Ent`). -/
def spillT (key : Bytes) : Tree Bytes E → List (Bytes × Tree Bytes E)
  | .leaf pid es =>
    if !nodeMat pid then [(key, .leaf pid es)] else
    (cutAt es (splitIndexes p pagesize hdr leafHdr (es.map esz)) 0).map
      (fun c => (firstKeyOr key c, Tree.leaf 0 c))
  | .branch pid kids =>
    if !nodeMat pid then [(key, .branch pid kids)] else
    let ents := spillF kids
    (cutAt ents (splitIndexes p pagesize hdr branchHdr (ents.map (fun e => e.1.length))) 0).map
      (fun c => (firstKeyOr key c, Tree.branch 0 (Forest.ofList c)))
def spillF : Forest Bytes E → List (Bytes × Tree Bytes E)
  | .nil => []
  | .cons k t rest => spillT k t ++ spillF rest
end

/-- a root that was written as several pieces gets a new root above them, which is spilled in turn -/
def spillRoot : Nat → Tree Bytes E → Tree Bytes E
  | 0, t => t
  | fuel + 1, t =>
    match spillT p pagesize hdr leafHdr branchHdr esz [] t with
    | [] => t
    | [(_, r)] => r
    | many => spillRoot fuel (.branch 1 (Forest.ofList many))

/-- one bucket's commit: the replay of the reported `rebalance` steps, the touches of the headers of the
nested buckets that were committed below it (`touched` = their names), then `spill` with as much fuel as
the root has pieces (enough: `spillRoot_terminates`) -/
def commitTree (steps : List RbStep) (touched : List Bytes) (t : Tree Bytes E) : Tree Bytes E :=
  let r := (t.rebalance steps).touchAll touched
  spillRoot p pagesize hdr leafHdr branchHdr esz (spillT p pagesize hdr leafHdr branchHdr esz [] r).length r

end

mutual
/-- the shape of a tree: page ids forgotten -/
def Tree.shape {K E : Type} : Tree K E → Tree K E
  | .leaf _ es => .leaf 0 es
  | .branch _ kids => .branch 0 (Forest.shape kids)
def Forest.shape {K E : Type} : Forest K E → Forest K E
  | .nil => .nil
  | .cons k t rest => .cons k (Tree.shape t) (Forest.shape rest)
end

end Jamm
