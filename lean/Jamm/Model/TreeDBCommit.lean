/-
Layer T/API ← Layer C: the commit of the whole database is the commit model of one bucket
(`Model/Commit.lean`, `commitTree`) run on every bucket's tree.  The trees of the API layer carry the real
items (`Spec.Item`: a value, or the marker of a nested bucket); the stored size of an entry is the key
plus the value, or plus the fixed-size bucket header.
-/
import Jamm.Model.TreeDB
import Jamm.Model.Commit

namespace Jamm

/-- stored size of a leaf entry of the API layer's trees (`entSize` on the real payload) -/
def itemSize (bmSize : Nat) (e : Bytes × Spec.Item Bytes) : Nat :=
  e.1.length +
    (match e.2 with
     | .val v => v.length
     | .bkt => bmSize)

namespace TDB

/-- commit of the database: every bucket's tree is committed by the commit model, each with its own list of
reported `rebalance` steps and its own touched keys (the names of the nested buckets committed below it) -/
def commitDB (p : Params) (pagesize hdr leafHdr branchHdr bmSize : Nat)
    (steps : Spec.Path Bytes → List RbStep) (touched : Spec.Path Bytes → List Bytes)
    (db : DB Bytes Bytes) : DB Bytes Bytes :=
  commitWith
    (fun path t => commitTree p pagesize hdr leafHdr branchHdr (itemSize bmSize) (steps path) (touched path) t) db

end TDB
end Jamm
