/-
Layer S — byte layout tables.  `Layout` is the record of offsets / sizes / tags that the translator
(`/verif/tools/gen_all.py`) regenerates from the `#[repr(C)]` structs of /repo/src on every run
(`Jamm.Gen.layout`); `Pinned.layout` is the layout of the pinned release, against which files written
by earlier versions must stay readable (C15).
-/
namespace Jamm

structure Layout where
  pageSize : Nat      -- size_of::<Page>()
  pgId : Nat
  pgType : Nat
  pgCount : Nat
  pgOverflow : Nat
  pgPtr : Nat         -- element arrays / header record start here
  leafSize : Nat
  leafType : Nat
  leafPos : Nat
  leafKsize : Nat
  leafVsize : Nat
  branchSize : Nat
  branchPage : Nat
  branchKsize : Nat
  branchPos : Nat
  bmSize : Nat
  bmRoot : Nat
  bmNextInt : Nat
  metaSize : Nat
  mMetaPage : Nat
  mMagic : Nat
  mVersion : Nat
  mPagesize : Nat
  mRoot : Nat
  mNumPages : Nat
  mFreelist : Nat
  mTxId : Nat
  mHash : Nat
  mMetaPageSz : Nat
  mMagicSz : Nat
  mVersionSz : Nat
  omSize : Nat
  omHash : Nat
  omHashSz : Nat
  elemBucket : Nat
  elemData : Nat
  magic : Nat
  typeBranch : Nat
  typeFreelist : Nat
  typeLeaf : Nat
  typeMeta : Nat
  version : Nat
  deriving DecidableEq, Repr

/-- the fields of the header record that are hashed -/
inductive MetaField where
  | metaPage | magic | version | pagesize | rootPage | nextInt | numPages | freelistPage | txId
  deriving DecidableEq, Repr

namespace Pinned

/-- layout of jammdb 0.11.0 (the pinned release), written out by hand from the struct definitions -/
def layout : Layout where
  pageSize := 40
  pgId := 0
  pgType := 8
  pgCount := 16
  pgOverflow := 24
  pgPtr := 32
  leafSize := 32
  leafType := 0
  leafPos := 8
  leafKsize := 16
  leafVsize := 24
  branchSize := 24
  branchPage := 0
  branchKsize := 8
  branchPos := 16
  bmSize := 16
  bmRoot := 0
  bmNextInt := 8
  metaSize := 72
  mMetaPage := 0
  mMagic := 4
  mVersion := 8
  mPagesize := 16
  mRoot := 24
  mNumPages := 40
  mFreelist := 48
  mTxId := 56
  mHash := 64
  mMetaPageSz := 4
  mMagicSz := 4
  mVersionSz := 4
  omSize := 96
  omHash := 64
  omHashSz := 32
  elemBucket := 1
  elemData := 0
  magic := 0x00ABCDEF
  typeBranch := 1
  typeFreelist := 4
  typeLeaf := 2
  typeMeta := 3
  version := 1

/-- every field that carries meaning must be covered by the checksum -/
def semanticFields : List MetaField :=
  [.metaPage, .magic, .version, .pagesize, .rootPage, .nextInt, .numPages, .freelistPage, .txId]

end Pinned
end Jamm
