/-
Layer 0 — the specification: a nested ordered map with per-bucket insertion counters.

This file is the thing a reader must trust to know what the property theorems say.  A database
state is a finite map from bucket paths (list of bucket names from the root) to a bucket record:
an insertion counter and the bucket's items in strictly ascending key order.  An item is either a
value or the marker "nested bucket" (whose record lives at the extended path).

Every operation mirrors one public jammdb call and returns the documented error kinds.
-/
import Jamm.Model.Order
set_option linter.unusedSectionVars false
open Std

namespace Jamm.Spec

inductive Err where
  | bucketExists | bucketMissing | keyValueMissing | incompatibleValue | readOnlyTx
  deriving DecidableEq, Repr, Inhabited

inductive Item (V : Type) where
  | val (v : V)
  | bkt
  deriving DecidableEq, Repr, Inhabited

structure Bucket (K V : Type) where
  nextInt : Nat
  items : List (K × Item V)
  deriving Repr, Inhabited

abbrev Path (K : Type) := List K

/-- a database state: association list from paths to bucket records -/
abbrev DB (K V : Type) := List (Path K × Bucket K V)

section
variable {K V : Type} [Ord K] [DecidableEq K]

/-! ### sorted association lists -/

/-- keys strictly ascending -/
def Sorted : List (K × α) → Prop
  | [] => True
  | [_] => True
  | (a, _) :: (b, y) :: rest => klt a b = true ∧ Sorted ((b, y) :: rest)

instance decSorted : (l : List (K × α)) → Decidable (Sorted l)
  | [] => isTrue trivial
  | [_] => isTrue trivial
  | (a, _) :: (b, y) :: rest =>
    have := decSorted ((b, y) :: rest)
    inferInstanceAs (Decidable (klt a b = true ∧ Sorted ((b, y) :: rest)))

def lookup (k : K) : List (K × α) → Option α
  | [] => none
  | (a, x) :: rest => if a = k then some x else lookup k rest

/-- insert or replace, keeping ascending order -/
def insert (k : K) (x : α) : List (K × α) → List (K × α)
  | [] => [(k, x)]
  | (a, y) :: rest =>
    if k = a then (k, x) :: rest
    else if klt k a then (k, x) :: (a, y) :: rest
    else (a, y) :: insert k x rest

def erase (k : K) : List (K × α) → List (K × α)
  | [] => []
  | (a, y) :: rest => if a = k then rest else (a, y) :: erase k rest

/-! ### database states -/

def empty : DB K V := [([], { nextInt := 0, items := [] })]

def getBucket (db : DB K V) (p : Path K) : Option (Bucket K V) :=
  (db.find? (fun e => e.1 = p)).map (·.2)

def setBucket (db : DB K V) (p : Path K) (b : Bucket K V) : DB K V :=
  if db.any (fun e => e.1 = p) then db.map (fun e => if e.1 = p then (p, b) else e)
  else db ++ [(p, b)]

/-- remove the bucket at `p` and everything below it -/
def removeTree (db : DB K V) (p : Path K) : DB K V :=
  db.filter (fun e => !(p.isPrefixOf e.1))

/-! ### the public operations.  `p` is the path of the bucket the call is made on; a missing
record at `p` means the handle is stale, which callers rule out (the driver's handle table,
`Driver/Hist.lean`, never lets such a call through). -/

/-- `Bucket::put`: previous key/value pair if the key held a value -/
def put (db : DB K V) (p : Path K) (k : K) (v : V) : Except Err (Option (K × V)) × DB K V :=
  match getBucket db p with
  | none => (.ok none, db)
  | some b =>
    match lookup k b.items with
    | some .bkt => (.error .incompatibleValue, db)
    | some (.val old) => (.ok (some (k, old)), setBucket db p { b with items := insert k (.val v) b.items })
    | none => (.ok none, setBucket db p { nextInt := b.nextInt + 1, items := insert k (.val v) b.items })

/-- `Bucket::get` -/
def get (db : DB K V) (p : Path K) (k : K) : Option (K × Item V) :=
  match getBucket db p with
  | none => none
  | some b => (lookup k b.items).map (fun i => (k, i))

/-- `Bucket::delete` -/
def delete (db : DB K V) (p : Path K) (k : K) : Except Err (K × V) × DB K V :=
  match getBucket db p with
  | none => (.error .keyValueMissing, db)
  | some b =>
    match lookup k b.items with
    | none => (.error .keyValueMissing, db)
    | some .bkt => (.error .incompatibleValue, db)
    | some (.val v) => (.ok (k, v), setBucket db p { b with items := erase k b.items })

/-- `get_bucket` / `create_bucket` / `get_or_create_bucket` (flags as in `bucket_getter`) -/
def bucketGetter (db : DB K V) (p : Path K) (name : K) (shouldCreate mustCreate : Bool) :
    Except Err Unit × DB K V :=
  match getBucket db p with
  | none => (.error .bucketMissing, db)
  | some b =>
    match lookup name b.items with
    | some .bkt => if mustCreate then (.error .bucketExists, db) else (.ok (), db)
    | some (.val _) => (.error .incompatibleValue, db)
    | none =>
      if shouldCreate then
        let db1 := setBucket db p { nextInt := b.nextInt + 1, items := insert name .bkt b.items }
        (.ok (), setBucket db1 (p ++ [name]) { nextInt := 0, items := [] })
      else (.error .bucketMissing, db)

/-- `delete_bucket` -/
def deleteBucket (db : DB K V) (p : Path K) (name : K) : Except Err Unit × DB K V :=
  match getBucket db p with
  | none => (.error .bucketMissing, db)
  | some b =>
    match lookup name b.items with
    | none => (.error .bucketMissing, db)
    | some (.val _) => (.error .incompatibleValue, db)
    | some .bkt =>
      let db1 := removeTree db (p ++ [name])
      (.ok (), setBucket db1 p { b with items := erase name b.items })

def nextInt (db : DB K V) (p : Path K) : Nat :=
  match getBucket db p with
  | none => 0
  | some b => b.nextInt

/-- a full cursor scan: every item in ascending key order -/
def scan (db : DB K V) (p : Path K) : List (K × Item V) :=
  match getBucket db p with
  | none => []
  | some b => b.items

/-! ### seek, ranges, filters — stated on the sorted item list -/

inductive Bound (K : Type) where
  | incl (k : K) | excl (k : K) | unbounded
  deriving Repr, DecidableEq

def aboveLo (lo : Bound K) (k : K) : Bool :=
  match lo with
  | .incl s => kle s k
  | .excl s => klt s k
  | .unbounded => true

def belowHi (hi : Bound K) (k : K) : Bool :=
  match hi with
  | .incl e => kle k e
  | .excl e => klt k e
  | .unbounded => true

/-- what `Bucket::range` must yield -/
def range (items : List (K × α)) (lo hi : Bound K) : List (K × α) :=
  items.filter (fun e => aboveLo lo e.1 && belowHi hi e.1)

def bucketsOf (items : List (K × Item V)) : List K :=
  items.filterMap (fun e => match e.2 with | .bkt => some e.1 | .val _ => none)

def kvPairsOf (items : List (K × Item V)) : List (K × V) :=
  items.filterMap (fun e => match e.2 with | .bkt => none | .val v => some (e.1, v))

/-- the items at or after `k` -/
def fromKey (items : List (K × α)) (k : K) : List (K × α) :=
  items.dropWhile (fun e => klt e.1 k)

/-- the last item strictly before `k` -/
def predOf (items : List (K × α)) (k : K) : Option (K × α) :=
  (items.takeWhile (fun e => klt e.1 k)).getLast?

/-- what `Cursor::seek` followed by iteration may yield: `exists` says whether the key is present;
the iteration starts at the key, or at an immediate neighbour when it is absent, and then every later
item follows in order. -/
def SeekOk (items : List (K × α)) (k : K) (exists_ : Bool) (out : List (K × α)) : Prop :=
  exists_ = (lookup k items).isSome ∧
  (out = fromKey items k ∨
   (exists_ = false ∧ ∃ p, predOf items k = some p ∧ out = p :: fromKey items k))

end

/-! ### transactions: a write transaction works on a copy, commit installs it, drop discards it;
a read transaction keeps the state it started with. -/

structure World (K V : Type) where
  committed : DB K V

end Jamm.Spec
