/-
Layer S — bytes ↔ logical pages.

`decodePage` follows `Page::leaf_elements`, `LeafElement::key/value`, `BranchElement::key`,
`Page::freelist`, `Page::meta` (`page.rs`), with the bounds checks the Rust code does not have: a
decode that would read outside the page's run (or the file) is an error — that is what C05 calls
"every element lies inside its page run".  All integers are little-endian (the code reads them through
native `repr(C)` views on x86-64/aarch64); the header checksum hashes big-endian field images.

The byte source is a function `Nat → UInt8` plus a length, so that the same definitions run on a
`ByteArray` in the driver and are reasoned about abstractly in proofs.
-/
import Jamm.Model.Order
import Jamm.Model.Layout
open Std

namespace Jamm

structure Src where
  size : Nat
  get : Nat → UInt8

namespace Src

/-- `n` bytes starting at `off` -/
def bytes (s : Src) (off n : Nat) : List UInt8 :=
  (List.range n).map (fun i => s.get (off + i))

/-- little-endian unsigned integer of `n` bytes at `off` -/
def le (s : Src) (off n : Nat) : Nat :=
  (List.range n).foldr (fun i acc => (s.get (off + i)).toNat + 256 * acc) 0

end Src

inductive LeafVal where
  | kv (v : Bytes)
  | bkt (root : Nat) (nextInt : Nat)
  deriving DecidableEq, Repr, Inhabited

structure MetaRec where
  metaPage : Nat
  magic : Nat
  version : Nat
  pagesize : Nat
  rootPage : Nat
  nextInt : Nat
  numPages : Nat
  freelistPage : Nat
  txId : Nat
  hash : Nat
  deriving DecidableEq, Repr, Inhabited

inductive LBody where
  | branch (es : List (Bytes × Nat))
  | leaf (es : List (Bytes × LeafVal))
  | freelist (ids : List Nat)
  | hdr (m : MetaRec)
  | other (ty : Nat)
  deriving Repr, Inhabited

structure LPage where
  id : Nat
  overflow : Nat
  count : Nat
  body : LBody
  deriving Repr, Inhabited

inductive DecodeErr where
  | outOfFile      -- the page header itself is outside the file
  | outOfRun       -- an element, key or value lies outside the page's run
  | badElemType (t : Nat)
  | badBucketValue -- a nested-bucket element whose value is not a bucket header
  deriving DecidableEq, Repr, Inhabited

/-! ### checksum -/

def fnvOffset : UInt64 := 0xcbf29ce484222325
def fnvPrime : UInt64 := 0x100000001b3

/-- one FNV-1a step -/
@[inline] def fnvStep (h : UInt64) (b : UInt8) : UInt64 := (h ^^^ b.toUInt64) * fnvPrime

def fnv1a (bs : List UInt8) : UInt64 := bs.foldl fnvStep fnvOffset

/-- big-endian image of `x` on `n` bytes -/
def beBytes (x n : Nat) : List UInt8 :=
  (List.range n).map (fun i => ((x / 256 ^ (n - 1 - i)) % 256).toUInt8)

def fieldBytes (L : Layout) (m : MetaRec) : MetaField → List UInt8
  | .metaPage => beBytes m.metaPage L.mMetaPageSz
  | .magic => beBytes m.magic L.mMagicSz
  | .version => beBytes m.version L.mVersionSz
  | .pagesize => beBytes m.pagesize 8
  | .rootPage => beBytes m.rootPage 8
  | .nextInt => beBytes m.nextInt 8
  | .numPages => beBytes m.numPages 8
  | .freelistPage => beBytes m.freelistPage 8
  | .txId => beBytes m.txId 8

def metaHashInput (L : Layout) (order : List MetaField) (m : MetaRec) : List UInt8 :=
  order.flatMap (fieldBytes L m)

/-- `Meta::hash_self` -/
def metaHash (L : Layout) (order : List MetaField) (m : MetaRec) : Nat :=
  (fnv1a (metaHashInput L order m)).toNat

/-- `Meta::valid` -/
def metaValid (L : Layout) (order : List MetaField) (m : MetaRec) : Bool :=
  m.hash == metaHash L order m

/-! ### decoding -/

section
variable (L : Layout) (s : Src) (pagesize : Nat)

/-- the header record of the page at `base` (no validity judgement) -/
def readMeta (base : Nat) : MetaRec :=
  let o := base + L.pgPtr
  { metaPage := s.le (o + L.mMetaPage) L.mMetaPageSz
    magic := s.le (o + L.mMagic) L.mMagicSz
    version := s.le (o + L.mVersion) L.mVersionSz
    pagesize := s.le (o + L.mPagesize) 8
    rootPage := s.le (o + L.mRoot + L.bmRoot) 8
    nextInt := s.le (o + L.mRoot + L.bmNextInt) 8
    numPages := s.le (o + L.mNumPages) 8
    freelistPage := s.le (o + L.mFreelist) 8
    txId := s.le (o + L.mTxId) 8
    hash := s.le (o + L.mHash) 8 }

def decodeBranchElems (base runEnd : Nat) : Nat → Nat → Except DecodeErr (List (Bytes × Nat))
  | 0, _ => .ok []
  | n + 1, i =>
    let e := base + L.pgPtr + i * L.branchSize
    if e + L.branchSize > runEnd then .error .outOfRun else
    let page := s.le (e + L.branchPage) 8
    let ks := s.le (e + L.branchKsize) 8
    let pos := s.le (e + L.branchPos) 8
    if e + pos + ks > runEnd then .error .outOfRun else
    match decodeBranchElems base runEnd n (i + 1) with
    | .error x => .error x
    | .ok rest => .ok ((s.bytes (e + pos) ks, page) :: rest)

def decodeLeafElems (base runEnd : Nat) : Nat → Nat → Except DecodeErr (List (Bytes × LeafVal))
  | 0, _ => .ok []
  | n + 1, i =>
    let e := base + L.pgPtr + i * L.leafSize
    if e + L.leafSize > runEnd then .error .outOfRun else
    let ty := (s.get (e + L.leafType)).toNat
    let pos := s.le (e + L.leafPos) 8
    let ks := s.le (e + L.leafKsize) 8
    let vs := s.le (e + L.leafVsize) 8
    if e + pos + ks + vs > runEnd then .error .outOfRun else
    let key := s.bytes (e + pos) ks
    let v : Except DecodeErr LeafVal :=
      if ty = L.elemData then .ok (.kv (s.bytes (e + pos + ks) vs))
      else if ty = L.elemBucket then
        if vs = L.bmSize then
          .ok (.bkt (s.le (e + pos + ks + L.bmRoot) 8) (s.le (e + pos + ks + L.bmNextInt) 8))
        else .error .badBucketValue
      else .error (.badElemType ty)
    match v with
    | .error x => .error x
    | .ok v =>
      match decodeLeafElems base runEnd n (i + 1) with
      | .error x => .error x
      | .ok rest => .ok ((key, v) :: rest)

/-- decode the page with id `pid` -/
def decodePage (pid : Nat) : Except DecodeErr LPage :=
  let base := pid * pagesize
  if base + L.pageSize > s.size then .error .outOfFile else
  let ty := (s.get (base + L.pgType)).toNat
  let count := s.le (base + L.pgCount) 8
  let overflow := s.le (base + L.pgOverflow) 8
  let runEnd := base + (overflow + 1) * pagesize
  let mk (b : LBody) : LPage := { id := s.le (base + L.pgId) 8, overflow := overflow, count := count, body := b }
  if ty = L.typeMeta then .ok (mk (.hdr (readMeta L s base)))
  else if runEnd > s.size then .error .outOfRun
  else if ty = L.typeBranch then
    match decodeBranchElems L s base runEnd count 0 with
    | .error x => .error x
    | .ok es => .ok (mk (.branch es))
  else if ty = L.typeLeaf then
    match decodeLeafElems L s base runEnd count 0 with
    | .error x => .error x
    | .ok es => .ok (mk (.leaf es))
  else if ty = L.typeFreelist then
    if base + L.pgPtr + 8 * count > runEnd then .error .outOfRun
    else .ok (mk (.freelist ((List.range count).map (fun i => s.le (base + L.pgPtr + 8 * i) 8))))
  else .ok (mk (.other ty))

end

/-! ### choosing the header (`DBInner::meta`, `db.rs:284`), new format only here; the legacy
format is the same procedure with the SHA3 digest (`slotValidOld` below; the digest function is a
parameter, the driver passes its own SHA3-256, `Driver/Sha3.lean`). -/

inductive OpenErr where
  | pagesizeMismatch     -- documented panic: file has a different page size
  | noValidMeta          -- both slots invalid in both formats
  | tooSmall
  deriving DecidableEq, Repr, Inhabited

/-- a slot is usable iff its page-type byte is META and its checksum verifies -/
def slotValid (L : Layout) (order : List MetaField) (s : Src) (pagesize slot : Nat) : Option MetaRec :=
  let base := slot * pagesize
  if base + L.pgPtr + L.metaSize > s.size then none
  else if (s.get (base + L.pgType)).toNat ≠ L.typeMeta then none
  else
    let m := readMeta L s base
    if metaValid L order m then some m else none

/-- the selection between the two slots, shared by both header formats (`check_meta!`): `none` when
neither slot is valid -/
def selectSlots (v0 v1 : Option MetaRec) (pagesize : Nat) : Except OpenErr (Option MetaRec) :=
  match v0 with
  | some a => if a.pagesize ≠ pagesize then .error .pagesizeMismatch else
    match v1 with
    | some b =>
      if b.pagesize ≠ pagesize then .error .pagesizeMismatch
      else if a.txId > b.txId then .ok (some a) else .ok (some b)
    | none => .ok (some a)
  | none =>
    match v1 with
    | some b => if b.pagesize ≠ pagesize then .error .pagesizeMismatch else .ok (some b)
    | none => .ok none

def openSelect (L : Layout) (order : List MetaField) (s : Src) (pagesize : Nat) : Except OpenErr MetaRec :=
  match selectSlots (slotValid L order s pagesize 0) (slotValid L order s pagesize 1) pagesize with
  | .ok (some m) => .ok m
  | .ok none => .error .noValidMeta
  | .error e => .error e

/-- a legacy (≤ 0.10) slot: same fields, 32-byte digest of the big-endian field images -/
def slotValidOld (L : Layout) (order : List MetaField) (digest : List UInt8 → List UInt8) (s : Src)
    (pagesize slot : Nat) : Option MetaRec :=
  let base := slot * pagesize
  if base + L.pgPtr + L.omSize > s.size then none
  else if (s.get (base + L.pgType)).toNat ≠ L.typeMeta then none
  else
    let m := readMeta L s base
    if s.bytes (base + L.pgPtr + L.omHash) L.omHashSz == digest (metaHashInput L order m) then some m else none

/-- `DBInner::meta`: the current format first, then the legacy one -/
def openAny (L : Layout) (order oldOrder : List MetaField) (digest : List UInt8 → List UInt8) (s : Src)
    (pagesize : Nat) : Except OpenErr MetaRec :=
  match selectSlots (slotValid L order s pagesize 0) (slotValid L order s pagesize 1) pagesize with
  | .ok (some m) => .ok m
  | .error e => .error e
  | .ok none =>
    match selectSlots (slotValidOld L oldOrder digest s pagesize 0) (slotValidOld L oldOrder digest s pagesize 1) pagesize with
    | .ok (some m) => .ok m
    | .ok none => .error .noValidMeta
    | .error e => .error e

end Jamm
