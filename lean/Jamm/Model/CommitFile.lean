/-
Layer S ∘ Layer P at the level of FILE BYTES: what `open` shows of a file, and what a commit does to a file.

`openFile` is `DBInner::open` after the lock: choose the header (`openSelect` = `DBInner::meta`, current
format), walk every bucket from the root page the header names (`viewBucket`), decode the free-list page
the header names (`Freelist::init`).  `commitFile` is `TxInner::write_data` as a function on bytes: every
node of every bucket at its run (`writeView`), the free-list page (`writeFreelistPage`), then the sealed
header record into a header slot (`writeMetaPage`).  Which runs the nodes get is a parameter (`ov`, the page
ids inside the view): the theorems (`Proofs/CommitFileLemmas.lean`, `Props/C02.lean`) only need them to be
pages the previous state does not own — which is what the allocator of Layer A guarantees (free-list theorems)
and what the run checks on the observed writes of every real commit (`jmodel cow`).
-/
import Jamm.Model.EncodeView
import Jamm.Model.EncodeMeta
namespace Jamm

/-- what a successful `open` holds: the chosen header record, every bucket as read from the root page, the
persisted free list and the length of its page run -/
structure Opened where
  hdr : MetaRec
  view : BucketView
  free : List Nat
  flOverflow : Nat

section
variable (L : Layout) (order : List MetaField) (pagesize : Nat)

/-- open a file: header choice, then the walk from the root page, then the free-list page; `none` when any of
these is refused -/
def openFile (fuel : Nat) (s : Src) : Option Opened :=
  match openSelect L order s pagesize with
  | .ok m =>
    match viewBucket (pageStoreOf L pagesize s) fuel m.rootPage m.nextInt with
    | .ok v =>
      match decodePage L s pagesize m.freelistPage with
      | .ok p =>
        match p.body with
        | .freelist ids => some { hdr := m, view := v, free := ids, flOverflow := p.overflow }
        | _ => none
      | .error _ => none
    | .error _ => none
  | .error _ => none

/-- the pages a state owns besides its header page: the free-list run and the run of every node of every bucket -/
def Opened.runs (ov : Nat → Nat) (st : Opened) : List (Nat × Nat) :=
  (st.hdr.freelistPage, st.flOverflow) :: st.view.allRuns ov

/-- the data writes of a commit: the nodes of every bucket, then the free-list page -/
def commitData (ov : Nat → Nat) (st : Opened) (s : Src) : Src :=
  writeFreelistPage L pagesize st.hdr.freelistPage st.flOverflow st.free (writeView L pagesize ov st.view s)

/-- a whole commit: the data writes, then the header page into `slot` -/
def commitFile (ov : Nat → Nat) (slot : Nat) (st : Opened) (s : Src) : Src :=
  writeMetaPage L pagesize slot st.hdr (commitData L pagesize ov st s)

end
end Jamm
