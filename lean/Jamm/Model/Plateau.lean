/-
Layer A — the quantities of the history-level plateau statement (C10), as executable predicates: the
number of pages below the high-water mark that are not free, a bound on the requested run lengths of a
history, and a bound on the non-free count after every event of a history.
-/
import Jamm.Model.FreelistInv
namespace Jamm

/-- pages below the mark that are not free (live, or pending for a reader / the next writer) -/
def Sys.nonFree (s : Sys) : Nat := s.numPages - 2 - s.shared.free.length

/-- the same count on a write transaction's private list -/
def TxFL.nonFree (t : TxFL) : Nat := t.numPages - 2 - t.fl.free.length

/-- every request of this event (if it is a committing writer) is at most `K` pages -/
def Ev.requestsLe (K : Nat) : Ev → Bool
  | .commitW w => w.requests.all (fun k => k ≤ K)
  | _ => true

/-- every request of every committing writer in the history is at most `K` pages -/
def requestsLe (K : Nat) : List Ev → Bool
  | [] => true
  | ev :: rest => ev.requestsLe K && requestsLe K rest

/-- the non-free count after every event of the history stays `≤ n` (state by state, stepping exactly
as `Sys.runEvs` does) -/
def Sys.nonFreeLe (s : Sys) (n : Nat) : List Ev → Bool
  | [] => true
  | ev :: rest => decide ((s.step ev).nonFree ≤ n) && (s.step ev).nonFreeLe n rest

end Jamm
