/-
C14 — the signature-level discipline that keeps mapped memory inside its transaction.

This is NOT a model of rustc's borrow checker.  It is the rule the public signatures are meant to
follow, evaluated over the table the translator regenerates from rustdoc JSON (`Jamm.Gen.apiMethods`,
`apiTypes`):

* a value *can hold bytes of the memory map* if its type mentions one of the handle / data types or a
  byte slice (`outMapped`);
* such a value is *transaction-bounded* if its type mentions the transaction-borrow lifetime `'b`, or it
  borrows from `self` (`'self`: an elided or named output lifetime tied to `&self`) and `self` itself is
  transaction-bounded, or it mentions `'r`/`'a` tied to a bounded receiver;
* `Send` is evaluated as an auto trait over the private fields, with std base facts.
The correspondence run compiles, with the real `rustc`, one escape program per table entry and compares
rustc's verdict with `escapeRejected`.
-/
namespace Jamm

structure ApiType where
  name : String
  lifetimes : List String
  fields : List (List String)   -- per field: named types / markers occurring in it
  isPublic : Bool
  deriving Repr, DecidableEq

structure ApiMethod where
  owner : String
  name : String
  trait_ : String
  forRef : Bool          -- `impl Trait for &Owner`
  hasSelf : Bool
  selfByRef : Bool
  ownerLts : List String
  outLts : List String   -- lifetimes the output type mentions; "'self" = borrows from `&self`
  outMapped : Bool
  deriving Repr, DecidableEq

/-- the lifetime every handed-out value must carry: the borrow of the transaction -/
def txBorrow : String := "'b"

/-- a receiver is transaction-bounded if its type has the `'b` parameter, or it is the transaction
itself borrowed (`Tx<'tx>` methods take `&'b self`) -/
def ownerBounded (m : ApiMethod) : Bool := m.ownerLts.contains txBorrow

/-- is the output forced to die with the transaction? -/
def outBounded (m : ApiMethod) : Bool :=
  m.outLts.contains txBorrow ||
  (m.outLts.contains "'self" && m.selfByRef && (ownerBounded m || m.owner == "Tx" || m.owner == "DB")) ||
  -- consuming a bounded receiver into an iterator over it (`KVPairs<Self>`, `Self::IntoIter`)
  (m.hasSelf && !m.selfByRef && ownerBounded m && m.outLts.any (fun l => m.ownerLts.contains l) && m.outLts.contains txBorrow)

/-- the discipline: whatever can hold mapped bytes is transaction-bounded -/
def methodOk (m : ApiMethod) : Bool := !m.outMapped || outBounded m

/-- prediction for the escape program of a method: does carrying the result past the end of the
transaction get rejected by the compiler? -/
def escapeRejected (m : ApiMethod) : Bool := outBounded m

/-! ### auto trait `Send`, over the regenerated field table -/

/-- std base facts: markers that make a type `!Send` when they occur in a field -/
def notSendMarkers : List String := ["Rc", "RefMut", "Ref", "MutexGuard", "RwLockReadGuard", "RwLockWriteGuard", "*", "NonNull", "PhantomData*"]

/-- one round of the fixpoint: a type is `!Send` if a field mentions a `!Send` marker or a type already
known `!Send`; `&T` needs `T: Sync` — `RefCell`, `Cell` are `!Sync` -/
def notSendStep (types : List ApiType) (known : List String) : List String :=
  (types.filter (fun t =>
    known.contains t.name ||
    t.fields.any (fun f =>
      f.any (fun n => notSendMarkers.contains n || known.contains n) ||
      (f.contains "&" && f.any (fun n => n == "RefCell" || n == "Cell" || known.contains n))))).map (·.name)

def notSendFix (types : List ApiType) : Nat → List String → List String
  | 0, k => k
  | n + 1, k => notSendFix types n (notSendStep types k)

def notSend (types : List ApiType) (name : String) : Bool := (notSendFix types types.length []).contains name

/-! ### which types can hold bytes of the memory map (closure over the regenerated private fields) -/

/-- the payload types: `Bytes` (a slice of the map or an owned copy) and the map itself -/
def mappedSeed : List String := ["Bytes", "Mmap"]

/-- the owners of the map: holding the database handle borrows nothing from a transaction -/
def mapOwners : List String := ["DB", "DBInner", "OpenOptions"]

def mappedStep (types : List ApiType) (known : List String) : List String :=
  (types.filter (fun t => !mapOwners.contains t.name &&
    (mappedSeed.contains t.name || t.fields.any (fun f => f.any (fun n => mappedSeed.contains n || known.contains n))))).map (·.name)

def mappedFix (types : List ApiType) : Nat → List String → List String
  | 0, k => k
  | n + 1, k => mappedFix types n (mappedStep types k)

/-- every type of the crate that (transitively, through its fields) can hold bytes of the map -/
def mappedTypes (types : List ApiType) : List String := mappedFix types types.length []

end Jamm
