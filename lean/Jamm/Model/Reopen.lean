/-
Layer A — close and reopen (C10, "also across close and reopen").  On close every transaction is gone; on
open `Freelist::init` reads the persisted list (`FL.pages`: free ∪ pending, sorted, each page once) and
everything on it is free.  The header (current snapshot, page mark) is what the last commit left.

A history with reopens is a list of segments (each a history of events) separated by close/reopen; the
`Ev` inductive is unchanged.
-/
import Jamm.Model.Plateau
namespace Jamm

/-- close and reopen the database: all transactions are closed, the persisted list (`FL.pages`) is read back and
everything on it is free (`Freelist::init`); the header (current snapshot, page mark) is what it was -/
def Sys.reopen (s : Sys) : Sys :=
  { s with shared := FL.init s.shared.pages, readers := [] }

/-- the state after the events of one segment (stepping exactly as `Sys.runEvs` / `Sys.nonFreeLe` do) -/
def Sys.stepAll (s : Sys) (evs : List Ev) : Sys := evs.foldl Sys.step s

/-- every request of every committing writer of every segment is at most `K` pages -/
def requestsLeSegs (K : Nat) : List (List Ev) → Bool
  | [] => true
  | seg :: rest => requestsLe K seg && requestsLeSegs K rest

/-- the non-free count after every event of every segment stays `≤ n` (state by state, stepping exactly as
`Sys.runSegs` does: the events of a segment, then close/reopen, then the next segment) -/
def Sys.nonFreeLeSegs (s : Sys) (n : Nat) : List (List Ev) → Bool
  | [] => true
  | seg :: rest => s.nonFreeLe n seg && ((s.stepAll seg).reopen).nonFreeLeSegs n rest

end Jamm
