/-
Layer T/API — the database as the code holds it: every bucket is a B+tree (`Model/Tree.lean`), the public
operations are the control flow of `bucket.rs` (`put`, `get`, `delete`, `bucket_getter`, `delete_bucket`) over
`Tree.lookup` / `Tree.put` / `Tree.del`, and commit rewrites every bucket's tree.  The specification
(`Model/Spec.lean`) is the same thing with a sorted list per bucket; `abs` forgets the trees.
-/
import Jamm.Model.Spec
import Jamm.Model.Tree
set_option linter.unusedSectionVars false
open Std

namespace Jamm.TDB
open Jamm.Spec (Err Item Path)

structure TBucket (K V : Type) where
  nextInt : Nat
  tree : Tree K (Item V)

/-- a database state: association list from bucket paths to (counter, tree) -/
abbrev DB (K V : Type) := List (Path K × TBucket K V)

section
variable {K V : Type} [Ord K] [DecidableEq K]

def getBucket (db : DB K V) (p : Path K) : Option (TBucket K V) :=
  (db.find? (fun e => e.1 = p)).map (·.2)

def setBucket (db : DB K V) (p : Path K) (b : TBucket K V) : DB K V :=
  if db.any (fun e => e.1 = p) then db.map (fun e => if e.1 = p then (p, b) else e)
  else db ++ [(p, b)]

def removeTree (db : DB K V) (p : Path K) : DB K V :=
  db.filter (fun e => !(p.isPrefixOf e.1))

/-- what a point lookup in a bucket's tree finds -/
def find (t : Tree K (Item V)) (k : K) : Option (Item V) := (t.lookup k).map (·.2)

/-- the root leaf of a new bucket -/
def newTree : Tree K (Item V) := .leaf 0 []

def put (db : DB K V) (p : Path K) (k : K) (v : V) : Except Err (Option (K × V)) × DB K V :=
  match getBucket db p with
  | none => (.ok none, db)
  | some b =>
    match find b.tree k with
    | some .bkt => (.error .incompatibleValue, db)
    | some (.val old) => (.ok (some (k, old)), setBucket db p { b with tree := b.tree.put k (.val v) })
    | none => (.ok none, setBucket db p { nextInt := b.nextInt + 1, tree := b.tree.put k (.val v) })

def get (db : DB K V) (p : Path K) (k : K) : Option (K × Item V) :=
  match getBucket db p with
  | none => none
  | some b => (find b.tree k).map (fun i => (k, i))

def delete (db : DB K V) (p : Path K) (k : K) : Except Err (K × V) × DB K V :=
  match getBucket db p with
  | none => (.error .keyValueMissing, db)
  | some b =>
    match find b.tree k with
    | none => (.error .keyValueMissing, db)
    | some .bkt => (.error .incompatibleValue, db)
    | some (.val v) => (.ok (k, v), setBucket db p { b with tree := b.tree.del k })

def bucketGetter (db : DB K V) (p : Path K) (name : K) (shouldCreate mustCreate : Bool) :
    Except Err Unit × DB K V :=
  match getBucket db p with
  | none => (.error .bucketMissing, db)
  | some b =>
    match find b.tree name with
    | some .bkt => if mustCreate then (.error .bucketExists, db) else (.ok (), db)
    | some (.val _) => (.error .incompatibleValue, db)
    | none =>
      if shouldCreate then
        let db1 := setBucket db p { nextInt := b.nextInt + 1, tree := b.tree.put name .bkt }
        (.ok (), setBucket db1 (p ++ [name]) { nextInt := 0, tree := newTree })
      else (.error .bucketMissing, db)

def deleteBucket (db : DB K V) (p : Path K) (name : K) : Except Err Unit × DB K V :=
  match getBucket db p with
  | none => (.error .bucketMissing, db)
  | some b =>
    match find b.tree name with
    | none => (.error .bucketMissing, db)
    | some (.val _) => (.error .incompatibleValue, db)
    | some .bkt =>
      let db1 := removeTree db (p ++ [name])
      (.ok (), setBucket db1 p { b with tree := b.tree.del name })

def nextInt (db : DB K V) (p : Path K) : Nat :=
  match getBucket db p with
  | none => 0
  | some b => b.nextInt

def scan (db : DB K V) (p : Path K) : List (K × Item V) :=
  match getBucket db p with
  | none => []
  | some b => b.tree.flatten

/-- commit: every bucket's tree is rewritten by `f` (for the code: `commitTree` with that bucket's rebalance
steps and touched keys) -/
def commitWith (f : Path K → Tree K (Item V) → Tree K (Item V)) (db : DB K V) : DB K V :=
  db.map (fun e => (e.1, { e.2 with tree := f e.1 e.2.tree }))

/-- forget the trees -/
def abs (db : DB K V) : Spec.DB K V :=
  db.map (fun e => (e.1, ({ nextInt := e.2.nextInt, items := e.2.tree.flatten } : Spec.Bucket K V)))

/-- every bucket's tree is well-formed -/
def AllWF (db : DB K V) : Prop := ∀ e ∈ db, WF none none e.2.tree

/-- the write operations of a transaction -/
inductive Op (K V : Type) where
  | put (p : Path K) (k : K) (v : V)
  | delete (p : Path K) (k : K)
  | getter (p : Path K) (name : K) (shouldCreate mustCreate : Bool)
  | deleteBucket (p : Path K) (name : K)

def applyOp (db : DB K V) : Op K V → DB K V
  | .put p k v => (put db p k v).2
  | .delete p k => (delete db p k).2
  | .getter p n s m => (bucketGetter db p n s m).2
  | .deleteBucket p n => (deleteBucket db p n).2

end
end Jamm.TDB

namespace Jamm.Spec
variable {K V : Type} [Ord K] [DecidableEq K]

def applyTOp (db : DB K V) : TDB.Op K V → DB K V
  | .put p k v => (put db p k v).2
  | .delete p k => (delete db p k).2
  | .getter p n s m => (bucketGetter db p n s m).2
  | .deleteBucket p n => (deleteBucket db p n).2

end Jamm.Spec
