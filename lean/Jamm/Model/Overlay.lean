/-
Layer T: the overlay a write transaction builds over a committed tree, predicted without knowing the order
of its edits.  Branch entries are not edited before commit, so the overlay is the committed tree with its
leaves emptied and every item of the transaction's current contents put back where `put` routes it.
-/
import Jamm.Model.Tree
namespace Jamm

section
variable {K E : Type}

mutual
/-- the tree with every leaf emptied (branch keys and page ids kept) -/
def Tree.emptied : Tree K E → Tree K E
  | .leaf p _ => .leaf p []
  | .branch p kids => .branch p (Forest.emptied kids)
def Forest.emptied : Forest K E → Forest K E
  | .nil => .nil
  | .cons k t rest => .cons k (Tree.emptied t) (Forest.emptied rest)
end

variable [Ord K] [DecidableEq K]

/-- put every item into the emptied tree -/
def Tree.refill (t : Tree K E) (items : List (K × E)) : Tree K E :=
  items.foldl (fun acc x => acc.put x.1 x.2) t.emptied

end
end Jamm
