/-
Layer S — which FILE bytes of a header (meta) page are checked when the page is opened.

`readMeta` (`Jamm/Model/Codec.lean`) reads every field of the record little-endian from its layout offset;
`fieldOff` / `fieldSz` name, per hashed field, the offset (relative to the start of the record, i.e. to
`base + L.pgPtr`) and the width `readMeta` uses — `readMeta_field` (`Jamm/Proofs/MetaBytes.lean`) proves
they are the ones `readMeta` uses, and `fieldBytes_eq` that `fieldSz` is the width the checksum hashes.
`checkedOffsets` lists, relative to the start of the header page, the page-type byte, every byte of every
hashed field and every byte of the stored checksum.  Everything is computed from the layout.
-/
import Jamm.Model.Codec

namespace Jamm

/-- offset of a hashed field relative to the start of the header record, as `readMeta` addresses it -/
def fieldOff (L : Layout) : MetaField → Nat
  | .metaPage => L.mMetaPage
  | .magic => L.mMagic
  | .version => L.mVersion
  | .pagesize => L.mPagesize
  | .rootPage => L.mRoot + L.bmRoot
  | .nextInt => L.mRoot + L.bmNextInt
  | .numPages => L.mNumPages
  | .freelistPage => L.mFreelist
  | .txId => L.mTxId

/-- width in bytes of a hashed field, as `readMeta` reads it and `fieldBytes` hashes it -/
def fieldSz (L : Layout) : MetaField → Nat
  | .metaPage => L.mMetaPageSz
  | .magic => L.mMagicSz
  | .version => L.mVersionSz
  | .pagesize => 8
  | .rootPage => 8
  | .nextInt => 8
  | .numPages => 8
  | .freelistPage => 8
  | .txId => 8

/-- the value of a hashed field of a record -/
def MetaRec.field (m : MetaRec) : MetaField → Nat
  | .metaPage => m.metaPage
  | .magic => m.magic
  | .version => m.version
  | .pagesize => m.pagesize
  | .rootPage => m.rootPage
  | .nextInt => m.nextInt
  | .numPages => m.numPages
  | .freelistPage => m.freelistPage
  | .txId => m.txId

/-- the file offsets (relative to the start of header page `slot`) of the bytes of one hashed field -/
def fieldOffsets (L : Layout) (f : MetaField) : List Nat :=
  List.range' (L.pgPtr + fieldOff L f) (fieldSz L f)

/-- the file offsets (relative to the start of header page `slot`) of the stored checksum -/
def checksumOffsets (L : Layout) : List Nat := List.range' (L.pgPtr + L.mHash) 8

/-- the file offsets (relative to the start of header page `slot`) whose bytes are checked: the page-type
byte, every byte of every hashed field, every byte of the stored checksum -/
def checkedOffsets (L : Layout) (order : List MetaField) : List Nat :=
  L.pgType :: (order.flatMap (fieldOffsets L) ++ checksumOffsets L)

end Jamm
