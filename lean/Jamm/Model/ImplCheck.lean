/-
`TxInner::check` (`tx.rs:394`), the database's own consistency check (run by `DB::check` and, in strict
mode, by every commit): a depth-first walk from the root bucket's root page and the free-list page over a
set of not-yet-seen page ids.  Modelled on the decoded page store: the element types of a leaf page are
already validated by the decoder.  Theorem (`Proofs/ImplCheckLemmas.lean`): whatever file the independent
checker `checkFile` accepts, this check accepts too.
-/
import Jamm.Model.FileCheck
namespace Jamm

/-- remove each id in turn; `none` as soon as one is not (any more) in the set -/
def removeEach : List Nat → List Nat → Option (List Nat)
  | [], unused => some unused
  | p :: rest, unused => if unused.contains p then removeEach rest (unused.erase p) else none

/-- `last >= key` for consecutive keys is an error: keys must be strictly ascending -/
def strictlyAscending : List Bytes → Bool
  | [] => true
  | [_] => true
  | a :: b :: rest => klt a b && strictlyAscending (b :: rest)

inductive ImplCheckErr where
  | missing (p : Nat)            -- "Page p missing from unused_pages" (reached twice, or out of range)
  | overflowMissing (p : Nat)
  | unreadable (p : Nat)         -- the real code would read outside the map
  | unsorted (p : Nat)
  | wrongFreelist (p : Nat)
  | freelistEntry (p : Nat)
  | badType (p : Nat)
  | unreachable (ps : List Nat)
  | fuel
  deriving Repr, DecidableEq

/-- the `while let Some(page_id) = page_stack.pop()` loop; the head of `stack` is the top -/
def implCheckLoop (pg : PageStore) (flPage : Nat) : Nat → List Nat → List Nat → Except ImplCheckErr (List Nat)
  | 0, _, _ => .error .fuel
  | _ + 1, [], unused => .ok unused
  | fuel + 1, pid :: stack, unused =>
    if !unused.contains pid then .error (.missing pid) else
    match pg pid with
    | none => .error (.unreadable pid)
    | some p =>
      match removeEach ((List.range p.overflow).map (· + pid + 1)) (unused.erase pid) with
      | none => .error (.overflowMissing pid)
      | some unused =>
        match p.body with
        | .branch es =>
          if !strictlyAscending (es.map (·.1)) then .error (.unsorted pid)
          else implCheckLoop pg flPage fuel ((es.map (·.2)).reverse ++ stack) unused
        | .leaf es =>
          if !strictlyAscending (es.map (·.1)) then .error (.unsorted pid)
          else implCheckLoop pg flPage fuel (((subBuckets es).map (·.2.1)).reverse ++ stack) unused
        | .freelist ids =>
          if pid != flPage then .error (.wrongFreelist pid) else
          match removeEach ids unused with
          | none => .error (.freelistEntry pid)
          | some unused => implCheckLoop pg flPage fuel stack unused
        | _ => .error (.badType pid)

/-- `TxInner::check` for the header `mt` -/
def implCheck (mt : MetaRec) (pg : PageStore) : Except ImplCheckErr Unit :=
  match implCheckLoop pg mt.freelistPage (mt.numPages + 2) [mt.freelistPage, mt.rootPage]
      ((List.range (mt.numPages - 2)).map (· + 2)) with
  | .error e => .error e
  | .ok [] => .ok ()
  | .ok rest => .error (.unreachable rest)

end Jamm
