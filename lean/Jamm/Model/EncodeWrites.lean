/-
The page writer as an explicit list of (offset, bytes) writes — the form the correspondence run
evaluates against the real bytes (each write must already be what the file holds) — and its equality
with the recursive writer of `Encode.lean`.
-/
import Jamm.Model.Encode
namespace Jamm

section
variable (L : Layout)

def leafElemWrites (base n : Nat) : List (Bytes × LeafVal) → Nat → Nat → List (Nat × List UInt8)
  | [], _, _ => []
  | (k, v) :: rest, i, doff =>
    let e := base + L.pgPtr + i * L.leafSize
    let vb := v.bytes L
    let pos := (n - i) * L.leafSize + doff
    [(e + L.leafType, [(v.ty L).toUInt8]), (e + L.leafPos, leBytes pos 8), (e + L.leafKsize, leBytes k.length 8),
     (e + L.leafVsize, leBytes vb.length 8), (e + pos, k ++ vb)] ++
    leafElemWrites base n rest (i + 1) (doff + k.length + vb.length)

def branchElemWrites (base n : Nat) : List (Bytes × Nat) → Nat → Nat → List (Nat × List UInt8)
  | [], _, _ => []
  | (k, page) :: rest, i, doff =>
    let e := base + L.pgPtr + i * L.branchSize
    let pos := (n - i) * L.branchSize + doff
    [(e + L.branchPage, leBytes page 8), (e + L.branchKsize, leBytes k.length 8), (e + L.branchPos, leBytes pos 8),
     (e + pos, k)] ++
    branchElemWrites base n rest (i + 1) (doff + k.length)

def headerWrites (base id ty count overflow : Nat) : List (Nat × List UInt8) :=
  [(base + L.pgId, leBytes id 8), (base + L.pgType, [ty.toUInt8]), (base + L.pgCount, leBytes count 8),
   (base + L.pgOverflow, leBytes overflow 8)]

def leafPageWrites (pagesize pid overflow : Nat) (es : List (Bytes × LeafVal)) : List (Nat × List UInt8) :=
  headerWrites L (pid * pagesize) pid L.typeLeaf es.length overflow ++
  leafElemWrites L (pid * pagesize) es.length es 0 0

def branchPageWrites (pagesize pid overflow : Nat) (es : List (Bytes × Nat)) : List (Nat × List UInt8) :=
  headerWrites L (pid * pagesize) pid L.typeBranch es.length overflow ++
  branchElemWrites L (pid * pagesize) es.length es 0 0

def applyWrites (ws : List (Nat × List UInt8)) (s : Src) : Src := ws.foldl (fun s w => s.write w.1 w.2) s

theorem applyWrites_append (a b : List (Nat × List UInt8)) (s : Src) :
    applyWrites (a ++ b) s = applyWrites b (applyWrites a s) := by
  simp [applyWrites, List.foldl_append]

theorem writeLeafElems_eq (base n : Nat) (es : List (Bytes × LeafVal)) (i doff : Nat) (s : Src) :
    writeLeafElems L base n es i doff s = applyWrites (leafElemWrites L base n es i doff) s := by
  induction es generalizing i doff s with
  | nil => rfl
  | cons e rest ih =>
    obtain ⟨k, v⟩ := e
    simp only [writeLeafElems, leafElemWrites, applyWrites_append]
    rw [ih]
    rfl

theorem writeBranchElems_eq (base n : Nat) (es : List (Bytes × Nat)) (i doff : Nat) (s : Src) :
    writeBranchElems L base n es i doff s = applyWrites (branchElemWrites L base n es i doff) s := by
  induction es generalizing i doff s with
  | nil => rfl
  | cons e rest ih =>
    obtain ⟨k, v⟩ := e
    simp only [writeBranchElems, branchElemWrites, applyWrites_append]
    rw [ih]
    rfl

/-- the recursive writer is the list of writes applied in order -/
theorem writeLeafPage_eq (pagesize pid overflow : Nat) (es : List (Bytes × LeafVal)) (s : Src) :
    writeLeafPage L pagesize pid overflow es s = applyWrites (leafPageWrites L pagesize pid overflow es) s := by
  simp only [writeLeafPage, leafPageWrites, applyWrites_append, writeLeafElems_eq]
  rfl

theorem writeBranchPage_eq (pagesize pid overflow : Nat) (es : List (Bytes × Nat)) (s : Src) :
    writeBranchPage L pagesize pid overflow es s = applyWrites (branchPageWrites L pagesize pid overflow es) s := by
  simp only [writeBranchPage, branchPageWrites, applyWrites_append, writeBranchElems_eq]
  rfl

/-- a write whose bytes the source already holds changes nothing -/
def Src.holds (s : Src) (w : Nat × List UInt8) : Bool := s.bytes w.1 w.2.length == w.2

end
end Jamm
