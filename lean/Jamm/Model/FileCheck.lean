/-
Layer S/R — the independent file checker (`WFFile`), executable.

From the bytes of a database file: choose the header as `DBInner::meta` does, unfold every bucket's
tree from its root page, check each tree with `wfb` (the executable form of `WF`), collect every page
run reached, read the free list, and check the accounting: the page runs reached through
branch / leaf / nested-bucket links, the free-list run and the free-list entries are pairwise
disjoint and together are exactly the pages `2 .. numPages-1` (C05).  Shares no code with jammdb.
-/
import Jamm.Model.Codec
import Jamm.Model.Tree
open Std

namespace Jamm

section
variable {K E : Type} [Ord K]

def inLoB (lo : Option K) (k : K) : Bool := match lo with | none => true | some l => kle l k
def inHiB (hi : Option K) (k : K) : Bool := match hi with | none => true | some h => klt k h

def sortedB : List (K × E) → Bool
  | [] => true
  | [_] => true
  | (a, _) :: (b, y) :: rest => klt a b && sortedB ((b, y) :: rest)

mutual
/-- executable `WF` -/
def wfb (lo hi : Option K) : Tree K E → Bool
  | .leaf _ es => sortedB es && es.all (fun e => inLoB lo e.1 && inHiB hi e.1)
  | .branch _ kids => wffb lo hi kids
def wffb (lo hi : Option K) : Forest K E → Bool
  | .nil => false
  | .cons _ t .nil => wfb lo hi t
  | .cons k t (.cons k' t' rest) =>
    klt k k' && inLoB lo k' && inHiB hi k' && wfb lo (some k') t && wffb (some k') hi (.cons k' t' rest)
end

end

abbrev PageStore := Nat → Option LPage

/-! ### unfolding a bucket's tree from the page store -/

mutual
def unfoldT (pg : PageStore) : Nat → Nat → Option (Tree Bytes LeafVal)
  | 0, _ => none
  | fuel + 1, pid =>
    match pg pid with
    | some p =>
      match p.body with
      | .leaf es => some (.leaf pid es)
      | .branch es => (unfoldF pg fuel es).map (Tree.branch pid)
      | _ => none
    | none => none
def unfoldF (pg : PageStore) : Nat → List (Bytes × Nat) → Option (Forest Bytes LeafVal)
  | _, [] => some .nil
  | fuel, (k, c) :: rest =>
    match unfoldT pg fuel c, unfoldF pg fuel rest with
    | some t, some f => some (.cons k t f)
    | _, _ => none
end

mutual
/-- page ids of the nodes of a tree, in pre-order -/
def Tree.pids {K E : Type} : Tree K E → List Nat
  | .leaf p _ => [p]
  | .branch p kids => p :: Forest.pids kids
def Forest.pids {K E : Type} : Forest K E → List Nat
  | .nil => []
  | .cons _ t rest => Tree.pids t ++ Forest.pids rest
end

structure BucketView where
  tree : Tree Bytes LeafVal
  nextInt : Nat
  subs : List (Bytes × BucketView)

/-- all nested-bucket elements of a bucket's contents -/
def subBuckets (items : List (Bytes × LeafVal)) : List (Bytes × Nat × Nat) :=
  items.filterMap (fun e => match e.2 with | .bkt r n => some (e.1, r, n) | .kv _ => none)

inductive FileErr where
  | open_ (e : OpenErr)
  | decode (pid : Nat) (e : DecodeErr)
  | notATree (pid : Nat)          -- page missing / wrong type / cycle (fuel exhausted)
  | notWF (root : Nat)            -- order / separator violation in the tree rooted there
  | badFreelist
  | shortFile
  | accounting (detail : String)  -- some page reached twice or not at all
  deriving Repr, Inhabited

/-- the nested buckets of a bucket, viewed one by one with `f` (the view of one bucket from its root page
and counter); the first error in entry order wins -/
def viewSubs (f : Nat → Nat → Except FileErr BucketView) :
    List (Bytes × Nat × Nat) → Except FileErr (List (Bytes × BucketView))
  | [] => .ok []
  | (k, r, n) :: rest =>
    match f r n, viewSubs f rest with
    | .ok v, .ok vs => .ok ((k, v) :: vs)
    | .error e, _ => .error e
    | _, .error e => .error e

def viewBucket (pg : PageStore) (fuel : Nat) (root nextInt : Nat) : Except FileErr BucketView :=
  match fuel with
  | 0 => .error (.notATree root)
  | fuel' + 1 =>
    match unfoldT pg (fuel' + 1) root with
    | none => .error (.notATree root)
    | some t =>
      if !wfb (K := Bytes) none none t then .error (.notWF root) else
      match viewSubs (viewBucket pg fuel') (subBuckets t.flatten) with
      | .ok subs => .ok { tree := t, nextInt := nextInt, subs := subs }
      | .error e => .error e

def BucketView.runs (pg : PageStore) (b : BucketView) : List (Nat × Nat) :=
  (b.tree.pids.map (fun p => (p, match pg p with | some q => q.overflow + 1 | none => 1)))
    ++ b.subs.flatMap (fun s => s.2.runs pg)
termination_by sizeOf b
decreasing_by
  rename_i hs
  have h1 : sizeOf s < sizeOf b.subs := List.sizeOf_lt_of_mem hs
  have h2 : sizeOf s.snd < sizeOf s := by
    obtain ⟨k, v⟩ := s
    simp only [Prod.mk.sizeOf_spec]
    omega
  have h3 : sizeOf b.subs < sizeOf b := by
    obtain ⟨t, n, ss⟩ := b
    simp only [BucketView.mk.sizeOf_spec]
    omega
  omega

def expandRuns (rs : List (Nat × Nat)) : List Nat :=
  rs.flatMap (fun r => (List.range r.2).map (· + r.1))

structure FileSummary where
  meta_ : MetaRec
  root : BucketView
  free : List Nat
  reach : List Nat         -- every page reached through tree links, expanded
  freelistRun : List Nat

/-- the whole-file check.  `pg` must be `decodePage` of the file's pages (the driver decodes each
page once into an array). -/
def checkFile (mt : MetaRec) (pg : PageStore) (fileSize pagesize : Nat) : Except FileErr FileSummary :=
  if mt.numPages * pagesize > fileSize then .error .shortFile else
  match viewBucket pg (mt.numPages + 1) mt.rootPage mt.nextInt with
  | .error e => .error e
  | .ok root =>
    match pg mt.freelistPage with
    | some fp =>
      match fp.body with
      | .freelist ids =>
        let reach := expandRuns (root.runs pg)
        let flRun := (List.range (fp.overflow + 1)).map (· + mt.freelistPage)
        let all := (reach ++ flRun ++ ids).mergeSort (· ≤ ·)
        let expected := (List.range (mt.numPages - 2)).map (· + 2)
        if all == expected then .ok { meta_ := mt, root := root, free := ids, reach := reach, freelistRun := flRun }
        else
          let dups := (all.zip all.tail).filter (fun p => p.1 == p.2) |>.map (·.1)
          let missing := expected.filter (fun p => !all.contains p)
          let extra := all.filter (fun p => p < 2 || p ≥ mt.numPages)
          .error (.accounting s!"twice={dups.take 8} missing={missing.take 8} out-of-range={extra.take 8}")
      | _ => .error .badFreelist
    | none => .error .badFreelist

end Jamm
