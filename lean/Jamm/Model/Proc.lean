/-
Layer P (processes) — opening the same database file from several processes (C13).

The steps follow `OpenOptions::open` / `DBInner::open` / `init_file` after the repair of D12: open the path
(creating an empty file if there is none), take the exclusive advisory lock (blocking), initialise the
file if it is still empty (allocate, write the four initial pages, sync), map it, read the header.  Only
an EMPTY file (length 0) is initialised (`if file.metadata()?.len() == 0 { init_file(...) }`): a file that
is not empty and holds no valid header (`FileSt.garbage`) is never overwritten, the opener fails
("NO VALID META PAGES") and drops its handle, which releases the lock.  The
lock is held until the handle is closed.  `stepPinned` is the order of the pinned release (exists-check,
create + initialise, only then the lock), kept for the witness of the defect.  Advisory-lock semantics
(one holder at a time, same host) are an assumption.
-/
namespace Jamm

inductive FileSt where
  | missing        -- no such file
  | created        -- exists and is empty (length 0)
  | garbage        -- exists, is not empty, holds no valid header (e.g. left by a process that died while initialising it)
  | ready          -- holds valid header pages
  deriving DecidableEq, Repr

inductive PPhase where
  | start
  | creating       -- created the file, has not written the initial pages yet (holds no lock)
  | opened         -- has a file handle, about to take the lock
  | locked         -- holds the lock, about to map and read the header
  | inside (seen : Nat)   -- database open; `seen` = number of commits visible when it got in
  | closed
  | failed         -- open panicked / returned an error
  deriving DecidableEq, Repr

structure ProcSys where
  procs : List PPhase
  file : FileSt
  lock : Option Nat
  commits : Nat
  deriving Repr

def ProcSys.enabled (s : ProcSys) (i : Nat) : Bool :=
  match s.procs[i]? with
  | none => false
  | some .opened => s.lock.isNone          -- flock blocks while somebody holds the lock
  | some .closed | some .failed => false
  | some _ => true

/-- one step of process `i` -/
def ProcSys.step (s : ProcSys) (i : Nat) : ProcSys :=
  match s.procs[i]? with
  | none => s
  | some ph =>
    let set (p : PPhase) (s : ProcSys) : ProcSys := { s with procs := s.procs.set i p }
    match ph with
    | .start =>
      if s.file = .missing then set .opened { s with file := .created }     -- open with create: an empty file
      else set .opened s                                                     -- open the existing file (empty, garbage or ready) as it is
    | .creating => set .opened s                                             -- (phase of the pinned order only)
    | .opened => set .locked { s with lock := some i }
    | .locked =>
      if s.file = .ready then set (.inside s.commits) s                      -- map, read the header
      else if s.file = .garbage then set .failed { s with lock := none }     -- not empty, no valid header: panic, handle dropped
      else set .locked { s with file := .ready }                             -- still empty: initialise it, under the lock
    | .inside n => set .closed { s with lock := none, commits := s.commits + 1 }  -- commit a marker, close
    | .closed => s
    | .failed => s

/-- the pinned release: a missing file is created and initialised *before* the lock is taken -/
def ProcSys.stepPinned (s : ProcSys) (i : Nat) : ProcSys :=
  match s.procs[i]? with
  | none => s
  | some ph =>
    let set (p : PPhase) (s : ProcSys) : ProcSys := { s with procs := s.procs.set i p }
    match ph with
    | .start =>
      if s.file = .missing then set .creating { s with file := .created }   -- exists? no: create_new
      else set .opened s                                                     -- exists? yes: open
    | .creating => set .opened { s with file := .ready }                     -- allocate, write, sync
    | .opened => set .locked { s with lock := some i }
    | .locked =>
      if s.file = .ready then set (.inside s.commits) s
      else if s.file = .garbage then set .failed { s with lock := none }     -- not empty, no valid header: panic, handle dropped
      else set .failed { s with lock := none }                               -- empty, no valid header: panic, handle dropped
    | .inside n => set .closed { s with lock := none, commits := s.commits + 1 }
    | .closed => s
    | .failed => s

def ProcSys.runPinned (s : ProcSys) : List Nat → ProcSys
  | [] => s
  | i :: rest => if s.enabled i then (s.stepPinned i).runPinned rest else s.runPinned rest

def ProcSys.run (s : ProcSys) : List Nat → ProcSys
  | [] => s
  | i :: rest => if s.enabled i then (s.step i).run rest else s.run rest

def PPhase.holdsLock : PPhase → Bool
  | .locked | .inside _ => true
  | _ => false

/-- at most one process is between lock-acquired and close, and it is the recorded holder -/
def ProcSys.exclusive (s : ProcSys) : Bool :=
  (s.procs.filter PPhase.holdsLock).length ≤ 1 &&
  (List.range s.procs.length).all (fun i => match s.procs[i]? with
    | some p => !p.holdsLock || s.lock == some i
    | none => true)

def ProcSys.noFailure (s : ProcSys) : Bool := s.procs.all (fun p => p != .failed)

/-- every process that is or was inside saw every commit made before it got in: `seen` values are
bounded by the commit count and a process inside now has seen all of them -/
def ProcSys.sawAll (s : ProcSys) : Bool :=
  s.procs.all (fun p => match p with | .inside n => n == s.commits | _ => true)

def ProcSys.initial (n : Nat) (file : FileSt) : ProcSys :=
  { procs := List.replicate n .start, file := file, lock := none, commits := 0 }

end Jamm
