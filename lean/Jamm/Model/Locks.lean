/-
Layer P (threads), part 2 — the lock protocol (C09).

Locks (`db.rs:234-243`): the file mutex F (a write transaction holds it from begin to drop), the map
rwlock M (a read transaction holds M-read from begin to drop; `resize` takes M-write for the remap),
and three short mutexes (map handle D, free list L, reader list O) that are never held across a
blocking acquisition of F or M (`lock_order` obligations on the regenerated step lists).
Each thread runs a script of transactions and holds at most one transaction at a time.
The rwlock is modelled with both admission policies: a reader arriving while a writer waits for
M-write is admitted (`admit = true`) or blocked (`admit = false`, std's futex implementation).
-/
namespace Jamm

inductive TxKind where
  | read
  | write (needsResize : Bool)
  deriving DecidableEq, Repr

inductive Phase where
  | idle                       -- no transaction open
  | wantW (resize : Bool)      -- in `Tx::new(true)`, about to take F
  | wantR                      -- in `Tx::new(false)`, about to take M-read
  | inW (resize : Bool)        -- write transaction open (holds F); `resize`: its commit will have to grow the file
  | waitResize                 -- in `resize`, about to take M-write (still holds F)
  | inR                        -- read transaction open (holds M-read)
  deriving DecidableEq, Repr

structure Thread where
  phase : Phase
  script : List TxKind         -- transactions still to run after the current one
  deriving DecidableEq, Repr

structure LockSys where
  threads : List Thread
  admit : Bool                 -- rwlock admission policy
  deriving Repr

def Thread.holdsF (t : Thread) : Bool :=
  match t.phase with
  | .inW _ | .waitResize => true
  | _ => false

def Thread.holdsMRead (t : Thread) : Bool := t.phase == .inR

def Thread.finished (t : Thread) : Bool := t.phase == .idle && t.script.isEmpty

def LockSys.writerOpen (s : LockSys) : Bool := s.threads.any Thread.holdsF
def LockSys.readersOpen (s : LockSys) : Bool := s.threads.any Thread.holdsMRead
def LockSys.resizeWaiting (s : LockSys) : Bool := s.threads.any (fun t => t.phase == .waitResize)

/-- can thread `i` take its next step? -/
def LockSys.enabled (s : LockSys) (i : Nat) : Bool :=
  match s.threads[i]? with
  | none => false
  | some t =>
    match t.phase with
    | .idle => !t.script.isEmpty
    | .wantW _ => !s.writerOpen
    | .wantR => s.admit || !s.resizeWaiting
    | .inW _ => true
    | .waitResize => !s.readersOpen
    | .inR => true

def Thread.next (t : Thread) : Thread :=
  match t.phase with
  | .idle =>
    match t.script with
    | [] => t
    | .read :: rest => { phase := .wantR, script := rest }
    | .write r :: rest => { phase := .wantW r, script := rest }
  | .wantW r => { t with phase := .inW r }
  | .wantR => { t with phase := .inR }
  | .inW true => { t with phase := .waitResize }     -- commit reaches `resize`
  | .inW false => { t with phase := .idle }          -- commit / drop
  | .waitResize => { t with phase := .inW false }    -- remapped; the commit goes on
  | .inR => { t with phase := .idle }

/-- thread `i` takes one step (only meaningful when enabled) -/
def LockSys.step (s : LockSys) (i : Nat) : LockSys :=
  match s.threads[i]? with
  | none => s
  | some t => { s with threads := s.threads.set i t.next }

def LockSys.allFinished (s : LockSys) : Bool := s.threads.all Thread.finished

/-- at most one thread holds the writer lock -/
def LockSys.oneWriter (s : LockSys) : Bool := (s.threads.filter Thread.holdsF).length ≤ 1

/-- remaining work: strictly decreases with every step -/
def Thread.work (t : Thread) : Nat :=
  5 * t.script.length +
  match t.phase with
  | .idle => 0
  | .wantW true => 4
  | .wantW false => 2
  | .wantR => 2
  | .inW true => 3
  | .inW false => 1
  | .waitResize => 2
  | .inR => 1

def LockSys.work (s : LockSys) : Nat := (s.threads.map Thread.work).sum

/-- a schedule: which thread moves at each step; steps of disabled threads are skipped -/
def LockSys.run (s : LockSys) : List Nat → LockSys
  | [] => s
  | i :: rest => if s.enabled i then (s.step i).run rest else s.run rest

def LockSys.initial (scripts : List (List TxKind)) (admit : Bool) : LockSys :=
  { threads := scripts.map (fun sc => { phase := .idle, script := sc }), admit := admit }

end Jamm
