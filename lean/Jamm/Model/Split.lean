/-
Layer C, step 1 — `Node::split` (`node.rs:282`): where an over-full node is cut.

`sizes[i]` is the payload size of entry `i` (key, plus value for leaves); `elemHdr` the size of an
element header (`LEAF_SIZE` / `BRANCH_SIZE`); `hdr` the page header size.  The thresholds are relative
to the page size through `Params` (regenerated from the constants in `node.rs`).
-/
import Jamm.Model.Params
namespace Jamm

/-- total serialised size: `Node::size` -/
def nodeSize (hdr elemHdr : Nat) (sizes : List Nat) : Nat :=
  hdr + sizes.foldl (fun acc s => acc + elemHdr + s) 0

/-- the scan of `Node::split` over entries `0 .. len-3`: state = (index, running size, count) -/
def splitScan (p : Params) (hdr elemHdr threshold : Nat) : List Nat → Nat → Nat → Nat → List Nat
  | [], _, _, _ => []
  | s :: rest, i, cur, count =>
    let count' := count + 1
    let size := elemHdr + s
    let newSize := cur + size
    if count' ≥ p.minKeysPerNode ∧ newSize > threshold then
      (i + 1) :: splitScan p hdr elemHdr threshold rest (i + 1) (hdr + size) 0
    else splitScan p hdr elemHdr threshold rest (i + 1) newSize count'

/-- `Node::split`: the indexes at which the entry list is cut (empty = no split) -/
def splitIndexes (p : Params) (pagesize hdr elemHdr : Nat) (sizes : List Nat) : List Nat :=
  if sizes.length ≤ p.minKeysPerNode * 2 ∨ nodeSize hdr elemHdr sizes < pagesize then []
  else
    let threshold := pagesize * p.fillNum / p.fillDen
    splitScan p hdr elemHdr threshold (sizes.take (sizes.length - 2)) 0 hdr 0

/-- cut a list at ascending indexes -/
def cutAt {α : Type} (l : List α) : List Nat → Nat → List (List α)
  | [], _ => [l]
  | i :: rest, off => l.take (i - off) :: cutAt (l.drop (i - off)) rest i

end Jamm
