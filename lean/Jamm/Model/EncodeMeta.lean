/-
Layer S, the writer of the two remaining page kinds: the header (meta) page as `TxInner::write_data` builds
it (`tx.rs:346`: a zeroed page, page id, type, the record with its checksum) and the free-list page
(`tx.rs:298`: header fields set by `allocate`, type, count, the page ids as little-endian words).
-/
import Jamm.Model.EncodeWrites
namespace Jamm

section
variable (L : Layout)

/-- the header record as a list of writes relative to the page at `base` -/
def metaWrites (base : Nat) (m : MetaRec) : List (Nat × List UInt8) :=
  let o := base + L.pgPtr
  [(o + L.mMetaPage, leBytes m.metaPage L.mMetaPageSz), (o + L.mMagic, leBytes m.magic L.mMagicSz),
   (o + L.mVersion, leBytes m.version L.mVersionSz), (o + L.mPagesize, leBytes m.pagesize 8),
   (o + L.mRoot + L.bmRoot, leBytes m.rootPage 8), (o + L.mRoot + L.bmNextInt, leBytes m.nextInt 8),
   (o + L.mNumPages, leBytes m.numPages 8), (o + L.mFreelist, leBytes m.freelistPage 8),
   (o + L.mTxId, leBytes m.txId 8), (o + L.mHash, leBytes m.hash 8)]

/-- the whole header page for slot `slot`: zero-filled, then id, type and record -/
def metaPageWrites (pagesize slot : Nat) (m : MetaRec) : List (Nat × List UInt8) :=
  let base := slot * pagesize
  [(base, List.replicate pagesize 0), (base + L.pgId, leBytes slot 8), (base + L.pgType, [L.typeMeta.toUInt8])] ++
  metaWrites L base m

def writeMetaPage (pagesize slot : Nat) (m : MetaRec) (s : Src) : Src :=
  applyWrites (metaPageWrites L pagesize slot m) s

/-- the record a commit writes: the checksum is computed over the other fields -/
def MetaRec.seal (order : List MetaField) (m : MetaRec) : MetaRec := { m with hash := metaHash L order m }

def freelistPageWrites (pagesize pid overflow : Nat) (ids : List Nat) : List (Nat × List UInt8) :=
  let base := pid * pagesize
  headerWrites L base pid L.typeFreelist ids.length overflow ++
  [(base + L.pgPtr, ids.flatMap (fun x => leBytes x 8))]

def writeFreelistPage (pagesize pid overflow : Nat) (ids : List Nat) (s : Src) : Src :=
  applyWrites (freelistPageWrites L pagesize pid overflow ids) s

/-- layout facts the header-record round trip needs: fields disjoint, inside the page header + record -/
def Layout.WFMeta : Bool :=
  L.pgId + 8 ≤ L.pgType ∧ L.pgType + 1 ≤ L.pgCount ∧ L.pgCount + 8 ≤ L.pgOverflow ∧ L.pgOverflow + 8 ≤ L.pgPtr ∧
  L.mMetaPage + L.mMetaPageSz ≤ L.mMagic ∧ L.mMagic + L.mMagicSz ≤ L.mVersion ∧ L.mVersion + L.mVersionSz ≤ L.mPagesize ∧
  L.mPagesize + 8 ≤ L.mRoot ∧ L.bmRoot + 8 ≤ L.bmNextInt ∧ L.bmNextInt + 8 ≤ L.bmSize ∧ L.mRoot + L.bmSize ≤ L.mNumPages ∧
  L.mNumPages + 8 ≤ L.mFreelist ∧ L.mFreelist + 8 ≤ L.mTxId ∧ L.mTxId + 8 ≤ L.mHash ∧ L.mHash + 8 ≤ L.metaSize ∧
  L.typeMeta < 256 ∧ L.typeFreelist < 256 ∧ L.typeFreelist ≠ L.typeMeta ∧ L.typeFreelist ≠ L.typeBranch ∧
  L.typeFreelist ≠ L.typeLeaf ∧ L.pgPtr ≤ L.pageSize

/-- the fields of a record fit their widths -/
def MetaRec.fits (m : MetaRec) : Bool :=
  m.metaPage < 256 ^ L.mMetaPageSz ∧ m.magic < 256 ^ L.mMagicSz ∧ m.version < 256 ^ L.mVersionSz ∧
  m.pagesize < 2 ^ 64 ∧ m.rootPage < 2 ^ 64 ∧ m.nextInt < 2 ^ 64 ∧ m.numPages < 2 ^ 64 ∧
  m.freelistPage < 2 ^ 64 ∧ m.txId < 2 ^ 64 ∧ m.hash < 2 ^ 64

end
end Jamm
