/-
Key order.  Keys are byte strings compared as Rust's `<[u8] as Ord>::cmp` (lexicographic, unsigned,
a proper prefix is smaller).  The model is written over any key type `K` with a lawful total
`compare`; `Bytes := List UInt8` with core's lexicographic instance is the instance the driver uses.
-/
import Std
open Std

namespace Jamm

abbrev Bytes := List UInt8

section
variable {K : Type} [Ord K]

/-- strict "less than" as a Bool -/
@[inline] def klt (a b : K) : Bool := compare a b == .lt
/-- "less or equal" as a Bool -/
@[inline] def kle (a b : K) : Bool := compare a b != .gt

end

section lemmas
variable {K : Type} [Ord K] [TransOrd K] [LawfulEqOrd K]

theorem klt_iff {a b : K} : klt a b = true ↔ compare a b = .lt := by
  simp [klt]

theorem klt_irrefl (a : K) : klt a a = false := by
  simp [klt, ReflCmp.compare_self]

theorem klt_trans {a b c : K} (h1 : klt a b = true) (h2 : klt b c = true) : klt a c = true := by
  rw [klt_iff] at *; exact TransCmp.lt_trans h1 h2

theorem klt_asymm {a b : K} (h : klt a b = true) : klt b a = false := by
  rw [klt_iff] at h
  have : compare b a = .gt := OrientedCmp.gt_iff_lt.mpr h
  simp [klt, this]

theorem klt_trichotomy (a b : K) : klt a b = true ∨ a = b ∨ klt b a = true := by
  cases h : compare a b with
  | lt => left; simp [klt, h]
  | eq => right; left; exact compare_eq_iff_eq.mp h
  | gt => right; right; rw [klt_iff]; exact OrientedCmp.gt_iff_lt.mp h

theorem kle_iff_not_lt {a b : K} : kle a b = !klt b a := by
  unfold kle klt
  rw [OrientedCmp.eq_swap (cmp := compare) (a := b) (b := a)]
  cases compare a b <;> rfl

theorem klt_of_klt_of_kle {a b c : K} (h1 : klt a b = true) (h2 : kle b c = true) : klt a c = true := by
  rcases klt_trichotomy b c with h | h | h
  · exact klt_trans h1 h
  · subst h; exact h1
  · rw [kle_iff_not_lt] at h2; simp [h] at h2

theorem klt_of_kle_of_klt {a b c : K} (h1 : kle a b = true) (h2 : klt b c = true) : klt a c = true := by
  rcases klt_trichotomy a b with h | h | h
  · exact klt_trans h h2
  · subst h; exact h2
  · rw [kle_iff_not_lt] at h1; simp [h] at h1

theorem kle_refl (a : K) : kle a a = true := by
  rw [kle_iff_not_lt, klt_irrefl]; rfl

theorem kle_of_klt {a b : K} (h : klt a b = true) : kle a b = true := by
  rw [kle_iff_not_lt, klt_asymm h]; rfl

theorem kle_trans {a b c : K} (h1 : kle a b = true) (h2 : kle b c = true) : kle a c = true := by
  rcases klt_trichotomy a b with h | h | h
  · exact kle_of_klt (klt_of_klt_of_kle h h2)
  · subst h; exact h2
  · rw [kle_iff_not_lt] at h1; simp [h] at h1

theorem eq_of_kle_of_kle {a b : K} (h1 : kle a b = true) (h2 : kle b a = true) : a = b := by
  rcases klt_trichotomy a b with h | h | h
  · rw [kle_iff_not_lt] at h2; simp [h] at h2
  · exact h
  · rw [kle_iff_not_lt] at h1; simp [h] at h1

theorem klt_ne {a b : K} (h : klt a b = true) : a ≠ b := by
  intro e; subst e; rw [klt_irrefl] at h; exact Bool.false_ne_true h

end lemmas
end Jamm
