/-
Layer P (threads), part 3 — all five locks of `DBInner`, thread programs derived from the step tables.

Locks (`db.rs`, `struct DBInner`):
* `F` = `file: Mutex<File>`            a write transaction takes it first thing in `Tx::new(true)` and
                                        holds it until the transaction is dropped;
* `M` = `mmap_lock: RwLock<()>`        a read transaction takes M-read first thing in `Tx::new(false)` and
                                        holds it until it is dropped; `resize` takes M-write;
* `O` = `open_ro_txs: Mutex<Vec<u64>>` reader list: `Tx::new` (lockReaders … unlockReaders), reader's `Drop`;
* `D` = `data: Mutex<Arc<Mmap>>`       map handle: inside `meta()`, around the clone of the map, in `resize`;
* `L` = `freelist: Mutex<Freelist>`    free list: clone at begin, publication at the end of commit.

A thread is a list of lock actions (its remaining program) plus the locks it holds.  The programs are
*computed* from lists of protocol steps (`beginActs`, `commitActs`, `resizeActs`, `dropActs`); the
Props file instantiates them at the regenerated tables `Jamm.Gen.*Steps`.  Steps that touch no lock
contribute no action.

The rwlock is modelled with both admission policies (`admit`), as in `Locks.lean`: with
`admit = false` a thread that wants M-read is blocked while some thread *waits* for M-write (its next
action is `acq M`), even though nobody holds M-write (std's futex rwlock prefers writers).

`Ordered prog` is the decidable lock-order discipline: simulated from "holds nothing", every acquisition
is of a lock ranked strictly above everything the thread holds, every release is of a held lock, and
nothing is held at the end.  `Jamm/Proofs/LockOrderLemmas.lean` proves that systems of `Ordered`
programs never deadlock.
-/
import Jamm.Model.Steps

namespace Jamm.LockOrder

/-! ### locks, actions, the order discipline -/

inductive Lk where
  | F | M | O | D | L
  deriving DecidableEq, Repr

/-- the lock order: F < M < O < D < L -/
def Lk.rank : Lk → Nat
  | .F => 0 | .M => 1 | .O => 2 | .D => 3 | .L => 4

inductive Act where
  | acq (l : Lk)     -- exclusive acquisition (a mutex, or M in write mode); blocks
  | acqRead          -- M in read mode; blocks
  | rel (l : Lk)     -- release of an exclusive hold
  | relRead          -- release of M-read
  deriving DecidableEq, Repr

/-- the lock an action may have to wait for -/
def Act.want : Act → Option Lk
  | .acq l => some l
  | .acqRead => some .M
  | .rel _ => none
  | .relRead => none

/-- what one thread holds: exclusive holds, and whether it holds M-read -/
structure Held where
  ex : List Lk
  rd : Bool
  deriving DecidableEq, Repr

def Held.none : Held := { ex := [], rd := false }

def Held.isNone (h : Held) : Bool := h.ex.isEmpty && !h.rd

/-- holds `l` in some mode -/
def Held.has (h : Held) (l : Lk) : Bool := h.ex.contains l || (l == .M && h.rd)

/-- everything held is ranked strictly below `l` (so in particular `l` itself is not held) -/
def Held.below (h : Held) (l : Lk) : Bool :=
  h.ex.all (fun k => decide (k.rank < l.rank)) && (!h.rd || decide (Lk.rank .M < l.rank))

/-- the action respects the discipline in a thread holding `h` -/
def Held.ok (h : Held) : Act → Bool
  | .acq l => h.below l
  | .acqRead => h.below .M
  | .rel l => h.ex.contains l
  | .relRead => h.rd

def Held.after (h : Held) : Act → Held
  | .acq l => { h with ex := l :: h.ex }
  | .acqRead => { h with rd := true }
  | .rel l => { h with ex := h.ex.erase l }
  | .relRead => { h with rd := false }

/-- the program, run by a thread that holds `h`, respects the discipline and ends holding nothing -/
def OrderedFrom (h : Held) : List Act → Bool
  | [] => h.isNone
  | a :: p => h.ok a && OrderedFrom (h.after a) p

def Ordered (p : List Act) : Bool := OrderedFrom .none p

/-! ### the system -/

structure Thread where
  prog : List Act
  held : Held
  deriving DecidableEq, Repr

structure Sys where
  threads : List Thread
  admit : Bool                 -- rwlock admission policy
  deriving Repr

def Thread.finished (t : Thread) : Bool := t.prog.isEmpty

/-- the lock the thread's next action may have to wait for -/
def Thread.wants (t : Thread) : Option Lk :=
  match t.prog with
  | [] => none
  | a :: _ => a.want

/-- the thread's next action is the acquisition of M-write -/
def Thread.waitsWrite (t : Thread) : Bool :=
  match t.prog with
  | .acq .M :: _ => true
  | _ => false

def Sys.exHeld (s : Sys) (l : Lk) : Bool := s.threads.any (fun t => t.held.ex.contains l)
def Sys.rdHeld (s : Sys) : Bool := s.threads.any (fun t => t.held.rd)
def Sys.writerWaiting (s : Sys) : Bool := s.threads.any Thread.waitsWrite

/-- can this action be performed now? -/
def Sys.guard (s : Sys) : Act → Bool
  | .acq l => !s.exHeld l && !(l == .M && s.rdHeld)
  | .acqRead => !s.exHeld .M && (s.admit || !s.writerWaiting)
  | .rel _ => true
  | .relRead => true

def Sys.ready (s : Sys) (t : Thread) : Bool :=
  match t.prog with
  | [] => false
  | a :: _ => s.guard a

/-- can thread `i` take its next step? -/
def Sys.enabled (s : Sys) (i : Nat) : Bool :=
  match s.threads[i]? with
  | none => false
  | some t => s.ready t

def Thread.next (t : Thread) : Thread :=
  match t.prog with
  | [] => t
  | a :: p => { prog := p, held := t.held.after a }

/-- thread `i` takes one step (only meaningful when enabled) -/
def Sys.step (s : Sys) (i : Nat) : Sys :=
  match s.threads[i]? with
  | none => s
  | some t => { s with threads := s.threads.set i t.next }

/-- a schedule: which thread moves at each step; steps of disabled threads are skipped -/
def Sys.run (s : Sys) : List Nat → Sys
  | [] => s
  | i :: rest => if s.enabled i then (s.step i).run rest else s.run rest

def Sys.allFinished (s : Sys) : Bool := s.threads.all Thread.finished

/-- some thread has work left and nobody can move -/
def Sys.stuck (s : Sys) : Bool :=
  !s.allFinished && (List.range s.threads.length).all (fun i => !s.enabled i)

/-- remaining work: the actions still to be performed -/
def Sys.work (s : Sys) : Nat := (s.threads.map (fun t => t.prog.length)).sum

/-- number of threads holding `l` exclusively -/
def Sys.exHolders (s : Sys) (l : Lk) : Nat := (s.threads.filter (fun t => t.held.ex.contains l)).length

/-- number of threads holding M-read -/
def Sys.readers (s : Sys) : Nat := (s.threads.filter (fun t => t.held.rd)).length

def Sys.init (progs : List (List Act)) (admit : Bool) : Sys :=
  { threads := progs.map (fun p => { prog := p, held := .none }), admit := admit }

/-- every thread runs its script of transactions one after the other -/
def Sys.ofScripts {κ : Type} (prog : κ → List Act) (scripts : List (List κ)) (admit : Bool) : Sys :=
  Sys.init (scripts.map (fun sc => sc.flatMap prog)) admit

/-! ### from protocol steps to lock actions -/

def LockUse.acq : LockUse → Act
  | .file => .acq .F | .mapRead => .acqRead | .mapWrite => .acq .M
  | .readers => .acq .O | .data => .acq .D | .freelist => .acq .L

def LockUse.rel : LockUse → Act
  | .file => .rel .F | .mapRead => .relRead | .mapWrite => .rel .M
  | .readers => .rel .O | .data => .rel .D | .freelist => .rel .L

/-- a function that takes the listed locks (guards bound to locals) and returns: acquisitions in source order,
releases in reverse order when the guards drop -/
def guardActs (us : List LockUse) : List Act := us.map LockUse.acq ++ us.reverse.map LockUse.rel

/-- `Tx::new(writer)`; `meta` = the locks `DBInner::meta()` takes (regenerated: `Gen.metaLocks`) -/
def beginAct (writer : Bool) (mlocks : List LockUse) : BeginStep → List Act
  | .lockTx => if writer then [.acq .F] else [.acqRead]
  | .cloneFreelist => [.acq .L, .rel .L]           -- `freelist.lock()?.clone()`
  | .readMeta => guardActs mlocks                    -- `meta()` takes its locks and returns
  | .lockReaders => [.acq .O]
  | .releaseOrRegister => []
  | .unlockReaders => [.rel .O]
  | .cloneMap => [.acq .D, .rel .D]                -- `data.lock()?.clone()`

def beginActs (writer : Bool) (mlocks : List LockUse) (steps : List BeginStep) : List Act := steps.flatMap (beginAct writer mlocks)

/-- `DBInner::resize`: the guards live until the function returns and are dropped in reverse order -/
def resizeAcq : ResizeStep → List Act
  | .lockMapWrite => [.acq .M]
  | .lockData => [.acq .D]
  | _ => []

def resizeRel : ResizeStep → List Act
  | .lockMapWrite => [.rel .M]
  | .lockData => [.rel .D]
  | _ => []

def resizeActs (steps : List ResizeStep) : List Act :=
  steps.flatMap resizeAcq ++ steps.reverse.flatMap resizeRel

/-- the path a commit takes through `write_data` -/
structure CommitPath where
  grows : Bool       -- the file is too small: the `.grow` step calls `resize`
  reread : Bool      -- the header write reported an error: the publication decision calls `meta()`
  publishes : Bool   -- the free list is published
  stopAfter : Option Nat   -- `some n`: error return after `n` steps; `none`: runs to the end
  deriving DecidableEq, Repr

def commitAct (c : CommitPath) (resize : List ResizeStep) (mlocks : List LockUse) : CommitStep → List Act
  | .grow => if c.grows then resizeActs resize else []
  | .publishFreelist => if c.publishes then [.acq .L, .rel .L] else []
  | .publishIfVisible =>
      (if c.reread then guardActs mlocks else []) ++ (if c.publishes then [.acq .L, .rel .L] else [])
  | _ => []

def commitActs (c : CommitPath) (resize : List ResizeStep) (mlocks : List LockUse) (steps : List CommitStep) : List Act :=
  (match c.stopAfter with
   | none => steps
   | some n => steps.take n).flatMap (commitAct c resize mlocks)

/-- `Drop for TxInner`, then the drop of the fields (the transaction lock) -/
def dropAcq : DropStep → List Act
  | .lockReaders => [.acq .O]
  | _ => []

def dropRel : DropStep → List Act
  | .lockReaders => [.rel .O]
  | _ => []

def dropActs (writer : Bool) (steps : List DropStep) : List Act :=
  if writer then [.rel .F]
  else steps.flatMap dropAcq ++ steps.reverse.flatMap dropRel ++ [.relRead]

/-- `DBInner::open` (single-threaded; listed because it is the one place where D and L nest) -/
def openInnerAct (mlocks : List LockUse) : OpenInnerStep → List Act
  | .readMeta => guardActs mlocks
  | .loadFreelist => [.acq .D, .acq .L, .rel .L, .rel .D]
  | _ => []

def openActs (mlocks : List LockUse) (steps : List OpenInnerStep) : List Act := steps.flatMap (openInnerAct mlocks)

structure Tables where
  begin : List BeginStep
  commit : List CommitStep
  resize : List ResizeStep
  drop : List DropStep
  mlocks : List LockUse := [.data]     -- the locks `DBInner::meta()` takes

inductive Kind where
  | read                               -- begin, use, drop
  | write (c : Option CommitPath)      -- begin, use, commit along `c` (`none`: rollback / plain drop), drop
  deriving DecidableEq, Repr

/-- the lock actions of one whole transaction -/
def program (T : Tables) : Kind → List Act
  | .read => beginActs false T.mlocks T.begin ++ dropActs false T.drop
  | .write none => beginActs true T.mlocks T.begin ++ dropActs true T.drop
  | .write (some c) => beginActs true T.mlocks T.begin ++ commitActs c T.resize T.mlocks T.commit ++ dropActs true T.drop

/-- the complete, successful commit -/
def CommitPath.full (grows : Bool) : CommitPath :=
  { grows := grows, reread := false, publishes := true, stopAfter := none }

end Jamm.LockOrder
