/-
Layer P (threads), part 1 — readers and writers on different threads (C04).

The abstract events of the sequential model (`Freelist.lean`) are split where other threads can
interleave: a writer's *begin* (clone the shared free list, release pages no registered reader needs)
and its *commit* are separate events, with readers registering and leaving in between.  A reader's
begin is either one atomic event (`beginR`: read the header and register under the reader-list lock —
what `Tx::new` does when `BeginRegistersAtomically` holds for the regenerated step order) or two events
(`readHeaderR`, then `registerR` — the order of the pinned release, D10).
-/
import Jamm.Model.FreelistInv
namespace Jamm

structure Sys2 where
  cur : Snap
  shared : FL
  readers : List Snap          -- registered readers
  numPages : Nat
  writer : Option TxFL := none -- the open write transaction's private state (set at its begin)
  choosing : List Snap := []   -- readers that have read the header but are not registered yet
  deriving Repr

inductive Ev2 where
  | beginR                 -- atomic: read header, register
  | readHeaderR            -- non-atomic begin, step 1
  | registerR (i : Nat)    -- non-atomic begin, step 2 (i-th reader of `choosing`)
  | endR (i : Nat)
  | beginW
  | commitW (w : WriterTx)
  | dropW
  deriving Repr

def Sys2.base (s : Sys2) : Sys := { cur := s.cur, shared := s.shared, readers := s.readers, numPages := s.numPages }

/-- enabledness: one writer at a time (the file mutex); commit / drop need an open writer -/
def Sys2.enabledB (s : Sys2) : Ev2 → Bool
  | .beginR => true
  | .readHeaderR => true
  | .registerR i => i < s.choosing.length
  | .endR i => i < s.readers.length
  | .beginW => s.writer.isNone
  | .commitW w => s.writer.isSome && s.base.clientOkB (.commitW w)
  | .dropW => s.writer.isSome

def Sys2.step (s : Sys2) : Ev2 → Sys2
  | .beginR => { s with readers := s.readers ++ [s.cur] }
  | .readHeaderR => { s with choosing := s.choosing ++ [s.cur] }
  | .registerR i =>
    match s.choosing[i]? with
    | some r => { s with readers := s.readers ++ [r], choosing := s.choosing.eraseIdx i }
    | none => s
  | .endR i => { s with readers := s.readers.eraseIdx i }
  | .beginW => { s with writer := some s.base.beginWriter }
  | .dropW => { s with writer := none }
  | .commitW w =>
    match s.writer with
    | none => s
    | some t =>
      let r := t.run w
      let alloc := expand r.1
      { s with
        cur := { txId := t.txId, reach := (s.cur.reach.filter (fun p => !w.freed.contains p)) ++ alloc }
        shared := r.2.fl
        numPages := r.2.numPages
        writer := none }

/-- pages the open writer writes when it commits `w` -/
def Sys2.writes (s : Sys2) (w : WriterTx) : List Nat :=
  match s.writer with
  | some t => expand (t.run w).1
  | none => []

def Sys2.run (s : Sys2) : List Ev2 → Option Sys2
  | [] => some s
  | ev :: rest => if s.enabledB ev then (s.step ev).run rest else none

/-- the event uses the atomic reader begin only -/
def Ev2.atomic : Ev2 → Bool
  | .readHeaderR | .registerR _ => false
  | _ => true

/-- what every open (registered) reader relies on: none of its pages is free, none is about to be
written by the open writer -/
def Sys2.readersSafeB (s : Sys2) (w : WriterTx) : Bool :=
  s.readers.all (fun r => disjointB r.reach s.shared.free && disjointB r.reach (s.writes w))

end Jamm
