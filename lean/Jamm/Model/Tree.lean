/-
Layer Q/T model — one bucket's B+tree as a value.

A bucket's tree, as a transaction sees it (pages overlaid by the transaction's nodes, `bucket.rs:525
page_node`), is a `Tree`: leaves hold `(key, payload)` entries, branches hold `(key, child)` entries.
`pid` is the page id of the page (or of the page the node was made from; 0 for nodes that have no
page yet).  The payload type `E` is opaque here; for real files it is `LeafVal` (a value, or the
`(root page, counter)` header of a nested bucket).

The functions mirror `page_node.rs` and `cursor.rs` (after the `fix:` commits for the cursor) and the
leaf edits of `bucket.rs` (`put_leaf`, `delete`).
-/
import Jamm.Model.Spec
set_option linter.unusedSectionVars false
open Std

namespace Jamm

mutual
inductive Tree (K E : Type) where
  | leaf (pid : Nat) (es : List (K × E))
  | branch (pid : Nat) (kids : Forest K E)
inductive Forest (K E : Type) where
  | nil
  | cons (k : K) (t : Tree K E) (rest : Forest K E)
end

namespace Forest
variable {K E : Type}

def keys : Forest K E → List K
  | nil => []
  | cons k _ rest => k :: keys rest

def length : Forest K E → Nat
  | nil => 0
  | cons _ _ rest => length rest + 1

def get? : Forest K E → Nat → Option (K × Tree K E)
  | nil, _ => none
  | cons k t _, 0 => some (k, t)
  | cons _ _ rest, i + 1 => get? rest i

end Forest

namespace Tree
variable {K E : Type}

def isLeaf : Tree K E → Bool
  | leaf _ _ => true
  | branch _ _ => false

/-- `PageNode::len` -/
def len : Tree K E → Nat
  | leaf _ es => es.length
  | branch _ kids => kids.length

def pid : Tree K E → Nat
  | leaf p _ => p
  | branch p _ => p

mutual
/-- in-order concatenation of all leaf entries: the bucket's contents -/
def flatten : Tree K E → List (K × E)
  | leaf _ es => es
  | branch _ kids => flattenF kids
def flattenF : Forest K E → List (K × E)
  | .nil => []
  | .cons _ t rest => flatten t ++ flattenF rest
end

mutual
/-- number of nodes (fuel bound for cursor loops) -/
def nodes : Tree K E → Nat
  | leaf _ _ => 1
  | branch _ kids => nodesF kids + 1
def nodesF : Forest K E → Nat
  | .nil => 0
  | .cons _ t rest => nodes t + nodesF rest
end

end Tree

section
variable {K E : Type} [Ord K]

/-- `PageNode::index` (`page_node.rs:64`): binary search over the entry keys; an absent key points at
the slot *before* its insertion point (saturating at 0).  On strictly ascending keys every correct
binary search returns exactly this; the halving loop itself is Rust's `binary_search_by` and is not
modelled. -/
def indexOf (keys : List K) (key : K) : Nat × Bool :=
  let n := (keys.takeWhile (fun a => klt a key)).length
  match keys[n]? with
  | some a => if compare a key == .eq then (n, true) else (n - 1, false)
  | none => (n - 1, false)

/-! ### point reads -/

mutual
/-- `Bucket::get`: `search` then `val` (`bucket.rs:538`) -/
def Tree.lookup (key : K) : Tree K E → Option (K × E)
  | .leaf _ es =>
    let r := indexOf (es.map (·.1)) key
    if r.2 then es[r.1]? else none
  | .branch _ kids => Forest.lookupAt key kids (indexOf kids.keys key).1
def Forest.lookupAt (key : K) : Forest K E → Nat → Option (K × E)
  | .nil, _ => none
  | .cons _ t _, 0 => Tree.lookup key t
  | .cons _ _ rest, i + 1 => Forest.lookupAt key rest i
end

/-! ### leaf edits inside a write transaction (`put_leaf`, `delete`, `bucket_getter`, `delete_bucket`):
search to a leaf, then `Node::insert_data` (binary search: replace or insert at the insertion point) or
`Node::delete(index)`.  Branch entries are never edited before commit. -/

variable [DecidableEq K]

mutual
def Tree.put (key : K) (e : E) : Tree K E → Tree K E
  | .leaf p es => .leaf p (Spec.insert key e es)
  | .branch p kids => .branch p (Forest.putAt key e kids (indexOf kids.keys key).1)
def Forest.putAt (key : K) (e : E) : Forest K E → Nat → Forest K E
  | .nil, _ => .nil
  | .cons k t rest, 0 => .cons k (Tree.put key e t) rest
  | .cons k t rest, i + 1 => .cons k t (Forest.putAt key e rest i)
end

mutual
def Tree.del (key : K) : Tree K E → Tree K E
  | .leaf p es => .leaf p (Spec.erase key es)
  | .branch p kids => .branch p (Forest.delAt key kids (indexOf kids.keys key).1)
def Forest.delAt (key : K) : Forest K E → Nat → Forest K E
  | .nil, _ => .nil
  | .cons k t rest, 0 => .cons k (Tree.del key t) rest
  | .cons k t rest, i + 1 => .cons k t (Forest.delAt key rest i)
end

/-! ### well-formedness for routing

`WF lo hi t`: every key stored below `t` lies in `[lo, hi)` (`none` = unbounded), leaf keys are
strictly ascending, a branch has at least one child, and child `i` is well-formed for
`[if i = 0 then lo else kᵢ, kᵢ₊₁ or hi)`.  The leftmost child may hold keys *below* its own branch key:
that slack is exactly what the "slot before" search relies on.  Every non-first branch key lies inside
the bounds of the forest it occurs in (without this an empty child under an inverted interval would be
vacuously well-formed: found by the proof attempt: an empty child under an inverted interval).  Leaves may be empty (a transaction can
empty a leaf; it stays in the tree until commit). -/

def inLo (lo : Option K) (k : K) : Prop := match lo with | none => True | some l => kle l k = true
def inHi (hi : Option K) (k : K) : Prop := match hi with | none => True | some h => klt k h = true

mutual
inductive WF : Option K → Option K → Tree K E → Prop where
  | leaf (lo hi : Option K) (p : Nat) (es : List (K × E)) :
      Spec.Sorted es → (∀ e ∈ es, inLo lo e.1 ∧ inHi hi e.1) → WF lo hi (.leaf p es)
  | branch (lo hi : Option K) (p : Nat) (k : K) (t : Tree K E) (rest : Forest K E) :
      WFF lo hi k t rest → WF lo hi (.branch p (.cons k t rest))
/-- `WFF lo hi k t rest`: the entry `(k, t)` whose routing lower bound is `lo`, followed by `rest`,
the whole list bounded above by `hi` -/
inductive WFF : Option K → Option K → K → Tree K E → Forest K E → Prop where
  | last (lo hi : Option K) (k : K) (t : Tree K E) :
      WF lo hi t → WFF lo hi k t .nil
  | cons (lo hi : Option K) (k : K) (t : Tree K E) (k' : K) (t' : Tree K E) (rest : Forest K E) :
      klt k k' = true → inLo lo k' → inHi hi k' →
      WF lo (some k') t → WFF (some k') hi k' t' rest → WFF lo hi k t (.cons k' t' rest)
end

end

end Jamm
