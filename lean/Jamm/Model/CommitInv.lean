/-
Layer C invariants: uniform depth, and the separator invariant **Sep** (`WFS`): `WF` plus "off the leftmost
spine, the first key of a branch is a lower bound of everything below it".  This is the
invariant under which merging a node into its right sibling and then its parent into a left sibling
keeps routing correct (the defect D3 was its violation).
-/
import Jamm.Model.Commit
import Jamm.Model.FileCheck
set_option linter.unusedSectionVars false
open Std

namespace Jamm

mutual
inductive UniformT {K E : Type} : Nat → Tree K E → Prop where
  | leaf (p : Nat) (es : List (K × E)) : UniformT 0 (.leaf p es)
  | branch (d p : Nat) (kids : Forest K E) : UniformF d kids → UniformT (d + 1) (.branch p kids)
inductive UniformF {K E : Type} : Nat → Forest K E → Prop where
  | nil (d : Nat) : UniformF d .nil
  | cons (d : Nat) (k : K) (t : Tree K E) (rest : Forest K E) :
      UniformT d t → UniformF d rest → UniformF d (.cons k t rest)
end

section
variable {K E : Type} [Ord K]

/-- the lower bound of the entries below a branch whose own routing lower bound is `lo` and whose
first key is `k`: unbounded on the leftmost spine, `k` elsewhere -/
def sepLo (lo : Option K) (k : K) : Option K := match lo with | none => none | some _ => some k

mutual
/-- `WF` with the separator invariant: off the leftmost spine the first key of a branch is a lower bound
of everything below the branch (and is not below the branch's own lower bound); every first key is
below the upper bound -/
inductive WFS : Option K → Option K → Tree K E → Prop where
  | leaf (lo hi : Option K) (p : Nat) (es : List (K × E)) :
      Spec.Sorted es → (∀ e ∈ es, inLo lo e.1 ∧ inHi hi e.1) → WFS lo hi (.leaf p es)
  | branch (lo hi : Option K) (p : Nat) (k : K) (t : Tree K E) (rest : Forest K E) :
      inLo lo k → inHi hi k → WFFS (sepLo lo k) hi k t rest → WFS lo hi (.branch p (.cons k t rest))
  /-- a branch all of whose children were removed: exists only in the middle of `rebalance` -/
  | emptyBranch (lo hi : Option K) (p : Nat) : WFS lo hi (.branch p .nil)
inductive WFFS : Option K → Option K → K → Tree K E → Forest K E → Prop where
  | last (lo hi : Option K) (k : K) (t : Tree K E) :
      WFS lo hi t → WFFS lo hi k t .nil
  | cons (lo hi : Option K) (k : K) (t : Tree K E) (k' : K) (t' : Tree K E) (rest : Forest K E) :
      klt k k' = true → inLo lo k' → inHi hi k' →
      WFS lo (some k') t → WFFS (some k') hi k' t' rest → WFFS lo hi k t (.cons k' t' rest)
end

variable [DecidableEq K]

mutual
/-- executable `WFS` -/
def wfsb (lo hi : Option K) : Tree K E → Bool
  | .leaf _ es => sortedB es && es.all (fun e => inLoB lo e.1 && inHiB hi e.1)
  | .branch _ kids =>
    match kids with
    | .nil => true
    | .cons k t rest => inLoB lo k && inHiB hi k && wffsb (sepLo lo k) hi (.cons k t rest)
def wffsb (lo hi : Option K) : Forest K E → Bool
  | .nil => false
  | .cons _ t .nil => wfsb lo hi t
  | .cons k t (.cons k' t' rest) =>
    klt k k' && inLoB lo k' && inHiB hi k' && wfsb lo (some k') t && wffsb (some k') hi (.cons k' t' rest)
end

mutual
/-- no branch without children (true of every tree outside the middle of `rebalance`) -/
def nebT : Tree K E → Bool
  | .leaf _ _ => true
  | .branch _ kids => kids.length != 0 && nebF kids
def nebF : Forest K E → Bool
  | .nil => true
  | .cons _ t rest => nebT t && nebF rest
end

mutual
def uniformB : Tree K E → Option Nat
  | .leaf _ _ => some 0
  | .branch _ kids => (uniformFB kids).bind (fun d => match d with | some d => some (d + 1) | none => some 1)
/-- `some none` = empty forest (any depth), `some (some d)` = all children uniform of depth d -/
def uniformFB : Forest K E → Option (Option Nat)
  | .nil => some none
  | .cons _ t rest =>
    match uniformB t, uniformFB rest with
    | some d, some none => some (some d)
    | some d, some (some d') => if d = d' then some (some d) else none
    | _, _ => none
end

end
end Jamm
