/-
Layer S: writing a whole database — every bucket's tree, at every nesting depth — and reading it back.
-/
import Jamm.Model.EncodeTree
namespace Jamm

/-- a termination measure that is also enough fuel to view the bucket back: its nodes, plus one, plus the
weights of the buckets below it -/
def BucketView.weight (v : BucketView) : Nat :=
  v.tree.nodes + 1 + (v.subs.map (fun s => s.2.weight)).sum
termination_by sizeOf v
decreasing_by
  rename_i hs
  have h1 : sizeOf s < sizeOf v.subs := List.sizeOf_lt_of_mem hs
  have h2 : sizeOf s.snd < sizeOf s := by
    obtain ⟨k, w⟩ := s
    simp only [Prod.mk.sizeOf_spec]
    omega
  have h3 : sizeOf v.subs < sizeOf v := by
    obtain ⟨t, n, ss⟩ := v
    simp only [BucketView.mk.sizeOf_spec]
    omega
  omega

/-- the page runs of every node of every bucket below (and including) `v`, in the order they are written -/
def BucketView.allRuns (ov : Nat → Nat) (v : BucketView) : List (Nat × Nat) :=
  nodeRunsT ov v.tree ++ v.subs.flatMap (fun s => s.2.allRuns ov)
termination_by sizeOf v
decreasing_by
  rename_i hs
  have h1 : sizeOf s < sizeOf v.subs := List.sizeOf_lt_of_mem hs
  have h2 : sizeOf s.snd < sizeOf s := by
    obtain ⟨k, w⟩ := s
    simp only [Prod.mk.sizeOf_spec]
    omega
  have h3 : sizeOf v.subs < sizeOf v := by
    obtain ⟨t, n, ss⟩ := v
    simp only [BucketView.mk.sizeOf_spec]
    omega
  omega

section
variable (L : Layout) (pagesize : Nat)

/-- write the bucket's own tree, then the buckets below it -/
def writeView (ov : Nat → Nat) (v : BucketView) (s : Src) : Src :=
  v.subs.attach.foldl (fun acc x => writeView ov x.1.2 acc) (writeTreeT L pagesize ov v.tree s)
termination_by sizeOf v
decreasing_by
  have hs := x.2
  have h1 : sizeOf x.1 < sizeOf v.subs := List.sizeOf_lt_of_mem hs
  have h2 : sizeOf x.1.snd < sizeOf x.1 := by
    obtain ⟨⟨k, w⟩, _⟩ := x
    simp only [Prod.mk.sizeOf_spec]
    omega
  have h3 : sizeOf v.subs < sizeOf v := by
    obtain ⟨t, n, ss⟩ := v
    simp only [BucketView.mk.sizeOf_spec]
    omega
  omega

/-- every tree of the view fits its runs inside a file of `size` bytes -/
def BucketView.fits (ov : Nat → Nat) (size : Nat) (v : BucketView) : Prop :=
  nodesFit L pagesize ov size v.tree = true ∧ ∀ s ∈ v.subs, s.2.fits ov size
termination_by sizeOf v
decreasing_by
  rename_i hs
  have h1 : sizeOf s < sizeOf v.subs := List.sizeOf_lt_of_mem hs
  have h2 : sizeOf s.snd < sizeOf s := by
    obtain ⟨k, w⟩ := s
    simp only [Prod.mk.sizeOf_spec]
    omega
  have h3 : sizeOf v.subs < sizeOf v := by
    obtain ⟨t, n, ss⟩ := v
    simp only [BucketView.mk.sizeOf_spec]
    omega
  omega

end

mutual
/-- the view is internally consistent: every tree passes the executable well-formedness check, and the
nested buckets are, entry by entry, the bucket entries of the tree, each stored at the root page and with
the counter its entry names -/
inductive ViewOK : BucketView → Prop where
  | mk (v : BucketView) : wfb (K := Bytes) none none v.tree = true →
      SubsOK (subBuckets v.tree.flatten) v.subs → ViewOK v
inductive SubsOK : List (Bytes × Nat × Nat) → List (Bytes × BucketView) → Prop where
  | nil : SubsOK [] []
  | cons (k : Bytes) (r n : Nat) (v : BucketView) (es : List (Bytes × Nat × Nat)) (vs : List (Bytes × BucketView)) :
      v.tree.pid = r → v.nextInt = n → ViewOK v → SubsOK es vs → SubsOK ((k, r, n) :: es) ((k, v) :: vs)
end

end Jamm
