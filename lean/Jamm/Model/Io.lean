/-
Layer P (I/O) — commits, crashes and recovery at page granularity.

A page's content is a token (which commit wrote it; 0 = garbage).  A header slot holds a header
(`good`) or something whose checksum does not verify (`bad`: never written completely, torn, damaged).
A snapshot is the list of (page, required content) its header reaches.  The disk is the durable image
plus the writes issued since the last completed sync; a crash keeps the durable image and, of the
pending writes, any subset, each possibly torn (a torn page holds garbage, a torn header is `bad` —
the latter is the NoTornCollision hypothesis: no mix of old and new header words has a valid checksum;
it is evaluated, not assumed, on every header tear the correspondence run synthesises).
Not modelled: the file's length and `fallocate` (the `.grow` step produces no `IoOp`), writes still unsynced
when a commit begins (every theorem starts from `pending := []`), sector-level reordering inside one write
beyond "torn = garbage" (A-disk).
-/
import Jamm.Model.Steps
namespace Jamm

structure Hdr where
  txId : Nat
  snap : Nat
  deriving DecidableEq, Repr

inductive Slot where
  | good (h : Hdr)
  | bad
  deriving DecidableEq, Repr

structure Img where
  slot0 : Slot
  slot1 : Slot
  page : Nat → Nat

inductive IoOp where
  | writePage (p c : Nat)
  | writeHdr (slot : Nat) (h : Hdr)
  | sync
  deriving DecidableEq, Repr

/-- how a pending write survives a crash -/
inductive Fate where
  | lost | full | torn
  deriving DecidableEq, Repr

def Img.setPage (i : Img) (p c : Nat) : Img := { i with page := fun q => if q = p then c else i.page q }
def Img.setSlot (i : Img) (s : Nat) (v : Slot) : Img := if s = 0 then { i with slot0 := v } else { i with slot1 := v }

/-- apply one write with the given fate -/
def Img.apply (i : Img) : IoOp → Fate → Img
  | _, .lost => i
  | .writePage p c, .full => i.setPage p c
  | .writePage p _, .torn => i.setPage p 0
  | .writeHdr s h, .full => i.setSlot s (.good h)
  | .writeHdr s _, .torn => i.setSlot s .bad
  | .sync, _ => i

/-- the disk while a commit runs -/
structure Disk where
  durable : Img
  pending : List IoOp      -- writes since the last completed sync, oldest first

def Disk.exec (d : Disk) : IoOp → Disk
  | .sync => { durable := d.pending.foldl (fun i w => i.apply w .full) d.durable, pending := [] }
  | w => { d with pending := d.pending ++ [w] }

def Disk.run (d : Disk) (ops : List IoOp) : Disk := ops.foldl Disk.exec d

/-- the image found after a crash: each pending write gets a fate (`fates` is aligned with `pending`;
missing entries mean lost) -/
def Disk.crash (d : Disk) (fates : List Fate) : Img :=
  (d.pending.zip fates).foldl (fun i wf => i.apply wf.1 wf.2) d.durable

/-- process kill: the operating system keeps every write issued so far -/
def Disk.kill (d : Disk) : Img := d.pending.foldl (fun i w => i.apply w .full) d.durable

/-- `DBInner::meta`: newest valid header, ties go to slot 1 -/
def recover (i : Img) : Option Hdr :=
  match i.slot0, i.slot1 with
  | .good a, .good b => if a.txId > b.txId then some a else some b
  | .good a, .bad => some a
  | .bad, .good b => some b
  | .bad, .bad => none

abbrev SnapDef := List (Nat × Nat)

def intact (i : Img) (sd : SnapDef) : Prop := ∀ e ∈ sd, i.page e.1 = e.2

/-- the writes of one commit, in the regenerated order of `TxInner::write_data` -/
def commitOps (steps : List CommitStep) (dirty : SnapDef) (slot : Nat) (h : Hdr) : List IoOp :=
  steps.flatMap fun
    | .writeData => dirty.map (fun e => IoOp.writePage e.1 e.2)
    | .writeMeta => [IoOp.writeHdr slot h]
    | .sync => [IoOp.sync]
    | _ => []

/-- the setting of one commit on a quiescent disk -/
structure CommitCtx where
  img0 : Img               -- durable image before the commit (nothing pending)
  slot : Nat               -- slot holding the current header (0 or 1)
  hpre : Hdr
  hold : Slot              -- what the other slot holds
  sdPre : SnapDef
  sdPost : SnapDef
  dirty : SnapDef          -- pages this commit writes, with their new content
  hpost : Hdr

/-- hypotheses: the current header is the newest valid one; its snapshot is intact; the commit is
copy-on-write (writes no page of the current snapshot, and no content token 0); the new snapshot
consists of unchanged pages of the old one and pages this commit writes; the new header is newer than
both slots -/
structure CommitCtx.Ok (c : CommitCtx) : Prop where
  slot01 : c.slot = 0 ∨ c.slot = 1
  cur : (if c.slot = 0 then c.img0.slot0 else c.img0.slot1) = .good c.hpre
  other : (if c.slot = 0 then c.img0.slot1 else c.img0.slot0) = c.hold
  newest : recover c.img0 = some c.hpre
  preIntact : intact c.img0 c.sdPre
  cow : ∀ e ∈ c.dirty, ∀ f ∈ c.sdPre, e.1 ≠ f.1
  dirtyFun : ∀ e ∈ c.dirty, ∀ f ∈ c.dirty, e.1 = f.1 → e.2 = f.2
  nonzero : ∀ e ∈ c.dirty, e.2 ≠ 0
  post : ∀ e ∈ c.sdPost, e ∈ c.dirty ∨ (e ∈ c.sdPre ∧ ∀ f ∈ c.dirty, f.1 ≠ e.1)
  newer : c.hpre.txId < c.hpost.txId ∧ (∀ h, c.hold = .good h → h.txId < c.hpost.txId)

/-- the shape the operations of a commit must have: all data writes, a sync, the header into the
*other* slot, a sync -/
def safeShape (c : CommitCtx) : List IoOp :=
  c.dirty.map (fun e => IoOp.writePage e.1 e.2) ++ [.sync, .writeHdr (1 - c.slot) c.hpost, .sync]

/-- what a crash may leave: the previous commit, complete — or the new one, complete -/
def Atomic (c : CommitCtx) (i : Img) : Prop :=
  (recover i = some c.hpre ∧ intact i c.sdPre) ∨ (recover i = some c.hpost ∧ intact i c.sdPost)

end Jamm

namespace Jamm

/-! ### failed commits (C11): which in-memory state goes with which visible header

As soon as the header page write reaches the file the new state is visible through the map — even when
the write (a short write followed by an error) or the sync after it *reports* a failure.  The shared
free list must therefore be published exactly when this transaction's header is the visible one. -/

def CommitStep.fallible : CommitStep → Bool
  | .allocFreelist | .grow | .writeData | .strictCheck | .writeMeta | .flush | .sync => true
  | .freeOldFreelist | .publishFreelist | .beginHeaderAttempt | .publishIfVisible => false

structure FaultSt where
  hdrVisible : Bool := false
  published : Bool := false
  inAttempt : Bool := false
  deriving DecidableEq, Repr

def FaultSt.step (s : FaultSt) : CommitStep → FaultSt
  | .writeMeta => { s with hdrVisible := true }
  | .publishFreelist => { s with published := true }
  | .beginHeaderAttempt => { s with inAttempt := true }
  | .publishIfVisible => { s with published := s.hdrVisible, inAttempt := false }
  | _ => s

/-- the state in which `write_data` returns an error when step `k` fails: the steps before it have
run; a failing header write may or may not have made the header visible (`partialVisible`); a failure
inside the header attempt still reaches the guarded publication -/
def stateAtFailure (steps : List CommitStep) (k : Nat) (partialVisible : Bool) : FaultSt :=
  let s := (steps.take k).foldl FaultSt.step {}
  let s := if steps[k]? = some .writeMeta then { s with hdrVisible := partialVisible } else s
  if s.inAttempt && (steps.drop k).contains .publishIfVisible then s.step .publishIfVisible else s

/-- at every point where the commit can fail — and when it succeeds — the shared free list has been
published iff the new header is visible -/
def FaultConsistent (steps : List CommitStep) : Bool :=
  (List.range steps.length).all (fun k =>
    match steps[k]? with
    | some st => !st.fallible || [true, false].all (fun pv =>
        let s := stateAtFailure steps k pv; s.hdrVisible == s.published)
    | none => true) &&
  (let s := steps.foldl FaultSt.step {}; s.hdrVisible == s.published)

end Jamm
