/-
Layer P — vocabulary of protocol steps.  The translator `/verif/tools/gen_steps.py` regenerates the
*order* in which the code performs these steps (`Jamm.Gen.beginSteps`, `commitSteps`, …) from
/repo/src on every run; the protocol theorems are about decidable predicates on such lists, so they
are re-checked against what the code says now.
-/
namespace Jamm

/-- `Tx::new` -/
inductive BeginStep where
  | lockTx              -- writer: file mutex; reader: map read lock
  | cloneFreelist
  | readMeta
  | lockReaders
  | releaseOrRegister   -- writer: bump tx id, release pending pages; reader: register snapshot id
  | unlockReaders
  | cloneMap
  deriving DecidableEq, Repr

/-- `TxInner::write_data` -/
inductive CommitStep where
  | freeOldFreelist | allocFreelist | grow | writeData | strictCheck | writeMeta | flush | sync
  | publishFreelist
  | beginHeaderAttempt   -- start of the region whose failure does not skip the publication decision
  | publishIfVisible     -- publish the free list iff this transaction's header is the visible one
  deriving DecidableEq, Repr

inductive CommitOuterStep where
  | guardWritable | rebalance | spill | writeDataCall
  deriving DecidableEq, Repr

inductive ResizeStep where
  | fallocate | lockMapWrite | lockData | mmap | storeMap
  deriving DecidableEq, Repr

inductive DropStep where
  | lockReaders | findReader | removeReader
  deriving DecidableEq, Repr

inductive OpenStep where
  | existsCheck | initFile | openFile | openOrCreate | dbOpen
  deriving DecidableEq, Repr

inductive InitStep where
  | createNew | fallocate | writeInit | flush | sync | flock
  deriving DecidableEq, Repr

inductive OpenInnerStep where
  | flock | initIfEmpty | mmap | readMeta | loadFreelist
  deriving DecidableEq, Repr

/-- one acquisition of one of the five locks of `DBInner` (as found in a function body, in source order) -/
inductive LockUse where
  | file | mapRead | mapWrite | readers | data | freelist
  deriving DecidableEq, Repr

structure ApiFn where
  name : String
  mutates : Bool
  guarded : Bool
  deriving DecidableEq, Repr

/-- position of the first occurrence -/
def idxOf [DecidableEq α] (l : List α) (a : α) : Option Nat :=
  let i := l.findIdx (· == a)
  if i < l.length then some i else none

/-- `a` occurs, and every occurrence of `b` comes after the first `a` … used as "a before b" -/
def before [DecidableEq α] (l : List α) (a b : α) : Bool :=
  match idxOf l a, idxOf l b with
  | some i, some j => i < j
  | _, _ => false

/-- some `x` occurs strictly between the first `a` and the first `b` -/
def betweenFirst [DecidableEq α] (l : List α) (a x b : α) : Bool :=
  match idxOf l a, idxOf l b with
  | some i, some j => i < j && ((l.take j).drop (i + 1)).contains x
  | _, _ => false

/-- some `x` occurs after the first `a` -/
def afterFirst [DecidableEq α] (l : List α) (a x : α) : Bool :=
  match idxOf l a with
  | some i => (l.drop (i + 1)).contains x
  | none => false

/-! ### the order predicates the protocol theorems need -/

/-- C02: data pages are synced before the header is written, the header is synced before commit
returns -/
def CommitWellOrdered (l : List CommitStep) : Bool :=
  betweenFirst l .writeData .sync .writeMeta && afterFirst l .writeMeta .sync &&
  before l .allocFreelist .writeData && before l .grow .writeData

/-- C11: once the header write has succeeded the new state is visible through the map, so the shared
free list must be published before anything that can still fail -/
def PublishAfterHeader (l : List CommitStep) : Bool :=
  before l .writeMeta .publishFreelist &&
  match idxOf l .writeMeta, idxOf l .publishFreelist with
  | some i, some j => !(((l.take j).drop (i + 1)).any (fun s => s == .sync || s == .flush || s == .strictCheck || s == .grow || s == .writeData))
  | _, _ => false

/-- C04: the header is read inside the reader-list critical section in which the reader registers /
the writer decides what to release -/
def BeginRegistersAtomically (l : List BeginStep) : Bool :=
  betweenFirst l .lockReaders .readMeta .releaseOrRegister && before l .releaseOrRegister .unlockReaders &&
  before l .lockTx .cloneFreelist && before l .lockTx .readMeta

/-- C13: the advisory lock is taken before the file is initialised, and initialisation (of a still empty
file) comes before the map; the path is opened with create-if-missing and never tested for existence first,
and `init_file` neither opens nor locks anything itself -/
def OpenLocksBeforeInit (outer : List OpenStep) (init : List InitStep) (inner : List OpenInnerStep) : Bool :=
  outer == [.openOrCreate, .dbOpen] && !init.contains .createNew && !init.contains .flock &&
  before init .fallocate .writeInit && before init .writeInit .sync &&
  before inner .flock .initIfEmpty && before inner .initIfEmpty .mmap

/-- the order of the pinned release: exists-check, then create + initialise, and only then the lock -/
def pinnedOpenOuter : List OpenStep := [.existsCheck, .initFile, .openFile, .dbOpen]
def pinnedInitSteps : List InitStep := [.createNew, .fallocate, .writeInit, .flush, .sync]
def pinnedOpenInner : List OpenInnerStep := [.flock, .mmap, .readMeta, .loadFreelist]

/-- C13(a): an *existing* file is locked before it is mapped or read -/
def OpenLocksBeforeMap (inner : List OpenInnerStep) : Bool :=
  before inner .flock .mmap && before inner .mmap .readMeta && before inner .readMeta .loadFreelist

/-- C06: every public method that can mutate starts with the read-only guard -/
def MutatorsGuarded (api : List ApiFn) : Bool := api.all (fun f => !f.mutates || f.guarded)

end Jamm
