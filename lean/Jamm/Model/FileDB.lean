/-
From a checked file to the API-layer state: the bucket views unfolded from the pages, read as the
tree-based database of `Model/TreeDB.lean` (values kept, nested-bucket headers reduced to the marker).
-/
import Jamm.Model.FileCheck
import Jamm.Model.TreeDB
namespace Jamm

section
variable {K E E' : Type}

mutual
/-- map the payloads of a tree (keys, page ids and shape unchanged) -/
def Tree.mapE (f : E → E') : Tree K E → Tree K E'
  | .leaf p es => .leaf p (es.map (fun e => (e.1, f e.2)))
  | .branch p kids => .branch p (Forest.mapE f kids)
def Forest.mapE (f : E → E') : Forest K E → Forest K E'
  | .nil => .nil
  | .cons k t rest => .cons k (Tree.mapE f t) (Forest.mapE f rest)
end

end

/-- what the API sees of a leaf value -/
def itemOf : LeafVal → Spec.Item Bytes
  | .kv v => .val v
  | .bkt _ _ => .bkt

/-- the database state a file holds: one (counter, tree) per bucket path -/
def viewToTDB (path : Spec.Path Bytes) (v : BucketView) : TDB.DB Bytes Bytes :=
  (path, { nextInt := v.nextInt, tree := v.tree.mapE itemOf }) ::
    v.subs.flatMap (fun s => viewToTDB (path ++ [s.1]) s.2)
termination_by sizeOf v
decreasing_by
  rename_i hs
  have h1 : sizeOf s < sizeOf v.subs := List.sizeOf_lt_of_mem hs
  have h2 : sizeOf s.snd < sizeOf s := by
    obtain ⟨k, w⟩ := s
    simp only [Prod.mk.sizeOf_spec]
    omega
  have h3 : sizeOf v.subs < sizeOf v := by
    obtain ⟨t, n, ss⟩ := v
    simp only [BucketView.mk.sizeOf_spec]
    omega
  omega

end Jamm
