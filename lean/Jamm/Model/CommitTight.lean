/-
Layer C, tightness: no gap between the routing lower bound of an off-spine branch and its first key.

`WFS` (Model/CommitInv.lean) only demands `lo ≤ first key` for a branch with routing lower bound `lo`.
A `put` of a key in the gap `[lo, first key)` is routed to the branch's first child and lands *below* the
branch's first key, which breaks `WFS` (`put_wfs_false` in CommitSepLemmas.lean).  Leaf edits keep
`WFS` on *tight* trees, and keep tightness.  `rebalance` keeps `WFS` but not tightness (removing an empty
first child opens a gap); `spill` re-keys every rewritten node by its first key.

Executable versions `tightB` / `tightFB` (soundness in Proofs/CommitSepDefs.lean).  `TightMT` is the form that
holds in the middle of a commit: tightness is demanded only of pages the transaction has not
materialised (every materialised node is re-keyed by `spill`).
-/
import Jamm.Model.CommitInv
set_option linter.unusedSectionVars false
open Std

namespace Jamm

section
variable {K E : Type} [Ord K]

/-- the first key `k` of a branch with routing lower bound `lo` is not above `lo` -/
def tightKey (lo : Option K) (k : K) : Prop := match lo with | none => True | some l => kle k l = true

mutual
/-- every branch off the leftmost spine has a first key that is not above the branch's routing lower
bound (together with `WFS`: equal to it) -/
inductive TightT : Option K → Tree K E → Prop where
  | leaf (lo : Option K) (p : Nat) (es : List (K × E)) : TightT lo (.leaf p es)
  | emptyBranch (lo : Option K) (p : Nat) : TightT lo (.branch p .nil)
  | branch (lo : Option K) (p : Nat) (k : K) (t : Tree K E) (rest : Forest K E) :
      tightKey lo k → TightF (sepLo lo k) k t rest → TightT lo (.branch p (.cons k t rest))
/-- `TightF lo k t rest`: the entry `(k, t)` whose routing lower bound is `lo`, followed by `rest` (the
bounds are threaded exactly as in `WFFS`) -/
inductive TightF : Option K → K → Tree K E → Forest K E → Prop where
  | last (lo : Option K) (k : K) (t : Tree K E) : TightT lo t → TightF lo k t .nil
  | cons (lo : Option K) (k : K) (t : Tree K E) (k' : K) (t' : Tree K E) (rest : Forest K E) :
      TightT lo t → TightF (some k') k' t' rest → TightF lo k t (.cons k' t' rest)
end

/-- executable `tightKey` -/
def tightKeyB (lo : Option K) (k : K) : Bool := match lo with | none => true | some l => kle k l

mutual
/-- executable `TightT` -/
def tightB (lo : Option K) : Tree K E → Bool
  | .leaf _ _ => true
  | .branch _ kids =>
    match kids with
    | .nil => true
    | .cons k t rest => tightKeyB lo k && tightFB (sepLo lo k) (.cons k t rest)
/-- executable `TightF` (on the whole entry list; `false` on the empty list, which `tightB` never passes) -/
def tightFB (lo : Option K) : Forest K E → Bool
  | .nil => false
  | .cons _ t .nil => tightB lo t
  | .cons _ t (.cons k' t' rest) => tightB lo t && tightFB (some k') (.cons k' t' rest)
end

/-- `TightF` stated on a whole entry list -/
def TightForest (lo : Option K) : Forest K E → Prop
  | .nil => False
  | .cons k t rest => TightF lo k t rest


mutual
/-- tightness below and at every page the transaction has not materialised; a materialised branch only
passes the demand on to its children -/
inductive TightMT : Option K → Tree K E → Prop where
  | leaf (lo : Option K) (p : Nat) (es : List (K × E)) : TightMT lo (.leaf p es)
  | unmat (lo : Option K) (p : Nat) (kids : Forest K E) :
      nodeMat p = false → TightT lo (.branch p kids) → TightMT lo (.branch p kids)
  | emptyBranch (lo : Option K) (p : Nat) : TightMT lo (.branch p .nil)
  | branch (lo : Option K) (p : Nat) (k : K) (t : Tree K E) (rest : Forest K E) :
      nodeMat p = true → TightMF (sepLo lo k) k t rest → TightMT lo (.branch p (.cons k t rest))
inductive TightMF : Option K → K → Tree K E → Forest K E → Prop where
  | last (lo : Option K) (k : K) (t : Tree K E) : TightMT lo t → TightMF lo k t .nil
  | cons (lo : Option K) (k : K) (t : Tree K E) (k' : K) (t' : Tree K E) (rest : Forest K E) :
      TightMT lo t → TightMF (some k') k' t' rest → TightMF lo k t (.cons k' t' rest)
end

mutual
/-- executable `TightMT` -/
def tightMB (lo : Option K) : Tree K E → Bool
  | .leaf _ _ => true
  | .branch p kids =>
    if !nodeMat p then tightB lo (.branch p kids) else
    match kids with
    | .nil => true
    | .cons k t rest => tightMFB (sepLo lo k) (.cons k t rest)
def tightMFB (lo : Option K) : Forest K E → Bool
  | .nil => false
  | .cons _ t .nil => tightMB lo t
  | .cons _ t (.cons k' t' rest) => tightMB lo t && tightMFB (some k') (.cons k' t' rest)
end

end
end Jamm
