/-
Layer S: writing a whole tree.  Every node is written at its own page (`writeLeafPage` / `writeBranchPage`,
a branch entry holding the key and the page id of the child); reading the file back by unfolding from the
root page gives the tree again, provided the nodes' runs are pairwise disjoint, inside the file, and each
node fits its run (`Proofs/EncodeTreeLemmas.lean`).
-/
import Jamm.Model.Encode
import Jamm.Model.FileCheck
namespace Jamm

section
variable (L : Layout) (pagesize : Nat)

/-- the entries of a branch page: each child's key and page id -/
def Forest.entries : Forest Bytes LeafVal → List (Bytes × Nat)
  | .nil => []
  | .cons k t rest => (k, t.pid) :: Forest.entries rest

mutual
/-- write every node of the tree at the page its `pid` names; `ov p` = number of overflow pages of the run at `p` -/
def writeTreeT (ov : Nat → Nat) : Tree Bytes LeafVal → Src → Src
  | .leaf p es, s => writeLeafPage L pagesize p (ov p) es s
  | .branch p kids, s => writeTreeF ov kids (writeBranchPage L pagesize p (ov p) (Forest.entries kids) s)
def writeTreeF (ov : Nat → Nat) : Forest Bytes LeafVal → Src → Src
  | .nil, s => s
  | .cons _ t rest, s => writeTreeF ov rest (writeTreeT ov t s)
end

/-- the page store of a byte source: every page decoded with the layout -/
def pageStoreOf (s : Src) : PageStore := fun pid =>
  match decodePage L s pagesize pid with
  | .ok p => some p
  | .error _ => none

mutual
/-- the bytes each node occupies: `[pid * pagesize, pid * pagesize + bytes)` must lie inside its run, the runs
`[pid, pid + ov pid]` inside the file; collected as (first page, last page, fits) obligations -/
def nodesFit (ov : Nat → Nat) (size : Nat) : Tree Bytes LeafVal → Bool
  | .leaf p es =>
    decide (leafBytes L es ≤ (ov p + 1) * pagesize) && decide (p * pagesize + (ov p + 1) * pagesize ≤ size) &&
    decide (p < 2 ^ 64) && decide ((ov p + 1) * pagesize < 2 ^ 64) && es.all (fun e => e.2.fits)
  | .branch p kids =>
    decide (branchBytes L (Forest.entries kids) ≤ (ov p + 1) * pagesize) && decide (p * pagesize + (ov p + 1) * pagesize ≤ size) &&
    decide (p < 2 ^ 64) && decide ((ov p + 1) * pagesize < 2 ^ 64) && nodesFitF ov size kids
def nodesFitF (ov : Nat → Nat) (size : Nat) : Forest Bytes LeafVal → Bool
  | .nil => true
  | .cons _ t rest => nodesFit ov size t && nodesFitF ov size rest
end

mutual
/-- the page runs of the nodes, in the order they are written -/
def nodeRunsT (ov : Nat → Nat) : Tree Bytes LeafVal → List (Nat × Nat)
  | .leaf p _ => [(p, ov p)]
  | .branch p kids => (p, ov p) :: nodeRunsF ov kids
def nodeRunsF (ov : Nat → Nat) : Forest Bytes LeafVal → List (Nat × Nat)
  | .nil => []
  | .cons _ t rest => nodeRunsT ov t ++ nodeRunsF ov rest
end

/-- two runs `(p, o)`, `(q, r)` do not share a page -/
def runsDisjoint (a b : Nat × Nat) : Prop := a.1 + a.2 < b.1 ∨ b.1 + b.2 < a.1

end
end Jamm
