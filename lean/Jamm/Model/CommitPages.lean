/-
Layer C → Layer A: what one bucket's commit does to pages.  A node stored at page `p` occupies the run
`[p, p + runLen)` where the run length is what `TxFreelist::allocate` computes for `Node::size` bytes
(`size_of::<Page>()` + element records + keys/values).  A commit frees the runs of every node of the overlay
that does not survive untouched, and requests one run per node it writes.
-/
import Jamm.Model.Commit
import Jamm.Model.Layout
namespace Jamm

section
variable (L : Layout) (pagesize : Nat)

/-- `TxFreelist::allocate`: pages needed for `bytes` bytes -/
def runLen (bytes : Nat) : Nat := if bytes % pagesize = 0 then bytes / pagesize else bytes / pagesize + 1

/-- `Node::size` -/
def nodeBytes : Tree Bytes Ent → Nat
  | .leaf _ es => L.pageSize + es.length * L.leafSize + (es.map (entSize L.bmSize)).sum
  | .branch _ kids => L.pageSize + kids.length * L.branchSize + (kids.toList.map (fun e => e.1.length)).sum

/-- the pages of the run a stored node occupies (none for a node that has no page yet) -/
def nodeRun (t : Tree Bytes Ent) : List Nat :=
  let pg := nodePage t.pid
  if pg = 0 then [] else (List.range (runLen pagesize (nodeBytes L t))).map (· + pg)

mutual
/-- every page of every stored node of the tree -/
def treeRuns : Tree Bytes Ent → List Nat
  | .leaf p es => nodeRun L pagesize (.leaf p es)
  | .branch p kids => nodeRun L pagesize (.branch p kids) ++ forestRuns kids
def forestRuns : Forest Bytes Ent → List Nat
  | .nil => []
  | .cons _ t rest => treeRuns t ++ forestRuns rest
end

mutual
/-- the run sizes requested for the nodes the commit writes (the nodes without a page in the result) -/
def treeRequests : Tree Bytes Ent → List Nat
  | .leaf p es => if nodePage p = 0 then [runLen pagesize (nodeBytes L (.leaf p es))] else []
  | .branch p kids =>
    (if nodePage p = 0 then [runLen pagesize (nodeBytes L (.branch p kids))] else []) ++ forestRequests kids
def forestRequests : Forest Bytes Ent → List Nat
  | .nil => []
  | .cons _ t rest => treeRequests t ++ forestRequests rest
end

/-- pages one bucket's commit frees: the runs of the overlay that are not runs of the committed tree -/
def commitFreed (pre post : Tree Bytes Ent) : List Nat :=
  (treeRuns L pagesize pre).filter (fun p => !(treeRuns L pagesize post).contains p)

end
end Jamm
