/-
Layer C → Layer A: what one bucket's commit does to pages.  A node stored at page `p` occupies the run
`[p, p + runLen)` where the run length is what `TxFreelist::allocate` computes for `Node::size` bytes
(`size_of::<Page>()` + element records + keys/values).  A commit frees the runs of every node of the overlay
that does not survive untouched, and requests one run per node it writes.
-/
import Jamm.Model.Commit
import Jamm.Model.Layout
namespace Jamm

section
variable {E : Type} (L : Layout) (pagesize : Nat) (esz : Bytes × E → Nat)

/-- `TxFreelist::allocate`: pages needed for `bytes` bytes -/
def runLen (bytes : Nat) : Nat := if bytes % pagesize = 0 then bytes / pagesize else bytes / pagesize + 1

/-- `Node::size` (`esz` = stored size of a leaf entry: `entSize L.bmSize` for the payload `Ent`) -/
def nodeBytes : Tree Bytes E → Nat
  | .leaf _ es => L.pageSize + es.length * L.leafSize + (es.map esz).sum
  | .branch _ kids => L.pageSize + kids.length * L.branchSize + (kids.toList.map (fun e => e.1.length)).sum

/-- the pages of the run a stored node occupies (none for a node that has no page yet) -/
def nodeRun (t : Tree Bytes E) : List Nat :=
  let pg := nodePage t.pid
  if pg = 0 then [] else (List.range (runLen pagesize (nodeBytes L esz t))).map (· + pg)

mutual
/-- every page of every stored node of the tree -/
def treeRuns : Tree Bytes E → List Nat
  | .leaf p es => nodeRun L pagesize esz (.leaf p es)
  | .branch p kids => nodeRun L pagesize esz (.branch p kids) ++ forestRuns kids
def forestRuns : Forest Bytes E → List Nat
  | .nil => []
  | .cons _ t rest => treeRuns t ++ forestRuns rest
end

mutual
/-- the run sizes requested for the nodes the commit writes (the nodes without a page in the result) -/
def treeRequests : Tree Bytes E → List Nat
  | .leaf p es => if nodePage p = 0 then [runLen pagesize (nodeBytes L esz (.leaf p es))] else []
  | .branch p kids =>
    (if nodePage p = 0 then [runLen pagesize (nodeBytes L esz (.branch p kids))] else []) ++ forestRequests kids
def forestRequests : Forest Bytes E → List Nat
  | .nil => []
  | .cons _ t rest => treeRequests t ++ forestRequests rest
end

/-- pages one bucket's commit frees: the runs of the overlay that are not runs of the committed tree -/
def commitFreed (pre post : Tree Bytes E) : List Nat :=
  (treeRuns L pagesize esz pre).filter (fun p => !(treeRuns L pagesize esz post).contains p)

end
end Jamm
