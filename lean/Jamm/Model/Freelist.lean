/-
Layer A — the allocator (`freelist.rs`) and the page-release protocol between readers and writers
(`tx.rs:112-153`, `:477-488`).

`FL` is `Freelist`: `free` is the `BTreeSet` (ascending, duplicate free), `pending` the `BTreeMap` from
the freeing transaction's id to the pages it freed.  `allocate` is the first-fit loop of
`freelist.rs:124-160` over maximal runs of consecutive ids.
-/
namespace Jamm

structure FL where
  free : List Nat := []
  pending : List (Nat × List Nat) := []
  deriving Repr, DecidableEq, Inhabited

namespace FL

/-- ascending insert without duplicates (`BTreeSet::insert`) -/
def insertSorted (p : Nat) : List Nat → List Nat
  | [] => [p]
  | a :: rest => if p < a then p :: a :: rest else if p = a then a :: rest else a :: insertSorted p rest

/-- `Freelist::free(tx, page)`: remember the page under the freeing transaction -/
def freePage (f : FL) (tx page : Nat) : FL :=
  let rec go : List (Nat × List Nat) → List (Nat × List Nat)
    | [] => [(tx, [page])]
    | (t, ps) :: rest =>
      if tx < t then (tx, [page]) :: (t, ps) :: rest
      else if tx = t then (t, ps ++ [page]) :: rest
      else (t, ps) :: go rest
  { f with pending := go f.pending }

/-- `TxFreelist::free(page, n)` -/
def freeRun (f : FL) (tx page n : Nat) : FL :=
  (List.range n).foldl (fun acc i => acc.freePage tx (page + i)) f

/-- `Freelist::release(bound)`: pages freed by transactions with id `< bound` become free -/
def release (f : FL) (bound : Nat) : FL :=
  let rel := f.pending.takeWhile (fun e => e.1 < bound)
  let keep := f.pending.dropWhile (fun e => e.1 < bound)
  { free := (rel.flatMap (·.2)).foldl (fun acc p => insertSorted p acc) f.free, pending := keep }

/-- the scan of `Freelist::allocate`: first maximal run that reaches length `n` -/
def findRun (n : Nat) : List Nat → Nat → Nat → Option Nat
  | [], _, _ => none
  | id :: rest, start, prev =>
    let start' := if prev = 0 ∨ id - prev ≠ 1 then id else start
    if id - start' + 1 = n then some start' else findRun n rest start' id

/-- `Freelist::allocate(n)` -/
def allocate (f : FL) (n : Nat) : Option (Nat × FL) :=
  match findRun n f.free 0 0 with
  | none => none
  | some s => some (s, { f with free := f.free.filter (fun p => p < s ∨ s + n ≤ p) })

/-- `Freelist::pages()`: what is persisted (after the `fix:` commit: each page once) -/
def pages (f : FL) : List Nat :=
  (f.free ++ f.pending.flatMap (·.2)).mergeSort (· ≤ ·) |>.eraseDups

/-- `Freelist::init` on open: everything listed is free -/
def init (ps : List Nat) : FL := { free := ps.foldl (fun acc p => insertSorted p acc) [], pending := [] }

def pendingPages (f : FL) : List Nat := f.pending.flatMap (·.2)

end FL

/-- `TxFreelist`: the transaction's private free list plus the page high-water mark -/
structure TxFL where
  fl : FL
  numPages : Nat
  txId : Nat
  deriving Repr

/-- `TxFreelist::allocate(npages)`: first fit, else extend the file -/
def TxFL.allocate (t : TxFL) (n : Nat) : Nat × TxFL :=
  match t.fl.allocate n with
  | some (s, fl') => (s, { t with fl := fl' })
  | none => (t.numPages, { t with numPages := t.numPages + n })

/-! ### the release protocol (sequential histories, C03 / C10)

A snapshot is a transaction id plus the set of pages its header reaches (tree pages with overflow runs
and the free-list run).  A writer is an abstract copy-on-write client: it frees pages of the snapshot
it started from and allocates the pages it writes. -/

structure Snap where
  txId : Nat
  reach : List Nat
  deriving Repr, DecidableEq

structure Sys where
  cur : Snap
  shared : FL
  readers : List Snap      -- open read transactions with the snapshot each started from
  numPages : Nat
  deriving Repr

/-- what one write transaction does, as far as pages are concerned -/
structure WriterTx where
  freed : List Nat         -- pages of the current snapshot it frees (replaced / merged / deleted nodes, old free-list run)
  requests : List Nat      -- sizes (in pages) of the runs it allocates, in order
  deriving Repr

/-- `Tx::new(writable = true)`: clone, bump the id, release what no reader can need -/
def Sys.beginWriter (s : Sys) : TxFL :=
  let txId := s.cur.txId + 1
  let ids := s.readers.map (·.txId)
  let bound := match ids.min? with | some m => m | none => txId
  { fl := s.shared.release bound, numPages := s.numPages, txId := txId }

/-- run a writer's frees and allocations on its private list; returns the allocated runs -/
def TxFL.run (t : TxFL) (w : WriterTx) : List (Nat × Nat) × TxFL :=
  let t1 := { t with fl := w.freed.foldl (fun acc p => acc.freePage t.txId p) t.fl }
  w.requests.foldl (fun (acc : List (Nat × Nat) × TxFL) n =>
    let r := acc.2.allocate n
    (acc.1 ++ [(r.1, n)], r.2)) ([], t1)

def expand (runs : List (Nat × Nat)) : List Nat := runs.flatMap (fun r => (List.range r.2).map (· + r.1))

inductive Ev where
  | beginR
  | endR (i : Nat)
  | commitW (w : WriterTx)
  | dropW (w : WriterTx)
  deriving Repr

def Sys.step (s : Sys) : Ev → Sys
  | .beginR => { s with readers := s.readers ++ [s.cur] }
  | .endR i => { s with readers := s.readers.eraseIdx i }
  | .dropW _ => s
  | .commitW w =>
    let t := s.beginWriter
    let r := t.run w
    let alloc := expand r.1
    { cur := { txId := t.txId, reach := (s.cur.reach.filter (fun p => !w.freed.contains p)) ++ alloc }
      shared := r.2.fl
      readers := s.readers
      numPages := r.2.numPages }

/-- pages a committing writer writes to -/
def Sys.writes (s : Sys) (w : WriterTx) : List Nat := expand (s.beginWriter.run w).1

end Jamm
