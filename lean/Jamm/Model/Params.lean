/-
Tunables the properties do not depend on are parameters: theorems are proved for every value that
satisfies `Params.Valid`, and the translator regenerates `Jamm.Gen.params` from the constants in
/repo/src (`node.rs`, `db.rs`).
-/
namespace Jamm

structure Params where
  minKeysPerNode : Nat
  fillNum : Nat       -- FILL_PERCENT as an exact rational fillNum / fillDen
  fillDen : Nat
  mergeDivisor : Nat  -- needs_merging: size < pagesize / mergeDivisor
  minAllocSize : Nat
  defaultNumPages : Nat
  minPagesize : Nat
  minNumPages : Nat
  pagesizeAlign : Nat   -- accepted page sizes are multiples of this (pages are read in place as 8-byte aligned structs)
  deriving DecidableEq, Repr

def Params.Valid (p : Params) : Prop :=
  1 ≤ p.minKeysPerNode ∧ 0 < p.fillDen ∧ p.fillNum ≤ p.fillDen ∧ 0 < p.fillNum ∧ 0 < p.mergeDivisor ∧
  0 < p.minAllocSize ∧ 4 ≤ p.minNumPages ∧ p.minNumPages ≤ p.defaultNumPages ∧ 1024 ≤ p.minPagesize ∧ 8 ∣ p.pagesizeAlign

instance (p : Params) : Decidable p.Valid := by unfold Params.Valid; infer_instance

end Jamm
