/-
Layer Q model — the cursor (`cursor.rs`, after the `fix:` commits): a stack of (page-or-node, index)
frames, `seek_first`, `advance`, `skip_empty_leaves`, `next`, `seek`, `current`, and the `Range`,
`Buckets`, `KVPairs` adaptors.  Frames hold the subtree itself (a page id resolves to the
transaction's node when one exists, else to the mapped page: in the value model that is just the
subtree).  The stack's head is the top frame.
-/
import Jamm.Model.Tree
set_option linter.unusedSectionVars false
open Std

namespace Jamm

structure Frame (K E : Type) where
  node : Tree K E
  idx : Nat

abbrev Stack (K E : Type) := List (Frame K E)

section
variable {K E : Type}

mutual
/-- `seek_first`'s loop from a frame `(t, i)`: descend through child `i`, then always child 0 -/
def descend : Tree K E → Nat → Stack K E → Stack K E
  | .leaf p es, i, acc => ⟨.leaf p es, i⟩ :: acc
  | .branch p kids, i, acc => descendF kids i (⟨.branch p kids, i⟩ :: acc)
/-- walk to child `i` of the forest and descend into it; `acc` already holds the branch frame.
An index past the end (never the case for a frame the cursor builds) stops at the branch. -/
def descendF : Forest K E → Nat → Stack K E → Stack K E
  | .nil, _, acc => acc
  | .cons _ t _, 0, acc => descend t 0 acc
  | .cons _ _ rest, i + 1, acc => descendF rest i acc
end

/-- `Cursor::advance`: pop exhausted frames, step the first frame that has a next entry, descend.
Returns `false` (and the popped stack) when there is no next entry. -/
def advance : Stack K E → Bool × Stack K E
  | [] => (false, [])
  | f :: rest =>
    if f.idx + 1 ≥ f.node.len then
      match rest with
      | [] => (false, [f])
      | _ :: _ => advance rest
    else (true, descend f.node (f.idx + 1) rest)

/-- `Cursor::skip_empty_leaves`, with explicit fuel (the number of nodes of the tree suffices) -/
def skipEmpty : Nat → Stack K E → Bool × Stack K E
  | 0, s => (true, s)
  | fuel + 1, s =>
    match s with
    | [] => (true, s)
    | [_] => (true, s)
    | f :: _ :: _ =>
      if f.node.isLeaf && f.node.len == 0 then
        let r := advance s
        if r.1 then skipEmpty fuel r.2 else (false, r.2)
      else (true, s)

/-- `Cursor::current` -/
def current : Stack K E → Option (K × E)
  | [] => none
  | f :: _ =>
    match f.node with
    | .leaf _ es => es[f.idx]?
    | .branch _ _ => none

structure Cursor (K E : Type) where
  root : Tree K E
  stack : Stack K E := []
  nextCalled : Bool := false

/-- `Iterator::next` for `Cursor` -/
def Cursor.next (c : Cursor K E) : Option (K × E) × Cursor K E :=
  let fuel := c.root.nodes + 1
  let positioned : Option (Stack K E) :=
    if c.stack.isEmpty then some (descend c.root 0 [])
    else if c.nextCalled then
      let r := advance c.stack
      if r.1 then some r.2 else none
    else some c.stack
  match positioned with
  | none => (none, { c with stack := (advance c.stack).2 })
  | some s =>
    let r := skipEmpty fuel s
    if r.1 then (current r.2, { c with stack := r.2, nextCalled := true })
    else (none, { c with stack := r.2, nextCalled := true })

/-- call `next` until it returns `none`, at most `fuel` times; also returns the final cursor -/
def Cursor.drain : Nat → Cursor K E → List (K × E) × Cursor K E
  | 0, c => ([], c)
  | fuel + 1, c =>
    match c.next with
    | (none, c') => ([], c')
    | (some e, c') => let r := Cursor.drain fuel c'; (e :: r.1, r.2)

end

section
variable {K E : Type} [Ord K]

mutual
/-- `cursor::search` (`cursor.rs:139`): descend by `index`, recording a frame per level -/
def searchT (key : K) : Tree K E → Stack K E → Bool × Stack K E
  | .leaf p es, acc =>
    let r := indexOf (es.map (·.1)) key
    (r.2, ⟨.leaf p es, r.1⟩ :: acc)
  | .branch p kids, acc =>
    let i := (indexOf kids.keys key).1
    searchF key kids i (⟨.branch p kids, i⟩ :: acc)
def searchF (key : K) : Forest K E → Nat → Stack K E → Bool × Stack K E
  | .nil, _, acc => (false, acc)
  | .cons _ t _, 0, acc => searchT key t acc
  | .cons _ _ rest, i + 1, acc => searchF key rest i acc
end

/-- `Cursor::seek` -/
def Cursor.seek (c : Cursor K E) (key : K) : Bool × Cursor K E :=
  let r := searchT key c.root []
  let s := skipEmpty (c.root.nodes + 1) r.2
  (r.1, { c with stack := s.2, nextCalled := false })

/-- `Range::next` (`cursor.rs`): position on the first call, then filter by the end bound -/
structure RangeIt (K E : Type) where
  c : Cursor K E
  lo : Spec.Bound K
  hi : Spec.Bound K

def RangeIt.next [DecidableEq K] (r : RangeIt K E) : Option (K × E) × RangeIt K E :=
  let c1 : Cursor K E :=
    if !r.c.nextCalled then
      match r.lo with
      | .unbounded => r.c
      | .incl s =>
        let c' := (r.c.seek s).2
        match current c'.stack with
        | some d => if klt d.1 s then c'.next.2 else c'
        | none => c'
      | .excl s =>
        let c' := (r.c.seek s).2
        match current c'.stack with
        | some d => if klt d.1 s || d.1 = s then c'.next.2 else c'
        | none => c'
    else r.c
  match c1.next with
  | (none, c2) => (none, { r with c := c2 })
  | (some d, c2) =>
    if Spec.belowHi r.hi d.1 then (some d, { r with c := c2 }) else (none, { r with c := c2 })

def RangeIt.drain [DecidableEq K] : Nat → RangeIt K E → List (K × E)
  | 0, _ => []
  | fuel + 1, r =>
    match r.next with
    | (none, _) => []
    | (some e, r') => e :: RangeIt.drain fuel r'

end

end Jamm
