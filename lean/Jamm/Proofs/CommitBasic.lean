/-
Layer C proofs, part 1 — helper lemmas for `CommitLemmas.lean`: contents/uniformity of `Forest.append`,
`Tree.mergeInto`, `Tree.atBranch`; joint induction and lower-bound weakening for `WFS`/`WF`; the mutual
soundness / spill statements (restated by `CommitLemmas.lean` under their official names).
-/
import Jamm.Model.CommitInv
import Jamm.Proofs.TreeWF
import Jamm.Proofs.FileCheckLemmas
set_option linter.unusedSectionVars false
open Std

namespace Jamm

section
variable {K E : Type}

theorem flattenF_append : ∀ (f g : Forest K E),
    Tree.flattenF (Forest.append f g) = Tree.flattenF f ++ Tree.flattenF g
  | .nil, g => by simp [Forest.append, Tree.flattenF]
  | .cons k t rest, g => by simp [Forest.append, Tree.flattenF, flattenF_append rest g]

theorem uniformF_append : ∀ (d : Nat) (f g : Forest K E), UniformF d f → UniformF d g →
    UniformF d (Forest.append f g)
  | d, .nil, g, _, hg => by simpa [Forest.append] using hg
  | d, .cons k t rest, g, hf, hg => by
    cases hf with
    | cons _ _ _ _ ht hr =>
      simp only [Forest.append]
      exact UniformF.cons d k t _ ht (uniformF_append d rest g hr hg)

theorem uniformF_cons_inv {d : Nat} {k : K} {t : Tree K E} {rest : Forest K E}
    (h : UniformF d (.cons k t rest)) : UniformT d t ∧ UniformF d rest := by
  cases h with
  | cons _ _ _ _ ht hr => exact ⟨ht, hr⟩

theorem uniformT_branch_inv {d p : Nat} {kids : Forest K E}
    (h : UniformT d (.branch p kids)) : ∃ d', d = d' + 1 ∧ UniformF d' kids := by
  cases h with
  | branch d' _ _ hk => exact ⟨d', rfl, hk⟩

theorem mergeInto_flatten {d : Nat} (p : Nat) {a b : Tree K E} (ha : UniformT d a) (hb : UniformT d b) :
    (Tree.mergeInto p a b).flatten = a.flatten ++ b.flatten := by
  cases ha with
  | leaf p1 es1 =>
    cases hb with
    | leaf p2 es2 => simp [Tree.mergeInto, Tree.flatten]
  | branch d' p1 k1 h1 =>
    cases hb with
    | branch _ p2 k2 h2 => simp [Tree.mergeInto, Tree.flatten, flattenF_append]

theorem mergeInto_uniform {d : Nat} (p : Nat) {a b : Tree K E} (ha : UniformT d a) (hb : UniformT d b) :
    UniformT d (Tree.mergeInto p a b) := by
  cases ha with
  | leaf p1 es1 =>
    cases hb with
    | leaf p2 es2 => simp only [Tree.mergeInto]; exact UniformT.leaf _ _
  | branch d' p1 k1 h1 =>
    cases hb with
    | branch _ p2 k2 h2 =>
      simp only [Tree.mergeInto]
      exact UniformT.branch _ _ _ (uniformF_append _ _ _ h1 h2)

theorem forest_length_eq_zero {f : Forest K E} (h : f.length = 0) : f = .nil := by
  cases f with
  | nil => rfl
  | cons k t rest => simp [Forest.length] at h

theorem isEmptyNode_flatten {x : Tree K E} (h : x.isEmptyNode = true) : x.flatten = [] := by
  cases x with
  | leaf p es =>
    simp only [Tree.isEmptyNode, List.isEmpty_iff] at h
    simp [Tree.flatten, h]
  | branch p kids =>
    simp only [Tree.isEmptyNode, beq_iff_eq] at h
    rw [forest_length_eq_zero h]
    simp [Tree.flatten, Tree.flattenF]

/-! ### `atBranch` preserves whatever the edited entry list preserves (under uniform depth) -/

mutual
theorem atBranch_flatten (page : Nat) (f : Forest K E → Forest K E)
    (hf : ∀ d g, UniformF d g → Tree.flattenF (f g) = Tree.flattenF g)
    (t : Tree K E) (d : Nat) (hu : UniformT d t) : (Tree.atBranch page f t).flatten = t.flatten := by
  match t with
  | .leaf p es => simp [Tree.atBranch]
  | .branch p kids =>
    obtain ⟨d', rfl, hk⟩ := uniformT_branch_inv hu
    simp only [Tree.atBranch]
    split
    · rfl
    · split
      · simp only [Tree.flatten]; exact hf d' kids hk
      · simp only [Tree.flatten]; exact atBranchF_flatten page f hf kids d' hk
theorem atBranchF_flatten (page : Nat) (f : Forest K E → Forest K E)
    (hf : ∀ d g, UniformF d g → Tree.flattenF (f g) = Tree.flattenF g)
    (g : Forest K E) (d : Nat) (hu : UniformF d g) :
    Tree.flattenF (Forest.atBranch page f g) = Tree.flattenF g := by
  match g with
  | .nil => simp [Forest.atBranch]
  | .cons k t rest =>
    obtain ⟨ht, hr⟩ := uniformF_cons_inv hu
    simp only [Forest.atBranch, Tree.flattenF]
    rw [atBranch_flatten page f hf t d ht, atBranchF_flatten page f hf rest d hr]
end

mutual
theorem atBranch_uniform (page : Nat) (f : Forest K E → Forest K E)
    (hf : ∀ d g, UniformF d g → UniformF d (f g))
    (t : Tree K E) (d : Nat) (hu : UniformT d t) : UniformT d (Tree.atBranch page f t) := by
  match t with
  | .leaf p es => simpa [Tree.atBranch] using hu
  | .branch p kids =>
    obtain ⟨d', rfl, hk⟩ := uniformT_branch_inv hu
    simp only [Tree.atBranch]
    split
    · exact UniformT.branch _ _ _ hk
    · split
      · exact UniformT.branch _ _ _ (hf d' kids hk)
      · exact UniformT.branch _ _ _ (atBranchF_uniform page f hf kids d' hk)
theorem atBranchF_uniform (page : Nat) (f : Forest K E → Forest K E)
    (hf : ∀ d g, UniformF d g → UniformF d (f g))
    (g : Forest K E) (d : Nat) (hu : UniformF d g) :
    UniformF d (Forest.atBranch page f g) := by
  match g with
  | .nil => simpa [Forest.atBranch] using hu
  | .cons k t rest =>
    obtain ⟨ht, hr⟩ := uniformF_cons_inv hu
    simp only [Forest.atBranch]
    exact UniformF.cons _ _ _ _ (atBranch_uniform page f hf t d ht) (atBranchF_uniform page f hf rest d hr)
end

end

section
variable {K E : Type} [Ord K] [TransOrd K] [LawfulEqOrd K] [DecidableEq K]

/-- `WFFS` stated on a whole forest -/
def WFSForest (lo hi : Option K) : Forest K E → Prop
  | .nil => False
  | .cons k t rest => WFFS lo hi k t rest

mutual
theorem wfsb_sound_aux (lo hi : Option K) (t : Tree K E) (h : wfsb lo hi t = true) : WFS lo hi t := by
  match t with
  | .leaf p es =>
    simp only [wfsb, Bool.and_eq_true, List.all_eq_true] at h
    refine WFS.leaf lo hi p es ((sortedB_iff es).mp h.1) ?_
    intro e he
    have := h.2 e he
    exact ⟨(inLoB_iff lo e.1).mp this.1, (inHiB_iff hi e.1).mp this.2⟩
  | .branch p .nil => exact WFS.emptyBranch lo hi p
  | .branch p (.cons k t' rest) =>
    simp only [wfsb, Bool.and_eq_true] at h
    obtain ⟨⟨h1, h2⟩, h3⟩ := h
    have hf := wffsb_sound (sepLo lo k) hi (.cons k t' rest) h3
    exact WFS.branch lo hi p k t' rest ((inLoB_iff lo k).mp h1) ((inHiB_iff hi k).mp h2) hf
theorem wffsb_sound (lo hi : Option K) (f : Forest K E)
    (h : wffsb lo hi f = true) : WFSForest lo hi f := by
  match f with
  | .nil => simp [wffsb] at h
  | .cons k t .nil =>
    simp only [wffsb] at h
    exact WFFS.last lo hi k t (wfsb_sound_aux lo hi t h)
  | .cons k t (.cons k' t' rest') =>
    simp only [wffsb, Bool.and_eq_true] at h
    obtain ⟨⟨⟨⟨h1, h2⟩, h3⟩, h4⟩, h5⟩ := h
    exact WFFS.cons lo hi k t k' t' rest' h1 ((inLoB_iff lo k').mp h2) ((inHiB_iff hi k').mp h3)
      (wfsb_sound_aux lo (some k') t h4) (wffsb_sound (some k') hi (.cons k' t' rest') h5)
end

/-- joint induction over `WFS` / `WFFS` derivations -/
theorem wfs_induct {P : Option K → Option K → Tree K E → Prop}
    {Q : Option K → Option K → K → Tree K E → Forest K E → Prop}
    (leaf : ∀ lo hi p es, Spec.Sorted es → (∀ e ∈ es, inLo lo e.1 ∧ inHi hi e.1) →
      P lo hi (.leaf p es))
    (branch : ∀ lo hi p k t rest, inLo lo k → inHi hi k → WFFS (sepLo lo k) hi k t rest →
      Q (sepLo lo k) hi k t rest → P lo hi (.branch p (.cons k t rest)))
    (emptyBranch : ∀ lo hi p, P lo hi (.branch p .nil))
    (last : ∀ lo hi k t, WFS lo hi t → P lo hi t → Q lo hi k t .nil)
    (cons : ∀ lo hi k t k' t' rest, klt k k' = true → inLo lo k' → inHi hi k' →
      WFS lo (some k') t → WFFS (some k') hi k' t' rest →
      P lo (some k') t → Q (some k') hi k' t' rest → Q lo hi k t (.cons k' t' rest)) :
    (∀ lo hi t, WFS lo hi t → P lo hi t) ∧ (∀ lo hi k t rest, WFFS lo hi k t rest → Q lo hi k t rest) :=
  ⟨fun _ _ _ h => WFS.rec (motive_1 := fun lo hi t _ => P lo hi t)
      (motive_2 := fun lo hi k t rest _ => Q lo hi k t rest) leaf branch emptyBranch last cons h,
   fun _ _ _ _ _ h => WFFS.rec (motive_1 := fun lo hi t _ => P lo hi t)
      (motive_2 := fun lo hi k t rest _ => Q lo hi k t rest) leaf branch emptyBranch last cons h⟩

/-- weakening the lower bound of `WF` / `WFF` -/
theorem wf_weaken_lo_aux :
    (∀ (lo hi : Option K) (t : Tree K E), WF lo hi t →
      ∀ lo' : Option K, (∀ x, inLo lo x → inLo lo' x) → WF lo' hi t) ∧
    (∀ (lo hi : Option K) (k : K) (t : Tree K E) (rest : Forest K E), WFF lo hi k t rest →
      ∀ lo' : Option K, (∀ x, inLo lo x → inLo lo' x) → WFF lo' hi k t rest) := by
  apply wf_induct
  · intro lo hi p es hs hb lo' hw
    exact WF.leaf _ _ _ _ hs (fun e he => ⟨hw _ (hb e he).1, (hb e he).2⟩)
  · intro lo hi p k t rest _ ih lo' hw
    exact WF.branch _ _ _ _ _ _ (ih lo' hw)
  · intro lo hi k t _ ih lo' hw
    exact WFF.last _ _ _ _ (ih lo' hw)
  · intro lo hi k t k' t' rest hk hlo hhi _ hr iht _ lo' hw
    exact WFF.cons _ _ _ _ _ _ _ hk (hw _ hlo) hhi (iht lo' hw) hr

theorem sepLo_weaken {lo : Option K} {k : K} (hk : inLo lo k) : ∀ x, inLo (sepLo lo k) x → inLo lo x := by
  intro x hx
  cases lo with
  | none => trivial
  | some l =>
    simp only [sepLo, inLo] at hx hk ⊢
    exact kle_trans hk hx

theorem wfs_wf_aux :
    (∀ (lo hi : Option K) (t : Tree K E), WFS lo hi t → nebT t = true → WF lo hi t) ∧
    (∀ (lo hi : Option K) (k : K) (t : Tree K E) (rest : Forest K E), WFFS lo hi k t rest →
      nebT t = true → nebF rest = true → WFF lo hi k t rest) := by
  apply wfs_induct
  · intro lo hi p es hs hb _
    exact WF.leaf _ _ _ _ hs hb
  · intro lo hi p k t rest hlo _ _ ih hne
    simp only [nebT, nebF, Bool.and_eq_true] at hne
    exact WF.branch _ _ _ _ _ _ (wf_weaken_lo_aux.2 _ _ _ _ _ (ih hne.2.1 hne.2.2) lo (sepLo_weaken hlo))
  · intro lo hi p hne
    simp [nebT, Forest.length] at hne
  · intro lo hi k t _ ih hne _
    exact WFF.last _ _ _ _ (ih hne)
  · intro lo hi k t k' t' rest hk hlo hhi _ _ iht ihr hne hner
    simp only [nebF, Bool.and_eq_true] at hner
    exact WFF.cons _ _ _ _ _ _ _ hk hlo hhi (iht hne) (ihr hner.1 hner.2)

end

/-! ### spill -/

theorem cutAt_flatten' {α : Type} (l : List α) (idx : List Nat) (off : Nat) :
    (cutAt l idx off).flatten = l := by
  induction idx generalizing l off with
  | nil => simp [cutAt]
  | cons i rest ih => simp [cutAt, ih]

theorem flattenF_ofList {K E : Type} (c : List (K × Tree K E)) :
    Tree.flattenF (Forest.ofList c) = (c.map (fun e => e.2.flatten)).flatten := by
  induction c with
  | nil => simp [Forest.ofList, Tree.flattenF]
  | cons a rest ih =>
    obtain ⟨k, t⟩ := a
    simp [Forest.ofList, Tree.flattenF, ih]

theorem flatten_map_flatten {α β : Type} (g : α → List β) (ls : List (List α)) :
    (ls.map (fun c => (c.map g).flatten)).flatten = (ls.flatten.map g).flatten := by
  induction ls with
  | nil => simp
  | cons a rest ih => simp [ih]

mutual
theorem spillT_flatten_aux {E : Type} (p : Params) (pagesize hdr leafHdr branchHdr : Nat) (esz : Bytes × E → Nat) (key : Bytes) (t : Tree Bytes E) :
    ((spillT p pagesize hdr leafHdr branchHdr esz key t).map (fun e => e.2.flatten)).flatten = t.flatten := by
  match t with
  | .leaf pid es =>
    simp only [spillT]
    split
    · simp [Tree.flatten]
    · simp only [List.map_map, Tree.flatten]
      have : ((fun e : Bytes × Tree Bytes E => e.2.flatten) ∘ fun c => (firstKeyOr key c, Tree.leaf 0 c)) = id := by
        funext c; simp [Tree.flatten]
      rw [this, List.map_id, cutAt_flatten']
  | .branch pid kids =>
    simp only [spillT]
    split
    · simp [Tree.flatten]
    · simp only [List.map_map, Tree.flatten]
      have : ((fun e : Bytes × Tree Bytes E => e.2.flatten) ∘
          fun c => (firstKeyOr key c, Tree.branch 0 (Forest.ofList c))) =
          fun c => (c.map (fun e => e.2.flatten)).flatten := by
        funext c; simp [Tree.flatten, flattenF_ofList]
      rw [this, flatten_map_flatten, cutAt_flatten']
      exact spillF_flatten p pagesize hdr leafHdr branchHdr esz kids
theorem spillF_flatten {E : Type} (p : Params) (pagesize hdr leafHdr branchHdr : Nat) (esz : Bytes × E → Nat) (f : Forest Bytes E) :
    ((spillF p pagesize hdr leafHdr branchHdr esz f).map (fun e => e.2.flatten)).flatten = Tree.flattenF f := by
  match f with
  | .nil => simp [spillF, Tree.flattenF]
  | .cons k t rest =>
    simp only [spillF, List.map_append, List.flatten_append, Tree.flattenF]
    rw [spillT_flatten_aux p pagesize hdr leafHdr branchHdr esz k t,
      spillF_flatten p pagesize hdr leafHdr branchHdr esz rest]
end

end Jamm
