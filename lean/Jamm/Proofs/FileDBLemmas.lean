/-
A file accepted by the checker, read as an API-layer database state, has only well-formed trees: every
theorem about the tree-based database (`Proofs/TreeDBLemmas.lean`) applies to what is read from a checked file.
-/
import Jamm.Model.FileDB
import Jamm.Proofs.CheckFileSound
import Jamm.Proofs.TreeDBLemmas
set_option linter.unusedSectionVars false
open Std

namespace Jamm

section
variable {K E E' : Type}

mutual
theorem mapE_flatten_aux (f : E → E') : ∀ t : Tree K E,
    (t.mapE f).flatten = t.flatten.map (fun e => (e.1, f e.2))
  | .leaf p es => by simp only [Tree.mapE, Tree.flatten]
  | .branch p kids => by
    simp only [Tree.mapE, Tree.flatten]
    exact mapE_flattenF_aux f kids
theorem mapE_flattenF_aux (f : E → E') : ∀ ks : Forest K E,
    Tree.flattenF (Forest.mapE f ks) = (Tree.flattenF ks).map (fun e => (e.1, f e.2))
  | .nil => by simp only [Forest.mapE, Tree.flattenF, List.map_nil]
  | .cons k t rest => by
    simp only [Forest.mapE, Tree.flattenF, List.map_append]
    rw [mapE_flatten_aux f t, mapE_flattenF_aux f rest]
end

end

section
variable {K E E' : Type} [Ord K] [TransOrd K] [LawfulEqOrd K]

/-- D1: mapping payloads changes neither the contents' keys nor well-formedness -/
theorem mapE_flatten (f : E → E') (t : Tree K E) :
    (t.mapE f).flatten = t.flatten.map (fun e => (e.1, f e.2)) :=
  mapE_flatten_aux f t

theorem sorted_mapE (f : E → E') : ∀ es : List (K × E), Spec.Sorted es →
    Spec.Sorted (es.map (fun e => (e.1, f e.2)))
  | [], _ => trivial
  | [_], _ => trivial
  | (a, x) :: (b, y) :: rest, h => by
    have ih := sorted_mapE f ((b, y) :: rest) h.2
    exact ⟨h.1, ih⟩

theorem mapE_wf_aux (f : E → E') :
    (∀ (lo hi : Option K) (t : Tree K E), WF lo hi t → WF lo hi (t.mapE f)) ∧
    (∀ (lo hi : Option K) (k : K) (t : Tree K E) (rest : Forest K E), WFF lo hi k t rest →
      WFF lo hi k (t.mapE f) (Forest.mapE f rest)) := by
  apply wf_induct
  · intro lo hi p es hs hb
    simp only [Tree.mapE]
    refine WF.leaf _ _ _ _ (sorted_mapE f es hs) ?_
    intro e he
    obtain ⟨e0, he0, rfl⟩ := List.mem_map.mp he
    exact hb e0 he0
  · intro lo hi p k t rest _ ih
    simp only [Tree.mapE, Forest.mapE]
    exact WF.branch _ _ _ _ _ _ ih
  · intro lo hi k t _ ih
    simp only [Forest.mapE]
    exact WFF.last _ _ _ _ ih
  · intro lo hi k t k' t' rest hk hlo hhi _ _ iht ihr
    simp only [Forest.mapE]
    exact WFF.cons _ _ _ _ _ _ _ hk hlo hhi iht ihr

theorem mapE_wf (f : E → E') (lo hi : Option K) (t : Tree K E) (h : WF lo hi t) : WF lo hi (t.mapE f) :=
  (mapE_wf_aux f).1 lo hi t h

end

/-- the unfolding equation of `viewToTDB` -/
theorem viewToTDB_eq (path : Spec.Path Bytes) (v : BucketView) :
    viewToTDB path v = (path, ⟨v.nextInt, v.tree.mapE itemOf⟩) ::
      v.subs.flatMap (fun s => viewToTDB (path ++ [s.1]) s.2) := by
  rw [viewToTDB]

/-- every view below a good view gives only well-formed trees -/
theorem goodView_allwf (pg : PageStore) :
    (∀ fuel root v, GoodView pg fuel root v → ∀ path, TDB.AllWF (viewToTDB path v)) ∧
    (∀ fuel es vs, GoodSubs pg fuel es vs →
      ∀ path, ∀ s ∈ vs, TDB.AllWF (viewToTDB (path ++ [s.1]) s.2)) := by
  have leaf : ∀ (fuel root : Nat) (v : BucketView), unfoldT pg fuel root = some v.tree →
      WF (K := Bytes) none none v.tree → GoodSubs pg (fuel - 1) (subBuckets v.tree.flatten) v.subs →
      (∀ path, ∀ s ∈ v.subs, TDB.AllWF (viewToTDB (path ++ [s.1]) s.2)) →
      ∀ path, TDB.AllWF (viewToTDB path v) := by
    intro fuel root v _ hwf _ ih path e he
    rw [viewToTDB_eq] at he
    rcases List.mem_cons.mp he with he | he
    · subst he
      exact mapE_wf itemOf none none v.tree hwf
    · obtain ⟨s, hs, hes⟩ := List.mem_flatMap.mp he
      exact ih path s hs e hes
  have nil : ∀ fuel : Nat, ∀ path : Spec.Path Bytes, ∀ s ∈ ([] : List (Bytes × BucketView)),
      TDB.AllWF (viewToTDB (path ++ [s.1]) s.2) := by
    intro _ _ s hs
    exact absurd hs (List.not_mem_nil)
  have cons : ∀ (fuel : Nat) (k : Bytes) (r n : Nat) (v : BucketView) (es : List (Bytes × Nat × Nat))
      (vs : List (Bytes × BucketView)), GoodView pg fuel r v → v.nextInt = n → GoodSubs pg fuel es vs →
      (∀ path, TDB.AllWF (viewToTDB path v)) →
      (∀ path, ∀ s ∈ vs, TDB.AllWF (viewToTDB (path ++ [s.1]) s.2)) →
      ∀ path, ∀ s ∈ (k, v) :: vs, TDB.AllWF (viewToTDB (path ++ [s.1]) s.2) := by
    intro fuel k r n v es vs _ _ _ ihv ihs path s hs
    rcases List.mem_cons.mp hs with hs | hs
    · subst hs
      exact ihv _
    · exact ihs path s hs
  exact ⟨fun _ _ _ h => GoodView.rec (motive_1 := fun _ _ v _ => ∀ path, TDB.AllWF (viewToTDB path v))
      (motive_2 := fun _ _ vs _ => ∀ path, ∀ s ∈ vs, TDB.AllWF (viewToTDB (path ++ [s.1]) s.2))
      leaf nil cons h,
    fun _ _ _ h => GoodSubs.rec (motive_1 := fun _ _ v _ => ∀ path, TDB.AllWF (viewToTDB path v))
      (motive_2 := fun _ _ vs _ => ∀ path, ∀ s ∈ vs, TDB.AllWF (viewToTDB (path ++ [s.1]) s.2))
      leaf nil cons h⟩

/-- D2: the state read from a checked file has only well-formed trees -/
theorem checked_file_allwf (mt : MetaRec) (pg : PageStore) (fileSize pagesize : Nat) (sum : FileSummary)
    (h : checkFile mt pg fileSize pagesize = .ok sum) :
    TDB.AllWF (viewToTDB [] sum.root) :=
  (goodView_allwf pg).1 _ _ _ (checkFile_sound mt pg fileSize pagesize sum h).1 []

/-- D3: its root bucket is the first entry, with the header's counter -/
theorem checked_file_root (mt : MetaRec) (pg : PageStore) (fileSize pagesize : Nat) (sum : FileSummary)
    (h : checkFile mt pg fileSize pagesize = .ok sum) :
    TDB.getBucket (viewToTDB [] sum.root) [] =
      some { nextInt := mt.nextInt, tree := sum.root.tree.mapE itemOf } := by
  have hn := (checkFile_sound mt pg fileSize pagesize sum h).2.1
  rw [viewToTDB_eq, ← hn]
  simp [TDB.getBucket]

end Jamm
