/-
Cursor proofs, part A: the stack invariant (`remaining`, `below`, `todo`) and what `descend`,
`advance`, `skipEmpty`, `Cursor.next`, `Cursor.drain` do to it.  No key order is involved here.
-/
import Jamm.Model.Cursor
import Jamm.Proofs.SpecLemmas
set_option linter.unusedSectionVars false
set_option linter.unusedVariables false
open Std

namespace Jamm
variable {K E : Type}

/-! ### forests as lists of children -/

namespace Forest

@[elab_as_elim]
theorem ind {motive : Forest K E → Prop} (nil : motive .nil)
    (cons : ∀ k t rest, motive rest → motive (.cons k t rest)) : ∀ f, motive f
  | .nil => nil
  | .cons k t rest => cons k t rest (ind nil cons rest)

def drop : Forest K E → Nat → Forest K E
  | .nil, _ => .nil
  | .cons k t rest, 0 => .cons k t rest
  | .cons _ _ rest, i + 1 => drop rest i

def take : Forest K E → Nat → Forest K E
  | .nil, _ => .nil
  | .cons _ _ _, 0 => .nil
  | .cons k t rest, i + 1 => .cons k t (take rest i)

theorem drop_zero (f : Forest K E) : f.drop 0 = f := by
  cases f <;> rfl

theorem drop_of_length_le (f : Forest K E) (i : Nat) (h : f.length ≤ i) : f.drop i = .nil := by
  induction f using Forest.ind generalizing i with
  | nil => rfl
  | cons k t rest ih =>
    cases i with
    | zero => simp [length] at h
    | succ i => simp only [length, Nat.add_le_add_iff_right] at h; simpa [drop] using ih i h

theorem get?_of_lt (f : Forest K E) (i : Nat) (h : i < f.length) : ∃ k t, f.get? i = some (k, t) := by
  induction f using Forest.ind generalizing i with
  | nil => simp [length] at h
  | cons k t rest ih =>
    cases i with
    | zero => exact ⟨k, t, rfl⟩
    | succ i => simp only [length, Nat.add_lt_add_iff_right] at h; simpa [get?] using ih i h

theorem lt_of_get? (f : Forest K E) (i : Nat) (k : K) (t : Tree K E) (h : f.get? i = some (k, t)) :
    i < f.length := by
  induction f using Forest.ind generalizing i with
  | nil => simp [get?] at h
  | cons k' t' rest ih =>
    cases i with
    | zero => simp [length]
    | succ i => simp only [get?] at h; simp only [length, Nat.add_lt_add_iff_right]; exact ih i h

theorem drop_of_get? (f : Forest K E) (i : Nat) (k : K) (t : Tree K E) (h : f.get? i = some (k, t)) :
    f.drop i = .cons k t (f.drop (i + 1)) := by
  induction f using Forest.ind generalizing i with
  | nil => simp [get?] at h
  | cons k' t' rest ih =>
    cases i with
    | zero =>
      simp only [get?, Option.some.injEq, Prod.mk.injEq] at h
      obtain ⟨rfl, rfl⟩ := h
      simp [drop, drop_zero]
    | succ i => simp only [get?] at h; simpa [drop] using ih i h

theorem nodes_get?_le (f : Forest K E) (i : Nat) (k : K) (t : Tree K E) (h : f.get? i = some (k, t)) :
    t.nodes ≤ Tree.nodesF f := by
  induction f using Forest.ind generalizing i with
  | nil => simp [get?] at h
  | cons k' t' rest ih =>
    cases i with
    | zero =>
      simp only [get?, Option.some.injEq, Prod.mk.injEq] at h
      obtain ⟨rfl, rfl⟩ := h
      simp [Tree.nodesF]
    | succ i =>
      simp only [get?] at h
      have := ih i h
      simp only [Tree.nodesF]; omega

theorem flattenF_take_drop (f : Forest K E) (i : Nat) :
    Tree.flattenF f = Tree.flattenF (f.take i) ++ Tree.flattenF (f.drop i) := by
  induction f using Forest.ind generalizing i with
  | nil => simp [take, drop, Tree.flattenF]
  | cons k t rest ih =>
    cases i with
    | zero => simp [take, drop, Tree.flattenF]
    | succ i => simp only [take, drop, Tree.flattenF, List.append_assoc]; rw [← ih i]

end Forest

theorem Tree.nodes_pos (t : Tree K E) : 0 < t.nodes := by
  cases t <;> simp [Tree.nodes]

/-! ### shape: every branch has a child (as a recursive predicate) -/

mutual
def Shp : Tree K E → Prop
  | .leaf _ _ => True
  | .branch _ kids => kids.length ≠ 0 ∧ ShpF kids
def ShpF : Forest K E → Prop
  | .nil => True
  | .cons _ t rest => Shp t ∧ ShpF rest
end

theorem ShpF.get? (f : Forest K E) (hf : ShpF f) (i : Nat) (k : K) (t : Tree K E)
    (h : f.get? i = some (k, t)) : Shp t := by
  induction f using Forest.ind generalizing i with
  | nil => simp [Forest.get?] at h
  | cons k' t' rest ih =>
    simp only [ShpF] at hf
    cases i with
    | zero =>
      simp only [Forest.get?, Option.some.injEq, Prod.mk.injEq] at h
      obtain ⟨rfl, rfl⟩ := h
      exact hf.1
    | succ i => simp only [Forest.get?] at h; exact ih hf.2 i h

/-! ### list helper -/

theorem getElem?_toList_append_drop {α : Type} (l : List α) (i : Nat) :
    l[i]?.toList ++ l.drop (i + 1) = l.drop i := by
  induction l generalizing i with
  | nil => simp
  | cons a l ih =>
    cases i with
    | zero => simp
    | succ i => simpa using ih i

/-! ### the invariant -/

/-- entries of the frame's node strictly after the frame's position -/
def Frame.after (f : Frame K E) : List (K × E) :=
  match f.node with
  | .leaf _ es => es.drop (f.idx + 1)
  | .branch _ kids => Tree.flattenF (kids.drop (f.idx + 1))

/-- nodes strictly after the frame's position (fuel measure) -/
def Frame.todo (f : Frame K E) : Nat :=
  match f.node with
  | .leaf _ _ => 0
  | .branch _ kids => Tree.nodesF (kids.drop (f.idx + 1))

def below : Stack K E → List (K × E)
  | [] => []
  | f :: rest => f.after ++ below rest

def todo : Stack K E → Nat
  | [] => 0
  | f :: rest => f.todo + todo rest

/-- what an iteration that starts *at* the current position yields -/
def remaining (s : Stack K E) : List (K × E) := (current s).toList ++ below s

def BranchOk (f : Frame K E) : Prop := Shp f.node ∧ f.node.isLeaf = false
def RestOk (s : Stack K E) : Prop := ∀ f ∈ s, BranchOk f

def StackOk : Stack K E → Prop
  | [] => False
  | f :: rest => Shp f.node ∧ RestOk rest

def LeafOk (f : Frame K E) : Prop :=
  match f.node with
  | .leaf _ es => es = [] ∨ f.idx < es.length
  | .branch _ _ => False

def TopOk : Stack K E → Prop
  | [] => False
  | f :: rest => LeafOk f ∧ RestOk rest

/-- the stack `advance` leaves behind when it reports the end -/
def Final (s : Stack K E) : Prop := ∃ f, s = [f] ∧ f.node.len ≤ f.idx + 1 ∧ Shp f.node
def FinalB (s : Stack K E) : Prop :=
  ∃ f, s = [f] ∧ f.node.len ≤ f.idx + 1 ∧ Shp f.node ∧ f.node.isLeaf = false

theorem Frame.after_of_len_le (f : Frame K E) (h : f.node.len ≤ f.idx + 1) : f.after = [] := by
  obtain ⟨node, idx⟩ := f
  cases node with
  | leaf p es => simp only [Tree.len] at h; simp [Frame.after, h]
  | branch p kids =>
    simp only [Tree.len] at h
    simp [Frame.after, Forest.drop_of_length_le kids _ h, Tree.flattenF]

theorem Frame.todo_of_len_le (f : Frame K E) (h : f.node.len ≤ f.idx + 1) : f.todo = 0 := by
  obtain ⟨node, idx⟩ := f
  cases node with
  | leaf p es => rfl
  | branch p kids =>
    simp only [Tree.len] at h
    simp [Frame.todo, Forest.drop_of_length_le kids _ h, Tree.nodesF]

theorem TopOk.stackOk {s : Stack K E} (h : TopOk s) : StackOk s := by
  cases s with
  | nil => exact h
  | cons f rest =>
    obtain ⟨node, idx⟩ := f
    refine ⟨?_, h.2⟩
    cases node with
    | leaf p es => simp [Shp]
    | branch p kids => exact absurd h.1 (by simp [LeafOk])

theorem Final.stackOk {s : Stack K E} (h : Final s) : StackOk s := by
  obtain ⟨f, rfl, _, hs⟩ := h
  exact ⟨hs, by simp [RestOk]⟩

theorem FinalB.final {s : Stack K E} (h : FinalB s) : Final s := by
  obtain ⟨f, rfl, h1, hs, _⟩ := h
  exact ⟨f, rfl, h1, hs⟩

theorem Final.below {s : Stack K E} (h : Final s) : below s = [] := by
  obtain ⟨f, rfl, h1, _⟩ := h
  simp [Jamm.below, Frame.after_of_len_le f h1]

theorem Final.todo {s : Stack K E} (h : Final s) : todo s = 0 := by
  obtain ⟨f, rfl, h1, _⟩ := h
  simp [Jamm.todo, Frame.todo_of_len_le f h1]

theorem Final.advance {s : Stack K E} (h : Final s) : advance s = (false, s) := by
  obtain ⟨f, rfl, h1, _⟩ := h
  simp [Jamm.advance, h1]

theorem FinalB.remaining {s : Stack K E} (h : FinalB s) : remaining s = [] := by
  have hb := h.final.below
  obtain ⟨f, rfl, h1, _, hl⟩ := h
  obtain ⟨node, idx⟩ := f
  cases node with
  | leaf p es => simp [Tree.isLeaf] at hl
  | branch p kids => simp [Jamm.remaining, hb, current]

theorem RestOk.stackOk {f : Frame K E} {s : Stack K E} (h : RestOk (f :: s)) : StackOk (f :: s) :=
  ⟨(h f List.mem_cons_self).1, fun g hg => h g (List.mem_cons_of_mem _ hg)⟩

theorem RestOk.tail {f : Frame K E} {s : Stack K E} (h : RestOk (f :: s)) : RestOk s :=
  fun g hg => h g (List.mem_cons_of_mem _ hg)

theorem RestOk.cons {f : Frame K E} {s : Stack K E} (hf : BranchOk f) (h : RestOk s) : RestOk (f :: s) := by
  intro g hg
  rcases List.mem_cons.mp hg with rfl | hg
  · exact hf
  · exact h g hg

/-! ### descend -/

theorem descendF_eq (kids : Forest K E) (i : Nat) (acc : Stack K E) :
    descendF kids i acc = match kids.get? i with
      | some (_, t) => descend t 0 acc
      | none => acc := by
  induction kids using Forest.ind generalizing i with
  | nil => simp [descendF, Forest.get?]
  | cons k t rest ih =>
    cases i with
    | zero => simp [descendF, Forest.get?]
    | succ i => simpa [descendF, Forest.get?] using ih i

theorem descend_spec_aux (n : Nat) : ∀ (t : Tree K E), t.nodes ≤ n → Shp t → ∀ (acc : Stack K E),
    RestOk acc →
    TopOk (descend t 0 acc) ∧ remaining (descend t 0 acc) = t.flatten ++ below acc ∧
      todo (descend t 0 acc) + 1 ≤ t.nodes + todo acc := by
  induction n with
  | zero => intro t ht; have := t.nodes_pos; omega
  | succ n ih =>
    intro t ht hs acc hacc
    cases t with
    | leaf p es =>
      refine ⟨?_, ?_, ?_⟩
      · simp only [descend, TopOk, LeafOk]
        refine ⟨?_, hacc⟩
        cases es <;> simp
      · simp only [descend, remaining, current, below, Frame.after, Tree.flatten]
        rw [← List.append_assoc, getElem?_toList_append_drop]; simp
      · simp [descend, todo, Frame.todo, Tree.nodes]; omega
    | branch p kids =>
      cases kids with
      | nil => simp [Shp, Forest.length] at hs
      | cons k t rest =>
        simp only [Shp, ShpF] at hs
        simp only [Tree.nodes, Tree.nodesF] at ht
        have hacc' : RestOk (⟨.branch p (.cons k t rest), 0⟩ :: acc) :=
          RestOk.cons ⟨by simp [Shp, ShpF, hs.2, Forest.length], rfl⟩ hacc
        obtain ⟨h1, h2, h3⟩ := ih t (by omega) hs.2.1 _ hacc'
        have e : descend (.branch p (.cons k t rest)) 0 acc
            = descend t 0 (⟨.branch p (.cons k t rest), 0⟩ :: acc) := by
          simp [descend, descendF]
        rw [e]
        refine ⟨h1, ?_, ?_⟩
        · rw [h2]; simp [below, Frame.after, Forest.drop, Forest.drop_zero, Tree.flatten, Tree.flattenF]
        · simp only [todo, Frame.todo, Forest.drop, Forest.drop_zero] at h3
          simp only [Tree.nodes, Tree.nodesF]; omega

theorem descend_spec (t : Tree K E) (hs : Shp t) (acc : Stack K E) (hacc : RestOk acc) :
    TopOk (descend t 0 acc) ∧ remaining (descend t 0 acc) = t.flatten ++ below acc ∧
      todo (descend t 0 acc) + 1 ≤ t.nodes + todo acc :=
  descend_spec_aux t.nodes t (Nat.le_refl _) hs acc hacc

theorem descend_succ (t : Tree K E) (hs : Shp t) (i : Nat) (hi : i + 1 < t.len) (acc : Stack K E)
    (hacc : RestOk acc) :
    TopOk (descend t (i + 1) acc) ∧
      remaining (descend t (i + 1) acc) = (Frame.mk t i).after ++ below acc ∧
      todo (descend t (i + 1) acc) ≤ (Frame.mk t i).todo + todo acc ∧
      (t.isLeaf = false → todo (descend t (i + 1) acc) + 1 ≤ (Frame.mk t i).todo + todo acc) := by
  cases t with
  | leaf p es =>
    simp only [Tree.len] at hi
    refine ⟨?_, ?_, ?_, ?_⟩
    · simp only [descend, TopOk, LeafOk]
      exact ⟨Or.inr hi, hacc⟩
    · simp only [descend, remaining, current, below, Frame.after]
      rw [← List.append_assoc, getElem?_toList_append_drop]
    · simp [descend, todo, Frame.todo]
    · simp [Tree.isLeaf]
  | branch p kids =>
    simp only [Tree.len] at hi
    obtain ⟨k', t', hget⟩ := kids.get?_of_lt (i + 1) hi
    have hs' : Shp t' := ShpF.get? kids (by simp only [Shp] at hs; exact hs.2) _ _ _ hget
    have hacc' : RestOk (⟨.branch p kids, i + 1⟩ :: acc) := RestOk.cons ⟨hs, rfl⟩ hacc
    obtain ⟨h1, h2, h3⟩ := descend_spec t' hs' _ hacc'
    have e : descend (.branch p kids) (i + 1) acc = descend t' 0 (⟨.branch p kids, i + 1⟩ :: acc) := by
      simp only [descend]; rw [descendF_eq, hget]
    rw [e]
    have hd := kids.drop_of_get? _ _ _ hget
    have key : todo (descend t' 0 (⟨.branch p kids, i + 1⟩ :: acc)) + 1
        ≤ (Frame.mk (.branch p kids) i).todo + todo acc := by
      simp only [todo, Frame.todo] at h3 ⊢
      rw [hd]; simp only [Tree.nodesF]; omega
    refine ⟨h1, ?_, by omega, fun _ => key⟩
    rw [h2]
    simp only [below, Frame.after]
    rw [hd]; simp [Tree.flattenF]

/-! ### advance -/

theorem advance_spec (s : Stack K E) (h : StackOk s) :
    ((advance s).1 = true → TopOk (advance s).2 ∧ remaining (advance s).2 = below s ∧
        todo (advance s).2 ≤ todo s ∧ (RestOk s → todo (advance s).2 + 1 ≤ todo s)) ∧
    ((advance s).1 = false → below s = [] ∧ Final (advance s).2 ∧ todo (advance s).2 ≤ todo s ∧
        (RestOk s → FinalB (advance s).2)) := by
  induction s with
  | nil => exact absurd h (by simp [StackOk])
  | cons f rest ih =>
    by_cases hlen : f.node.len ≤ f.idx + 1
    · cases rest with
      | nil =>
        have e : advance [f] = (false, [f]) := by simp [advance, hlen]
        rw [e]
        refine ⟨by simp, fun _ => ⟨?_, ⟨f, rfl, hlen, h.1⟩, Nat.le_refl _, ?_⟩⟩
        · simp [below, Frame.after_of_len_le f hlen]
        · intro hr
          exact ⟨f, rfl, hlen, h.1, (hr f List.mem_cons_self).2⟩
      | cons g r =>
        have e : advance (f :: g :: r) = advance (g :: r) := by
          rw [advance]; simp [hlen]
        rw [e]
        have ih' := ih (RestOk.stackOk h.2)
        have hb : below (f :: g :: r) = below (g :: r) := by
          simp [below, Frame.after_of_len_le f hlen]
        have ht : todo (f :: g :: r) = todo (g :: r) := by
          simp [todo, Frame.todo_of_len_le f hlen]
        rw [hb, ht]
        refine ⟨fun hx => ?_, fun hx => ?_⟩
        · obtain ⟨a, b, c, d⟩ := ih'.1 hx
          exact ⟨a, b, c, fun _ => d h.2⟩
        · obtain ⟨a, b, c, d⟩ := ih'.2 hx
          exact ⟨a, b, c, fun _ => d h.2⟩
    · have e : advance (f :: rest) = (true, descend f.node (f.idx + 1) rest) := by
        simp [advance, hlen]
      rw [e]
      obtain ⟨a, b, c, d⟩ := descend_succ f.node h.1 f.idx (by omega) rest h.2
      refine ⟨fun _ => ⟨a, ?_, ?_, ?_⟩, by simp⟩
      · rw [b]; rfl
      · exact c
      · intro hr
        exact d (hr f List.mem_cons_self).2

/-! ### skipEmpty -/

theorem skipEmpty_spec (fuel : Nat) : ∀ (s : Stack K E), TopOk s → todo s < fuel →
    ((skipEmpty fuel s).1 = true →
        TopOk (skipEmpty fuel s).2 ∧ remaining (skipEmpty fuel s).2 = remaining s ∧
        todo (skipEmpty fuel s).2 ≤ todo s ∧
        (current (skipEmpty fuel s).2 = none → below (skipEmpty fuel s).2 = [])) ∧
    ((skipEmpty fuel s).1 = false → remaining s = [] ∧ FinalB (skipEmpty fuel s).2) := by
  induction fuel with
  | zero => intro s _ h; omega
  | succ fuel ih =>
    intro s hs hf
    match s, hs, hf with
    | [], hs, _ => exact absurd hs (by simp [TopOk])
    | [f], hs, _ =>
      have e : skipEmpty (fuel + 1) [f] = (true, [f]) := by simp [skipEmpty]
      rw [e]
      refine ⟨fun _ => ⟨hs, rfl, Nat.le_refl _, ?_⟩, by simp⟩
      obtain ⟨node, idx⟩ := f
      cases node with
      | branch p kids => exact absurd hs.1 (by simp [LeafOk])
      | leaf p es =>
        intro hc
        simp only [current] at hc
        have h1 := hs.1
        simp only [LeafOk] at h1
        rcases h1 with h1 | h1
        · subst h1; simp [below, Frame.after]
        · simp [List.getElem?_eq_getElem h1] at hc
    | f :: g :: r, hs, hf =>
      have hA := advance_spec (g :: r) (RestOk.stackOk hs.2)
      obtain ⟨node, idx⟩ := f
      cases node with
      | branch p kids => exact absurd hs.1 (by simp [LeafOk])
      | leaf p es =>
        cases es with
        | nil =>
          have eadv : advance (⟨.leaf p [], idx⟩ :: g :: r) = advance (g :: r) := by
            rw [advance]; simp [Tree.len]
          have e : skipEmpty (fuel + 1) (⟨.leaf p [], idx⟩ :: g :: r)
              = if (advance (g :: r)).1 then skipEmpty fuel (advance (g :: r)).2
                else (false, (advance (g :: r)).2) := by
            rw [skipEmpty]; simp [Tree.isLeaf, Tree.len, eadv]
          have hrem : remaining (⟨.leaf p [], idx⟩ :: g :: r) = below (g :: r) := by
            simp [remaining, current, below, Frame.after]
          have htodo : todo (⟨.leaf p [], idx⟩ :: g :: r) = todo (g :: r) := by
            simp [todo, Frame.todo]
          rw [e, hrem, htodo]
          rw [htodo] at hf
          cases hx : (advance (g :: r)).1 with
          | true =>
            obtain ⟨a, b, c, d⟩ := hA.1 hx
            have d' := d hs.2
            have ih' := ih _ a (by omega)
            simp only [if_true]
            refine ⟨fun hy => ?_, fun hy => ?_⟩
            · obtain ⟨a', b', c', d''⟩ := ih'.1 hy
              exact ⟨a', by rw [b', b], by omega, d''⟩
            · obtain ⟨a', b'⟩ := ih'.2 hy
              exact ⟨by rw [← b]; exact a', b'⟩
          | false =>
            obtain ⟨a, b, c, d⟩ := hA.2 hx
            simp only [Bool.false_eq_true, if_false]
            exact ⟨by simp, fun _ => ⟨a, d hs.2⟩⟩
        | cons e0 es =>
          have e : skipEmpty (fuel + 1) (⟨.leaf p (e0 :: es), idx⟩ :: g :: r)
              = (true, ⟨.leaf p (e0 :: es), idx⟩ :: g :: r) := by
            rw [skipEmpty]; simp [Tree.isLeaf, Tree.len]
          rw [e]
          refine ⟨fun _ => ⟨hs, rfl, Nat.le_refl _, ?_⟩, by simp⟩
          intro hc
          simp only [current] at hc
          have h1 := hs.1
          simp only [LeafOk] at h1
          rcases h1 with h1 | h1
          · simp at h1
          · simp [List.getElem?_eq_getElem h1] at hc

/-! ### Cursor.next -/

/-- the second half of `Cursor.next`, once the start stack is chosen -/
def finish (c : Cursor K E) (s : Stack K E) : Option (K × E) × Cursor K E :=
  let r := skipEmpty (c.root.nodes + 1) s
  if r.1 then (current r.2, { c with stack := r.2, nextCalled := true })
  else (none, { c with stack := r.2, nextCalled := true })

theorem next_eq_fresh (c : Cursor K E) (h : c.stack = []) : c.next = finish c (descend c.root 0 []) := by
  unfold Cursor.next finish; simp [h]

theorem next_eq_first (c : Cursor K E) (h : c.stack ≠ []) (hn : c.nextCalled = false) :
    c.next = finish c c.stack := by
  unfold Cursor.next finish; simp [h, hn]

theorem next_eq_adv (c : Cursor K E) (h : c.stack ≠ []) (hn : c.nextCalled = true)
    (ha : (advance c.stack).1 = true) : c.next = finish c (advance c.stack).2 := by
  unfold Cursor.next finish; simp [h, hn, ha]

theorem next_eq_end (c : Cursor K E) (h : c.stack ≠ []) (hn : c.nextCalled = true)
    (ha : (advance c.stack).1 = false) : c.next = (none, { c with stack := (advance c.stack).2 }) := by
  unfold Cursor.next; simp [h, hn, ha]

/-- cursor invariant relative to the tree `t` -/
def CInv (t : Tree K E) (c : Cursor K E) : Prop :=
  c.root = t ∧ todo c.stack ≤ t.nodes ∧
    (if c.nextCalled = true then StackOk c.stack else (TopOk c.stack ∨ FinalB c.stack))

/-- what the cursor has yet to yield -/
def pending (c : Cursor K E) : List (K × E) :=
  if c.nextCalled = true then below c.stack else remaining c.stack

theorem finish_true (c : Cursor K E) (s : Stack K E) (h : (skipEmpty (c.root.nodes + 1) s).1 = true) :
    finish c s = (current (skipEmpty (c.root.nodes + 1) s).2,
      { c with stack := (skipEmpty (c.root.nodes + 1) s).2, nextCalled := true }) := by
  unfold finish; simp [h]

theorem finish_false (c : Cursor K E) (s : Stack K E) (h : (skipEmpty (c.root.nodes + 1) s).1 = false) :
    finish c s = (none,
      { c with stack := (skipEmpty (c.root.nodes + 1) s).2, nextCalled := true }) := by
  unfold finish; simp [h]

theorem finish_spec (t : Tree K E) (c : Cursor K E) (s : Stack K E) (hroot : c.root = t)
    (hs : TopOk s ∨ FinalB s) (ht : todo s ≤ t.nodes) :
    (finish c s).1 = (remaining s).head? ∧ CInv t (finish c s).2 ∧
      (finish c s).2.nextCalled = true ∧ pending (finish c s).2 = (remaining s).tail := by
  subst hroot
  rcases hs with hs | hs
  · have hsp := skipEmpty_spec (c.root.nodes + 1) s hs (by omega)
    cases hx : (skipEmpty (c.root.nodes + 1) s).1 with
    | true =>
      obtain ⟨a, b, c', d⟩ := hsp.1 hx
      rw [finish_true c s hx, ← b]
      refine ⟨?_, ⟨rfl, by simp only; omega, by simp only [if_true]; exact a.stackOk⟩, rfl, ?_⟩
      · simp only [remaining]
        cases hc : current (skipEmpty (c.root.nodes + 1) s).2 with
        | none => simp [d hc]
        | some e => simp
      · simp only [pending, remaining, if_true]
        cases hc : current (skipEmpty (c.root.nodes + 1) s).2 with
        | none => simp [d hc]
        | some e => simp
    | false =>
      obtain ⟨a, b⟩ := hsp.2 hx
      rw [finish_false c s hx, a]
      refine ⟨rfl, ⟨rfl, by simp only; rw [b.final.todo]; omega,
        by simp only [if_true]; exact b.final.stackOk⟩, rfl, ?_⟩
      simp only [pending, if_true]
      simp [b.final.below]
  · have hrem := hs.remaining
    have hfin := hs.final
    obtain ⟨f, rfl, h1, hsh, hl⟩ := hs
    have e : skipEmpty (c.root.nodes + 1) [f] = (true, [f]) := by simp [skipEmpty]
    have hx : (skipEmpty (c.root.nodes + 1) [f]).1 = true := by rw [e]
    rw [finish_true c _ hx, e, hrem]
    obtain ⟨node, idx⟩ := f
    cases node with
    | leaf p es => simp [Tree.isLeaf] at hl
    | branch p kids =>
      refine ⟨by simp [current], ⟨rfl, ht, by simp only [if_true]; exact hfin.stackOk⟩, rfl, ?_⟩
      simp only [pending, if_true]
      simp [hfin.below]

theorem CInv.stack_ne {t : Tree K E} {c : Cursor K E} (h : CInv t c) : c.stack ≠ [] := by
  obtain ⟨_, _, h⟩ := h
  intro e
  rw [e] at h
  split at h
  · exact h
  · rcases h with h | h
    · exact h
    · obtain ⟨f, hf, _⟩ := h; simp at hf

theorem next_spec (t : Tree K E) (c : Cursor K E) (h : CInv t c) :
    c.next.1 = (pending c).head? ∧ CInv t c.next.2 ∧ c.next.2.nextCalled = true ∧
      pending c.next.2 = (pending c).tail := by
  have hne := h.stack_ne
  obtain ⟨hroot, htodo, hst⟩ := h
  cases hn : c.nextCalled with
  | false =>
    rw [next_eq_first c hne hn]
    simp only [hn, Bool.false_eq_true, if_false] at hst
    have := finish_spec t c c.stack hroot hst htodo
    simpa only [pending, hn, Bool.false_eq_true, if_false] using this
  | true =>
    simp only [hn, if_true] at hst
    have hA := advance_spec c.stack hst
    have hp : pending c = below c.stack := by simp [pending, hn]
    rw [hp]
    cases ha : (advance c.stack).1 with
    | true =>
      obtain ⟨a, b, c', d⟩ := hA.1 ha
      rw [next_eq_adv c hne hn ha, ← b]
      exact finish_spec t c _ hroot (Or.inl a) (by omega)
    | false =>
      obtain ⟨a, b, c', d⟩ := hA.2 ha
      rw [next_eq_end c hne hn ha, a]
      refine ⟨rfl, ⟨hroot, by simp only; omega, ?_⟩, hn, ?_⟩
      · simp only [hn, if_true]; exact b.stackOk
      · simp only [pending, hn, if_true]; simp [b.below]

/-- the cursor `seek` builds from a landing stack -/
theorem seek_inv (t : Tree K E) (s : Stack K E) (hs : TopOk s) (ht : todo s ≤ t.nodes) :
    CInv t { root := t, stack := (skipEmpty (t.nodes + 1) s).2, nextCalled := false } ∧
    pending { root := t, stack := (skipEmpty (t.nodes + 1) s).2, nextCalled := false } = remaining s ∧
    current (skipEmpty (t.nodes + 1) s).2 = (remaining s).head? := by
  have hsp := skipEmpty_spec (t.nodes + 1) s hs (by omega)
  cases hx : (skipEmpty (t.nodes + 1) s).1 with
  | true =>
    obtain ⟨a, b, c, d⟩ := hsp.1 hx
    refine ⟨⟨rfl, by simp only; omega, by simp only [Bool.false_eq_true, if_false]; exact Or.inl a⟩, ?_, ?_⟩
    · simp only [pending, Bool.false_eq_true, if_false]; exact b
    · rw [← b]
      simp only [remaining]
      cases hc : current (skipEmpty (t.nodes + 1) s).2 with
      | none => simp [d hc]
      | some e => simp
  | false =>
    obtain ⟨a, b⟩ := hsp.2 hx
    have hr := b.remaining
    refine ⟨⟨rfl, by simp only; rw [b.final.todo]; omega,
      by simp only [Bool.false_eq_true, if_false]; exact Or.inr b⟩, ?_, ?_⟩
    · simp only [pending, Bool.false_eq_true, if_false]; rw [hr, a]
    · rw [a]
      simp only [remaining] at hr
      cases hc : current (skipEmpty (t.nodes + 1) s).2 with
      | none => rfl
      | some e => rw [hc] at hr; simp at hr

/-! ### Cursor.drain -/

theorem drain_spec (t : Tree K E) (n : Nat) : ∀ (c : Cursor K E), CInv t c → (pending c).length < n →
    (Cursor.drain n c).1 = pending c ∧ CInv t (Cursor.drain n c).2 ∧
      (Cursor.drain n c).2.nextCalled = true ∧ pending (Cursor.drain n c).2 = [] := by
  induction n with
  | zero => intro c _ h; omega
  | succ n ih =>
    intro c hc hlen
    obtain ⟨h1, h2, h3, h4⟩ := next_spec t c hc
    rw [Cursor.drain]
    cases hp : pending c with
    | nil =>
      rw [hp] at h1 h4
      simp only [List.head?_nil] at h1
      have e : c.next = (none, c.next.2) := by rw [← h1]
      rw [e]
      exact ⟨rfl, h2, h3, by simpa using h4⟩
    | cons e0 l =>
      rw [hp] at h1 h4 hlen
      simp only [List.head?_cons] at h1
      simp only [List.tail_cons] at h4
      have e : c.next = (some e0, c.next.2) := by rw [← h1]
      rw [e]
      simp only
      obtain ⟨a, b, c', d⟩ := ih c.next.2 h2 (by rw [h4]; simpa using hlen)
      exact ⟨by rw [a, h4], b, c', d⟩

/-- the fresh cursor behaves like the cursor positioned on the first leaf -/
def startCursor (t : Tree K E) : Cursor K E :=
  { root := t, stack := descend t 0 [], nextCalled := false }

theorem startCursor_spec (t : Tree K E) (h : Shp t) :
    CInv t (startCursor t) ∧ pending (startCursor t) = t.flatten := by
  obtain ⟨a, b, c⟩ := descend_spec t h [] (by simp [RestOk])
  refine ⟨⟨rfl, ?_, ?_⟩, ?_⟩
  · simp only [startCursor]; simp only [todo] at c; omega
  · simp only [startCursor, Bool.false_eq_true, if_false]; exact Or.inl a
  · simp only [pending, startCursor, Bool.false_eq_true, if_false]; rw [b]; simp [below]

theorem next_fresh (t : Tree K E) (h : Shp t) :
    Cursor.next { root := t } = (startCursor t).next := by
  have hne := (startCursor_spec t h).1.stack_ne
  rw [next_eq_fresh _ rfl, next_eq_first _ hne rfl]
  rfl

theorem drain_fresh_eq (t : Tree K E) (h : Shp t) (n : Nat) :
    Cursor.drain n { root := t } = if n = 0 then ([], { root := t }) else Cursor.drain n (startCursor t) := by
  cases n with
  | zero => rfl
  | succ n => simp only [Nat.add_one_ne_zero, if_false]; rw [Cursor.drain, Cursor.drain, next_fresh t h]

end Jamm
