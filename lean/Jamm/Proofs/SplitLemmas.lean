import Jamm.Model.Split
set_option linter.unusedSectionVars false
set_option linter.unusedVariables false
namespace Jamm

theorem splitScan_inv (p : Params) (hdr eh thr : Nat) (l : List Nat) :
    ∀ (i cur count : Nat),
      (∀ j ∈ splitScan p hdr eh thr l i cur count,
          i < j ∧ j ≤ i + l.length ∧ i + p.minKeysPerNode ≤ j + count) ∧
      List.Pairwise (fun a b => a + p.minKeysPerNode ≤ b) (splitScan p hdr eh thr l i cur count) := by
  induction l with
  | nil => intro i cur count; simp [splitScan]
  | cons s rest ih =>
    intro i cur count
    simp only [splitScan]
    split
    · rename_i hc
      obtain ⟨hm, hp⟩ := ih (i + 1) (hdr + (eh + s)) 0
      refine ⟨?_, ?_⟩
      · intro j hj
        rcases List.mem_cons.1 hj with rfl | hj
        · simp only [List.length_cons]; omega
        · have := hm j hj
          simp only [List.length_cons]; omega
      · refine List.pairwise_cons.2 ⟨?_, hp⟩
        intro b hb
        have := hm b hb
        omega
    · obtain ⟨hm, hp⟩ := ih (i + 1) (cur + (eh + s)) (count + 1)
      refine ⟨?_, hp⟩
      intro j hj
      have := hm j hj
      simp only [List.length_cons]; omega

theorem cutAt_len {α : Type} (m total : Nat) (idx : List Nat) :
    ∀ (off : Nat) (l : List α), l.length + off = total → off + 2 ≤ total →
      (∀ i ∈ idx, i + 2 ≤ total) →
      List.Pairwise (fun a b => a + m ≤ b) idx →
      (∀ i ∈ idx, off + m ≤ i) →
      ∀ c ∈ cutAt l idx off, min m 2 ≤ c.length := by
  induction idx with
  | nil =>
    intro off l hl ho _ _ _ c hc
    simp only [cutAt, List.mem_singleton] at hc
    subst hc; omega
  | cons i rest ih =>
    intro off l hl ho hr hp hh c hc
    simp only [cutAt, List.mem_cons] at hc
    have hi := hr i (List.mem_cons_self)
    have hoi := hh i (List.mem_cons_self)
    obtain ⟨hpi, hpr⟩ := List.pairwise_cons.1 hp
    rcases hc with rfl | hc
    · simp only [List.length_take]; omega
    · refine ih i (l.drop (i - off)) ?_ hi ?_ hpr ?_ c hc
      · simp only [List.length_drop]; omega
      · intro j hj; exact hr j (List.mem_cons_of_mem _ hj)
      · intro j hj; exact hpi j hj

/-- the cut points are strictly ascending, leave at least `minKeysPerNode` entries in every chunk but
the last and at least two in the last -/
theorem splitIndexes_spec (p : Params) (hp : p.Valid) (pagesize hdr elemHdr : Nat) (sizes : List Nat) :
    let idx := splitIndexes p pagesize hdr elemHdr sizes
    (∀ i ∈ idx, 0 < i ∧ i + 2 ≤ sizes.length) ∧
    List.Pairwise (fun a b => a + p.minKeysPerNode ≤ b) idx ∧
    (∀ i, idx.head? = some i → p.minKeysPerNode ≤ i) := by
  intro idx
  show (∀ i ∈ splitIndexes p pagesize hdr elemHdr sizes, 0 < i ∧ i + 2 ≤ sizes.length) ∧
    List.Pairwise (fun a b => a + p.minKeysPerNode ≤ b) (splitIndexes p pagesize hdr elemHdr sizes) ∧
    (∀ i, (splitIndexes p pagesize hdr elemHdr sizes).head? = some i → p.minKeysPerNode ≤ i)
  unfold splitIndexes
  split
  · simp
  · rename_i hc
    obtain ⟨hm, hpw⟩ := splitScan_inv p hdr elemHdr (pagesize * p.fillNum / p.fillDen)
      (sizes.take (sizes.length - 2)) 0 hdr 0
    refine ⟨?_, hpw, ?_⟩
    · intro i hi
      have := hm i hi
      simp only [List.length_take] at this
      omega
    · intro i hi
      have := hm i (List.mem_of_mem_head? hi)
      omega

/-- cutting at ascending in-range indexes loses nothing and keeps the order -/
theorem cutAt_flatten {α : Type} (l : List α) (idx : List Nat) (off : Nat)
    (h : List.Pairwise (· ≤ ·) (off :: idx)) : (cutAt l idx off).flatten = l := by
  clear h
  induction idx generalizing l off with
  | nil => simp [cutAt]
  | cons i rest ih => simp [cutAt, ih]

/-- every chunk produced by `Node::split` has at least `min minKeysPerNode 2` entries -/
theorem split_chunks_nonempty (p : Params) (hp : p.Valid) (pagesize hdr elemHdr : Nat) (sizes : List Nat)
    (es : List α) (hl : es.length = sizes.length) :
    ∀ c ∈ cutAt es (splitIndexes p pagesize hdr elemHdr sizes) 0,
      (splitIndexes p pagesize hdr elemHdr sizes ≠ [] → min p.minKeysPerNode 2 ≤ c.length) := by
  intro c hc hne
  obtain ⟨hr, hpw, hh⟩ := splitIndexes_spec p hp pagesize hdr elemHdr sizes
  have hmem : ∀ i ∈ splitIndexes p pagesize hdr elemHdr sizes, 0 + p.minKeysPerNode ≤ i := by
    intro i hi
    cases hs : splitIndexes p pagesize hdr elemHdr sizes with
    | nil => rw [hs] at hi; cases hi
    | cons a rest =>
      rw [hs] at hi hpw hh
      have ha := hh a rfl
      rcases List.mem_cons.1 hi with rfl | hi
      · omega
      · have := (List.pairwise_cons.1 hpw).1 i hi
        omega
  have h2 : 0 + 2 ≤ sizes.length := by
    cases hs : splitIndexes p pagesize hdr elemHdr sizes with
    | nil => exact absurd hs hne
    | cons a rest =>
      have := (hr a (by rw [hs]; exact List.mem_cons_self)).2
      omega
  exact cutAt_len p.minKeysPerNode sizes.length _ 0 es (by omega) h2
    (fun i hi => (hr i hi).2) hpw hmem c hc


end Jamm
