/-
Helpers for the header-page / free-list-page round trip: lists of writes (`applyWrites`) as a whole
(frame, pairwise-disjoint writes all survive), width-generic little-endian read-back, zero fill,
the packed word array of the free-list page.
-/
import Jamm.Model.EncodeMeta
import Jamm.Proofs.EncodeLemmas

set_option linter.unusedSimpArgs false
set_option linter.unusedSectionVars false
set_option linter.unusedVariables false

namespace Jamm

/-- the conjuncts of `Layout.WFMeta` as propositions -/
structure Layout.WFM (L : Layout) : Prop where
  pg1 : L.pgId + 8 ≤ L.pgType
  pg2 : L.pgType + 1 ≤ L.pgCount
  pg3 : L.pgCount + 8 ≤ L.pgOverflow
  pg4 : L.pgOverflow + 8 ≤ L.pgPtr
  m1 : L.mMetaPage + L.mMetaPageSz ≤ L.mMagic
  m2 : L.mMagic + L.mMagicSz ≤ L.mVersion
  m3 : L.mVersion + L.mVersionSz ≤ L.mPagesize
  m4 : L.mPagesize + 8 ≤ L.mRoot
  m5 : L.bmRoot + 8 ≤ L.bmNextInt
  m6 : L.bmNextInt + 8 ≤ L.bmSize
  m7 : L.mRoot + L.bmSize ≤ L.mNumPages
  m8 : L.mNumPages + 8 ≤ L.mFreelist
  m9 : L.mFreelist + 8 ≤ L.mTxId
  m10 : L.mTxId + 8 ≤ L.mHash
  m11 : L.mHash + 8 ≤ L.metaSize
  tm : L.typeMeta < 256
  tf : L.typeFreelist < 256
  tfm : L.typeFreelist ≠ L.typeMeta
  tfb : L.typeFreelist ≠ L.typeBranch
  tfl : L.typeFreelist ≠ L.typeLeaf
  pg5 : L.pgPtr ≤ L.pageSize

theorem Layout.WFM.of (L : Layout) (hL : L.WFMeta = true) : L.WFM := by
  simp only [Layout.WFMeta, Bool.and_eq_true, decide_eq_true_eq, Bool.decide_and] at hL
  obtain ⟨h1, h2, h3, h4, h5, h6, h7, h8, h9, h10, h11, h12, h13, h14, h15, h16, h17, h18, h19, h20,
    h21⟩ := hL
  exact ⟨h1, h2, h3, h4, h5, h6, h7, h8, h9, h10, h11, h12, h13, h14, h15, h16, h17, h18, h19, h20,
    h21⟩

/-! ### reads -/

namespace Src

/-- width-generic read-back of a little-endian image -/
theorem HasAt.leN {s : Src} {off x n : Nat} (h : s.HasAt off (leBytes x n)) (hx : x < 256 ^ n) :
    s.le off n = x := by
  rw [le_eq_mod s n off x]
  · exact Nat.mod_eq_of_lt hx
  · intro j hj
    rw [h j (by simpa [leBytes_length] using hj), leBytes_getD x n j hj]
    exact toUInt8_toNat_of_lt _ (Nat.mod_lt _ (by decide))

/-- reading zero bytes gives zero -/
theorem HasAt.le_zero {s : Src} {off n : Nat} (h : s.HasAt off (List.replicate n 0)) :
    s.le off n = 0 := by
  rw [le_eq_mod s n off 0]
  · exact Nat.zero_mod _
  · intro j hj
    rw [h j (by simpa using hj)]
    simp [List.getD, hj]

/-- a window of a zero fill is a zero fill -/
theorem HasAt.sub_zero {s : Src} {off n : Nat} (h : s.HasAt off (List.replicate n 0)) (o k : Nat)
    (hk : o + k ≤ n) : s.HasAt (off + o) (List.replicate k 0) := by
  apply h.sub
  · simpa using hk
  · intro j hj
    simp only [List.length_replicate] at hj
    have h1 : o + j < n := by omega
    simp [List.getD, hj, h1]

end Src

/-! ### lists of writes -/

theorem applyWrites_nil (s : Src) : applyWrites [] s = s := rfl

theorem applyWrites_cons (w : Nat × List UInt8) (ws : List (Nat × List UInt8)) (s : Src) :
    applyWrites (w :: ws) s = applyWrites ws (s.write w.1 w.2) := rfl

theorem applyWrites_size : ∀ (ws : List (Nat × List UInt8)) (s : Src), (applyWrites ws s).size = s.size := by
  intro ws
  induction ws with
  | nil => intro s; rfl
  | cons w ws ih => intro s; rw [applyWrites_cons, ih, Src.write_size]

/-- a byte outside every write is unchanged -/
theorem applyWrites_get_out : ∀ (ws : List (Nat × List UInt8)) (s : Src) (i : Nat),
    (∀ w ∈ ws, i < w.1 ∨ w.1 + w.2.length ≤ i) → (applyWrites ws s).get i = s.get i := by
  intro ws
  induction ws with
  | nil => intro s i _; rfl
  | cons w ws ih =>
    intro s i h
    rw [applyWrites_cons, ih _ i (fun v hv => h v (List.mem_cons_of_mem _ hv)),
      Src.write_get_out _ _ _ _ (h w List.mem_cons_self)]

/-- a range disjoint from every write keeps its bytes -/
theorem Src.HasAt.applyWrites_disj {s : Src} {a : Nat} {bs : List UInt8} (h : s.HasAt a bs)
    (ws : List (Nat × List UInt8))
    (hd : ∀ w ∈ ws, a + bs.length ≤ w.1 ∨ w.1 + w.2.length ≤ a) : (applyWrites ws s).HasAt a bs :=
  h.of_get_eq (fun k h1 h2 => applyWrites_get_out ws s k (fun w hw => by
    have := hd w hw; omega))

/-- two writes do not overlap -/
def WDisj (a b : Nat × List UInt8) : Prop := a.1 + a.2.length ≤ b.1 ∨ b.1 + b.2.length ≤ a.1

/-- pairwise disjoint writes: every one of them is what the result holds -/
theorem applyWrites_hasAt : ∀ (ws : List (Nat × List UInt8)) (s : Src), ws.Pairwise WDisj →
    ∀ w ∈ ws, (applyWrites ws s).HasAt w.1 w.2 := by
  intro ws
  induction ws with
  | nil => intro s _ w hw; cases hw
  | cons a rest ih =>
    intro s hp w hw
    rw [List.pairwise_cons] at hp
    rw [applyWrites_cons]
    rcases List.mem_cons.1 hw with rfl | hw
    · exact (Src.hasAt_write_self s _ _).applyWrites_disj rest (fun b hb => hp.1 b hb)
    · exact ih _ hp.2 w hw

/-! ### the packed words of a free-list page -/

theorem flatMap_le8_length (xs : List Nat) : (xs.flatMap (fun x => leBytes x 8)).length = 8 * xs.length := by
  induction xs with
  | nil => rfl
  | cons x rest ih =>
    rw [List.flatMap_cons, List.length_append, ih, leBytes_length, List.length_cons]; omega

theorem Src.HasAt.word {s : Src} : ∀ (xs : List Nat) (off : Nat),
    s.HasAt off (xs.flatMap (fun x => leBytes x 8)) →
    ∀ (i : Nat) (h : i < xs.length), s.HasAt (off + 8 * i) (leBytes xs[i] 8) := by
  intro xs
  induction xs with
  | nil => intro off _ i h; cases h
  | cons x rest ih =>
    intro off H i h
    rw [List.flatMap_cons] at H
    cases i with
    | zero => simpa using H.append_left
    | succ j =>
      have H2 := H.append_right
      rw [leBytes_length] at H2
      have := ih (off + 8) H2 j (by simpa using h)
      have e : off + 8 * (j + 1) = off + 8 + 8 * j := by omega
      rw [e]
      simpa using this

theorem Src.words_eq {s : Src} (xs : List Nat) (off : Nat)
    (H : s.HasAt off (xs.flatMap (fun x => leBytes x 8))) (hv : ∀ x ∈ xs, x < 2 ^ 64) :
    (List.range xs.length).map (fun i => s.le (off + 8 * i) 8) = xs := by
  apply List.ext_getElem
  · simp
  · intro i h1 h2
    simp only [List.getElem_map, List.getElem_range]
    exact (H.word xs off i h2).le8 (hv _ (List.getElem_mem h2))

/-! ### the page decoder on the two page kinds, from what it reads -/

section
variable (L : Layout)

theorem decodePage_meta (s : Src) (pagesize slot : Nat) (m : MetaRec)
    (hsz : slot * pagesize + L.pageSize ≤ s.size)
    (hty : (s.get (slot * pagesize + L.pgType)).toNat = L.typeMeta)
    (hid : s.le (slot * pagesize + L.pgId) 8 = slot)
    (hcount : s.le (slot * pagesize + L.pgCount) 8 = 0)
    (hov : s.le (slot * pagesize + L.pgOverflow) 8 = 0)
    (hm : readMeta L s (slot * pagesize) = m) :
    decodePage L s pagesize slot = .ok { id := slot, overflow := 0, count := 0, body := .hdr m } := by
  simp only [decodePage, hty, hid, hcount, hov, hm]
  rw [if_neg (by omega), if_pos trivial]

theorem decodePage_freelist (W : L.WFM) (s : Src) (pagesize pid overflow count : Nat) (ids : List Nat)
    (hsz : pid * pagesize + (overflow + 1) * pagesize ≤ s.size)
    (hhdr : L.pageSize ≤ pagesize)
    (hty : (s.get (pid * pagesize + L.pgType)).toNat = L.typeFreelist)
    (hid : s.le (pid * pagesize + L.pgId) 8 = pid)
    (hcount : s.le (pid * pagesize + L.pgCount) 8 = count)
    (hov : s.le (pid * pagesize + L.pgOverflow) 8 = overflow)
    (hfit : L.pgPtr + 8 * count ≤ (overflow + 1) * pagesize)
    (hids : (List.range count).map (fun i => s.le (pid * pagesize + L.pgPtr + 8 * i) 8) = ids) :
    decodePage L s pagesize pid =
      .ok { id := pid, overflow := overflow, count := count, body := .freelist ids } := by
  have h1 : pagesize ≤ (overflow + 1) * pagesize := by
    rw [Nat.add_mul, Nat.one_mul]; omega
  have := W.tfm; have := W.tfb; have := W.tfl
  simp only [decodePage, hty, hid, hcount, hov, hids]
  rw [if_neg (by omega), if_neg (by omega), if_neg (by omega), if_neg (by omega), if_neg (by omega),
    if_pos trivial, if_neg (by omega)]

end
end Jamm
