/-
Layer C proofs, part 1: the steps of `rebalance` preserve the contents, the uniform depth and the
separator invariant.
-/
import Jamm.Model.CommitInv
import Jamm.Proofs.TreeWF
import Jamm.Proofs.CommitBasic
set_option linter.unusedSectionVars false
open Std

namespace Jamm
variable {K E : Type} [Ord K] [TransOrd K] [LawfulEqOrd K] [DecidableEq K]

/-- C1: merging a child into its sibling (or removing an empty child) does not change the contents -/
theorem mergeChild_flatten (f : Forest K E) (i d : Nat) (hu : UniformF d f) :
    Tree.flattenF (f.mergeChild i) = Tree.flattenF f := by
  fun_induction Forest.mergeChild f i with
  | case1 => rfl
  | case2 k x h => simp [Tree.flattenF, isEmptyNode_flatten h]
  | case3 => rfl
  | case4 k x k' s rest h => simp [Tree.flattenF, isEmptyNode_flatten h]
  | case5 k x k' s rest h =>
    obtain ⟨hx, hr⟩ := uniformF_cons_inv hu
    obtain ⟨hs, _⟩ := uniformF_cons_inv hr
    simp [Tree.flattenF, mergeInto_flatten _ hx hs]
  | case6 kl l k x rest h => simp [Tree.flattenF, isEmptyNode_flatten h]
  | case7 kl l k x rest h =>
    obtain ⟨hl, hr⟩ := uniformF_cons_inv hu
    obtain ⟨hx, _⟩ := uniformF_cons_inv hr
    simp [Tree.flattenF, mergeInto_flatten _ hl hx]
  | case8 k t rest i _ ih =>
    obtain ⟨_, hr⟩ := uniformF_cons_inv hu
    simp [Tree.flattenF, ih hr]

/-- C2: … and keeps all children at the same depth -/
theorem mergeChild_uniform (f : Forest K E) (i d : Nat) (hu : UniformF d f) : UniformF d (f.mergeChild i) := by
  fun_induction Forest.mergeChild f i with
  | case1 => exact hu
  | case2 k x h => exact UniformF.nil d
  | case3 => exact hu
  | case4 k x k' s rest h => exact (uniformF_cons_inv hu).2
  | case5 k x k' s rest h =>
    obtain ⟨hx, hr⟩ := uniformF_cons_inv hu
    obtain ⟨hs, hr'⟩ := uniformF_cons_inv hr
    exact UniformF.cons _ _ _ _ (mergeInto_uniform _ hx hs) hr'
  | case6 kl l k x rest h =>
    obtain ⟨hl, hr⟩ := uniformF_cons_inv hu
    obtain ⟨hx, hr'⟩ := uniformF_cons_inv hr
    exact UniformF.cons _ _ _ _ hl hr'
  | case7 kl l k x rest h =>
    obtain ⟨hl, hr⟩ := uniformF_cons_inv hu
    obtain ⟨hx, hr'⟩ := uniformF_cons_inv hr
    exact UniformF.cons _ _ _ _ (mergeInto_uniform _ hl hx) hr'
  | case8 k t rest i _ ih =>
    obtain ⟨ht, hr⟩ := uniformF_cons_inv hu
    exact UniformF.cons _ _ _ _ ht (ih hr)

/-- C3: every reported step of `rebalance` preserves the contents of the bucket -/
theorem rbStep_flatten (t : Tree K E) (d : Nat) (hu : UniformT d t) (s : RbStep) :
    (t.rbStep s).flatten = t.flatten := by
  cases s with
  | merge parent i =>
    exact atBranch_flatten parent _ (fun d g h => mergeChild_flatten g i d h) t d hu
  | collapse =>
    simp only [Tree.rbStep]
    split
    · simp [Tree.flatten, Tree.flattenF]
    · rfl
  | emptyRoot =>
    simp only [Tree.rbStep]
    split
    · simp [Tree.flatten, Tree.flattenF]
    · rfl

/-- C4: … and uniform depth -/
theorem rbStep_uniform (t : Tree K E) (d : Nat) (hu : UniformT d t) (s : RbStep) :
    ∃ d', UniformT d' (t.rbStep s) := by
  cases s with
  | merge parent i =>
    exact ⟨d, atBranch_uniform parent _ (fun d g h => mergeChild_uniform g i d h) t d hu⟩
  | collapse =>
    simp only [Tree.rbStep]
    split
    · rename_i p k c
      obtain ⟨d', rfl, hk⟩ := uniformT_branch_inv hu
      exact ⟨d', (uniformF_cons_inv hk).1⟩
    · exact ⟨d, hu⟩
  | emptyRoot =>
    simp only [Tree.rbStep]
    split
    · exact ⟨0, UniformT.leaf _ _⟩
    · exact ⟨d, hu⟩

/-- C5: any sequence of steps preserves the contents -/
theorem rebalance_flatten (t : Tree K E) (d : Nat) (hu : UniformT d t) (steps : List RbStep) :
    (t.rebalance steps).flatten = t.flatten := by
  induction steps generalizing t d with
  | nil => rfl
  | cons s rest ih =>
    obtain ⟨d', hd'⟩ := rbStep_uniform t d hu s
    have := ih (t.rbStep s) d' hd'
    simp only [Tree.rebalance, List.foldl_cons] at this ⊢
    rw [this, rbStep_flatten t d hu s]

/-- C6: the executable checks are sound -/
theorem wfsb_sound (lo hi : Option K) (t : Tree K E) (h : wfsb lo hi t = true) : WFS lo hi t := by
  exact wfsb_sound_aux lo hi t h

/-- C7: the separator invariant implies routing well-formedness (so every Layer Q/T theorem applies),
for trees without an empty branch -/
theorem wfs_wf (lo hi : Option K) (t : Tree K E) (h : WFS lo hi t) (hne : nebT t = true) : WF lo hi t := by
  exact wfs_wf_aux.1 lo hi t h hne

/-- C8: `spill` does not change the contents: the pieces a node is written as concatenate to it -/
theorem spillT_flatten (p : Params) (pagesize hdr leafHdr branchHdr : Nat) (esz : Bytes × E → Nat) (key : Bytes) (t : Tree Bytes E) :
    ((spillT p pagesize hdr leafHdr branchHdr esz key t).map (fun e => e.2.flatten)).flatten = t.flatten := by
  exact spillT_flatten_aux p pagesize hdr leafHdr branchHdr esz key t

theorem spillRoot_flatten (p : Params) (pagesize hdr leafHdr branchHdr : Nat) (esz : Bytes × E → Nat) (fuel : Nat) (t : Tree Bytes E) :
    (spillRoot p pagesize hdr leafHdr branchHdr esz fuel t).flatten = t.flatten := by
  induction fuel generalizing t with
  | zero => rfl
  | succ fuel ih =>
    have hs := spillT_flatten p pagesize hdr leafHdr branchHdr esz [] t
    simp only [spillRoot]
    split
    · rfl
    · rename_i k r heq
      rw [heq] at hs
      simpa using hs
    · rw [ih, Tree.flatten, flattenF_ofList]
      exact hs

end Jamm
