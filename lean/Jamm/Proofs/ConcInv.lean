/-
Layer P (threads), part 1: the inductive invariant of `Sys2` (writer's begin and commit split).

The writer's private state was computed at its begin with some release bound `B`.  What is needed at
commit time is only that `B` is *admissible* for the readers registered now: every registered reader
either has an id `≥ B` (it was registered at the writer's begin, or it is newer), or its snapshot lies
inside the current one (it registered after the writer's begin, atomically).

The analysis of one commit for the bound that `beginWriter` computes (`inv_commit`, `run_ainv` in
`FreelistSys.lean`) is reused for an arbitrary admissible bound by running it on a system whose reader
list is replaced by one fictitious reader with id `B` and an empty snapshot (`Sys.fake`).
-/
import Jamm.Model.Conc
import Jamm.Proofs.FreelistLemmas
set_option linter.unusedSectionVars false
set_option linter.unusedVariables false

namespace Jamm

/-! ### an arbitrary admissible bound, via a fictitious reader -/

/-- the same system with the reader list replaced so that `beginWriter` chooses the bound `B` -/
def Sys.fake (s : Sys) (B : Nat) : Sys :=
  { s with readers := if B ≤ s.cur.txId then [{ txId := B, reach := [] }] else [] }

theorem fake_bound (s : Sys) (B : Nat) (hB : B ≤ s.cur.txId + 1) : (s.fake B).bound = B := by
  unfold Sys.bound Sys.fake
  by_cases h : B ≤ s.cur.txId
  · simp [h]
  · simp [h]; omega

theorem fake_inv {s : Sys} (hi : s.Inv) (B : Nat) : (s.fake B).Inv := by
  obtain ⟨h1, h2, h3, h4, h5, h6, h7, h8, h9, h10, h11⟩ := hi
  refine ⟨h1, h2, h3, h4, h5, h6, h7, h8, h9, ?_, h11⟩
  intro r hr
  simp only [Sys.fake] at hr
  split at hr
  · rename_i hle
    rw [List.mem_singleton] at hr
    subst hr
    exact ⟨hle, fun p hp => by simp at hp⟩
  · simp at hr

/-- the private state of a writer that began with release bound `B` -/
def Sys.txfl (s : Sys) (B : Nat) : TxFL :=
  { fl := s.shared.release B, numPages := s.numPages, txId := s.cur.txId + 1 }

theorem fake_beginWriter (s : Sys) (B : Nat) (hB : B ≤ s.cur.txId + 1) :
    (s.fake B).beginWriter = s.txfl B := by
  rw [beginWriter_eq, fake_bound s B hB]
  rfl

/-- the allocation-loop invariant for a writer that began with an arbitrary bound -/
theorem run_ainv_gen {s : Sys} (hi : s.Inv) (B : Nat) (hB : B ≤ s.cur.txId + 1) (w : WriterTx) :
    AInv (s.shared.release B).free s.numPages
      ((s.shared.release B).freeAll (s.cur.txId + 1) w.freed).pending (s.cur.txId + 1)
      ((s.txfl B).run w) := by
  have h := run_ainv (fake_inv hi B) w
  rw [fake_beginWriter s B hB] at h
  unfold Sys.f2 Sys.f1 at h
  rw [fake_bound s B hB] at h
  exact h

theorem rel_free_cases {s : Sys} (hi : s.Inv) (B : Nat) {p : Nat} (hp : p ∈ (s.shared.release B).free) :
    p ∈ s.shared.free ∨ p ∈ s.shared.pendingPages := by
  rcases (release_free_mem s.shared B hi.ascKeys p).1 hp with h | ⟨e, he, _, hpe⟩
  · exact Or.inl h
  · exact Or.inr ((mem_pendingPages _ _).2 ⟨e, he, hpe⟩)

theorem rel_free_not_reach {s : Sys} (hi : s.Inv) (B : Nat) {p : Nat}
    (hp : p ∈ (s.shared.release B).free) : p ∉ s.cur.reach := by
  intro hr
  rcases rel_free_cases hi B hp with h | h
  · exact hi.djRF p hr h
  · exact hi.djRP p hr h

/-- the system after the commit of a writer that began with bound `B` -/
def Sys.commitWith (s : Sys) (B : Nat) (w : WriterTx) : Sys :=
  { cur := { txId := s.cur.txId + 1,
             reach := (s.cur.reach.filter (fun p => !w.freed.contains p)) ++ expand ((s.txfl B).run w).1 }
    shared := ((s.txfl B).run w).2.fl
    readers := s.readers
    numPages := ((s.txfl B).run w).2.numPages }

/-- `inv_commit` for an arbitrary admissible bound -/
theorem inv_commit_gen {s : Sys} (hi : s.Inv) (B : Nat) (hB : B ≤ s.cur.txId + 1)
    (hrd : ∀ r ∈ s.readers, B ≤ r.txId ∨ ∀ p ∈ r.reach, p ∈ s.cur.reach)
    (w : WriterTx) (hsub : ∀ p ∈ w.freed, p ∈ s.cur.reach) (hnd : w.freed.Nodup) :
    (s.commitWith B w).Inv := by
  have hf := inv_commit (fake_inv hi B) w hsub hnd
  rw [step_commit_eq, fake_beginWriter s B hB] at hf
  have hA := run_ainv_gen hi B hB w
  obtain ⟨h1, h2, h3, h4, h5, h6, h7, h8, h9, _, h11⟩ := hf
  refine ⟨h1, h2, h3, h4, h5, h6, h7, h8, h9, ?_, h11⟩
  show ∀ r ∈ s.readers, r.txId ≤ s.cur.txId + 1 ∧ ∀ p ∈ r.reach,
    p ∈ s.cur.reach.filter (fun p => !w.freed.contains p) ++ expand ((s.txfl B).run w).1 ∨
      p ∈ ((s.txfl B).run w).2.fl.pendingAbove r.txId
  intro r hr
  obtain ⟨hle, hreach⟩ := hi.rd r hr
  refine ⟨by omega, ?_⟩
  intro p hp
  rw [pendingAbove_congr hA.pend_eq, mem_pendingAbove]
  rw [freeAll_exists (s.cur.txId + 1) (fun k => r.txId < k) p w.freed (s.shared.release B)]
  have hcur : p ∈ s.cur.reach →
      (p ∈ s.cur.reach.filter (fun p => !w.freed.contains p) ++ expand ((s.txfl B).run w).1 ∨
        (∃ e ∈ (s.shared.release B).pending, r.txId < e.1 ∧ p ∈ e.2) ∨
          r.txId < s.cur.txId + 1 ∧ p ∈ w.freed) := fun h => by
    by_cases hfr : p ∈ w.freed
    · exact Or.inr (Or.inr ⟨by omega, hfr⟩)
    · exact Or.inl (List.mem_append_left _ ((mem_keep _ _ _).2 ⟨h, hfr⟩))
  rcases hreach p hp with h | h
  · exact hcur h
  · rcases hrd r hr with hb | hin
    · obtain ⟨e, he, hlt, hpe⟩ := (mem_pendingAbove _ _ _).1 h
      exact Or.inr (Or.inl ⟨e, (release_pending_mem s.shared B hi.ascKeys e).2 ⟨he, by omega⟩, hlt, hpe⟩)
    · exact hcur (hin p hp)

/-- no page written by a writer that began with an admissible bound belongs to a registered reader -/
theorem reader_pages_not_written_gen {s : Sys} (hi : s.Inv) (B : Nat) (hB : B ≤ s.cur.txId + 1)
    (hrd : ∀ r ∈ s.readers, B ≤ r.txId ∨ ∀ p ∈ r.reach, p ∈ s.cur.reach)
    (w : WriterTx) (r : Snap) (hr : r ∈ s.readers) :
    ∀ p ∈ r.reach, p ∉ expand ((s.txfl B).run w).1 := by
  intro p hp hw
  have hal := (run_ainv_gen hi B hB w).al p hw
  obtain ⟨_, hreach⟩ := hi.rd r hr
  have hcur : p ∈ s.cur.reach → False := fun h => by
    rcases hal.1 with h' | h'
    · exact rel_free_not_reach hi B h' h
    · have := (hi.rng p (Or.inl (Or.inl h))).2; omega
  rcases hreach p hp with h | h
  · exact hcur h
  · rcases hrd r hr with hb | hin
    · obtain ⟨e, he, hlt, hpe⟩ := (mem_pendingAbove _ _ _).1 h
      have he1 : e ∈ (s.shared.release B).pending :=
        (release_pending_mem s.shared B hi.ascKeys e).2 ⟨he, by omega⟩
      have hpp1 : p ∈ (s.shared.release B).pendingPages := (mem_pendingPages _ _).2 ⟨e, he1, hpe⟩
      rcases hal.1 with h' | h'
      · exact release_free_disj s.shared B hi.ascKeys hi.ndPend hi.djFP p h' hpp1
      · have := (hi.rng p (Or.inr (release_pendingPages_sub s.shared B p hpp1))).2; omega
    · exact hcur (hin p hp)

theorem bound_le_succ {s : Sys} (hi : s.Inv) : s.bound ≤ s.cur.txId + 1 := by
  cases hrs : s.readers with
  | nil => rw [bound_no_reader s hrs]; exact Nat.le_refl _
  | cons r rest =>
    have hr : r ∈ s.readers := by rw [hrs]; exact List.mem_cons_self ..
    have := bound_le_reader s r hr
    have := (hi.rd r hr).1
    omega

/-! ### the invariant of `Sys2` -/

structure Sys2.Inv (s : Sys2) : Prop where
  base : s.base.Inv
  ch : s.choosing = []
  wr : s.writer = none ∨ ∃ B, s.writer = some (s.base.txfl B) ∧ B ≤ s.cur.txId + 1 ∧
    ∀ r ∈ s.readers, B ≤ r.txId ∨ ∀ p ∈ r.reach, p ∈ s.cur.reach

theorem Sys2.step_commit2_eq (s : Sys2) (w : WriterTx) (B : Nat) (h : s.writer = some (s.base.txfl B)) :
    (s.step (.commitW w)).base = s.base.commitWith B w ∧ (s.step (.commitW w)).writer = none ∧
      (s.step (.commitW w)).choosing = s.choosing := by
  refine ⟨?_, ?_, ?_⟩ <;> (simp only [Sys2.step, h]; try rfl)

theorem Sys2.inv2_step {s : Sys2} (hi : s.Inv) (ev : Ev2) (hat : ev.atomic = true)
    (hen : s.enabledB ev = true) : (s.step ev).Inv := by
  obtain ⟨hb, hch, hwr⟩ := hi
  cases ev with
  | readHeaderR => simp [Ev2.atomic] at hat
  | registerR i => simp [Ev2.atomic] at hat
  | beginR =>
    refine ⟨?_, hch, ?_⟩
    · have := inv_step s.base .beginR ((invB_iff _).2 hb) rfl
      exact (invB_iff _).1 this
    · rcases hwr with h | ⟨B, h1, h2, h3⟩
      · exact Or.inl h
      · refine Or.inr ⟨B, h1, h2, ?_⟩
        intro r hr
        rcases List.mem_append.1 hr with hr | hr
        · exact h3 r hr
        · rw [List.mem_singleton] at hr
          subst hr
          exact Or.inr (fun p hp => hp)
  | endR i =>
    have hsub : ∀ r ∈ s.readers.eraseIdx i, r ∈ s.readers :=
      fun r hr => (List.eraseIdx_sublist _ _).subset hr
    refine ⟨?_, hch, ?_⟩
    · have := inv_step s.base (.endR i) ((invB_iff _).2 hb) hen
      exact (invB_iff _).1 this
    · rcases hwr with h | ⟨B, h1, h2, h3⟩
      · exact Or.inl h
      · exact Or.inr ⟨B, h1, h2, fun r hr => h3 r (hsub r hr)⟩
  | beginW =>
    refine ⟨hb, hch, Or.inr ⟨s.base.bound, rfl, bound_le_succ hb, ?_⟩⟩
    intro r hr
    exact Or.inl (bound_le_reader s.base r hr)
  | dropW => exact ⟨hb, hch, Or.inl rfl⟩
  | commitW w =>
    simp only [Sys2.enabledB, Bool.and_eq_true, Sys.clientOkB, List.all_eq_true,
      List.contains_iff_mem, nodupB_iff] at hen
    obtain ⟨hsome, ⟨hfs, hfnd⟩, _⟩ := hen
    rcases hwr with h | ⟨B, h1, h2, h3⟩
    · rw [h] at hsome; simp at hsome
    · obtain ⟨e1, e2, e3⟩ := Sys2.step_commit2_eq s w B h1
      refine ⟨?_, e3.trans hch, Or.inl e2⟩
      rw [e1]
      exact inv_commit_gen hb B h2 h3 w hfs hfnd

theorem Sys2.inv2_run_aux {s : Sys2} (hi : s.Inv) (evs : List Ev2) (s' : Sys2)
    (hat : evs.all Ev2.atomic = true) (h : s.run evs = some s') : s'.Inv := by
  induction evs generalizing s with
  | nil =>
    simp only [Sys2.run, Option.some.injEq] at h
    subst h; exact hi
  | cons ev rest ih =>
    rw [List.all_cons, Bool.and_eq_true] at hat
    unfold Sys2.run at h
    split at h
    · rename_i hc
      exact ih (Sys2.inv2_step hi ev hat.1 hc) hat.2 h
    · simp at h

theorem Sys2.inv_of_init {s : Sys2} (hi : s.base.invB = true) (hw : s.writer = none)
    (hch : s.choosing = []) : s.Inv :=
  ⟨(invB_iff _).1 hi, hch, Or.inl hw⟩

end Jamm
