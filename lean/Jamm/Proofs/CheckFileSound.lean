/-
Layer S: the whole-file checker is sound.  If `checkFile` accepts, then (a) every bucket, at every nesting
depth, unfolds from its root page to a well-formed tree, linked to its parent through a bucket entry that
names its root page and counter; (b) the pages reached through the trees (with their overflow runs), the run
of the free-list page and the entries of the free list are pairwise distinct and are exactly the pages
`2 .. numPages-1`; (c) the file is long enough for `numPages` pages.
-/
import Jamm.Model.FileCheck
import Jamm.Proofs.FileCheckLemmas
set_option linter.unusedSectionVars false
open Std

namespace Jamm

mutual
/-- `v` is what the pages hold for the bucket rooted at `root` -/
inductive GoodView (pg : PageStore) : Nat → Nat → BucketView → Prop where
  | mk (fuel root : Nat) (v : BucketView) :
      unfoldT pg fuel root = some v.tree → WF (K := Bytes) none none v.tree →
      GoodSubs pg (fuel - 1) (subBuckets v.tree.flatten) v.subs → GoodView pg fuel root v
/-- the nested buckets of a view are, entry by entry, the bucket entries of its tree -/
inductive GoodSubs (pg : PageStore) : Nat → List (Bytes × Nat × Nat) → List (Bytes × BucketView) → Prop where
  | nil (fuel : Nat) : GoodSubs pg fuel [] []
  | cons (fuel : Nat) (k : Bytes) (r n : Nat) (v : BucketView) (es : List (Bytes × Nat × Nat))
      (vs : List (Bytes × BucketView)) :
      GoodView pg fuel r v → v.nextInt = n → GoodSubs pg fuel es vs →
      GoodSubs pg fuel ((k, r, n) :: es) ((k, v) :: vs)
end

/-- the unfolding equation of `BucketView.runs` (defined by well-founded recursion on the size of the view) -/
theorem BucketView.runs_eq (pg : PageStore) (b : BucketView) :
    b.runs pg = (b.tree.pids.map (fun p => (p, match pg p with | some q => q.overflow + 1 | none => 1)))
      ++ b.subs.flatMap (fun s => s.2.runs pg) := by
  rw [BucketView.runs]
  rfl

/-- the accounting comparison is exact: no page twice, none missing, none outside `2 .. n+1` -/
theorem mergeSort_eq_range_exact (pages : List Nat) (n : Nat)
    (h : pages.mergeSort (· ≤ ·) = (List.range n).map (· + 2)) :
    pages.Nodup ∧ ∀ p, p ∈ pages ↔ 2 ≤ p ∧ p < n + 2 := by
  have hp : (pages.mergeSort (· ≤ ·)).Perm pages := List.mergeSort_perm pages _
  have hnd : ((List.range n).map (· + 2)).Nodup :=
    List.Pairwise.map (· + 2) (fun a b (hab : a ≠ b) => by show a + 2 ≠ b + 2; omega) List.nodup_range
  constructor
  · exact (hp.nodup_iff).mp (h ▸ hnd)
  · intro p
    rw [← hp.mem_iff, h, List.mem_map]
    constructor
    · rintro ⟨a, ha, rfl⟩
      have := List.mem_range.mp ha
      omega
    · rintro ⟨h1, h2⟩
      exact ⟨p - 2, List.mem_range.mpr (by omega), by omega⟩

/-- the nested buckets, given that one bucket viewed with `fuel` is good -/
theorem viewSubs_good (pg : PageStore) (fuel : Nat)
    (ih : ∀ r n v, viewBucket pg fuel r n = .ok v → GoodView pg fuel r v ∧ v.nextInt = n) :
    ∀ (es : List (Bytes × Nat × Nat)) (vs : List (Bytes × BucketView)),
      viewSubs (viewBucket pg fuel) es = .ok vs → GoodSubs pg fuel es vs := by
  intro es
  induction es with
  | nil =>
    intro vs h
    simp only [viewSubs, Except.ok.injEq] at h
    subst h
    exact GoodSubs.nil fuel
  | cons e rest ihl =>
    intro vs h
    obtain ⟨k, r, n⟩ := e
    simp only [viewSubs] at h
    split at h
    · rename_i v vs' hv hvs
      simp only [Except.ok.injEq] at h
      subst h
      obtain ⟨h1, h2⟩ := ih r n v hv
      exact GoodSubs.cons fuel k r n v rest vs' h1 h2 (ihl vs' hvs)
    · exact absurd h (by simp)
    · exact absurd h (by simp)

/-- what `viewBucket` accepts is a good view carrying the counter it was given -/
theorem viewBucket_good (pg : PageStore) (fuel : Nat) :
    ∀ (root n : Nat) (v : BucketView), viewBucket pg fuel root n = .ok v →
      GoodView pg fuel root v ∧ v.nextInt = n := by
  induction fuel with
  | zero =>
    intro root n v h
    simp [viewBucket] at h
  | succ fuel ih =>
    intro root n v h
    unfold viewBucket at h
    split at h
    · exact absurd h (by simp)
    · rename_i t ht
      split at h
      · exact absurd h (by simp)
      · rename_i hwf
        split at h
        · rename_i subs hsubs
          simp only [Except.ok.injEq] at h
          subst h
          have hw : wfb (K := Bytes) none none t = true := by
            cases hb : wfb (K := Bytes) none none t with
            | true => rfl
            | false => simp [hb] at hwf
          refine ⟨GoodView.mk (fuel + 1) root _ ht (wfb_sound none none t hw) ?_, rfl⟩
          exact viewSubs_good pg fuel ih _ _ hsubs
        · exact absurd h (by simp)

/-- F1: soundness of the whole-file check -/
theorem checkFile_sound (mt : MetaRec) (pg : PageStore) (fileSize pagesize : Nat) (sum : FileSummary)
    (h : checkFile mt pg fileSize pagesize = .ok sum) :
    GoodView pg (mt.numPages + 1) mt.rootPage sum.root ∧
    sum.root.nextInt = mt.nextInt ∧
    sum.reach = expandRuns (sum.root.runs pg) ∧
    (∃ fp, pg mt.freelistPage = some fp ∧ fp.body = .freelist sum.free ∧
      sum.freelistRun = (List.range (fp.overflow + 1)).map (· + mt.freelistPage)) ∧
    (sum.reach ++ sum.freelistRun ++ sum.free).Nodup ∧
    (∀ p, p ∈ sum.reach ++ sum.freelistRun ++ sum.free ↔ 2 ≤ p ∧ p < mt.numPages) ∧
    mt.numPages * pagesize ≤ fileSize := by
  unfold checkFile at h
  split at h
  · exact absurd h (by simp)
  · rename_i hsz
    split at h
    · exact absurd h (by simp)
    · rename_i root hroot
      split at h
      · rename_i fp hfp
        split at h
        · rename_i ids hids
          simp only at h
          split at h
          · rename_i hall
            simp only [Except.ok.injEq] at h
            subst h
            have hall' := eq_of_beq hall
            obtain ⟨hg, hn⟩ := viewBucket_good pg _ _ _ _ hroot
            obtain ⟨hnd, hmem⟩ := mergeSort_eq_range_exact _ _ hall'
            refine ⟨hg, hn, rfl, ⟨fp, hfp, hids, rfl⟩, hnd, ?_, by omega⟩
            intro p
            rw [hmem p]
            omega
          · exact absurd h (by simp)
        · exact absurd h (by simp)
      · exact absurd h (by simp)

end Jamm
