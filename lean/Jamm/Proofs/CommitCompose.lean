/-
Layer C, composition: the invariant of a bucket's tree (separator invariant, tightness, uniform depth)
is kept by every leaf edit of a transaction and re-established by commit (any replayed `rebalance`
steps, any touches of nested-bucket headers, then `spill`), and commit does not change the contents.
-/
import Jamm.Proofs.CommitLemmas
import Jamm.Proofs.CommitSepLemmas
import Jamm.Proofs.CommitSpillLemmas
import Jamm.Proofs.CommitTightLemmas
import Jamm.Proofs.CommitTouch
import Jamm.Proofs.TxLemmas
set_option linter.unusedSectionVars false
open Std

namespace Jamm

section
variable {K E : Type} [Ord K] [TransOrd K] [LawfulEqOrd K] [DecidableEq K]

mutual
theorem put_uniform (key : K) (e : E) (t : Tree K E) (d : Nat) (h : UniformT d t) : UniformT d (t.put key e) := by
  match t, h with
  | .leaf p es, .leaf _ _ => exact UniformT.leaf _ _
  | .branch p kids, .branch d' _ _ hk =>
    simp only [Tree.put]
    exact UniformT.branch _ _ _ (putAt_uniform key e kids _ d' hk)
theorem putAt_uniform (key : K) (e : E) (f : Forest K E) (i d : Nat) (h : UniformF d f) :
    UniformF d (Forest.putAt key e f i) := by
  match f, i, h with
  | .nil, _, _ => simpa [Forest.putAt] using UniformF.nil d
  | .cons k t rest, 0, .cons _ _ _ _ ht hr =>
    simp only [Forest.putAt]
    exact UniformF.cons _ _ _ _ (put_uniform key e t d ht) hr
  | .cons k t rest, i + 1, .cons _ _ _ _ ht hr =>
    simp only [Forest.putAt]
    exact UniformF.cons _ _ _ _ ht (putAt_uniform key e rest i d hr)
end

mutual
theorem del_uniform (key : K) (t : Tree K E) (d : Nat) (h : UniformT d t) : UniformT d (t.del key) := by
  match t, h with
  | .leaf p es, .leaf _ _ => exact UniformT.leaf _ _
  | .branch p kids, .branch d' _ _ hk =>
    simp only [Tree.del]
    exact UniformT.branch _ _ _ (delAt_uniform key kids _ d' hk)
theorem delAt_uniform (key : K) (f : Forest K E) (i d : Nat) (h : UniformF d f) :
    UniformF d (Forest.delAt key f i) := by
  match f, i, h with
  | .nil, _, _ => simpa [Forest.delAt] using UniformF.nil d
  | .cons k t rest, 0, .cons _ _ _ _ ht hr =>
    simp only [Forest.delAt]
    exact UniformF.cons _ _ _ _ (del_uniform key t d ht) hr
  | .cons k t rest, i + 1, .cons _ _ _ _ ht hr =>
    simp only [Forest.delAt]
    exact UniformF.cons _ _ _ _ ht (delAt_uniform key rest i d hr)
end

theorem rebalance_uniform (steps : List RbStep) (t : Tree K E) (d : Nat) (hu : UniformT d t) :
    ∃ d', UniformT d' (t.rebalance steps) := by
  induction steps generalizing t d with
  | nil => exact ⟨d, hu⟩
  | cons s rest ih =>
    obtain ⟨d1, h1⟩ := rbStep_uniform t d hu s
    exact ih (t.rbStep s) d1 h1

/-- the invariant of a bucket's tree between transactions and while a transaction edits it -/
structure TreeInv (t : Tree K E) : Prop where
  sep : WFS none none t
  tight : TightT none t
  uniform : ∃ d, UniformT d t

theorem applyOp_inv (t : Tree K E) (h : TreeInv t) (op : TxOp K E) : TreeInv (t.applyOp op) := by
  obtain ⟨d, hu⟩ := h.uniform
  cases op with
  | put k e =>
    have := put_wfs' none none t h.sep h.tight k e trivial trivial
    exact ⟨this.1, this.2, d, put_uniform k e t d hu⟩
  | del k =>
    have := del_wfs' none none t h.sep h.tight k trivial trivial
    exact ⟨this.1, this.2, d, del_uniform k t d hu⟩

theorem applyOps_inv (t : Tree K E) (h : TreeInv t) (ops : List (TxOp K E)) : TreeInv (ops.foldl Tree.applyOp t) := by
  induction ops generalizing t with
  | nil => exact h
  | cons op rest ih => exact ih _ (applyOp_inv t h op)

end

section
variable {E : Type} (p : Params) (pagesize hdr leafHdr branchHdr : Nat) (esz : Bytes × E → Nat)

theorem commitTree_flatten (steps : List RbStep) (touched : List Bytes) (t : Tree Bytes E) (d : Nat)
    (hu : UniformT d t) :
    (commitTree p pagesize hdr leafHdr branchHdr esz steps touched t).flatten = t.flatten := by
  unfold commitTree
  simp only
  rw [spillRoot_flatten, touchAll_flatten, rebalance_flatten t d hu steps]

theorem commitTree_inv (hp : p.Valid) (h2 : 2 ≤ p.minKeysPerNode) (steps : List RbStep) (touched : List Bytes)
    (t : Tree Bytes E) (h : TreeInv t) :
    TreeInv (commitTree p pagesize hdr leafHdr branchHdr esz steps touched t) := by
  obtain ⟨d, hu⟩ := h.uniform
  obtain ⟨d1, hu0⟩ := rebalance_uniform steps t d hu
  have hu1 := touchAll_uniform touched _ d1 hu0
  have hw1 := touchAll_wfs none none touched _ (rebalance_wfs t h.sep d hu steps)
  have ht1 := touchAll_tightM none touched _ (rebalance_tightM t steps (tight_tightM none t h.tight))
  unfold commitTree
  simp only
  refine ⟨spillRoot_wfs p pagesize hdr leafHdr branchHdr esz hp _ _ d1 hw1 hu1, ?_,
    spillRoot_uniform p pagesize hdr leafHdr branchHdr esz _ _ d1 hu1⟩
  exact spillRoot_tight p pagesize hdr leafHdr branchHdr esz _ _ ht1
    (spillRoot_terminates p pagesize hdr leafHdr branchHdr esz hp h2 _ _ (Nat.le_refl _))

end
end Jamm

namespace Jamm
section
variable {K E : Type}

mutual
theorem uniformB_sound (t : Tree K E) (d : Nat) (h : uniformB t = some d) : UniformT d t := by
  match t with
  | .leaf p es =>
    simp only [uniformB, Option.some.injEq] at h
    subst h
    exact UniformT.leaf _ _
  | .branch p kids =>
    simp only [uniformB] at h
    cases hk : uniformFB kids with
    | none => rw [hk] at h; simp at h
    | some o =>
      rw [hk] at h
      have hs := uniformFB_sound kids o hk
      cases o with
      | none =>
        simp only [Option.bind_some, Option.some.injEq] at h
        subst h
        simp only at hs
        subst hs
        exact UniformT.branch _ _ _ (UniformF.nil 0)
      | some d' =>
        simp only [Option.bind_some, Option.some.injEq] at h
        subst h
        exact UniformT.branch _ _ _ hs
theorem uniformFB_sound (f : Forest K E) (o : Option Nat) (h : uniformFB f = some o) :
    match o with
    | none => f = .nil
    | some d => UniformF d f := by
  match f with
  | .nil =>
    simp only [uniformFB, Option.some.injEq] at h
    subst h
    rfl
  | .cons k t rest =>
    simp only [uniformFB] at h
    cases ht : uniformB t with
    | none => rw [ht] at h; simp at h
    | some d =>
      rw [ht] at h
      have hT := uniformB_sound t d ht
      cases hr : uniformFB rest with
      | none => rw [hr] at h; simp at h
      | some o' =>
        rw [hr] at h
        have hR := uniformFB_sound rest o' hr
        cases o' with
        | none =>
          simp only [Option.some.injEq] at h
          subst h
          simp only at hR
          subst hR
          exact UniformF.cons _ _ _ _ hT (UniformF.nil d)
        | some d' =>
          simp only at h
          split at h
          · rename_i hdd
            simp only [Option.some.injEq] at h
            subst h
            subst hdd
            exact UniformF.cons _ _ _ _ hT hR
          · simp at h
end

end
end Jamm
