/-
Layer S: round trip for the header page and the free-list page.
-/
import Jamm.Model.EncodeMeta
import Jamm.Proofs.EncodeLemmas
import Jamm.Proofs.EncodeMetaBasic
set_option linter.unusedSectionVars false

namespace Jamm

section
variable (L : Layout)

/-- the twelve writes after the zero fill of a header page -/
def metaTailWrites (base slot : Nat) (m : MetaRec) : List (Nat × List UInt8) :=
  [(base + L.pgId, leBytes slot 8), (base + L.pgType, [L.typeMeta.toUInt8])] ++ metaWrites L base m

theorem metaPageWrites_eq (pagesize slot : Nat) (m : MetaRec) :
    metaPageWrites L pagesize slot m =
      (slot * pagesize, List.replicate pagesize 0) :: metaTailWrites L (slot * pagesize) slot m := rfl

/-- id, type and the ten record fields do not overlap -/
theorem metaTailWrites_pairwise (W : L.WFM) (base slot : Nat) (m : MetaRec) :
    (metaTailWrites L base slot m).Pairwise WDisj := by
  have := W.pg1; have := W.pg2; have := W.pg3; have := W.pg4
  have := W.m1; have := W.m2; have := W.m3; have := W.m4; have := W.m5; have := W.m6
  have := W.m7; have := W.m8; have := W.m9; have := W.m10; have := W.m11
  simp only [metaTailWrites, metaWrites, List.cons_append, List.nil_append, List.pairwise_cons,
    List.forall_mem_cons, List.not_mem_nil, false_imp_iff, implies_true, List.Pairwise.nil, and_true,
    WDisj, leBytes_length, List.length_cons, List.length_nil]
  refine ⟨?_, ?_, ?_, ?_, ?_, ?_, ?_, ?_, ?_, ?_, ?_⟩ <;> (try and_intros) <;> omega

/-- … and all lie inside `[base, base + pgPtr + metaSize)`, the count and overflow fields excepted -/
theorem metaTailWrites_range (W : L.WFM) (base slot : Nat) (m : MetaRec) :
    ∀ w ∈ metaTailWrites L base slot m,
      base ≤ w.1 ∧ w.1 + w.2.length ≤ base + L.pgPtr + L.metaSize ∧
      (w.1 + w.2.length ≤ base + L.pgCount ∨ base + L.pgPtr ≤ w.1) := by
  have := W.pg1; have := W.pg2; have := W.pg3; have := W.pg4
  have := W.m1; have := W.m2; have := W.m3; have := W.m4; have := W.m5; have := W.m6
  have := W.m7; have := W.m8; have := W.m9; have := W.m10; have := W.m11
  simp only [metaTailWrites, metaWrites, List.cons_append, List.nil_append,
    List.forall_mem_cons, List.not_mem_nil, false_imp_iff, implies_true, and_true,
    leBytes_length, List.length_cons, List.length_nil]
  and_intros <;> omega

/-- M1: the header page a commit builds decodes to exactly the record written (all ten fields) -/
theorem decode_writeMetaPage (hL : L.WFMeta = true) (pagesize slot : Nat) (m : MetaRec) (s : Src)
    (hfile : slot * pagesize + pagesize ≤ s.size)
    (hrec : L.pgPtr + L.metaSize ≤ pagesize) (hhdr : L.pageSize ≤ pagesize)
    (hslot : slot < 2 ^ 64) (hm : m.fits L = true) :
    decodePage L (writeMetaPage L pagesize slot m s) pagesize slot =
      .ok { id := slot, overflow := 0, count := 0, body := .hdr m } := by
  have W := Layout.WFM.of L hL
  have pg1 := W.pg1; have pg2 := W.pg2; have pg3 := W.pg3; have pg4 := W.pg4
  simp only [MetaRec.fits, Bool.and_eq_true, decide_eq_true_eq, Bool.decide_and] at hm
  obtain ⟨f1, f2, f3, f4, f5, f6, f7, f8, f9, f10⟩ := hm
  have hsz : (writeMetaPage L pagesize slot m s).size = s.size := applyWrites_size _ _
  -- every write after the fill is what the page holds
  have H : ∀ w ∈ metaTailWrites L (slot * pagesize) slot m,
      (writeMetaPage L pagesize slot m s).HasAt w.1 w.2 := by
    intro w hw
    rw [writeMetaPage, metaPageWrites_eq, applyWrites_cons]
    exact applyWrites_hasAt _ _ (metaTailWrites_pairwise L W _ _ _) w hw
  -- the count and overflow fields keep the zeros of the fill
  have Z : ∀ o, L.pgCount ≤ o → o + 8 ≤ L.pgPtr →
      (writeMetaPage L pagesize slot m s).le (slot * pagesize + o) 8 = 0 := by
    intro o h1 h2
    rw [writeMetaPage, metaPageWrites_eq, applyWrites_cons]
    refine Src.HasAt.le_zero (((Src.hasAt_write_self s _ _).sub_zero o 8 (by omega)).applyWrites_disj _ ?_)
    intro w hw
    have := metaTailWrites_range L W _ _ _ w hw
    simp only [List.length_replicate]
    omega
  generalize writeMetaPage L pagesize slot m s = s' at hsz H Z ⊢
  simp only [metaTailWrites, metaWrites, List.cons_append, List.nil_append, List.forall_mem_cons,
    List.not_mem_nil, false_imp_iff, implies_true, and_true] at H
  obtain ⟨Hid, Hty, H1, H2, H3, H4, H5, H6, H7, H8, H9, H10⟩ := H
  refine decodePage_meta L s' pagesize slot m (by omega) ?hty ?hid ?hcount ?hov ?hm
  · rw [Hty.get1]; exact toUInt8_toNat_of_lt _ W.tm
  · exact Hid.le8 hslot
  · exact Z L.pgCount (Nat.le_refl _) (by omega)
  · exact Z L.pgOverflow (by omega) (by omega)
  · simp only [readMeta, H1.leN f1, H2.leN f2, H3.leN f3, H4.le8 f4, H5.le8 f5, H6.le8 f6, H7.le8 f7,
      H8.le8 f8, H9.le8 f9, H10.le8 f10]

theorem metaHash_seal (order : List MetaField) (m : MetaRec) :
    metaHash L order (MetaRec.seal L order m) = metaHash L order m := by
  have h : fieldBytes L (MetaRec.seal L order m) = fieldBytes L m := by
    funext f; cases f <;> rfl
  simp only [metaHash, metaHashInput, h]

/-- M2: a sealed record is valid (the checksum does not cover itself) -/
theorem seal_valid (order : List MetaField) (m : MetaRec) :
    metaValid L order (MetaRec.seal L order m) = true := by
  rw [metaValid, metaHash_seal]
  simp only [MetaRec.seal, beq_self_eq_true]

/-- M3: the header page writer touches only its own page -/
theorem writeMetaPage_frame (pagesize slot : Nat) (m : MetaRec) (s : Src) (i : Nat)
    (hL : L.WFMeta = true) (hrec : L.pgPtr + L.metaSize ≤ pagesize)
    (h : i < slot * pagesize ∨ slot * pagesize + pagesize ≤ i) :
    (writeMetaPage L pagesize slot m s).get i = s.get i ∧ (writeMetaPage L pagesize slot m s).size = s.size := by
  have W := Layout.WFM.of L hL
  refine ⟨?_, applyWrites_size _ _⟩
  rw [writeMetaPage, metaPageWrites_eq]
  apply applyWrites_get_out
  intro w hw
  rcases List.mem_cons.1 hw with rfl | hw
  · simp only [List.length_replicate]; omega
  · have := metaTailWrites_range L W _ _ _ w hw
    omega

/-- the header fields and the word array of a free-list page do not overlap -/
theorem freelistPageWrites_pairwise (W : L.WFM) (pagesize pid overflow : Nat) (ids : List Nat) :
    (freelistPageWrites L pagesize pid overflow ids).Pairwise WDisj := by
  have := W.pg1; have := W.pg2; have := W.pg3; have := W.pg4
  simp only [freelistPageWrites, headerWrites, List.cons_append, List.nil_append, List.pairwise_cons,
    List.forall_mem_cons, List.not_mem_nil, false_imp_iff, implies_true, List.Pairwise.nil, and_true,
    WDisj, leBytes_length, List.length_cons, List.length_nil]
  and_intros <;> omega

/-- M4: the free-list page decodes to exactly the list of page ids written -/
theorem decode_writeFreelistPage (hL : L.WFMeta = true) (pagesize pid overflow : Nat) (ids : List Nat) (s : Src)
    (hfile : pid * pagesize + (overflow + 1) * pagesize ≤ s.size)
    (hfit : L.pgPtr + 8 * ids.length ≤ (overflow + 1) * pagesize)
    (hhdr : L.pageSize ≤ pagesize)
    (hid : pid < 2 ^ 64) (hrun : (overflow + 1) * pagesize < 2 ^ 64)
    (hv : ∀ x ∈ ids, x < 2 ^ 64) :
    decodePage L (writeFreelistPage L pagesize pid overflow ids s) pagesize pid =
      .ok { id := pid, overflow := overflow, count := ids.length, body := .freelist ids } := by
  have W := Layout.WFM.of L hL
  have pg1 := W.pg1; have pg2 := W.pg2; have pg3 := W.pg3; have pg4 := W.pg4; have pg5 := W.pg5
  have hps : 0 < pagesize := by omega
  have hov : overflow + 1 ≤ (overflow + 1) * pagesize := Nat.le_mul_of_pos_right _ hps
  have hsz : (writeFreelistPage L pagesize pid overflow ids s).size = s.size := applyWrites_size _ _
  have H := applyWrites_hasAt _ s (freelistPageWrites_pairwise L W pagesize pid overflow ids)
  rw [← writeFreelistPage] at H
  generalize writeFreelistPage L pagesize pid overflow ids s = s' at hsz H ⊢
  simp only [freelistPageWrites, headerWrites, List.cons_append, List.nil_append, List.forall_mem_cons,
    List.not_mem_nil, false_imp_iff, implies_true, and_true] at H
  obtain ⟨Hid, Hty, Hcount, Hov, Hdata⟩ := H
  refine decodePage_freelist L W s' pagesize pid overflow ids.length ids (by omega) hhdr
    ?hty ?hid ?hcount ?hov hfit ?hids
  · rw [Hty.get1]; exact toUInt8_toNat_of_lt _ W.tf
  · exact Hid.le8 hid
  · exact Hcount.le8 (by omega)
  · exact Hov.le8 (by omega)
  · exact Src.words_eq ids _ Hdata hv

end
end Jamm
