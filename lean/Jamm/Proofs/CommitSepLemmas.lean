/-
Layer C proofs, part 2: the separator invariant is preserved by leaf edits inside a transaction and by
every step of `rebalance` (with the repaired right-merge: the survivor takes the absorbed node's key).

`put_wfs` as originally stated is FALSE (`put_wfs_false` below): `WFS` lets an off-spine branch have a
first key strictly above its routing lower bound, and a `put` into that gap lands in the branch's first
child, below the branch's first key.  The repaired `put_wfs'` adds the hypothesis `TightT lo t` (no such
gap: every off-spine branch's first key equals its routing lower bound) and also shows that tightness is
kept.  `del_wfs`, `rbStep_wfs`, `rebalance_wfs` hold exactly as stated (the uniform-depth hypothesis is
not even needed).
-/
import Jamm.Model.CommitInv
import Jamm.Proofs.TreeWF
import Jamm.Proofs.CommitSepBasic
import Jamm.Proofs.CommitSepDefs
set_option linter.unusedSectionVars false
set_option linter.unusedVariables false  -- the stated theorems carry hypotheses that turn out not to be needed
open Std

namespace Jamm

/-! ### the original S1 for `put` is false -/

namespace PutCounterexample

/-- root `[(0, leaf [0]), (10, branch [(20, leaf [20])])]`: the inner branch routes `[10, ∞)` but its
first key is 20 -/
def tree : Tree Nat Unit :=
  .branch 0 (.cons 0 (.leaf 0 [(0, ())]) (.cons 10 (.branch 0 (.cons 20 (.leaf 0 [(20, ())]) .nil)) .nil))

/-- … after `put 15` -/
def tree' : Tree Nat Unit :=
  .branch 0 (.cons 0 (.leaf 0 [(0, ())])
    (.cons 10 (.branch 0 (.cons 20 (.leaf 0 [(15, ()), (20, ())]) .nil)) .nil))

theorem put_eq : tree.put 15 () = tree' := by rfl

theorem tree_wfs : WFS none none tree := by
  refine WFS.branch _ _ _ _ _ _ trivial trivial ?_
  refine WFFS.cons _ _ _ _ _ _ _ (by decide) trivial trivial ?_ ?_
  · refine WFS.leaf _ _ _ _ trivial ?_
    intro e he
    simp only [List.mem_singleton] at he
    subst he
    exact ⟨trivial, (by decide : klt (0 : Nat) 10 = true)⟩
  · refine WFFS.last _ _ _ _ ?_
    refine WFS.branch _ _ _ _ _ _ (by decide : kle (10 : Nat) 20 = true) trivial ?_
    refine WFFS.last _ _ _ _ ?_
    refine WFS.leaf _ _ _ _ trivial ?_
    intro e he
    simp only [List.mem_singleton] at he
    subst he
    exact ⟨(by decide : kle (20 : Nat) 20 = true), trivial⟩

theorem tree'_not_wfs : ¬ WFS none none tree' := by
  intro h
  cases h with
  | branch _ _ _ _ _ _ _ _ hf =>
  cases hf with
  | cons _ _ _ _ _ _ _ _ _ _ _ hr =>
  cases hr with
  | last _ _ _ _ hB =>
  cases hB with
  | branch _ _ _ _ _ _ _ _ hf2 =>
  cases hf2 with
  | last _ _ _ _ hl =>
  cases hl with
  | leaf _ _ _ _ _ hb =>
    have h15 : kle (20 : Nat) 15 = true := (hb (15, ()) (by simp)).1
    revert h15
    decide

end PutCounterexample

/-- the statement of `put_wfs` as originally given fails, already at the root (`lo = hi = none`) -/
theorem put_wfs_false :
    ¬ (∀ (lo hi : Option Nat) (t : Tree Nat Unit), WFS lo hi t → ∀ (key : Nat) (e : Unit),
        inLo lo key → inHi hi key → WFS lo hi (t.put key e)) := by
  intro H
  have := H none none _ PutCounterexample.tree_wfs 15 () trivial trivial
  rw [PutCounterexample.put_eq] at this
  exact PutCounterexample.tree'_not_wfs this

variable {K E : Type} [Ord K] [TransOrd K] [LawfulEqOrd K] [DecidableEq K]

/-! ### S1 -/

theorem put_wfs_aux (key : K) (e : E) :
    (∀ (lo hi : Option K) (t : Tree K E), WFS lo hi t → TightT lo t → inLo lo key → inHi hi key →
      WFS lo hi (t.put key e) ∧ TightT lo (t.put key e)) ∧
    (∀ (lo hi : Option K) (k : K) (t : Tree K E) (rest : Forest K E), WFFS lo hi k t rest →
      TightF lo k t rest → inLo lo key → inHi hi key →
      ∃ t₁ rest₁, Forest.putAt key e (.cons k t rest) (indexOf (k :: rest.keys) key).1 = .cons k t₁ rest₁ ∧
        WFFS lo hi k t₁ rest₁ ∧ TightF lo k t₁ rest₁) := by
  apply wfsSep_induct
  · intro lo hi p es hs hb _ hlo hhi
    simp only [Tree.put]
    refine ⟨WFS.leaf _ _ _ _ (Spec.insert_sorted key e es hs) ?_, TightT.leaf _ _ _⟩
    intro x hx
    rcases Spec.mem_insert hx with rfl | hx
    · exact ⟨hlo, hhi⟩
    · exact hb x hx
  · intro lo hi p k t rest hklo hkhi _ ih ht hlo hhi
    cases ht with
    | branch _ _ _ _ _ htk htf =>
      have hlo' : inLo (sepLo lo k) key := by
        cases lo with
        | none => trivial
        | some l => exact kle_trans htk hlo
      obtain ⟨t₁, rest₁, heq, hwf, htf'⟩ := ih htf hlo' hhi
      simp only [Tree.put, Forest.keys]
      rw [heq]
      exact ⟨WFS.branch _ _ _ _ _ _ hklo hkhi hwf, TightT.branch _ _ _ _ _ htk htf'⟩
  · intro lo hi p _ _ _
    simp only [Tree.put, Forest.putAt]
    exact ⟨WFS.emptyBranch _ _ _, TightT.emptyBranch _ _⟩
  · intro lo hi k t _ ih ht hlo hhi
    cases ht with
    | last _ _ _ ht =>
      obtain ⟨hwf, htt⟩ := ih ht hlo hhi
      refine ⟨t.put key e, .nil, ?_, WFFS.last _ _ _ _ hwf, TightF.last _ _ _ htt⟩
      simp only [Forest.keys]
      rw [indexOf_single]
      simp only [Forest.putAt]
  · intro lo hi k t k' t' rest hk hlo' hhi' hwt hwr iht ihr ht hlo hhi
    cases ht with
    | cons _ _ _ _ _ _ htt htr =>
      simp only [Forest.keys]
      by_cases hkey : klt key k' = true
      · obtain ⟨hwf, htt'⟩ := iht htt hlo hkey
        refine ⟨t.put key e, .cons k' t' rest, ?_, WFFS.cons _ _ _ _ _ _ _ hk hlo' hhi' hwf hwr,
          TightF.cons _ _ _ _ _ _ htt' htr⟩
        rw [indexOf_cons_cons_lt k k' _ key hkey]
        simp only [Forest.putAt]
      · have hkey' : klt key k' = false := by simpa using hkey
        obtain ⟨t₁, rest₁, heq, hwf, htr'⟩ := ihr htr (kle_of_not_klt hkey') hhi
        refine ⟨t, .cons k' t₁ rest₁, ?_, WFFS.cons _ _ _ _ _ _ _ hk hlo' hhi' hwt hwf,
          TightF.cons _ _ _ _ _ _ htt htr'⟩
        rw [indexOf_cons_cons_ge k k' _ key hk hkey']
        simp only [Forest.putAt]
        rw [heq]

/-- S1 for `put`, repaired: `put_wfs` with the extra hypothesis `ht : TightT lo t` (and the extra
conclusion that tightness is kept).  Without `ht` the statement is false: `put_wfs_false`. -/
theorem put_wfs' (lo hi : Option K) (t : Tree K E) (h : WFS lo hi t) (ht : TightT lo t) (key : K) (e : E)
    (hlo : inLo lo key) (hhi : inHi hi key) : WFS lo hi (t.put key e) ∧ TightT lo (t.put key e) :=
  (put_wfs_aux key e).1 lo hi t h ht hlo hhi

theorem del_wfs_aux (key : K) :
    (∀ (lo hi : Option K) (t : Tree K E), WFS lo hi t →
      WFS lo hi (t.del key) ∧ (TightT lo t → TightT lo (t.del key))) ∧
    (∀ (lo hi : Option K) (k : K) (t : Tree K E) (rest : Forest K E), WFFS lo hi k t rest →
      ∀ i, ∃ t₁ rest₁, Forest.delAt key (.cons k t rest) i = .cons k t₁ rest₁ ∧
        WFFS lo hi k t₁ rest₁ ∧ (TightF lo k t rest → TightF lo k t₁ rest₁)) := by
  apply wfsSep_induct
  · intro lo hi p es hs hb
    simp only [Tree.del]
    refine ⟨WFS.leaf _ _ _ _ (Spec.erase_sorted key es hs) ?_, fun _ => TightT.leaf _ _ _⟩
    intro x hx
    exact hb x (Spec.mem_erase hx)
  · intro lo hi p k t rest hklo hkhi _ ih
    obtain ⟨t₁, rest₁, heq, hwf, htf'⟩ := ih (indexOf (Forest.keys (.cons k t rest)) key).1
    simp only [Tree.del]
    rw [heq]
    refine ⟨WFS.branch _ _ _ _ _ _ hklo hkhi hwf, ?_⟩
    intro ht
    cases ht with
    | branch _ _ _ _ _ htk htf => exact TightT.branch _ _ _ _ _ htk (htf' htf)
  · intro lo hi p
    simp only [Tree.del, Forest.delAt]
    exact ⟨WFS.emptyBranch _ _ _, fun _ => TightT.emptyBranch _ _⟩
  · intro lo hi k t _ ih i
    cases i with
    | zero =>
      refine ⟨t.del key, .nil, by simp only [Forest.delAt], WFFS.last _ _ _ _ ih.1, ?_⟩
      intro ht
      cases ht with
      | last _ _ _ ht => exact TightF.last _ _ _ (ih.2 ht)
    | succ j =>
      exact ⟨t, .nil, by simp only [Forest.delAt], WFFS.last _ _ _ _ (by assumption), id⟩
  · intro lo hi k t k' t' rest hk hlo' hhi' hwt hwr iht ihr i
    cases i with
    | zero =>
      refine ⟨t.del key, .cons k' t' rest, by simp only [Forest.delAt],
        WFFS.cons _ _ _ _ _ _ _ hk hlo' hhi' iht.1 hwr, ?_⟩
      intro ht
      cases ht with
      | cons _ _ _ _ _ _ htt htr => exact TightF.cons _ _ _ _ _ _ (iht.2 htt) htr
    | succ j =>
      obtain ⟨t₁, rest₁, heq, hwf, htr'⟩ := ihr j
      refine ⟨t, .cons k' t₁ rest₁, by simp only [Forest.delAt]; rw [heq],
        WFFS.cons _ _ _ _ _ _ _ hk hlo' hhi' hwt hwf, ?_⟩
      intro ht
      cases ht with
      | cons _ _ _ _ _ _ htt htr => exact TightF.cons _ _ _ _ _ _ htt (htr' htr)

/-- S1: leaf edits keep the separator invariant (branch entries are never edited before commit) -/
theorem del_wfs (lo hi : Option K) (t : Tree K E) (h : WFS lo hi t) (key : K)
    (hlo : inLo lo key) (hhi : inHi hi key) : WFS lo hi (t.del key) :=
  ((del_wfs_aux key).1 lo hi t h).1

/-- `del` also keeps tightness (so a sequence of `put`/`del` can be chained through `put_wfs'`) -/
theorem del_wfs' (lo hi : Option K) (t : Tree K E) (h : WFS lo hi t) (ht : TightT lo t) (key : K)
    (hlo : inLo lo key) (hhi : inHi hi key) : WFS lo hi (t.del key) ∧ TightT lo (t.del key) :=
  ⟨((del_wfs_aux key).1 lo hi t h).1, ((del_wfs_aux key).1 lo hi t h).2 ht⟩

/-- S2 without the uniform-depth hypothesis (which is not needed) -/
theorem rbStep_wfs_core {t : Tree K E} (h : WFS none none t) (s : RbStep) : WFS none none (t.rbStep s) := by
  cases s with
  | merge parent i => exact atBranch_mergeChild_wfs h parent i
  | collapse =>
    cases h with
    | leaf _ _ _ _ hs hb => exact WFS.leaf _ _ _ _ hs hb
    | emptyBranch => exact WFS.emptyBranch _ _ _
    | branch _ _ _ k c rest hlo hhi hf =>
      cases hf with
      | last _ _ _ _ hc => exact hc
      | cons _ _ _ _ _ _ _ hk hlo' hhi' hc hr =>
        exact WFS.branch _ _ _ _ _ _ hlo hhi (WFFS.cons _ _ _ _ _ _ _ hk hlo' hhi' hc hr)
  | emptyRoot =>
    cases h with
    | leaf _ _ _ _ hs hb => exact WFS.leaf _ _ _ _ hs hb
    | emptyBranch => exact WFS.leaf _ _ _ _ trivial (fun _ he => absurd he List.not_mem_nil)
    | branch _ _ _ k c rest hlo hhi hf => exact WFS.branch _ _ _ _ _ _ hlo hhi hf

theorem rebalance_wfs_core : ∀ (steps : List RbStep) (t : Tree K E), WFS none none t →
    WFS none none (t.rebalance steps)
  | [], _, h => h
  | s :: rest, t, h => by
    show WFS none none (List.foldl Tree.rbStep t (s :: rest))
    rw [List.foldl_cons]
    exact rebalance_wfs_core rest _ (rbStep_wfs_core h s)

/-- S2: every reported step of `rebalance` keeps the separator invariant -/
theorem rbStep_wfs (t : Tree K E) (h : WFS none none t) (d : Nat) (hu : UniformT d t) (s : RbStep) :
    WFS none none (t.rbStep s) :=
  rbStep_wfs_core h s

/-- S3: hence any sequence of steps does -/
theorem rebalance_wfs (t : Tree K E) (h : WFS none none t) (d : Nat) (hu : UniformT d t) (steps : List RbStep) :
    WFS none none (t.rebalance steps) :=
  rebalance_wfs_core steps t h

end Jamm
