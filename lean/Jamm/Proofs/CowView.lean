/-
Copy-on-write writing of a whole database (every bucket at every nesting depth): only the nodes on fresh pages are
written (`writeFreshView`), the others are shared with the previous commit (`SharedV`).  The result stores the whole
view (`StoredV`) and no byte outside the fresh runs changes: the two premises of the byte-level commit theorems, for
commits that share any subset of their pages with the previous state.  Mirrors `Proofs/EncodeViewLemmas.lean`.
-/
import Jamm.Proofs.CowTree
import Jamm.Proofs.EncodeViewLemmas
namespace Jamm

section
variable (L : Layout) (pagesize : Nat)

/-- write the fresh nodes of the bucket's own tree, then those of the buckets below it -/
def writeFreshView (fresh : Nat → Bool) (ov : Nat → Nat) (v : BucketView) (s : Src) : Src :=
  v.subs.attach.foldl (fun acc x => writeFreshView fresh ov x.1.2 acc) (writeFreshT L pagesize fresh ov v.tree s)
termination_by sizeOf v
decreasing_by
  have hs := x.2
  have h1 : sizeOf x.1 < sizeOf v.subs := List.sizeOf_lt_of_mem hs
  have h2 : sizeOf x.1.snd < sizeOf x.1 := by
    obtain ⟨⟨k, w⟩, _⟩ := x
    simp only [Prod.mk.sizeOf_spec]
    omega
  have h3 : sizeOf v.subs < sizeOf v := by
    obtain ⟨t, n, ss⟩ := v
    simp only [BucketView.mk.sizeOf_spec]
    omega
  omega

/-- the runs of the nodes that are written, over every bucket of the view -/
def BucketView.freshRuns (fresh : Nat → Bool) (ov : Nat → Nat) (v : BucketView) : List (Nat × Nat) :=
  freshRunsT fresh ov v.tree ++ v.subs.flatMap (fun s => s.2.freshRuns fresh ov)
termination_by sizeOf v
decreasing_by
  rename_i hs
  have h1 : sizeOf s < sizeOf v.subs := List.sizeOf_lt_of_mem hs
  have h2 : sizeOf s.snd < sizeOf s := by
    obtain ⟨k, w⟩ := s
    simp only [Prod.mk.sizeOf_spec]
    omega
  have h3 : sizeOf v.subs < sizeOf v := by
    obtain ⟨t, n, ss⟩ := v
    simp only [BucketView.mk.sizeOf_spec]
    omega
  omega

/-- the nodes of every bucket that are NOT rewritten decode from their own pages -/
inductive SharedV (fresh : Nat → Bool) (ov : Nat → Nat) (s : Src) : BucketView → Prop where
  | mk (v : BucketView) : SharedT L pagesize fresh ov s v.tree → (∀ x ∈ v.subs, SharedV fresh ov s x.2) →
      SharedV fresh ov s v

/-! ### unfolding equations -/

theorem writeFreshView_eq (fresh : Nat → Bool) (ov : Nat → Nat) (v : BucketView) (s : Src) :
    writeFreshView L pagesize fresh ov v s =
      v.subs.foldl (fun acc x => writeFreshView L pagesize fresh ov x.2 acc)
        (writeFreshT L pagesize fresh ov v.tree s) := by
  rw [writeFreshView]
  exact List.foldl_attach (f := fun acc (x : Bytes × BucketView) => writeFreshView L pagesize fresh ov x.2 acc)

theorem BucketView.freshRuns_eq (fresh : Nat → Bool) (ov : Nat → Nat) (v : BucketView) :
    v.freshRuns fresh ov = freshRunsT fresh ov v.tree ++ v.subs.flatMap (fun s => s.2.freshRuns fresh ov) := by
  rw [BucketView.freshRuns]

/-- writing the fresh nodes of the nested buckets of a list, left to right -/
def writeFreshSubs (fresh : Nat → Bool) (ov : Nat → Nat) (l : List (Bytes × BucketView)) (s : Src) : Src :=
  l.foldl (fun acc x => writeFreshView L pagesize fresh ov x.2 acc) s

theorem writeFreshSubs_nil (fresh : Nat → Bool) (ov : Nat → Nat) (s : Src) :
    writeFreshSubs L pagesize fresh ov [] s = s := rfl

theorem writeFreshSubs_cons (fresh : Nat → Bool) (ov : Nat → Nat) (x : Bytes × BucketView)
    (l : List (Bytes × BucketView)) (s : Src) :
    writeFreshSubs L pagesize fresh ov (x :: l) s =
      writeFreshSubs L pagesize fresh ov l (writeFreshView L pagesize fresh ov x.2 s) := rfl

theorem writeFreshView_eq' (fresh : Nat → Bool) (ov : Nat → Nat) (v : BucketView) (s : Src) :
    writeFreshView L pagesize fresh ov v s =
      writeFreshSubs L pagesize fresh ov v.subs (writeFreshT L pagesize fresh ov v.tree s) :=
  writeFreshView_eq L pagesize fresh ov v s

theorem SharedV.tree {fresh : Nat → Bool} {ov : Nat → Nat} {s : Src} {v : BucketView}
    (h : SharedV L pagesize fresh ov s v) : SharedT L pagesize fresh ov s v.tree := by
  cases h with | mk _ h1 h2 => exact h1

theorem SharedV.subs {fresh : Nat → Bool} {ov : Nat → Nat} {s : Src} {v : BucketView}
    (h : SharedV L pagesize fresh ov s v) : ∀ x ∈ v.subs, SharedV L pagesize fresh ov s x.2 := by
  cases h with | mk _ h1 h2 => exact h2

/-! ### size and frame -/

theorem writeFreshSubs_size (fresh : Nat → Bool) (ov : Nat → Nat) : ∀ (l : List (Bytes × BucketView)),
    (∀ x ∈ l, ∀ s, (writeFreshView L pagesize fresh ov x.2 s).size = s.size) →
    ∀ s, (writeFreshSubs L pagesize fresh ov l s).size = s.size
  | [], _, s => rfl
  | x :: l, h, s => by
    rw [writeFreshSubs_cons, writeFreshSubs_size fresh ov l (fun y hy => h y (List.mem_cons_of_mem _ hy)),
      h x List.mem_cons_self]

theorem writeFreshView_size (fresh : Nat → Bool) (ov : Nat → Nat) (v : BucketView) :
    ∀ s, (writeFreshView L pagesize fresh ov v s).size = s.size := by
  induction v using BucketView.ind with
  | _ v ih =>
    intro s
    rw [writeFreshView_eq', writeFreshSubs_size L pagesize fresh ov v.subs ih, writeFreshT_size]

theorem writeFreshSubs_size' (fresh : Nat → Bool) (ov : Nat → Nat) (l : List (Bytes × BucketView)) (s : Src) :
    (writeFreshSubs L pagesize fresh ov l s).size = s.size :=
  writeFreshSubs_size L pagesize fresh ov l (fun x _ => writeFreshView_size L pagesize fresh ov x.2) s

/-- the fresh runs of a view are among all its runs -/
theorem BucketView.freshRuns_sub (fresh : Nat → Bool) (ov : Nat → Nat) (v : BucketView) :
    ∀ r ∈ v.freshRuns fresh ov, r ∈ v.allRuns ov := by
  induction v using BucketView.ind with
  | _ v ih =>
    intro r hr
    rw [BucketView.freshRuns_eq] at hr
    rw [BucketView.allRuns_eq]
    rcases List.mem_append.1 hr with h | h
    · exact List.mem_append_left _ (freshRunsT_sub fresh ov v.tree r h)
    · obtain ⟨x, hx, hr'⟩ := List.mem_flatMap.1 h
      exact List.mem_append_right _ (List.mem_flatMap.2 ⟨x, hx, ih x hx r hr'⟩)

theorem flatMap_freshRuns_sub (fresh : Nat → Bool) (ov : Nat → Nat) (l : List (Bytes × BucketView)) :
    ∀ r ∈ l.flatMap (fun x => x.2.freshRuns fresh ov), r ∈ l.flatMap (fun x => x.2.allRuns ov) := by
  intro r hr
  obtain ⟨x, hx, hr'⟩ := List.mem_flatMap.1 hr
  exact List.mem_flatMap.2 ⟨x, hx, BucketView.freshRuns_sub fresh ov x.2 r hr'⟩

theorem writeFreshSubs_get (fresh : Nat → Bool) (ov : Nat → Nat) (sz : Nat) (i : Nat) :
    ∀ (l : List (Bytes × BucketView)),
    (∀ x ∈ l, ∀ s, x.2.fits L pagesize ov sz → RunOut pagesize (x.2.freshRuns fresh ov) i →
      (writeFreshView L pagesize fresh ov x.2 s).get i = s.get i) →
    (∀ x ∈ l, x.2.fits L pagesize ov sz) →
    RunOut pagesize (l.flatMap (fun x => x.2.freshRuns fresh ov)) i →
    ∀ s, (writeFreshSubs L pagesize fresh ov l s).get i = s.get i
  | [], _, _, _, s => rfl
  | x :: l, h, hfit, hout, s => by
    rw [writeFreshSubs_cons, writeFreshSubs_get fresh ov sz i l (fun y hy => h y (List.mem_cons_of_mem _ hy))
      (fun y hy => hfit y (List.mem_cons_of_mem _ hy))
      (fun r hr => hout r (by rw [List.flatMap_cons]; exact List.mem_append_right _ hr)),
      h x List.mem_cons_self s (hfit x List.mem_cons_self)
        (fun r hr => hout r (by rw [List.flatMap_cons]; exact List.mem_append_left _ hr))]

/-- the copy-on-write writer of a view changes no byte outside the runs of its fresh nodes -/
theorem writeFreshView_get (hL : L.WFEnc = true) (fresh : Nat → Bool) (ov : Nat → Nat) (sz : Nat) (i : Nat)
    (v : BucketView) :
    ∀ s, v.fits L pagesize ov sz → RunOut pagesize (v.freshRuns fresh ov) i →
      (writeFreshView L pagesize fresh ov v s).get i = s.get i := by
  induction v using BucketView.ind with
  | _ v ih =>
    intro s hfit hout
    rw [BucketView.fits_eq] at hfit
    rw [BucketView.freshRuns_eq] at hout
    rw [writeFreshView_eq', writeFreshSubs_get L pagesize fresh ov sz i v.subs ih hfit.2
      (fun r hr => hout r (List.mem_append_right _ hr)),
      writeFreshT_get L pagesize hL fresh ov sz v.tree s i hfit.1
        (fun r hr => hout r (List.mem_append_left _ hr))]

theorem writeFreshSubs_get' (hL : L.WFEnc = true) (fresh : Nat → Bool) (ov : Nat → Nat) (sz : Nat) (i : Nat)
    (l : List (Bytes × BucketView)) (hfit : ∀ x ∈ l, x.2.fits L pagesize ov sz)
    (hout : RunOut pagesize (l.flatMap (fun x => x.2.freshRuns fresh ov)) i) (s : Src) :
    (writeFreshSubs L pagesize fresh ov l s).get i = s.get i :=
  writeFreshSubs_get L pagesize fresh ov sz i l (fun x _ => writeFreshView_get L pagesize hL fresh ov sz i x.2)
    hfit hout s

/-- `SharedV` only depends on the bytes of the runs of the view (and the file size) -/
theorem SharedV.agree (W : L.WF) (hhdr : L.pageSize ≤ pagesize) (fresh : Nat → Bool) (ov : Nat → Nat) (s : Src)
    (v : BucketView) :
    ∀ s' : Src, s'.size = s.size → SharedV L pagesize fresh ov s v →
    (∀ r ∈ v.allRuns ov, Src.AgreeOn s s' (r.1 * pagesize) ((r.1 + r.2 + 1) * pagesize)) →
    SharedV L pagesize fresh ov s' v := by
  induction v using BucketView.ind with
  | _ v ih =>
    intro s' hsz h hag
    rw [BucketView.allRuns_eq] at hag
    refine SharedV.mk v ?_ ?_
    · exact SharedT.agree L pagesize W hhdr fresh ov s s' hsz v.tree (h.tree L pagesize)
        (fun r hr => hag r (List.mem_append_left _ hr))
    · intro x hx
      exact ih x hx s' hsz (h.subs L pagesize x hx)
        (fun r hr => hag r (List.mem_append_right _ (List.mem_flatMap.2 ⟨x, hx, hr⟩)))

/-- the nested buckets of a list, their fresh nodes written left to right, are all stored afterwards -/
theorem writeFreshSubs_stored (hL : L.WFEnc = true) (hhdr : L.pageSize ≤ pagesize) (fresh : Nat → Bool)
    (ov : Nat → Nat) (sz : Nat) :
    ∀ (l : List (Bytes × BucketView)),
    (∀ x ∈ l, ∀ s : Src, s.size = sz → x.2.fits L pagesize ov sz → (x.2.allRuns ov).Pairwise runsDisjoint →
      SharedV L pagesize fresh ov s x.2 →
      StoredV L pagesize ov (writeFreshView L pagesize fresh ov x.2 s) x.2) →
    (∀ x ∈ l, x.2.fits L pagesize ov sz) →
    (l.flatMap (fun x => x.2.allRuns ov)).Pairwise runsDisjoint →
    ∀ s : Src, s.size = sz → (∀ x ∈ l, SharedV L pagesize fresh ov s x.2) →
      ∀ x ∈ l, StoredV L pagesize ov (writeFreshSubs L pagesize fresh ov l s) x.2
  | [], _, _, _, _, _, _, x, hx => by cases hx
  | y :: l, h, hfit, hdisj, s, hs, hsh, x, hx => by
    rw [List.flatMap_cons, List.pairwise_append] at hdisj
    obtain ⟨hA, hB, hC⟩ := hdisj
    rw [writeFreshSubs_cons]
    have W := Layout.WF.of L hL
    have hfl : ∀ z ∈ l, z.2.fits L pagesize ov sz := fun z hz => hfit z (List.mem_cons_of_mem _ hz)
    have hs1 : (writeFreshView L pagesize fresh ov y.2 s).size = sz := by rw [writeFreshView_size]; exact hs
    rcases List.mem_cons.1 hx with hx | hx
    · subst hx
      have h1 := h x List.mem_cons_self s hs (hfit x List.mem_cons_self) hA (hsh x List.mem_cons_self)
      refine StoredV.agree L pagesize W hhdr ov _ x.2 _ (writeFreshSubs_size' L pagesize fresh ov l _) h1 ?_
      intro r hr i i1 i2
      exact writeFreshSubs_get' L pagesize hL fresh ov sz i l hfl
        (fun r' hr' => runsDisjoint_out pagesize (hC r hr r' (flatMap_freshRuns_sub fresh ov l r' hr')) i i1 i2) _
    · refine writeFreshSubs_stored hL hhdr fresh ov sz l (fun z hz => h z (List.mem_cons_of_mem _ hz)) hfl hB _ hs1
        ?_ x hx
      intro z hz
      refine SharedV.agree L pagesize W hhdr fresh ov s z.2 _ (writeFreshView_size L pagesize fresh ov y.2 s)
        (hsh z (List.mem_cons_of_mem _ hz)) ?_
      intro r hr i i1 i2
      exact writeFreshView_get L pagesize hL fresh ov sz i y.2 s (hfit y List.mem_cons_self)
        (fun r' hr' => runsDisjoint_out pagesize
          (runsDisjoint_symm (hC r' (BucketView.freshRuns_sub fresh ov y.2 r' hr') r
            (List.mem_flatMap.2 ⟨z, hz, hr⟩))) i i1 i2)

/-- COPY-ON-WRITE STORES THE WHOLE DATABASE: after writing only the fresh nodes of every bucket, every node of every
bucket — rewritten or shared — decodes from its own page, provided the shared ones did before, every node fits its
run and all runs of the view are pairwise disjoint -/
theorem writeFreshView_stored (hL : L.WFEnc = true) (hhdr : L.pageSize ≤ pagesize) (fresh : Nat → Bool)
    (ov : Nat → Nat) (sz : Nat) (v : BucketView) :
    ∀ s : Src, s.size = sz → v.fits L pagesize ov sz → (v.allRuns ov).Pairwise runsDisjoint →
      SharedV L pagesize fresh ov s v →
      StoredV L pagesize ov (writeFreshView L pagesize fresh ov v s) v := by
  induction v using BucketView.ind with
  | _ v ih =>
    intro s hs hfit hdisj hsh
    rw [BucketView.fits_eq] at hfit
    rw [BucketView.allRuns_eq, List.pairwise_append] at hdisj
    obtain ⟨hA, hB, hC⟩ := hdisj
    rw [writeFreshView_eq']
    have W := Layout.WF.of L hL
    have h1 := writeFreshT_stored L pagesize hL hhdr fresh ov sz v.tree s hs hfit.1 hA (hsh.tree L pagesize)
    have hs1 : (writeFreshT L pagesize fresh ov v.tree s).size = sz := by rw [writeFreshT_size]; exact hs
    refine StoredV.mk v ?_ ?_
    · refine StoredT.agree L pagesize W hhdr ov _ _ (writeFreshSubs_size' L pagesize fresh ov v.subs _)
        v.tree h1 ?_
      intro r hr i i1 i2
      exact writeFreshSubs_get' L pagesize hL fresh ov sz i v.subs hfit.2
        (fun r' hr' => runsDisjoint_out pagesize
          (hC r hr r' (flatMap_freshRuns_sub fresh ov v.subs r' hr')) i i1 i2) _
    · refine writeFreshSubs_stored L pagesize hL hhdr fresh ov sz v.subs ih hfit.2 hB _ hs1 ?_
      intro x hx
      refine SharedV.agree L pagesize W hhdr fresh ov s x.2 _ (writeFreshT_size L pagesize fresh ov v.tree s)
        (hsh.subs L pagesize x hx) ?_
      intro r hr i i1 i2
      exact writeFreshT_get L pagesize hL fresh ov sz v.tree s i hfit.1
        (fun r' hr' => runsDisjoint_out pagesize
          (runsDisjoint_symm (hC r' (freshRunsT_sub fresh ov v.tree r' hr') r
            (List.mem_flatMap.2 ⟨x, hx, hr⟩))) i i1 i2)

end
end Jamm
