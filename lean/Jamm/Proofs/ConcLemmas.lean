/-
Layer P (threads), part 1 proofs: snapshot isolation for every interleaving of the split events,
given that a reader's begin is atomic.
-/
import Jamm.Model.Conc
import Jamm.Proofs.FreelistLemmas
import Jamm.Proofs.ConcInv
set_option linter.unusedSectionVars false
set_option linter.unusedVariables false

namespace Jamm

/-- T1: along every trace that uses the atomic reader begin, the accounting invariant holds -/
theorem inv2_run (s : Sys2) (evs : List Ev2) (s' : Sys2) (hi : s.base.invB = true)
    (hw : s.writer = none) (hch : s.choosing = []) (hat : evs.all Ev2.atomic = true)
    (h : s.run evs = some s') : s'.base.invB = true := by
  exact (invB_iff _).2 (Sys2.inv2_run_aux (Sys2.inv_of_init hi hw hch) evs s' hat h).base

/-- T2 (C04): along every such trace, whenever the open writer commits, no page of any registered
reader's snapshot is free or written — however readers registered and left between the writer's begin
and its commit -/
theorem readers_safe_run (s : Sys2) (evs : List Ev2) (s' : Sys2) (hi : s.base.invB = true)
    (hw : s.writer = none) (hch : s.choosing = []) (hat : evs.all Ev2.atomic = true)
    (h : s.run evs = some s') (w : WriterTx) (hen : s'.enabledB (.commitW w) = true) :
    s'.readersSafeB w = true := by
  obtain ⟨hb, _, hwr⟩ := Sys2.inv2_run_aux (Sys2.inv_of_init hi hw hch) evs s' hat h
  simp only [Sys2.enabledB, Bool.and_eq_true] at hen
  unfold Sys2.readersSafeB
  rw [List.all_eq_true]
  intro r hr
  rw [Bool.and_eq_true]
  refine ⟨reader_pages_not_free s'.base ((invB_iff _).2 hb) r hr, ?_⟩
  rcases hwr with hn | ⟨B, h1, h2, h3⟩
  · rw [hn] at hen; simp at hen
  · rw [disjointB_iff]
    simp only [Sys2.writes, h1]
    exact reader_pages_not_written_gen hb B h2 h3 w r hr

/-- T3: at most one write transaction is open, and a writer that begins starts from the newest
committed snapshot (its transaction id is the successor of the current one) -/
theorem writer_starts_from_newest (s : Sys2) (h : s.enabledB .beginW = true) :
    ((s.step .beginW).writer.map (·.txId)) = some (s.cur.txId + 1) ∧ (s.step .beginW).enabledB .beginW = false := by
  exact ⟨rfl, rfl⟩

def d10Init : Sys2 := { cur := { txId := 0, reach := [2, 3] }, shared := {}, readers := [], numPages := 4 }
def d10Trace : List Ev2 :=
  [.readHeaderR, .beginW, .commitW { freed := [3], requests := [1] }, .beginW, .commitW { freed := [2], requests := [1, 1] }, .registerR 0]

/-- T4 (the defect of the pinned release, D10): with the header read and the registration as two
steps, the second of two commits in between writes a page of the snapshot the reader has chosen -/
theorem nonatomic_begin_unsafe :
    ((d10Init.run (d10Trace.take 4)).map (fun s =>
      (s.choosing.map (·.reach), s.writes { freed := [2], requests := [1, 1] }))) = some ([[2, 3]], [3, 5]) := by
  decide

end Jamm
