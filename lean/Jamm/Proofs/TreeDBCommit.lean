/-
Layer T/API ← Layer C: `commitWith` instantiated with the commit model.  With the tree invariant
(`TreeInv`: separators, tightness, uniform depth) on every bucket, the commit of the whole database —
every bucket rewritten by `commitTree`, for any reported `rebalance` steps and any touched keys — is invisible
in the specification and keeps the invariant; so does every write operation of the API layer.
-/
import Jamm.Model.TreeDBCommit
import Jamm.Proofs.CommitCompose
import Jamm.Proofs.TreeDBLemmas
set_option linter.unusedSectionVars false
open Std

namespace Jamm.TDB
open Jamm.Spec (Err Item Path)

section
variable {K V : Type} [Ord K] [TransOrd K] [LawfulEqOrd K] [DecidableEq K]

/-- every bucket's tree has the tree invariant -/
def AllInv (db : DB K V) : Prop := ∀ e ∈ db, TreeInv e.2.tree

/-! ### the association-list operations keep any predicate on the trees -/

theorem getBucket_all {P : Tree K (Item V) → Prop} {db : DB K V} (hw : ∀ e ∈ db, P e.2.tree)
    {p : Path K} {b : TBucket K V} (h : getBucket db p = some b) : P b.tree := by
  obtain ⟨e, he, rfl⟩ := getBucket_mem h
  exact hw e he

theorem setBucket_all {P : Tree K (Item V) → Prop} {db : DB K V} (hw : ∀ e ∈ db, P e.2.tree)
    (p : Path K) (b : TBucket K V) (hb : P b.tree) : ∀ e ∈ setBucket db p b, P e.2.tree := by
  unfold setBucket
  split
  · intro e he
    rw [List.mem_map] at he
    obtain ⟨e', he', rfl⟩ := he
    split
    · exact hb
    · exact hw e' he'
  · intro e he
    rw [List.mem_append, List.mem_singleton] at he
    cases he with
    | inl h => exact hw e h
    | inr h => subst h; exact hb

theorem removeTree_all {P : Tree K (Item V) → Prop} {db : DB K V} (hw : ∀ e ∈ db, P e.2.tree)
    (p : Path K) : ∀ e ∈ removeTree db p, P e.2.tree := by
  intro e he
  exact hw e (List.mem_filter.mp he).1

theorem getBucket_inv {db : DB K V} (hw : AllInv db) {p : Path K} {b : TBucket K V}
    (h : getBucket db p = some b) : TreeInv b.tree :=
  getBucket_all (P := fun t => TreeInv t) hw h

theorem setBucket_inv {db : DB K V} (hw : AllInv db) (p : Path K) (b : TBucket K V)
    (hb : TreeInv b.tree) : AllInv (setBucket db p b) :=
  setBucket_all (P := fun t => TreeInv t) hw p b hb

theorem removeTree_inv {db : DB K V} (hw : AllInv db) (p : Path K) : AllInv (removeTree db p) :=
  removeTree_all (P := fun t => TreeInv t) hw p

/-- the root leaf of a new bucket has the invariant -/
theorem newTree_inv : TreeInv (newTree : Tree K (Item V)) :=
  ⟨WFS.leaf none none 0 [] trivial (by intro e he; cases he), TightT.leaf none 0 [], 0, UniformT.leaf 0 []⟩

theorem put_inv' {t : Tree K (Item V)} (h : TreeInv t) (k : K) (i : Item V) : TreeInv (t.put k i) :=
  applyOp_inv t h (.put k i)

theorem del_inv' {t : Tree K (Item V)} (h : TreeInv t) (k : K) : TreeInv (t.del k) :=
  applyOp_inv t h (.del k)

/-! ### B3: the write operations keep the invariant on every bucket -/

theorem put_allInv (db : DB K V) (h : AllInv db) (p : Path K) (k : K) (v : V) : AllInv (put db p k v).2 := by
  unfold put
  cases hb : getBucket db p with
  | none => exact h
  | some b =>
    have hib := getBucket_inv h hb
    simp only
    cases find b.tree k with
    | none => exact setBucket_inv h _ _ (put_inv' hib k _)
    | some i =>
      cases i with
      | bkt => exact h
      | val old => exact setBucket_inv h _ _ (put_inv' hib k _)

theorem delete_allInv (db : DB K V) (h : AllInv db) (p : Path K) (k : K) : AllInv (delete db p k).2 := by
  unfold delete
  cases hb : getBucket db p with
  | none => exact h
  | some b =>
    have hib := getBucket_inv h hb
    simp only
    cases find b.tree k with
    | none => exact h
    | some i =>
      cases i with
      | bkt => exact h
      | val v => exact setBucket_inv h _ _ (del_inv' hib k)

theorem bucketGetter_allInv (db : DB K V) (h : AllInv db) (p : Path K) (name : K) (s m : Bool) :
    AllInv (bucketGetter db p name s m).2 := by
  unfold bucketGetter
  cases hb : getBucket db p with
  | none => exact h
  | some b =>
    have hib := getBucket_inv h hb
    simp only
    cases find b.tree name with
    | none =>
      cases s with
      | false => exact h
      | true =>
        simp only [if_true]
        exact setBucket_inv (setBucket_inv h _ _ (put_inv' hib name _)) _ _ newTree_inv
    | some i =>
      cases i with
      | bkt => cases m <;> exact h
      | val v => exact h

theorem deleteBucket_allInv (db : DB K V) (h : AllInv db) (p : Path K) (name : K) :
    AllInv (deleteBucket db p name).2 := by
  unfold deleteBucket
  cases hb : getBucket db p with
  | none => exact h
  | some b =>
    have hib := getBucket_inv h hb
    simp only
    cases find b.tree name with
    | none => exact h
    | some i =>
      cases i with
      | val v => exact h
      | bkt => exact setBucket_inv (removeTree_inv h _) _ _ (del_inv' hib name)

/-- B3: every write operation of a transaction keeps the tree invariant on every bucket -/
theorem allInv_applyOp (db : DB K V) (h : AllInv db) (op : Op K V) : AllInv (applyOp db op) := by
  cases op with
  | put p k v => exact put_allInv db h p k v
  | delete p k => exact delete_allInv db h p k
  | getter p n s m => exact bucketGetter_allInv db h p n s m
  | deleteBucket p n => exact deleteBucket_allInv db h p n

theorem allInv_applyOps (db : DB K V) (h : AllInv db) (ops : List (Op K V)) : AllInv (ops.foldl applyOp db) := by
  induction ops generalizing db with
  | nil => exact h
  | cons op rest ih => exact ih _ (allInv_applyOp db h op)

/-- B4: the invariant and "no childless branch" give well-formedness, the hypothesis of the refinement
theorems of the API layer (`TreeDBLemmas.lean`) -/
theorem allInv_allWF_of_neb (db : DB K V) (h : AllInv db) (hne : ∀ e ∈ db, nebT e.2.tree = true) :
    AllWF db := by
  intro e he
  exact wfs_wf none none _ (h e he).sep (hne e he)

/-- the database a file starts as (one root bucket with an empty leaf) has the invariant -/
theorem allInv_empty : AllInv ([([], { nextInt := 0, tree := newTree })] : DB K V) := by
  intro e he
  rw [List.mem_singleton] at he
  subst he
  exact newTree_inv

end

/-! ### the commit of the database by the commit model -/

section
variable (p : Params) (pagesize hdr leafHdr branchHdr bmSize : Nat)
variable (steps : Path Bytes → List RbStep) (touched : Path Bytes → List Bytes)

/-- B1: the commit of the whole database — every bucket rewritten by the commit model, whatever `rebalance`
steps were reported and whatever header keys were touched — does not change the specification state -/
theorem commitDB_invisible (db : DB Bytes Bytes) (h : AllInv db) :
    abs (commitDB p pagesize hdr leafHdr branchHdr bmSize steps touched db) = abs db := by
  unfold commitDB
  apply commitWith_refines
  intro e he
  obtain ⟨d, hu⟩ := (h e he).uniform
  exact commitTree_flatten p pagesize hdr leafHdr branchHdr (itemSize bmSize) (steps e.1) (touched e.1) e.2.tree d hu

/-- B2: it keeps the tree invariant on every bucket -/
theorem commitDB_inv (hp : p.Valid) (h2 : 2 ≤ p.minKeysPerNode) (db : DB Bytes Bytes) (h : AllInv db) :
    AllInv (commitDB p pagesize hdr leafHdr branchHdr bmSize steps touched db) := by
  intro e he
  unfold commitDB commitWith at he
  rw [List.mem_map] at he
  obtain ⟨e', he', rfl⟩ := he
  exact commitTree_inv p pagesize hdr leafHdr branchHdr (itemSize bmSize) hp h2 (steps e'.1) (touched e'.1)
    e'.2.tree (h e' he')

/-- a transaction followed by its commit: the specification state is that of the operations alone, and the
invariant holds again (so the next transaction starts where this theorem's hypotheses hold) -/
theorem tx_commit_refines (hp : p.Valid) (h2 : 2 ≤ p.minKeysPerNode) (db : DB Bytes Bytes) (h : AllInv db)
    (hw : AllWF db) (ops : List (Op Bytes Bytes)) :
    abs (commitDB p pagesize hdr leafHdr branchHdr bmSize steps touched (ops.foldl applyOp db)) =
      ops.foldl Spec.applyTOp (abs db) ∧
    AllInv (commitDB p pagesize hdr leafHdr branchHdr bmSize steps touched (ops.foldl applyOp db)) := by
  have hi := allInv_applyOps db h ops
  refine ⟨?_, commitDB_inv p pagesize hdr leafHdr branchHdr bmSize steps touched hp h2 _ hi⟩
  rw [commitDB_invisible p pagesize hdr leafHdr branchHdr bmSize steps touched _ hi]
  exact (applyOps_refine db hw ops).1

end
end Jamm.TDB
