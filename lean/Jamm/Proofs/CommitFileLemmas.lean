/-
Byte-level commit atomicity: composition of the header choice (`openSelect`), the tree / database round trip
(`StoredV`, `viewBucket_stored`), the header and free-list page writers, and their frame lemmas.

`Holds s slot st`: state `st` is stored in file `s` under header slot `slot`.  `KeepsState s s' slot st`: `s'` has
the size of `s` and the bytes of `s` on that header page and on every run `st` owns.  Everything else in the file
may differ in any way (any subset of the data writes of a commit in flight, torn at any granularity, garbage).
-/
import Jamm.Model.CommitFile
import Jamm.Proofs.EncodeViewLemmas
import Jamm.Proofs.EncodeMetaLemmas
import Jamm.Proofs.MetaBytes
namespace Jamm

section
variable (L : Layout) (order : List MetaField) (pagesize : Nat)

/-- state `st` is stored in `s` under header slot `slot`: the slot verifies and holds `st.hdr`, every node of every
bucket decodes from its own run, the view is internally consistent and is the one the header names, the free-list
page the header names decodes to `st.free` -/
structure Holds (ov : Nat → Nat) (s : Src) (slot : Nat) (st : Opened) : Prop where
  valid : slotValid L order s pagesize slot = some st.hdr
  ps : st.hdr.pagesize = pagesize
  stored : StoredV L pagesize ov s st.view
  ok : ViewOK st.view
  root : st.hdr.rootPage = st.view.tree.pid
  next : st.hdr.nextInt = st.view.nextInt
  fl : ∃ p, decodePage L s pagesize st.hdr.freelistPage = .ok p ∧ p.body = .freelist st.free ∧
    p.overflow = st.flOverflow

/-- `s'` has the size of `s`, and the bytes of `s` on header page `slot` and on every run `st` owns -/
def KeepsState (ov : Nat → Nat) (s s' : Src) (slot : Nat) (st : Opened) : Prop :=
  s'.size = s.size ∧ Src.AgreeOn s s' (slot * pagesize) (slot * pagesize + pagesize) ∧
  ∀ r ∈ st.runs ov, Src.AgreeOn s s' (r.1 * pagesize) ((r.1 + r.2 + 1) * pagesize)

/-- the header in the other slot (if it verifies at all) loses the choice against `m` sitting in `slot`:
`DBInner::meta` prefers slot 0 only when its transaction id is strictly greater -/
def OtherLoses (slot : Nat) (o : Option MetaRec) (m : MetaRec) : Prop :=
  match o with
  | none => True
  | some m' => m'.pagesize = pagesize ∧ (if slot = 0 then m.txId > m'.txId else ¬ m'.txId > m.txId)

/-- the verdict on a header slot depends only on the bytes of that header page (and the file size) -/
theorem slotValid_agree (W : L.WFM) (hrec : L.pgPtr + L.metaSize ≤ pagesize) (s s' : Src) (slot : Nat)
    (hsz : s'.size = s.size) (h : Src.AgreeOn s s' (slot * pagesize) (slot * pagesize + pagesize)) :
    slotValid L order s' pagesize slot = slotValid L order s pagesize slot := by
  have pg2 := W.pg2; have pg3 := W.pg3; have pg4 := W.pg4
  have m1 := W.m1; have m2 := W.m2; have m3 := W.m3; have m4 := W.m4; have m5 := W.m5; have m6 := W.m6
  have m7 := W.m7; have m8 := W.m8; have m9 := W.m9; have m10 := W.m10; have m11 := W.m11
  have hm : readMeta L s' (slot * pagesize) = readMeta L s (slot * pagesize) := by
    simp only [readMeta,
      h.le L.mMetaPageSz (slot * pagesize + L.pgPtr + L.mMetaPage) (by omega) (by omega),
      h.le L.mMagicSz (slot * pagesize + L.pgPtr + L.mMagic) (by omega) (by omega),
      h.le L.mVersionSz (slot * pagesize + L.pgPtr + L.mVersion) (by omega) (by omega),
      h.le 8 (slot * pagesize + L.pgPtr + L.mPagesize) (by omega) (by omega),
      h.le 8 (slot * pagesize + L.pgPtr + L.mRoot + L.bmRoot) (by omega) (by omega),
      h.le 8 (slot * pagesize + L.pgPtr + L.mRoot + L.bmNextInt) (by omega) (by omega),
      h.le 8 (slot * pagesize + L.pgPtr + L.mNumPages) (by omega) (by omega),
      h.le 8 (slot * pagesize + L.pgPtr + L.mFreelist) (by omega) (by omega),
      h.le 8 (slot * pagesize + L.pgPtr + L.mTxId) (by omega) (by omega),
      h.le 8 (slot * pagesize + L.pgPtr + L.mHash) (by omega) (by omega)]
  rw [slotValid_eq, slotValid_eq, hsz, hm, h.get (slot * pagesize + L.pgType) (by omega) (by omega)]

/-- a stored state stays stored when only bytes it does not own change -/
theorem Holds.transfer (WE : L.WF) (W : L.WFM) (hrec : L.pgPtr + L.metaSize ≤ pagesize) (hhdr : L.pageSize ≤ pagesize)
    {ov : Nat → Nat} {s s' : Src} {slot : Nat} {st : Opened}
    (h : Holds L order pagesize ov s slot st) (k : KeepsState pagesize ov s s' slot st) :
    Holds L order pagesize ov s' slot st := by
  obtain ⟨hsz, hpage, hr⟩ := k
  obtain ⟨p, hp, hb, ho⟩ := h.fl
  refine ⟨?_, h.ps, ?_, h.ok, h.root, h.next, ⟨p, ?_, hb, ho⟩⟩
  · rw [slotValid_agree L order pagesize W hrec s s' slot hsz hpage]; exact h.valid
  · exact StoredV.agree L pagesize WE hhdr ov s st.view s' hsz h.stored
      (fun r hr' => hr r (List.mem_cons_of_mem _ hr'))
  · refine decodePage_agree L WE s s' pagesize _ p hhdr hsz hp (by intro m; rw [hb]; intro e; cases e) ?_
    have h1 := hr (st.hdr.freelistPage, st.flOverflow) List.mem_cons_self
    rw [ho]
    have e : (st.hdr.freelistPage + st.flOverflow + 1) * pagesize =
        st.hdr.freelistPage * pagesize + (st.flOverflow + 1) * pagesize := by
      rw [Nat.add_assoc, Nat.add_mul]
    rw [← e]
    exact h1

/-- the header choice: a verified header whose rival loses is the one chosen -/
theorem openSelect_of_wins (s : Src) (slot : Nat) (hslot : slot = 0 ∨ slot = 1) (m : MetaRec)
    (hv : slotValid L order s pagesize slot = some m) (hps : m.pagesize = pagesize)
    (ho : OtherLoses pagesize slot (slotValid L order s pagesize (1 - slot)) m) :
    openSelect L order s pagesize = .ok m := by
  rcases hslot with rfl | rfl
  · have e : 1 - 0 = 1 := rfl
    rw [e] at ho
    unfold openSelect selectSlots
    rw [hv]
    cases h1 : slotValid L order s pagesize 1 with
    | none => simp [hps]
    | some b =>
      rw [h1] at ho
      simp only [OtherLoses, if_true] at ho
      simp [hps, ho.1, ho.2]
  · have e : 1 - 1 = 0 := rfl
    rw [e] at ho
    unfold openSelect selectSlots
    rw [hv]
    cases h1 : slotValid L order s pagesize 0 with
    | none => simp [hps]
    | some a =>
      rw [h1] at ho
      simp only [OtherLoses, Nat.one_ne_zero, if_false] at ho
      simp [hps, ho.1, ho.2]

/-- a stored state whose header is the chosen one is exactly what `open` shows -/
theorem openFile_of_holds (ov : Nat → Nat) (s : Src) (slot : Nat) (st : Opened)
    (h : Holds L order pagesize ov s slot st) (hsel : openSelect L order s pagesize = .ok st.hdr)
    (fuel : Nat) (hf : st.view.weight ≤ fuel) :
    openFile L order pagesize fuel s = some st := by
  obtain ⟨p, hp, hb, ho⟩ := h.fl
  have hv := viewBucket_stored L pagesize ov s st.view fuel h.stored h.ok hf
  unfold openFile
  rw [hsel]
  simp only
  rw [h.root, h.next, hv]
  simp only
  rw [hp]
  simp only [hb, ho]

/-- the header page a commit writes verifies and holds the record written -/
theorem slotValid_writeMetaPage (hL : L.WFMeta = true) (slot : Nat) (m : MetaRec) (s : Src)
    (hfile : slot * pagesize + pagesize ≤ s.size) (hrec : L.pgPtr + L.metaSize ≤ pagesize)
    (hm : m.fits L = true) (hv : metaValid L order m = true) :
    slotValid L order (writeMetaPage L pagesize slot m s) pagesize slot = some m := by
  have W := Layout.WFM.of L hL
  have pg1 := W.pg1; have pg2 := W.pg2; have pg3 := W.pg3; have pg4 := W.pg4
  simp only [MetaRec.fits, Bool.and_eq_true, decide_eq_true_eq, Bool.decide_and] at hm
  obtain ⟨f1, f2, f3, f4, f5, f6, f7, f8, f9, f10⟩ := hm
  have hsz : (writeMetaPage L pagesize slot m s).size = s.size := applyWrites_size _ _
  have H : ∀ w ∈ metaTailWrites L (slot * pagesize) slot m,
      (writeMetaPage L pagesize slot m s).HasAt w.1 w.2 := by
    intro w hw
    rw [writeMetaPage, metaPageWrites_eq, applyWrites_cons]
    exact applyWrites_hasAt _ _ (metaTailWrites_pairwise L W _ _ _) w hw
  generalize writeMetaPage L pagesize slot m s = s' at hsz H ⊢
  simp only [metaTailWrites, metaWrites, List.cons_append, List.nil_append, List.forall_mem_cons,
    List.not_mem_nil, false_imp_iff, implies_true, and_true] at H
  obtain ⟨Hid, Hty, H1, H2, H3, H4, H5, H6, H7, H8, H9, H10⟩ := H
  have hty : (s'.get (slot * pagesize + L.pgType)).toNat = L.typeMeta := by
    rw [Hty.get1]; exact toUInt8_toNat_of_lt _ W.tm
  have hrm : readMeta L s' (slot * pagesize) = m := by
    simp only [readMeta, H1.leN f1, H2.leN f2, H3.leN f3, H4.le8 f4, H5.le8 f5, H6.le8 f6, H7.le8 f7,
      H8.le8 f8, H9.le8 f9, H10.le8 f10]
  rw [slotValid_eq, hsz, hrm, hty, if_neg (by omega), if_neg (by simp), if_pos hv]

/-- the header write completes a commit: if everything but the header of `st` is stored in `s1` on pages `≥ 2`,
then after writing the header into `slot` the state holds there -/
theorem holds_of_header_write (hL : L.WFMeta = true) (WE : L.WF) (hrec : L.pgPtr + L.metaSize ≤ pagesize)
    (hhdr : L.pageSize ≤ pagesize) (ov : Nat → Nat) (s1 : Src) (slot : Nat) (st : Opened)
    (hslot : slot < 2) (hfile : slot * pagesize + pagesize ≤ s1.size)
    (hm : st.hdr.fits L = true) (hv : metaValid L order st.hdr = true) (hps : st.hdr.pagesize = pagesize)
    (hstored : StoredV L pagesize ov s1 st.view) (hok : ViewOK st.view)
    (hroot : st.hdr.rootPage = st.view.tree.pid) (hnext : st.hdr.nextInt = st.view.nextInt)
    (hfl : ∃ p, decodePage L s1 pagesize st.hdr.freelistPage = .ok p ∧ p.body = .freelist st.free ∧
      p.overflow = st.flOverflow)
    (hruns : ∀ r ∈ st.runs ov, 2 ≤ r.1) :
    Holds L order pagesize ov (writeMetaPage L pagesize slot st.hdr s1) slot st := by
  have W := Layout.WFM.of L hL
  have hsz : (writeMetaPage L pagesize slot st.hdr s1).size = s1.size := applyWrites_size _ _
  have hag : ∀ r ∈ st.runs ov, Src.AgreeOn s1 (writeMetaPage L pagesize slot st.hdr s1) (r.1 * pagesize)
      ((r.1 + r.2 + 1) * pagesize) := by
    intro r hr i i1 i2
    have h2 : 2 * pagesize ≤ r.1 * pagesize := Nat.mul_le_mul_right _ (hruns r hr)
    have h3 : (slot + 1) * pagesize ≤ 2 * pagesize := Nat.mul_le_mul_right _ (by omega)
    rw [Nat.add_mul, Nat.one_mul] at h3
    exact (writeMetaPage_frame L pagesize slot st.hdr s1 i hL hrec (Or.inr (by omega))).1
  obtain ⟨p, hp, hb, ho⟩ := hfl
  refine ⟨slotValid_writeMetaPage L order pagesize hL slot st.hdr s1 hfile hrec hm hv, hps, ?_, hok, hroot, hnext,
    ⟨p, ?_, hb, ho⟩⟩
  · exact StoredV.agree L pagesize WE hhdr ov s1 st.view _ hsz hstored
      (fun r hr' => hag r (List.mem_cons_of_mem _ hr'))
  · refine decodePage_agree L WE s1 _ pagesize _ p hhdr hsz hp (by intro m; rw [hb]; intro e; cases e) ?_
    have h1 := hag (st.hdr.freelistPage, st.flOverflow) List.mem_cons_self
    rw [ho]
    have e : (st.hdr.freelistPage + st.flOverflow + 1) * pagesize =
        st.hdr.freelistPage * pagesize + (st.flOverflow + 1) * pagesize := by
      rw [Nat.add_assoc, Nat.add_mul]
    rw [← e]
    exact h1

/-- writing the header page of one slot keeps every state stored under the other slot -/
theorem keepsState_header_write (hL : L.WFMeta = true) (hrec : L.pgPtr + L.metaSize ≤ pagesize)
    (ov : Nat → Nat) (s1 : Src) (slot other : Nat) (m : MetaRec) (st : Opened)
    (hslot : slot < 2) (hother : other < 2) (hne : slot ≠ other) (hruns : ∀ r ∈ st.runs ov, 2 ≤ r.1) :
    KeepsState pagesize ov s1 (writeMetaPage L pagesize other m s1) slot st := by
  refine ⟨applyWrites_size _ _, ?_, ?_⟩
  · intro i i1 i2
    refine (writeMetaPage_frame L pagesize other m s1 i hL hrec ?_).1
    have hcases : (slot = 0 ∧ other = 1) ∨ (slot = 1 ∧ other = 0) := by omega
    rcases hcases with ⟨rfl, rfl⟩ | ⟨rfl, rfl⟩
    · left; omega
    · right; omega
  · intro r hr i i1 i2
    have h2 : 2 * pagesize ≤ r.1 * pagesize := Nat.mul_le_mul_right _ (hruns r hr)
    have h3 : (other + 1) * pagesize ≤ 2 * pagesize := Nat.mul_le_mul_right _ (by omega)
    rw [Nat.add_mul, Nat.one_mul] at h3
    exact (writeMetaPage_frame L pagesize other m s1 i hL hrec (Or.inr (by omega))).1

end
end Jamm
