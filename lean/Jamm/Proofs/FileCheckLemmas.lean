/-
The executable well-formedness check is sound: a tree it accepts satisfies `WF`, so every Layer Q/T
theorem applies to it.  This is what lets the correspondence run evaluate `WF` on real file bytes.
-/
import Jamm.Model.FileCheck
import Jamm.Proofs.TreeWF
set_option linter.unusedSectionVars false
open Std

namespace Jamm
variable {K E : Type} [Ord K] [TransOrd K] [LawfulEqOrd K] [DecidableEq K]

theorem inLoB_iff (lo : Option K) (k : K) : inLoB lo k = true ↔ inLo lo k := by
  cases lo <;> simp [inLoB, inLo]

theorem inHiB_iff (hi : Option K) (k : K) : inHiB hi k = true ↔ inHi hi k := by
  cases hi <;> simp [inHiB, inHi]

theorem sortedB_iff (es : List (K × E)) : sortedB es = true ↔ Spec.Sorted es := by
  induction es with
  | nil => simp [sortedB, Spec.Sorted]
  | cons a rest ih =>
    cases rest with
    | nil => simp [sortedB, Spec.Sorted]
    | cons b rest' =>
      obtain ⟨a1, a2⟩ := a
      obtain ⟨b1, b2⟩ := b
      simp only [sortedB, Spec.Sorted, Bool.and_eq_true]
      rw [ih]

/-- `WFF` stated on a whole forest -/
def WFForest (lo hi : Option K) : Forest K E → Prop
  | .nil => False
  | .cons k t rest => WFF lo hi k t rest

mutual
theorem wfb_sound (lo hi : Option K) (t : Tree K E) (h : wfb lo hi t = true) : WF lo hi t := by
  match t with
  | .leaf p es =>
    simp only [wfb, Bool.and_eq_true, List.all_eq_true] at h
    refine WF.leaf lo hi p es ((sortedB_iff es).mp h.1) ?_
    intro e he
    have := h.2 e he
    exact ⟨(inLoB_iff lo e.1).mp this.1, (inHiB_iff hi e.1).mp this.2⟩
  | .branch p kids =>
    simp only [wfb] at h
    have hf := wffb_sound lo hi kids h
    match kids, hf with
    | .cons k t' rest, hf => exact WF.branch lo hi p k t' rest hf
theorem wffb_sound (lo hi : Option K) (f : Forest K E)
    (h : wffb lo hi f = true) : WFForest lo hi f := by
  match f with
  | .nil => simp [wffb] at h
  | .cons k t .nil =>
    simp only [wffb] at h
    exact WFF.last lo hi k t (wfb_sound lo hi t h)
  | .cons k t (.cons k' t' rest') =>
    simp only [wffb, Bool.and_eq_true] at h
    obtain ⟨⟨⟨⟨h1, h2⟩, h3⟩, h4⟩, h5⟩ := h
    exact WFF.cons lo hi k t k' t' rest' h1 ((inLoB_iff lo k').mp h2) ((inHiB_iff hi k').mp h3)
      (wfb_sound lo (some k') t h4) (wffb_sound (some k') hi (.cons k' t' rest') h5)
end

end Jamm
