/-
Layer A: the Prop form of `Sys.invB` and the analysis of one committing writer.
-/
import Jamm.Proofs.FreelistProto
set_option linter.unusedSectionVars false
set_option linter.unusedVariables false

namespace Jamm

structure Sys.Inv (s : Sys) : Prop where
  ascFree : s.shared.free.Pairwise (· < ·)
  ascKeys : (s.shared.pending.map (·.1)).Pairwise (· < ·)
  keysLe : ∀ e ∈ s.shared.pending, e.1 ≤ s.cur.txId
  ndReach : s.cur.reach.Nodup
  ndPend : s.shared.pendingPages.Nodup
  djRF : ∀ p ∈ s.cur.reach, p ∉ s.shared.free
  djRP : ∀ p ∈ s.cur.reach, p ∉ s.shared.pendingPages
  djFP : ∀ p ∈ s.shared.free, p ∉ s.shared.pendingPages
  rng : ∀ p, (p ∈ s.cur.reach ∨ p ∈ s.shared.free) ∨ p ∈ s.shared.pendingPages → 2 ≤ p ∧ p < s.numPages
  rd : ∀ r ∈ s.readers, r.txId ≤ s.cur.txId ∧
    ∀ p ∈ r.reach, p ∈ s.cur.reach ∨ p ∈ s.shared.pendingAbove r.txId
  np : 2 ≤ s.numPages

theorem invB_iff (s : Sys) : s.invB = true ↔ s.Inv := by
  unfold Sys.invB
  simp only [Bool.and_eq_true, ascending_iff, nodupB_iff, disjointB_iff, List.all_eq_true,
    List.mem_append, decide_eq_true_eq, Bool.or_eq_true, List.contains_iff_mem, and_assoc]
  constructor
  · rintro ⟨h1, h2, h3, h4, h5, h6, h7, h8, h9, h10, h11⟩
    exact ⟨h1, h2, h3, h4, h5, h6, h7, h8, h9, h10, h11⟩
  · rintro ⟨h1, h2, h3, h4, h5, h6, h7, h8, h9, h10, h11⟩
    exact ⟨h1, h2, h3, h4, h5, h6, h7, h8, h9, h10, h11⟩

/-! ### the writer's view after `beginWriter` -/

/-- the release bound chosen by `beginWriter` -/
def Sys.bound (s : Sys) : Nat :=
  match (s.readers.map (·.txId)).min? with | some m => m | none => s.cur.txId + 1

theorem beginWriter_eq (s : Sys) :
    s.beginWriter = { fl := s.shared.release s.bound, numPages := s.numPages, txId := s.cur.txId + 1 } := rfl

theorem bound_le_reader (s : Sys) (r : Snap) (hr : r ∈ s.readers) : s.bound ≤ r.txId := by
  unfold Sys.bound
  split
  · rename_i m hm
    rw [List.min?_eq_some_iff] at hm
    exact hm.2 r.txId (List.mem_map.2 ⟨r, hr, rfl⟩)
  · rename_i hm
    rw [List.min?_eq_none_iff] at hm
    have : r.txId ∈ s.readers.map (·.txId) := List.mem_map.2 ⟨r, hr, rfl⟩
    rw [hm] at this
    simp at this

theorem bound_no_reader (s : Sys) (h : s.readers = []) : s.bound = s.cur.txId + 1 := by
  unfold Sys.bound
  rw [h]
  rfl

/-- the writer's private list after the release -/
def Sys.f1 (s : Sys) : FL := s.shared.release s.bound
/-- ... and after the writer's frees -/
def Sys.f2 (s : Sys) (w : WriterTx) : FL := s.f1.freeAll (s.cur.txId + 1) w.freed

theorem f1_free_cases {s : Sys} (hi : s.Inv) {p : Nat} (hp : p ∈ s.f1.free) :
    p ∈ s.shared.free ∨ p ∈ s.shared.pendingPages := by
  rcases (release_free_mem s.shared s.bound hi.ascKeys p).1 hp with h | ⟨e, he, _, hpe⟩
  · exact Or.inl h
  · exact Or.inr ((mem_pendingPages _ _).2 ⟨e, he, hpe⟩)

theorem f1_free_rng {s : Sys} (hi : s.Inv) {p : Nat} (hp : p ∈ s.f1.free) : 2 ≤ p ∧ p < s.numPages := by
  rcases f1_free_cases hi hp with h | h
  · exact hi.rng p (Or.inl (Or.inr h))
  · exact hi.rng p (Or.inr h)

theorem f1_free_not_reach {s : Sys} (hi : s.Inv) {p : Nat} (hp : p ∈ s.f1.free) : p ∉ s.cur.reach := by
  intro hr
  rcases f1_free_cases hi hp with h | h
  · exact hi.djRF p hr h
  · exact hi.djRP p hr h

theorem f1_pp_sub {s : Sys} {p : Nat} (hp : p ∈ s.f1.pendingPages) : p ∈ s.shared.pendingPages :=
  release_pendingPages_sub s.shared s.bound p hp

theorem f1_disj {s : Sys} (hi : s.Inv) {p : Nat} (hp : p ∈ s.f1.free) : p ∉ s.f1.pendingPages :=
  release_free_disj s.shared s.bound hi.ascKeys hi.ndPend hi.djFP p hp

theorem run_ainv {s : Sys} (hi : s.Inv) (w : WriterTx) :
    AInv s.f1.free s.numPages (s.f2 w).pending (s.cur.txId + 1) (s.beginWriter.run w) := by
  rw [run_eq, beginWriter_eq]
  refine AInv.foldl (fun p hp => (f1_free_rng hi hp).2) _ _ ?_
  refine ⟨rfl, rfl, ?_, ?_, Nat.le_refl _, ?_, ?_⟩
  · simp only [freeAll_free]
    exact release_free_pairwise _ _ hi.ascFree
  · simp only [freeAll_free]
    exact fun p hp => hp
  · simp [expand]
  · simp [expand]

/-! ### one committing writer -/

theorem step_commit_eq (s : Sys) (w : WriterTx) :
    s.step (.commitW w) =
      { cur := { txId := s.cur.txId + 1,
                 reach := (s.cur.reach.filter (fun p => !w.freed.contains p)) ++ expand (s.beginWriter.run w).1 }
        shared := (s.beginWriter.run w).2.fl
        readers := s.readers
        numPages := (s.beginWriter.run w).2.numPages } := rfl

theorem mem_keep (reach freed : List Nat) (p : Nat) :
    p ∈ reach.filter (fun p => !freed.contains p) ↔ (p ∈ reach ∧ p ∉ freed) := by
  simp [List.mem_filter]

theorem pendingPages_congr {f g : FL} (h : f.pending = g.pending) : f.pendingPages = g.pendingPages := by
  unfold FL.pendingPages; rw [h]

theorem pendingAbove_congr {f g : FL} (h : f.pending = g.pending) (t : Nat) :
    f.pendingAbove t = g.pendingAbove t := by
  unfold FL.pendingAbove; rw [h]

theorem mem_f2_pp (s : Sys) (w : WriterTx) (p : Nat) :
    p ∈ (s.f2 w).pendingPages ↔ (p ∈ s.f1.pendingPages ∨ p ∈ w.freed) := by
  unfold Sys.f2
  rw [(freeAll_perm (s.cur.txId + 1) w.freed s.f1).mem_iff, List.mem_append]

theorem inv_commit {s : Sys} (hi : s.Inv) (w : WriterTx)
    (hsub : ∀ p ∈ w.freed, p ∈ s.cur.reach) (hnd : w.freed.Nodup) : (s.step (.commitW w)).Inv := by
  have hA := run_ainv hi w
  rw [step_commit_eq]
  generalize s.beginWriter.run w = res at hA
  obtain ⟨hpend, _, hasc, hfsub, hmono, hand, hal⟩ := hA
  have hpp : res.2.fl.pendingPages = (s.f2 w).pendingPages := pendingPages_congr hpend
  -- allocated pages are new to everybody
  have alloc_not_reach : ∀ p ∈ expand res.1, p ∉ s.cur.reach := by
    intro p hp hr
    rcases (hal p hp).1 with h | h
    · exact f1_free_not_reach hi h hr
    · have := (hi.rng p (Or.inl (Or.inl hr))).2; omega
  have alloc_not_pp : ∀ p ∈ expand res.1, p ∉ (s.f2 w).pendingPages := by
    intro p hp hq
    rcases (mem_f2_pp s w p).1 hq with hq | hq
    · rcases (hal p hp).1 with h | h
      · exact f1_disj hi h hq
      · have := (hi.rng p (Or.inr (f1_pp_sub hq))).2; omega
    · exact alloc_not_reach p hp (hsub p hq)
  refine ⟨hasc, ?_, ?_, ?_, ?_, ?_, ?_, ?_, ?_, ?_, ?_⟩
  · -- keys ascend
    show (res.2.fl.pending.map (·.1)).Pairwise (· < ·)
    rw [hpend]
    exact freeAll_keys_pairwise _ _ _ (release_keys_pairwise _ _ hi.ascKeys)
  · -- keys at most the new id
    show ∀ e ∈ res.2.fl.pending, e.1 ≤ s.cur.txId + 1
    rw [hpend]
    intro e he
    rcases freeAll_keys (s.cur.txId + 1) w.freed s.f1 e.1 (List.mem_map.2 ⟨e, he, rfl⟩) with h | h
    · omega
    · obtain ⟨e', he', hk⟩ := List.mem_map.1 h
      have := hi.keysLe e' ((release_pending_mem s.shared s.bound hi.ascKeys e').1 he').1
      omega
  · -- reach duplicate free
    show (s.cur.reach.filter (fun p => !w.freed.contains p) ++ expand res.1).Nodup
    rw [List.nodup_append]
    refine ⟨List.Nodup.sublist List.filter_sublist hi.ndReach, hand, ?_⟩
    intro a ha b hb hab
    subst hab
    exact alloc_not_reach a hb ((mem_keep _ _ _).1 ha).1
  · -- pending duplicate free
    show res.2.fl.pendingPages.Nodup
    rw [hpp]
    show (s.f1.freeAll (s.cur.txId + 1) w.freed).pendingPages.Nodup
    rw [(freeAll_perm (s.cur.txId + 1) w.freed s.f1).nodup_iff, List.nodup_append]
    refine ⟨release_pendingPages_nodup _ _ hi.ndPend, hnd, ?_⟩
    intro a ha b hb hab
    subst hab
    exact hi.djRP a (hsub a hb) (f1_pp_sub ha)
  · -- reach / free
    show ∀ p ∈ s.cur.reach.filter (fun p => !w.freed.contains p) ++ expand res.1, p ∉ res.2.fl.free
    intro p hp
    rcases List.mem_append.1 hp with hp | hp
    · exact fun hf => f1_free_not_reach hi (hfsub p hf) ((mem_keep _ _ _).1 hp).1
    · exact (hal p hp).2.2
  · -- reach / pending
    show ∀ p ∈ s.cur.reach.filter (fun p => !w.freed.contains p) ++ expand res.1, p ∉ res.2.fl.pendingPages
    rw [hpp]
    intro p hp
    rcases List.mem_append.1 hp with hp | hp
    · obtain ⟨h1, h2⟩ := (mem_keep _ _ _).1 hp
      intro hq
      rcases (mem_f2_pp s w p).1 hq with hq | hq
      · exact hi.djRP p h1 (f1_pp_sub hq)
      · exact h2 hq
    · exact alloc_not_pp p hp
  · -- free / pending
    show ∀ p ∈ res.2.fl.free, p ∉ res.2.fl.pendingPages
    rw [hpp]
    intro p hp hq
    rcases (mem_f2_pp s w p).1 hq with hq | hq
    · exact f1_disj hi (hfsub p hp) hq
    · exact f1_free_not_reach hi (hfsub p hp) (hsub p hq)
  · -- ranges
    show ∀ p, (p ∈ s.cur.reach.filter (fun p => !w.freed.contains p) ++ expand res.1 ∨ p ∈ res.2.fl.free) ∨
      p ∈ res.2.fl.pendingPages → 2 ≤ p ∧ p < res.2.numPages
    rw [hpp]
    intro p hp
    rcases hp with (hp | hp) | hp
    · rcases List.mem_append.1 hp with hp | hp
      · have := hi.rng p (Or.inl (Or.inl ((mem_keep _ _ _).1 hp).1)); omega
      · refine ⟨?_, (hal p hp).2.1⟩
        rcases (hal p hp).1 with h | h
        · exact (f1_free_rng hi h).1
        · have := hi.np; omega
    · have := f1_free_rng hi (hfsub p hp); omega
    · rcases (mem_f2_pp s w p).1 hp with hq | hq
      · have := hi.rng p (Or.inr (f1_pp_sub hq)); omega
      · have := hi.rng p (Or.inl (Or.inl (hsub p hq))); omega
  · -- readers
    show ∀ r ∈ s.readers, r.txId ≤ s.cur.txId + 1 ∧ ∀ p ∈ r.reach,
      p ∈ s.cur.reach.filter (fun p => !w.freed.contains p) ++ expand res.1 ∨ p ∈ res.2.fl.pendingAbove r.txId
    intro r hr
    obtain ⟨hle, hreach⟩ := hi.rd r hr
    refine ⟨by omega, ?_⟩
    intro p hp
    rw [pendingAbove_congr hpend, mem_pendingAbove]
    have hex := freeAll_exists (s.cur.txId + 1) (fun k => r.txId < k) p w.freed s.f1
    show _ ∨ ∃ e ∈ (s.f1.freeAll (s.cur.txId + 1) w.freed).pending, r.txId < e.1 ∧ p ∈ e.2
    rw [hex]
    rcases hreach p hp with h | h
    · by_cases hf : p ∈ w.freed
      · exact Or.inr (Or.inr ⟨by omega, hf⟩)
      · exact Or.inl (List.mem_append_left _ ((mem_keep _ _ _).2 ⟨h, hf⟩))
    · obtain ⟨e, he, hlt, hpe⟩ := (mem_pendingAbove _ _ _).1 h
      have hb := bound_le_reader s r hr
      exact Or.inr (Or.inl ⟨e, (release_pending_mem s.shared s.bound hi.ascKeys e).2 ⟨he, by omega⟩, hlt, hpe⟩)
  · show 2 ≤ res.2.numPages
    have := hi.np; omega

end Jamm
