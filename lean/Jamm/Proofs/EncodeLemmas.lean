/-
Layer S: the page writer and the page decoder are inverse on nodes that fit their page run, and the
writer touches nothing outside the bytes the node occupies.
-/
import Jamm.Model.Encode
import Jamm.Proofs.EncodeBranch
set_option linter.unusedSectionVars false

namespace Jamm

section
variable (L : Layout)

/-- E1: decoding a freshly written leaf page gives back exactly the node -/
theorem decode_writeLeafPage (hL : L.WFEnc = true) (pagesize pid overflow : Nat)
    (es : List (Bytes × LeafVal)) (s : Src)
    (hfile : pid * pagesize + (overflow + 1) * pagesize ≤ s.size)
    (hfit : leafBytes L es ≤ (overflow + 1) * pagesize)
    (hhdr : L.pageSize ≤ pagesize)
    (hid : pid < 2 ^ 64) (hrun : (overflow + 1) * pagesize < 2 ^ 64)
    (hv : ∀ e ∈ es, e.2.fits = true) :
    decodePage L (writeLeafPage L pagesize pid overflow es s) pagesize pid =
      .ok { id := pid, overflow := overflow, count := es.length, body := .leaf es } := by
  have W := Layout.WF.of L hL
  have pg1 := W.pg1; have pg2 := W.pg2; have pg3 := W.pg3; have pg4 := W.pg4; have pg5 := W.pg5
  have lf1 := W.lf1; have lf2 := W.lf2; have lf3 := W.lf3; have lf4 := W.lf4
  have hps : 0 < pagesize := by omega
  have hov : overflow + 1 ≤ (overflow + 1) * pagesize := Nat.le_mul_of_pos_right _ hps
  have hcnt : es.length ≤ es.length * L.leafSize := Nat.le_mul_of_pos_right _ (by omega)
  have hz : 0 * L.leafSize = 0 := Nat.zero_mul _
  rw [leafBytes_eq] at hfit
  simp only [writeLeafPage]
  obtain ⟨A1, A2, A3, A4⟩ := writeHeader_hasAt L W (pid * pagesize) pid L.typeLeaf es.length overflow s
  have hsz0 := writeHeader_size L (pid * pagesize) pid L.typeLeaf es.length overflow s
  generalize writeHeader L (pid * pagesize) pid L.typeLeaf es.length overflow s = s0 at A1 A2 A3 A4 hsz0 ⊢
  have hfr : ∀ x, x < pid * pagesize + L.pgPtr →
      (writeLeafElems L (pid * pagesize) es.length es 0 0 s0).get x = s0.get x :=
    fun x hx => writeLeafElems_get L W (pid * pagesize) es.length es 0 0 s0 x (by omega) (by omega)
  have hdec := decode_writeLeafElems L W (pid * pagesize) es.length
    (pid * pagesize + (overflow + 1) * pagesize) es 0 0 s0 (by omega) (by omega) (by omega) hv
  have hsz := writeLeafElems_size L (pid * pagesize) es.length es 0 0 s0
  generalize writeLeafElems L (pid * pagesize) es.length es 0 0 s0 = fin at hfr hdec hsz ⊢
  have B1 := A1.of_get_eq (t := fin) (fun x _ h2 => hfr x (by
    simp only [leBytes_length] at h2; omega))
  have B2 := A2.of_get_eq (t := fin) (fun x _ h2 => hfr x (by
    simp only [List.length_cons, List.length_nil] at h2; omega))
  have B3 := A3.of_get_eq (t := fin) (fun x _ h2 => hfr x (by
    simp only [leBytes_length] at h2; omega))
  have B4 := A4.of_get_eq (t := fin) (fun x _ h2 => hfr x (by
    simp only [leBytes_length] at h2; omega))
  refine decodePage_leaf L W fin pagesize pid overflow es.length es ?hsz hhdr ?hty ?hid ?hcount ?hov hdec
  · omega
  · rw [B2.get1]; exact toUInt8_toNat_of_lt _ W.tl
  · exact B1.le8 hid
  · exact B3.le8 (by omega)
  · exact B4.le8 (by omega)

/-- E2: … and a branch page -/
theorem decode_writeBranchPage (hL : L.WFEnc = true) (pagesize pid overflow : Nat)
    (es : List (Bytes × Nat)) (s : Src)
    (hfile : pid * pagesize + (overflow + 1) * pagesize ≤ s.size)
    (hfit : branchBytes L es ≤ (overflow + 1) * pagesize)
    (hhdr : L.pageSize ≤ pagesize)
    (hid : pid < 2 ^ 64) (hrun : (overflow + 1) * pagesize < 2 ^ 64)
    (hv : ∀ e ∈ es, e.2 < 2 ^ 64) :
    decodePage L (writeBranchPage L pagesize pid overflow es s) pagesize pid =
      .ok { id := pid, overflow := overflow, count := es.length, body := .branch es } := by
  have W := Layout.WF.of L hL
  have pg1 := W.pg1; have pg2 := W.pg2; have pg3 := W.pg3; have pg4 := W.pg4; have pg5 := W.pg5
  have br1 := W.br1; have br2 := W.br2; have br3 := W.br3
  have hps : 0 < pagesize := by omega
  have hov : overflow + 1 ≤ (overflow + 1) * pagesize := Nat.le_mul_of_pos_right _ hps
  have hcnt : es.length ≤ es.length * L.branchSize := Nat.le_mul_of_pos_right _ (by omega)
  have hz : 0 * L.branchSize = 0 := Nat.zero_mul _
  rw [branchBytes_eq] at hfit
  simp only [writeBranchPage]
  obtain ⟨A1, A2, A3, A4⟩ := writeHeader_hasAt L W (pid * pagesize) pid L.typeBranch es.length overflow s
  have hsz0 := writeHeader_size L (pid * pagesize) pid L.typeBranch es.length overflow s
  generalize writeHeader L (pid * pagesize) pid L.typeBranch es.length overflow s = s0 at A1 A2 A3 A4 hsz0 ⊢
  have hfr : ∀ x, x < pid * pagesize + L.pgPtr →
      (writeBranchElems L (pid * pagesize) es.length es 0 0 s0).get x = s0.get x :=
    fun x hx => writeBranchElems_get L W (pid * pagesize) es.length es 0 0 s0 x (by omega) (by omega)
  have hdec := decode_writeBranchElems L W (pid * pagesize) es.length
    (pid * pagesize + (overflow + 1) * pagesize) es 0 0 s0 (by omega) (by omega) (by omega) hv
  have hsz := writeBranchElems_size L (pid * pagesize) es.length es 0 0 s0
  generalize writeBranchElems L (pid * pagesize) es.length es 0 0 s0 = fin at hfr hdec hsz ⊢
  have B1 := A1.of_get_eq (t := fin) (fun x _ h2 => hfr x (by
    simp only [leBytes_length] at h2; omega))
  have B2 := A2.of_get_eq (t := fin) (fun x _ h2 => hfr x (by
    simp only [List.length_cons, List.length_nil] at h2; omega))
  have B3 := A3.of_get_eq (t := fin) (fun x _ h2 => hfr x (by
    simp only [leBytes_length] at h2; omega))
  have B4 := A4.of_get_eq (t := fin) (fun x _ h2 => hfr x (by
    simp only [leBytes_length] at h2; omega))
  refine decodePage_branch L W fin pagesize pid overflow es.length es ?hsz hhdr ?hty ?hid ?hcount ?hov hdec
  · omega
  · rw [B2.get1]; exact toUInt8_toNat_of_lt _ W.tb
  · exact B1.le8 hid
  · exact B3.le8 (by omega)
  · exact B4.le8 (by omega)

/-- E3: the writer leaves every byte outside the node's own bytes alone (so other pages decode as before) -/
theorem writeLeafPage_frame (hL : L.WFEnc = true) (pagesize pid overflow : Nat)
    (es : List (Bytes × LeafVal)) (s : Src) (i : Nat)
    (h : i < pid * pagesize ∨ pid * pagesize + leafBytes L es ≤ i) :
    (writeLeafPage L pagesize pid overflow es s).get i = s.get i ∧
    (writeLeafPage L pagesize pid overflow es s).size = s.size := by
  have W := Layout.WF.of L hL
  have hz : 0 * L.leafSize = 0 := Nat.zero_mul _
  rw [leafBytes_eq] at h
  simp only [writeLeafPage]
  constructor
  · rw [writeLeafElems_get L W (pid * pagesize) es.length es 0 0 _ i (by omega) (by omega),
      writeHeader_get L W _ _ _ _ _ _ i (by omega)]
  · rw [writeLeafElems_size, writeHeader_size]

theorem writeBranchPage_frame (hL : L.WFEnc = true) (pagesize pid overflow : Nat)
    (es : List (Bytes × Nat)) (s : Src) (i : Nat)
    (h : i < pid * pagesize ∨ pid * pagesize + branchBytes L es ≤ i) :
    (writeBranchPage L pagesize pid overflow es s).get i = s.get i ∧
    (writeBranchPage L pagesize pid overflow es s).size = s.size := by
  have W := Layout.WF.of L hL
  have hz : 0 * L.branchSize = 0 := Nat.zero_mul _
  rw [branchBytes_eq] at h
  simp only [writeBranchPage]
  constructor
  · rw [writeBranchElems_get L W (pid * pagesize) es.length es 0 0 _ i (by omega) (by omega),
      writeHeader_get L W _ _ _ _ _ _ i (by omega)]
  · rw [writeBranchElems_size, writeHeader_size]

end

section AxiomAudit
end AxiomAudit
end Jamm
