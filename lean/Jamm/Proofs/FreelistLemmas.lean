/-
Layer A proofs: the allocator and the page-release protocol.
-/
import Jamm.Proofs.FreelistSys
set_option linter.unusedSectionVars false
set_option linter.unusedVariables false

namespace Jamm

/-- A1: first fit returns the start of a run of `n` consecutive free pages -/
theorem findRun_sound (n : Nat) (free : List Nat) (s : Nat) (hn : 0 < n) (ha : ascending free = true)
    (h2 : ∀ p ∈ free, 2 ≤ p) (h : FL.findRun n free 0 0 = some s) :
    ∀ i, i < n → (s + i) ∈ free := by
  exact findRun_sound_aux n (· ∈ free) s free 0 0 (fun p hp => hp) (fun h0 => absurd rfl h0) h

/-- A2: first fit fails only when no run of `n` consecutive free pages exists -/
theorem findRun_complete (n : Nat) (free : List Nat) (hn : 0 < n) (ha : ascending free = true)
    (h2 : ∀ p ∈ free, 2 ≤ p) (h : FL.findRun n free 0 0 = none) :
    hasRun n free = false := by
  have hall := findRun_complete_aux n hn free h2 free 0 0 ((ascending_iff free).1 ha)
    (fun x hx => by have := h2 x hx; omega) (fun x hx => Or.inl hx) (fun h0 => absurd rfl h0)
    (fun s hs h0 => by have := h2 s hs; omega) h
  unfold hasRun
  rw [List.any_eq_false]
  intro s hs hcon
  obtain ⟨i, hi, hni⟩ := hall s hs
  rw [List.all_eq_true] at hcon
  have := hcon i (List.mem_range.2 hi)
  simp only [List.contains_iff_mem] at this
  exact hni this

/-- A3: allocation removes exactly the returned run from the free set and touches nothing else -/
theorem allocate_spec (f : FL) (n s : Nat) (f' : FL) (hn : 0 < n) (ha : ascending f.free = true)
    (h2 : ∀ p ∈ f.free, 2 ≤ p) (h : f.allocate n = some (s, f')) :
    (∀ i, i < n → (s + i) ∈ f.free) ∧ f'.pending = f.pending ∧
    (∀ p, p ∈ f'.free ↔ (p ∈ f.free ∧ (p < s ∨ s + n ≤ p))) ∧ ascending f'.free = true := by
  obtain ⟨h1, h3, h4, h5⟩ := allocate_some f n s f' ((ascending_iff _).1 ha) h
  exact ⟨h1, h3, h4, (ascending_iff _).2 h5⟩

/-- A4: the file is extended only when first fit fails -/
theorem extend_only_when_no_run (t : TxFL) (n : Nat) (hn : 0 < n) (ha : ascending t.fl.free = true)
    (h2 : ∀ p ∈ t.fl.free, 2 ≤ p) (h : (t.allocate n).2.numPages ≠ t.numPages) :
    hasRun n t.fl.free = false ∧ (t.allocate n).1 = t.numPages ∧ (t.allocate n).2.numPages = t.numPages + n := by
  unfold TxFL.allocate at h ⊢
  cases hA : t.fl.allocate n with
  | some r => simp [hA] at h
  | none =>
    exact ⟨findRun_complete n t.fl.free hn ha h2 (allocate_none _ _ hA), rfl, rfl⟩

/-- A5: release moves exactly the pages freed by transactions older than `bound` into the free set -/
theorem release_spec (f : FL) (bound : Nat) (ha : ascending (f.pending.map (·.1)) = true) :
    (∀ p, p ∈ (f.release bound).free ↔ (p ∈ f.free ∨ ∃ e ∈ f.pending, e.1 < bound ∧ p ∈ e.2)) ∧
    (∀ e, e ∈ (f.release bound).pending ↔ (e ∈ f.pending ∧ bound ≤ e.1)) := by
  have ha' := (ascending_iff _).1 ha
  exact ⟨release_free_mem f bound ha', release_pending_mem f bound ha'⟩

/-- P1: the invariant holds initially (a freshly created file: pages 2 and 3 reachable, nothing free) -/
theorem inv_init : ({ cur := { txId := 0, reach := [2, 3] }, shared := {}, readers := [], numPages := 4 } : Sys).invB = true := by
  decide

/-- P2: every step of a protocol-abiding client preserves the invariant -/
theorem inv_step (s : Sys) (ev : Ev) (hi : s.invB = true) (hc : s.clientOkB ev = true) :
    (s.step ev).invB = true := by
  rw [invB_iff] at hi ⊢
  cases ev with
  | beginR =>
    obtain ⟨h1, h2, h3, h4, h5, h6, h7, h8, h9, h10, h11⟩ := hi
    refine ⟨h1, h2, h3, h4, h5, h6, h7, h8, h9, ?_, h11⟩
    intro r hr
    rcases List.mem_append.1 hr with hr | hr
    · exact h10 r hr
    · rw [List.mem_singleton] at hr
      subst hr
      exact ⟨Nat.le_refl _, fun p hp => Or.inl hp⟩
  | endR i =>
    obtain ⟨h1, h2, h3, h4, h5, h6, h7, h8, h9, h10, h11⟩ := hi
    refine ⟨h1, h2, h3, h4, h5, h6, h7, h8, h9, ?_, h11⟩
    intro r hr
    exact h10 r ((List.eraseIdx_sublist _ _).subset hr)
  | dropW w => exact hi
  | commitW w =>
    simp only [Sys.clientOkB, Bool.and_eq_true, List.all_eq_true, List.contains_iff_mem, nodupB_iff] at hc
    exact inv_commit hi w hc.1.1 hc.1.2

/-- P3 (C03): a committing writer never writes a page of any open reader's snapshot -/
theorem reader_pages_not_written (s : Sys) (w : WriterTx) (hi : s.invB = true)
    (hc : s.clientOkB (.commitW w) = true) (r : Snap) (hr : r ∈ s.readers) :
    disjointB r.reach (s.writes w) = true := by
  rw [invB_iff] at hi
  rw [disjointB_iff]
  intro p hp hw
  have hA := run_ainv hi w
  have hal := hA.al p hw
  obtain ⟨_, hreach⟩ := hi.rd r hr
  rcases hreach p hp with h | h
  · rcases hal.1 with h' | h'
    · exact f1_free_not_reach hi h' h
    · have := (hi.rng p (Or.inl (Or.inl h))).2; omega
  · obtain ⟨e, he, hlt, hpe⟩ := (mem_pendingAbove _ _ _).1 h
    have hb := bound_le_reader s r hr
    have he1 : e ∈ s.f1.pending := (release_pending_mem s.shared s.bound hi.ascKeys e).2 ⟨he, by omega⟩
    have hpp1 : p ∈ s.f1.pendingPages := (mem_pendingPages _ _).2 ⟨e, he1, hpe⟩
    rcases hal.1 with h' | h'
    · exact f1_disj hi h' hpp1
    · have := (hi.rng p (Or.inr (f1_pp_sub hpp1))).2; omega

/-- P4 (C03): pages of an open reader's snapshot are never in the shared free set -/
theorem reader_pages_not_free (s : Sys) (hi : s.invB = true) (r : Snap) (hr : r ∈ s.readers) :
    disjointB r.reach s.shared.free = true := by
  rw [invB_iff] at hi
  rw [disjointB_iff]
  intro p hp hf
  obtain ⟨_, hreach⟩ := hi.rd r hr
  rcases hreach p hp with h | h
  · exact hi.djRF p h hf
  · obtain ⟨e, he, _, hpe⟩ := (mem_pendingAbove _ _ _).1 h
    exact hi.djFP p hf ((mem_pendingPages _ _).2 ⟨e, he, hpe⟩)

/-- P5 (C10): with no reader open, the next writer releases every pending page -/
theorem release_all_when_no_reader (s : Sys) (hi : s.invB = true) (h : s.readers = []) :
    s.beginWriter.fl.pending = [] := by
  rw [invB_iff] at hi
  rw [beginWriter_eq, bound_no_reader s h]
  show (s.shared.release (s.cur.txId + 1)).pending = []
  rw [List.eq_nil_iff_forall_not_mem]
  intro e he
  obtain ⟨he1, he2⟩ := (release_pending_mem s.shared _ hi.ascKeys e).1 he
  have := hi.keysLe e he1
  omega

/-- the invariant along any history of protocol-abiding events -/
def Sys.runEvs (s : Sys) : List Ev → Option Sys
  | [] => some s
  | ev :: rest => if s.clientOkB ev then (s.step ev).runEvs rest else none

theorem inv_run (s : Sys) (evs : List Ev) (s' : Sys) (hi : s.invB = true) (h : s.runEvs evs = some s') :
    s'.invB = true := by
  induction evs generalizing s with
  | nil =>
    simp only [Sys.runEvs, Option.some.injEq] at h
    subst h; exact hi
  | cons ev rest ih =>
    unfold Sys.runEvs at h
    split at h
    · rename_i hc
      exact ih (s.step ev) (inv_step s ev hi hc) h
    · simp at h

end Jamm
