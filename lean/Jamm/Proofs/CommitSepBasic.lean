/-
Layer C proofs, part 2a: tools for the separator invariant `WFS` / `WFFS`:
joint induction, weakening of the bounds, merging two adjacent well-formed nodes, the effect of
`Forest.mergeChild` on the entry list of a well-formed branch, and lifting through `atBranch`.

None of this needs the uniform-depth hypothesis: `Tree.mergeInto` on nodes of different kinds returns
its first argument, which is well-formed for the wider interval anyway.
-/
import Jamm.Model.CommitInv
import Jamm.Proofs.TreeWF
set_option linter.unusedSectionVars false
open Std

namespace Jamm

section defs
variable {K E : Type} [Ord K]

/-- joint induction over `WFS` / `WFFS` derivations -/
theorem wfsSep_induct {P : Option K → Option K → Tree K E → Prop}
    {Q : Option K → Option K → K → Tree K E → Forest K E → Prop}
    (leaf : ∀ lo hi p es, Spec.Sorted es → (∀ e ∈ es, inLo lo e.1 ∧ inHi hi e.1) →
      P lo hi (.leaf p es))
    (branch : ∀ lo hi p k t rest, inLo lo k → inHi hi k → WFFS (sepLo lo k) hi k t rest →
      Q (sepLo lo k) hi k t rest → P lo hi (.branch p (.cons k t rest)))
    (emptyBranch : ∀ lo hi p, P lo hi (.branch p .nil))
    (last : ∀ lo hi k t, WFS lo hi t → P lo hi t → Q lo hi k t .nil)
    (cons : ∀ lo hi k t k' t' rest, klt k k' = true → inLo lo k' → inHi hi k' →
      WFS lo (some k') t → WFFS (some k') hi k' t' rest →
      P lo (some k') t → Q (some k') hi k' t' rest → Q lo hi k t (.cons k' t' rest)) :
    (∀ lo hi t, WFS lo hi t → P lo hi t) ∧ (∀ lo hi k t rest, WFFS lo hi k t rest → Q lo hi k t rest) :=
  ⟨fun _ _ _ h => WFS.rec (motive_1 := fun lo hi t _ => P lo hi t)
      (motive_2 := fun lo hi k t rest _ => Q lo hi k t rest) leaf branch emptyBranch last cons h,
   fun _ _ _ _ _ h => WFFS.rec (motive_1 := fun lo hi t _ => P lo hi t)
      (motive_2 := fun lo hi k t rest _ => Q lo hi k t rest) leaf branch emptyBranch last cons h⟩

/-- `lo'` is a weaker (smaller or absent) lower bound than `lo` -/
def loLe (lo' lo : Option K) : Prop :=
  match lo', lo with
  | none, _ => True
  | some _, none => False
  | some a, some b => kle a b = true

/-- `hi'` is a weaker (larger or absent) upper bound than `hi` -/
def hiLe (hi hi' : Option K) : Prop :=
  match hi, hi' with
  | _, none => True
  | none, some _ => False
  | some a, some b => kle a b = true

end defs

variable {K E : Type} [Ord K] [TransOrd K] [LawfulEqOrd K] [DecidableEq K]

/-! ### bounds -/

theorem loLe_refl (lo : Option K) : loLe lo lo := by
  cases lo with
  | none => trivial
  | some a => exact kle_refl a

theorem hiLe_refl (hi : Option K) : hiLe hi hi := by
  cases hi with
  | none => trivial
  | some a => exact kle_refl a

theorem inLo_of_loLe {lo' lo : Option K} {k : K} (h : loLe lo' lo) (hk : inLo lo k) : inLo lo' k := by
  cases lo' with
  | none => trivial
  | some a =>
    cases lo with
    | none => exact absurd h id
    | some b => exact kle_trans h hk

theorem inHi_of_hiLe {hi hi' : Option K} {k : K} (h : hiLe hi hi') (hk : inHi hi k) : inHi hi' k := by
  cases hi' with
  | none => trivial
  | some b =>
    cases hi with
    | none => exact absurd h id
    | some a => exact klt_of_klt_of_kle hk h

theorem loLe_sepLo {lo' lo : Option K} (k : K) (h : loLe lo' lo) : loLe (sepLo lo' k) (sepLo lo k) := by
  cases lo' with
  | none => trivial
  | some a =>
    cases lo with
    | none => exact absurd h id
    | some b => exact kle_refl k

theorem loLe_of_inLo {lo : Option K} {m : K} (h : inLo lo m) : loLe lo (some m) := by
  cases lo with
  | none => trivial
  | some a => exact h

theorem hiLe_of_inHi {hi : Option K} {m : K} (h : inHi hi m) : hiLe (some m) hi := by
  cases hi with
  | none => trivial
  | some a => exact kle_of_klt h

theorem loLe_sepLo_some (lo : Option K) (k : K) : loLe (sepLo lo k) (some k) := by
  cases lo with
  | none => trivial
  | some a => exact kle_refl k

theorem inLo_sepLo {lo : Option K} {k a : K} (h : kle k a = true) : inLo (sepLo lo k) a := by
  cases lo with
  | none => trivial
  | some l => exact h

/-! ### weakening the bounds -/

theorem wfs_weaken_aux :
    (∀ (lo hi : Option K) (t : Tree K E), WFS lo hi t →
      ∀ lo' hi', loLe lo' lo → hiLe hi hi' → WFS lo' hi' t) ∧
    (∀ (lo hi : Option K) (k : K) (t : Tree K E) (rest : Forest K E), WFFS lo hi k t rest →
      ∀ lo' hi', loLe lo' lo → hiLe hi hi' → WFFS lo' hi' k t rest) := by
  apply wfsSep_induct
  · intro lo hi p es hs hb lo' hi' hl hh
    exact WFS.leaf _ _ _ _ hs (fun e he => ⟨inLo_of_loLe hl (hb e he).1, inHi_of_hiLe hh (hb e he).2⟩)
  · intro lo hi p k t rest hlo hhi _ ih lo' hi' hl hh
    exact WFS.branch _ _ _ _ _ _ (inLo_of_loLe hl hlo) (inHi_of_hiLe hh hhi)
      (ih _ _ (loLe_sepLo k hl) hh)
  · intro lo hi p lo' hi' _ _
    exact WFS.emptyBranch _ _ _
  · intro lo hi k t _ ih lo' hi' hl hh
    exact WFFS.last _ _ _ _ (ih _ _ hl hh)
  · intro lo hi k t k' t' rest hk hlo' hhi' _ _ iht ihr lo' hi' hl hh
    exact WFFS.cons _ _ _ _ _ _ _ hk (inLo_of_loLe hl hlo') (inHi_of_hiLe hh hhi')
      (iht _ _ hl (hiLe_refl _)) (ihr _ _ (loLe_refl _) hh)

theorem WFS.weaken {lo hi lo' hi' : Option K} {t : Tree K E} (h : WFS lo hi t)
    (hl : loLe lo' lo) (hh : hiLe hi hi') : WFS lo' hi' t :=
  wfs_weaken_aux.1 lo hi t h lo' hi' hl hh

theorem WFFS.weaken {lo hi lo' hi' : Option K} {k : K} {t : Tree K E} {rest : Forest K E}
    (h : WFFS lo hi k t rest) (hl : loLe lo' lo) (hh : hiLe hi hi') : WFFS lo' hi' k t rest :=
  wfs_weaken_aux.2 lo hi k t rest h lo' hi' hl hh

/-- the page id of a branch is irrelevant -/
theorem WFS.repid {lo hi : Option K} {p : Nat} {kids : Forest K E} (h : WFS lo hi (.branch p kids))
    (p' : Nat) : WFS lo hi (.branch p' kids) := by
  cases h with
  | branch _ _ _ k t rest hlo hhi hf => exact WFS.branch _ _ _ _ _ _ hlo hhi hf
  | emptyBranch => exact WFS.emptyBranch _ _ _

/-! ### appending entry lists, merging adjacent nodes -/

theorem Forest.append_nil : ∀ f : Forest K E, f.append .nil = f
  | .nil => rfl
  | .cons k t rest => by
    show Forest.cons k t (rest.append .nil) = _
    rw [Forest.append_nil rest]

/-- the entry list of a node bounded above by `m`, followed by the entry list of a node whose first key
`kx ≥ m` bounds everything below it -/
theorem wffs_append {m kx : K} {hi : Option K} {x0 : Tree K E} {xrest : Forest K E}
    (hm : kle m kx = true) (hhi : inHi hi kx) (hx : WFFS (some kx) hi kx x0 xrest) :
    ∀ (rest : Forest K E) (lo : Option K) (k : K) (t : Tree K E), WFFS lo (some m) k t rest →
      klt k kx = true → inLo lo kx → WFFS lo hi k t (rest.append (.cons kx x0 xrest))
  | .nil, lo, k, t, h, hk, hl => by
    cases h with
    | last _ _ _ _ ht =>
      exact WFFS.cons _ _ _ _ _ _ _ hk hl hhi (ht.weaken (loLe_refl _) hm) hx
  | .cons k' t' rest', lo, k, t, h, hk, hl => by
    cases h with
    | cons _ _ _ _ _ _ _ hkk hlo' hhi' ht hr =>
      have hk' : klt k' kx = true := klt_of_klt_of_kle hhi' hm
      show WFFS lo hi k t (.cons k' t' (rest'.append (.cons kx x0 xrest)))
      exact WFFS.cons _ _ _ _ _ _ _ hkk hlo' (inHi_of_klt hk' hhi) ht
        (wffs_append hm hhi hx rest' (some k') k' t' hr hk' (kle_of_klt hk'))

/-- two adjacent well-formed nodes merge into a well-formed node for the union of their intervals -/
theorem merge_wfs {lo hi : Option K} {m : K} {a b : Tree K E} (p : Nat)
    (ha : WFS lo (some m) a) (hb : WFS (some m) hi b) (hlo : inLo lo m) (hhi : inHi hi m) :
    WFS lo hi (Tree.mergeInto p a b) := by
  cases a with
  | leaf p1 es1 =>
    cases b with
    | branch p2 k2 => exact ha.weaken (loLe_refl _) (hiLe_of_inHi hhi)
    | leaf p2 es2 =>
      show WFS lo hi (.leaf _ (es1 ++ es2))
      cases ha with
      | leaf _ _ _ _ hs1 hb1 =>
      cases hb with
      | leaf _ _ _ _ hs2 hb2 =>
        refine WFS.leaf _ _ _ _ (Spec.sorted_append hs1 hs2 ?_) ?_
        · intro x hx y hy
          exact klt_of_klt_of_kle (hb1 x hx).2 (hb2 y hy).1
        · intro e he
          rcases List.mem_append.mp he with he | he
          · exact ⟨(hb1 e he).1, inHi_of_klt (hb1 e he).2 hhi⟩
          · exact ⟨inLo_of_kle hlo (hb2 e he).1, (hb2 e he).2⟩
  | branch p1 k1 =>
    cases b with
    | leaf p2 es2 => exact ha.weaken (loLe_refl _) (hiLe_of_inHi hhi)
    | branch p2 k2 =>
      show WFS lo hi (.branch _ (k1.append k2))
      cases ha with
      | emptyBranch =>
        exact (hb.weaken (loLe_of_inLo hlo) (hiLe_refl _)).repid _
      | branch _ _ _ kx x0 xrest hxlo hxhi hxf =>
        cases hb with
        | emptyBranch =>
          rw [Forest.append_nil]
          exact WFS.branch _ _ _ _ _ _ hxlo (inHi_of_klt hxhi hhi)
            (hxf.weaken (loLe_refl _) (hiLe_of_inHi hhi))
        | branch _ _ _ ks s0 srest hslo hshi hsf =>
          have hks : klt kx ks = true := klt_of_klt_of_kle hxhi hslo
          show WFS lo hi (.branch _ (.cons kx x0 (xrest.append (.cons ks s0 srest))))
          exact WFS.branch _ _ _ _ _ _ hxlo (inHi_of_klt hxhi hhi)
            (wffs_append hslo hshi hsf xrest _ kx x0 hxf hks (inLo_sepLo (kle_of_klt hks)))

/-! ### surgery on the entry list of a branch -/

/-- dropping the second entry: the first child's interval grows -/
theorem wffs_drop2 {lo hi : Option K} {k k' : K} {t x : Tree K E} {rest : Forest K E}
    (h : WFFS lo hi k t (.cons k' x rest)) : WFFS lo hi k t rest := by
  cases h with
  | cons _ _ _ _ _ _ _ hk hlo' hhi' ht hx =>
    cases hx with
    | last _ _ _ _ _ =>
      exact WFFS.last _ _ _ _ (ht.weaken (loLe_refl _) (hiLe_of_inHi hhi'))
    | cons _ _ _ _ k'' t'' rest'' hk' hlo'' hhi'' _ hr =>
      exact WFFS.cons _ _ _ _ _ _ _ (klt_trans hk hk') (inLo_of_kle hlo' hlo'') hhi''
        (ht.weaken (loLe_refl _) (kle_of_klt hk')) hr

/-- merging the first two entries under the first key -/
theorem wffs_merge2 {lo hi : Option K} {k k' : K} {t x : Tree K E} {rest : Forest K E} (p : Nat)
    (h : WFFS lo hi k t (.cons k' x rest)) : WFFS lo hi k (Tree.mergeInto p t x) rest := by
  cases h with
  | cons _ _ _ _ _ _ _ hk hlo' hhi' ht hx =>
    cases hx with
    | last _ _ _ _ hxw =>
      exact WFFS.last _ _ _ _ (merge_wfs p ht hxw hlo' hhi')
    | cons _ _ _ _ k'' t'' rest'' hk' hlo'' hhi'' hxw hr =>
      exact WFFS.cons _ _ _ _ _ _ _ (klt_trans hk hk') (inLo_of_kle hlo' hlo'') hhi''
        (merge_wfs p ht hxw hlo' hk') hr

theorem mergeChild_nil (i : Nat) : Forest.mergeChild (.nil : Forest K E) i = .nil := rfl

theorem mergeChild_single_zero (k : K) (x : Tree K E) :
    Forest.mergeChild (.cons k x .nil) 0 = if x.isEmptyNode then .nil else .cons k x .nil := rfl

theorem mergeChild_cons_cons_zero (k k' : K) (x s : Tree K E) (rest : Forest K E) :
    Forest.mergeChild (.cons k x (.cons k' s rest)) 0 =
      if x.isEmptyNode then .cons k' s rest else .cons k (Tree.mergeInto s.pid x s) rest := rfl

theorem mergeChild_cons_cons_one (kl k : K) (l x : Tree K E) (rest : Forest K E) :
    Forest.mergeChild (.cons kl l (.cons k x rest)) 1 =
      if x.isEmptyNode then .cons kl l rest else .cons kl (Tree.mergeInto l.pid l x) rest := rfl

theorem mergeChild_single_succ (k : K) (x : Tree K E) (i : Nat) :
    Forest.mergeChild (.cons k x .nil) (i + 1) = .cons k x .nil := rfl

theorem mergeChild_cons_cons_succ_succ (k k' : K) (x s : Tree K E) (rest : Forest K E) (i : Nat) :
    Forest.mergeChild (.cons k x (.cons k' s rest)) (i + 2) =
      .cons k x (Forest.mergeChild (.cons k' s rest) (i + 1)) := rfl

/-- `mergeChild` at an index `> 0` keeps the first key and the well-formedness of the entry list -/
theorem mergeChild_succ_wffs : ∀ (rest : Forest K E) (i : Nat) (lo hi : Option K) (k : K) (t : Tree K E),
    WFFS lo hi k t rest →
    ∃ t₁ rest₁, Forest.mergeChild (.cons k t rest) (i + 1) = .cons k t₁ rest₁ ∧ WFFS lo hi k t₁ rest₁
  | .nil, i, lo, hi, k, t, h => ⟨t, .nil, mergeChild_single_succ k t i, h⟩
  | .cons k' x rest', 0, lo, hi, k, t, h => by
    rw [mergeChild_cons_cons_one]
    by_cases hx : x.isEmptyNode = true
    · rw [if_pos hx]
      exact ⟨t, rest', rfl, wffs_drop2 h⟩
    · rw [if_neg hx]
      exact ⟨_, rest', rfl, wffs_merge2 _ h⟩
  | .cons k' x rest', i + 1, lo, hi, k, t, h => by
    rw [mergeChild_cons_cons_succ_succ]
    cases h with
    | cons _ _ _ _ _ _ _ hk hlo' hhi' ht hx =>
      obtain ⟨t₁, rest₁, heq, hw⟩ := mergeChild_succ_wffs rest' i (some k') hi k' x hx
      rw [heq]
      exact ⟨t, .cons k' t₁ rest₁, rfl, WFFS.cons _ _ _ _ _ _ _ hk hlo' hhi' ht hw⟩

/-- `mergeChild` on the entry list of a well-formed branch gives a well-formed branch (possibly one
without entries) for the same bounds -/
theorem mergeChild_wfs {lo hi : Option K} {p : Nat} {kids : Forest K E}
    (h : WFS lo hi (.branch p kids)) (p' i : Nat) : WFS lo hi (.branch p' (kids.mergeChild i)) := by
  cases h with
  | emptyBranch => exact WFS.emptyBranch _ _ _
  | branch _ _ _ k x rest hlo hhi hf =>
    cases i with
    | succ j =>
      obtain ⟨t₁, rest₁, heq, hw⟩ := mergeChild_succ_wffs rest j _ _ k x hf
      rw [heq]
      exact WFS.branch _ _ _ _ _ _ hlo hhi hw
    | zero =>
      cases rest with
      | nil =>
        rw [mergeChild_single_zero]
        by_cases hx : x.isEmptyNode = true
        · rw [if_pos hx]; exact WFS.emptyBranch _ _ _
        · rw [if_neg hx]; exact WFS.branch _ _ _ _ _ _ hlo hhi hf
      | cons k' s rest' =>
        rw [mergeChild_cons_cons_zero]
        by_cases hx : x.isEmptyNode = true
        · rw [if_pos hx]
          cases hf with
          | cons _ _ _ _ _ _ _ hk hlo' hhi' _ hs =>
            have hkk : inLo lo k' := inLo_of_kle hlo (kle_of_klt hk)
            exact WFS.branch _ _ _ _ _ _ hkk hhi' (hs.weaken (loLe_sepLo_some lo k') (hiLe_refl _))
        · rw [if_neg hx]
          exact WFS.branch _ _ _ _ _ _ hlo hhi (wffs_merge2 _ hf)

/-! ### lifting through `atBranch` -/

theorem atBranch_wfs_aux (page : Nat) (f : Forest K E → Forest K E)
    (hf : ∀ (lo hi : Option K) (p p' : Nat) (kids : Forest K E),
      WFS lo hi (.branch p kids) → WFS lo hi (.branch p' (f kids))) :
    (∀ (lo hi : Option K) (t : Tree K E), WFS lo hi t → WFS lo hi (Tree.atBranch page f t)) ∧
    (∀ (lo hi : Option K) (k : K) (t : Tree K E) (rest : Forest K E), WFFS lo hi k t rest →
      WFFS lo hi k (Tree.atBranch page f t) (Forest.atBranch page f rest)) := by
  apply wfsSep_induct
  · intro lo hi p es hs hb
    simp only [Tree.atBranch]
    exact WFS.leaf _ _ _ _ hs hb
  · intro lo hi p k t rest hlo hhi hw ih
    simp only [Tree.atBranch]
    split
    · exact WFS.branch _ _ _ _ _ _ hlo hhi hw
    · split
      · exact hf _ _ p _ _ (WFS.branch _ _ _ _ _ _ hlo hhi hw)
      · simp only [Forest.atBranch]
        exact WFS.branch _ _ _ _ _ _ hlo hhi ih
  · intro lo hi p
    simp only [Tree.atBranch]
    split
    · exact WFS.emptyBranch _ _ _
    · split
      · exact hf _ _ p _ _ (WFS.emptyBranch _ _ _)
      · simp only [Forest.atBranch]
        exact WFS.emptyBranch _ _ _
  · intro lo hi k t _ ih
    simp only [Forest.atBranch]
    exact WFFS.last _ _ _ _ ih
  · intro lo hi k t k' t' rest hk hlo' hhi' _ _ iht ihr
    simp only [Forest.atBranch] at ihr ⊢
    exact WFFS.cons _ _ _ _ _ _ _ hk hlo' hhi' iht ihr

theorem atBranch_mergeChild_wfs {lo hi : Option K} {t : Tree K E} (h : WFS lo hi t) (page i : Nat) :
    WFS lo hi (Tree.atBranch page (fun f => Forest.mergeChild f i) t) :=
  (atBranch_wfs_aux page (fun f => Forest.mergeChild f i)
    (fun _ _ _ p' _ hb => mergeChild_wfs hb p' i)).1 lo hi t h

end Jamm
