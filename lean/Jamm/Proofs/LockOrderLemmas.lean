/-
Layer P (threads), part 3 proofs: a system whose thread programs all respect the lock order
(`Ordered`) never deadlocks, for any number of threads, any schedule and both admission policies of
the rwlock; exclusive holds are exclusive; every step consumes work, so every thread can finish.

The argument is the usual one for ordered locking, adapted to a writer-preferring rwlock: if nobody
can move, every unfinished thread waits for a lock; whoever is in its way holds something, hence is
unfinished, hence waits for a lock ranked strictly above everything it holds — in particular above the
lock the first thread waits for.  A reader that is blocked only by a *waiting* writer is blocked,
through that writer, by whoever holds M.  So the ranks of the wanted locks would grow for ever.
-/
import Jamm.Model.LockOrder
import Jamm.Proofs.LockLemmas
set_option linter.unusedSectionVars false

namespace Jamm.LockOrder

/-! ### the discipline, one thread -/

theorem Lk.rank_lt_five (l : Lk) : l.rank < 5 := by cases l <;> decide

theorem Held.isNone_eq (h : Held) (hn : h.isNone = true) : h = .none := by
  obtain ⟨ex, rd⟩ := h
  cases ex <;> cases rd <;> simp_all [Held.isNone, Held.none]

theorem Held.has_none (l : Lk) : Held.none.has l = false := by
  cases l <;> rfl

/-- a held lock is ranked below any lock that may be acquired -/
theorem Held.below_has (h : Held) (l k : Lk) (hb : h.below l = true) (hk : h.has k = true) :
    k.rank < l.rank := by
  simp only [Held.below, Bool.and_eq_true, List.all_eq_true, decide_eq_true_eq, Bool.or_eq_true,
    Bool.not_eq_true'] at hb
  simp only [Held.has, Bool.or_eq_true, List.contains_iff_mem, Bool.and_eq_true, beq_iff_eq] at hk
  rcases hk with hk | ⟨rfl, hr⟩
  · exact hb.1 k hk
  · rcases hb.2 with h0 | h0
    · rw [hr] at h0; cases h0
    · exact h0

theorem Held.has_after (h : Held) (a : Act) (l : Lk) (hl : (h.after a).has l = true) :
    h.has l = true ∨ a.want = some l := by
  cases a with
  | acq k =>
    simp only [Held.after, Held.has, Bool.or_eq_true, List.contains_iff_mem, List.mem_cons,
      Bool.and_eq_true, beq_iff_eq] at hl ⊢
    rcases hl with (rfl | hl) | hl
    · right; rfl
    · left; left; exact hl
    · left; right; exact hl
  | acqRead =>
    simp only [Held.after, Held.has, Bool.or_eq_true, List.contains_iff_mem,
      Bool.and_eq_true, beq_iff_eq] at hl ⊢
    rcases hl with hl | ⟨rfl, _⟩
    · left; left; exact hl
    · right; rfl
  | rel k =>
    simp only [Held.after, Held.has, Bool.or_eq_true, List.contains_iff_mem,
      Bool.and_eq_true, beq_iff_eq] at hl ⊢
    rcases hl with hl | hl
    · left; left; exact List.mem_of_mem_erase hl
    · left; right; exact hl
  | relRead =>
    simp only [Held.after, Held.has, Bool.or_eq_true, List.contains_iff_mem,
      Bool.and_eq_true, beq_iff_eq] at hl ⊢
    rcases hl with hl | ⟨_, hl⟩
    · left; left; exact hl
    · cases hl

theorem Held.ex_after (h : Held) (a : Act) (l : Lk) (hl : (h.after a).ex.contains l = true) :
    h.ex.contains l = true ∨ a = .acq l := by
  cases a with
  | acq k =>
    simp only [Held.after, List.contains_iff_mem, List.mem_cons] at hl ⊢
    rcases hl with rfl | hl
    · right; rfl
    · left; exact hl
  | acqRead => left; exact hl
  | rel k =>
    simp only [Held.after, List.contains_iff_mem] at hl ⊢
    left; exact List.mem_of_mem_erase hl
  | relRead => left; exact hl

theorem Held.rd_after (h : Held) (a : Act) (hl : (h.after a).rd = true) :
    h.rd = true ∨ a = .acqRead := by
  cases a <;> simp_all [Held.after]

theorem orderedFrom_append (p q : List Act) (hq : Ordered q = true) :
    ∀ h, OrderedFrom h p = true → OrderedFrom h (p ++ q) = true := by
  induction p with
  | nil =>
    intro h hp
    simp only [OrderedFrom] at hp
    rw [Held.isNone_eq h hp]; exact hq
  | cons a p ih =>
    intro h hp
    simp only [OrderedFrom, Bool.and_eq_true, List.cons_append] at hp ⊢
    exact ⟨hp.1, ih _ hp.2⟩

/-- one transaction after the other -/
theorem ordered_append (p q : List Act) (hp : Ordered p = true) (hq : Ordered q = true) :
    Ordered (p ++ q) = true :=
  orderedFrom_append p q hq _ hp

theorem ordered_flatMap {κ : Type} (prog : κ → List Act) (hprog : ∀ k, Ordered (prog k) = true) :
    ∀ sc : List κ, Ordered (sc.flatMap prog) = true
  | [] => rfl
  | k :: sc => by
    rw [List.flatMap_cons]
    exact ordered_append _ _ (hprog k) (ordered_flatMap prog hprog sc)

/-! ### the system -/

theorem Sys.enabled_eq (s : Sys) (i : Nat) (t : Thread) (ht : s.threads[i]? = some t) :
    s.enabled i = s.ready t := by
  unfold Sys.enabled; rw [ht]

theorem Sys.enabled_of_mem (s : Sys) (t : Thread) (ht : t ∈ s.threads) (hr : s.ready t = true) :
    ∃ i, s.enabled i = true := by
  obtain ⟨i, hi⟩ := List.mem_iff_getElem?.mp ht
  exact ⟨i, by rw [s.enabled_eq i t hi, hr]⟩

theorem Sys.enabled_lt (s : Sys) (i : Nat) (h : s.enabled i = true) : i < s.threads.length := by
  unfold Sys.enabled at h
  cases ht : s.threads[i]? with
  | none => rw [ht] at h; cases h
  | some t => exact (List.getElem?_eq_some_iff.mp ht).1

/-- `stuck` says what it should -/
theorem Sys.stuck_iff (s : Sys) :
    s.stuck = true ↔ s.allFinished = false ∧ ∀ i, s.enabled i = false := by
  simp only [Sys.stuck, Bool.and_eq_true, Bool.not_eq_true', List.all_eq_true, List.mem_range]
  constructor
  · rintro ⟨h1, h2⟩
    refine ⟨h1, fun i => ?_⟩
    cases he : s.enabled i with
    | false => rfl
    | true => rw [h2 i (s.enabled_lt i he)] at he; cases he
  · rintro ⟨h1, h2⟩
    exact ⟨h1, fun i _ => h2 i⟩

theorem Sys.exHeld_false (s : Sys) (l : Lk) (h : s.exHeld l = false) (t : Thread) (ht : t ∈ s.threads) :
    t.held.ex.contains l = false := by
  have := List.any_eq_false.mp h t ht
  simpa using this

theorem Sys.rdHeld_false (s : Sys) (h : s.rdHeld = false) (t : Thread) (ht : t ∈ s.threads) :
    t.held.rd = false := by
  have := List.any_eq_false.mp h t ht
  simpa using this

/-- an acquisition that can be performed is of a lock nobody holds exclusively -/
theorem Sys.guard_want (s : Sys) (a : Act) (l : Lk) (hg : s.guard a = true) (hw : a.want = some l)
    (t : Thread) (ht : t ∈ s.threads) : t.held.ex.contains l = false := by
  cases a with
  | acq k =>
    simp only [Act.want, Option.some.injEq] at hw; subst hw
    simp only [Sys.guard, Bool.and_eq_true, Bool.not_eq_true'] at hg
    exact s.exHeld_false _ hg.1 t ht
  | acqRead =>
    simp only [Act.want, Option.some.injEq] at hw; subst hw
    simp only [Sys.guard, Bool.and_eq_true, Bool.not_eq_true'] at hg
    exact s.exHeld_false _ hg.1 t ht
  | rel k => cases hw
  | relRead => cases hw

/-- an exclusive acquisition that can be performed is of a lock nobody holds in any mode -/
theorem Sys.guard_acq (s : Sys) (l : Lk) (hg : s.guard (.acq l) = true)
    (t : Thread) (ht : t ∈ s.threads) : t.held.has l = false := by
  simp only [Sys.guard, Bool.and_eq_true, Bool.not_eq_true', Bool.and_eq_false_iff] at hg
  have h1 := s.exHeld_false _ hg.1 t ht
  simp only [Held.has, h1, Bool.false_or, Bool.and_eq_false_iff]
  rcases hg.2 with h2 | h2
  · left; exact h2
  · right; exact s.rdHeld_false h2 t ht

/-! ### the invariant -/

structure Inv (s : Sys) : Prop where
  /-- what a thread holds and what it still has to do fit the discipline -/
  ord : ∀ t ∈ s.threads, OrderedFrom t.held t.prog = true
  /-- a lock held exclusively by one thread is not held, in any mode, by another -/
  excl : ∀ (i j : Nat) (ti tj : Thread), s.threads[i]? = some ti → s.threads[j]? = some tj → i ≠ j →
    ∀ l, ti.held.has l = true → tj.held.ex.contains l = false
  /-- nor does a thread hold M in both modes -/
  self : ∀ t ∈ s.threads, t.held.rd = true → t.held.ex.contains .M = false

theorem inv_init (progs : List (List Act)) (admit : Bool) (h : ∀ p ∈ progs, Ordered p = true) :
    Inv (Sys.init progs admit) := by
  constructor
  · intro t ht
    simp only [Sys.init, List.mem_map] at ht
    obtain ⟨p, hp, rfl⟩ := ht
    exact h p hp
  · intro i j ti tj hi _ _ l hl
    have hm := List.mem_of_getElem? hi
    simp only [Sys.init, List.mem_map] at hm
    obtain ⟨p, _, rfl⟩ := hm
    rw [Held.has_none] at hl; cases hl
  · intro t ht
    simp only [Sys.init, List.mem_map] at ht
    obtain ⟨p, _, rfl⟩ := ht
    intro h; cases h

theorem Sys.step_threads (s : Sys) (i : Nat) (t : Thread) (ht : s.threads[i]? = some t) :
    (s.step i).threads = s.threads.set i t.next := by
  unfold Sys.step; rw [ht]

theorem Sys.step_admit (s : Sys) (i : Nat) : (s.step i).admit = s.admit := by
  unfold Sys.step; cases s.threads[i]? <;> rfl

/-- an enabled thread has a next action whose guard holds -/
theorem Sys.enabled_inv (s : Sys) (i : Nat) (he : s.enabled i = true) :
    ∃ a p h, s.threads[i]? = some ⟨a :: p, h⟩ ∧ s.guard a = true ∧
      (s.step i).threads = s.threads.set i ⟨p, h.after a⟩ := by
  unfold Sys.enabled at he
  cases ht : s.threads[i]? with
  | none => rw [ht] at he; cases he
  | some t =>
    rw [ht] at he
    obtain ⟨prog, h⟩ := t
    cases prog with
    | nil => simp [Sys.ready] at he
    | cons a p =>
      refine ⟨a, p, h, rfl, he, ?_⟩
      rw [s.step_threads i _ ht]; rfl

theorem inv_step (s : Sys) (i : Nat) (hs : Inv s) (he : s.enabled i = true) : Inv (s.step i) := by
  obtain ⟨a, p, h, ht, hg, hstep⟩ := s.enabled_inv i he
  have htm : (⟨a :: p, h⟩ : Thread) ∈ s.threads := List.mem_of_getElem? ht
  have hlt : i < s.threads.length := (List.getElem?_eq_some_iff.mp ht).1
  constructor
  · intro t' ht'
    rw [hstep] at ht'
    rcases List.mem_or_eq_of_mem_set ht' with hm | rfl
    · exact hs.ord t' hm
    · have := hs.ord _ htm
      simp only [OrderedFrom, Bool.and_eq_true] at this
      exact this.2
  · intro i' j' ti tj hi' hj' hne l hl
    rw [hstep, List.getElem?_set] at hi' hj'
    by_cases h1 : i = i'
    · -- the thread that moved holds `l` now
      subst h1
      have h2 : ¬ i = j' := hne
      simp only [hlt, if_true, Option.some.injEq] at hi'
      simp only [h2, if_false] at hj'
      subst hi'
      rcases Held.has_after h a l hl with hold | hw
      · exact hs.excl i j' _ tj ht hj' hne l hold
      · exact s.guard_want a l hg hw tj (List.mem_of_getElem? hj')
    · simp only [h1, if_false] at hi'
      by_cases h3 : i = j'
      · -- the thread that moved is the one that must not hold `l` exclusively
        subst h3
        simp only [hlt, if_true, Option.some.injEq] at hj'
        subst hj'
        cases hc : (h.after a).ex.contains l with
        | false => rfl
        | true =>
          rcases Held.ex_after h a l hc with hold | rfl
          · rw [hs.excl i' i ti _ hi' ht hne l hl] at hold; cases hold
          · rw [s.guard_acq l hg ti (List.mem_of_getElem? hi')] at hl; cases hl
      · simp only [h3, if_false] at hj'
        exact hs.excl i' j' ti tj hi' hj' hne l hl
  · intro t' ht' hrd
    rw [hstep] at ht'
    rcases List.mem_or_eq_of_mem_set ht' with hm | rfl
    · exact hs.self t' hm hrd
    · cases hc : (h.after a).ex.contains .M with
      | false => rfl
      | true =>
        exfalso
        rcases Held.rd_after h a hrd with hr0 | rfl
        · rcases Held.ex_after h a .M hc with hold | rfl
          · rw [hs.self _ htm hr0] at hold; cases hold
          · have := s.guard_acq .M hg _ htm
            simp [Held.has, hr0] at this
        · have := s.guard_want .acqRead .M hg rfl _ htm
          have hc' : h.ex.contains .M = true := hc
          rw [show h.ex.contains .M = false from this] at hc'; cases hc'

theorem inv_run (sched : List Nat) : ∀ s : Sys, Inv s → Inv (s.run sched) := by
  induction sched with
  | nil => intro s hs; exact hs
  | cons i rest ih =>
    intro s hs
    simp only [Sys.run]
    split
    · next he => exact ih _ (inv_step s i hs he)
    · exact ih _ hs

theorem inv_reachable (progs : List (List Act)) (admit : Bool) (h : ∀ p ∈ progs, Ordered p = true)
    (sched : List Nat) : Inv ((Sys.init progs admit).run sched) :=
  inv_run sched _ (inv_init progs admit h)

/-! ### no deadlock -/

/-- if nobody can move, a thread waiting for `l` is (possibly through a waiting writer) blocked by a
thread that holds `l` -/
theorem blocked_holder (s : Sys) (hno : ∀ t ∈ s.threads, s.ready t = false)
    (t : Thread) (ht : t ∈ s.threads) (l : Lk) (hw : t.wants = some l) :
    ∃ t1 ∈ s.threads, t1.held.has l = true := by
  -- whoever waits for an exclusive hold is blocked by a holder
  have hex : ∀ k, s.exHeld k = true → ∃ t1 ∈ s.threads, t1.held.has k = true := by
    intro k hk
    obtain ⟨t1, h1, h2⟩ := List.any_eq_true.mp hk
    exact ⟨t1, h1, by simp only [Held.has, h2, Bool.true_or]⟩
  have hrd : s.rdHeld = true → ∃ t1 ∈ s.threads, t1.held.has .M = true := by
    intro hk
    obtain ⟨t1, h1, h2⟩ := List.any_eq_true.mp hk
    exact ⟨t1, h1, by simp [Held.has, h2]⟩
  have hacq : ∀ k, s.guard (.acq k) = false → ∃ t1 ∈ s.threads, t1.held.has k = true := by
    intro k hg
    simp only [Sys.guard, Bool.and_eq_false_iff, Bool.not_eq_false', Bool.and_eq_true,
      beq_iff_eq] at hg
    rcases hg with hg | ⟨rfl, hg⟩
    · exact hex k hg
    · exact hrd hg
  have hr := hno t ht
  obtain ⟨prog, h⟩ := t
  cases prog with
  | nil => simp [Thread.wants] at hw
  | cons a p =>
    simp only [Thread.wants] at hw
    simp only [Sys.ready] at hr
    cases a with
    | acq k =>
      simp only [Act.want, Option.some.injEq] at hw; subst hw
      exact hacq k hr
    | acqRead =>
      simp only [Act.want, Option.some.injEq] at hw; subst hw
      simp only [Sys.guard, Bool.and_eq_false_iff, Bool.not_eq_false', Bool.or_eq_false_iff] at hr
      rcases hr with hr | ⟨_, hr⟩
      · exact hex _ hr
      · -- blocked only by a waiting writer: that writer cannot move either
        obtain ⟨w, hwm, hww⟩ := List.any_eq_true.mp hr
        have hwr := hno w hwm
        obtain ⟨wprog, wh⟩ := w
        match wprog, hww, hwr with
        | .acq .M :: _, _, hwr => exact hacq .M hwr
    | rel k => cases hw
    | relRead => cases hw

/-- a thread that holds `l` and cannot move waits for a lock ranked above `l` -/
theorem holder_wants_higher (s : Sys) (t : Thread) (ho : OrderedFrom t.held t.prog = true)
    (hr : s.ready t = false) (l : Lk) (hl : t.held.has l = true) :
    ∃ l1, t.wants = some l1 ∧ l.rank < l1.rank := by
  obtain ⟨prog, h⟩ := t
  cases prog with
  | nil =>
    simp only [OrderedFrom] at ho
    rw [Held.isNone_eq h ho, Held.has_none] at hl; cases hl
  | cons a p =>
    simp only [OrderedFrom, Bool.and_eq_true] at ho
    cases a with
    | acq k => exact ⟨k, rfl, Held.below_has h k l ho.1 hl⟩
    | acqRead => exact ⟨.M, rfl, Held.below_has h .M l ho.1 hl⟩
    | rel k => simp [Sys.ready, Sys.guard] at hr
    | relRead => simp [Sys.ready, Sys.guard] at hr

/-- if nobody can move, nobody waits for a lock: the ranks of the wanted locks would grow for ever -/
theorem no_waiter (s : Sys) (hs : Inv s) (hno : ∀ t ∈ s.threads, s.ready t = false) :
    ∀ (n : Nat) (t : Thread), t ∈ s.threads → ∀ l, t.wants = some l → 5 ≤ l.rank + n → False := by
  intro n
  induction n with
  | zero =>
    intro t _ l _ h5
    have := Lk.rank_lt_five l
    omega
  | succ n ih =>
    intro t ht l hw h5
    obtain ⟨t1, ht1, hl1⟩ := blocked_holder s hno t ht l hw
    obtain ⟨l1, hw1, hlt⟩ := holder_wants_higher s t1 (hs.ord t1 ht1) (hno t1 ht1) l hl1
    exact ih t1 ht1 l1 hw1 (by omega)

/-- **no deadlock**: in a state satisfying the invariant in which some thread is not finished, some
thread can move -/
theorem deadlock_free_inv (s : Sys) (hs : Inv s) (hnf : s.allFinished = false) :
    ∃ i, s.enabled i = true := by
  refine Classical.byContradiction fun hne => ?_
  have hno : ∀ t ∈ s.threads, s.ready t = false := by
    intro t ht
    cases hr : s.ready t with
    | false => rfl
    | true => exact absurd (s.enabled_of_mem t ht hr) hne
  obtain ⟨t, ht, htf⟩ : ∃ t ∈ s.threads, t.finished = false := by
    have := List.all_eq_false.mp hnf
    obtain ⟨t, ht, h⟩ := this
    exact ⟨t, ht, by simpa using h⟩
  have hr := hno t ht
  obtain ⟨prog, h⟩ := t
  cases prog with
  | nil => simp [Thread.finished] at htf
  | cons a p =>
    cases a with
    | acq k => exact no_waiter s hs hno 5 _ ht k rfl (by omega)
    | acqRead => exact no_waiter s hs hno 5 _ ht .M rfl (by omega)
    | rel k => simp [Sys.ready, Sys.guard] at hr
    | relRead => simp [Sys.ready, Sys.guard] at hr

/-- any number of threads, any `Ordered` programs, both admission policies, every schedule -/
theorem deadlock_free_ordered (progs : List (List Act)) (admit : Bool)
    (h : ∀ p ∈ progs, Ordered p = true) (sched : List Nat)
    (hnf : ((Sys.init progs admit).run sched).allFinished = false) :
    ∃ i, ((Sys.init progs admit).run sched).enabled i = true :=
  deadlock_free_inv _ (inv_reachable progs admit h sched) hnf

theorem not_stuck_ordered (progs : List (List Act)) (admit : Bool)
    (h : ∀ p ∈ progs, Ordered p = true) (sched : List Nat) :
    ((Sys.init progs admit).run sched).stuck = false := by
  cases hst : ((Sys.init progs admit).run sched).stuck with
  | false => rfl
  | true =>
    obtain ⟨h1, h2⟩ := (Sys.stuck_iff _).mp hst
    obtain ⟨i, hi⟩ := deadlock_free_ordered progs admit h sched h1
    rw [h2 i] at hi; cases hi

/-! ### mutual exclusion -/

/-- if no two distinct positions both satisfy `p`, at most one element does -/
theorem filter_length_le_one {α : Type} (p : α → Bool) :
    ∀ (l : List α), (∀ (i j : Nat) (a b : α), l[i]? = some a → l[j]? = some b → i ≠ j → p a = true → p b = false) →
      (l.filter p).length ≤ 1
  | [], _ => by simp
  | x :: xs, h => by
    have ih := filter_length_le_one p xs (fun i j a b hi hj hne =>
      h (i+1) (j+1) a b (by simpa using hi) (by simpa using hj) (by omega))
    cases hx : p x with
    | false => simpa [List.filter_cons, hx] using ih
    | true =>
      have hxs : xs.filter p = [] := by
        rw [List.filter_eq_nil_iff]
        intro b hb
        obtain ⟨j, hj⟩ := List.mem_iff_getElem?.mp hb
        have := h 0 (j+1) x b (by simp) (by simpa using hj) (by omega) hx
        simp [this]
      simp [hx, hxs]

/-- every exclusive hold is exclusive: at most one thread holds `l` exclusively -/
theorem exHolders_le_one (s : Sys) (hs : Inv s) (l : Lk) : s.exHolders l ≤ 1 := by
  apply filter_length_le_one
  intro i j a b hi hj hne ha
  exact hs.excl i j a b hi hj hne l (by simp only [Held.has, ha, Bool.true_or])

/-- while some thread holds M-write nobody holds M-read -/
theorem no_readers_while_write (s : Sys) (hs : Inv s) (hw : s.exHolders .M ≠ 0) : s.readers = 0 := by
  have hex : ∃ w ∈ s.threads, w.held.ex.contains .M = true := by
    refine Classical.byContradiction fun hne => hw ?_
    simp only [Sys.exHolders, List.length_eq_zero_iff, List.filter_eq_nil_iff]
    intro t ht hc
    exact hne ⟨t, ht, hc⟩
  obtain ⟨w, hwm, hwh⟩ := hex
  simp only [Sys.readers, List.length_eq_zero_iff, List.filter_eq_nil_iff]
  intro t ht hr
  obtain ⟨i, hi⟩ := List.mem_iff_getElem?.mp ht
  obtain ⟨j, hj⟩ := List.mem_iff_getElem?.mp hwm
  by_cases hij : i = j
  · subst hij
    have htw : t = w := by rw [hi] at hj; exact Option.some.inj hj
    subst htw
    rw [hs.self t ht hr] at hwh; cases hwh
  · have := hs.excl i j t w hi hj hij .M (by simp [Held.has, hr])
    rw [this] at hwh; cases hwh

/-! ### progress -/

/-- every step consumes one action -/
theorem work_decreases (s : Sys) (i : Nat) (he : s.enabled i = true) : (s.step i).work < s.work := by
  obtain ⟨a, p, h, ht, _, hstep⟩ := s.enabled_inv i he
  unfold Sys.work; rw [hstep]
  exact Jamm.sum_map_set_lt _ s.threads i _ _ ht (by simp)

theorem finished_iff_no_work (s : Sys) : s.allFinished = true ↔ s.work = 0 := by
  unfold Sys.allFinished Sys.work
  rw [Jamm.sum_map_eq_zero, List.all_eq_true]
  constructor
  · intro h t ht
    have := h t ht
    simpa [Thread.finished] using this
  · intro h t ht
    have := h t ht
    simpa [Thread.finished] using this

theorem run_append (a b : List Nat) : ∀ s : Sys, s.run (a ++ b) = (s.run a).run b := by
  induction a with
  | nil => intro s; rfl
  | cons i rest ih =>
    intro s
    simp only [List.cons_append, Sys.run]
    split <;> exact ih _

theorem step_length (s : Sys) (i : Nat) : (s.step i).threads.length = s.threads.length := by
  unfold Sys.step
  cases s.threads[i]? <;> simp

theorem run_length (sched : List Nat) : ∀ s : Sys, (s.run sched).threads.length = s.threads.length := by
  induction sched with
  | nil => intro s; rfl
  | cons i rest ih =>
    intro s
    simp only [Sys.run]
    split
    · rw [ih, step_length]
    · exact ih s

theorem run_work_le (sched : List Nat) : ∀ s : Sys, (s.run sched).work ≤ s.work := by
  induction sched with
  | nil => intro s; exact Nat.le_refl _
  | cons i rest ih =>
    intro s
    simp only [Sys.run]
    split
    · next he => exact Nat.le_trans (ih _) (Nat.le_of_lt (work_decreases s i he))
    · exact ih s

/-- a schedule that gives a turn to a thread that can move makes progress (that thread, or one
scheduled before it, moves) -/
theorem run_work_lt (sched : List Nat) :
    ∀ (s : Sys) (i : Nat), i ∈ sched → s.enabled i = true → (s.run sched).work < s.work := by
  induction sched with
  | nil => intro s i hi; cases hi
  | cons j rest ih =>
    intro s i hi he
    simp only [Sys.run]
    split
    · next hej => exact Nat.lt_of_le_of_lt (run_work_le rest _) (work_decreases s j hej)
    · next hej =>
      have hij : i ≠ j := by
        intro h; subst h; exact hej he
      have : i ∈ rest := by
        rcases List.mem_cons.mp hi with h | h
        · exact absurd h hij
        · exact h
      exact ih s i this he

/-- from every state satisfying the invariant there is a schedule under which every thread finishes -/
theorem can_finish_inv : ∀ (n : Nat) (s : Sys), Inv s → s.work ≤ n →
    ∃ sched, (s.run sched).allFinished = true := by
  intro n
  induction n with
  | zero =>
    intro s _ hw
    exact ⟨[], (finished_iff_no_work s).mpr (by omega)⟩
  | succ n ih =>
    intro s hs hw
    cases hf : s.allFinished with
    | true => exact ⟨[], hf⟩
    | false =>
      obtain ⟨i, hi⟩ := deadlock_free_inv s hs hf
      have hlt := work_decreases s i hi
      obtain ⟨sched, hsched⟩ := ih (s.step i) (inv_step s i hs hi) (by omega)
      exact ⟨i :: sched, by simp only [Sys.run, hi, if_true]; exact hsched⟩

/-- `k` rounds of round-robin over `n` threads -/
def rounds (n : Nat) : Nat → List Nat
  | 0 => []
  | k + 1 => List.range n ++ rounds n k

/-- a fair schedule finishes everything: round-robin, as many rounds as there is work -/
theorem round_robin_finishes_inv : ∀ (k : Nat) (s : Sys), Inv s → s.work ≤ k →
    (s.run (rounds s.threads.length k)).allFinished = true := by
  intro k
  induction k with
  | zero =>
    intro s _ hw
    exact (finished_iff_no_work s).mpr (by omega)
  | succ k ih =>
    intro s hs hw
    simp only [rounds, run_append]
    have hlen := run_length (List.range s.threads.length) s
    have hinv := inv_run (List.range s.threads.length) s hs
    have hwork : (s.run (List.range s.threads.length)).work ≤ k := by
      cases hf : s.allFinished with
      | true =>
        have h0 := (finished_iff_no_work s).mp hf
        have := run_work_le (List.range s.threads.length) s
        omega
      | false =>
        obtain ⟨i, hi⟩ := deadlock_free_inv s hs hf
        have := run_work_lt (List.range s.threads.length) s i
          (List.mem_range.mpr (s.enabled_lt i hi)) hi
        omega
    have := ih _ hinv hwork
    rw [hlen] at this
    exact this

theorem can_finish_ordered (progs : List (List Act)) (admit : Bool)
    (h : ∀ p ∈ progs, Ordered p = true) (sched : List Nat) :
    ∃ more, ((Sys.init progs admit).run (sched ++ more)).allFinished = true := by
  obtain ⟨more, hm⟩ := can_finish_inv _ _ (inv_reachable progs admit h sched) (Nat.le_refl _)
  exact ⟨more, by rw [run_append]; exact hm⟩

theorem round_robin_finishes_ordered (progs : List (List Act)) (admit : Bool)
    (h : ∀ p ∈ progs, Ordered p = true) :
    ((Sys.init progs admit).run
      (rounds progs.length (Sys.init progs admit).work)).allFinished = true := by
  have := round_robin_finishes_inv _ _ (inv_init progs admit h) (Nat.le_refl _)
  simpa [Sys.init] using this

/-! ### scripts of transactions -/

theorem ofScripts_ordered {κ : Type} (prog : κ → List Act) (hprog : ∀ k, Ordered (prog k) = true)
    (scripts : List (List κ)) : ∀ p ∈ scripts.map (fun sc => sc.flatMap prog), Ordered p = true := by
  intro p hp
  obtain ⟨sc, _, rfl⟩ := List.mem_map.mp hp
  exact ordered_flatMap prog hprog sc

theorem inv_ofScripts {κ : Type} (prog : κ → List Act) (hprog : ∀ k, Ordered (prog k) = true)
    (scripts : List (List κ)) (admit : Bool) (sched : List Nat) :
    Inv ((Sys.ofScripts prog scripts admit).run sched) :=
  inv_reachable _ admit (ofScripts_ordered prog hprog scripts) sched

end Jamm.LockOrder
