/-
Layer P (I/O) helper lemmas: effect of folding writes over an image, the disk states reached by the
prefixes of a commit, and the two "shapes" of image (`pre`-like, `post`-like) a crash can leave.
-/
import Jamm.Model.Io
set_option linter.unusedSectionVars false

namespace Jamm

/-- the data writes of a snapshot definition -/
abbrev pw (l : SnapDef) : List IoOp := l.map (fun e => IoOp.writePage e.1 e.2)

@[simp] theorem Img.setPage_slot0 (i : Img) (p c : Nat) : (i.setPage p c).slot0 = i.slot0 := rfl
@[simp] theorem Img.setPage_slot1 (i : Img) (p c : Nat) : (i.setPage p c).slot1 = i.slot1 := rfl
theorem Img.setPage_page (i : Img) (p c q : Nat) :
    (i.setPage p c).page q = if q = p then c else i.page q := rfl

@[simp] theorem Img.setSlot_page (i : Img) (s : Nat) (v : Slot) : (i.setSlot s v).page = i.page := by
  unfold Img.setSlot; split <;> rfl

theorem recover_congr {i j : Img} (h0 : i.slot0 = j.slot0) (h1 : i.slot1 = j.slot1) :
    recover i = recover j := by
  unfold recover; rw [h0, h1]

/-- folding page writes with arbitrary fates: slots are unchanged, and so is every page that no write
targets -/
theorem fold_pages (q : Nat) : ∀ (L : List (IoOp × Fate)) (i : Img),
    (∀ wf ∈ L, ∃ p c, wf.1 = IoOp.writePage p c) →
    (L.foldl (fun i wf => i.apply wf.1 wf.2) i).slot0 = i.slot0 ∧
    (L.foldl (fun i wf => i.apply wf.1 wf.2) i).slot1 = i.slot1 ∧
    ((∀ wf ∈ L, ∀ p c, wf.1 = IoOp.writePage p c → p ≠ q) →
      (L.foldl (fun i wf => i.apply wf.1 wf.2) i).page q = i.page q) := by
  intro L
  induction L with
  | nil => intro i _; exact ⟨rfl, rfl, fun _ => rfl⟩
  | cons wf L ih =>
    intro i hL
    obtain ⟨w, f⟩ := wf
    obtain ⟨p, c, hw⟩ := hL (w, f) (List.mem_cons_self)
    simp only at hw
    subst hw
    have ih' := ih (i.apply (IoOp.writePage p c) f) (fun wf h => hL wf (List.mem_cons_of_mem _ h))
    simp only [List.foldl_cons]
    obtain ⟨a0, a1, a2⟩ := ih'
    have hs0 : (i.apply (IoOp.writePage p c) f).slot0 = i.slot0 := by cases f <;> rfl
    have hs1 : (i.apply (IoOp.writePage p c) f).slot1 = i.slot1 := by cases f <;> rfl
    refine ⟨a0.trans hs0, a1.trans hs1, ?_⟩
    intro hq
    rw [a2 (fun wf h => hq wf (List.mem_cons_of_mem _ h))]
    have hpq : q ≠ p := fun h => hq (IoOp.writePage p c, f) List.mem_cons_self p c rfl h.symm
    cases f
    · rfl
    · show (i.setPage p c).page q = _
      rw [Img.setPage_page, if_neg hpq]
    · show (i.setPage p 0).page q = _
      rw [Img.setPage_page, if_neg hpq]

/-- a fold with fate `full` is a fold over pairs -/
theorem fold_full_eq : ∀ (l : List IoOp) (i : Img),
    l.foldl (fun i w => i.apply w .full) i =
      (l.zip (List.replicate l.length Fate.full)).foldl (fun i wf => i.apply wf.1 wf.2) i := by
  intro l
  induction l with
  | nil => intro i; rfl
  | cons w l ih => intro i; simp [List.replicate_succ, ih]

theorem Disk.kill_eq_crash (d : Disk) :
    d.kill = d.crash (List.replicate d.pending.length Fate.full) := by
  unfold Disk.kill Disk.crash; exact fold_full_eq _ _

/-- folding all writes fully: last write wins, and if all writes to a page agree, that is its content -/
theorem fold_full_last (e : Nat × Nat) : ∀ (l : SnapDef) (i : Img),
    (e ∈ l ∨ i.page e.1 = e.2) → (∀ f ∈ l, f.1 = e.1 → f.2 = e.2) →
    ((pw l).foldl (fun i w => i.apply w .full) i).page e.1 = e.2 := by
  intro l
  induction l with
  | nil =>
    intro i h _
    rcases h with h | h
    · cases h
    · exact h
  | cons g l ih =>
    intro i h hf
    simp only [pw, List.map_cons, List.foldl_cons]
    apply ih
    · by_cases hg : g.1 = e.1
      · right
        show (i.setPage g.1 g.2).page e.1 = e.2
        rw [Img.setPage_page, if_pos hg.symm]
        exact hf g List.mem_cons_self hg
      · rcases h with h | h
        · rcases List.mem_cons.1 h with h | h
          · exact absurd (by rw [h]) hg
          · exact Or.inl h
        · right
          show (i.setPage g.1 g.2).page e.1 = e.2
          rw [Img.setPage_page, if_neg (fun h => hg h.symm)]
          exact h
    · intro f hfm; exact hf f (List.mem_cons_of_mem _ hfm)

/-- the crash image of a disk whose pending writes are data writes of pages among `l` -/
theorem crash_pw (i : Img) (l : SnapDef) (fates : List Fate) :
    let r := (({ durable := i, pending := pw l } : Disk).crash fates)
    r.slot0 = i.slot0 ∧ r.slot1 = i.slot1 ∧ ∀ q, (∀ e ∈ l, e.1 ≠ q) → r.page q = i.page q := by
  have hall : ∀ wf ∈ (pw l).zip fates, ∃ e ∈ l, wf.1 = IoOp.writePage e.1 e.2 := by
    intro wf h
    obtain ⟨w, f⟩ := wf
    have := (List.of_mem_zip h).1
    obtain ⟨e, he, hw⟩ := List.mem_map.1 this
    exact ⟨e, he, hw.symm⟩
  intro r
  refine ⟨?_, ?_, ?_⟩
  · exact (fold_pages 0 _ i (fun wf h => by obtain ⟨e, _, hw⟩ := hall wf h; exact ⟨_, _, hw⟩)).1
  · exact (fold_pages 0 _ i (fun wf h => by obtain ⟨e, _, hw⟩ := hall wf h; exact ⟨_, _, hw⟩)).2.1
  · intro q hq
    refine (fold_pages q _ i (fun wf h => by obtain ⟨e, _, hw⟩ := hall wf h; exact ⟨_, _, hw⟩)).2.2 ?_
    intro wf h p c hw
    obtain ⟨e, he, hw'⟩ := hall wf h
    rw [hw'] at hw
    cases hw
    exact hq e he

/-! ### the images a commit passes through -/

/-- all data writes durable, header not yet -/
def CommitCtx.dataImg (c : CommitCtx) : Img := (pw c.dirty).foldl (fun i w => i.apply w .full) c.img0

/-- all data writes and the header durable -/
def CommitCtx.postImg (c : CommitCtx) : Img := c.dataImg.setSlot (1 - c.slot) (.good c.hpost)

/-- an image that has the old slots and agrees with `img0` off the dirty pages -/
structure PreLike (c : CommitCtx) (i : Img) : Prop where
  s0 : i.slot0 = c.img0.slot0
  s1 : i.slot1 = c.img0.slot1
  pages : ∀ q, (∀ e ∈ c.dirty, e.1 ≠ q) → i.page q = c.img0.page q

theorem intact_pre {c : CommitCtx} (hc : c.Ok) {i : Img}
    (pages : ∀ q, (∀ e ∈ c.dirty, e.1 ≠ q) → i.page q = c.img0.page q) : intact i c.sdPre := by
  intro f hf
  rw [pages f.1 (fun e he => hc.cow e he f hf)]
  exact hc.preIntact f hf

theorem PreLike.atomic {c : CommitCtx} (hc : c.Ok) {i : Img} (h : PreLike c i) : Atomic c i :=
  Or.inl ⟨(recover_congr h.s0 h.s1).trans hc.newest, intact_pre hc h.pages⟩

theorem crash_pw_preLike (c : CommitCtx) (l : SnapDef) (hl : ∀ e ∈ l, e ∈ c.dirty) (fates : List Fate) :
    PreLike c (({ durable := c.img0, pending := pw l } : Disk).crash fates) := by
  obtain ⟨a0, a1, a2⟩ := crash_pw c.img0 l fates
  exact ⟨a0, a1, fun q hq => a2 q (fun e he => hq e (hl e he))⟩

theorem dataImg_preLike (c : CommitCtx) : PreLike c c.dataImg := by
  have := crash_pw_preLike c c.dirty (fun _ h => h) (List.replicate (pw c.dirty).length Fate.full)
  rw [← Disk.kill_eq_crash] at this
  exact this

theorem dataImg_dirty {c : CommitCtx} (hc : c.Ok) : ∀ e ∈ c.dirty, c.dataImg.page e.1 = e.2 := by
  intro e he
  exact fold_full_last e c.dirty c.img0 (Or.inl he) (fun f hf h => hc.dirtyFun f hf e he h)

theorem intact_post {c : CommitCtx} (hc : c.Ok) {i : Img} (hp : i.page = c.dataImg.page) :
    intact i c.sdPost := by
  intro e he
  rw [hp]
  rcases hc.post e he with h | ⟨h, hd⟩
  · exact dataImg_dirty hc e h
  · rw [(dataImg_preLike c).pages e.1 hd]
    exact hc.preIntact e h

theorem recover_post {c : CommitCtx} (hc : c.Ok) : recover c.postImg = some c.hpost := by
  have h0 := (dataImg_preLike c).s0
  have h1 := (dataImg_preLike c).s1
  have hcur := hc.cur
  have hnew := hc.newer.1
  unfold CommitCtx.postImg Img.setSlot recover
  rcases hc.slot01 with hs | hs
  · rw [hs] at hcur ⊢
    simp only [if_pos] at hcur
    simp [h0, hcur]
    omega
  · rw [hs] at hcur ⊢
    simp at hcur
    simp [h1, hcur]
    omega

theorem postImg_atomic {c : CommitCtx} (hc : c.Ok) :
    recover c.postImg = some c.hpost ∧ intact c.postImg c.sdPost :=
  ⟨recover_post hc, intact_post hc (by unfold CommitCtx.postImg; simp)⟩

theorem recover_torn {c : CommitCtx} (hc : c.Ok) :
    recover (c.dataImg.setSlot (1 - c.slot) .bad) = some c.hpre := by
  have h0 := (dataImg_preLike c).s0
  have h1 := (dataImg_preLike c).s1
  have hcur := hc.cur
  unfold Img.setSlot recover
  rcases hc.slot01 with hs | hs
  · rw [hs] at hcur ⊢
    simp at hcur
    simp [h0, hcur]
  · rw [hs] at hcur ⊢
    simp at hcur
    simp [h1, hcur]

theorem torn_atomic {c : CommitCtx} (hc : c.Ok) : Atomic c (c.dataImg.setSlot (1 - c.slot) .bad) :=
  Or.inl ⟨recover_torn hc, intact_pre hc (by rw [Img.setSlot_page]; exact (dataImg_preLike c).pages)⟩

/-! ### disk states -/

theorem run_pw (i : Img) (l : SnapDef) : ∀ (pend : List IoOp),
    ({ durable := i, pending := pend } : Disk).run (pw l) = { durable := i, pending := pend ++ pw l } := by
  induction l with
  | nil => intro pend; simp [Disk.run]
  | cons e l ih =>
    intro pend
    have := ih (pend ++ [IoOp.writePage e.1 e.2])
    simp only [Disk.run, pw, List.map_cons, List.foldl_cons] at this ⊢
    rw [show Disk.exec { durable := i, pending := pend } (IoOp.writePage e.1 e.2)
          = { durable := i, pending := pend ++ [IoOp.writePage e.1 e.2] } from rfl, this]
    simp

theorem run_append (d : Disk) (a b : List IoOp) : d.run (a ++ b) = (d.run a).run b := by
  simp [Disk.run, List.foldl_append]

/-- the disk state after `dirty` and the first `j` of the trailing operations `tl` -/
theorem take_shape (dirty : SnapDef) (tl : List IoOp) (k : Nat) :
    (k ≤ dirty.length ∧ (pw dirty ++ tl).take k = pw (dirty.take k)) ∨
    (∃ j, k = dirty.length + (j + 1) ∧ (pw dirty ++ tl).take k = pw dirty ++ tl.take (j + 1)) := by
  by_cases hk : k ≤ dirty.length
  · left
    refine ⟨hk, ?_⟩
    rw [List.take_append_of_le_length (by simpa using hk), pw, pw, List.map_take]
  · right
    refine ⟨k - dirty.length - 1, by omega, ?_⟩
    rw [List.take_append, List.take_of_length_le (by simp; omega)]
    congr 2
    simp; omega

/-- the states of the safe shape -/
theorem run_safe (c : CommitCtx) (k : Nat) :
    let d := ({ durable := c.img0, pending := [] } : Disk).run ((safeShape c).take k)
    (∃ l, (∀ e ∈ l, e ∈ c.dirty) ∧ d = { durable := c.img0, pending := pw l }) ∨
    d = { durable := c.dataImg, pending := [] } ∨
    d = { durable := c.dataImg, pending := [.writeHdr (1 - c.slot) c.hpost] } ∨
    d = { durable := c.postImg, pending := [] } := by
  intro d
  rcases take_shape c.dirty [.sync, .writeHdr (1 - c.slot) c.hpost, .sync] k with ⟨_, h⟩ | ⟨j, _, h⟩
  · left
    refine ⟨c.dirty.take k, fun e he => List.mem_of_mem_take he, ?_⟩
    show Disk.run _ (List.take k (pw c.dirty ++ _)) = _
    rw [h, run_pw]; simp
  · right
    have : d = (({ durable := c.img0, pending := pw c.dirty } : Disk).run
        (List.take (j + 1) [.sync, .writeHdr (1 - c.slot) c.hpost, .sync])) := by
      show Disk.run _ (List.take k (pw c.dirty ++ _)) = _
      rw [h, run_append, run_pw]; simp
    rw [this]
    match j with
    | 0 => left; rfl
    | 1 => right; left; rfl
    | (j + 2) => right; right; simp [Disk.run, Disk.exec, CommitCtx.postImg, CommitCtx.dataImg, Img.apply]

end Jamm
