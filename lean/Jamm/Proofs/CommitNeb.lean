/-
Layer C: "no childless branch" (`nebT`), the side condition under which the tree invariant gives
well-formedness.  Edits and touches keep it (they do not change the branch structure); `spill` keeps it; the
replay of `rebalance` steps can break it only in the middle (a branch emptied by a merge that the following
steps remove), so for commit it is a hypothesis on the rebalanced tree — which the run evaluates on every replay.
-/
import Jamm.Proofs.CommitCompose
import Jamm.Proofs.CommitTouch
set_option linter.unusedSectionVars false
open Std

namespace Jamm

section
variable {K E : Type} [Ord K] [TransOrd K] [LawfulEqOrd K] [DecidableEq K]

mutual
theorem put_neb_aux (key : K) (e : E) (t : Tree K E) (h : nebT t = true) : nebT (t.put key e) = true := by
  match t with
  | .leaf p es => simp only [Tree.put, nebT]
  | .branch p kids =>
    simp only [Tree.put, nebT, Bool.and_eq_true, bne_iff_ne, ne_eq] at h ⊢
    have := putAt_neb_aux key e kids (indexOf kids.keys key).1 h.2
    exact ⟨by rw [this.1]; exact h.1, this.2⟩
theorem putAt_neb_aux (key : K) (e : E) (f : Forest K E) (i : Nat) (h : nebF f = true) :
    (Forest.putAt key e f i).length = f.length ∧ nebF (Forest.putAt key e f i) = true := by
  match f, i with
  | .nil, _ => simp only [Forest.putAt, nebF, and_self]
  | .cons k t rest, 0 =>
    simp only [nebF, Bool.and_eq_true] at h
    simp only [Forest.putAt, Forest.length, nebF, Bool.and_eq_true, true_and]
    exact ⟨put_neb_aux key e t h.1, h.2⟩
  | .cons k t rest, i + 1 =>
    simp only [nebF, Bool.and_eq_true] at h
    have := putAt_neb_aux key e rest i h.2
    simp only [Forest.putAt, Forest.length, nebF, Bool.and_eq_true, this.1, true_and]
    exact ⟨h.1, this.2⟩
end

mutual
theorem del_neb_aux (key : K) (t : Tree K E) (h : nebT t = true) : nebT (t.del key) = true := by
  match t with
  | .leaf p es => simp only [Tree.del, nebT]
  | .branch p kids =>
    simp only [Tree.del, nebT, Bool.and_eq_true, bne_iff_ne, ne_eq] at h ⊢
    have := delAt_neb_aux key kids (indexOf kids.keys key).1 h.2
    exact ⟨by rw [this.1]; exact h.1, this.2⟩
theorem delAt_neb_aux (key : K) (f : Forest K E) (i : Nat) (h : nebF f = true) :
    (Forest.delAt key f i).length = f.length ∧ nebF (Forest.delAt key f i) = true := by
  match f, i with
  | .nil, _ => simp only [Forest.delAt, nebF, and_self]
  | .cons k t rest, 0 =>
    simp only [nebF, Bool.and_eq_true] at h
    simp only [Forest.delAt, Forest.length, nebF, Bool.and_eq_true, true_and]
    exact ⟨del_neb_aux key t h.1, h.2⟩
  | .cons k t rest, i + 1 =>
    simp only [nebF, Bool.and_eq_true] at h
    have := delAt_neb_aux key rest i h.2
    simp only [Forest.delAt, Forest.length, nebF, Bool.and_eq_true, this.1, true_and]
    exact ⟨h.1, this.2⟩
end

mutual
theorem touch_neb_aux (key : K) (t : Tree K E) (h : nebT t = true) : nebT (t.touch key) = true := by
  match t with
  | .leaf p es => simp only [Tree.touch, nebT]
  | .branch p kids =>
    simp only [Tree.touch, nebT, Bool.and_eq_true, bne_iff_ne, ne_eq] at h ⊢
    have := touchAt_neb_aux key kids (indexOf kids.keys key).1 h.2
    exact ⟨by rw [this.1]; exact h.1, this.2⟩
theorem touchAt_neb_aux (key : K) (f : Forest K E) (i : Nat) (h : nebF f = true) :
    (Forest.touchAt key f i).length = f.length ∧ nebF (Forest.touchAt key f i) = true := by
  match f, i with
  | .nil, _ => simp only [Forest.touchAt, nebF, and_self]
  | .cons k t rest, 0 =>
    simp only [nebF, Bool.and_eq_true] at h
    simp only [Forest.touchAt, Forest.length, nebF, Bool.and_eq_true, true_and]
    exact ⟨touch_neb_aux key t h.1, h.2⟩
  | .cons k t rest, i + 1 =>
    simp only [nebF, Bool.and_eq_true] at h
    have := touchAt_neb_aux key rest i h.2
    simp only [Forest.touchAt, Forest.length, nebF, Bool.and_eq_true, this.1, true_and]
    exact ⟨h.1, this.2⟩
end

theorem put_neb (t : Tree K E) (key : K) (e : E) (h : nebT t = true) : nebT (t.put key e) = true :=
  put_neb_aux key e t h

theorem del_neb (t : Tree K E) (key : K) (h : nebT t = true) : nebT (t.del key) = true :=
  del_neb_aux key t h

theorem touch_neb (t : Tree K E) (key : K) (h : nebT t = true) : nebT (t.touch key) = true :=
  touch_neb_aux key t h

theorem touchAll_neb (t : Tree K E) (keys : List K) (h : nebT t = true) : nebT (t.touchAll keys) = true :=
  touchAll_preserves (P := fun t => nebT t = true) (fun t key ht => touch_neb t key ht) keys t h

/-- any sequence of edits keeps the invariant AND the side condition, hence well-formedness -/
theorem applyOps_inv_neb (t : Tree K E) (h : TreeInv t) (hn : nebT t = true) (ops : List (TxOp K E)) :
    TreeInv (ops.foldl Tree.applyOp t) ∧ nebT (ops.foldl Tree.applyOp t) = true ∧
    WF none none (ops.foldl Tree.applyOp t) := by
  induction ops generalizing t with
  | nil => exact ⟨h, hn, wfs_wf none none t h.sep hn⟩
  | cons op rest ih =>
    simp only [List.foldl_cons]
    refine ih _ (applyOp_inv t h op) ?_
    cases op with
    | put k e => exact put_neb t k e hn
    | del k => exact del_neb t k hn

end

section
variable {E : Type} (p : Params) (pagesize hdr leafHdr branchHdr : Nat) (esz : Bytes × E → Nat)

theorem length_ofList {K E : Type} (c : List (K × Tree K E)) : (Forest.ofList c).length = c.length := by
  induction c with
  | nil => rfl
  | cons a rest ih => obtain ⟨k, t⟩ := a; simp only [Forest.ofList, Forest.length, ih, List.length_cons]

theorem nebF_ofList {K E : Type} [Ord K] [DecidableEq K] (c : List (K × Tree K E))
    (h : ∀ e ∈ c, nebT e.2 = true) : nebF (Forest.ofList c) = true := by
  induction c with
  | nil => rfl
  | cons a rest ih =>
    obtain ⟨k, t⟩ := a
    simp only [Forest.ofList, nebF, Bool.and_eq_true]
    exact ⟨h (k, t) List.mem_cons_self, ih (fun e he => h e (List.mem_cons_of_mem _ he))⟩

/-- a non-empty list of neb pieces under a branch -/
theorem nebT_branch_ofList {K E : Type} [Ord K] [DecidableEq K] (pid : Nat) (c : List (K × Tree K E))
    (hne : c ≠ []) (h : ∀ e ∈ c, nebT e.2 = true) : nebT (Tree.branch pid (Forest.ofList c)) = true := by
  simp only [nebT, Bool.and_eq_true, bne_iff_ne, ne_eq, length_ofList]
  refine ⟨?_, nebF_ofList c h⟩
  intro h0
  exact hne (List.length_eq_zero_iff.1 h0)

theorem spillF_ne_nil (f : Forest Bytes E) (h : f.length ≠ 0) :
    spillF p pagesize hdr leafHdr branchHdr esz f ≠ [] := by
  cases f with
  | nil => exact absurd rfl h
  | cons k t rest =>
    simp only [spillF, ne_eq, List.append_eq_nil_iff, not_and]
    intro h1
    exact absurd h1 (spillT_ne_nil p pagesize hdr leafHdr branchHdr esz k t)

mutual
theorem spillT_neb_aux (hp : p.Valid) (key : Bytes) (t : Tree Bytes E) (h : nebT t = true) :
    ∀ q ∈ spillT p pagesize hdr leafHdr branchHdr esz key t, nebT q.2 = true := by
  match t with
  | .leaf pid es =>
    simp only [spillT]
    split
    · intro q hq
      simp only [List.mem_singleton] at hq
      subst hq; rfl
    · intro q hq
      simp only [List.mem_map] at hq
      obtain ⟨c, _, rfl⟩ := hq
      rfl
  | .branch pid kids =>
    simp only [spillT]
    split
    · intro q hq
      simp only [List.mem_singleton] at hq
      subst hq; exact h
    · intro q hq
      simp only [nebT, Bool.and_eq_true, bne_iff_ne, ne_eq] at h
      simp only [List.mem_map] at hq
      obtain ⟨c, hc, rfl⟩ := hq
      have hents := spillF_neb_aux hp kids h.2
      have hne := spillF_ne_nil p pagesize hdr leafHdr branchHdr esz kids h.1
      refine nebT_branch_ofList 0 c ?_ (fun e he => hents e (mem_of_mem_cutAt hc he))
      rcases split_chunks_cases p hp pagesize hdr branchHdr
          ((spillF p pagesize hdr leafHdr branchHdr esz kids).map (fun e => e.1.length))
          (spillF p pagesize hdr leafHdr branchHdr esz kids) (by simp) with h1 | h1
      · exact absurd h1.1 hne
      · exact h1 c hc
theorem spillF_neb_aux (hp : p.Valid) (f : Forest Bytes E) (h : nebF f = true) :
    ∀ q ∈ spillF p pagesize hdr leafHdr branchHdr esz f, nebT q.2 = true := by
  match f with
  | .nil => intro q hq; simp [spillF] at hq
  | .cons k t rest =>
    simp only [nebF, Bool.and_eq_true] at h
    intro q hq
    simp only [spillF, List.mem_append] at hq
    rcases hq with hq | hq
    · exact spillT_neb_aux hp k t h.1 q hq
    · exact spillF_neb_aux hp rest h.2 q hq
end

/-- every piece written by `spill` is free of childless branches when the node was -/
theorem spillT_neb (hp : p.Valid) (key : Bytes) (t : Tree Bytes E) (h : nebT t = true) :
    ∀ q ∈ spillT p pagesize hdr leafHdr branchHdr esz key t, nebT q.2 = true :=
  spillT_neb_aux p pagesize hdr leafHdr branchHdr esz hp key t h

theorem spillRoot_neb (hp : p.Valid) (fuel : Nat) (t : Tree Bytes E) (h : nebT t = true) :
    nebT (spillRoot p pagesize hdr leafHdr branchHdr esz fuel t) = true := by
  induction fuel generalizing t with
  | zero => exact h
  | succ fuel ih =>
    have hs := spillT_neb p pagesize hdr leafHdr branchHdr esz hp [] t h
    simp only [spillRoot]
    split
    · exact h
    · rename_i k r heq
      rw [heq] at hs
      exact hs (k, r) List.mem_cons_self
    · rename_i many hn1 hn2
      apply ih
      refine nebT_branch_ofList 1 _ ?_ hs
      exact spillT_ne_nil p pagesize hdr leafHdr branchHdr esz [] t

/-- commit: if the replayed steps (and the touches) leave no childless branch, neither does the committed tree;
with the invariant this gives well-formedness of the committed tree -/
theorem commitTree_neb (hp : p.Valid) (steps : List RbStep) (touched : List Bytes) (t : Tree Bytes E)
    (h : nebT ((t.rebalance steps).touchAll touched) = true) :
    nebT (commitTree p pagesize hdr leafHdr branchHdr esz steps touched t) = true := by
  unfold commitTree
  exact spillRoot_neb p pagesize hdr leafHdr branchHdr esz hp _ _ h

theorem commitTree_wf (hp : p.Valid) (h2 : 2 ≤ p.minKeysPerNode) (steps : List RbStep) (touched : List Bytes)
    (t : Tree Bytes E) (hi : TreeInv t) (h : nebT ((t.rebalance steps).touchAll touched) = true) :
    WF none none (commitTree p pagesize hdr leafHdr branchHdr esz steps touched t) :=
  wfs_wf none none _ (commitTree_inv p pagesize hdr leafHdr branchHdr esz hp h2 steps touched t hi).sep
    (commitTree_neb p pagesize hdr leafHdr branchHdr esz hp steps touched t h)

end
end Jamm
