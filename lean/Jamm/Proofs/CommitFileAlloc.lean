/-
Layer A feeds the byte-level layer: what the allocator model guarantees about PAGES (a protocol-abiding writer
writes no page of the snapshot it started from: `commit_is_cow`) is exactly the premise `KeepsState` of the byte-level
crash theorems, once page sets are read as byte ranges.
-/
import Jamm.Proofs.CommitFileAtomic
import Jamm.Proofs.PrevSnapLemmas
namespace Jamm

section
variable (pagesize : Nat)

/-- a byte of page `p` (`p * pagesize ≤ i < (p + 1) * pagesize`) lies in page `i / pagesize = p` -/
theorem div_of_page_bounds (hps : 0 < pagesize) (i lo n : Nat) (h1 : lo * pagesize ≤ i)
    (h2 : i < (lo + n) * pagesize) : lo ≤ i / pagesize ∧ i / pagesize < lo + n :=
  ⟨(Nat.le_div_iff_mul_le hps).2 h1, (Nat.div_lt_iff_lt_mul hps).2 h2⟩

/-- if `s'` differs from `s` only inside the pages `pages`, none of which is a header page or a page of a run the
state owns, then `s'` keeps the state -/
theorem keepsState_of_page_writes (hps : 0 < pagesize) (ov : Nat → Nat) (s s' : Src) (slot : Nat) (hslot : slot < 2)
    (old : Opened) (pages : List Nat) (hsz : s'.size = s.size)
    (hsame : ∀ i, i / pagesize ∉ pages → s'.get i = s.get i)
    (h2 : ∀ p ∈ pages, 2 ≤ p)
    (hdisj : ∀ r ∈ old.runs ov, ∀ d, d ≤ r.2 → r.1 + d ∉ pages) :
    KeepsState pagesize ov s s' slot old := by
  refine ⟨hsz, ?_, ?_⟩
  · intro i h1 h2'
    apply hsame
    intro hin
    have hb := div_of_page_bounds pagesize hps i slot 1 h1 (by rw [Nat.add_mul, Nat.one_mul]; exact h2')
    have := h2 _ hin
    omega
  · intro r hr i h1 h2'
    apply hsame
    intro hin
    have hb := div_of_page_bounds pagesize hps i r.1 (r.2 + 1) h1 (by rw [← Nat.add_assoc]; exact h2')
    exact hdisj r hr (i / pagesize - r.1) (by omega) (by
      have : r.1 + (i / pagesize - r.1) = i / pagesize := by omega
      rw [this]; exact hin)

/-- every page a writer of the protocol model writes is page 2 or later (a page of the free set, or beyond the mark) -/
theorem writes_ge_two (sys : Sys) (w : WriterTx) (hi : sys.invB = true) : ∀ p ∈ sys.writes w, 2 ≤ p := by
  rw [invB_iff] at hi
  intro p hw
  have hA := run_ainv hi w
  rcases (hA.al p hw).1 with h | h
  · exact (f1_free_rng hi h).1
  · have := hi.np; omega

/-- THE ALLOCATOR MODEL DELIVERS THE PREMISE: in any state of the release protocol satisfying its invariant, for any
protocol-abiding writer, a byte source that differs from the file only inside the pages that writer writes
(`Sys.writes`: the runs first fit hands out) keeps every state whose runs are pages reachable in the current
snapshot — so by `crash_shows_old` every crash image of that commit opens as the previous state -/
theorem allocator_writes_keep_state (hps : 0 < pagesize) (ov : Nat → Nat) (s s' : Src) (slot : Nat)
    (hslot : slot < 2) (old : Opened) (sys : Sys) (w : WriterTx) (hi : sys.invB = true)
    (hc : sys.clientOkB (.commitW w) = true)
    (hreach : ∀ r ∈ old.runs ov, ∀ d, d ≤ r.2 → r.1 + d ∈ sys.cur.reach)
    (hsz : s'.size = s.size)
    (hsame : ∀ i, i / pagesize ∉ sys.writes w → s'.get i = s.get i) :
    KeepsState pagesize ov s s' slot old := by
  have hcow := (disjointB_iff _ _).1 (commit_is_cow sys w hi hc)
  exact keepsState_of_page_writes pagesize hps ov s s' slot hslot old (sys.writes w) hsz hsame (writes_ge_two sys w hi)
    (fun r hr d hd hin => hcow _ (hreach r hr d hd) hin)

end
end Jamm
