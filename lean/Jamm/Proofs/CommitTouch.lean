/-
Layer C proofs: `Tree.touch` / `Tree.touchAll` (the `put_leaf` of a committed nested bucket's header:
every node on the search path to the key becomes a node of the transaction) change nothing but the
"materialised" mark of the nodes on one path.  Contents, uniform depth and the separator invariant are
kept as they are; tightness is kept in the form `TightMT` (a touched node is materialised, so nothing is
demanded of it any more, and its entries keep the bounds they had).

The fact that a touch never adds a kept page (`touch_kept`) is in `CommitPagesLemmas.lean`, next to the
definition of `keptRuns` (that file imports `CommitCompose.lean`, which imports this one).
-/
import Jamm.Model.CommitTight
import Jamm.Proofs.CommitBasic
import Jamm.Proofs.CommitTightBasic
set_option linter.unusedSectionVars false
open Std

namespace Jamm

section
variable {K E : Type} [Ord K]

theorem touchAt_nil (key : K) (i : Nat) : Forest.touchAt key (.nil : Forest K E) i = .nil := by
  cases i <;> simp only [Forest.touchAt]

theorem touchAt_cons_zero (key k : K) (t : Tree K E) (rest : Forest K E) :
    Forest.touchAt key (.cons k t rest) 0 = .cons k (t.touch key) rest := by
  simp only [Forest.touchAt]

theorem touchAt_cons_succ (key k : K) (t : Tree K E) (rest : Forest K E) (i : Nat) :
    Forest.touchAt key (.cons k t rest) (i + 1) = .cons k t (Forest.touchAt key rest i) := by
  simp only [Forest.touchAt]

theorem touch_leaf (key : K) (p : Nat) (es : List (K × E)) :
    (Tree.leaf p es).touch key = .leaf (mkPid (nodePage p) true) es := by
  simp only [Tree.touch]

theorem touch_branch (key : K) (p : Nat) (kids : Forest K E) :
    (Tree.branch p kids).touch key =
      .branch (mkPid (nodePage p) true) (Forest.touchAt key kids (indexOf kids.keys key).1) := by
  simp only [Tree.touch]

theorem touchAll_nil (t : Tree K E) : t.touchAll [] = t := rfl

theorem touchAll_cons (t : Tree K E) (k : K) (ks : List K) :
    t.touchAll (k :: ks) = (t.touch k).touchAll ks := rfl

/-- a property kept by every single touch is kept by `touchAll` -/
theorem touchAll_preserves {P : Tree K E → Prop} (h : ∀ t key, P t → P (t.touch key)) :
    ∀ (keys : List K) (t : Tree K E), P t → P (t.touchAll keys)
  | [], _, ht => ht
  | k :: ks, t, ht => by
    rw [touchAll_cons]
    exact touchAll_preserves h ks (t.touch k) (h t k ht)

/-! ### contents -/

mutual
theorem touch_flatten (key : K) (t : Tree K E) : (t.touch key).flatten = t.flatten := by
  match t with
  | .leaf p es => simp only [Tree.touch, Tree.flatten]
  | .branch p kids =>
    simp only [Tree.touch, Tree.flatten]
    exact touchAt_flatten key kids _
theorem touchAt_flatten (key : K) (f : Forest K E) (i : Nat) :
    Tree.flattenF (Forest.touchAt key f i) = Tree.flattenF f := by
  match f, i with
  | .nil, i => rw [touchAt_nil]
  | .cons k t rest, 0 =>
    simp only [Forest.touchAt, Tree.flattenF]
    rw [touch_flatten key t]
  | .cons k t rest, i + 1 =>
    simp only [Forest.touchAt, Tree.flattenF]
    rw [touchAt_flatten key rest i]
end

theorem touchAll_flatten (keys : List K) (t : Tree K E) : (t.touchAll keys).flatten = t.flatten := by
  induction keys generalizing t with
  | nil => rfl
  | cons k ks ih => rw [touchAll_cons, ih, touch_flatten]

/-! ### uniform depth -/

mutual
theorem touch_uniform (key : K) (t : Tree K E) (d : Nat) (h : UniformT d t) : UniformT d (t.touch key) := by
  match t, h with
  | .leaf p es, .leaf _ _ =>
    simp only [Tree.touch]
    exact UniformT.leaf _ _
  | .branch p kids, .branch d' _ _ hk =>
    simp only [Tree.touch]
    exact UniformT.branch _ _ _ (touchAt_uniform key kids _ d' hk)
theorem touchAt_uniform (key : K) (f : Forest K E) (i d : Nat) (h : UniformF d f) :
    UniformF d (Forest.touchAt key f i) := by
  match f, i, h with
  | .nil, i, _ =>
    rw [touchAt_nil]
    exact UniformF.nil d
  | .cons k t rest, 0, .cons _ _ _ _ ht hr =>
    simp only [Forest.touchAt]
    exact UniformF.cons _ _ _ _ (touch_uniform key t d ht) hr
  | .cons k t rest, i + 1, .cons _ _ _ _ ht hr =>
    simp only [Forest.touchAt]
    exact UniformF.cons _ _ _ _ ht (touchAt_uniform key rest i d hr)
end

theorem touchAll_uniform (keys : List K) (t : Tree K E) (d : Nat) (h : UniformT d t) :
    UniformT d (t.touchAll keys) :=
  touchAll_preserves (P := fun t => UniformT d t) (fun t key ht => touch_uniform key t d ht) keys t h

/-! ### tightness at the pages the transaction has not materialised -/

/-- a fully tight tree is `TightMT` after a touch (the touched nodes are materialised; the others are
as tight as they were) -/
theorem touch_tight_tightM_aux :
    (∀ (lo : Option K) (t : Tree K E), TightT lo t → ∀ key : K, TightMT lo (t.touch key)) ∧
    (∀ (lo : Option K) (k : K) (t : Tree K E) (rest : Forest K E), TightF lo k t rest →
      ∀ key : K, TightMF lo k (t.touch key) rest ∧ ∀ i, TightMF lo k t (Forest.touchAt key rest i)) := by
  apply tight_induct
  · intro lo p es key
    rw [touch_leaf]
    exact TightMT.leaf _ _ _
  · intro lo p key
    rw [touch_branch, touchAt_nil]
    exact TightMT.emptyBranch _ _
  · intro lo p k t rest _ _ ih key
    rw [touch_branch]
    generalize (indexOf (Forest.keys (.cons k t rest)) key).1 = idx
    cases idx with
    | zero =>
      rw [touchAt_cons_zero]
      exact TightMT.branch _ _ _ _ _ (nodeMat_mkPid_true _) (ih key).1
    | succ i =>
      rw [touchAt_cons_succ]
      exact TightMT.branch _ _ _ _ _ (nodeMat_mkPid_true _) ((ih key).2 i)
  · intro lo k t ht ih key
    refine ⟨TightMF.last _ _ _ (ih key), fun i => ?_⟩
    rw [touchAt_nil]
    exact TightMF.last _ _ _ (tight_tightM_aux.1 lo t ht)
  · intro lo k t k' t' rest ht hr iht ihr key
    refine ⟨TightMF.cons _ _ _ _ _ _ (iht key) hr.toM, fun i => ?_⟩
    cases i with
    | zero =>
      rw [touchAt_cons_zero]
      exact TightMF.cons _ _ _ _ _ _ (tight_tightM_aux.1 lo t ht) (ihr key).1
    | succ j =>
      rw [touchAt_cons_succ]
      exact TightMF.cons _ _ _ _ _ _ (tight_tightM_aux.1 lo t ht) ((ihr key).2 j)

theorem touch_tightM_aux :
    (∀ (lo : Option K) (t : Tree K E), TightMT lo t → ∀ key : K, TightMT lo (t.touch key)) ∧
    (∀ (lo : Option K) (k : K) (t : Tree K E) (rest : Forest K E), TightMF lo k t rest →
      ∀ key : K, TightMF lo k (t.touch key) rest ∧ ∀ i, TightMF lo k t (Forest.touchAt key rest i)) := by
  apply tightM_induct
  · intro lo p es key
    rw [touch_leaf]
    exact TightMT.leaf _ _ _
  · intro lo p kids _ ht key
    exact touch_tight_tightM_aux.1 lo _ ht key
  · intro lo p key
    rw [touch_branch, touchAt_nil]
    exact TightMT.emptyBranch _ _
  · intro lo p k t rest _ _ ih key
    rw [touch_branch]
    generalize (indexOf (Forest.keys (.cons k t rest)) key).1 = idx
    cases idx with
    | zero =>
      rw [touchAt_cons_zero]
      exact TightMT.branch _ _ _ _ _ (nodeMat_mkPid_true _) (ih key).1
    | succ i =>
      rw [touchAt_cons_succ]
      exact TightMT.branch _ _ _ _ _ (nodeMat_mkPid_true _) ((ih key).2 i)
  · intro lo k t ht ih key
    refine ⟨TightMF.last _ _ _ (ih key), fun i => ?_⟩
    rw [touchAt_nil]
    exact TightMF.last _ _ _ ht
  · intro lo k t k' t' rest ht hr iht ihr key
    refine ⟨TightMF.cons _ _ _ _ _ _ (iht key) hr, fun i => ?_⟩
    cases i with
    | zero =>
      rw [touchAt_cons_zero]
      exact TightMF.cons _ _ _ _ _ _ ht (ihr key).1
    | succ j =>
      rw [touchAt_cons_succ]
      exact TightMF.cons _ _ _ _ _ _ ht ((ihr key).2 j)

theorem touch_tightM (lo : Option K) (key : K) (t : Tree K E) (h : TightMT lo t) :
    TightMT lo (t.touch key) :=
  touch_tightM_aux.1 lo t h key

theorem touchAll_tightM (lo : Option K) (keys : List K) (t : Tree K E) (h : TightMT lo t) :
    TightMT lo (t.touchAll keys) :=
  touchAll_preserves (P := fun t => TightMT lo t) (fun t key ht => touch_tightM lo key t ht) keys t h

end

/-! ### the separator invariant -/

section
variable {K E : Type} [Ord K] [TransOrd K] [LawfulEqOrd K] [DecidableEq K]

theorem touch_wfs_aux :
    (∀ (lo hi : Option K) (t : Tree K E), WFS lo hi t → ∀ key : K, WFS lo hi (t.touch key)) ∧
    (∀ (lo hi : Option K) (k : K) (t : Tree K E) (rest : Forest K E), WFFS lo hi k t rest →
      ∀ key : K, WFFS lo hi k (t.touch key) rest ∧ ∀ i, WFFS lo hi k t (Forest.touchAt key rest i)) := by
  apply wfs_induct
  · intro lo hi p es hs hb key
    rw [touch_leaf]
    exact WFS.leaf _ _ _ _ hs hb
  · intro lo hi p k t rest hlo hhi _ ih key
    rw [touch_branch]
    generalize (indexOf (Forest.keys (.cons k t rest)) key).1 = idx
    cases idx with
    | zero =>
      rw [touchAt_cons_zero]
      exact WFS.branch _ _ _ _ _ _ hlo hhi (ih key).1
    | succ i =>
      rw [touchAt_cons_succ]
      exact WFS.branch _ _ _ _ _ _ hlo hhi ((ih key).2 i)
  · intro lo hi p key
    rw [touch_branch, touchAt_nil]
    exact WFS.emptyBranch _ _ _
  · intro lo hi k t ht ih key
    refine ⟨WFFS.last _ _ _ _ (ih key), fun i => ?_⟩
    rw [touchAt_nil]
    exact WFFS.last _ _ _ _ ht
  · intro lo hi k t k' t' rest hlt hlo hhi ht hr iht ihr key
    refine ⟨WFFS.cons _ _ _ _ _ _ _ hlt hlo hhi (iht key) hr, fun i => ?_⟩
    cases i with
    | zero =>
      rw [touchAt_cons_zero]
      exact WFFS.cons _ _ _ _ _ _ _ hlt hlo hhi ht (ihr key).1
    | succ j =>
      rw [touchAt_cons_succ]
      exact WFFS.cons _ _ _ _ _ _ _ hlt hlo hhi ht ((ihr key).2 j)

theorem touch_wfs (lo hi : Option K) (key : K) (t : Tree K E) (h : WFS lo hi t) :
    WFS lo hi (t.touch key) :=
  touch_wfs_aux.1 lo hi t h key

theorem touchAll_wfs (lo hi : Option K) (keys : List K) (t : Tree K E) (h : WFS lo hi t) :
    WFS lo hi (t.touchAll keys) :=
  touchAll_preserves (P := fun t => WFS lo hi t) (fun t key ht => touch_wfs lo hi key t ht) keys t h

end
end Jamm
