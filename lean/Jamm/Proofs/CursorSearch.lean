/-
Cursor proofs, part B: where `searchT` lands on a well-formed tree, and what that means in terms of
the sorted contents.
-/
import Jamm.Proofs.CursorBasic
import Jamm.Proofs.TreeWF
set_option linter.unusedSectionVars false
set_option linter.unusedVariables false
open Std

namespace Jamm
variable {K E : Type} [Ord K] [TransOrd K] [LawfulEqOrd K] [DecidableEq K]

/-! ### well-formed trees have the shape the cursor needs -/

theorem shp_of_wf_aux :
    (∀ (lo hi : Option K) (t : Tree K E), WF lo hi t → Shp t) ∧
    (∀ (lo hi : Option K) (k : K) (t : Tree K E) (rest : Forest K E), WFF lo hi k t rest →
      ShpF (.cons k t rest)) := by
  apply wf_induct
  · intro lo hi p es _ _; simp [Shp]
  · intro lo hi p k t rest _ ih; simp only [Shp]; exact ⟨by simp [Forest.length], ih⟩
  · intro lo hi k t _ ih; simp only [ShpF]; exact ⟨ih, trivial⟩
  · intro lo hi k t k' t' rest _ _ _ _ _ iht ihr; simp only [ShpF] at ihr ⊢; exact ⟨iht, ihr⟩

theorem WF.shp {lo hi : Option K} {t : Tree K E} (h : WF lo hi t) : Shp t :=
  shp_of_wf_aux.1 lo hi t h

/-! ### `indexOf` stays inside a non-empty list -/

theorem countBelow_le (keys : List K) (key : K) : countBelow keys key ≤ keys.length := by
  induction keys with
  | nil => simp [countBelow_nil]
  | cons a rest ih =>
    rw [countBelow_cons]
    split
    · simp only [List.length_cons]; omega
    · omega

theorem indexOf_lt (keys : List K) (key : K) (h : keys ≠ []) : (indexOf keys key).1 < keys.length := by
  have hl : 0 < keys.length := List.length_pos_iff.mpr h
  have hc := countBelow_le keys key
  rw [indexOf_def]
  cases hg : keys[countBelow keys key]? with
  | none => simp only; omega
  | some a =>
    have : countBelow keys key < keys.length := (List.getElem?_eq_some_iff.mp hg).1
    simp only
    split
    · exact this
    · simp only; omega

/-! ### search -/

/-- the landing position of a search, relative to the contents `flat` of the searched part and the
stack `acc` the search started from -/
def Landing (key : K) (flat : List (K × E)) (acc : Stack K E) (extra : Nat) (r : Bool × Stack K E) : Prop :=
  ∃ (pre es post : List (K × E)) (p : Nat) (s' : Stack K E),
    r = ((indexOf (es.map (·.1)) key).2, ⟨.leaf p es, (indexOf (es.map (·.1)) key).1⟩ :: s') ∧
    RestOk s' ∧ Spec.Sorted es ∧ flat = pre ++ (es ++ post) ∧ below s' = post ++ below acc ∧
    (∀ e ∈ pre, klt e.1 key = true) ∧ (∀ e ∈ post, klt key e.1 = true) ∧
    todo s' + 1 ≤ extra + todo acc

theorem search_spec_aux (key : K) :
    (∀ (lo hi : Option K) (t : Tree K E), WF lo hi t → ∀ acc : Stack K E, RestOk acc →
      Landing key t.flatten acc t.nodes (searchT key t acc)) ∧
    (∀ (lo hi : Option K) (k : K) (t : Tree K E) (rest : Forest K E), WFF lo hi k t rest →
      ∀ acc : Stack K E, RestOk acc →
      ∃ i, i = (indexOf (k :: rest.keys) key).1 ∧
        (∀ e ∈ Tree.flattenF ((Forest.cons k t rest).drop (i + 1)), klt key e.1 = true) ∧
        ∃ extra, extra + Tree.nodesF ((Forest.cons k t rest).drop (i + 1)) ≤ Tree.nodesF (.cons k t rest) ∧
        Landing key (Tree.flattenF ((Forest.cons k t rest).take (i + 1))) acc extra
          (searchF key (.cons k t rest) i acc)) := by
  apply wf_induct
  · intro lo hi p es hs _ acc hacc
    refine ⟨[], es, [], p, acc, ?_, hacc, hs, by simp [Tree.flatten], by simp, by simp, by simp, ?_⟩
    · simp [searchT]
    · simp [Tree.nodes]; omega
  · intro lo hi p k t rest hw ih acc hacc
    have hshp : Shp (.branch p (.cons k t rest)) := (WF.branch _ _ _ _ _ _ hw).shp
    have hacc' : RestOk (⟨.branch p (.cons k t rest), (indexOf (k :: rest.keys) key).1⟩ :: acc) :=
      RestOk.cons ⟨hshp, rfl⟩ hacc
    obtain ⟨i, hi, hab, extra, hex, pre, es, post, q, s', h1, h2, h3, h4, h5, h6, h7, h8⟩ := ih _ hacc'
    subst hi
    refine ⟨pre, es, post ++ Tree.flattenF ((Forest.cons k t rest).drop
      ((indexOf (k :: rest.keys) key).1 + 1)), q, s', ?_, h2, h3, ?_, ?_, h6, ?_, ?_⟩
    · rw [← h1]; simp [searchT, Forest.keys]
    · rw [flatten_branch, Forest.flattenF_take_drop _ ((indexOf (k :: rest.keys) key).1 + 1), h4]
      simp
    · rw [h5]; simp [below, Frame.after]
    · intro e he
      rcases List.mem_append.mp he with he | he
      · exact h7 e he
      · exact hab e he
    · simp only [todo, Frame.todo] at h8
      simp only [Tree.nodes]
      omega
  · intro lo hi k t hw ih acc hacc
    refine ⟨0, ?_, ?_, t.nodes, ?_, ?_⟩
    · simp only [Forest.keys]; rw [indexOf_single]
    · simp [Forest.drop, Tree.flattenF]
    · simp [Forest.drop, Tree.nodesF]
    · have := ih acc hacc
      simpa [Forest.take, Tree.flattenF, searchF] using this
  · intro lo hi k t k' t' rest hk hlo' hhi' hwt hwr iht ihr acc hacc
    by_cases hkey : klt key k' = true
    · refine ⟨0, ?_, ?_, t.nodes, ?_, ?_⟩
      · simp only [Forest.keys]; rw [indexOf_cons_cons_lt k k' _ key hkey]
      · simp only [Forest.drop]
        exact right_above hwr hkey
      · simp [Forest.drop, Tree.nodesF]
      · have := iht acc hacc
        simpa [Forest.take, Tree.flattenF, searchF] using this
    · have hkey' : klt key k' = false := by simpa using hkey
      obtain ⟨i, hi, hab, extra, hex, pre, es, post, q, s', h1, h2, h3, h4, h5, h6, h7, h8⟩ := ihr acc hacc
      refine ⟨i + 1, ?_, ?_, extra, ?_, ?_⟩
      · simp only [Forest.keys]; rw [indexOf_cons_cons_ge k k' _ key hk hkey', hi]
      · simpa [Forest.drop] using hab
      · simp only [Forest.drop, Tree.nodesF] at hex ⊢; omega
      · refine ⟨t.flatten ++ pre, es, post, q, s', ?_, h2, h3, ?_, h5, ?_, h7, h8⟩
        · rw [← h1]; simp [searchF]
        · simp only [Forest.take, Tree.flattenF] at h4 ⊢
          rw [h4]; simp
        · intro e he
          rcases List.mem_append.mp he with he | he
          · exact left_below hwt hkey' e he
          · exact h6 e he

theorem search_spec (key : K) (lo hi : Option K) (t : Tree K E) (h : WF lo hi t) (acc : Stack K E)
    (hacc : RestOk acc) : Landing key t.flatten acc t.nodes (searchT key t acc) :=
  (search_spec_aux key).1 lo hi t h acc hacc

/-! ### the landing position in terms of the contents -/

/-- the outcome of a seek, stated on the contents: `flat` splits into the entries below `key` and
the rest; the iteration yields the rest, possibly preceded by the last entry below `key` -/
def SeekPos (key : K) (flat : List (K × E)) (ex : Bool) (out : List (K × E)) : Prop :=
  ∃ A B, flat = A ++ B ∧ (∀ a ∈ A, klt a.1 key = true) ∧
    ((ex = true ∧ ∃ b B', B = b :: B' ∧ b.1 = key ∧ out = B) ∨
     (ex = false ∧ (∀ b ∈ B, klt key b.1 = true) ∧
        (out = B ∨ ∃ A' p, A = A' ++ [p] ∧ out = p :: B)))

theorem leaf_split (key : K) (es : List (K × E)) :
    ∃ tw dw, es = tw ++ dw ∧ (∀ a ∈ tw, klt a.1 key = true) ∧
      (∀ d dw', dw = d :: dw' → klt d.1 key = false) ∧
      countBelow (es.map (·.1)) key = tw.length := by
  induction es with
  | nil => exact ⟨[], [], rfl, by simp, by simp, by simp [countBelow_nil]⟩
  | cons a es ih =>
    obtain ⟨tw, dw, h1, h2, h3, h4⟩ := ih
    by_cases ha : klt a.1 key = true
    · refine ⟨a :: tw, dw, by rw [h1]; rfl, ?_, h3, ?_⟩
      · intro x hx
        rcases List.mem_cons.mp hx with rfl | hx
        · exact ha
        · exact h2 x hx
      · simp only [List.map_cons, countBelow_cons, if_pos ha, h4, List.length_cons]
    · refine ⟨[], a :: es, rfl, by simp, ?_, ?_⟩
      · intro d dw' hd
        simp only [List.cons.injEq] at hd
        rw [← hd.1]; simpa using ha
      · simp only [List.map_cons, countBelow_cons, if_neg ha, List.length_nil]

theorem Spec.sorted_append_right {α : Type} {A B : List (K × α)} (h : Spec.Sorted (A ++ B)) :
    Spec.Sorted B := by
  induction A with
  | nil => exact h
  | cons a A ih =>
    obtain ⟨k, x⟩ := a
    rw [List.cons_append, Spec.sorted_cons] at h
    exact ih h.2

theorem drop_pred_concat {α : Type} (A' : List α) (p : α) (dw : List α) :
    ((A' ++ [p]) ++ dw).drop ((A' ++ [p]).length - 1) = p :: dw := by
  have : (A' ++ [p]).length - 1 = A'.length := by simp
  rw [this, List.append_assoc, List.drop_left]; rfl

theorem leaf_pos (key : K) (pre es post : List (K × E)) (hs : Spec.Sorted es)
    (hpre : ∀ e ∈ pre, klt e.1 key = true) (hpost : ∀ e ∈ post, klt key e.1 = true) :
    SeekPos key (pre ++ (es ++ post)) (indexOf (es.map (·.1)) key).2
      (es.drop (indexOf (es.map (·.1)) key).1 ++ post) := by
  obtain ⟨tw, dw, h1, h2, h3, h4⟩ := leaf_split key es
  have hA : ∀ a ∈ pre ++ tw, klt a.1 key = true := by
    intro a ha
    rcases List.mem_append.mp ha with ha | ha
    · exact hpre a ha
    · exact h2 a ha
  have hget : (es.map (·.1))[tw.length]? = (dw.head?).map (·.1) := by
    rw [h1]; cases dw <;> simp
  rw [indexOf_def, h4, hget]
  cases dw with
  | nil =>
    simp only [List.head?_nil, Option.map_none]
    simp only [List.append_nil] at h1
    subst h1
    refine ⟨pre ++ es, post, by simp, hA, Or.inr ⟨rfl, hpost, ?_⟩⟩
    rcases List.eq_nil_or_concat es with he | ⟨A', p, he⟩
    · subst he; left; simp
    · right
      rw [List.concat_eq_append] at he
      subst he
      refine ⟨pre ++ A', p, by simp, ?_⟩
      have := drop_pred_concat A' p ([] : List (K × E))
      simp only [List.append_nil] at this
      rw [this]; rfl
  | cons d dw' =>
    have hd : klt d.1 key = false := h3 d dw' rfl
    have hsd : Spec.Sorted (d :: dw') := by rw [h1] at hs; exact Spec.sorted_append_right hs
    simp only [List.head?_cons, Option.map_some]
    by_cases hc : compare d.1 key = .eq
    · have hk : d.1 = key := compare_eq_iff_eq.mp hc
      simp only [hc, beq_self_eq_true, if_true]
      refine ⟨pre ++ tw, d :: (dw' ++ post), by rw [h1]; simp, hA, Or.inl ⟨rfl, d, dw' ++ post, rfl, hk, ?_⟩⟩
      rw [h1, List.drop_left]; rfl
    · have hc' : (compare d.1 key == Ordering.eq) = false := by simpa using hc
      simp only [hc', Bool.false_eq_true, if_false]
      have hgt : klt key d.1 = true := by
        rcases klt_trichotomy d.1 key with h | h | h
        · rw [hd] at h; exact absurd h Bool.false_ne_true
        · exact absurd (compare_eq_iff_eq.mpr h) hc
        · exact h
      have hall : ∀ b ∈ dw', klt d.1 b.1 = true := by
        obtain ⟨dk, dx⟩ := d
        rw [Spec.sorted_cons] at hsd
        exact hsd.1
      have hB : ∀ b ∈ d :: (dw' ++ post), klt key b.1 = true := by
        intro b hb
        rcases List.mem_cons.mp hb with rfl | hb
        · exact hgt
        · rcases List.mem_append.mp hb with hb | hb
          · exact klt_trans hgt (hall b hb)
          · exact hpost b hb
      refine ⟨pre ++ tw, d :: (dw' ++ post), by rw [h1]; simp, hA, Or.inr ⟨rfl, hB, ?_⟩⟩
      rcases List.eq_nil_or_concat tw with he | ⟨A', p, he⟩
      · subst he; left; rw [h1]; simp
      · right
        rw [List.concat_eq_append] at he
        subst he
        refine ⟨pre ++ A', p, by simp, ?_⟩
        rw [h1, drop_pred_concat]; rfl

/-! ### seek -/

theorem seek_core (t : Tree K E) (h : WF none none t) (key : K) :
    ∃ out, CInv t (Cursor.seek { root := t } key).2 ∧
      (Cursor.seek { root := t } key).2.nextCalled = false ∧
      pending (Cursor.seek { root := t } key).2 = out ∧
      current (Cursor.seek { root := t } key).2.stack = out.head? ∧
      SeekPos key t.flatten (Cursor.seek { root := t } key).1 out := by
  obtain ⟨pre, es, post, p, s', h1, h2, h3, h4, h5, h6, h7, h8⟩ :=
    search_spec key none none t h [] (by simp [RestOk])
  have hseek : Cursor.seek { root := t } key = ((searchT key t []).1,
      { root := t, stack := (skipEmpty (t.nodes + 1) (searchT key t []).2).2, nextCalled := false }) := rfl
  rw [hseek, h1]
  simp only
  generalize hj : (indexOf (es.map (·.1)) key).1 = j at *
  generalize hex : (indexOf (es.map (·.1)) key).2 = ex at *
  have htop : TopOk (⟨.leaf p es, j⟩ :: s') := by
    refine ⟨?_, h2⟩
    simp only [LeafOk]
    cases es with
    | nil => exact Or.inl rfl
    | cons e0 es =>
      right
      have := indexOf_lt (((e0 :: es)).map (·.1)) key (by simp)
      rw [hj] at this
      simpa using this
  have htodo : todo (⟨.leaf p es, j⟩ :: s') ≤ t.nodes := by
    simp only [todo, Frame.todo] at h8 ⊢; omega
  have hrem : remaining (⟨.leaf p es, j⟩ :: s') = es.drop j ++ post := by
    simp only [remaining, current, below, Frame.after, h5, List.append_nil]
    rw [← List.append_assoc, getElem?_toList_append_drop]
  obtain ⟨a, b, c⟩ := seek_inv t _ htop htodo
  refine ⟨es.drop j ++ post, a, trivial, by rw [b, hrem], by rw [c, hrem], ?_⟩
  rw [h4, ← hj, ← hex]
  exact leaf_pos key pre es post h3 h6 h7

/-! ### from `SeekPos` to the specification's `SeekOk` -/

theorem dropWhile_append_of {α : Type} (p : α → Bool) (A B : List α) (hA : ∀ a ∈ A, p a = true)
    (hB : ∀ b B', B = b :: B' → p b = false) : (A ++ B).dropWhile p = B := by
  induction A with
  | nil =>
    cases B with
    | nil => rfl
    | cons b B' => simp [hB b B' rfl]
  | cons a A ih =>
    rw [List.cons_append, List.dropWhile_cons, if_pos (hA a List.mem_cons_self)]
    exact ih (fun x hx => hA x (List.mem_cons_of_mem _ hx))

theorem takeWhile_append_of {α : Type} (p : α → Bool) (A B : List α) (hA : ∀ a ∈ A, p a = true)
    (hB : ∀ b B', B = b :: B' → p b = false) : (A ++ B).takeWhile p = A := by
  induction A with
  | nil =>
    cases B with
    | nil => rfl
    | cons b B' => simp [hB b B' rfl]
  | cons a A ih =>
    rw [List.cons_append, List.takeWhile_cons, if_pos (hA a List.mem_cons_self)]
    rw [ih (fun x hx => hA x (List.mem_cons_of_mem _ hx))]

theorem SeekPos.head_not_lt {key : K} {flat : List (K × E)} {ex : Bool} {out : List (K × E)}
    {A B : List (K × E)}
    (h : (ex = true ∧ ∃ b B', B = b :: B' ∧ b.1 = key ∧ out = B) ∨
     (ex = false ∧ (∀ b ∈ B, klt key b.1 = true) ∧
        (out = B ∨ ∃ A' p, A = A' ++ [p] ∧ out = p :: B))) :
    ∀ b B', B = b :: B' → klt b.1 key = false := by
  intro b B' hb
  rcases h with ⟨_, b0, B0, h1, h2, _⟩ | ⟨_, h1, _⟩
  · rw [h1] at hb
    simp only [List.cons.injEq] at hb
    rw [← hb.1, h2]; exact klt_irrefl key
  · exact klt_asymm (h1 b (by rw [hb]; exact List.mem_cons_self))

theorem SeekPos.seekOk {key : K} {flat : List (K × E)} {ex : Bool} {out : List (K × E)}
    (h : SeekPos key flat ex out) : Spec.SeekOk flat key ex out ∧ out.length ≤ flat.length := by
  obtain ⟨A, B, hf, hA, hc⟩ := h
  have hB := SeekPos.head_not_lt (flat := flat) hc
  have hfrom : Spec.fromKey flat key = B := by
    rw [hf]; exact dropWhile_append_of (fun e => klt e.1 key) A B hA hB
  have hpred : Spec.predOf flat key = A.getLast? := by
    unfold Spec.predOf
    rw [hf, takeWhile_append_of (fun e => klt e.1 key) A B hA hB]
  rcases hc with ⟨hex, b, B', h1, h2, h3⟩ | ⟨hex, h1, h2⟩
  · refine ⟨⟨?_, Or.inl (by rw [hfrom, h3])⟩, by rw [h3, hf]; simp⟩
    rw [hex, hf, Spec.lookup_append_of_lt hA, h1]
    obtain ⟨bk, bx⟩ := b
    simp only at h2
    simp [Spec.lookup, h2]
  · have hl : Spec.lookup key flat = none := by
      rw [hf, Spec.lookup_append_of_lt hA]
      exact Spec.lookup_none_of_allAbove h1
    refine ⟨⟨by rw [hex, hl]; rfl, ?_⟩, ?_⟩
    · rcases h2 with h2 | ⟨A', p, h2, h3⟩
      · exact Or.inl (by rw [hfrom, h2])
      · refine Or.inr ⟨hex, p, ?_, by rw [hfrom, h3]⟩
        rw [hpred, h2]; simp
    · rcases h2 with h2 | ⟨A', p, h2, h3⟩
      · rw [h2, hf]; simp
      · rw [h3, hf, h2]; simp

end Jamm
