/-
Layer P (threads), part 2 proofs: writers are serialised, nobody deadlocks, everybody finishes.
-/
import Jamm.Model.Locks
set_option linter.unusedSectionVars false

namespace Jamm

/-! ### list helpers -/

/-- replacing an element by one that satisfies `p` only if the old one did does not grow the filter -/
theorem filter_set_length_le {α : Type} (p : α → Bool) :
    ∀ (l : List α) (i : Nat) (a b : α), l[i]? = some a → (p b = true → p a = true) →
      ((l.set i b).filter p).length ≤ (l.filter p).length
  | [], _, _, _, h, _ => by simp at h
  | x :: xs, 0, a, b, h, hp => by
    simp at h; subst h
    cases hb : p b <;> cases hx : p x <;> simp_all
  | x :: xs, i+1, a, b, h, hp => by
    simp at h
    have ih := filter_set_length_le p xs i a b h hp
    cases hx : p x <;> simp [hx] <;> omega

/-- if nothing satisfies `p`, then after replacing one element at most one does -/
theorem filter_set_length_le_one {α : Type} (p : α → Bool) :
    ∀ (l : List α) (i : Nat) (b : α), l.any p = false → ((l.set i b).filter p).length ≤ 1
  | [], _, _, _ => by simp
  | x :: xs, 0, b, h => by
    simp only [List.any_cons, Bool.or_eq_false_iff] at h
    have hxs : xs.filter p = [] := by
      rw [List.filter_eq_nil_iff]; intro a ha
      have := List.any_eq_false.mp h.2 a ha; simpa using this
    cases hb : p b <;> simp [hb, hxs]
  | x :: xs, i+1, b, h => by
    simp only [List.any_cons, Bool.or_eq_false_iff] at h
    have ih := filter_set_length_le_one p xs i b h.2
    simp [h.1]; exact ih

/-- replacing an element by one of smaller weight strictly decreases the weighted sum -/
theorem sum_map_set_lt {α : Type} (f : α → Nat) :
    ∀ (l : List α) (i : Nat) (a b : α), l[i]? = some a → f b < f a →
      ((l.set i b).map f).sum < (l.map f).sum
  | [], _, _, _, h, _ => by simp at h
  | x :: xs, 0, a, b, h, hf => by
    simp at h; subst h
    simp; omega
  | x :: xs, i+1, a, b, h, hf => by
    simp at h
    have ih := sum_map_set_lt f xs i a b h hf
    simp only [List.set_cons_succ, List.map_cons, List.sum_cons]; omega

theorem sum_map_eq_zero {α : Type} (f : α → Nat) :
    ∀ (l : List α), (l.map f).sum = 0 ↔ ∀ x ∈ l, f x = 0
  | [] => by simp
  | x :: xs => by
    have ih := sum_map_eq_zero f xs
    simp [ih]

/-! ### thread-level facts -/

/-- the guard of a thread's next step, as a function of the thread -/
def LockSys.guard (s : LockSys) (t : Thread) : Bool :=
  match t.phase with
  | .idle => !t.script.isEmpty
  | .wantW _ => !s.writerOpen
  | .wantR => s.admit || !s.resizeWaiting
  | .inW _ => true
  | .waitResize => !s.readersOpen
  | .inR => true

theorem LockSys.enabled_eq (s : LockSys) (i : Nat) (t : Thread) (ht : s.threads[i]? = some t) :
    s.enabled i = s.guard t := by
  unfold LockSys.enabled LockSys.guard
  rw [ht]
  rfl

theorem LockSys.enabled_of_mem (s : LockSys) (t : Thread) (ht : t ∈ s.threads)
    (hg : s.guard t = true) : ∃ i, s.enabled i = true := by
  obtain ⟨i, hi⟩ := List.mem_iff_getElem?.mp ht
  exact ⟨i, by rw [s.enabled_eq i t hi, hg]⟩

/-- a step starts holding F only out of `wantW` -/
theorem Thread.next_holdsF (t : Thread) (h : t.next.holdsF = true) :
    t.holdsF = true ∨ ∃ r, t.phase = .wantW r := by
  obtain ⟨ph, sc⟩ := t
  cases ph with
  | idle =>
    cases sc with
    | nil => simp [Thread.next, Thread.holdsF] at h
    | cons k rest => cases k <;> simp [Thread.next, Thread.holdsF] at h
  | wantW r => exact Or.inr ⟨r, rfl⟩
  | wantR => simp [Thread.next, Thread.holdsF] at h
  | inW r => left; simp [Thread.holdsF]
  | waitResize => left; simp [Thread.holdsF]
  | inR => simp [Thread.next, Thread.holdsF] at h

theorem Thread.next_work_lt (t : Thread) (h : t.phase = .idle → t.script ≠ []) :
    t.next.work < t.work := by
  obtain ⟨ph, sc⟩ := t
  cases ph with
  | idle =>
    cases sc with
    | nil => simp at h
    | cons k rest =>
      cases k with
      | read => simp [Thread.next, Thread.work]; omega
      | write r => cases r <;> simp [Thread.next, Thread.work] <;> omega
  | wantW r => cases r <;> simp [Thread.next, Thread.work]
  | wantR => simp [Thread.next, Thread.work]
  | inW r => cases r <;> simp [Thread.next, Thread.work]
  | waitResize => simp [Thread.next, Thread.work]
  | inR => simp [Thread.next, Thread.work]

theorem Thread.work_eq_zero (t : Thread) : t.work = 0 ↔ t.finished = true := by
  obtain ⟨ph, sc⟩ := t
  cases ph with
  | idle => cases sc <;> simp [Thread.work, Thread.finished]
  | wantW r => cases r <;> simp [Thread.work, Thread.finished]
  | wantR => simp [Thread.work, Thread.finished]
  | inW r => cases r <;> simp [Thread.work, Thread.finished]
  | waitResize => simp [Thread.work, Thread.finished]
  | inR => simp [Thread.work, Thread.finished]

/-! ### the theorems -/

/-- L1: initially nobody holds the writer lock -/
theorem oneWriter_initial (scripts : List (List TxKind)) (admit : Bool) :
    (LockSys.initial scripts admit).oneWriter = true := by
  have : (List.map (fun sc => ({ phase := .idle, script := sc } : Thread)) scripts).filter
      Thread.holdsF = [] := by
    rw [List.filter_eq_nil_iff]
    intro a ha
    obtain ⟨sc, _, rfl⟩ := List.mem_map.mp ha
    simp [Thread.holdsF]
  simp [LockSys.initial, LockSys.oneWriter, this]

/-- L2: a step of an enabled thread keeps "at most one writer" -/
theorem oneWriter_step (s : LockSys) (i : Nat) (h : s.oneWriter = true) (he : s.enabled i = true) :
    (s.step i).oneWriter = true := by
  unfold LockSys.step
  cases ht : s.threads[i]? with
  | none => simpa using h
  | some t =>
    simp only [LockSys.oneWriter, decide_eq_true_eq] at h ⊢
    by_cases hw : ∃ r, t.phase = .wantW r
    · obtain ⟨r, hr⟩ := hw
      have hg := s.enabled_eq i t ht
      rw [he] at hg
      simp only [LockSys.guard, hr] at hg
      have hno : s.threads.any Thread.holdsF = false := by
        simpa [LockSys.writerOpen] using hg.symm
      exact filter_set_length_le_one _ _ _ _ hno
    · have hle := filter_set_length_le Thread.holdsF s.threads i t t.next ht (fun hn => by
        rcases t.next_holdsF hn with h1 | h1
        · exact h1
        · exact absurd h1 hw)
      omega

theorem oneWriter_run_aux (sched : List Nat) :
    ∀ s : LockSys, s.oneWriter = true → (s.run sched).oneWriter = true := by
  induction sched with
  | nil => intro s h; exact h
  | cons i rest ih =>
    intro s h
    unfold LockSys.run
    by_cases he : s.enabled i = true
    · rw [if_pos he]; exact ih _ (oneWriter_step s i h he)
    · rw [if_neg he]; exact ih _ h

/-- L3: hence along every schedule at most one write transaction is open -/
theorem oneWriter_run (scripts : List (List TxKind)) (admit : Bool) (sched : List Nat) :
    ((LockSys.initial scripts admit).run sched).oneWriter = true :=
  oneWriter_run_aux sched _ (oneWriter_initial scripts admit)

/-- L4 (no deadlock, both rwlock policies): in every state in which some thread still has something to
do, some thread can move -/
theorem deadlock_free (s : LockSys) (h : s.allFinished = false) : ∃ i, s.enabled i = true := by
  obtain ⟨u, hu, hunf⟩ := List.all_eq_false.mp h
  -- (1) a thread that can always move
  by_cases h1 : ∃ t ∈ s.threads, t.phase = .inR ∨ (∃ r, t.phase = .inW r) ∨
      (t.phase = .idle ∧ t.script ≠ [])
  · obtain ⟨t, ht, hp⟩ := h1
    refine s.enabled_of_mem t ht ?_
    rcases hp with hp | ⟨r, hp⟩ | ⟨hp, hs⟩
    · simp [LockSys.guard, hp]
    · simp [LockSys.guard, hp]
    · simp [LockSys.guard, hp, hs]
  · have hnoR : ∀ t ∈ s.threads, t.phase ≠ .inR := fun t ht hp => h1 ⟨t, ht, Or.inl hp⟩
    have hnoW : ∀ t ∈ s.threads, ∀ r, t.phase ≠ .inW r :=
      fun t ht r hp => h1 ⟨t, ht, Or.inr (Or.inl ⟨r, hp⟩)⟩
    have hnoI : ∀ t ∈ s.threads, t.phase = .idle → t.script = [] := fun t ht hp =>
      Classical.byContradiction fun hs => h1 ⟨t, ht, Or.inr (Or.inr ⟨hp, hs⟩)⟩
    -- (2) a thread waiting to remap: no reader is open
    by_cases h2 : ∃ t ∈ s.threads, t.phase = .waitResize
    · obtain ⟨t, ht, hp⟩ := h2
      refine s.enabled_of_mem t ht ?_
      have : s.readersOpen = false := by
        unfold LockSys.readersOpen
        rw [List.any_eq_false]
        intro x hx
        simpa [Thread.holdsMRead] using hnoR x hx
      simp [LockSys.guard, hp, this]
    · have hnoQ : ∀ t ∈ s.threads, t.phase ≠ .waitResize := fun t ht hp => h2 ⟨t, ht, hp⟩
      have hwo : s.writerOpen = false := by
        unfold LockSys.writerOpen
        rw [List.any_eq_false]
        intro x hx
        have a := hnoW x hx
        have b := hnoQ x hx
        unfold Thread.holdsF
        split <;> simp_all
      have hrw : s.resizeWaiting = false := by
        unfold LockSys.resizeWaiting
        rw [List.any_eq_false]
        intro x hx
        simpa using hnoQ x hx
      refine s.enabled_of_mem u hu ?_
      have a := hnoR u hu
      have b := hnoW u hu
      have c := hnoQ u hu
      have d := hnoI u hu
      obtain ⟨ph, sc⟩ := u
      cases ph with
      | idle => simp [Thread.finished] at hunf d; exact absurd d hunf
      | wantW r => simp [LockSys.guard, hwo]
      | wantR => simp [LockSys.guard, hrw]
      | inW r => exact absurd rfl (b r)
      | waitResize => exact absurd rfl c
      | inR => exact absurd rfl a

/-- L5: every step of an enabled thread strictly decreases the remaining work, so every schedule makes
at most `work` effective steps and every thread eventually finishes under a fair scheduler -/
theorem work_decreases (s : LockSys) (i : Nat) (he : s.enabled i = true) : (s.step i).work < s.work := by
  unfold LockSys.step
  cases ht : s.threads[i]? with
  | none => simp [LockSys.enabled, ht] at he
  | some t =>
    simp only [LockSys.work]
    apply sum_map_set_lt Thread.work s.threads i t t.next ht
    apply Thread.next_work_lt
    intro hp hs
    have hg := s.enabled_eq i t ht
    rw [he] at hg
    simp [LockSys.guard, hp, hs] at hg

/-- L6: nothing remains to be done exactly when every thread has finished -/
theorem finished_iff_no_work (s : LockSys) : s.allFinished = true ↔ s.work = 0 := by
  unfold LockSys.allFinished LockSys.work
  rw [sum_map_eq_zero, List.all_eq_true]
  constructor
  · intro h x hx; exact (Thread.work_eq_zero x).mpr (h x hx)
  · intro h x hx; exact (Thread.work_eq_zero x).mp (h x hx)

/-- L7: a reader's begin is not blocked by an open, uncommitted writer (only, under the blocking
admission policy, by a writer already waiting to remap the file) -/
theorem reader_not_blocked_by_open_writer (s : LockSys) (i : Nat) (t : Thread)
    (ht : s.threads[i]? = some t) (hp : t.phase = .wantR) (hr : s.resizeWaiting = false) :
    s.enabled i = true := by
  rw [s.enabled_eq i t ht]
  simp [LockSys.guard, hp, hr]

end Jamm
