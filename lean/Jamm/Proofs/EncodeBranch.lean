/-
The branch element loop of the page writer: frame and decode-back.
-/
import Jamm.Proofs.EncodeLeaf

set_option linter.unusedSimpArgs false
set_option linter.unusedSectionVars false
set_option linter.unusedVariables false

namespace Jamm

section
variable (L : Layout)

/-! ### one branch record -/

/-- the four writes for one branch entry: record at `e`, key at `d` -/
def branchRecWrite (s : Src) (e : Nat) (page ks pos d : Nat) (data : List UInt8) : Src :=
  (((s.write (e + L.branchPage) (leBytes page 8)).write (e + L.branchKsize) (leBytes ks 8)).write
    (e + L.branchPos) (leBytes pos 8)).write d data

theorem branchRecWrite_size (s : Src) (e : Nat) (page ks pos d : Nat) (data : List UInt8) :
    (branchRecWrite L s e page ks pos d data).size = s.size := rfl

theorem branchRecWrite_get (W : L.WF) (s : Src) (e : Nat) (page ks pos d : Nat) (data : List UInt8)
    (x : Nat) (h1 : x < e ∨ e + L.branchSize ≤ x) (h2 : x < d ∨ d + data.length ≤ x) :
    (branchRecWrite L s e page ks pos d data).get x = s.get x := by
  have := W.br1; have := W.br2; have := W.br3
  simp only [branchRecWrite]
  rw [Src.write_get_out _ _ _ _ h2,
    Src.write_get_out _ _ _ _ (by simp only [leBytes_length]; omega),
    Src.write_get_out _ _ _ _ (by simp only [leBytes_length]; omega),
    Src.write_get_out _ _ _ _ (by simp only [leBytes_length]; omega)]

theorem branchRecWrite_hasAt (W : L.WF) (s : Src) (e : Nat) (page ks pos d : Nat) (data : List UInt8)
    (hd : e + L.branchSize ≤ d) :
    (branchRecWrite L s e page ks pos d data).HasAt (e + L.branchPage) (leBytes page 8) ∧
    (branchRecWrite L s e page ks pos d data).HasAt (e + L.branchKsize) (leBytes ks 8) ∧
    (branchRecWrite L s e page ks pos d data).HasAt (e + L.branchPos) (leBytes pos 8) ∧
    (branchRecWrite L s e page ks pos d data).HasAt d data := by
  have := W.br1; have := W.br2; have := W.br3
  simp only [branchRecWrite]
  refine ⟨?_, ?_, ?_, ?_⟩
  · refine (((Src.hasAt_write_self _ _ _).write_disj _ _ ?_).write_disj _ _ ?_).write_disj _ _ ?_ <;>
      (simp only [leBytes_length]; omega)
  · refine ((Src.hasAt_write_self _ _ _).write_disj _ _ ?_).write_disj _ _ ?_ <;>
      (simp only [leBytes_length]; omega)
  · refine (Src.hasAt_write_self _ _ _).write_disj _ _ ?_
    simp only [leBytes_length]; omega
  · exact Src.hasAt_write_self _ _ _

/-! ### the branch loop -/

/-- key bytes of a list of branch entries -/
def branchData (es : List (Bytes × Nat)) : Nat :=
  (es.map (fun e => e.1.length)).sum

theorem branchData_cons (k : Bytes) (p : Nat) (rest : List (Bytes × Nat)) :
    branchData ((k, p) :: rest) = k.length + branchData rest := by
  simp [branchData]

theorem branchBytes_eq (es : List (Bytes × Nat)) :
    branchBytes L es = L.pgPtr + es.length * L.branchSize + branchData es := rfl

theorem writeBranchElems_cons (base n : Nat) (k : Bytes) (p : Nat) (rest : List (Bytes × Nat))
    (i doff : Nat) (s : Src) :
    writeBranchElems L base n ((k, p) :: rest) i doff s =
      writeBranchElems L base n rest (i + 1) (doff + k.length)
        (branchRecWrite L s (base + L.pgPtr + i * L.branchSize) p k.length
          ((n - i) * L.branchSize + doff)
          (base + L.pgPtr + i * L.branchSize + ((n - i) * L.branchSize + doff)) k) := rfl

theorem writeBranchElems_size (base n : Nat) : ∀ (es : List (Bytes × Nat)) (i doff : Nat) (s : Src),
    (writeBranchElems L base n es i doff s).size = s.size := by
  intro es
  induction es with
  | nil => intro i doff s; rfl
  | cons kv rest ih =>
    obtain ⟨k, p⟩ := kv
    intro i doff s
    rw [writeBranchElems_cons, ih, branchRecWrite_size]

theorem writeBranchElems_get (W : L.WF) (base n : Nat) : ∀ (es : List (Bytes × Nat)) (i doff : Nat) (s : Src)
    (x : Nat), i + es.length = n →
    (x < base + L.pgPtr + i * L.branchSize ∨
      (base + L.pgPtr + n * L.branchSize ≤ x ∧ x < base + L.pgPtr + n * L.branchSize + doff) ∨
      base + L.pgPtr + n * L.branchSize + doff + branchData es ≤ x) →
    (writeBranchElems L base n es i doff s).get x = s.get x := by
  intro es
  induction es with
  | nil => intro i doff s x _ _; rfl
  | cons kv rest ih =>
    obtain ⟨k, p⟩ := kv
    intro i doff s x hn hx
    simp only [List.length_cons] at hn
    have e1 : (i + 1) * L.branchSize = i * L.branchSize + L.branchSize := Nat.succ_mul _ _
    have e3 : (i + 1) * L.branchSize ≤ n * L.branchSize := Nat.mul_le_mul_right _ (by omega)
    have e2 : (n - i) * L.branchSize + i * L.branchSize = n * L.branchSize := by
      rw [← Nat.add_mul, Nat.sub_add_cancel (by omega)]
    have hds := branchData_cons k p rest
    rw [writeBranchElems_cons, ih (i + 1) _ _ x (by omega) (by omega)]
    apply branchRecWrite_get L W
    · omega
    · omega

/-! ### decoding back -/

theorem decodeBranchElems_step (s : Src) (base runEnd m i : Nat) (k : Bytes) (p : Nat)
    (rest : List (Bytes × Nat)) (pos : Nat)
    (hrec : base + L.pgPtr + i * L.branchSize + L.branchSize ≤ runEnd)
    (hpage : s.le (base + L.pgPtr + i * L.branchSize + L.branchPage) 8 = p)
    (hks : s.le (base + L.pgPtr + i * L.branchSize + L.branchKsize) 8 = k.length)
    (hpos : s.le (base + L.pgPtr + i * L.branchSize + L.branchPos) 8 = pos)
    (hend : base + L.pgPtr + i * L.branchSize + pos + k.length ≤ runEnd)
    (hk : s.bytes (base + L.pgPtr + i * L.branchSize + pos) k.length = k)
    (hrest : decodeBranchElems L s base runEnd m (i + 1) = .ok rest) :
    decodeBranchElems L s base runEnd (m + 1) i = .ok ((k, p) :: rest) := by
  rw [decodeBranchElems]
  simp only [hpage, hpos, hks, hk, hrest]
  rw [if_neg (by omega), if_neg (by omega)]

theorem decode_writeBranchElems (W : L.WF) (base n runEnd : Nat) :
    ∀ (es : List (Bytes × Nat)) (i doff : Nat) (s : Src), i + es.length = n →
    base + L.pgPtr + n * L.branchSize + doff + branchData es ≤ runEnd →
    runEnd < base + 2 ^ 64 →
    (∀ e ∈ es, e.2 < 2 ^ 64) →
    decodeBranchElems L (writeBranchElems L base n es i doff s) base runEnd es.length i = .ok es := by
  intro es
  induction es with
  | nil => intro i doff s _ _ _ _; rfl
  | cons kv rest ih =>
    obtain ⟨k, p⟩ := kv
    intro i doff s hn hend hlt hfit
    simp only [List.length_cons] at hn
    have e1 : (i + 1) * L.branchSize = i * L.branchSize + L.branchSize := Nat.succ_mul _ _
    have e3 : (i + 1) * L.branchSize ≤ n * L.branchSize := Nat.mul_le_mul_right _ (by omega)
    have e2 : (n - i) * L.branchSize + i * L.branchSize = n * L.branchSize := by
      rw [← Nat.add_mul, Nat.sub_add_cancel (by omega)]
    have hds := branchData_cons k p rest
    rw [writeBranchElems_cons]
    obtain ⟨H1, H2, H3, H4⟩ := branchRecWrite_hasAt L W s (base + L.pgPtr + i * L.branchSize)
      p k.length ((n - i) * L.branchSize + doff)
      (base + L.pgPtr + i * L.branchSize + ((n - i) * L.branchSize + doff)) k (by omega)
    generalize branchRecWrite L s (base + L.pgPtr + i * L.branchSize)
      p k.length ((n - i) * L.branchSize + doff)
      (base + L.pgPtr + i * L.branchSize + ((n - i) * L.branchSize + doff)) k = s5 at H1 H2 H3 H4 ⊢
    have IH := ih (i + 1) (doff + k.length) s5 (by omega) (by omega) hlt
      (fun e he => hfit e (List.mem_cons_of_mem _ he))
    have hfr : ∀ x, (x < base + L.pgPtr + (i + 1) * L.branchSize ∨
        (base + L.pgPtr + n * L.branchSize ≤ x ∧
          x < base + L.pgPtr + n * L.branchSize + (doff + k.length))) →
        (writeBranchElems L base n rest (i + 1) (doff + k.length) s5).get x = s5.get x := by
      intro x hx
      apply writeBranchElems_get L W base n rest (i + 1) _ s5 x (by omega)
      omega
    generalize writeBranchElems L base n rest (i + 1) (doff + k.length) s5 = fin at IH hfr ⊢
    have br1 := W.br1; have br2 := W.br2; have br3 := W.br3
    have G1 := H1.of_get_eq (t := fin) (fun x h1 h2 => hfr x (by
      simp only [leBytes_length] at h2; omega))
    have G2 := H2.of_get_eq (t := fin) (fun x h1 h2 => hfr x (by
      simp only [leBytes_length] at h2; omega))
    have G3 := H3.of_get_eq (t := fin) (fun x h1 h2 => hfr x (by
      simp only [leBytes_length] at h2; omega))
    have G4 := H4.of_get_eq (t := fin) (fun x h1 h2 => hfr x (by omega))
    have hp := hfit (k, p) List.mem_cons_self
    refine decodeBranchElems_step L fin base runEnd rest.length i k p rest ((n - i) * L.branchSize + doff)
      ?hrec ?hpage ?hks ?hpos ?hend ?hk ?hrest
    · omega
    · exact G1.le8 hp
    · exact G2.le8 (by omega)
    · exact G3.le8 (by omega)
    · omega
    · exact G4.bytes
    · exact IH

/-- the page decoder on a branch page, from what it reads -/
theorem decodePage_branch (W : L.WF) (s : Src) (pagesize pid overflow count : Nat) (es : List (Bytes × Nat))
    (hsz : pid * pagesize + (overflow + 1) * pagesize ≤ s.size)
    (hhdr : L.pageSize ≤ pagesize)
    (hty : (s.get (pid * pagesize + L.pgType)).toNat = L.typeBranch)
    (hid : s.le (pid * pagesize + L.pgId) 8 = pid)
    (hcount : s.le (pid * pagesize + L.pgCount) 8 = count)
    (hov : s.le (pid * pagesize + L.pgOverflow) 8 = overflow)
    (hes : decodeBranchElems L s (pid * pagesize) (pid * pagesize + (overflow + 1) * pagesize) count 0 = .ok es) :
    decodePage L s pagesize pid = .ok { id := pid, overflow := overflow, count := count, body := .branch es } := by
  have h1 : pagesize ≤ (overflow + 1) * pagesize := by
    rw [Nat.add_mul, Nat.one_mul]; omega
  have := W.tbm
  simp only [decodePage, hty, hid, hcount, hov, hes]
  rw [if_neg (by omega), if_neg (by omega), if_neg (by omega), if_pos trivial]

end
end Jamm
