/-
The snapshot a commit replaces stays intact until the next writer begins (C12: falling back to the
previous header shows a complete state; C02: a crash during the next commit can fall back to it).
-/
import Jamm.Proofs.FreelistLemmas
set_option linter.unusedSectionVars false
set_option linter.unusedVariables false

namespace Jamm

/-- after a commit no page of the snapshot it replaced is in the shared free set -/
theorem prev_snapshot_not_free (s : Sys) (w : WriterTx) (hi : s.invB = true)
    (hc : s.clientOkB (.commitW w) = true) :
    disjointB s.cur.reach (s.step (.commitW w)).shared.free = true := by
  rw [invB_iff] at hi
  rw [disjointB_iff, step_commit_eq]
  intro p hp hf
  have hA := run_ainv hi w
  exact f1_free_not_reach hi (hA.sub p hf) hp

/-- a committing writer writes no page of the snapshot it started from (copy-on-write) -/
theorem commit_is_cow (s : Sys) (w : WriterTx) (hi : s.invB = true)
    (hc : s.clientOkB (.commitW w) = true) :
    disjointB s.cur.reach (s.writes w) = true := by
  rw [invB_iff] at hi
  rw [disjointB_iff]
  intro p hp hw
  have hA := run_ainv hi w
  rcases (hA.al p hw).1 with h | h
  · exact f1_free_not_reach hi h hp
  · have := (hi.rng p (Or.inl (Or.inl hp))).2; omega

end Jamm
