import Jamm.Model.Proc
set_option linter.unusedSectionVars false
namespace Jamm

/-- invariant used below: exclusion, seen-all-commits, and lock-holder bookkeeping -/
def ProcSys.good (s : ProcSys) : Bool :=
  s.exclusive && s.sawAll && (s.lock.isSome == s.procs.any PPhase.holdsLock)

/-! ### auxiliary lemmas: index-based restatement of the Bool predicates, preservation by `step` -/
namespace ProcAux

theorem filter_length_le_one {α} (p : α → Bool) (l : List α)
    (h : ∀ (j k : Nat) (a b : α), l[j]? = some a → l[k]? = some b → p a = true → p b = true → j = k) :
    (l.filter p).length ≤ 1 := by
  induction l with
  | nil => simp
  | cons x xs ih =>
    by_cases hx : p x = true
    · have : xs.filter p = [] := by
        rw [List.filter_eq_nil_iff]
        intro y hy hpy
        obtain ⟨k, hk⟩ := List.getElem?_of_mem hy
        have := h 0 (k+1) x y (by simp) (by simpa using hk) hx hpy
        omega
      simp [hx, this]
    · have := ih (fun j k a b ha hb pa pb => by
        have := h (j+1) (k+1) a b (by simpa using ha) (by simpa using hb) pa pb
        omega)
      simpa [List.filter_cons, hx] using this

theorem getElem?_set_of {α} {l : List α} {i : Nat} {a : α} (b : α) (j : Nat) (h : l[i]? = some a) :
    (l.set i b)[j]? = if i = j then some b else l[j]? := by
  have hi : i < l.length := by
    rcases Nat.lt_or_ge i l.length with h' | h'
    · exact h'
    · rw [List.getElem?_eq_none h'] at h; cases h
  rw [List.getElem?_set]
  by_cases hij : i = j <;> simp [hij]
  subst hij; simp [hi]

def Excl (s : ProcSys) : Prop :=
  ∀ (j : Nat) (p : PPhase), s.procs[j]? = some p → p.holdsLock = true → s.lock = some j
def Saw (s : ProcSys) : Prop := ∀ (j n : Nat), s.procs[j]? = some (.inside n) → n = s.commits
def Flag (s : ProcSys) : Prop :=
  s.lock.isSome = true ↔ ∃ (j : Nat) (p : PPhase), s.procs[j]? = some p ∧ p.holdsLock = true

theorem exclusive_iff (s : ProcSys) : s.exclusive = true ↔ Excl s := by
  unfold ProcSys.exclusive Excl
  constructor
  · intro h j p hj hp
    simp only [Bool.and_eq_true, List.all_eq_true, List.mem_range] at h
    have hjl : j < s.procs.length := by
      rcases Nat.lt_or_ge j s.procs.length with h' | h'
      · exact h'
      · rw [List.getElem?_eq_none h'] at hj; cases hj
    have := h.2 j hjl
    rw [hj] at this
    simpa [hp] using this
  · intro h
    simp only [Bool.and_eq_true, List.all_eq_true, List.mem_range, decide_eq_true_eq]
    refine ⟨filter_length_le_one _ _ ?_, ?_⟩
    · intro j k a b ha hb pa pb
      have h1 := h j a ha pa
      have h2 := h k b hb pb
      rw [h1] at h2; exact Option.some.inj h2
    · intro j hj
      split
      · rename_i p hp
        cases hpl : p.holdsLock
        · simp
        · simp [h j p hp hpl]
      · rfl

theorem sawAll_iff (s : ProcSys) : s.sawAll = true ↔ Saw s := by
  unfold ProcSys.sawAll Saw
  simp only [List.all_eq_true]
  constructor
  · intro h j n hj
    have := h _ (List.mem_of_getElem? hj)
    simpa using this
  · intro h p hp
    obtain ⟨j, hj⟩ := List.getElem?_of_mem hp
    split
    · rename_i n; simp [h j n hj]
    · rfl

theorem flag_iff (s : ProcSys) :
    (s.lock.isSome == s.procs.any PPhase.holdsLock) = true ↔ Flag s := by
  unfold Flag
  rw [beq_iff_eq, Bool.eq_iff_iff, List.any_eq_true]
  constructor
  · intro h; rw [h]
    constructor
    · rintro ⟨p, hp, hpl⟩
      obtain ⟨j, hj⟩ := List.getElem?_of_mem hp
      exact ⟨j, p, hj, hpl⟩
    · rintro ⟨j, p, hj, hpl⟩
      exact ⟨p, List.mem_of_getElem? hj, hpl⟩
  · intro h; rw [h]
    constructor
    · rintro ⟨j, p, hj, hpl⟩
      exact ⟨p, List.mem_of_getElem? hj, hpl⟩
    · rintro ⟨p, hp, hpl⟩
      obtain ⟨j, hj⟩ := List.getElem?_of_mem hp
      exact ⟨j, p, hj, hpl⟩

theorem good_iff (s : ProcSys) : s.good = true ↔ Excl s ∧ Saw s ∧ Flag s := by
  unfold ProcSys.good
  rw [Bool.and_eq_true, Bool.and_eq_true, exclusive_iff, sawAll_iff, flag_iff, and_assoc]


theorem good_step (s : ProcSys) (i : Nat) (h : Excl s ∧ Saw s ∧ Flag s)
    (he : s.enabled i = true) :
    Excl (s.step i) ∧ Saw (s.step i) ∧ Flag (s.step i) := by
  obtain ⟨hE, hS, hF⟩ := h
  unfold ProcSys.enabled at he
  unfold ProcSys.step
  cases hget : s.procs[i]? with
  | none => rw [hget] at he; simp at he
  | some ph =>
    rw [hget] at he
    -- steps that do not touch the lock
    have nolock : ∀ (p' : PPhase) (f : FileSt), ph.holdsLock = false → p'.holdsLock = false →
        let s' : ProcSys := { s with procs := s.procs.set i p', file := f }
        Excl s' ∧ Saw s' ∧ Flag s' := by
      intro p' f hph hp'
      refine ⟨?_, ?_, ?_⟩
      · intro j p hj hp
        simp only [getElem?_set_of p' j hget] at hj
        split at hj
        · cases hj; rw [hp'] at hp; cases hp
        · exact hE j p hj hp
      · intro j n hj
        simp only [getElem?_set_of p' j hget] at hj
        split at hj
        · cases hj; simp [PPhase.holdsLock] at hp'
        · exact hS j n hj
      · unfold Flag at hF ⊢; simp only; rw [hF]
        constructor
        · rintro ⟨j, p, hj, hp⟩
          refine ⟨j, p, ?_, hp⟩
          rw [getElem?_set_of p' j hget]
          split
          · subst j; rw [hget] at hj; cases hj; rw [hph] at hp; cases hp
          · exact hj
        · rintro ⟨j, p, hj, hp⟩
          rw [getElem?_set_of p' j hget] at hj
          split at hj
          · cases hj; rw [hp'] at hp; cases hp
          · exact ⟨j, p, hj, hp⟩
    -- the holder is unique
    have uniq : ph.holdsLock = true → ∀ (j : Nat) (p : PPhase), s.procs[j]? = some p →
        p.holdsLock = true → i = j := by
      intro hph j p hj hp
      have h1 := hE i ph hget hph
      have h2 := hE j p hj hp
      rw [h1] at h2; exact Option.some.inj h2
    -- release by the holder
    have release : ∀ (p' : PPhase) (c : Nat), ph.holdsLock = true → p'.holdsLock = false →
        let s' : ProcSys := { s with procs := s.procs.set i p', lock := none, commits := c }
        Excl s' ∧ Saw s' ∧ Flag s' := by
      intro p' c hph hp'
      have nohold : ∀ (j : Nat) (p : PPhase), (s.procs.set i p')[j]? = some p →
          p.holdsLock = true → False := by
        intro j p hj hp
        rw [getElem?_set_of p' j hget] at hj
        split at hj
        · cases hj; rw [hp'] at hp; cases hp
        · rename_i hne; exact hne (uniq hph j p hj hp)
      refine ⟨?_, ?_, ?_⟩
      · intro j p hj hp; exact (nohold j p hj hp).elim
      · intro j n hj; exact (nohold j _ hj rfl).elim
      · unfold Flag; simp only
        constructor
        · intro h; cases h
        · rintro ⟨j, p, hj, hp⟩; exact (nohold j p hj hp).elim
    cases ph with
    | start =>
      simp only []
      split
      · exact nolock .opened .created rfl rfl
      · exact nolock .opened s.file rfl rfl
    | creating => exact nolock .opened s.file rfl rfl
    | opened =>
      simp only [Option.isNone_iff_eq_none] at he
      have nohold : ∀ (j : Nat) (p : PPhase), s.procs[j]? = some p → p.holdsLock = true → False := by
        intro j p hj hp
        have := hF.2 ⟨j, p, hj, hp⟩
        rw [he] at this; cases this
      refine ⟨?_, ?_, ?_⟩
      · intro j p hj hp
        simp only [getElem?_set_of _ j hget] at hj
        split at hj
        · subst j; rfl
        · exact (nohold j p hj hp).elim
      · intro j n hj
        simp only [getElem?_set_of _ j hget] at hj
        split at hj
        · cases hj
        · exact hS j n hj
      · unfold Flag; simp only
        refine ⟨fun _ => ⟨i, .locked, ?_, rfl⟩, fun _ => rfl⟩
        rw [getElem?_set_of _ i hget]; simp
    | locked =>
      simp only []
      split
      · have hl := hE i _ hget rfl
        refine ⟨?_, ?_, ?_⟩
        · intro j p hj hp
          simp only [getElem?_set_of _ j hget] at hj
          split at hj
          · subst j; exact hl
          · exact hE j p hj hp
        · intro j n hj
          simp only [getElem?_set_of _ j hget] at hj
          split at hj
          · cases hj; rfl
          · exact hS j n hj
        · unfold Flag; simp only
          refine ⟨fun _ => ⟨i, .inside s.commits, ?_, rfl⟩, fun _ => by rw [hl]; rfl⟩
          rw [getElem?_set_of _ i hget]; simp
      · split
        · -- not empty, no valid header: the holder fails and its handle is dropped, which releases the lock
          exact release .failed s.commits rfl rfl
        · -- still empty  : the holder initialises the file and keeps the lock
          have hl := hE i _ hget rfl
          refine ⟨?_, ?_, ?_⟩
          · intro j p hj hp
            simp only [getElem?_set_of _ j hget] at hj
            split at hj
            · subst j; exact hl
            · exact hE j p hj hp
          · intro j n hj
            simp only [getElem?_set_of _ j hget] at hj
            split at hj
            · cases hj
            · exact hS j n hj
          · unfold Flag; simp only
            refine ⟨fun _ => ⟨i, .locked, ?_, rfl⟩, fun _ => by rw [hl]; rfl⟩
            rw [getElem?_set_of _ i hget]; simp
    | inside n => exact release .closed (s.commits + 1) rfl rfl
    | closed => simp at he
    | failed => simp at he


theorem good_initial (n : Nat) (file : FileSt) : (ProcSys.initial n file).good = true := by
  rw [good_iff]
  have hstart : ∀ (j : Nat) (p : PPhase), (ProcSys.initial n file).procs[j]? = some p → p = .start := by
    intro j p hj
    simp only [ProcSys.initial, List.getElem?_replicate] at hj
    split at hj
    · cases hj; rfl
    · cases hj
  refine ⟨?_, ?_, ?_⟩
  · intro j p hj hp; rw [hstart j p hj] at hp; cases hp
  · intro j m hj; cases hstart j _ hj
  · constructor
    · intro h; cases h
    · rintro ⟨j, p, hj, hp⟩; rw [hstart j p hj] at hp; cases hp

theorem good_run (sched : List Nat) : ∀ (s : ProcSys), s.good = true → (s.run sched).good = true := by
  induction sched with
  | nil => intro s h; exact h
  | cons i rest ih =>
    intro s h
    unfold ProcSys.run
    split
    · rename_i he
      exact ih _ ((good_iff _).2 (good_step s i ((good_iff s).1 h) he))
    · exact ih s h

theorem noFailure_set (s : ProcSys) (i : Nat) (p' : PPhase) (f : FileSt) (l : Option Nat) (c : Nat)
    (h : s.noFailure = true) (hp' : p' ≠ .failed) :
    ({ procs := s.procs.set i p', file := f, lock := l, commits := c } : ProcSys).noFailure = true := by
  unfold ProcSys.noFailure at h ⊢
  simp only [List.all_eq_true] at h ⊢
  intro p hp
  rcases List.mem_or_eq_of_mem_set hp with hp | hp
  · exact h p hp
  · subst hp; simpa using hp'

/-- the only transition into `.failed` is the `.locked` step that finds a `.garbage` file -/
theorem noFailure_step (s : ProcSys) (i : Nat) (hf : s.file ≠ .garbage) (hN : s.noFailure = true) :
    (s.step i).noFailure = true := by
  unfold ProcSys.step
  split
  · exact hN
  · rename_i ph hget
    cases ph with
    | start =>
      simp only []
      split
      · exact noFailure_set s i _ _ _ _ hN (by decide)
      · exact noFailure_set s i _ _ _ _ hN (by decide)
    | creating => exact noFailure_set s i _ _ _ _ hN (by decide)
    | opened => exact noFailure_set s i _ _ _ _ hN (by decide)
    | locked =>
      by_cases hr : s.file = .ready
      · simp only [if_pos hr]; exact noFailure_set s i _ _ _ _ hN (by simp)
      · simp only [if_neg hr, if_neg hf]; exact noFailure_set s i _ _ _ _ hN (by decide)
    | inside n => exact noFailure_set s i _ _ _ _ hN (by decide)
    | closed => exact hN
    | failed => exact hN

/-- no step produces a `.garbage` file: `.start` turns `.missing` into `.created`, the `.locked` step of
an empty file turns it into `.ready`, every other step leaves the file as it is -/
theorem file_step_ne_garbage (s : ProcSys) (i : Nat) (hf : s.file ≠ .garbage) :
    (s.step i).file ≠ .garbage := by
  unfold ProcSys.step
  split
  · exact hf
  · rename_i ph hget
    cases ph with
    | start =>
      simp only []
      split
      · intro h; cases h
      · exact hf
    | creating => exact hf
    | opened => exact hf
    | locked =>
      by_cases hr : s.file = .ready
      · simp only [if_pos hr]; exact hf
      · simp only [if_neg hr, if_neg hf]; intro h; cases h
    | inside n => exact hf
    | closed => exact hf
    | failed => exact hf

/-- no step overwrites a `.garbage` file -/
theorem file_step_garbage (s : ProcSys) (i : Nat) (hf : s.file = .garbage) :
    (s.step i).file = .garbage := by
  unfold ProcSys.step
  split
  · exact hf
  · rename_i ph hget
    cases ph with
    | start =>
      simp only []
      split
      · rename_i hm; rw [hf] at hm; cases hm
      · exact hf
    | creating => exact hf
    | opened => exact hf
    | locked =>
      have hr : s.file ≠ .ready := by rw [hf]; decide
      simp only [if_neg hr, if_pos hf]
      exact hf
    | inside n => exact hf
    | closed => exact hf
    | failed => exact hf

theorem noFailure_run (sched : List Nat) :
    ∀ (s : ProcSys), s.file ≠ .garbage → s.noFailure = true → (s.run sched).noFailure = true := by
  induction sched with
  | nil => intro s _ h; exact h
  | cons i rest ih =>
    intro s hf h
    unfold ProcSys.run
    split
    · exact ih _ (file_step_ne_garbage s i hf) (noFailure_step s i hf h)
    · exact ih s hf h

theorem garbage_run (sched : List Nat) :
    ∀ (s : ProcSys), s.file = .garbage → (s.run sched).file = .garbage := by
  induction sched with
  | nil => intro s h; exact h
  | cons i rest ih =>
    intro s h
    unfold ProcSys.run
    split
    · exact ih _ (file_step_garbage s i h)
    · exact ih s h

theorem noFailure_initial (n : Nat) (file : FileSt) : (ProcSys.initial n file).noFailure = true := by
  unfold ProcSys.noFailure ProcSys.initial
  simp only [List.all_eq_true]
  intro p hp
  rw [(List.mem_replicate.1 hp).2]; rfl

/-- invariant for X5: a process is inside only while the file holds valid header pages -/
def ReadyInv (s : ProcSys) : Prop := ∀ (n : Nat), PPhase.inside n ∈ s.procs → s.file = .ready

theorem inside_of_mem_set {l : List PPhase} {i n : Nat} {p' : PPhase} (hp' : ∀ m, p' ≠ .inside m)
    (h : PPhase.inside n ∈ l.set i p') : PPhase.inside n ∈ l := by
  rcases List.mem_or_eq_of_mem_set h with h | h
  · exact h
  · exact (hp' n h.symm).elim

/-- a process gets inside only by a `.locked` step that found the file ready, and no step moves the file
away from `.ready` (`.start` changes it only when it is `.missing`, `.locked` only when it is empty) -/
theorem readyInv_step (s : ProcSys) (i : Nat) (h : ReadyInv s) : ReadyInv (s.step i) := by
  unfold ProcSys.step
  split
  · exact h
  · rename_i ph hget
    cases ph with
    | start =>
      simp only []
      split
      · rename_i hm
        intro n hn
        have := h n (inside_of_mem_set (by intro m; exact PPhase.noConfusion) hn)
        rw [hm] at this; cases this
      · intro n hn
        exact h n (inside_of_mem_set (by intro m; exact PPhase.noConfusion) hn)
    | creating =>
      intro n hn
      exact h n (inside_of_mem_set (by intro m; exact PPhase.noConfusion) hn)
    | opened =>
      intro n hn
      exact h n (inside_of_mem_set (by intro m; exact PPhase.noConfusion) hn)
    | locked =>
      simp only []
      split
      · rename_i hr
        intro n hn; exact hr
      · split
        · intro n hn
          exact h n (inside_of_mem_set (by intro m; exact PPhase.noConfusion) hn)
        · intro n hn; rfl
    | inside m =>
      intro n hn
      exact h m (List.mem_of_getElem? hget)
    | closed => exact h
    | failed => exact h

theorem readyInv_run (sched : List Nat) : ∀ (s : ProcSys), ReadyInv s → ReadyInv (s.run sched) := by
  induction sched with
  | nil => intro s h; exact h
  | cons i rest ih =>
    intro s h
    unfold ProcSys.run
    split
    · exact ih _ (readyInv_step s i h)
    · exact ih s h

theorem readyInv_initial (n : Nat) (file : FileSt) : ReadyInv (ProcSys.initial n file) := by
  intro m hm
  cases (List.mem_replicate.1 hm).2

end ProcAux

open ProcAux in
/-- X1: exclusion is preserved by every step of an enabled process, whatever the file state -/
theorem exclusive_step (s : ProcSys) (i : Nat) (h : s.good = true) (he : s.enabled i = true) :
    (s.step i).good = true :=
  (good_iff _).2 (good_step s i ((good_iff s).1 h) he)

open ProcAux in
/-- X2: along every schedule of any number of processes, at most one is inside at a time and whoever is
inside has seen every commit made before it got in -/
theorem exclusive_run (n : Nat) (file : FileSt) (sched : List Nat) :
    ((ProcSys.initial n file).run sched).exclusive = true ∧ ((ProcSys.initial n file).run sched).sawAll = true := by
  have h := good_run sched _ (good_initial n file)
  unfold ProcSys.good at h
  simp only [Bool.and_eq_true] at h
  exact h.1

open ProcAux in
/-- X4: when the initial file is missing, empty or initialised -- anything but a non-empty file without a
valid header -- no process ever fails, under every schedule: a missing or empty file is initialised by
whoever holds the lock, no step produces a `.garbage` file, and the only transition into `.failed` is the
`.locked` step that finds one.  The hypothesis is needed: `garbage_file_fails`. -/
theorem never_fails (n : Nat) (file : FileSt) (hf : file ≠ .garbage) (sched : List Nat) :
    ((ProcSys.initial n file).run sched).noFailure = true :=
  noFailure_run sched _ hf (noFailure_initial n file)

/-- X3: when the file exists and is initialised from the start, no process ever fails, under every
schedule -/
theorem existing_file_no_failure (n : Nat) (sched : List Nat) :
    ((ProcSys.initial n .ready).run sched).noFailure = true :=
  never_fails n .ready (by decide) sched

open ProcAux in
/-- X5: whoever is inside the database sees an initialised file, for every initial file state and
schedule -/
theorem inside_sees_ready_file (n : Nat) (file : FileSt) (sched : List Nat) :
    let s := (ProcSys.initial n file).run sched
    (s.procs.any (fun p => match p with | .inside _ => true | _ => false)) = true → s.file = .ready := by
  intro s h
  rw [List.any_eq_true] at h
  obtain ⟨p, hp, hq⟩ := h
  have inv : ReadyInv s := readyInv_run sched _ (readyInv_initial n file)
  cases p with
  | inside m => exact inv m hp
  | _ => cases hq

/-- X7: the model can express failure.  A single process that opens a non-empty file without a valid
header (open, lock, read the header) fails -/
theorem garbage_file_fails : ((ProcSys.initial 1 .garbage).run [0, 0, 0]).noFailure = false := by
  decide

open ProcAux in
/-- X8: a non-empty file the code cannot read is never overwritten: it is still `.garbage` after every
schedule of any number of processes -/
theorem garbage_never_initialised (n : Nat) (sched : List Nat) :
    ((ProcSys.initial n .garbage).run sched).file = .garbage :=
  garbage_run sched _ rfl

/-- X6 (former finding D12, about the pinned order): when the file does not exist yet, a second process
can get the lock on the file the first one has created but not yet initialised, and fails -/
theorem create_race_witness_pinned :
    ((ProcSys.initial 2 .missing).runPinned [0, 1, 1, 1]).noFailure = false := by
  decide

/-- the repaired order passes the schedule of `create_race_witness_pinned` -/
theorem repaired_order_passes_that_schedule :
    ((ProcSys.initial 2 .missing).run [0, 1, 1, 1]).noFailure = true := by
  decide

end Jamm
