/-
Facts about the specification's sorted association lists: the reference really is an ordered map.
-/
import Jamm.Model.Spec
set_option linter.unusedSectionVars false
open Std

namespace Jamm.Spec
variable {K : Type} [Ord K] [TransOrd K] [LawfulEqOrd K] [DecidableEq K] {α : Type}

/-- every key of `l` is above `a` -/
def AllAbove (a : K) (l : List (K × α)) : Prop := ∀ e ∈ l, klt a e.1 = true

theorem sorted_cons {a : K} {x : α} {l : List (K × α)} :
    Sorted ((a, x) :: l) ↔ AllAbove a l ∧ Sorted l := by
  induction l generalizing a x with
  | nil => simp [Sorted, AllAbove]
  | cons hd tl ih =>
    obtain ⟨b, y⟩ := hd
    simp only [Sorted]
    rw [ih]
    constructor
    · rintro ⟨hab, hb, hs⟩
      refine ⟨?_, hb, hs⟩
      intro e he
      rcases List.mem_cons.mp he with rfl | he
      · exact hab
      · exact klt_trans hab (hb e he)
    · rintro ⟨ha, hb, hs⟩
      exact ⟨ha (b, y) (List.mem_cons_self), hb, hs⟩

theorem mem_insert {k : K} {x : α} {l : List (K × α)} {e : K × α} (h : e ∈ insert k x l) :
    e = (k, x) ∨ e ∈ l := by
  induction l with
  | nil => simp [insert] at h; exact Or.inl h
  | cons hd tl ih =>
    obtain ⟨a, y⟩ := hd
    simp only [insert] at h
    split at h
    · rcases List.mem_cons.mp h with h | h
      · exact Or.inl h
      · exact Or.inr (List.mem_cons_of_mem _ h)
    · split at h
      · rcases List.mem_cons.mp h with h | h
        · exact Or.inl h
        · exact Or.inr h
      · rcases List.mem_cons.mp h with h | h
        · exact Or.inr (h ▸ List.mem_cons_self)
        · rcases ih h with h | h
          · exact Or.inl h
          · exact Or.inr (List.mem_cons_of_mem _ h)

theorem insert_sorted (k : K) (x : α) (l : List (K × α)) (h : Sorted l) : Sorted (insert k x l) := by
  induction l with
  | nil => simp [insert, Sorted]
  | cons hd tl ih =>
    obtain ⟨a, y⟩ := hd
    rw [sorted_cons] at h
    simp only [insert]
    split
    · rename_i hka; subst hka; rw [sorted_cons]; exact h
    · split
      · rename_i hne hlt
        rw [sorted_cons]
        refine ⟨?_, sorted_cons.mpr h⟩
        intro e he
        rcases List.mem_cons.mp he with rfl | he
        · exact hlt
        · exact klt_trans hlt (h.1 e he)
      · rename_i hne hnlt
        rw [sorted_cons]
        refine ⟨?_, ih h.2⟩
        intro e he
        rcases mem_insert he with rfl | he
        · rcases klt_trichotomy a k with h1 | h1 | h1
          · exact h1
          · exact absurd h1.symm hne
          · exact absurd h1 hnlt
        · exact h.1 e he

theorem lookup_insert (k k' : K) (x : α) (l : List (K × α)) :
    lookup k' (insert k x l) = if k' = k then some x else lookup k' l := by
  induction l with
  | nil =>
    simp only [insert, lookup]
    by_cases h : k = k'
    · subst h; simp
    · simp [h, Ne.symm h]
  | cons hd tl ih =>
    obtain ⟨a, y⟩ := hd
    simp only [insert]
    by_cases hka : k = a
    · subst hka
      simp only [if_true, lookup]
      by_cases h : k = k'
      · subst h; simp
      · simp [h, Ne.symm h]
    · simp only [hka, if_false]
      by_cases hlt : klt k a = true
      · simp only [hlt, if_true, lookup]
        by_cases h : k = k'
        · subst h; simp
        · simp [h, Ne.symm h]
      · rw [if_neg hlt]
        simp only [lookup]
        rw [ih]
        by_cases h : a = k'
        · subst h
          have : ¬ a = k := fun e => hka e.symm
          simp [this]
        · simp [h]

theorem lookup_none_of_allAbove {a : K} {l : List (K × α)} (h : AllAbove a l) : lookup a l = none := by
  induction l with
  | nil => rfl
  | cons hd tl ih =>
    obtain ⟨b, y⟩ := hd
    simp only [lookup]
    have hb := h (b, y) List.mem_cons_self
    have : b ≠ a := fun e => by subst e; simp [klt_irrefl] at hb
    simp [this]
    exact ih (fun e he => h e (List.mem_cons_of_mem _ he))

theorem lookup_erase (k k' : K) (l : List (K × α)) (hs : Sorted l) :
    lookup k' (erase k l) = if k' = k then none else lookup k' l := by
  induction l with
  | nil => simp [erase, lookup]
  | cons hd tl ih =>
    obtain ⟨a, y⟩ := hd
    rw [sorted_cons] at hs
    simp only [erase]
    split
    · rename_i h; subst h
      simp only [lookup]
      split
      · rename_i h; subst h; exact lookup_none_of_allAbove hs.1
      · rename_i h; simp [Ne.symm h]
    · rename_i h
      simp only [lookup, ih hs.2]
      split
      · rename_i h2; subst h2; simp [h]
      · rfl

theorem mem_erase {k : K} {l : List (K × α)} {e : K × α} (h : e ∈ erase k l) : e ∈ l := by
  induction l with
  | nil => simp [erase] at h
  | cons hd tl ih =>
    obtain ⟨a, y⟩ := hd
    simp only [erase] at h
    split at h
    · exact List.mem_cons_of_mem _ h
    · rcases List.mem_cons.mp h with h | h
      · exact h ▸ List.mem_cons_self
      · exact List.mem_cons_of_mem _ (ih h)

theorem erase_sorted (k : K) (l : List (K × α)) (h : Sorted l) : Sorted (erase k l) := by
  induction l with
  | nil => simp [erase, Sorted]
  | cons hd tl ih =>
    obtain ⟨a, y⟩ := hd
    rw [sorted_cons] at h
    simp only [erase]
    split
    · exact h.2
    · rw [sorted_cons]
      exact ⟨fun e he => h.1 e (mem_erase he), ih h.2⟩

end Jamm.Spec
