/-
Copy-on-write writing of one bucket's tree: only the nodes on FRESH pages are written (`writeFreshT`), every other
node is shared with the previous commit and already decodes from its own page (`SharedT`).  The result stores the
whole tree (`StoredT`), and no byte outside the runs of the fresh nodes changes — so the premises `StoredV … s1 new.view`
and `KeepsState` of the byte-level commit theorems (`Proofs/CommitFileAtomic.lean`) are what a writer of this shape
establishes, for a tree that shares any subset of its nodes with the previous state.
-/
import Jamm.Proofs.EncodeTreeLemmas
namespace Jamm

section
variable (L : Layout) (pagesize : Nat)

mutual
/-- copy-on-write writer: only the nodes on fresh pages are written; the others are already in the file -/
def writeFreshT (fresh : Nat → Bool) (ov : Nat → Nat) : Tree Bytes LeafVal → Src → Src
  | .leaf p es, s => if fresh p then writeLeafPage L pagesize p (ov p) es s else s
  | .branch p kids, s =>
    writeFreshF fresh ov kids (if fresh p then writeBranchPage L pagesize p (ov p) (Forest.entries kids) s else s)
def writeFreshF (fresh : Nat → Bool) (ov : Nat → Nat) : Forest Bytes LeafVal → Src → Src
  | .nil, s => s
  | .cons _ t rest, s => writeFreshF fresh ov rest (writeFreshT fresh ov t s)
end

mutual
/-- the nodes that are NOT rewritten decode from their own pages (an earlier commit stored them) -/
def SharedT (fresh : Nat → Bool) (ov : Nat → Nat) (s : Src) : Tree Bytes LeafVal → Prop
  | .leaf p es => fresh p = false →
    decodePage L s pagesize p = .ok { id := p, overflow := ov p, count := es.length, body := .leaf es }
  | .branch p kids =>
    (fresh p = false → decodePage L s pagesize p =
      .ok { id := p, overflow := ov p, count := (Forest.entries kids).length, body := .branch (Forest.entries kids) }) ∧
    SharedF fresh ov s kids
def SharedF (fresh : Nat → Bool) (ov : Nat → Nat) (s : Src) : Forest Bytes LeafVal → Prop
  | .nil => True
  | .cons _ t rest => SharedT fresh ov s t ∧ SharedF fresh ov s rest
end

mutual
/-- the runs of the nodes that are written -/
def freshRunsT (fresh : Nat → Bool) (ov : Nat → Nat) : Tree Bytes LeafVal → List (Nat × Nat)
  | .leaf p _ => if fresh p then [(p, ov p)] else []
  | .branch p kids => (if fresh p then [(p, ov p)] else []) ++ freshRunsF fresh ov kids
def freshRunsF (fresh : Nat → Bool) (ov : Nat → Nat) : Forest Bytes LeafVal → List (Nat × Nat)
  | .nil => []
  | .cons _ t rest => freshRunsT fresh ov t ++ freshRunsF fresh ov rest
end

mutual
theorem writeFreshT_size (fresh : Nat → Bool) (ov : Nat → Nat) (t : Tree Bytes LeafVal) (s : Src) :
    (writeFreshT L pagesize fresh ov t s).size = s.size := by
  match t with
  | .leaf p es =>
    simp only [writeFreshT]
    cases hf : fresh p
    · simp
    · simp only [if_true]; exact writeLeafPage_size L pagesize _ _ _ _
  | .branch p kids =>
    simp only [writeFreshT]
    rw [writeFreshF_size fresh ov kids]
    cases hf : fresh p
    · simp
    · simp only [if_true]; exact writeBranchPage_size L pagesize _ _ _ _
theorem writeFreshF_size (fresh : Nat → Bool) (ov : Nat → Nat) (f : Forest Bytes LeafVal) (s : Src) :
    (writeFreshF L pagesize fresh ov f s).size = s.size := by
  match f with
  | .nil => simp only [writeFreshF]
  | .cons k t rest =>
    simp only [writeFreshF]
    rw [writeFreshF_size fresh ov rest, writeFreshT_size fresh ov t]
end

mutual
/-- the copy-on-write writer changes no byte outside the runs of the fresh nodes -/
theorem writeFreshT_get (hL : L.WFEnc = true) (fresh : Nat → Bool) (ov : Nat → Nat) (sz : Nat)
    (t : Tree Bytes LeafVal) (s : Src) (i : Nat)
    (hfit : nodesFit L pagesize ov sz t = true) (h : RunOut pagesize (freshRunsT fresh ov t) i) :
    (writeFreshT L pagesize fresh ov t s).get i = s.get i := by
  match t with
  | .leaf p es =>
    simp only [nodesFit, Bool.and_eq_true, decide_eq_true_eq] at hfit
    obtain ⟨⟨⟨⟨h1, h2⟩, h3⟩, h4⟩, h5⟩ := hfit
    simp only [writeFreshT]
    cases hf : fresh p
    · simp
    · simp only [if_true]
      have hr := h (p, ov p) (by simp [freshRunsT, hf])
      simp only [] at hr
      rw [run_bytes] at hr
      exact (writeLeafPage_frame L hL pagesize p (ov p) es s i (by omega)).1
  | .branch p kids =>
    simp only [nodesFit, Bool.and_eq_true, decide_eq_true_eq] at hfit
    obtain ⟨⟨⟨⟨h1, h2⟩, h3⟩, h4⟩, h5⟩ := hfit
    simp only [writeFreshT]
    rw [writeFreshF_get hL fresh ov sz kids _ i h5 (fun r hr => h r (by simp [freshRunsT, hr]))]
    cases hf : fresh p
    · simp
    · simp only [if_true]
      have hr := h (p, ov p) (by simp [freshRunsT, hf])
      simp only [] at hr
      rw [run_bytes] at hr
      exact (writeBranchPage_frame L hL pagesize p (ov p) _ s i (by omega)).1
theorem writeFreshF_get (hL : L.WFEnc = true) (fresh : Nat → Bool) (ov : Nat → Nat) (sz : Nat)
    (f : Forest Bytes LeafVal) (s : Src) (i : Nat)
    (hfit : nodesFitF L pagesize ov sz f = true) (h : RunOut pagesize (freshRunsF fresh ov f) i) :
    (writeFreshF L pagesize fresh ov f s).get i = s.get i := by
  match f with
  | .nil => simp only [writeFreshF]
  | .cons k t rest =>
    simp only [nodesFitF, Bool.and_eq_true] at hfit
    simp only [writeFreshF]
    rw [writeFreshF_get hL fresh ov sz rest _ i hfit.2 (fun r hr => h r (by simp [freshRunsF, hr])),
      writeFreshT_get hL fresh ov sz t s i hfit.1 (fun r hr => h r (by simp [freshRunsF, hr]))]
end

mutual
/-- the fresh runs are among the runs of the tree -/
theorem freshRunsT_sub (fresh : Nat → Bool) (ov : Nat → Nat) (t : Tree Bytes LeafVal) :
    ∀ r ∈ freshRunsT fresh ov t, r ∈ nodeRunsT ov t := by
  match t with
  | .leaf p es =>
    intro r hr
    simp only [freshRunsT] at hr
    cases hf : fresh p
    · simp [hf] at hr
    · simp only [hf, if_true, List.mem_singleton] at hr
      simp [nodeRunsT, hr]
  | .branch p kids =>
    intro r hr
    simp only [freshRunsT, List.mem_append] at hr
    simp only [nodeRunsT, List.mem_cons]
    rcases hr with hr | hr
    · cases hf : fresh p
      · simp [hf] at hr
      · simp only [hf, if_true, List.mem_singleton] at hr
        exact Or.inl hr
    · exact Or.inr (freshRunsF_sub fresh ov kids r hr)
theorem freshRunsF_sub (fresh : Nat → Bool) (ov : Nat → Nat) (f : Forest Bytes LeafVal) :
    ∀ r ∈ freshRunsF fresh ov f, r ∈ nodeRunsF ov f := by
  match f with
  | .nil => intro r hr; simp [freshRunsF] at hr
  | .cons k t rest =>
    intro r hr
    simp only [freshRunsF, List.mem_append] at hr
    simp only [nodeRunsF, List.mem_append]
    rcases hr with hr | hr
    · exact Or.inl (freshRunsT_sub fresh ov t r hr)
    · exact Or.inr (freshRunsF_sub fresh ov rest r hr)
end

mutual
/-- `SharedT` only depends on the bytes of the runs of the tree's nodes (and the file size) -/
theorem SharedT.agree (W : L.WF) (hhdr : L.pageSize ≤ pagesize) (fresh : Nat → Bool) (ov : Nat → Nat) (s s' : Src)
    (hsz : s'.size = s.size) (t : Tree Bytes LeafVal) (h : SharedT L pagesize fresh ov s t)
    (hag : ∀ r ∈ nodeRunsT ov t, Src.AgreeOn s s' (r.1 * pagesize) ((r.1 + r.2 + 1) * pagesize)) :
    SharedT L pagesize fresh ov s' t := by
  match t with
  | .leaf p es =>
    simp only [SharedT] at h ⊢
    have hr := hag (p, ov p) (by simp [nodeRunsT])
    simp only [] at hr
    rw [run_bytes] at hr
    intro hf
    exact decodePage_agree L W s s' pagesize p _ hhdr hsz (h hf) (by intro m hm; cases hm) hr
  | .branch p kids =>
    simp only [SharedT] at h ⊢
    have hr := hag (p, ov p) (by simp [nodeRunsT])
    simp only [] at hr
    rw [run_bytes] at hr
    exact ⟨fun hf => decodePage_agree L W s s' pagesize p _ hhdr hsz (h.1 hf) (by intro m hm; cases hm) hr,
      SharedF.agree W hhdr fresh ov s s' hsz kids h.2 (fun r hr => hag r (by simp [nodeRunsT, hr]))⟩
theorem SharedF.agree (W : L.WF) (hhdr : L.pageSize ≤ pagesize) (fresh : Nat → Bool) (ov : Nat → Nat) (s s' : Src)
    (hsz : s'.size = s.size) (f : Forest Bytes LeafVal) (h : SharedF L pagesize fresh ov s f)
    (hag : ∀ r ∈ nodeRunsF ov f, Src.AgreeOn s s' (r.1 * pagesize) ((r.1 + r.2 + 1) * pagesize)) :
    SharedF L pagesize fresh ov s' f := by
  match f with
  | .nil => simp only [SharedF]
  | .cons k t rest =>
    simp only [SharedF] at h ⊢
    exact ⟨SharedT.agree W hhdr fresh ov s s' hsz t h.1 (fun r hr => hag r (by simp [nodeRunsF, hr])),
      SharedF.agree W hhdr fresh ov s s' hsz rest h.2 (fun r hr => hag r (by simp [nodeRunsF, hr]))⟩
end

theorem runsDisjoint_symm {a b : Nat × Nat} (h : runsDisjoint a b) : runsDisjoint b a := Or.symm h

mutual
/-- COPY-ON-WRITE STORES THE WHOLE TREE: after writing only the fresh nodes, every node of the tree — rewritten or
shared — decodes from its own page, provided the shared ones did before, every node fits its run and all runs of the
tree are pairwise disjoint -/
theorem writeFreshT_stored (hL : L.WFEnc = true) (hhdr : L.pageSize ≤ pagesize) (fresh : Nat → Bool) (ov : Nat → Nat)
    (sz : Nat) (t : Tree Bytes LeafVal) (s : Src) (hs : s.size = sz)
    (hfit : nodesFit L pagesize ov sz t = true) (hdisj : (nodeRunsT ov t).Pairwise runsDisjoint)
    (hsh : SharedT L pagesize fresh ov s t) :
    StoredT L pagesize ov (writeFreshT L pagesize fresh ov t s) t := by
  match t with
  | .leaf p es =>
    simp only [nodesFit, Bool.and_eq_true, decide_eq_true_eq, List.all_eq_true] at hfit
    obtain ⟨⟨⟨⟨h1, h2⟩, h3⟩, h4⟩, h5⟩ := hfit
    simp only [SharedT] at hsh
    simp only [StoredT, writeFreshT]
    cases hf : fresh p
    · simpa using hsh hf
    · simp only [if_true]
      exact decode_writeLeafPage L hL pagesize p (ov p) es s (by omega) h1 hhdr h3 h4 h5
  | .branch p kids =>
    have W := Layout.WF.of L hL
    simp only [nodesFit, Bool.and_eq_true, decide_eq_true_eq] at hfit
    obtain ⟨⟨⟨⟨h1, h2⟩, h3⟩, h4⟩, h5⟩ := hfit
    simp only [nodeRunsT, List.pairwise_cons] at hdisj
    obtain ⟨hA, hB⟩ := hdisj
    simp only [SharedT] at hsh
    simp only [StoredT, writeFreshT]
    -- the source after the optional write of the branch page
    have key : ∃ s1 : Src, s1 = (if fresh p = true then writeBranchPage L pagesize p (ov p) (Forest.entries kids) s else s) ∧
        s1.size = s.size ∧
        decodePage L s1 pagesize p = .ok { id := p, overflow := ov p, count := (Forest.entries kids).length, body := .branch (Forest.entries kids) } ∧
        (∀ i, (i < p * pagesize ∨ p * pagesize + (ov p + 1) * pagesize ≤ i) → s1.get i = s.get i) := by
      refine ⟨_, rfl, ?_⟩
      cases hf : fresh p
      · simp only [Bool.false_eq_true, if_false]
        exact ⟨trivial, hsh.1 hf, fun _ _ => trivial⟩
      · simp only [if_true]
        refine ⟨writeBranchPage_size L pagesize p (ov p) (Forest.entries kids) s, ?_, ?_⟩
        · exact decode_writeBranchPage L hL pagesize p (ov p) (Forest.entries kids) s (by omega) h1 hhdr h3 h4
            (entries_lt L pagesize ov sz kids h5)
        · intro i hi
          exact (writeBranchPage_frame L hL pagesize p (ov p) _ s i (by omega)).1
    obtain ⟨s1, hs1e, hs1, hd, hfr⟩ := key
    rw [← hs1e]
    have hshk : SharedF L pagesize fresh ov s1 kids := by
      refine SharedF.agree L pagesize W hhdr fresh ov s s1 hs1 kids hsh.2 ?_
      intro r hr i i1 i2
      have := runsDisjoint_out pagesize (runsDisjoint_symm (hA r hr)) i i1 i2
      simp only [] at this
      rw [run_bytes] at this
      exact hfr i this
    refine ⟨?_, writeFreshF_stored hL hhdr fresh ov sz kids s1 (by omega) h5 hB hshk⟩
    refine decodePage_agree L W s1 _ pagesize p _ hhdr (writeFreshF_size L pagesize fresh ov kids s1) hd
      (by intro m hm; cases hm) ?_
    intro i i1 i2
    rw [← run_bytes] at i2
    exact writeFreshF_get L pagesize hL fresh ov sz kids s1 i h5
      (fun r hr => runsDisjoint_out pagesize (hA r (freshRunsF_sub fresh ov kids r hr)) i i1 i2)
theorem writeFreshF_stored (hL : L.WFEnc = true) (hhdr : L.pageSize ≤ pagesize) (fresh : Nat → Bool) (ov : Nat → Nat)
    (sz : Nat) (f : Forest Bytes LeafVal) (s : Src) (hs : s.size = sz)
    (hfit : nodesFitF L pagesize ov sz f = true) (hdisj : (nodeRunsF ov f).Pairwise runsDisjoint)
    (hsh : SharedF L pagesize fresh ov s f) :
    StoredF L pagesize ov (writeFreshF L pagesize fresh ov f s) f := by
  match f with
  | .nil => simp only [StoredF]
  | .cons k t rest =>
    have W := Layout.WF.of L hL
    simp only [nodesFitF, Bool.and_eq_true] at hfit
    simp only [nodeRunsF, List.pairwise_append] at hdisj
    obtain ⟨hA, hB, hC⟩ := hdisj
    simp only [SharedF] at hsh
    simp only [StoredF, writeFreshF]
    have h1 := writeFreshT_stored hL hhdr fresh ov sz t s hs hfit.1 hA hsh.1
    have hs1 := writeFreshT_size L pagesize fresh ov t s
    have hg : ∀ i, RunOut pagesize (freshRunsT fresh ov t) i →
        (writeFreshT L pagesize fresh ov t s).get i = s.get i :=
      fun i hi => writeFreshT_get L pagesize hL fresh ov sz t s i hfit.1 hi
    generalize writeFreshT L pagesize fresh ov t s = s1 at h1 hs1 hg ⊢
    have hshr : SharedF L pagesize fresh ov s1 rest := by
      refine SharedF.agree L pagesize W hhdr fresh ov s s1 hs1 rest hsh.2 ?_
      intro r hr i i1 i2
      exact hg i (fun r' hr' => runsDisjoint_out pagesize
        (runsDisjoint_symm (hC r' (freshRunsT_sub fresh ov t r' hr') r hr)) i i1 i2)
    refine ⟨?_, writeFreshF_stored hL hhdr fresh ov sz rest s1 (by omega) hfit.2 hB hshr⟩
    refine StoredT.agree L pagesize W hhdr ov s1 _ (writeFreshF_size L pagesize fresh ov rest s1) t h1 ?_
    intro r hr i i1 i2
    exact writeFreshF_get L pagesize hL fresh ov sz rest s1 i hfit.2
      (fun r' hr' => runsDisjoint_out pagesize (hC r hr r' (freshRunsF_sub fresh ov rest r' hr')) i i1 i2)
end

end
end Jamm
