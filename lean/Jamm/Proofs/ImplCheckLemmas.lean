/-
The database's own consistency check accepts every file the independent checker accepts.
-/
import Jamm.Model.ImplCheck
import Jamm.Proofs.CheckFileSound
import Jamm.Proofs.ImplCheckOwns
set_option linter.unusedSectionVars false
open Std

namespace Jamm

/-- I1: `checkFile` accepts ⇒ `TxInner::check` (as modelled) accepts: no page is reached twice, every overflow
page and every free-list entry is still unseen when it is visited, keys are strictly ascending within each
page, and when the walk ends no page is left over -/
theorem implCheck_of_checkFile (mt : MetaRec) (pg : PageStore) (fileSize pagesize : Nat) (sum : FileSummary)
    (h : checkFile mt pg fileSize pagesize = .ok sum) :
    implCheck mt pg = .ok () := by
  obtain ⟨hg, _, hreach, ⟨fp, hfp, hbody, hflrun⟩, hnd, hmem, _⟩ := checkFile_sound mt pg fileSize pagesize sum h
  have hfr : sum.freelistRun = pageRun mt.freelistPage fp.overflow := by
    rw [hflrun, ← expandRuns_single]
    simp [expandRuns]
  -- the certificate for the initial stack
  have hown : Owns pg mt.freelistPage [mt.freelistPage, mt.rootPage]
      (pageRun mt.freelistPage fp.overflow ++ (sum.free ++ sum.reach)) := by
    rw [hreach]
    exact Owns.freelist fp sum.free _ _ hfp hbody (view_owns pg mt.freelistPage _ _ _ hg)
  have hperm : (sum.reach ++ sum.freelistRun ++ sum.free).Perm
      (pageRun mt.freelistPage fp.overflow ++ (sum.free ++ sum.reach)) := by
    rw [hfr, List.append_assoc, ← List.append_assoc (pageRun _ _)]
    exact List.perm_append_comm
  have hnd' := hperm.nodup_iff.mp hnd
  have hmem' : ∀ q, q ∈ pageRun mt.freelistPage fp.overflow ++ (sum.free ++ sum.reach) ↔
      2 ≤ q ∧ q < mt.numPages := fun q => by rw [← hperm.mem_iff]; exact hmem q
  -- the initial set of unseen pages
  have hund : ((List.range (mt.numPages - 2)).map (· + 2)).Nodup :=
    List.Pairwise.map (· + 2) (fun a b (hab : a ≠ b) => by show a + 2 ≠ b + 2; omega) List.nodup_range
  have humem : ∀ q, q ∈ (List.range (mt.numPages - 2)).map (· + 2) ↔ 2 ≤ q ∧ q < mt.numPages := by
    intro q
    rw [List.mem_map]
    constructor
    · rintro ⟨a, ha, rfl⟩
      have := List.mem_range.mp ha
      omega
    · rintro ⟨h1, h2⟩
      exact ⟨q - 2, List.mem_range.mpr (by omega), by omega⟩
  have hp2 : (pageRun mt.freelistPage fp.overflow ++ (sum.free ++ sum.reach)).Perm
      ((List.range (mt.numPages - 2)).map (· + 2)) :=
    (List.perm_ext_iff_of_nodup hnd' hund).mpr (fun q => by rw [hmem' q, humem q])
  have hlen : (pageRun mt.freelistPage fp.overflow ++ (sum.free ++ sum.reach)).length < mt.numPages + 2 := by
    rw [hp2.length_eq, List.length_map, List.length_range]
    omega
  obtain ⟨res, r1, _, r3⟩ := implCheckLoop_owns hown (mt.numPages + 2) _ hlen hnd'
    (fun q hq => (humem q).mpr ((hmem' q).mp hq)) hund
  have hres : res = [] := by
    rw [List.eq_nil_iff_forall_not_mem]
    intro q hq
    obtain ⟨a, b⟩ := (r3 q).mp hq
    exact b ((hmem' q).mpr ((humem q).mp a))
  subst hres
  simp only [implCheck, r1]

end Jamm
