/-
Layer S: a whole database written to pages reads back as the same database.
-/
import Jamm.Model.EncodeView
import Jamm.Proofs.EncodeTreeLemmas
import Jamm.Proofs.CheckFileSound
set_option linter.unusedSectionVars false
set_option linter.unusedVariables false

namespace Jamm

/-! ### unfolding equations and the induction principle of views -/

theorem BucketView.weight_eq (v : BucketView) :
    v.weight = v.tree.nodes + 1 + (v.subs.map (fun s => s.2.weight)).sum := by
  rw [BucketView.weight]

theorem BucketView.allRuns_eq (ov : Nat → Nat) (v : BucketView) :
    v.allRuns ov = nodeRunsT ov v.tree ++ v.subs.flatMap (fun s => s.2.allRuns ov) := by
  rw [BucketView.allRuns]

theorem BucketView.sizeOf_sub (v : BucketView) (x : Bytes × BucketView) (hx : x ∈ v.subs) :
    sizeOf x.2 < sizeOf v := by
  have h1 : sizeOf x < sizeOf v.subs := List.sizeOf_lt_of_mem hx
  have h2 : sizeOf x.snd < sizeOf x := by
    obtain ⟨k, w⟩ := x
    simp only [Prod.mk.sizeOf_spec]
    omega
  have h3 : sizeOf v.subs < sizeOf v := by
    obtain ⟨t, n, ss⟩ := v
    simp only [BucketView.mk.sizeOf_spec]
    omega
  omega

/-- induction over views: a property that holds of a view whenever it holds of the views nested in it holds
of every view -/
theorem BucketView.ind {P : BucketView → Prop} (h : ∀ v, (∀ x ∈ v.subs, P x.2) → P v) : ∀ v, P v := by
  intro v
  generalize hn : sizeOf v = n
  induction n using Nat.strongRecOn generalizing v with
  | _ n ih =>
    apply h
    intro x hx
    exact ih (sizeOf x.2) (by rw [← hn]; exact BucketView.sizeOf_sub v x hx) x.2 rfl

theorem mem_le_sum (l : List Nat) (a : Nat) (h : a ∈ l) : a ≤ l.sum := by
  induction l with
  | nil => cases h
  | cons b l ih =>
    rw [List.sum_cons]
    rcases List.mem_cons.1 h with h | h
    · omega
    · have := ih h; omega

theorem BucketView.weight_sub (v : BucketView) (x : Bytes × BucketView) (hx : x ∈ v.subs) :
    x.2.weight + v.tree.nodes + 1 ≤ v.weight := by
  rw [BucketView.weight_eq v]
  have := mem_le_sum (v.subs.map (fun s => s.2.weight)) x.2.weight (List.mem_map.2 ⟨x, hx, rfl⟩)
  omega

section
variable (L : Layout) (pagesize : Nat)

theorem writeView_eq (ov : Nat → Nat) (v : BucketView) (s : Src) :
    writeView L pagesize ov v s =
      v.subs.foldl (fun acc x => writeView L pagesize ov x.2 acc) (writeTreeT L pagesize ov v.tree s) := by
  rw [writeView]
  exact List.foldl_attach (f := fun acc (x : Bytes × BucketView) => writeView L pagesize ov x.2 acc)

theorem BucketView.fits_eq (ov : Nat → Nat) (size : Nat) (v : BucketView) :
    v.fits L pagesize ov size ↔
      (nodesFit L pagesize ov size v.tree = true ∧ ∀ s ∈ v.subs, s.2.fits L pagesize ov size) := by
  rw [BucketView.fits]

/-- writing the nested buckets of a list, left to right -/
def writeSubs (ov : Nat → Nat) (l : List (Bytes × BucketView)) (s : Src) : Src :=
  l.foldl (fun acc x => writeView L pagesize ov x.2 acc) s

theorem writeSubs_nil (ov : Nat → Nat) (s : Src) : writeSubs L pagesize ov [] s = s := rfl

theorem writeSubs_cons (ov : Nat → Nat) (x : Bytes × BucketView) (l : List (Bytes × BucketView)) (s : Src) :
    writeSubs L pagesize ov (x :: l) s = writeSubs L pagesize ov l (writeView L pagesize ov x.2 s) := rfl

theorem writeView_eq' (ov : Nat → Nat) (v : BucketView) (s : Src) :
    writeView L pagesize ov v s = writeSubs L pagesize ov v.subs (writeTreeT L pagesize ov v.tree s) :=
  writeView_eq L pagesize ov v s

/-! ### size and frame -/

theorem writeSubs_size (ov : Nat → Nat) : ∀ (l : List (Bytes × BucketView)),
    (∀ x ∈ l, ∀ s, (writeView L pagesize ov x.2 s).size = s.size) →
    ∀ s, (writeSubs L pagesize ov l s).size = s.size
  | [], _, s => rfl
  | x :: l, h, s => by
    rw [writeSubs_cons, writeSubs_size ov l (fun y hy => h y (List.mem_cons_of_mem _ hy)),
      h x List.mem_cons_self]

theorem writeView_size (ov : Nat → Nat) (v : BucketView) :
    ∀ s, (writeView L pagesize ov v s).size = s.size := by
  induction v using BucketView.ind with
  | _ v ih =>
    intro s
    rw [writeView_eq', writeSubs_size L pagesize ov v.subs ih, writeTreeT_size]

theorem writeSubs_size' (ov : Nat → Nat) (l : List (Bytes × BucketView)) (s : Src) :
    (writeSubs L pagesize ov l s).size = s.size :=
  writeSubs_size L pagesize ov l (fun x _ => writeView_size L pagesize ov x.2) s

theorem writeSubs_get (ov : Nat → Nat) (sz : Nat) (i : Nat) : ∀ (l : List (Bytes × BucketView)),
    (∀ x ∈ l, ∀ s, x.2.fits L pagesize ov sz → RunOut pagesize (x.2.allRuns ov) i →
      (writeView L pagesize ov x.2 s).get i = s.get i) →
    (∀ x ∈ l, x.2.fits L pagesize ov sz) →
    RunOut pagesize (l.flatMap (fun x => x.2.allRuns ov)) i →
    ∀ s, (writeSubs L pagesize ov l s).get i = s.get i
  | [], _, _, _, s => rfl
  | x :: l, h, hfit, hout, s => by
    rw [writeSubs_cons, writeSubs_get ov sz i l (fun y hy => h y (List.mem_cons_of_mem _ hy))
      (fun y hy => hfit y (List.mem_cons_of_mem _ hy))
      (fun r hr => hout r (by rw [List.flatMap_cons]; exact List.mem_append_right _ hr)),
      h x List.mem_cons_self s (hfit x List.mem_cons_self)
        (fun r hr => hout r (by rw [List.flatMap_cons]; exact List.mem_append_left _ hr))]

/-- writing a view changes no byte outside the runs of its nodes -/
theorem writeView_get (hL : L.WFEnc = true) (ov : Nat → Nat) (sz : Nat) (i : Nat) (v : BucketView) :
    ∀ s, v.fits L pagesize ov sz → RunOut pagesize (v.allRuns ov) i →
      (writeView L pagesize ov v s).get i = s.get i := by
  induction v using BucketView.ind with
  | _ v ih =>
    intro s hfit hout
    rw [BucketView.fits_eq] at hfit
    rw [BucketView.allRuns_eq] at hout
    rw [writeView_eq', writeSubs_get L pagesize ov sz i v.subs ih hfit.2
      (fun r hr => hout r (List.mem_append_right _ hr)),
      writeTreeT_get L pagesize hL ov sz v.tree s i hfit.1 (fun r hr => hout r (List.mem_append_left _ hr))]

theorem writeSubs_get' (hL : L.WFEnc = true) (ov : Nat → Nat) (sz : Nat) (i : Nat) (l : List (Bytes × BucketView))
    (hfit : ∀ x ∈ l, x.2.fits L pagesize ov sz)
    (hout : RunOut pagesize (l.flatMap (fun x => x.2.allRuns ov)) i) (s : Src) :
    (writeSubs L pagesize ov l s).get i = s.get i :=
  writeSubs_get L pagesize ov sz i l (fun x _ => writeView_get L pagesize hL ov sz i x.2) hfit hout s

/-- V2: writing a view changes no byte outside the runs of its nodes, and not the size -/
theorem writeView_frame (hL : L.WFEnc = true) (ov : Nat → Nat) (v : BucketView) (s : Src) (i : Nat)
    (hfit : v.fits L pagesize ov s.size)
    (h : ∀ r ∈ v.allRuns ov, i < r.1 * pagesize ∨ (r.1 + r.2 + 1) * pagesize ≤ i) :
    (writeView L pagesize ov v s).get i = s.get i ∧ (writeView L pagesize ov v s).size = s.size :=
  ⟨writeView_get L pagesize hL ov s.size i v s hfit h, writeView_size L pagesize ov v s⟩

/-! ### what the written file holds -/

/-- every node of every bucket of the view decodes from its own page -/
inductive StoredV (ov : Nat → Nat) (s : Src) : BucketView → Prop where
  | mk (v : BucketView) : StoredT L pagesize ov s v.tree → (∀ x ∈ v.subs, StoredV ov s x.2) → StoredV ov s v

theorem StoredV.tree {ov : Nat → Nat} {s : Src} {v : BucketView} (h : StoredV L pagesize ov s v) :
    StoredT L pagesize ov s v.tree := by
  cases h with | mk _ h1 h2 => exact h1

theorem StoredV.subs {ov : Nat → Nat} {s : Src} {v : BucketView} (h : StoredV L pagesize ov s v) :
    ∀ x ∈ v.subs, StoredV L pagesize ov s x.2 := by
  cases h with | mk _ h1 h2 => exact h2

/-- `StoredV` only depends on the bytes of the runs of the view (and the file size) -/
theorem StoredV.agree (W : L.WF) (hhdr : L.pageSize ≤ pagesize) (ov : Nat → Nat) (s : Src) (v : BucketView) :
    ∀ s' : Src, s'.size = s.size → StoredV L pagesize ov s v →
    (∀ r ∈ v.allRuns ov, Src.AgreeOn s s' (r.1 * pagesize) ((r.1 + r.2 + 1) * pagesize)) →
    StoredV L pagesize ov s' v := by
  induction v using BucketView.ind with
  | _ v ih =>
    intro s' hsz h hag
    rw [BucketView.allRuns_eq] at hag
    refine StoredV.mk v ?_ ?_
    · exact StoredT.agree L pagesize W hhdr ov s s' hsz v.tree (h.tree L pagesize)
        (fun r hr => hag r (List.mem_append_left _ hr))
    · intro x hx
      exact ih x hx s' hsz (h.subs L pagesize x hx)
        (fun r hr => hag r (List.mem_append_right _ (List.mem_flatMap.2 ⟨x, hx, hr⟩)))

/-- the nested buckets of a list, written left to right, are all stored afterwards -/
theorem writeSubs_stored (hL : L.WFEnc = true) (hhdr : L.pageSize ≤ pagesize) (ov : Nat → Nat) (sz : Nat) :
    ∀ (l : List (Bytes × BucketView)),
    (∀ x ∈ l, ∀ s : Src, s.size = sz → x.2.fits L pagesize ov sz → (x.2.allRuns ov).Pairwise runsDisjoint →
      StoredV L pagesize ov (writeView L pagesize ov x.2 s) x.2) →
    (∀ x ∈ l, x.2.fits L pagesize ov sz) →
    (l.flatMap (fun x => x.2.allRuns ov)).Pairwise runsDisjoint →
    ∀ s : Src, s.size = sz → ∀ x ∈ l, StoredV L pagesize ov (writeSubs L pagesize ov l s) x.2
  | [], _, _, _, _, _, x, hx => by cases hx
  | y :: l, h, hfit, hdisj, s, hs, x, hx => by
    rw [List.flatMap_cons, List.pairwise_append] at hdisj
    obtain ⟨hA, hB, hC⟩ := hdisj
    rw [writeSubs_cons]
    have hfl : ∀ z ∈ l, z.2.fits L pagesize ov sz := fun z hz => hfit z (List.mem_cons_of_mem _ hz)
    have hs1 : (writeView L pagesize ov y.2 s).size = sz := by rw [writeView_size]; exact hs
    rcases List.mem_cons.1 hx with hx | hx
    · subst hx
      have h1 := h x List.mem_cons_self s hs (hfit x List.mem_cons_self) hA
      refine StoredV.agree L pagesize (Layout.WF.of L hL) hhdr ov _ x.2 _ (writeSubs_size' L pagesize ov l _) h1 ?_
      intro r hr i i1 i2
      exact writeSubs_get' L pagesize hL ov sz i l hfl
        (fun r' hr' => runsDisjoint_out pagesize (hC r hr r' hr') i i1 i2) _
    · exact writeSubs_stored hL hhdr ov sz l (fun z hz => h z (List.mem_cons_of_mem _ hz)) hfl hB _ hs1 x hx

/-- after `writeView`, every node of every bucket of the view decodes from its own page -/
theorem writeView_stored (hL : L.WFEnc = true) (hhdr : L.pageSize ≤ pagesize) (ov : Nat → Nat) (sz : Nat)
    (v : BucketView) :
    ∀ s : Src, s.size = sz → v.fits L pagesize ov sz → (v.allRuns ov).Pairwise runsDisjoint →
      StoredV L pagesize ov (writeView L pagesize ov v s) v := by
  induction v using BucketView.ind with
  | _ v ih =>
    intro s hs hfit hdisj
    rw [BucketView.fits_eq] at hfit
    rw [BucketView.allRuns_eq, List.pairwise_append] at hdisj
    obtain ⟨hA, hB, hC⟩ := hdisj
    rw [writeView_eq']
    have h1 := writeTreeT_stored L pagesize hL hhdr ov sz v.tree s hs hfit.1 hA
    have hs1 : (writeTreeT L pagesize ov v.tree s).size = sz := by rw [writeTreeT_size]; exact hs
    refine StoredV.mk v ?_ ?_
    · refine StoredT.agree L pagesize (Layout.WF.of L hL) hhdr ov _ _ (writeSubs_size' L pagesize ov v.subs _)
        v.tree h1 ?_
      intro r hr i i1 i2
      exact writeSubs_get' L pagesize hL ov sz i v.subs hfit.2
        (fun r' hr' => runsDisjoint_out pagesize (hC r hr r' hr') i i1 i2) _
    · exact writeSubs_stored L pagesize hL hhdr ov sz v.subs ih hfit.2 hB _ hs1

/-! ### reading a stored view back -/

theorem SubsOK.viewOK : ∀ (es : List (Bytes × Nat × Nat)) (vs : List (Bytes × BucketView)),
    SubsOK es vs → ∀ x ∈ vs, ViewOK x.2
  | _, [], _, x, hx => by cases hx
  | es, y :: vs, h, x, hx => by
    cases h with
    | cons k r n w es' vs' h1 h2 h3 h4 =>
      rcases List.mem_cons.1 hx with hx | hx
      · subst hx; exact h3
      · exact SubsOK.viewOK es' vs h4 x hx

theorem viewSubs_ok (f : Nat → Nat → Except FileErr BucketView) :
    ∀ (es : List (Bytes × Nat × Nat)) (vs : List (Bytes × BucketView)),
    SubsOK es vs → (∀ x ∈ vs, f x.2.tree.pid x.2.nextInt = .ok x.2) → viewSubs f es = .ok vs
  | _, [], h, _ => by cases h; rfl
  | es, y :: vs, h, hf => by
    cases h with
    | cons k r n w es' vs' h1 h2 h3 h4 =>
      have e1 := hf (k, w) List.mem_cons_self
      simp only [h1, h2] at e1
      have e2 := viewSubs_ok f es' vs h4 (fun x hx => hf x (List.mem_cons_of_mem _ hx))
      simp only [viewSubs, e1, e2]

/-- a stored, internally consistent view is what `viewBucket` reads from its root page -/
theorem viewBucket_stored (ov : Nat → Nat) (s : Src) (v : BucketView) :
    ∀ fuel, StoredV L pagesize ov s v → ViewOK v → v.weight ≤ fuel →
      viewBucket (pageStoreOf L pagesize s) fuel v.tree.pid v.nextInt = .ok v := by
  induction v using BucketView.ind with
  | _ v ih =>
    intro fuel hst hok hfuel
    cases hok with
    | mk _ hwf hsubs =>
      have hw : v.tree.nodes + 1 ≤ v.weight := by rw [BucketView.weight_eq]; omega
      match fuel, hfuel with
      | 0, hfuel => omega
      | fuel' + 1, hfuel =>
        have hu := unfoldT_stored L pagesize ov s v.tree (hst.tree L pagesize) (fuel' + 1) (by omega)
        have hvs := viewSubs_ok (viewBucket (pageStoreOf L pagesize s) fuel') _ v.subs hsubs
          (fun x hx => ih x hx fuel' (hst.subs L pagesize x hx) (SubsOK.viewOK _ _ hsubs x hx)
            (by have := BucketView.weight_sub v x hx; omega))
        rw [viewBucket]
        simp only [hu, hwf, hvs, Bool.not_true, Bool.false_eq_true, if_false]
        cases v
        rfl

end

section
variable (L : Layout) (pagesize : Nat)

/-- V1: viewing the file from the root page after `writeView` gives back exactly the view that was written:
every bucket at every nesting depth with its tree (keys, values, headers of nested buckets, page ids) and
counter — provided the view is internally consistent, every node fits its run and all runs are pairwise
disjoint -/
theorem viewBucket_writeView (hL : L.WFEnc = true) (hhdr : L.pageSize ≤ pagesize) (ov : Nat → Nat)
    (v : BucketView) (s : Src) (hok : ViewOK v)
    (hfit : v.fits L pagesize ov s.size)
    (hdisj : (v.allRuns ov).Pairwise runsDisjoint)
    (fuel : Nat) (hfuel : v.weight ≤ fuel) :
    viewBucket (pageStoreOf L pagesize (writeView L pagesize ov v s)) fuel v.tree.pid v.nextInt = .ok v :=
  viewBucket_stored L pagesize ov _ v fuel (writeView_stored L pagesize hL hhdr ov s.size v s rfl hfit hdisj)
    hok hfuel

end
end Jamm
