/-
The leaf element loop of the page writer: frame and decode-back, plus the header.
-/
import Jamm.Proofs.EncodeBasic

set_option linter.unusedSimpArgs false
set_option linter.unusedSectionVars false
set_option linter.unusedVariables false

namespace Jamm

/-- the conjuncts of `Layout.WFEnc` as propositions -/
structure Layout.WF (L : Layout) : Prop where
  pg1 : L.pgId + 8 ≤ L.pgType
  pg2 : L.pgType + 1 ≤ L.pgCount
  pg3 : L.pgCount + 8 ≤ L.pgOverflow
  pg4 : L.pgOverflow + 8 ≤ L.pgPtr
  pg5 : L.pgPtr ≤ L.pageSize
  lf1 : L.leafType + 1 ≤ L.leafPos
  lf2 : L.leafPos + 8 ≤ L.leafKsize
  lf3 : L.leafKsize + 8 ≤ L.leafVsize
  lf4 : L.leafVsize + 8 ≤ L.leafSize
  br1 : L.branchPage + 8 ≤ L.branchKsize
  br2 : L.branchKsize + 8 ≤ L.branchPos
  br3 : L.branchPos + 8 ≤ L.branchSize
  bm1 : L.bmRoot + 8 ≤ L.bmNextInt
  bm2 : L.bmNextInt + 8 ≤ L.bmSize
  ed : L.elemData < 256
  eb : L.elemBucket < 256
  edb : L.elemData ≠ L.elemBucket
  tl : L.typeLeaf < 256
  tb : L.typeBranch < 256
  tm : L.typeMeta < 256
  tf : L.typeFreelist < 256
  tlm : L.typeLeaf ≠ L.typeMeta
  tlb : L.typeLeaf ≠ L.typeBranch
  tbm : L.typeBranch ≠ L.typeMeta

theorem Layout.WF.of (L : Layout) (hL : L.WFEnc = true) : L.WF := by
  simp only [Layout.WFEnc, Bool.and_eq_true, decide_eq_true_eq, Bool.decide_and] at hL
  obtain ⟨h1, h2, h3, h4, h5, h6, h7, h8, h9, h10, h11, h12, h13, h14, h15, h16, h17, h18, h19, h20,
    h21, h22, h23, h24⟩ := hL
  exact ⟨h1, h2, h3, h4, h5, h6, h7, h8, h9, h10, h11, h12, h13, h14, h15, h16, h17, h18, h19, h20,
    h21, h22, h23, h24⟩

section
variable (L : Layout)

/-! ### the header -/

theorem writeHeader_size (base id ty count overflow : Nat) (s : Src) :
    (writeHeader L base id ty count overflow s).size = s.size := rfl

theorem writeHeader_get (W : L.WF) (base id ty count overflow : Nat) (s : Src) (x : Nat)
    (hx : x < base ∨ base + L.pgPtr ≤ x) :
    (writeHeader L base id ty count overflow s).get x = s.get x := by
  have := W.pg1; have := W.pg2; have := W.pg3; have := W.pg4
  simp only [writeHeader]
  rw [Src.write_get_out _ _ _ _ (by simp only [leBytes_length]; omega),
    Src.write_get_out _ _ _ _ (by simp only [leBytes_length]; omega),
    Src.write_get_out _ _ _ _ (by simp only [List.length_cons, List.length_nil]; omega),
    Src.write_get_out _ _ _ _ (by simp only [leBytes_length]; omega)]

theorem writeHeader_hasAt (W : L.WF) (base id ty count overflow : Nat) (s : Src) :
    (writeHeader L base id ty count overflow s).HasAt (base + L.pgId) (leBytes id 8) ∧
    (writeHeader L base id ty count overflow s).HasAt (base + L.pgType) [ty.toUInt8] ∧
    (writeHeader L base id ty count overflow s).HasAt (base + L.pgCount) (leBytes count 8) ∧
    (writeHeader L base id ty count overflow s).HasAt (base + L.pgOverflow) (leBytes overflow 8) := by
  have := W.pg1; have := W.pg2; have := W.pg3; have := W.pg4
  simp only [writeHeader]
  refine ⟨?_, ?_, ?_, ?_⟩
  · refine (((Src.hasAt_write_self _ _ _).write_disj _ _ ?_).write_disj _ _ ?_).write_disj _ _ ?_ <;>
      (simp only [leBytes_length, List.length_cons, List.length_nil]; omega)
  · refine ((Src.hasAt_write_self _ _ _).write_disj _ _ ?_).write_disj _ _ ?_ <;>
      (simp only [leBytes_length, List.length_cons, List.length_nil]; omega)
  · refine (Src.hasAt_write_self _ _ _).write_disj _ _ ?_
    simp only [leBytes_length, List.length_cons, List.length_nil]; omega
  · exact Src.hasAt_write_self _ _ _

/-! ### one leaf record -/

/-- the five writes for one leaf entry: record at `e`, data at `d` -/
def leafRecWrite (s : Src) (e : Nat) (ty : UInt8) (pos ks vs d : Nat) (data : List UInt8) : Src :=
  ((((s.write (e + L.leafType) [ty]).write (e + L.leafPos) (leBytes pos 8)).write
    (e + L.leafKsize) (leBytes ks 8)).write (e + L.leafVsize) (leBytes vs 8)).write d data

theorem leafRecWrite_size (s : Src) (e : Nat) (ty : UInt8) (pos ks vs d : Nat) (data : List UInt8) :
    (leafRecWrite L s e ty pos ks vs d data).size = s.size := rfl

theorem leafRecWrite_get (W : L.WF) (s : Src) (e : Nat) (ty : UInt8) (pos ks vs d : Nat) (data : List UInt8)
    (x : Nat) (h1 : x < e ∨ e + L.leafSize ≤ x) (h2 : x < d ∨ d + data.length ≤ x) :
    (leafRecWrite L s e ty pos ks vs d data).get x = s.get x := by
  have := W.lf1; have := W.lf2; have := W.lf3; have := W.lf4
  simp only [leafRecWrite]
  rw [Src.write_get_out _ _ _ _ h2,
    Src.write_get_out _ _ _ _ (by simp only [leBytes_length]; omega),
    Src.write_get_out _ _ _ _ (by simp only [leBytes_length]; omega),
    Src.write_get_out _ _ _ _ (by simp only [leBytes_length]; omega),
    Src.write_get_out _ _ _ _ (by simp only [List.length_cons, List.length_nil]; omega)]

theorem leafRecWrite_hasAt (W : L.WF) (s : Src) (e : Nat) (ty : UInt8) (pos ks vs d : Nat) (data : List UInt8)
    (hd : e + L.leafSize ≤ d) :
    (leafRecWrite L s e ty pos ks vs d data).HasAt (e + L.leafType) [ty] ∧
    (leafRecWrite L s e ty pos ks vs d data).HasAt (e + L.leafPos) (leBytes pos 8) ∧
    (leafRecWrite L s e ty pos ks vs d data).HasAt (e + L.leafKsize) (leBytes ks 8) ∧
    (leafRecWrite L s e ty pos ks vs d data).HasAt (e + L.leafVsize) (leBytes vs 8) ∧
    (leafRecWrite L s e ty pos ks vs d data).HasAt d data := by
  have := W.lf1; have := W.lf2; have := W.lf3; have := W.lf4
  simp only [leafRecWrite]
  refine ⟨?_, ?_, ?_, ?_, ?_⟩
  · refine ((((Src.hasAt_write_self _ _ _).write_disj _ _ ?_).write_disj _ _ ?_).write_disj _ _ ?_).write_disj _ _ ?_ <;>
      (simp only [leBytes_length, List.length_cons, List.length_nil]; omega)
  · refine (((Src.hasAt_write_self _ _ _).write_disj _ _ ?_).write_disj _ _ ?_).write_disj _ _ ?_ <;>
      (simp only [leBytes_length, List.length_cons, List.length_nil]; omega)
  · refine ((Src.hasAt_write_self _ _ _).write_disj _ _ ?_).write_disj _ _ ?_ <;>
      (simp only [leBytes_length, List.length_cons, List.length_nil]; omega)
  · refine (Src.hasAt_write_self _ _ _).write_disj _ _ ?_
    simp only [leBytes_length, List.length_cons, List.length_nil]; omega
  · exact Src.hasAt_write_self _ _ _

/-! ### the leaf loop -/

/-- data bytes of a list of leaf entries -/
def leafData (es : List (Bytes × LeafVal)) : Nat :=
  (es.map (fun e => e.1.length + (e.2.bytes L).length)).sum

theorem leafData_cons (k : Bytes) (v : LeafVal) (rest : List (Bytes × LeafVal)) :
    leafData L ((k, v) :: rest) = k.length + (v.bytes L).length + leafData L rest := by
  simp [leafData]

theorem leafBytes_eq (es : List (Bytes × LeafVal)) :
    leafBytes L es = L.pgPtr + es.length * L.leafSize + leafData L es := rfl

theorem writeLeafElems_cons (base n : Nat) (k : Bytes) (v : LeafVal) (rest : List (Bytes × LeafVal))
    (i doff : Nat) (s : Src) :
    writeLeafElems L base n ((k, v) :: rest) i doff s =
      writeLeafElems L base n rest (i + 1) (doff + k.length + (v.bytes L).length)
        (leafRecWrite L s (base + L.pgPtr + i * L.leafSize) (v.ty L).toUInt8
          ((n - i) * L.leafSize + doff) k.length (v.bytes L).length
          (base + L.pgPtr + i * L.leafSize + ((n - i) * L.leafSize + doff)) (k ++ v.bytes L)) := rfl

theorem writeLeafElems_size (base n : Nat) : ∀ (es : List (Bytes × LeafVal)) (i doff : Nat) (s : Src),
    (writeLeafElems L base n es i doff s).size = s.size := by
  intro es
  induction es with
  | nil => intro i doff s; rfl
  | cons kv rest ih =>
    obtain ⟨k, v⟩ := kv
    intro i doff s
    rw [writeLeafElems_cons, ih, leafRecWrite_size]

/-- the loop writes only inside the records `i..n` and the data area from `doff` on -/
theorem writeLeafElems_get (W : L.WF) (base n : Nat) : ∀ (es : List (Bytes × LeafVal)) (i doff : Nat) (s : Src)
    (x : Nat), i + es.length = n →
    (x < base + L.pgPtr + i * L.leafSize ∨
      (base + L.pgPtr + n * L.leafSize ≤ x ∧ x < base + L.pgPtr + n * L.leafSize + doff) ∨
      base + L.pgPtr + n * L.leafSize + doff + leafData L es ≤ x) →
    (writeLeafElems L base n es i doff s).get x = s.get x := by
  intro es
  induction es with
  | nil => intro i doff s x _ _; rfl
  | cons kv rest ih =>
    obtain ⟨k, v⟩ := kv
    intro i doff s x hn hx
    simp only [List.length_cons] at hn
    have e1 : (i + 1) * L.leafSize = i * L.leafSize + L.leafSize := Nat.succ_mul _ _
    have e3 : (i + 1) * L.leafSize ≤ n * L.leafSize := Nat.mul_le_mul_right _ (by omega)
    have e2 : (n - i) * L.leafSize + i * L.leafSize = n * L.leafSize := by
      rw [← Nat.add_mul, Nat.sub_add_cancel (by omega)]
    have hds := leafData_cons L k v rest
    rw [writeLeafElems_cons, ih (i + 1) _ _ x (by omega) (by omega)]
    apply leafRecWrite_get L W
    · omega
    · simp only [List.length_append]; omega

/-! ### decoding back -/

theorem LeafVal.ty_lt (W : L.WF) (v : LeafVal) : v.ty L < 256 := by
  cases v
  · exact W.ed
  · exact W.eb

/-- one step of the leaf decoder, from what it reads -/
theorem decodeLeafElems_step (W : L.WF) (s : Src) (base runEnd m i : Nat) (k : Bytes) (v : LeafVal)
    (rest : List (Bytes × LeafVal)) (pos : Nat)
    (hrec : base + L.pgPtr + i * L.leafSize + L.leafSize ≤ runEnd)
    (hty : (s.get (base + L.pgPtr + i * L.leafSize + L.leafType)).toNat = v.ty L)
    (hpos : s.le (base + L.pgPtr + i * L.leafSize + L.leafPos) 8 = pos)
    (hks : s.le (base + L.pgPtr + i * L.leafSize + L.leafKsize) 8 = k.length)
    (hvs : s.le (base + L.pgPtr + i * L.leafSize + L.leafVsize) 8 = (v.bytes L).length)
    (hend : base + L.pgPtr + i * L.leafSize + pos + k.length + (v.bytes L).length ≤ runEnd)
    (hk : s.bytes (base + L.pgPtr + i * L.leafSize + pos) k.length = k)
    (hv : match v with
      | .kv d => s.bytes (base + L.pgPtr + i * L.leafSize + pos + k.length) d.length = d
      | .bkt r ni =>
        s.le (base + L.pgPtr + i * L.leafSize + pos + k.length + L.bmRoot) 8 = r ∧
        s.le (base + L.pgPtr + i * L.leafSize + pos + k.length + L.bmNextInt) 8 = ni)
    (hrest : decodeLeafElems L s base runEnd m (i + 1) = .ok rest) :
    decodeLeafElems L s base runEnd (m + 1) i = .ok ((k, v) :: rest) := by
  rw [decodeLeafElems]
  simp only [hty, hpos, hks, hvs, hk, hrest]
  rw [if_neg (by omega), if_neg (by omega)]
  cases v with
  | kv d =>
    simp only [LeafVal.ty, LeafVal.bytes] at hv ⊢
    simp [hv]
  | bkt r ni =>
    have := W.edb
    simp only [LeafVal.ty, bktBytes_length] at hv ⊢
    rw [if_neg (by omega)]
    simp [hv.1, hv.2]

theorem decode_writeLeafElems (W : L.WF) (base n runEnd : Nat) :
    ∀ (es : List (Bytes × LeafVal)) (i doff : Nat) (s : Src), i + es.length = n →
    base + L.pgPtr + n * L.leafSize + doff + leafData L es ≤ runEnd →
    runEnd < base + 2 ^ 64 →
    (∀ e ∈ es, e.2.fits = true) →
    decodeLeafElems L (writeLeafElems L base n es i doff s) base runEnd es.length i = .ok es := by
  intro es
  induction es with
  | nil => intro i doff s _ _ _ _; rfl
  | cons kv rest ih =>
    obtain ⟨k, v⟩ := kv
    intro i doff s hn hend hlt hfit
    simp only [List.length_cons] at hn
    have e1 : (i + 1) * L.leafSize = i * L.leafSize + L.leafSize := Nat.succ_mul _ _
    have e3 : (i + 1) * L.leafSize ≤ n * L.leafSize := Nat.mul_le_mul_right _ (by omega)
    have e2 : (n - i) * L.leafSize + i * L.leafSize = n * L.leafSize := by
      rw [← Nat.add_mul, Nat.sub_add_cancel (by omega)]
    have hds := leafData_cons L k v rest
    rw [writeLeafElems_cons]
    obtain ⟨H1, H2, H3, H4, H5⟩ := leafRecWrite_hasAt L W s (base + L.pgPtr + i * L.leafSize)
      (v.ty L).toUInt8 ((n - i) * L.leafSize + doff) k.length (v.bytes L).length
      (base + L.pgPtr + i * L.leafSize + ((n - i) * L.leafSize + doff)) (k ++ v.bytes L) (by omega)
    generalize leafRecWrite L s (base + L.pgPtr + i * L.leafSize)
      (v.ty L).toUInt8 ((n - i) * L.leafSize + doff) k.length (v.bytes L).length
      (base + L.pgPtr + i * L.leafSize + ((n - i) * L.leafSize + doff)) (k ++ v.bytes L) = s5 at H1 H2 H3 H4 H5 ⊢
    have IH := ih (i + 1) (doff + k.length + (v.bytes L).length) s5 (by omega) (by omega) hlt
      (fun e he => hfit e (List.mem_cons_of_mem _ he))
    have hfr : ∀ x, (x < base + L.pgPtr + (i + 1) * L.leafSize ∨
        (base + L.pgPtr + n * L.leafSize ≤ x ∧
          x < base + L.pgPtr + n * L.leafSize + (doff + k.length + (v.bytes L).length))) →
        (writeLeafElems L base n rest (i + 1) (doff + k.length + (v.bytes L).length) s5).get x = s5.get x := by
      intro x hx
      apply writeLeafElems_get L W base n rest (i + 1) _ s5 x (by omega)
      omega
    generalize writeLeafElems L base n rest (i + 1) (doff + k.length + (v.bytes L).length) s5 = fin
      at IH hfr ⊢
    have lf1 := W.lf1; have lf2 := W.lf2; have lf3 := W.lf3; have lf4 := W.lf4
    have G1 := H1.of_get_eq (t := fin) (fun x h1 h2 => hfr x (by
      simp only [List.length_cons, List.length_nil] at h2; omega))
    have G2 := H2.of_get_eq (t := fin) (fun x h1 h2 => hfr x (by
      simp only [leBytes_length] at h2; omega))
    have G3 := H3.of_get_eq (t := fin) (fun x h1 h2 => hfr x (by
      simp only [leBytes_length] at h2; omega))
    have G4 := H4.of_get_eq (t := fin) (fun x h1 h2 => hfr x (by
      simp only [leBytes_length] at h2; omega))
    have G5 := H5.of_get_eq (t := fin) (fun x h1 h2 => hfr x (by
      simp only [List.length_append] at h2; omega))
    have hvfit := hfit (k, v) List.mem_cons_self
    refine decodeLeafElems_step L W fin base runEnd rest.length i k v rest ((n - i) * L.leafSize + doff)
      ?hrec ?hty ?hpos ?hks ?hvs ?hend ?hk ?hv ?hrest
    · omega
    · rw [G1.get1]; exact toUInt8_toNat_of_lt _ (LeafVal.ty_lt L W v)
    · exact G2.le8 (by omega)
    · exact G3.le8 (by omega)
    · exact G4.le8 (by omega)
    · omega
    · exact G5.append_left.bytes
    · cases v with
      | kv d => exact G5.append_right.bytes
      | bkt r ni =>
        simp only [LeafVal.fits, Bool.and_eq_true, decide_eq_true_eq, Bool.decide_and] at hvfit
        have bm1 := W.bm1; have bm2 := W.bm2
        constructor
        · refine (G5.append_right.sub (o := L.bmRoot) (cs := leBytes r 8) ?_
            (bktBytes_root L r ni bm1 bm2)).le8 hvfit.1
          rw [bktBytes_length, leBytes_length]; omega
        · refine (G5.append_right.sub (o := L.bmNextInt) (cs := leBytes ni 8) ?_
            (bktBytes_nextInt L r ni bm1 bm2)).le8 hvfit.2
          rw [bktBytes_length, leBytes_length]; omega
    · exact IH

/-- the page decoder on a leaf page, from what it reads -/
theorem decodePage_leaf (W : L.WF) (s : Src) (pagesize pid overflow count : Nat) (es : List (Bytes × LeafVal))
    (hsz : pid * pagesize + (overflow + 1) * pagesize ≤ s.size)
    (hhdr : L.pageSize ≤ pagesize)
    (hty : (s.get (pid * pagesize + L.pgType)).toNat = L.typeLeaf)
    (hid : s.le (pid * pagesize + L.pgId) 8 = pid)
    (hcount : s.le (pid * pagesize + L.pgCount) 8 = count)
    (hov : s.le (pid * pagesize + L.pgOverflow) 8 = overflow)
    (hes : decodeLeafElems L s (pid * pagesize) (pid * pagesize + (overflow + 1) * pagesize) count 0 = .ok es) :
    decodePage L s pagesize pid = .ok { id := pid, overflow := overflow, count := count, body := .leaf es } := by
  have h1 : pagesize ≤ (overflow + 1) * pagesize := by
    rw [Nat.add_mul, Nat.one_mul]; omega
  have := W.tlm; have := W.tlb
  simp only [decodePage, hty, hid, hcount, hov, hes]
  rw [if_neg (by omega), if_neg (by omega), if_neg (by omega), if_neg (by omega), if_pos trivial]

end
end Jamm
