/-
Layer Q proofs, part 2: the cursor enumerates the contents; seek and range.
-/
import Jamm.Model.Cursor
import Jamm.Proofs.SpecLemmas
import Jamm.Proofs.CursorBasic
import Jamm.Proofs.CursorSearch
import Jamm.Proofs.CursorRange
set_option linter.unusedSectionVars false
open Std

namespace Jamm
variable {K E : Type}

mutual
/-- every branch has at least one child (true of every tree a cursor can meet) -/
inductive Shape : Tree K E → Prop where
  | leaf (p : Nat) (es : List (K × E)) : Shape (.leaf p es)
  | branch (p : Nat) (k : K) (t : Tree K E) (rest : Forest K E) :
      Shape t → ShapeF rest → Shape (.branch p (.cons k t rest))
inductive ShapeF : Forest K E → Prop where
  | nil : ShapeF .nil
  | cons (k : K) (t : Tree K E) (rest : Forest K E) : Shape t → ShapeF rest → ShapeF (.cons k t rest)
end

theorem Shape.shp {t : Tree K E} (h : Shape t) : Shp t := by
  refine Shape.rec (motive_1 := fun t _ => Shp t) (motive_2 := fun f _ => ShpF f) ?_ ?_ ?_ ?_ h
  · intro p es; simp [Shp]
  · intro p k t rest _ _ h1 h2; simp [Shp, ShpF, Forest.length, h1, h2]
  · simp [ShpF]
  · intro k t rest _ _ h1 h2; simp [ShpF, h1, h2]

/-- Q5a: a fresh cursor yields every entry exactly once, in order (empty leaves are skipped) -/
theorem drain_fresh (t : Tree K E) (h : Shape t) (n : Nat) (hn : t.flatten.length < n) :
    (Cursor.drain n { root := t }).1 = t.flatten := by
  obtain ⟨hc, hp⟩ := startCursor_spec t h.shp
  rw [drain_fresh_eq t h.shp, if_neg (by omega)]
  rw [(drain_spec t n _ hc (by rw [hp]; exact hn)).1, hp]

/-- Q5b: after the end, `next` keeps returning `none` -/
theorem next_after_end (t : Tree K E) (h : Shape t) (n : Nat) (hn : t.flatten.length < n) :
    let c := (Cursor.drain n { root := t }).2
    c.next.1 = none ∧ c.next.2.next.1 = none := by
  obtain ⟨hc, hp⟩ := startCursor_spec t h.shp
  intro c
  have hc' : c = (Cursor.drain n (startCursor t)).2 := by
    show (Cursor.drain n { root := t }).2 = _
    rw [drain_fresh_eq t h.shp, if_neg (by omega)]
  obtain ⟨_, h2, _, h4⟩ := drain_spec t n _ hc (by rw [hp]; exact hn)
  rw [← hc'] at h2 h4
  obtain ⟨a1, a2, _, a4⟩ := next_spec t c h2
  obtain ⟨b1, _, _, _⟩ := next_spec t c.next.2 a2
  rw [h4] at a1 a4
  rw [a4] at b1
  exact ⟨a1, b1⟩

end Jamm

namespace Jamm
variable {K E : Type} [Ord K] [TransOrd K] [LawfulEqOrd K] [DecidableEq K]

/-- Q6: seek reports presence and positions the iteration at the key or, when it is absent, at an
immediate neighbour, after which every later entry follows in order -/
theorem seek_spec (t : Tree K E) (h : WF none none t) (key : K) (n : Nat) (hn : t.flatten.length < n) :
    let r := Cursor.seek { root := t } key
    Spec.SeekOk t.flatten key r.1 (Cursor.drain n r.2).1 := by
  intro r
  obtain ⟨out, hc, _, hp, _, hpos⟩ := seek_core t h key
  obtain ⟨hok, hlen⟩ := hpos.seekOk
  have hd := (drain_spec t n r.2 hc (by rw [hp]; omega)).1
  rw [hd, hp]
  exact hok

/-- Q7: a range scan yields exactly the entries within its bounds, for all nine kinds of bound pairs -/
theorem range_spec (t : Tree K E) (h : WF none none t) (lo hi : Spec.Bound K) (n : Nat)
    (hn : t.flatten.length < n) :
    RangeIt.drain n { c := { root := t }, lo := lo, hi := hi } = Spec.range t.flatten lo hi := by
  obtain ⟨c1, hc, hp, hr⟩ := range_position t h lo hi
  have hs := (flatten_sorted none none t h).1
  have hlen : (pending c1).length < n := by
    rw [hp]; exact Nat.lt_of_le_of_lt (List.length_filter_le _ _) hn
  rw [range_first t n _ c1 hc hr hlen, hp]
  have hpw := (sorted_pairwise.mp hs).filter (fun e => Spec.aboveLo lo e.1)
  rw [takeWhile_eq_filter hpw (fun a b hab hb => belowHi_down hi a.1 b.1 hab hb), List.filter_filter]
  unfold Spec.range
  congr 1
  funext e
  exact Bool.and_comm _ _

end Jamm
