/-
Layer A helper lemmas: the Bool predicates of `FreelistInv` as Props, `insertSorted`, `findRun`.
-/
import Jamm.Model.FreelistInv
set_option linter.unusedSectionVars false
set_option linter.unusedVariables false

namespace Jamm

/-! ### Bool predicates as Props -/

theorem ascending_cons (a : Nat) (l : List Nat) :
    ascending (a :: l) = true ↔ (∀ x ∈ l, a < x) ∧ ascending l = true := by
  induction l generalizing a with
  | nil => simp [ascending]
  | cons b rest ih =>
    simp only [ascending, Bool.and_eq_true, decide_eq_true_eq]
    constructor
    · rintro ⟨hab, hb⟩
      refine ⟨?_, hb⟩
      intro x hx
      rcases List.mem_cons.1 hx with rfl | hx
      · exact hab
      · exact Nat.lt_trans hab (((ih b).1 hb).1 x hx)
    · rintro ⟨h1, h2⟩
      exact ⟨h1 b (List.mem_cons_self ..), h2⟩

theorem ascending_iff (l : List Nat) : ascending l = true ↔ l.Pairwise (· < ·) := by
  induction l with
  | nil => simp [ascending]
  | cons a l ih => rw [ascending_cons, List.pairwise_cons, ih]

theorem nodupB_iff (l : List Nat) : nodupB l = true ↔ l.Nodup := by
  induction l with
  | nil => simp [nodupB]
  | cons a l ih => simp [nodupB, ih]

theorem disjointB_iff (a b : List Nat) : disjointB a b = true ↔ ∀ p ∈ a, p ∉ b := by
  simp [disjointB]

theorem pairwise_lt_nodup {l : List Nat} (h : l.Pairwise (· < ·)) : l.Nodup :=
  h.imp (fun hab => Nat.ne_of_lt hab)

/-! ### `insertSorted` -/

theorem mem_insertSorted (p q : Nat) (l : List Nat) :
    q ∈ FL.insertSorted p l ↔ q = p ∨ q ∈ l := by
  induction l with
  | nil => simp [FL.insertSorted]
  | cons a rest ih =>
    unfold FL.insertSorted
    by_cases h1 : p < a
    · simp [h1]
    · by_cases h2 : p = a
      · subst h2; simp
      · simp [h1, h2, ih]
        constructor
        · rintro (h | h | h) <;> simp [h]
        · rintro (h | h | h) <;> simp [h]

theorem pairwise_insertSorted (p : Nat) (l : List Nat) (h : l.Pairwise (· < ·)) :
    (FL.insertSorted p l).Pairwise (· < ·) := by
  induction l with
  | nil => simp [FL.insertSorted]
  | cons a rest ih =>
    rw [List.pairwise_cons] at h
    unfold FL.insertSorted
    by_cases h1 : p < a
    · simp only [h1, if_true]
      rw [List.pairwise_cons]
      refine ⟨?_, List.pairwise_cons.2 h⟩
      intro x hx
      rcases List.mem_cons.1 hx with rfl | hx
      · exact h1
      · exact Nat.lt_trans h1 (h.1 x hx)
    · by_cases h2 : p = a
      · subst h2
        simp only [Nat.lt_irrefl, if_true, if_false]
        exact List.pairwise_cons.2 h
      · simp only [h1, h2, if_false]
        rw [List.pairwise_cons]
        refine ⟨?_, ih h.2⟩
        intro x hx
        rcases (mem_insertSorted p x rest).1 hx with rfl | hx
        · omega
        · exact h.1 x hx

theorem mem_foldl_insertSorted (ps : List Nat) (init : List Nat) (q : Nat) :
    q ∈ ps.foldl (fun acc p => FL.insertSorted p acc) init ↔ q ∈ init ∨ q ∈ ps := by
  induction ps generalizing init with
  | nil => simp
  | cons a rest ih =>
    simp only [List.foldl_cons, ih, mem_insertSorted, List.mem_cons]
    constructor
    · rintro ((h | h) | h) <;> simp [h]
    · rintro (h | h | h) <;> simp [h]

theorem pairwise_foldl_insertSorted (ps : List Nat) (init : List Nat) (h : init.Pairwise (· < ·)) :
    (ps.foldl (fun acc p => FL.insertSorted p acc) init).Pairwise (· < ·) := by
  induction ps generalizing init with
  | nil => simpa using h
  | cons a rest ih =>
    simp only [List.foldl_cons]
    exact ih _ (pairwise_insertSorted a init h)

/-! ### `findRun` -/

/-- soundness of the scan, for an arbitrary predicate on page ids -/
theorem findRun_sound_aux (n : Nat) (P : Nat → Prop) (s : Nat) :
    ∀ (l : List Nat) (start prev : Nat), (∀ p ∈ l, P p) →
      (prev ≠ 0 → start ≤ prev ∧ ∀ j, start ≤ j → j ≤ prev → P j) →
      FL.findRun n l start prev = some s → ∀ i, i < n → P (s + i) := by
  intro l
  induction l with
  | nil => intro start prev _ _ h; simp [FL.findRun] at h
  | cons id rest ih =>
    intro start prev hl hinv h i hi
    unfold FL.findRun at h
    simp only at h
    by_cases hc : prev = 0 ∨ id - prev ≠ 1
    · simp only [hc, if_true] at h
      by_cases hn : id - id + 1 = n
      · simp only [hn, if_true, Option.some.injEq] at h
        subst h
        have : i = 0 := by omega
        subst this
        exact hl id (List.mem_cons_self ..)
      · simp only [hn, if_false] at h
        refine ih id id (fun p hp => hl p (List.mem_cons_of_mem _ hp)) ?_ h i hi
        intro _
        refine ⟨Nat.le_refl _, ?_⟩
        intro j h1 h2
        have : j = id := by omega
        subst this
        exact hl j (List.mem_cons_self ..)
    · simp only [hc, if_false] at h
      have hp0 : prev ≠ 0 := by omega
      have hid : id = prev + 1 := by omega
      obtain ⟨hsp, hrange⟩ := hinv hp0
      have hrange' : ∀ j, start ≤ j → j ≤ id → P j := by
        intro j h1 h2
        by_cases hj : j = id
        · subst hj; exact hl j (List.mem_cons_self ..)
        · exact hrange j h1 (by omega)
      by_cases hn : id - start + 1 = n
      · simp only [hn, if_true, Option.some.injEq] at h
        subst h
        exact hrange' _ (by omega) (by omega)
      · simp only [hn, if_false] at h
        refine ih start id (fun p hp => hl p (List.mem_cons_of_mem _ hp)) ?_ h i hi
        intro _
        exact ⟨by omega, hrange'⟩

/-- completeness of the scan: `L` is the whole list, `l` the part still to be scanned -/
theorem findRun_complete_aux (n : Nat) (hn : 0 < n) (L : List Nat) (h2 : ∀ x ∈ L, 2 ≤ x) :
    ∀ (l : List Nat) (start prev : Nat), l.Pairwise (· < ·) → (∀ x ∈ l, prev < x) →
      (∀ x ∈ L, x ∈ l ∨ x ≤ prev) →
      (prev ≠ 0 → start ≤ prev ∧ prev - start + 1 < n) →
      (∀ s ∈ L, s ≤ prev → s < start → ∃ i, i < n ∧ s + i ∉ L) →
      FL.findRun n l start prev = none → ∀ s ∈ L, ∃ i, i < n ∧ s + i ∉ L := by
  intro l
  induction l with
  | nil =>
    intro start prev _ _ hL hinv hbad _ s hs
    have hsp : s ≤ prev := by
      rcases hL s hs with h | h
      · simp at h
      · exact h
    have hp0 : prev ≠ 0 := by have := h2 s hs; omega
    obtain ⟨h1, h3⟩ := hinv hp0
    by_cases hlt : s < start
    · exact hbad s hs hsp hlt
    · refine ⟨prev - s + 1, by omega, ?_⟩
      intro hmem
      rcases hL _ hmem with h | h
      · simp at h
      · omega
  | cons id rest ih =>
    intro start prev hpw hgt hL hinv hbad h
    rw [List.pairwise_cons] at hpw
    have hidp : prev < id := hgt id (List.mem_cons_self ..)
    unfold FL.findRun at h
    simp only at h
    -- `prev + 1` is not in `L` unless it is `id`
    have hnotin : id ≠ prev + 1 → prev + 1 ∉ L := by
      intro hne hmem
      rcases hL _ hmem with h | h
      · rcases List.mem_cons.1 h with h | h
        · omega
        · have := hpw.1 _ h; omega
      · omega
    have hL' : ∀ x ∈ L, x ∈ rest ∨ x ≤ id := by
      intro x hx
      rcases hL x hx with h | h
      · rcases List.mem_cons.1 h with h | h
        · right; omega
        · left; exact h
      · right; omega
    by_cases hc : prev = 0 ∨ id - prev ≠ 1
    · simp only [hc, if_true] at h
      split at h
      · simp at h
      · refine ih id id hpw.2 hpw.1 hL' (fun _ => ⟨Nat.le_refl _, by omega⟩) ?_ h
        intro s hs hsid hslt
        have hsp : s ≤ prev := by
          rcases hL s hs with h | h
          · rcases List.mem_cons.1 h with h | h
            · omega
            · have := hpw.1 _ h; omega
          · exact h
        have hp0 : prev ≠ 0 := by have := h2 s hs; omega
        have hne : id ≠ prev + 1 := by omega
        obtain ⟨h1, h3⟩ := hinv hp0
        by_cases hlt : s < start
        · exact hbad s hs hsp hlt
        · refine ⟨prev - s + 1, by omega, ?_⟩
          have : s + (prev - s + 1) = prev + 1 := by omega
          rw [this]
          exact hnotin hne
    · simp only [hc, if_false] at h
      have hp0 : prev ≠ 0 := by omega
      have hid : id = prev + 1 := by omega
      obtain ⟨h1, h3⟩ := hinv hp0
      split at h
      · simp at h
      · rename_i hn1
        refine ih start id hpw.2 hpw.1 hL' (fun _ => ⟨by omega, by omega⟩) ?_ h
        intro s hs hsid hslt
        exact hbad s hs (by omega) hslt

end Jamm
