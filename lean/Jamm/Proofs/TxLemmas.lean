/-
Layer T: any sequence of leaf edits inside a write transaction, applied to a well-formed tree, is
the same sequence of map operations applied to the tree's contents, and keeps it well-formed.
-/
import Jamm.Proofs.TreeWF
set_option linter.unusedSectionVars false
open Std

namespace Jamm
variable {K E : Type} [Ord K] [TransOrd K] [LawfulEqOrd K] [DecidableEq K]

/-- the edits a write transaction performs on one bucket before commit -/
inductive TxOp (K E : Type) where
  | put (k : K) (e : E)
  | del (k : K)

def Tree.applyOp (t : Tree K E) : TxOp K E → Tree K E
  | .put k e => t.put k e
  | .del k => t.del k

def Spec.applyOp (l : List (K × E)) : TxOp K E → List (K × E)
  | .put k e => Spec.insert k e l
  | .del k => Spec.erase k l

theorem applyOp_spec (t : Tree K E) (h : WF none none t) (op : TxOp K E) :
    (t.applyOp op).flatten = Spec.applyOp t.flatten op ∧ WF none none (t.applyOp op) := by
  cases op with
  | put k e => exact put_spec none none t h k e trivial trivial
  | del k => exact del_spec none none t h k trivial trivial

theorem applyOps_spec (t : Tree K E) (h : WF none none t) (ops : List (TxOp K E)) :
    (ops.foldl Tree.applyOp t).flatten = ops.foldl Spec.applyOp t.flatten ∧
    WF none none (ops.foldl Tree.applyOp t) := by
  induction ops generalizing t with
  | nil => exact ⟨rfl, h⟩
  | cons op rest ih =>
    have h1 := applyOp_spec t h op
    have h2 := ih (t.applyOp op) h1.2
    simp only [List.foldl_cons]
    rw [← h1.1]
    exact h2

end Jamm
