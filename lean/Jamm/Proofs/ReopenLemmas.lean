/-
Layer A: close and reopen compose with the accounting invariant, with coverage (no page is lost) and with
the plateau.  `Sys.reopen` frees everything that was free or pending at close and keeps the header; the
invariant, coverage and the page mark survive it, the non-free count does not increase, and therefore the
history-level theorems (`inv_run`, `covers_run`, `plateau_history`) extend to histories with reopens
(`Sys.runSegs`).
-/
import Jamm.Model.Reopen
import Jamm.Proofs.FreelistCover
import Jamm.Proofs.PlateauHistory
set_option linter.unusedSectionVars false
set_option linter.unusedVariables false

namespace Jamm

/-- a history with reopens: segments of events separated by close/reopen (reopen after every segment; a
final reopen is harmless, and an empty segment list is no reopen at all) -/
def Sys.runSegs (s : Sys) : List (List Ev) → Option Sys
  | [] => some s
  | seg :: rest => match s.runEvs seg with
      | some s' => (s'.reopen).runSegs rest
      | none => none

/-! ### what is persisted, and what open makes of it -/

/-- the persisted list holds exactly the free and the pending pages -/
theorem mem_pages (f : FL) (p : Nat) : p ∈ f.pages ↔ (p ∈ f.free ∨ p ∈ f.pendingPages) := by
  unfold FL.pages FL.pendingPages
  rw [List.mem_eraseDups, List.mem_mergeSort, List.mem_append]

/-- `Freelist::init`: exactly the listed pages are free -/
theorem mem_init_free (ps : List Nat) (p : Nat) : p ∈ (FL.init ps).free ↔ p ∈ ps := by
  unfold FL.init
  simp only [mem_foldl_insertSorted, List.not_mem_nil, false_or]

/-- `Freelist::init`: the free set is ascending, whatever the order of the persisted list -/
theorem init_free_pairwise (ps : List Nat) : (FL.init ps).free.Pairwise (· < ·) := by
  unfold FL.init
  exact pairwise_foldl_insertSorted ps [] List.Pairwise.nil

/-- two ascending lists with the same members are the same list -/
theorem pairwise_lt_ext (l1 l2 : List Nat) (h1 : l1.Pairwise (· < ·)) (h2 : l2.Pairwise (· < ·))
    (h : ∀ p, p ∈ l1 ↔ p ∈ l2) : l1 = l2 := by
  induction l1 generalizing l2 with
  | nil =>
    cases l2 with
    | nil => rfl
    | cons b l2 => exact absurd ((h b).2 (List.mem_cons_self ..)) (by simp)
  | cons a l1 ih =>
    cases l2 with
    | nil => exact absurd ((h a).1 (List.mem_cons_self ..)) (by simp)
    | cons b l2 =>
      rw [List.pairwise_cons] at h1 h2
      have hab : a = b := by
        have ha := (h a).1 (List.mem_cons_self ..)
        have hb := (h b).2 (List.mem_cons_self ..)
        rcases List.mem_cons.1 ha with ha | ha
        · exact ha
        · rcases List.mem_cons.1 hb with hb | hb
          · exact hb.symm
          · have := h1.1 b hb; have := h2.1 a ha; omega
      subst hab
      congr 1
      refine ih l2 h1.2 h2.2 (fun p => ⟨fun hp => ?_, fun hp => ?_⟩)
      · rcases List.mem_cons.1 ((h p).1 (List.mem_cons_of_mem _ hp)) with e | e
        · have := h1.1 p hp; omega
        · exact e
      · rcases List.mem_cons.1 ((h p).2 (List.mem_cons_of_mem _ hp)) with e | e
        · have := h2.1 p hp; omega
        · exact e

/-- what open builds depends only on which pages are listed, not on their order or multiplicity -/
theorem init_congr (ps qs : List Nat) (h : ∀ p, p ∈ ps ↔ p ∈ qs) : FL.init ps = FL.init qs := by
  have : (FL.init ps).free = (FL.init qs).free :=
    pairwise_lt_ext _ _ (init_free_pairwise ps) (init_free_pairwise qs)
      (fun p => by rw [mem_init_free, mem_init_free]; exact h p)
  unfold FL.init at this ⊢
  simp only at this
  rw [this]

theorem init_pending (ps : List Nat) : (FL.init ps).pending = [] := rfl

theorem init_pendingPages (ps : List Nat) : (FL.init ps).pendingPages = [] := rfl

/-! ### one reopen -/

theorem reopen_cur (s : Sys) : (s.reopen).cur = s.cur := rfl

theorem reopen_readers (s : Sys) : (s.reopen).readers = [] := rfl

/-- the page mark is in the header, which a reopen does not touch -/
theorem reopen_numPages (s : Sys) : (s.reopen).numPages = s.numPages := rfl

theorem reopen_pending (s : Sys) : (s.reopen).shared.pending = [] := rfl

theorem reopen_pendingPages (s : Sys) : (s.reopen).shared.pendingPages = [] := rfl

/-- after a reopen exactly the pages that were free or pending at close are free (no hypothesis needed) -/
theorem mem_reopen_free (s : Sys) (p : Nat) :
    p ∈ (s.reopen).shared.free ↔ (p ∈ s.shared.free ∨ p ∈ s.shared.pendingPages) := by
  show p ∈ (FL.init s.shared.pages).free ↔ _
  rw [mem_init_free, mem_pages]

/-- the reopened state without the sort: sorting and deduplicating the persisted list does not change what
open builds from it (also the form that evaluates under `decide`: `List.mergeSort` is defined by well-founded
recursion and does not reduce in the kernel) -/
theorem reopen_eq (s : Sys) :
    s.reopen = { s with shared := FL.init (s.shared.free ++ s.shared.pendingPages), readers := [] } := by
  unfold Sys.reopen
  rw [init_congr s.shared.pages (s.shared.free ++ s.shared.pendingPages)
    (fun p => by rw [mem_pages, List.mem_append])]

/-- R1: a reopen preserves the accounting invariant -/
theorem reopen_inv (s : Sys) (hi : s.invB = true) : (s.reopen).invB = true := by
  rw [invB_iff] at hi ⊢
  refine ⟨?_, ?_, ?_, hi.ndReach, ?_, ?_, ?_, ?_, ?_, ?_, hi.np⟩
  · exact init_free_pairwise _
  · rw [reopen_pending]; exact List.Pairwise.nil
  · rw [reopen_pending]; intro e he; cases he
  · rw [reopen_pendingPages]; exact List.nodup_nil
  · intro p hp hf
    rw [reopen_cur] at hp
    rcases (mem_reopen_free s p).1 hf with h | h
    · exact hi.djRF p hp h
    · exact hi.djRP p hp h
  · intro p _ hq
    rw [reopen_pendingPages] at hq; cases hq
  · intro p _ hq
    rw [reopen_pendingPages] at hq; cases hq
  · intro p hp
    rw [reopen_numPages]
    rcases hp with (hp | hp) | hp
    · exact hi.rng p (Or.inl (Or.inl hp))
    · rcases (mem_reopen_free s p).1 hp with h | h
      · exact hi.rng p (Or.inl (Or.inr h))
      · exact hi.rng p (Or.inr h)
    · rw [reopen_pendingPages] at hp; cases hp
  · intro r hr
    rw [reopen_readers] at hr; cases hr

/-- R2: after a reopen nothing is pending, and exactly the pages that were free or pending at close are free:
a page freed before the close is reusable by the first writer after the open -/
theorem reopen_frees_everything (s : Sys) (hi : s.invB = true) :
    (s.reopen).shared.pending = [] ∧
    ∀ p, p ∈ (s.reopen).shared.free ↔ (p ∈ s.shared.free ∨ p ∈ s.shared.pendingPages) :=
  ⟨reopen_pending s, mem_reopen_free s⟩

/-- R3: a reopen loses no page -/
theorem reopen_covers (s : Sys) (hi : s.invB = true) (h : s.Covers) : (s.reopen).Covers := by
  intro p h2 hp
  rw [reopen_numPages] at hp
  rw [reopen_cur]
  rcases h p h2 hp with hr | hf | hq
  · exact Or.inl hr
  · exact Or.inr (Or.inl ((mem_reopen_free s p).2 (Or.inl hf)))
  · exact Or.inr (Or.inl ((mem_reopen_free s p).2 (Or.inr hq)))

/-- the free set does not shrink over a reopen -/
theorem reopen_free_length (s : Sys) (hi : s.invB = true) :
    s.shared.free.length ≤ (s.reopen).shared.free.length := by
  rw [invB_iff] at hi
  exact List.Nodup.length_le_of_subset (pairwise_lt_nodup hi.ascFree)
    (fun p hp => (mem_reopen_free s p).2 (Or.inl hp))

/-- R4: the number of non-free pages does not increase over a reopen (pending pages become free) -/
theorem reopen_nonFree_le (s : Sys) (hi : s.invB = true) : (s.reopen).nonFree ≤ s.nonFree := by
  have := reopen_free_length s hi
  unfold Sys.nonFree
  rw [reopen_numPages]
  omega

/-! ### histories with reopens -/

/-- a successful run ends in the state reached by stepping through the events -/
theorem runEvs_eq_stepAll (s : Sys) (evs : List Ev) (s' : Sys) (h : s.runEvs evs = some s') :
    s' = s.stepAll evs := by
  induction evs generalizing s with
  | nil =>
    simp only [Sys.runEvs, Option.some.injEq] at h
    subst h; rfl
  | cons ev rest ih =>
    unfold Sys.runEvs at h
    split at h
    · exact ih (s.step ev) h
    · simp at h

theorem runSegs_cons (s : Sys) (seg : List Ev) (rest : List (List Ev)) (s' : Sys)
    (h : s.runSegs (seg :: rest) = some s') :
    ∃ s1, s.runEvs seg = some s1 ∧ (s1.reopen).runSegs rest = some s' := by
  unfold Sys.runSegs at h
  split at h
  · rename_i s1 h1
    exact ⟨s1, h1, h⟩
  · simp at h

/-- R5: the invariant along any history with reopens -/
theorem inv_runSegs (s : Sys) (segs : List (List Ev)) (s' : Sys) (hi : s.invB = true)
    (h : s.runSegs segs = some s') : s'.invB = true := by
  induction segs generalizing s with
  | nil =>
    simp only [Sys.runSegs, Option.some.injEq] at h
    subst h; exact hi
  | cons seg rest ih =>
    obtain ⟨s1, h1, h2⟩ := runSegs_cons s seg rest s' h
    exact ih s1.reopen (reopen_inv s1 (inv_run s seg s1 hi h1)) h2

/-- R6: no page is lost along any history with reopens -/
theorem covers_runSegs (s : Sys) (segs : List (List Ev)) (s' : Sys) (hi : s.invB = true) (hcov : s.Covers)
    (h : s.runSegs segs = some s') : s'.Covers := by
  induction segs generalizing s with
  | nil =>
    simp only [Sys.runSegs, Option.some.injEq] at h
    subst h; exact hcov
  | cons seg rest ih =>
    obtain ⟨s1, h1, h2⟩ := runSegs_cons s seg rest s' h
    have hi1 := inv_run s seg s1 hi h1
    exact ih s1.reopen (reopen_inv s1 hi1) (reopen_covers s1 hi1 (covers_run s seg s1 hi hcov h1)) h2

/-- R7: the plateau across reopens: however many segments and transactions, the page mark never exceeds the
larger of where it started and `K·(n+2)+1` -/
theorem plateau_with_reopens (s : Sys) (segs : List (List Ev)) (s' : Sys) (K n : Nat)
    (hi : s.invB = true) (h : s.runSegs segs = some s')
    (hK : requestsLeSegs K segs = true) (hn : s.nonFreeLeSegs n segs = true) :
    s'.numPages ≤ max s.numPages (K * (n + 2) + 1) := by
  induction segs generalizing s with
  | nil =>
    simp only [Sys.runSegs, Option.some.injEq] at h
    subst h; exact Nat.le_max_left _ _
  | cons seg rest ih =>
    obtain ⟨s1, h1, h2⟩ := runSegs_cons s seg rest s' h
    simp only [requestsLeSegs, Bool.and_eq_true] at hK
    simp only [Sys.nonFreeLeSegs, Bool.and_eq_true] at hn
    have hi1 := inv_run s seg s1 hi h1
    have hp1 := plateau_history s seg s1 K n hi h1 hK.1 hn.1
    have hn2 : (s1.reopen).nonFreeLeSegs n rest = true := by
      rw [runEvs_eq_stepAll s seg s1 h1]; exact hn.2
    have hp2 := ih s1.reopen (reopen_inv s1 hi1) h2 hK.2 hn2
    rw [reopen_numPages] at hp2
    generalize K * (n + 2) + 1 = B at hp1 hp2 ⊢
    omega

end Jamm
