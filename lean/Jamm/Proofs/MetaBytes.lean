/-
Layer S proofs: the header checksum at the level of FILE bytes.

`readMeta` decodes every field little-endian from its layout offset and `metaHashInput` hashes the
big-endian image of the decoded number on the same width; a little-endian read of `n` bytes is `< 256 ^ n`
by construction, so that image is exactly the `n` file bytes reversed (`beBytes_le`).  Hence the hash
input of the record read from a header page is the file read at a fixed list of offsets
(`metaHashInput_readMeta`, `hashedOffsets`) — for ANY layout and hash order.  When those offsets, the
page-type byte and the stored checksum are pairwise distinct (`(checkedOffsets L order).Nodup`, decided for
the generated layout), changing one file byte at a checked offset changes exactly one hashed byte, or only
the stored checksum, or the page-type byte; each is detected (`one_damaged_file_byte_invalidates`).
Conversely a file that agrees on the checked offsets yields the same slot verdict and the same record
(`same_checked_bytes_same_slot`, when the order covers every field of the record).
-/
import Jamm.Model.MetaBytes
import Jamm.Proofs.HashLemmas
import Jamm.Proofs.EncodeBasic
set_option linter.unusedSectionVars false
set_option linter.unusedSimpArgs false
set_option linter.unusedVariables false

namespace Jamm

namespace Src

/-! ### little-endian reads, byte by byte -/

/-- a little-endian read depends only on the bytes it covers -/
theorem le_congr (s s' : Src) (n : Nat) : ∀ off, (∀ j, j < n → s'.get (off + j) = s.get (off + j)) →
    s'.le off n = s.le off n := by
  induction n with
  | zero => intro off _; simp [Src.le]
  | succ n ih =>
    intro off h
    have h0 : s'.get off = s.get off := by simpa using h 0 (Nat.succ_pos n)
    rw [le_succ, le_succ, ih (off + 1), h0]
    intro j hj
    have := h (j + 1) (Nat.succ_lt_succ hj)
    rwa [Nat.add_assoc, Nat.add_comm 1 j]

/-- a little-endian read determines every byte it covers -/
theorem le_inj (s s' : Src) (n : Nat) : ∀ off, s'.le off n = s.le off n →
    ∀ j, j < n → s'.get (off + j) = s.get (off + j) := by
  induction n with
  | zero => intro off _ j hj; omega
  | succ n ih =>
    intro off h j hj
    rw [le_succ, le_succ] at h
    have ha := UInt8.toNat_lt (s'.get off)
    have hb := UInt8.toNat_lt (s.get off)
    have h0 : (s'.get off).toNat = (s.get off).toNat := by omega
    have h1 : s'.le (off + 1) n = s.le (off + 1) n := by omega
    cases j with
    | zero => exact UInt8.toNat_inj.1 h0
    | succ j =>
      have := ih (off + 1) h1 j (Nat.lt_of_succ_lt_succ hj)
      rwa [Nat.add_assoc, Nat.add_comm 1 j] at this

/-- the `j`-th base-256 digit of a little-endian read is the `j`-th byte -/
theorem le_digit (s : Src) (n : Nat) : ∀ off j, j < n → (s.le off n / 256 ^ j) % 256 = (s.get (off + j)).toNat := by
  induction n with
  | zero => intro off j hj; omega
  | succ n ih =>
    intro off j hj
    rw [le_succ]
    have ha := UInt8.toNat_lt (s.get off)
    cases j with
    | zero => simp only [Nat.pow_zero, Nat.div_one, Nat.add_zero]; omega
    | succ j =>
      have := ih (off + 1) j (Nat.lt_of_succ_lt_succ hj)
      rw [Nat.add_assoc, Nat.add_comm 1 j] at this
      rw [← this, Nat.pow_succ', ← Nat.div_div_eq_div_mul]
      congr 2
      omega

/-- the big-endian image of a little-endian read, on the same width, is the bytes read, reversed — no
bound is needed: an `n`-byte read is below `256 ^ n` by construction -/
theorem beBytes_le (s : Src) (off n : Nat) : beBytes (s.le off n) n = (s.bytes off n).reverse := by
  apply List.ext_getElem
  · simp [beBytes, Src.bytes]
  · intro i h1 h2
    simp only [beBytes, List.length_map, List.length_range] at h1
    simp only [beBytes, Src.bytes, List.getElem_map, List.getElem_range, List.getElem_reverse,
      List.length_map, List.length_range]
    rw [le_digit s n off (n - 1 - i) (by omega)]
    simp [Nat.toUInt8]

/-- `bytes` as a read of the file at a list of offsets relative to `base` -/
theorem bytes_eq_map_range' (s : Src) (base p n : Nat) :
    s.bytes (base + p) n = (List.range' p n).map (fun i => s.get (base + i)) := by
  simp [Src.bytes, List.range'_eq_map_range, Nat.add_assoc]

end Src

/-! ### the record read from a header page, field by field -/

theorem readMeta_field (L : Layout) (s : Src) (base : Nat) (f : MetaField) :
    (readMeta L s base).field f = s.le (base + L.pgPtr + fieldOff L f) (fieldSz L f) := by
  cases f <;> simp [readMeta, MetaRec.field, fieldOff, fieldSz, Nat.add_assoc]

theorem readMeta_hash (L : Layout) (s : Src) (base : Nat) :
    (readMeta L s base).hash = s.le (base + L.pgPtr + L.mHash) 8 := rfl

theorem fieldBytes_eq (L : Layout) (m : MetaRec) (f : MetaField) :
    fieldBytes L m f = beBytes (m.field f) (fieldSz L f) := by
  cases f <;> rfl

theorem MetaRec.ext_fields (m m' : MetaRec) (h : ∀ f, m'.field f = m.field f) (hh : m'.hash = m.hash) : m' = m := by
  have h1 := h .metaPage; have h2 := h .magic; have h3 := h .version; have h4 := h .pagesize
  have h5 := h .rootPage; have h6 := h .nextInt; have h7 := h .numPages; have h8 := h .freelistPage
  have h9 := h .txId
  cases m; cases m'
  simp only [MetaRec.field] at h1 h2 h3 h4 h5 h6 h7 h8 h9
  simp only at hh
  simp [*]

/-- the file offsets (relative to the start of the header page) of the hashed bytes, in hashing order: the
fields in `order`, each from its most significant (= last) byte down -/
def hashedOffsets (L : Layout) (order : List MetaField) : List Nat :=
  order.flatMap (fun f => (fieldOffsets L f).reverse)

/-- the hash input of the record read from the page at `base` is the file read at `hashedOffsets` -/
theorem metaHashInput_readMeta (L : Layout) (order : List MetaField) (s : Src) (base : Nat) :
    metaHashInput L order (readMeta L s base) = (hashedOffsets L order).map (fun i => s.get (base + i)) := by
  unfold metaHashInput hashedOffsets
  rw [List.map_flatMap]
  congr 1
  funext f
  rw [fieldBytes_eq, readMeta_field, Src.beBytes_le, Nat.add_assoc, Src.bytes_eq_map_range', List.map_reverse]
  rfl

theorem flatMap_reverse_perm {α β : Type} (g : α → List β) (l : List α) :
    (l.flatMap (fun a => (g a).reverse)).Perm (l.flatMap g) := by
  induction l with
  | nil => exact List.Perm.refl _
  | cons a l ih =>
    simp only [List.flatMap_cons]
    exact List.Perm.append (List.reverse_perm _) ih

theorem hashedOffsets_perm (L : Layout) (order : List MetaField) :
    (hashedOffsets L order).Perm (order.flatMap (fieldOffsets L)) :=
  flatMap_reverse_perm _ _

/-! ### the slot verdict -/

theorem slotValid_eq (L : Layout) (order : List MetaField) (s : Src) (pagesize slot : Nat) :
    slotValid L order s pagesize slot =
      if slot * pagesize + L.pgPtr + L.metaSize > s.size then none
      else if (s.get (slot * pagesize + L.pgType)).toNat ≠ L.typeMeta then none
      else if metaValid L order (readMeta L s (slot * pagesize)) then some (readMeta L s (slot * pagesize)) else none := rfl

theorem slotValid_some (L : Layout) (order : List MetaField) (s : Src) (pagesize slot : Nat) (m : MetaRec)
    (h : slotValid L order s pagesize slot = some m) :
    ¬ slot * pagesize + L.pgPtr + L.metaSize > s.size ∧ (s.get (slot * pagesize + L.pgType)).toNat = L.typeMeta ∧
    m = readMeta L s (slot * pagesize) ∧ metaValid L order (readMeta L s (slot * pagesize)) = true := by
  rw [slotValid_eq] at h
  split at h
  · simp at h
  · split at h
    · simp at h
    · split at h
      · rename_i h1 h2 h3
        simp at h
        exact ⟨h1, by simpa using h2, h.symm, h3⟩
      · simp at h

/-- file-level detection of single-byte damage, for any layout whose checked offsets are pairwise distinct -/
theorem one_damaged_file_byte_invalidates (L : Layout) (order : List MetaField)
    (hnd : (checkedOffsets L order).Nodup)
    (s s' : Src) (pagesize slot : Nat) (m : MetaRec) (off : Nat)
    (hv : slotValid L order s pagesize slot = some m)
    (hsz : s'.size = s.size)
    (hsame : ∀ i, i ≠ slot * pagesize + off → s'.get i = s.get i)
    (hdiff : s'.get (slot * pagesize + off) ≠ s.get (slot * pagesize + off))
    (hin : off ∈ checkedOffsets L order) :
    slotValid L order s' pagesize slot = none := by
  obtain ⟨hfit, hty, -, hval⟩ := slotValid_some L order s pagesize slot m hv
  generalize hbase : slot * pagesize = base at *
  -- the structure of the checked offsets
  unfold checkedOffsets at hnd hin
  rw [List.nodup_cons, List.nodup_append] at hnd
  obtain ⟨hty_notin, hnd_f, hnd_c, hdisj⟩ := hnd
  have hty_f : L.pgType ∉ order.flatMap (fieldOffsets L) := fun h => hty_notin (List.mem_append_left _ h)
  have hty_c : L.pgType ∉ checksumOffsets L := fun h => hty_notin (List.mem_append_right _ h)
  have hperm := hashedOffsets_perm L order
  -- reads away from the damaged byte are unchanged
  have hget : ∀ i, i ≠ off → s'.get (base + i) = s.get (base + i) := fun i hi => hsame _ (by omega)
  have hcs_mem : ∀ j, j < 8 → L.pgPtr + L.mHash + j ∈ checksumOffsets L := by
    intro j hj
    simp only [checksumOffsets, List.mem_range'_1]
    omega
  rw [slotValid_eq, hsz, hbase, if_neg hfit]
  rw [List.mem_cons, List.mem_append] at hin
  rcases hin with hin | hin | hin
  · -- the page-type byte
    subst hin
    have : (s'.get (base + L.pgType)).toNat ≠ L.typeMeta := by
      intro e
      exact hdiff (UInt8.toNat_inj.1 (e.trans hty.symm))
    rw [if_pos this]
  · -- a byte of a hashed field
    have hoff_ty : off ≠ L.pgType := fun e => hty_f (e ▸ hin)
    have hoff_c : off ∉ checksumOffsets L := fun h => hdisj off hin off h rfl
    rw [hget _ (Ne.symm hoff_ty), if_neg (by simpa using hty)]
    have hhash : (readMeta L s' base).hash = (readMeta L s base).hash := by
      rw [readMeta_hash, readMeta_hash]
      apply Src.le_congr
      intro j hj
      rw [show base + L.pgPtr + L.mHash + j = base + (L.pgPtr + L.mHash + j) by omega]
      exact hget _ (fun e => hoff_c (e ▸ hcs_mem j hj))
    have hinH : off ∈ hashedOffsets L order := hperm.mem_iff.2 hin
    have hndH : (hashedOffsets L order).Nodup := hperm.nodup_iff.2 hnd_f
    obtain ⟨pre, post, hsplit⟩ := List.append_of_mem hinH
    rw [hsplit, List.nodup_append] at hndH
    obtain ⟨-, hnd_post, hpre⟩ := hndH
    rw [List.nodup_cons] at hnd_post
    have hpre' : ∀ i ∈ pre, i ≠ off := fun i hi => hpre i hi off (List.mem_cons_self ..)
    have hpost' : ∀ i ∈ post, i ≠ off := fun i hi e => hnd_post.1 (e ▸ hi)
    have h1 : metaHashInput L order (readMeta L s base) =
        pre.map (fun i => s.get (base + i)) ++ s.get (base + off) :: post.map (fun i => s.get (base + i)) := by
      rw [metaHashInput_readMeta, hsplit, List.map_append, List.map_cons]
    have h2 : metaHashInput L order (readMeta L s' base) =
        pre.map (fun i => s.get (base + i)) ++ s'.get (base + off) :: post.map (fun i => s.get (base + i)) := by
      rw [metaHashInput_readMeta, hsplit, List.map_append, List.map_cons,
        List.map_congr_left (fun i hi => hget i (hpre' i hi)),
        List.map_congr_left (fun i hi => hget i (hpost' i hi))]
    have := one_hashed_byte_invalidates L order _ _ hval hhash _ _ _ _ (Ne.symm hdiff) h1 h2
    simp [this]
  · -- a byte of the stored checksum
    have hoff_ty : off ≠ L.pgType := fun e => hty_c (e ▸ hin)
    have hoff_f : off ∉ order.flatMap (fieldOffsets L) := fun h => hdisj off h off hin rfl
    rw [hget _ (Ne.symm hoff_ty), if_neg (by simpa using hty)]
    have hinput : metaHashInput L order (readMeta L s' base) = metaHashInput L order (readMeta L s base) := by
      rw [metaHashInput_readMeta, metaHashInput_readMeta]
      apply List.map_congr_left
      intro i hi
      exact hget i (fun e => hoff_f (hperm.mem_iff.1 (e ▸ hi)))
    have hhash : (readMeta L s' base).hash ≠ (readMeta L s base).hash := by
      rw [readMeta_hash, readMeta_hash]
      intro e
      simp only [checksumOffsets, List.mem_range'_1] at hin
      have := Src.le_inj s s' 8 _ e (off - (L.pgPtr + L.mHash)) (by omega)
      rw [show base + L.pgPtr + L.mHash + (off - (L.pgPtr + L.mHash)) = base + off by omega] at this
      exact hdiff this
    have := damaged_checksum_invalidates L order _ _ hval hhash hinput
    simp [this]

/-- a file that agrees with a valid header page on every checked byte has the same valid record there
(`hall`: the hash order covers every field of the record, so that the two records are equal as a whole) -/
theorem same_checked_bytes_same_slot (L : Layout) (order : List MetaField) (hall : ∀ f : MetaField, f ∈ order)
    (s s' : Src) (pagesize slot : Nat) (m : MetaRec)
    (hv : slotValid L order s pagesize slot = some m) (hsz : s'.size = s.size)
    (hsame : ∀ off ∈ checkedOffsets L order, s'.get (slot * pagesize + off) = s.get (slot * pagesize + off)) :
    slotValid L order s' pagesize slot = some m := by
  have hrec : readMeta L s' (slot * pagesize) = readMeta L s (slot * pagesize) := by
    apply MetaRec.ext_fields
    · intro f
      rw [readMeta_field, readMeta_field]
      apply Src.le_congr
      intro j hj
      rw [show slot * pagesize + L.pgPtr + fieldOff L f + j = slot * pagesize + (L.pgPtr + fieldOff L f + j) by omega]
      apply hsame
      unfold checkedOffsets
      refine List.mem_cons_of_mem _ (List.mem_append_left _ (List.mem_flatMap.2 ⟨f, hall f, ?_⟩))
      simp only [fieldOffsets, List.mem_range'_1]
      omega
    · rw [readMeta_hash, readMeta_hash]
      apply Src.le_congr
      intro j hj
      rw [show slot * pagesize + L.pgPtr + L.mHash + j = slot * pagesize + (L.pgPtr + L.mHash + j) by omega]
      apply hsame
      unfold checkedOffsets
      refine List.mem_cons_of_mem _ (List.mem_append_right _ ?_)
      simp only [checksumOffsets, List.mem_range'_1]
      omega
  rw [← hv, slotValid_eq, slotValid_eq, hsz, hrec, hsame L.pgType (List.mem_cons_self ..)]

end Jamm
