/-
Layer P (I/O) proofs: crash atomicity and durability of a commit whose operations have the safe shape.
-/
import Jamm.Model.Io
import Jamm.Proofs.IoBasic
set_option linter.unusedSectionVars false

namespace Jamm

/-- I1 (power loss): after any prefix of the commit's operations, whatever subset of the not yet
synced writes survives and however they are torn, recovery finds the previous commit complete or the
new commit complete -/
theorem crash_atomic (c : CommitCtx) (hc : c.Ok) (k : Nat) (fates : List Fate) :
    Atomic c ((({ durable := c.img0, pending := [] } : Disk).run ((safeShape c).take k)).crash fates) := by
  rcases run_safe c k with ⟨l, hl, h⟩ | h | h | h <;> rw [h]
  · exact (crash_pw_preLike c l hl fates).atomic hc
  · exact (dataImg_preLike c).atomic hc
  · match fates with
    | [] => exact (dataImg_preLike c).atomic hc
    | .lost :: _ => exact (dataImg_preLike c).atomic hc
    | .full :: _ => exact Or.inr (postImg_atomic hc)
    | .torn :: _ => exact torn_atomic hc
  · exact Or.inr (postImg_atomic hc)

/-- the state after the whole safe shape -/
theorem run_safe_full (c : CommitCtx) :
    ({ durable := c.img0, pending := [] } : Disk).run (safeShape c) = { durable := c.postImg, pending := [] } := by
  unfold safeShape
  rw [run_append, run_pw]
  simp [Disk.run, Disk.exec, CommitCtx.postImg, CommitCtx.dataImg, Img.apply]

/-- I2 (durability): once the last sync has completed, every later crash recovers the new commit -/
theorem durable_after_return (c : CommitCtx) (hc : c.Ok) (fates : List Fate) :
    let i := ((({ durable := c.img0, pending := [] } : Disk).run (safeShape c)).crash fates)
    recover i = some c.hpost ∧ intact i c.sdPost := by
  have h := run_safe_full c
  intro i
  have hi : i = c.postImg := by
    show Disk.crash _ fates = _
    rw [h]; rfl
  rw [hi]
  exact postImg_atomic hc

/-- the order *without* a sync between data and header (the pinned release) -/
def unsyncedShape (c : CommitCtx) : List IoOp :=
  c.dirty.map (fun e => IoOp.writePage e.1 e.2) ++ [.writeHdr (1 - c.slot) c.hpost, .sync]

/-- the states of the unsynced shape -/
theorem run_unsynced (c : CommitCtx) (k : Nat) :
    let d := ({ durable := c.img0, pending := [] } : Disk).run ((unsyncedShape c).take k)
    (∃ l, (∀ e ∈ l, e ∈ c.dirty) ∧ d = { durable := c.img0, pending := pw l }) ∨
    d = { durable := c.img0, pending := pw c.dirty ++ [.writeHdr (1 - c.slot) c.hpost] } ∨
    d = { durable := c.postImg, pending := [] } := by
  intro d
  rcases take_shape c.dirty [.writeHdr (1 - c.slot) c.hpost, .sync] k with ⟨_, h⟩ | ⟨j, _, h⟩
  · left
    refine ⟨c.dirty.take k, fun e he => List.mem_of_mem_take he, ?_⟩
    show Disk.run _ (List.take k (pw c.dirty ++ _)) = _
    rw [h, run_pw]; simp
  · right
    have : d = (({ durable := c.img0, pending := pw c.dirty } : Disk).run
        (List.take (j + 1) [.writeHdr (1 - c.slot) c.hpost, .sync])) := by
      show Disk.run _ (List.take k (pw c.dirty ++ _)) = _
      rw [h, run_append, run_pw]; simp
    rw [this]
    match j with
    | 0 => left; rfl
    | (j + 1) =>
      right
      simp [Disk.run, Disk.exec, List.foldl_append, CommitCtx.postImg, CommitCtx.dataImg, Img.apply]

/-- I3 (process kill): even without the intermediate sync, a kill (the operating system keeps every
write issued so far) is atomic, because the header is issued after all data writes -/
theorem kill_atomic_unsynced (c : CommitCtx) (hc : c.Ok) (k : Nat) :
    Atomic c ((({ durable := c.img0, pending := [] } : Disk).run ((unsyncedShape c).take k)).kill) := by
  rcases run_unsynced c k with ⟨l, hl, h⟩ | h | h <;> rw [h]
  · rw [Disk.kill_eq_crash]
    exact (crash_pw_preLike c l hl _).atomic hc
  · refine Or.inr ?_
    have : Disk.kill { durable := c.img0, pending := pw c.dirty ++ [.writeHdr (1 - c.slot) c.hpost] }
        = c.postImg := by
      simp [Disk.kill, List.foldl_append, CommitCtx.postImg, CommitCtx.dataImg, Img.apply]
    rw [this]
    exact postImg_atomic hc
  · exact Or.inr (postImg_atomic hc)

/-- I4: the same for the safe shape -/
theorem kill_atomic (c : CommitCtx) (hc : c.Ok) (k : Nat) :
    Atomic c ((({ durable := c.img0, pending := [] } : Disk).run ((safeShape c).take k)).kill) := by
  rw [Disk.kill_eq_crash]
  exact crash_atomic c hc k _

end Jamm

namespace Jamm

/-- I5 (the defect of the pinned release, D8): without the intermediate sync a power loss can keep the
new header and lose one of its data pages — recovery then finds neither commit complete -/
theorem unsynced_not_atomic :
    ∃ (c : CommitCtx), c.Ok ∧ ∃ (k : Nat) (fates : List Fate),
      ¬ Atomic c ((({ durable := c.img0, pending := [] } : Disk).run ((unsyncedShape c).take k)).crash fates) := by
  refine ⟨{ img0 := { slot0 := .good ⟨1, 1⟩, slot1 := .good ⟨0, 0⟩, page := fun p => if p = 2 then 11 else 0 },
            slot := 0, hpre := ⟨1, 1⟩, hold := .good ⟨0, 0⟩, sdPre := [(2, 11)], sdPost := [(3, 22)],
            dirty := [(3, 22)], hpost := ⟨2, 2⟩ }, ?_, 2, [.lost, .full], ?_⟩
  · constructor <;> simp [recover, intact]
  · simp [unsyncedShape, Disk.run, Disk.exec, Disk.crash, Img.apply, Img.setSlot, Atomic, recover, intact]

end Jamm
