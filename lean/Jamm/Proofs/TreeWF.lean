/-
Layer Q/T proofs, part 1b: Q2/Q3/Q4 for a *repaired* well-formedness predicate.

`Jamm.WF` (Model/Tree.lean) does not constrain a branch key `k'` against the bounds `lo`/`hi` of the
forest it occurs in, so `WF` admits trees whose contents are not ascending (an empty last child under an
inverted interval; see `Jamm/Proofs/TreeCounterexample.lean`), and Q2/Q3/Q4a/Q4b as stated in
`TreeLemmas.lean` are false.

`Jamm.Fixed.WF` / `Jamm.Fixed.WFF` below are `Jamm.WF` / `Jamm.WFF` with exactly two premises added to
`WFF.cons`:  `inLo lo k'` and `inHi hi k'`  (every non-first branch key lies inside the forest's bounds).
The four theorems `Jamm.Fixed.flatten_sorted`, `lookup_spec`, `put_spec`, `del_spec` have literally the
statements of `TreeLemmas.lean`, read with the repaired predicate.  To port: add the two premises to
`WFF.cons` in Model/Tree.lean, delete the `mutual … end` block below and the `namespace Fixed`.
-/
import Jamm.Proofs.TreeLemmas
set_option linter.unusedSectionVars false
open Std

namespace Jamm

section defs
variable {K E : Type} [Ord K]

/-- joint induction over `WF` / `WFF` derivations -/
theorem wf_induct {P : Option K → Option K → Tree K E → Prop}
    {Q : Option K → Option K → K → Tree K E → Forest K E → Prop}
    (leaf : ∀ lo hi p es, Spec.Sorted es → (∀ e ∈ es, inLo lo e.1 ∧ inHi hi e.1) →
      P lo hi (.leaf p es))
    (branch : ∀ lo hi p k t rest, WFF lo hi k t rest → Q lo hi k t rest →
      P lo hi (.branch p (.cons k t rest)))
    (last : ∀ lo hi k t, WF lo hi t → P lo hi t → Q lo hi k t .nil)
    (cons : ∀ lo hi k t k' t' rest, klt k k' = true → inLo lo k' → inHi hi k' →
      WF lo (some k') t → WFF (some k') hi k' t' rest →
      P lo (some k') t → Q (some k') hi k' t' rest → Q lo hi k t (.cons k' t' rest)) :
    (∀ lo hi t, WF lo hi t → P lo hi t) ∧ (∀ lo hi k t rest, WFF lo hi k t rest → Q lo hi k t rest) :=
  ⟨fun _ _ _ h => WF.rec (motive_1 := fun lo hi t _ => P lo hi t)
      (motive_2 := fun lo hi k t rest _ => Q lo hi k t rest) leaf branch last cons h,
   fun _ _ _ _ _ h => WFF.rec (motive_1 := fun lo hi t _ => P lo hi t)
      (motive_2 := fun lo hi k t rest _ => Q lo hi k t rest) leaf branch last cons h⟩

end defs

variable {K E : Type} [Ord K] [TransOrd K] [LawfulEqOrd K] [DecidableEq K]

theorem flattenF_cons (k : K) (t : Tree K E) (rest : Forest K E) :
    Tree.flattenF (.cons k t rest) = t.flatten ++ Tree.flattenF rest := by
  simp only [Tree.flattenF]

theorem flattenF_nil : Tree.flattenF (Forest.nil : Forest K E) = [] := by
  simp only [Tree.flattenF]

theorem flatten_branch (p : Nat) (kids : Forest K E) :
    (Tree.branch p kids).flatten = Tree.flattenF kids := by
  simp only [Tree.flatten]

/-! ### Q3 -/

theorem flatten_sorted_aux :
    (∀ (lo hi : Option K) (t : Tree K E), WF lo hi t →
      Spec.Sorted t.flatten ∧ ∀ e ∈ t.flatten, inLo lo e.1 ∧ inHi hi e.1) ∧
    (∀ (lo hi : Option K) (k : K) (t : Tree K E) (rest : Forest K E), WFF lo hi k t rest →
      Spec.Sorted (Tree.flattenF (.cons k t rest)) ∧
        ∀ e ∈ Tree.flattenF (.cons k t rest), inLo lo e.1 ∧ inHi hi e.1) := by
  apply wf_induct
  · intro lo hi p es hs hb
    simp only [Tree.flatten]
    exact ⟨hs, hb⟩
  · intro lo hi p k t rest _ ih
    rw [flatten_branch]
    exact ih
  · intro lo hi k t _ ih
    rw [flattenF_cons, flattenF_nil, List.append_nil]
    exact ih
  · intro lo hi k t k' t' rest hk hlo' hhi' _ _ iht ihr
    rw [flattenF_cons k t]
    refine ⟨Spec.sorted_append iht.1 ihr.1 ?_, ?_⟩
    · intro a ha b hb
      have h1 : klt a.1 k' = true := (iht.2 a ha).2
      have h2 : kle k' b.1 = true := (ihr.2 b hb).1
      exact klt_of_klt_of_kle h1 h2
    · intro e he
      rcases List.mem_append.mp he with he | he
      · have h1 : klt e.1 k' = true := (iht.2 e he).2
        exact ⟨(iht.2 e he).1, inHi_of_klt h1 hhi'⟩
      · have h2 : kle k' e.1 = true := (ihr.2 e he).1
        exact ⟨inLo_of_kle hlo' h2, (ihr.2 e he).2⟩

/-- Q3: the contents of a well-formed tree are strictly ascending and inside the tree's bounds -/
theorem flatten_sorted (lo hi : Option K) (t : Tree K E) (h : WF lo hi t) :
    Spec.Sorted t.flatten ∧ ∀ e ∈ t.flatten, inLo lo e.1 ∧ inHi hi e.1 :=
  flatten_sorted_aux.1 lo hi t h

theorem flattenF_sorted (lo hi : Option K) (k : K) (t : Tree K E) (rest : Forest K E)
    (h : WFF lo hi k t rest) :
    Spec.Sorted (Tree.flattenF (.cons k t rest)) ∧
      ∀ e ∈ Tree.flattenF (.cons k t rest), inLo lo e.1 ∧ inHi hi e.1 :=
  flatten_sorted_aux.2 lo hi k t rest h

/-- every key left of the separator `k'` is below a `key ≥ k'` -/
theorem left_below {lo : Option K} {k' key : K} {t : Tree K E} (h : WF lo (some k') t)
    (hk : klt key k' = false) : ∀ e ∈ t.flatten, klt e.1 key = true := by
  intro e he
  have h1 : klt e.1 k' = true := ((flatten_sorted _ _ _ h).2 e he).2
  have h2 : kle k' key = true := by rw [kle_iff_not_lt, hk]; rfl
  exact klt_of_klt_of_kle h1 h2

/-- every key right of the separator `k'` is above a `key < k'` -/
theorem right_above {hi : Option K} {k' key : K} {t' : Tree K E} {rest : Forest K E}
    (h : WFF (some k') hi k' t' rest) (hk : klt key k' = true) :
    ∀ e ∈ Tree.flattenF (.cons k' t' rest), klt key e.1 = true := by
  intro e he
  have h2 : kle k' e.1 = true := ((flattenF_sorted _ _ _ _ _ h).2 e he).1
  exact klt_of_klt_of_kle hk h2

theorem kle_of_not_klt {a b : K} (h : klt a b = false) : kle b a = true := by
  rw [kle_iff_not_lt, h]; rfl

/-! ### Q2 -/

theorem lookup_spec_aux (key : K) :
    (∀ (lo hi : Option K) (t : Tree K E), WF lo hi t → inLo lo key → inHi hi key →
      t.lookup key = (Spec.lookup key t.flatten).map (fun e => (key, e))) ∧
    (∀ (lo hi : Option K) (k : K) (t : Tree K E) (rest : Forest K E), WFF lo hi k t rest →
      inLo lo key → inHi hi key →
      Forest.lookupAt key (.cons k t rest) (indexOf (k :: rest.keys) key).1 =
        (Spec.lookup key (Tree.flattenF (.cons k t rest))).map (fun e => (key, e))) := by
  apply wf_induct
  · intro lo hi p es hs _ _ _
    simp only [Tree.flatten]
    exact lookup_leaf p es hs key
  · intro lo hi p k t rest _ ih hlo hhi
    rw [flatten_branch]
    simp only [Tree.lookup, Forest.keys]
    exact ih hlo hhi
  · intro lo hi k t _ ih hlo hhi
    rw [flattenF_cons, flattenF_nil, List.append_nil]
    simp only [Forest.keys]
    rw [indexOf_single]
    simp only [Forest.lookupAt]
    exact ih hlo hhi
  · intro lo hi k t k' t' rest hk hlo' hhi' hwt hwr iht ihr hlo hhi
    rw [flattenF_cons k t]
    simp only [Forest.keys]
    by_cases hkey : klt key k' = true
    · rw [indexOf_cons_cons_lt k k' _ key hkey]
      simp only [Forest.lookupAt]
      rw [iht hlo hkey, Spec.lookup_append_of_gt (right_above hwr hkey)]
    · have hkey' : klt key k' = false := by simpa using hkey
      rw [indexOf_cons_cons_ge k k' _ key hk hkey']
      simp only [Forest.lookupAt]
      have := ihr (kle_of_not_klt hkey') hhi
      rw [this, Spec.lookup_append_of_lt (left_below hwt hkey')]

/-- Q2: point lookup on a well-formed tree is lookup in its contents -/
theorem lookup_spec (lo hi : Option K) (t : Tree K E) (h : WF lo hi t) (key : K)
    (hlo : inLo lo key) (hhi : inHi hi key) :
    t.lookup key = (Spec.lookup key t.flatten).map (fun e => (key, e)) :=
  (lookup_spec_aux key).1 lo hi t h hlo hhi

/-! ### Q4a -/

theorem put_spec_aux (key : K) (e : E) :
    (∀ (lo hi : Option K) (t : Tree K E), WF lo hi t → inLo lo key → inHi hi key →
      (t.put key e).flatten = Spec.insert key e t.flatten ∧ WF lo hi (t.put key e)) ∧
    (∀ (lo hi : Option K) (k : K) (t : Tree K E) (rest : Forest K E), WFF lo hi k t rest →
      inLo lo key → inHi hi key →
      ∃ t₁ rest₁, Forest.putAt key e (.cons k t rest) (indexOf (k :: rest.keys) key).1 = .cons k t₁ rest₁ ∧
        Tree.flattenF (.cons k t₁ rest₁) = Spec.insert key e (Tree.flattenF (.cons k t rest)) ∧
        WFF lo hi k t₁ rest₁) := by
  apply wf_induct
  · intro lo hi p es hs hb hlo hhi
    simp only [Tree.put, Tree.flatten]
    refine ⟨trivial, WF.leaf _ _ _ _ (Spec.insert_sorted key e es hs) ?_⟩
    intro x hx
    rcases Spec.mem_insert hx with rfl | hx
    · exact ⟨hlo, hhi⟩
    · exact hb x hx
  · intro lo hi p k t rest _ ih hlo hhi
    obtain ⟨t₁, rest₁, heq, hfl, hwf⟩ := ih hlo hhi
    simp only [Tree.put, Forest.keys]
    rw [heq, flatten_branch, flatten_branch]
    exact ⟨hfl, WF.branch _ _ _ _ _ _ hwf⟩
  · intro lo hi k t _ ih hlo hhi
    obtain ⟨hfl, hwf⟩ := ih hlo hhi
    refine ⟨t.put key e, .nil, ?_, ?_, WFF.last _ _ _ _ hwf⟩
    · simp only [Forest.keys]
      rw [indexOf_single]
      simp only [Forest.putAt]
    · rw [flattenF_cons, flattenF_cons, flattenF_nil, List.append_nil, List.append_nil]
      exact hfl
  · intro lo hi k t k' t' rest hk hlo' hhi' hwt hwr iht ihr hlo hhi
    simp only [Forest.keys]
    by_cases hkey : klt key k' = true
    · obtain ⟨hfl, hwf⟩ := iht hlo hkey
      refine ⟨t.put key e, .cons k' t' rest, ?_, ?_, WFF.cons _ _ _ _ _ _ _ hk hlo' hhi' hwf hwr⟩
      · rw [indexOf_cons_cons_lt k k' _ key hkey]
        simp only [Forest.putAt]
      · rw [flattenF_cons k, flattenF_cons k, hfl, Spec.insert_append_of_gt (right_above hwr hkey)]
    · have hkey' : klt key k' = false := by simpa using hkey
      obtain ⟨t₁, rest₁, heq, hfl, hwf⟩ := ihr (kle_of_not_klt hkey') hhi
      refine ⟨t, .cons k' t₁ rest₁, ?_, ?_, WFF.cons _ _ _ _ _ _ _ hk hlo' hhi' hwt hwf⟩
      · rw [indexOf_cons_cons_ge k k' _ key hk hkey']
        simp only [Forest.putAt]
        rw [heq]
      · rw [flattenF_cons k, flattenF_cons k, hfl, Spec.insert_append_of_lt (left_below hwt hkey')]

/-- Q4a: `put` inside a transaction is sorted insertion into the contents, and keeps the tree well-formed -/
theorem put_spec (lo hi : Option K) (t : Tree K E) (h : WF lo hi t) (key : K) (e : E)
    (hlo : inLo lo key) (hhi : inHi hi key) :
    (t.put key e).flatten = Spec.insert key e t.flatten ∧ WF lo hi (t.put key e) :=
  (put_spec_aux key e).1 lo hi t h hlo hhi

/-! ### Q4b -/

theorem del_spec_aux (key : K) :
    (∀ (lo hi : Option K) (t : Tree K E), WF lo hi t → inLo lo key → inHi hi key →
      (t.del key).flatten = Spec.erase key t.flatten ∧ WF lo hi (t.del key)) ∧
    (∀ (lo hi : Option K) (k : K) (t : Tree K E) (rest : Forest K E), WFF lo hi k t rest →
      inLo lo key → inHi hi key →
      ∃ t₁ rest₁, Forest.delAt key (.cons k t rest) (indexOf (k :: rest.keys) key).1 = .cons k t₁ rest₁ ∧
        Tree.flattenF (.cons k t₁ rest₁) = Spec.erase key (Tree.flattenF (.cons k t rest)) ∧
        WFF lo hi k t₁ rest₁) := by
  apply wf_induct
  · intro lo hi p es hs hb hlo hhi
    simp only [Tree.del, Tree.flatten]
    refine ⟨trivial, WF.leaf _ _ _ _ (Spec.erase_sorted key es hs) ?_⟩
    intro x hx
    exact hb x (Spec.mem_erase hx)
  · intro lo hi p k t rest _ ih hlo hhi
    obtain ⟨t₁, rest₁, heq, hfl, hwf⟩ := ih hlo hhi
    simp only [Tree.del, Forest.keys]
    rw [heq, flatten_branch, flatten_branch]
    exact ⟨hfl, WF.branch _ _ _ _ _ _ hwf⟩
  · intro lo hi k t _ ih hlo hhi
    obtain ⟨hfl, hwf⟩ := ih hlo hhi
    refine ⟨t.del key, .nil, ?_, ?_, WFF.last _ _ _ _ hwf⟩
    · simp only [Forest.keys]
      rw [indexOf_single]
      simp only [Forest.delAt]
    · rw [flattenF_cons, flattenF_cons, flattenF_nil, List.append_nil, List.append_nil]
      exact hfl
  · intro lo hi k t k' t' rest hk hlo' hhi' hwt hwr iht ihr hlo hhi
    simp only [Forest.keys]
    by_cases hkey : klt key k' = true
    · obtain ⟨hfl, hwf⟩ := iht hlo hkey
      refine ⟨t.del key, .cons k' t' rest, ?_, ?_, WFF.cons _ _ _ _ _ _ _ hk hlo' hhi' hwf hwr⟩
      · rw [indexOf_cons_cons_lt k k' _ key hkey]
        simp only [Forest.delAt]
      · rw [flattenF_cons k, flattenF_cons k, hfl, Spec.erase_append_of_gt (right_above hwr hkey)]
    · have hkey' : klt key k' = false := by simpa using hkey
      obtain ⟨t₁, rest₁, heq, hfl, hwf⟩ := ihr (kle_of_not_klt hkey') hhi
      refine ⟨t, .cons k' t₁ rest₁, ?_, ?_, WFF.cons _ _ _ _ _ _ _ hk hlo' hhi' hwt hwf⟩
      · rw [indexOf_cons_cons_ge k k' _ key hk hkey']
        simp only [Forest.delAt]
        rw [heq]
      · rw [flattenF_cons k, flattenF_cons k, hfl, Spec.erase_append_of_lt (left_below hwt hkey')]

/-- Q4b: `delete` inside a transaction is erasure from the contents, and keeps the tree well-formed -/
theorem del_spec (lo hi : Option K) (t : Tree K E) (h : WF lo hi t) (key : K)
    (hlo : inLo lo key) (hhi : inHi hi key) :
    (t.del key).flatten = Spec.erase key t.flatten ∧ WF lo hi (t.del key) :=
  (del_spec_aux key).1 lo hi t h hlo hhi

end Jamm
