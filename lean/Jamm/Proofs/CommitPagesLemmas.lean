/-
Layer C → Layer A: the page behaviour of the commit model abides by the release protocol's client
conditions: it frees only pages the overlay occupied, each once; what it keeps are runs of untouched nodes
of the overlay; it requests non-empty runs.
-/
import Jamm.Model.CommitPages
import Jamm.Proofs.CommitCompose
set_option linter.unusedSectionVars false

namespace Jamm

section
variable {E : Type} (L : Layout) (pagesize : Nat) (rsz : Bytes × E → Nat)
variable (p : Params) (hdr leafHdr branchHdr : Nat) (esz : Bytes × E → Nat)

/-! ### the pages of the maximal unmaterialised subtrees: what a commit can keep -/

mutual
/-- the stored pages of the maximal subtrees whose root the transaction never materialised -/
def keptRuns : Tree Bytes E → List Nat
  | .leaf pid es => if nodeMat pid then [] else treeRuns L pagesize rsz (.leaf pid es)
  | .branch pid kids => if nodeMat pid then keptRunsF kids else treeRuns L pagesize rsz (.branch pid kids)
def keptRunsF : Forest Bytes E → List Nat
  | .nil => []
  | .cons _ t rest => keptRuns t ++ keptRunsF rest
end

theorem nodeRun_pid_zero (t : Tree Bytes E) (h : nodePage t.pid = 0) : nodeRun L pagesize rsz t = [] := by
  simp [nodeRun, h]

mutual
/-- Lemma A: kept pages are stored pages -/
theorem keptRuns_sub (t : Tree Bytes E) : ∀ q ∈ keptRuns L pagesize rsz t, q ∈ treeRuns L pagesize rsz t := by
  match t with
  | .leaf pid es =>
    intro q hq
    simp only [keptRuns] at hq
    split at hq
    · simp at hq
    · exact hq
  | .branch pid kids =>
    intro q hq
    simp only [keptRuns] at hq
    split at hq
    · simp only [treeRuns, List.mem_append]
      exact Or.inr (keptRunsF_sub kids q hq)
    · exact hq
theorem keptRunsF_sub (f : Forest Bytes E) : ∀ q ∈ keptRunsF L pagesize rsz f, q ∈ forestRuns L pagesize rsz f := by
  match f with
  | .nil => intro q hq; simp [keptRunsF] at hq
  | .cons k t rest =>
    intro q hq
    simp only [keptRunsF, List.mem_append] at hq
    simp only [forestRuns, List.mem_append]
    rcases hq with hq | hq
    · exact Or.inl (keptRuns_sub t q hq)
    · exact Or.inr (keptRunsF_sub rest q hq)
end

theorem keptRunsF_append : ∀ (a b : Forest Bytes E),
    keptRunsF L pagesize rsz (Forest.append a b) = keptRunsF L pagesize rsz a ++ keptRunsF L pagesize rsz b
  | .nil, b => by simp [Forest.append, keptRunsF]
  | .cons k t rest, b => by simp [Forest.append, keptRunsF, keptRunsF_append rest b]

/-- the kept pages below a branch are kept pages of the branch, materialised or not -/
theorem keptRunsF_sub_branch (pid : Nat) (kids : Forest Bytes E) :
    ∀ q ∈ keptRunsF L pagesize rsz kids, q ∈ keptRuns L pagesize rsz (.branch pid kids) := by
  intro q hq
  simp only [keptRuns]
  split
  · exact hq
  · simp only [treeRuns, List.mem_append]
    exact Or.inr (keptRunsF_sub L pagesize rsz kids q hq)

theorem mergeInto_kept (keep : Nat) (a b : Tree Bytes E) :
    ∀ q ∈ keptRuns L pagesize rsz (Tree.mergeInto keep a b),
      q ∈ keptRuns L pagesize rsz a ∨ q ∈ keptRuns L pagesize rsz b := by
  intro q hq
  cases a with
  | leaf p1 es1 =>
    cases b with
    | leaf p2 es2 =>
      simp [Tree.mergeInto, keptRuns, nodeMat_mkPid_true] at hq
    | branch p2 k2 => exact Or.inl hq
  | branch p1 k1 =>
    cases b with
    | leaf p2 es2 => exact Or.inl hq
    | branch p2 k2 =>
      simp only [Tree.mergeInto, keptRuns, nodeMat_mkPid_true, if_true, keptRunsF_append,
        List.mem_append] at hq
      rcases hq with hq | hq
      · exact Or.inl (keptRunsF_sub_branch L pagesize rsz p1 k1 q hq)
      · exact Or.inr (keptRunsF_sub_branch L pagesize rsz p2 k2 q hq)

theorem mergeChild_kept : ∀ (f : Forest Bytes E) (i : Nat),
    ∀ q ∈ keptRunsF L pagesize rsz (Forest.mergeChild f i), q ∈ keptRunsF L pagesize rsz f
  | .nil, _ => by intro q hq; simpa [mergeChild_nil] using hq
  | .cons k x .nil, 0 => by
    intro q hq
    rw [mergeChild_single_zero] at hq
    split at hq
    · simp [keptRunsF] at hq
    · exact hq
  | .cons k x (.cons k' s rest), 0 => by
    intro q hq
    rw [mergeChild_cons_cons_zero] at hq
    split at hq
    · simp only [keptRunsF, List.mem_append] at hq ⊢
      exact Or.inr hq
    · simp only [keptRunsF, List.mem_append] at hq ⊢
      rcases hq with hq | hq
      · rcases mergeInto_kept L pagesize rsz _ _ _ q hq with h | h
        · exact Or.inl h
        · exact Or.inr (Or.inl h)
      · exact Or.inr (Or.inr hq)
  | .cons kl l (.cons k x rest), 1 => by
    intro q hq
    rw [mergeChild_cons_cons_one] at hq
    split at hq
    · simp only [keptRunsF, List.mem_append] at hq ⊢
      rcases hq with hq | hq
      · exact Or.inl hq
      · exact Or.inr (Or.inr hq)
    · simp only [keptRunsF, List.mem_append] at hq ⊢
      rcases hq with hq | hq
      · rcases mergeInto_kept L pagesize rsz _ _ _ q hq with h | h
        · exact Or.inl h
        · exact Or.inr (Or.inl h)
      · exact Or.inr (Or.inr hq)
  | .cons k x .nil, i + 1 => by
    intro q hq
    rw [mergeChild_single_succ] at hq
    exact hq
  | .cons k x (.cons k' s rest), i + 2 => by
    intro q hq
    rw [mergeChild_cons_cons_succ_succ] at hq
    simp only [keptRunsF, List.mem_append] at hq
    rcases hq with hq | hq
    · simp only [keptRunsF, List.mem_append]; exact Or.inl hq
    · have := mergeChild_kept (.cons k' s rest) (i + 1) q hq
      simp only [keptRunsF, List.mem_append] at this ⊢
      exact Or.inr this

mutual
theorem atBranch_kept (page : Nat) (f : Forest Bytes E → Forest Bytes E)
    (hf : ∀ g, ∀ q ∈ keptRunsF L pagesize rsz (f g), q ∈ keptRunsF L pagesize rsz g) (t : Tree Bytes E) :
    ∀ q ∈ keptRuns L pagesize rsz (Tree.atBranch page f t), q ∈ keptRuns L pagesize rsz t := by
  match t with
  | .leaf pid es => intro q hq; simpa [Tree.atBranch] using hq
  | .branch pid kids =>
    intro q hq
    simp only [Tree.atBranch] at hq
    split at hq
    · exact hq
    · rename_i hm
      have hm' : nodeMat pid = true := by simpa using hm
      split at hq
      · simp only [keptRuns, hm', if_true] at hq ⊢
        exact hf kids q hq
      · simp only [keptRuns, hm', if_true] at hq ⊢
        exact atBranchF_kept page f hf kids q hq
theorem atBranchF_kept (page : Nat) (f : Forest Bytes E → Forest Bytes E)
    (hf : ∀ g, ∀ q ∈ keptRunsF L pagesize rsz (f g), q ∈ keptRunsF L pagesize rsz g) (g : Forest Bytes E) :
    ∀ q ∈ keptRunsF L pagesize rsz (Forest.atBranch page f g), q ∈ keptRunsF L pagesize rsz g := by
  match g with
  | .nil => intro q hq; simpa [Forest.atBranch] using hq
  | .cons k t rest =>
    intro q hq
    simp only [Forest.atBranch, keptRunsF, List.mem_append] at hq ⊢
    rcases hq with hq | hq
    · exact Or.inl (atBranch_kept page f hf t q hq)
    · exact Or.inr (atBranchF_kept page f hf rest q hq)
end

theorem nodeRun_emptyRoot (pid : Nat) :
    nodeRun L pagesize rsz (.leaf pid []) = nodeRun L pagesize rsz (.branch pid .nil) := by
  simp [nodeRun, nodeBytes, Tree.pid, Forest.length, Forest.toList]

/-- Lemma B: a rebalance step never adds a kept page -/
theorem rbStep_kept (t : Tree Bytes E) (s : RbStep) :
    ∀ q ∈ keptRuns L pagesize rsz (t.rbStep s), q ∈ keptRuns L pagesize rsz t := by
  cases s with
  | merge parent i =>
    exact atBranch_kept L pagesize rsz parent _ (fun g => mergeChild_kept L pagesize rsz g i) t
  | collapse =>
    intro q hq
    simp only [Tree.rbStep] at hq
    split at hq
    · rename_i pid k c
      apply keptRunsF_sub_branch L pagesize rsz pid _ q
      simp only [keptRunsF, List.mem_append]
      exact Or.inl hq
    · exact hq
  | emptyRoot =>
    intro q hq
    simp only [Tree.rbStep] at hq
    split at hq
    · rename_i pid
      simp only [keptRuns] at hq ⊢
      split at hq
      · simp at hq
      · rename_i hm
        simp only [hm, treeRuns, forestRuns, List.append_nil] at hq ⊢
        rw [nodeRun_emptyRoot] at hq
        simpa using hq
    · exact hq

theorem rebalance_kept (steps : List RbStep) : ∀ (t : Tree Bytes E),
    ∀ q ∈ keptRuns L pagesize rsz (t.rebalance steps), q ∈ keptRuns L pagesize rsz t := by
  induction steps with
  | nil => intro t q hq; simpa [Tree.rebalance] using hq
  | cons s rest ih =>
    intro t q hq
    simp only [Tree.rebalance, List.foldl_cons] at hq
    exact rbStep_kept L pagesize rsz t s q (ih (t.rbStep s) q hq)

/-! ### touching the search path to a key never adds a kept page -/

mutual
/-- a touched node is materialised: none of its own pages is kept any more, and below it only the pages
that were kept before -/
theorem touch_kept (key : Bytes) (t : Tree Bytes E) :
    ∀ q ∈ keptRuns L pagesize rsz (t.touch key), q ∈ keptRuns L pagesize rsz t := by
  match t with
  | .leaf pid es =>
    intro q hq
    simp [Tree.touch, keptRuns, nodeMat_mkPid_true] at hq
  | .branch pid kids =>
    intro q hq
    simp only [Tree.touch, keptRuns, nodeMat_mkPid_true, if_true] at hq
    exact keptRunsF_sub_branch L pagesize rsz pid kids q (touchAt_kept key kids _ q hq)
theorem touchAt_kept (key : Bytes) (f : Forest Bytes E) (i : Nat) :
    ∀ q ∈ keptRunsF L pagesize rsz (Forest.touchAt key f i), q ∈ keptRunsF L pagesize rsz f := by
  match f, i with
  | .nil, i => intro q hq; simpa [touchAt_nil] using hq
  | .cons k t rest, 0 =>
    intro q hq
    simp only [Forest.touchAt, keptRunsF, List.mem_append] at hq ⊢
    rcases hq with hq | hq
    · exact Or.inl (touch_kept key t q hq)
    · exact Or.inr hq
  | .cons k t rest, i + 1 =>
    intro q hq
    simp only [Forest.touchAt, keptRunsF, List.mem_append] at hq ⊢
    rcases hq with hq | hq
    · exact Or.inl hq
    · exact Or.inr (touchAt_kept key rest i q hq)
end

theorem touchAll_kept (keys : List Bytes) : ∀ (t : Tree Bytes E),
    ∀ q ∈ keptRuns L pagesize rsz (t.touchAll keys), q ∈ keptRuns L pagesize rsz t := by
  induction keys with
  | nil => intro t q hq; exact hq
  | cons k ks ih =>
    intro t q hq
    rw [touchAll_cons] at hq
    exact touch_kept L pagesize rsz k t q (ih (t.touch k) q hq)

/-! ### spill keeps kept pages only -/

theorem mem_forestRuns_ofList (l : List (Bytes × Tree Bytes E)) (q : Nat) :
    q ∈ forestRuns L pagesize rsz (Forest.ofList l) ↔ ∃ e ∈ l, q ∈ treeRuns L pagesize rsz e.2 := by
  induction l with
  | nil => simp [Forest.ofList, forestRuns]
  | cons a rest ih =>
    obtain ⟨k, t⟩ := a
    simp [Forest.ofList, forestRuns, ih]

mutual
/-- Lemma C: every stored page of a piece is a kept page of the node -/
theorem spillT_kept (key : Bytes) (t : Tree Bytes E) :
    ∀ e ∈ spillT p pagesize hdr leafHdr branchHdr esz key t,
      ∀ q ∈ treeRuns L pagesize rsz e.2, q ∈ keptRuns L pagesize rsz t := by
  match t with
  | .leaf pid es =>
    intro e he q hq
    simp only [spillT] at he
    split at he
    · rename_i hm
      have hm' : nodeMat pid = false := by simpa using hm
      simp only [List.mem_singleton] at he
      subst he
      simpa [keptRuns, hm'] using hq
    · simp only [List.mem_map] at he
      obtain ⟨c, _, rfl⟩ := he
      simp [treeRuns, nodeRun, Tree.pid, nodePage] at hq
  | .branch pid kids =>
    intro e he q hq
    simp only [spillT] at he
    split at he
    · rename_i hm
      have hm' : nodeMat pid = false := by simpa using hm
      simp only [List.mem_singleton] at he
      subst he
      simpa [keptRuns, hm'] using hq
    · rename_i hm
      have hm' : nodeMat pid = true := by simpa using hm
      simp only [List.mem_map] at he
      obtain ⟨c, hc, rfl⟩ := he
      simp only [treeRuns, List.mem_append] at hq
      rcases hq with hq | hq
      · simp [nodeRun, Tree.pid, nodePage] at hq
      · obtain ⟨e', he', hq'⟩ := (mem_forestRuns_ofList L pagesize rsz c q).mp hq
        simp only [keptRuns, hm', if_true]
        exact spillF_kept kids e' (mem_of_mem_cutAt hc he') q hq'
theorem spillF_kept (f : Forest Bytes E) :
    ∀ e ∈ spillF p pagesize hdr leafHdr branchHdr esz f,
      ∀ q ∈ treeRuns L pagesize rsz e.2, q ∈ keptRunsF L pagesize rsz f := by
  match f with
  | .nil => intro e he; simp [spillF] at he
  | .cons k t rest =>
    intro e he q hq
    simp only [spillF, List.mem_append] at he
    simp only [keptRunsF, List.mem_append]
    rcases he with he | he
    · exact Or.inl (spillT_kept k t e he q hq)
    · exact Or.inr (spillF_kept rest e he q hq)
end

/-- the stored pages of a new root above pieces are stored pages of the pieces -/
theorem newRoot_runs (many : List (Bytes × Tree Bytes E)) (q : Nat)
    (hq : q ∈ treeRuns L pagesize rsz (.branch 1 (Forest.ofList many))) :
    ∃ e ∈ many, q ∈ treeRuns L pagesize rsz e.2 := by
  simp only [treeRuns, List.mem_append] at hq
  rcases hq with hq | hq
  · simp [nodeRun, Tree.pid, nodePage] at hq
  · exact (mem_forestRuns_ofList L pagesize rsz many q).mp hq

/-- after at least one round, the root spill keeps kept pages only -/
theorem spillRoot_succ_kept (fuel : Nat) : ∀ (t : Tree Bytes E),
    ∀ q ∈ treeRuns L pagesize rsz (spillRoot p pagesize hdr leafHdr branchHdr esz (fuel + 1) t),
      q ∈ keptRuns L pagesize rsz t := by
  induction fuel with
  | zero =>
    intro t q hq
    simp only [spillRoot] at hq
    split at hq
    · rename_i h; exact absurd h (spillT_ne_nil p pagesize hdr leafHdr branchHdr esz [] t)
    · rename_i k r h
      exact spillT_kept L pagesize rsz p hdr leafHdr branchHdr esz [] t (k, r) (by simp [h]) q hq
    · obtain ⟨e, he, hq'⟩ := newRoot_runs L pagesize rsz _ q hq
      exact spillT_kept L pagesize rsz p hdr leafHdr branchHdr esz [] t e he q hq'
  | succ n ih =>
    intro t q hq
    rw [spillRoot] at hq
    split at hq
    · rename_i h; exact absurd h (spillT_ne_nil p pagesize hdr leafHdr branchHdr esz [] t)
    · rename_i k r h
      exact spillT_kept L pagesize rsz p hdr leafHdr branchHdr esz [] t (k, r) (by simp [h]) q hq
    · have h1 := keptRuns_sub L pagesize rsz _ q (ih _ q hq)
      obtain ⟨e, he, hq'⟩ := newRoot_runs L pagesize rsz _ q h1
      exact spillT_kept L pagesize rsz p hdr leafHdr branchHdr esz [] t e he q hq'

/-- G1: every stored page of the committed tree is a stored page of the overlay it was computed from: commit
never invents a page id and never keeps a node it rewrote — for every list of rebalance steps and every list
of touched header keys -/
theorem commitTree_runs_sub (steps : List RbStep) (touched : List Bytes) (pre : Tree Bytes E) :
    ∀ q ∈ treeRuns L pagesize rsz (commitTree p pagesize hdr leafHdr branchHdr esz steps touched pre),
      q ∈ treeRuns L pagesize rsz pre := by
  intro q hq
  simp only [commitTree] at hq
  have hne := spillT_ne_nil p pagesize hdr leafHdr branchHdr esz [] ((pre.rebalance steps).touchAll touched)
  obtain ⟨n, hn⟩ : ∃ n, (spillT p pagesize hdr leafHdr branchHdr esz []
      ((pre.rebalance steps).touchAll touched)).length = n + 1 :=
    ⟨_, (Nat.succ_pred_eq_of_pos (List.length_pos_iff.mpr hne)).symm⟩
  rw [hn] at hq
  exact keptRuns_sub L pagesize rsz pre q
    (rebalance_kept L pagesize rsz steps pre q
      (touchAll_kept L pagesize rsz touched _ q
        (spillRoot_succ_kept L pagesize rsz p hdr leafHdr branchHdr esz n _ q hq)))

/-- G2: the freed pages are pages of the overlay, none twice when the overlay's runs are pairwise disjoint -/
theorem commitFreed_sub (pre post : Tree Bytes E) :
    ∀ q ∈ commitFreed L pagesize rsz pre post, q ∈ treeRuns L pagesize rsz pre := by
  intro q hq
  exact (List.mem_filter.mp hq).1

theorem commitFreed_nodup (pre post : Tree Bytes E) (h : (treeRuns L pagesize rsz pre).Nodup) :
    (commitFreed L pagesize rsz pre post).Nodup :=
  h.sublist List.filter_sublist

/-- G3: the overlay's pages split exactly into the pages kept by the committed tree and the pages freed -/
theorem commit_pages_partition (steps : List RbStep) (touched : List Bytes) (pre : Tree Bytes E) (q : Nat) :
    let post := commitTree p pagesize hdr leafHdr branchHdr esz steps touched pre
    q ∈ treeRuns L pagesize rsz pre ↔
      (q ∈ treeRuns L pagesize rsz post ∨ q ∈ commitFreed L pagesize rsz pre post) := by
  intro post
  constructor
  · intro h
    by_cases hp : q ∈ treeRuns L pagesize rsz post
    · exact Or.inl hp
    · refine Or.inr (List.mem_filter.mpr ⟨h, ?_⟩)
      simpa using hp
  · rintro (h | h)
    · exact commitTree_runs_sub L pagesize rsz p hdr leafHdr branchHdr esz steps touched pre q h
    · exact commitFreed_sub L pagesize rsz pre post q h

theorem runLen_pos (hps : 0 < pagesize) (bytes : Nat) (hb : 0 < bytes) : 0 < runLen pagesize bytes := by
  unfold runLen
  split
  · rename_i h
    exact Nat.div_pos (Nat.le_of_dvd hb (Nat.dvd_of_mod_eq_zero h)) hps
  · exact Nat.succ_pos _

theorem nodeBytes_pos (hL : 0 < L.pageSize) (t : Tree Bytes E) : 0 < nodeBytes L rsz t := by
  cases t <;> simp only [nodeBytes] <;> omega

mutual
theorem treeRequests_pos_aux (hps : 0 < pagesize) (hL : 0 < L.pageSize) (t : Tree Bytes E) :
    ∀ n ∈ treeRequests L pagesize rsz t, 0 < n := by
  match t with
  | .leaf pid es =>
    intro n hn
    simp only [treeRequests] at hn
    split at hn
    · simp only [List.mem_singleton] at hn
      subst hn
      exact runLen_pos pagesize hps _ (nodeBytes_pos L rsz hL _)
    · simp at hn
  | .branch pid kids =>
    intro n hn
    simp only [treeRequests, List.mem_append] at hn
    rcases hn with hn | hn
    · split at hn
      · simp only [List.mem_singleton] at hn
        subst hn
        exact runLen_pos pagesize hps _ (nodeBytes_pos L rsz hL _)
      · simp at hn
    · exact forestRequests_pos_aux hps hL kids n hn
theorem forestRequests_pos_aux (hps : 0 < pagesize) (hL : 0 < L.pageSize) (f : Forest Bytes E) :
    ∀ n ∈ forestRequests L pagesize rsz f, 0 < n := by
  match f with
  | .nil => intro n hn; simp [forestRequests] at hn
  | .cons k t rest =>
    intro n hn
    simp only [forestRequests, List.mem_append] at hn
    rcases hn with hn | hn
    · exact treeRequests_pos_aux hps hL t n hn
    · exact forestRequests_pos_aux hps hL rest n hn
end

/-- G4: every run requested is non-empty -/
theorem treeRequests_pos (hps : 0 < pagesize) (hL : 0 < L.pageSize) (t : Tree Bytes E) :
    ∀ n ∈ treeRequests L pagesize rsz t, 0 < n :=
  treeRequests_pos_aux L pagesize rsz hps hL t

end
end Jamm
