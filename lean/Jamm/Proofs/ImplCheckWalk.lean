/-
The walk of `implCheckLoop`, abstractly: `Owns pg fl stack owned` says that the walk started with `stack`
visits (and removes from the set of unseen pages) exactly the pages `owned`, each once, and meets no
error on the way provided they are all still unseen.
-/
import Jamm.Model.ImplCheck
set_option linter.unusedSectionVars false
open Std

namespace Jamm

/-- removing a duplicate-free list of ids that are all still in the set succeeds and removes exactly those -/
theorem removeEach_ok : ∀ (ps unused : List Nat), ps.Nodup → (∀ p ∈ ps, p ∈ unused) → unused.Nodup →
    ∃ res, removeEach ps unused = some res ∧ res.Nodup ∧ ∀ q, q ∈ res ↔ q ∈ unused ∧ q ∉ ps := by
  intro ps
  induction ps with
  | nil =>
    intro unused _ _ hu
    exact ⟨unused, rfl, hu, by simp⟩
  | cons p rest ih =>
    intro unused hnd hsub hu
    have hp : p ∈ unused := hsub p (List.mem_cons_self ..)
    have hnd' := List.nodup_cons.mp hnd
    have hc : unused.contains p = true := List.contains_iff_mem.mpr hp
    have hsub' : ∀ q ∈ rest, q ∈ unused.erase p := by
      intro q hq
      rw [List.Nodup.mem_erase_iff hu]
      refine ⟨?_, hsub q (List.mem_cons_of_mem _ hq)⟩
      intro h
      subst h
      exact hnd'.1 hq
    obtain ⟨res, h1, h2, h3⟩ := ih (unused.erase p) hnd'.2 hsub' (hu.erase p)
    refine ⟨res, ?_, h2, ?_⟩
    · simp only [removeEach, hc, if_true]
      exact h1
    · intro q
      rw [h3 q, List.Nodup.mem_erase_iff hu, List.mem_cons]
      constructor
      · rintro ⟨⟨a, b⟩, c⟩
        exact ⟨b, fun h => h.elim a c⟩
      · rintro ⟨a, b⟩
        exact ⟨⟨fun h => b (Or.inl h), a⟩, fun h => b (Or.inr h)⟩

/-- a page with its overflow pages, in the order the walk removes them -/
def pageRun (pid ov : Nat) : List Nat := pid :: (List.range ov).map (· + pid + 1)

theorem pageRun_length (pid ov : Nat) : (pageRun pid ov).length = ov + 1 := by
  simp [pageRun]

/-- `Owns pg fl stack owned`: the walk started with `stack` visits exactly the pages `owned` (up to order) -/
inductive Owns (pg : PageStore) (fl : Nat) : List Nat → List Nat → Prop where
  | nil : Owns pg fl [] []
  | branch (pid : Nat) (p : LPage) (es : List (Bytes × Nat)) (stack o : List Nat) :
      pg pid = some p → p.body = .branch es → strictlyAscending (es.map (·.1)) = true →
      Owns pg fl ((es.map (·.2)).reverse ++ stack) o → Owns pg fl (pid :: stack) (pageRun pid p.overflow ++ o)
  | leaf (pid : Nat) (p : LPage) (es : List (Bytes × LeafVal)) (stack o : List Nat) :
      pg pid = some p → p.body = .leaf es → strictlyAscending (es.map (·.1)) = true →
      Owns pg fl (((subBuckets es).map (·.2.1)).reverse ++ stack) o →
      Owns pg fl (pid :: stack) (pageRun pid p.overflow ++ o)
  | freelist (p : LPage) (ids : List Nat) (stack o : List Nat) :
      pg fl = some p → p.body = .freelist ids → Owns pg fl stack o →
      Owns pg fl (fl :: stack) (pageRun fl p.overflow ++ (ids ++ o))
  | perm (stack o o' : List Nat) : Owns pg fl stack o → o.Perm o' → Owns pg fl stack o'

theorem Owns.append {pg : PageStore} {fl : Nat} {a oa : List Nat} (ha : Owns pg fl a oa) :
    ∀ {b ob : List Nat}, Owns pg fl b ob → Owns pg fl (a ++ b) (oa ++ ob) := by
  induction ha with
  | nil => intro b ob hb; exact hb
  | branch pid p es stack o h1 h2 h3 _ ih =>
    intro b ob hb
    have := ih hb
    rw [List.append_assoc] at this
    rw [List.cons_append, List.append_assoc]
    exact Owns.branch pid p es _ _ h1 h2 h3 this
  | leaf pid p es stack o h1 h2 h3 _ ih =>
    intro b ob hb
    have := ih hb
    rw [List.append_assoc] at this
    rw [List.cons_append, List.append_assoc]
    exact Owns.leaf pid p es _ _ h1 h2 h3 this
  | freelist p ids stack o h1 h2 _ ih =>
    intro b ob hb
    have := ih hb
    rw [List.cons_append, List.append_assoc, List.append_assoc]
    exact Owns.freelist p ids _ _ h1 h2 this
  | perm stack o o' _ hp ih =>
    intro b ob hb
    exact Owns.perm _ _ _ (ih hb) (hp.append_right ob)

/-- popping a page: it and its overflow pages are removed -/
theorem popRun_ok (pid ov : Nat) (o unused : List Nat) (hnd : (pageRun pid ov ++ o).Nodup)
    (hsub : ∀ q ∈ pageRun pid ov ++ o, q ∈ unused) (hu : unused.Nodup) :
    unused.contains pid = true ∧
    ∃ u', removeEach ((List.range ov).map (· + pid + 1)) (unused.erase pid) = some u' ∧ u'.Nodup ∧
      (∀ q, q ∈ u' ↔ q ∈ unused ∧ q ∉ pageRun pid ov) ∧ o.Nodup ∧ ∀ q ∈ o, q ∈ u' := by
  obtain ⟨hr, ho, hdis⟩ := List.nodup_append.mp hnd
  have hr' := List.nodup_cons.mp hr
  have hpid : pid ∈ unused := hsub pid (List.mem_append_left _ (List.mem_cons_self ..))
  refine ⟨List.contains_iff_mem.mpr hpid, ?_⟩
  have hsub' : ∀ q ∈ (List.range ov).map (· + pid + 1), q ∈ unused.erase pid := by
    intro q hq
    rw [List.Nodup.mem_erase_iff hu]
    refine ⟨?_, hsub q (List.mem_append_left _ (List.mem_cons_of_mem _ hq))⟩
    intro h
    subst h
    exact hr'.1 hq
  obtain ⟨u', h1, h2, h3⟩ := removeEach_ok _ _ hr'.2 hsub' (hu.erase pid)
  have hmem : ∀ q, q ∈ u' ↔ q ∈ unused ∧ q ∉ pageRun pid ov := by
    intro q
    rw [h3 q, List.Nodup.mem_erase_iff hu, pageRun, List.mem_cons]
    constructor
    · rintro ⟨⟨a, b⟩, c⟩
      exact ⟨b, fun h => h.elim a c⟩
    · rintro ⟨a, b⟩
      exact ⟨⟨fun h => b (Or.inl h), a⟩, fun h => b (Or.inr h)⟩
  refine ⟨u', h1, h2, hmem, ho, ?_⟩
  intro q hq
  rw [hmem q]
  exact ⟨hsub q (List.mem_append_right _ hq), fun h => hdis q h q hq rfl⟩

/-- the walk over a stack that owns `o`: no error, and exactly `o` is removed -/
theorem implCheckLoop_owns {pg : PageStore} {fl : Nat} {stack o : List Nat} (h : Owns pg fl stack o) :
    ∀ (fuel : Nat) (unused : List Nat), o.length < fuel → o.Nodup → (∀ q ∈ o, q ∈ unused) → unused.Nodup →
      ∃ res, implCheckLoop pg fl fuel stack unused = .ok res ∧ res.Nodup ∧
        ∀ q, q ∈ res ↔ q ∈ unused ∧ q ∉ o := by
  induction h with
  | nil =>
    intro fuel unused hf _ _ hu
    cases fuel with
    | zero => omega
    | succ f => exact ⟨unused, rfl, hu, by simp⟩
  | branch pid p es stack o h1 h2 h3 _ ih =>
    intro fuel unused hf hnd hsub hu
    cases fuel with
    | zero => omega
    | succ f =>
      obtain ⟨hc, u', hr, hu', hm, ho, hsub'⟩ := popRun_ok pid p.overflow o unused hnd hsub hu
      have hlen : o.length < f := by
        rw [List.length_append, pageRun_length] at hf
        omega
      obtain ⟨res, r1, r2, r3⟩ := ih f u' hlen ho hsub' hu'
      refine ⟨res, ?_, r2, ?_⟩
      · simp only [implCheckLoop, hc, h1, hr, h2, h3, Bool.not_true]
        exact r1
      · intro q
        rw [r3 q, hm q, List.mem_append]
        constructor
        · rintro ⟨⟨a, b⟩, c⟩
          exact ⟨a, fun h => h.elim b c⟩
        · rintro ⟨a, b⟩
          exact ⟨⟨a, fun h => b (Or.inl h)⟩, fun h => b (Or.inr h)⟩
  | leaf pid p es stack o h1 h2 h3 _ ih =>
    intro fuel unused hf hnd hsub hu
    cases fuel with
    | zero => omega
    | succ f =>
      obtain ⟨hc, u', hr, hu', hm, ho, hsub'⟩ := popRun_ok pid p.overflow o unused hnd hsub hu
      have hlen : o.length < f := by
        rw [List.length_append, pageRun_length] at hf
        omega
      obtain ⟨res, r1, r2, r3⟩ := ih f u' hlen ho hsub' hu'
      refine ⟨res, ?_, r2, ?_⟩
      · simp only [implCheckLoop, hc, h1, hr, h2, h3, Bool.not_true]
        exact r1
      · intro q
        rw [r3 q, hm q, List.mem_append]
        constructor
        · rintro ⟨⟨a, b⟩, c⟩
          exact ⟨a, fun h => h.elim b c⟩
        · rintro ⟨a, b⟩
          exact ⟨⟨a, fun h => b (Or.inl h)⟩, fun h => b (Or.inr h)⟩
  | freelist p ids stack o h1 h2 _ ih =>
    intro fuel unused hf hnd hsub hu
    cases fuel with
    | zero => omega
    | succ f =>
      obtain ⟨hc, u', hr, hu', hm, ho, hsub'⟩ := popRun_ok fl p.overflow (ids ++ o) unused hnd hsub hu
      obtain ⟨hids, ho', hdis⟩ := List.nodup_append.mp ho
      obtain ⟨u'', hr2, hu'', hm2⟩ :=
        removeEach_ok ids u' hids (fun q hq => hsub' q (List.mem_append_left _ hq)) hu'
      have hlen : o.length < f := by
        rw [List.length_append, List.length_append, pageRun_length] at hf
        omega
      have hsub'' : ∀ q ∈ o, q ∈ u'' := by
        intro q hq
        rw [hm2 q]
        exact ⟨hsub' q (List.mem_append_right _ hq), fun h => hdis q h q hq rfl⟩
      obtain ⟨res, r1, r2, r3⟩ := ih f u'' hlen ho' hsub'' hu''
      refine ⟨res, ?_, r2, ?_⟩
      · simp only [implCheckLoop, hc, h1, hr, h2, hr2, Bool.not_true, bne_self_eq_false]
        exact r1
      · intro q
        rw [r3 q, hm2 q, hm q, List.mem_append, List.mem_append]
        constructor
        · rintro ⟨⟨⟨a, b⟩, c⟩, d⟩
          exact ⟨a, fun h => h.elim b (fun h => h.elim c d)⟩
        · rintro ⟨a, b⟩
          exact ⟨⟨⟨a, fun h => b (Or.inl h)⟩, fun h => b (Or.inr (Or.inl h))⟩,
            fun h => b (Or.inr (Or.inr h))⟩
  | perm stack o o' _ hp ih =>
    intro fuel unused hf hnd hsub hu
    obtain ⟨res, r1, r2, r3⟩ := ih fuel unused (by rw [hp.length_eq]; exact hf) (hp.nodup_iff.mpr hnd)
      (fun q hq => hsub q (hp.mem_iff.mp hq)) hu
    refine ⟨res, r1, r2, ?_⟩
    intro q
    rw [r3 q, hp.mem_iff]

end Jamm
