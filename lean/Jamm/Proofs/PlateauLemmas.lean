/-
Layer A: the plateau bound of first-fit allocation (C10).  If no run of `k` consecutive free pages
exists among the pages `2 .. N-1`, the free pages are cut into at most `n+1` maximal runs by the `n`
non-free pages, each shorter than `k`; hence the file is extended only while it is still small
relative to the non-free (live + pending) pages.
-/
import Jamm.Proofs.FreelistLemmas
set_option linter.unusedSectionVars false
set_option linter.unusedVariables false

namespace Jamm

/-- a strictly ascending list inside `[a, N)` has at most `N - a` elements -/
theorem pairwise_lt_length_le (N : Nat) (l : List Nat) :
    ∀ a : Nat, l.Pairwise (· < ·) → (∀ x ∈ l, a ≤ x ∧ x < N) → l.length + a ≤ N ∨ (l = [] ∧ N < a) := by
  induction l with
  | nil =>
    intro a _ _
    by_cases h : a ≤ N
    · left; simpa using h
    · right; exact ⟨rfl, by omega⟩
  | cons h t ih =>
    intro a hp hr
    rw [List.pairwise_cons] at hp
    have hh := hr h (List.mem_cons_self ..)
    left
    rcases ih (h + 1) hp.2 (fun x hx => ⟨hp.1 x hx, (hr x (List.mem_cons_of_mem _ hx)).2⟩) with h1 | ⟨h1, h2⟩
    · simp only [List.length_cons]; omega
    · subst h1; simp only [List.length_cons, List.length_nil]; omega

/-- the generalised pigeonhole: `r` is the length of the run of `P`-pages ending just before `a` -/
theorem run_bound_aux (k N : Nat) (P : Nat → Prop) (hP : ∀ s, ¬ ∀ i, i < k → P (s + i)) (l : List Nat) :
    ∀ a r : Nat, l.Pairwise (· < ·) → (∀ x ∈ l, a ≤ x ∧ x < N ∧ P x) → r ≤ a →
      (∀ j, j < r → P (a - 1 - j)) →
      l.length + r ≤ (k - 1) * ((N - a - l.length) + 1) := by
  induction l with
  | nil =>
    intro a r _ _ hra hrun
    have hrk : r ≤ k - 1 := by
      apply Classical.byContradiction
      intro hc
      apply hP (a - r)
      intro i hi
      have := hrun (r - 1 - i) (by omega)
      have e : a - 1 - (r - 1 - i) = a - r + i := by omega
      rw [e] at this
      exact this
    simp only [List.length_nil, Nat.zero_add]
    calc r ≤ k - 1 := hrk
      _ = (k - 1) * 1 := (Nat.mul_one _).symm
      _ ≤ (k - 1) * ((N - a - 0) + 1) := Nat.mul_le_mul_left _ (by omega)
  | cons h t ih =>
    intro a r hp hr hra hrun
    have hrk : r ≤ k - 1 := by
      apply Classical.byContradiction
      intro hc
      apply hP (a - r)
      intro i hi
      have := hrun (r - 1 - i) (by omega)
      have e : a - 1 - (r - 1 - i) = a - r + i := by omega
      rw [e] at this
      exact this
    rw [List.pairwise_cons] at hp
    obtain ⟨hah, hhN, hPh⟩ := hr h (List.mem_cons_self ..)
    have hrt : ∀ x ∈ t, h + 1 ≤ x ∧ x < N ∧ P x := fun x hx =>
      ⟨hp.1 x hx, (hr x (List.mem_cons_of_mem _ hx)).2⟩
    have hlen : t.length + (h + 1) ≤ N := by
      rcases pairwise_lt_length_le N t (h + 1) hp.2 (fun x hx => ⟨(hrt x hx).1, (hrt x hx).2.1⟩) with h1 | ⟨h1, h2⟩
      · exact h1
      · omega
    simp only [List.length_cons]
    by_cases hEq : h = a
    · subst hEq
      have hI := ih (h + 1) (r + 1) hp.2 hrt (by omega) (by
        intro j hj
        by_cases hj0 : j = 0
        · subst hj0; simpa using hPh
        · have := hrun (j - 1) (by omega)
          have e : h + 1 - 1 - j = h - 1 - (j - 1) := by omega
          rw [e]; exact this)
      have e : N - h - (t.length + 1) = N - (h + 1) - t.length := by omega
      rw [e]
      omega
    · have hI := ih (h + 1) 1 hp.2 hrt (by omega) (by
        intro j hj
        have : j = 0 := by omega
        subst this; simpa using hPh)
      have hm : (N - (h + 1) - t.length + 1) + 1 ≤ N - a - (t.length + 1) + 1 := by omega
      have := Nat.mul_le_mul_left (k - 1) hm
      rw [Nat.mul_add, Nat.mul_one] at this
      generalize (k - 1) * (N - (h + 1) - t.length + 1) = X at *
      generalize (k - 1) * (N - a - (t.length + 1) + 1) = Y at *
      omega

/-- pigeonhole over maximal free runs -/
theorem no_run_bound (k N : Nat) (free : List Nat) (hk : 0 < k) (ha : ascending free = true)
    (hr : ∀ p ∈ free, 2 ≤ p ∧ p < N) (hN : 2 ≤ N) (h : hasRun k free = false) :
    free.length ≤ (k - 1) * ((N - 2 - free.length) + 1) := by
  have hP : ∀ s, ¬ ∀ i, i < k → (s + i) ∈ free := by
    intro s hall
    have hs : s ∈ free := by simpa using hall 0 hk
    unfold hasRun at h
    rw [List.any_eq_false] at h
    apply h s hs
    rw [List.all_eq_true]
    intro i hi
    simp only [List.contains_iff_mem]
    exact hall i (List.mem_range.1 hi)
  have := run_bound_aux k N (· ∈ free) hP free 2 0 ((ascending_iff free).1 ha)
    (fun x hx => ⟨(hr x hx).1, (hr x hx).2, hx⟩) (by omega) (fun j hj => by omega)
  simpa using this

/-- the file grows only when it is small: if `TxFL.allocate k` extends the file then
`numPages ≤ (k-1)·(n+1) + n + 2` where `n` is the number of non-free pages below the mark -/
theorem extend_implies_small (t : TxFL) (k : Nat) (hk : 0 < k) (ha : ascending t.fl.free = true)
    (hr : ∀ p ∈ t.fl.free, 2 ≤ p ∧ p < t.numPages) (hN : 2 ≤ t.numPages)
    (h : (t.allocate k).2.numPages ≠ t.numPages) :
    t.numPages ≤ (k - 1) * ((t.numPages - 2 - t.fl.free.length) + 1) + (t.numPages - 2 - t.fl.free.length) + 2 := by
  have hno := (extend_only_when_no_run t k hk ha (fun p hp => (hr p hp).1) h).1
  have hb := no_run_bound k t.numPages t.fl.free hk ha hr hN hno
  have hlen : t.fl.free.length + 2 ≤ t.numPages := by
    rcases pairwise_lt_length_le t.numPages t.fl.free 2 ((ascending_iff _).1 ha) hr with h1 | ⟨_, h2⟩
    · exact h1
    · omega
  generalize (k - 1) * ((t.numPages - 2 - t.fl.free.length) + 1) = X at *
  omega

end Jamm
