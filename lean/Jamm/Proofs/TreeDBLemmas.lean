/-
The tree-based database refines the specification: every public operation returns what the specification
returns and commutes with `abs`, all trees stay well-formed, and a commit that preserves each bucket's
contents is invisible through `abs`.
-/
import Jamm.Model.TreeDB
import Jamm.Proofs.TxLemmas
import Jamm.Proofs.TreeDBBasic
set_option linter.unusedSectionVars false
open Std

namespace Jamm.TDB
open Jamm.Spec (Err Item Path)
variable {K V : Type} [Ord K] [TransOrd K] [LawfulEqOrd K] [DecidableEq K]

/-- R1: `put` -/
theorem put_refines (db : DB K V) (h : AllWF db) (p : Path K) (k : K) (v : V) :
    (put db p k v).1 = (Spec.put (abs db) p k v).1 ∧
    abs (put db p k v).2 = (Spec.put (abs db) p k v).2 ∧ AllWF (put db p k v).2 := by
  unfold put Spec.put
  rw [getBucket_abs]
  cases hb : getBucket db p with
  | none => exact ⟨rfl, rfl, h⟩
  | some b =>
    have hwb := getBucket_wf h hb
    have hp := put_spec none none b.tree hwb k (Item.val v) trivial trivial
    simp only [Option.map_some, absB]
    rw [find_eq b.tree hwb]
    cases hl : Spec.lookup k b.tree.flatten with
    | none =>
      refine ⟨rfl, ?_, setBucket_wf h _ _ hp.2⟩
      simp only [abs_setBucket, absB, hp.1]
    | some i =>
      cases i with
      | bkt => exact ⟨rfl, rfl, h⟩
      | val old =>
        refine ⟨rfl, ?_, setBucket_wf h _ _ hp.2⟩
        simp only [abs_setBucket, absB, hp.1]

/-- R2: `get` -/
theorem get_refines (db : DB K V) (h : AllWF db) (p : Path K) (k : K) :
    get db p k = Spec.get (abs db) p k := by
  unfold get Spec.get
  rw [getBucket_abs]
  cases hb : getBucket db p with
  | none => rfl
  | some b =>
    simp only [Option.map_some, absB]
    rw [find_eq b.tree (getBucket_wf h hb)]

/-- R3: `delete` -/
theorem delete_refines (db : DB K V) (h : AllWF db) (p : Path K) (k : K) :
    (delete db p k).1 = (Spec.delete (abs db) p k).1 ∧
    abs (delete db p k).2 = (Spec.delete (abs db) p k).2 ∧ AllWF (delete db p k).2 := by
  unfold delete Spec.delete
  rw [getBucket_abs]
  cases hb : getBucket db p with
  | none => exact ⟨rfl, rfl, h⟩
  | some b =>
    have hwb := getBucket_wf h hb
    have hp := del_spec none none b.tree hwb k trivial trivial
    simp only [Option.map_some, absB]
    rw [find_eq b.tree hwb]
    cases hl : Spec.lookup k b.tree.flatten with
    | none => exact ⟨rfl, rfl, h⟩
    | some i =>
      cases i with
      | bkt => exact ⟨rfl, rfl, h⟩
      | val old =>
        refine ⟨rfl, ?_, setBucket_wf h _ _ hp.2⟩
        simp only [abs_setBucket, absB, hp.1]

/-- R4: `get_bucket` / `create_bucket` / `get_or_create_bucket` -/
theorem bucketGetter_refines (db : DB K V) (h : AllWF db) (p : Path K) (name : K) (s m : Bool) :
    (bucketGetter db p name s m).1 = (Spec.bucketGetter (abs db) p name s m).1 ∧
    abs (bucketGetter db p name s m).2 = (Spec.bucketGetter (abs db) p name s m).2 ∧
    AllWF (bucketGetter db p name s m).2 := by
  unfold bucketGetter Spec.bucketGetter
  rw [getBucket_abs]
  cases hb : getBucket db p with
  | none => exact ⟨rfl, rfl, h⟩
  | some b =>
    have hwb := getBucket_wf h hb
    have hp := put_spec none none b.tree hwb name (Item.bkt : Item V) trivial trivial
    simp only [Option.map_some, absB]
    rw [find_eq b.tree hwb]
    cases hl : Spec.lookup name b.tree.flatten with
    | none =>
      cases s with
      | false => exact ⟨rfl, rfl, h⟩
      | true =>
        refine ⟨rfl, ?_, setBucket_wf (setBucket_wf h _ _ hp.2) _ _ newTree_wf⟩
        simp only [if_true, abs_setBucket, absB, hp.1, newTree_flatten]
    | some i =>
      cases i with
      | bkt => cases m <;> exact ⟨rfl, rfl, h⟩
      | val old => exact ⟨rfl, rfl, h⟩

/-- R5: `delete_bucket` -/
theorem deleteBucket_refines (db : DB K V) (h : AllWF db) (p : Path K) (name : K) :
    (deleteBucket db p name).1 = (Spec.deleteBucket (abs db) p name).1 ∧
    abs (deleteBucket db p name).2 = (Spec.deleteBucket (abs db) p name).2 ∧
    AllWF (deleteBucket db p name).2 := by
  unfold deleteBucket Spec.deleteBucket
  rw [getBucket_abs]
  cases hb : getBucket db p with
  | none => exact ⟨rfl, rfl, h⟩
  | some b =>
    have hwb := getBucket_wf h hb
    have hp := del_spec none none b.tree hwb name trivial trivial
    simp only [Option.map_some, absB]
    rw [find_eq b.tree hwb]
    cases hl : Spec.lookup name b.tree.flatten with
    | none => exact ⟨rfl, rfl, h⟩
    | some i =>
      cases i with
      | val old => exact ⟨rfl, rfl, h⟩
      | bkt =>
        refine ⟨rfl, ?_, setBucket_wf (removeTree_wf h _) _ _ hp.2⟩
        simp only [abs_setBucket, abs_removeTree, absB, hp.1]

/-- R6: counters and full scans -/
theorem nextInt_refines (db : DB K V) (p : Path K) : nextInt db p = Spec.nextInt (abs db) p := by
  unfold nextInt Spec.nextInt
  rw [getBucket_abs]
  cases getBucket db p <;> rfl

theorem scan_refines (db : DB K V) (p : Path K) : scan db p = Spec.scan (abs db) p := by
  unfold scan Spec.scan
  rw [getBucket_abs]
  cases getBucket db p <;> rfl

/-- R7: any sequence of write operations, at any nesting depth -/
theorem applyOps_refine (db : DB K V) (h : AllWF db) (ops : List (Op K V)) :
    abs (ops.foldl applyOp db) = ops.foldl Spec.applyTOp (abs db) ∧ AllWF (ops.foldl applyOp db) := by
  induction ops generalizing db with
  | nil => exact ⟨rfl, h⟩
  | cons op rest ih =>
    have h1 : abs (applyOp db op) = Spec.applyTOp (abs db) op ∧ AllWF (applyOp db op) := by
      cases op with
      | put p k v => exact (put_refines db h p k v).2
      | delete p k => exact (delete_refines db h p k).2
      | getter p n s m => exact (bucketGetter_refines db h p n s m).2
      | deleteBucket p n => exact (deleteBucket_refines db h p n).2
    simp only [List.foldl_cons]
    rw [← h1.1]
    exact ih (applyOp db op) h1.2

/-- R8: a commit that keeps every bucket's contents (and well-formedness) is invisible in the specification -/
theorem commitWith_refines (f : Path K → Tree K (Item V) → Tree K (Item V)) (db : DB K V)
    (hf : ∀ e ∈ db, (f e.1 e.2.tree).flatten = e.2.tree.flatten) :
    abs (commitWith f db) = abs db := by
  unfold commitWith abs
  rw [List.map_map]
  apply List.map_congr_left
  intro e he
  simp only [Function.comp, hf e he]

theorem commitWith_wf (f : Path K → Tree K (Item V) → Tree K (Item V)) (db : DB K V)
    (hf : ∀ e ∈ db, WF none none (f e.1 e.2.tree)) : AllWF (commitWith f db) := by
  intro e he
  unfold commitWith at he
  rw [List.mem_map] at he
  obtain ⟨e', he', rfl⟩ := he
  exact hf e' he'

/-- the empty database -/
theorem abs_empty : abs ([([], { nextInt := 0, tree := newTree })] : DB K V) = Spec.empty := by
  rfl

end Jamm.TDB
