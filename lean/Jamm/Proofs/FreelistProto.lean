/-
Layer A helper lemmas: `release`, `freePage`, the allocation loop, and the Prop form of `Sys.invB`.
-/
import Jamm.Proofs.FreelistBasic
set_option linter.unusedSectionVars false
set_option linter.unusedVariables false

namespace Jamm

abbrev Pend := List (Nat × List Nat)

/-! ### `takeWhile` / `dropWhile` on a key-ascending pending map -/

theorem mem_takeWhile_keys (bound : Nat) (l : Pend) (h : (l.map (·.1)).Pairwise (· < ·))
    (e : Nat × List Nat) :
    e ∈ l.takeWhile (fun e => e.1 < bound) ↔ e ∈ l ∧ e.1 < bound := by
  induction l with
  | nil => simp
  | cons a rest ih =>
    rw [List.map_cons, List.pairwise_cons] at h
    by_cases ha : a.1 < bound
    · rw [List.takeWhile_cons_of_pos (by simpa using ha), List.mem_cons, ih h.2, List.mem_cons]
      constructor
      · rintro (h | h)
        · subst h; exact ⟨Or.inl rfl, ha⟩
        · exact ⟨Or.inr h.1, h.2⟩
      · rintro ⟨h | h, h'⟩
        · exact Or.inl h
        · exact Or.inr ⟨h, h'⟩
    · rw [List.takeWhile_cons_of_neg (by simpa using ha)]
      simp only [List.not_mem_nil, false_iff, List.mem_cons, not_and]
      rintro (h' | h')
      · subst h'; exact ha
      · have := h.1 e.1 (List.mem_map.2 ⟨e, h', rfl⟩)
        omega

theorem mem_dropWhile_keys (bound : Nat) (l : Pend) (h : (l.map (·.1)).Pairwise (· < ·))
    (e : Nat × List Nat) :
    e ∈ l.dropWhile (fun e => e.1 < bound) ↔ e ∈ l ∧ bound ≤ e.1 := by
  induction l with
  | nil => simp
  | cons a rest ih =>
    rw [List.map_cons, List.pairwise_cons] at h
    by_cases ha : a.1 < bound
    · rw [List.dropWhile_cons_of_pos (by simpa using ha), ih h.2, List.mem_cons]
      constructor
      · rintro ⟨h1, h2⟩; exact ⟨Or.inr h1, h2⟩
      · rintro ⟨h1 | h1, h2⟩
        · subst h1; omega
        · exact ⟨h1, h2⟩
    · rw [List.dropWhile_cons_of_neg (by simpa using ha)]
      constructor
      · intro h'
        refine ⟨h', ?_⟩
        rcases List.mem_cons.1 h' with h' | h'
        · subst h'; omega
        · have := h.1 e.1 (List.mem_map.2 ⟨e, h', rfl⟩)
          omega
      · exact fun h' => h'.1

theorem mem_pendingPages (f : FL) (q : Nat) : q ∈ f.pendingPages ↔ ∃ e ∈ f.pending, q ∈ e.2 := by
  simp [FL.pendingPages, List.mem_flatMap]

theorem mem_pendingAbove (f : FL) (t q : Nat) :
    q ∈ f.pendingAbove t ↔ ∃ e ∈ f.pending, t < e.1 ∧ q ∈ e.2 := by
  simp [FL.pendingAbove, List.mem_flatMap, and_assoc]

/-! ### `release` -/

theorem release_free_mem (f : FL) (bound : Nat) (ha : (f.pending.map (·.1)).Pairwise (· < ·)) (p : Nat) :
    p ∈ (f.release bound).free ↔ (p ∈ f.free ∨ ∃ e ∈ f.pending, e.1 < bound ∧ p ∈ e.2) := by
  unfold FL.release
  simp only [mem_foldl_insertSorted, List.mem_flatMap, mem_takeWhile_keys bound f.pending ha, and_assoc]

theorem release_pending_mem (f : FL) (bound : Nat) (ha : (f.pending.map (·.1)).Pairwise (· < ·))
    (e : Nat × List Nat) :
    e ∈ (f.release bound).pending ↔ (e ∈ f.pending ∧ bound ≤ e.1) := by
  unfold FL.release
  simp only [mem_dropWhile_keys bound f.pending ha]

theorem release_free_pairwise (f : FL) (bound : Nat) (h : f.free.Pairwise (· < ·)) :
    (f.release bound).free.Pairwise (· < ·) := by
  unfold FL.release
  exact pairwise_foldl_insertSorted _ _ h

theorem release_keys_pairwise (f : FL) (bound : Nat) (ha : (f.pending.map (·.1)).Pairwise (· < ·)) :
    ((f.release bound).pending.map (·.1)).Pairwise (· < ·) := by
  unfold FL.release
  exact List.Pairwise.sublist (List.Sublist.map _ (List.dropWhile_sublist _)) ha

/-- the pending pages split into the released ones and the kept ones -/
theorem release_split (f : FL) (bound : Nat) :
    f.pendingPages = (f.pending.takeWhile (fun e => e.1 < bound)).flatMap (·.2) ++ (f.release bound).pendingPages := by
  unfold FL.release FL.pendingPages
  simp only
  rw [← List.flatMap_append, List.takeWhile_append_dropWhile]

theorem release_pendingPages_nodup (f : FL) (bound : Nat) (h : f.pendingPages.Nodup) :
    (f.release bound).pendingPages.Nodup := by
  rw [release_split f bound, List.nodup_append] at h
  exact h.2.1

theorem release_pendingPages_sub (f : FL) (bound : Nat) (q : Nat) (h : q ∈ (f.release bound).pendingPages) :
    q ∈ f.pendingPages := by
  rw [release_split f bound]
  exact List.mem_append_right _ h

/-- released pages are no longer pending (given that pending pages were duplicate free) -/
theorem release_free_disj (f : FL) (bound : Nat) (ha : (f.pending.map (·.1)).Pairwise (· < ·))
    (hnd : f.pendingPages.Nodup) (hd : ∀ p ∈ f.free, p ∉ f.pendingPages) :
    ∀ p ∈ (f.release bound).free, p ∉ (f.release bound).pendingPages := by
  intro p hp hq
  rcases (release_free_mem f bound ha p).1 hp with h | ⟨e, he, hlt, hpe⟩
  · exact hd p h (release_pendingPages_sub f bound p hq)
  · rw [release_split f bound, List.nodup_append] at hnd
    refine hnd.2.2 p ?_ p hq rfl
    exact List.mem_flatMap.2 ⟨e, (mem_takeWhile_keys bound f.pending ha e).2 ⟨he, hlt⟩, hpe⟩

/-! ### `freePage` -/

theorem exists_mem_cons' {α : Type} (p : α → Prop) (a : α) (l : List α) :
    (∃ e ∈ a :: l, p e) ↔ (p a ∨ ∃ e ∈ l, p e) := by
  constructor
  · rintro ⟨e, he, hp⟩
    rcases List.mem_cons.1 he with rfl | he
    · exact Or.inl hp
    · exact Or.inr ⟨e, he, hp⟩
  · rintro (h | ⟨e, he, hp⟩)
    · exact ⟨a, List.mem_cons_self .., h⟩
    · exact ⟨e, List.mem_cons_of_mem _ he, hp⟩

theorem go_exists (tx page : Nat) (P : Nat → Prop) (q : Nat) (l : Pend) :
    (∃ e ∈ FL.freePage.go tx page l, P e.1 ∧ q ∈ e.2) ↔
      ((∃ e ∈ l, P e.1 ∧ q ∈ e.2) ∨ (P tx ∧ q = page)) := by
  have hc : ∀ (a : Nat × List Nat) (l : Pend), (∃ e ∈ a :: l, P e.1 ∧ q ∈ e.2) ↔
      ((P a.1 ∧ q ∈ a.2) ∨ ∃ e ∈ l, P e.1 ∧ q ∈ e.2) :=
    fun a l => exists_mem_cons' (fun e => P e.1 ∧ q ∈ e.2) a l
  induction l with
  | nil => simp [FL.freePage.go]
  | cons a rest ih =>
    obtain ⟨t, ps⟩ := a
    unfold FL.freePage.go
    by_cases h1 : tx < t
    · simp only [h1, if_true, hc, List.mem_singleton]
      constructor
      · rintro (h | h)
        · exact Or.inr h
        · exact Or.inl h
      · rintro (h | h)
        · exact Or.inr h
        · exact Or.inl h
    · by_cases h2 : tx = t
      · subst h2
        simp only [Nat.lt_irrefl, if_true, if_false,
          hc, List.mem_append, List.mem_singleton]
        constructor
        · rintro (⟨hp, h | h⟩ | h)
          · exact Or.inl (Or.inl ⟨hp, h⟩)
          · exact Or.inr ⟨hp, h⟩
          · exact Or.inl (Or.inr h)
        · rintro ((⟨hp, h⟩ | h) | ⟨hp, h⟩)
          · exact Or.inl ⟨hp, Or.inl h⟩
          · exact Or.inr h
          · exact Or.inl ⟨hp, Or.inr h⟩
      · simp only [h1, h2, if_false, hc, ih]
        constructor
        · rintro (h | h | h)
          · exact Or.inl (Or.inl h)
          · exact Or.inl (Or.inr h)
          · exact Or.inr h
        · rintro ((h | h) | h)
          · exact Or.inl h
          · exact Or.inr (Or.inl h)
          · exact Or.inr (Or.inr h)

theorem go_keys (tx page : Nat) (l : Pend) :
    ∀ k ∈ (FL.freePage.go tx page l).map (·.1), k = tx ∨ k ∈ l.map (·.1) := by
  induction l with
  | nil => simp [FL.freePage.go]
  | cons a rest ih =>
    obtain ⟨t, ps⟩ := a
    unfold FL.freePage.go
    by_cases h1 : tx < t
    · simp only [h1, if_true, List.map_cons, List.mem_cons]
      rintro k (h | h | h) <;> simp [h]
    · by_cases h2 : tx = t
      · subst h2
        simp only [Nat.lt_irrefl, if_true, if_false, List.map_cons, List.mem_cons]
        rintro k (h | h) <;> simp [h]
      · simp only [h1, h2, if_false, List.map_cons, List.mem_cons]
        rintro k (h | h)
        · simp [h]
        · rcases ih k h with h | h <;> simp [h]

theorem go_keys_pairwise (tx page : Nat) (l : Pend) (h : (l.map (·.1)).Pairwise (· < ·)) :
    ((FL.freePage.go tx page l).map (·.1)).Pairwise (· < ·) := by
  induction l with
  | nil => simp [FL.freePage.go]
  | cons a rest ih =>
    obtain ⟨t, ps⟩ := a
    rw [List.map_cons, List.pairwise_cons] at h
    unfold FL.freePage.go
    by_cases h1 : tx < t
    · simp only [h1, if_true, List.map_cons]
      rw [List.pairwise_cons]
      refine ⟨?_, List.pairwise_cons.2 h⟩
      intro x hx
      rcases List.mem_cons.1 hx with rfl | hx
      · exact h1
      · exact Nat.lt_trans h1 (h.1 x hx)
    · by_cases h2 : tx = t
      · subst h2
        simp only [Nat.lt_irrefl, if_true, if_false, List.map_cons]
        exact List.pairwise_cons.2 h
      · simp only [h1, h2, if_false, List.map_cons]
        rw [List.pairwise_cons]
        refine ⟨?_, ih h.2⟩
        intro x hx
        rcases go_keys tx page rest x hx with rfl | hx
        · simp only at *; omega
        · exact h.1 x hx

theorem go_perm (tx page : Nat) (l : Pend) :
    ((FL.freePage.go tx page l).flatMap (·.2)).Perm (l.flatMap (·.2) ++ [page]) := by
  induction l with
  | nil => simp [FL.freePage.go]
  | cons a rest ih =>
    obtain ⟨t, ps⟩ := a
    unfold FL.freePage.go
    by_cases h1 : tx < t
    · simp only [h1, if_true, List.flatMap_cons]
      exact List.perm_append_comm (l₁ := [page])
    · by_cases h2 : tx = t
      · subst h2
        simp only [Nat.lt_irrefl, if_true, if_false, List.flatMap_cons, List.append_assoc]
        exact List.Perm.append_left _ (List.perm_append_comm (l₁ := [page]))
      · simp only [h1, h2, if_false, List.flatMap_cons, List.append_assoc]
        exact List.Perm.append_left _ ih

/-- free a list of pages under one transaction id -/
def FL.freeAll (f : FL) (tx : Nat) (ps : List Nat) : FL := ps.foldl (fun acc p => acc.freePage tx p) f

theorem freeAll_free (f : FL) (tx : Nat) (ps : List Nat) : (f.freeAll tx ps).free = f.free := by
  unfold FL.freeAll
  induction ps generalizing f with
  | nil => rfl
  | cons a rest ih => rw [List.foldl_cons, ih]; rfl

theorem freeAll_exists (tx : Nat) (P : Nat → Prop) (q : Nat) (ps : List Nat) (f : FL) :
    (∃ e ∈ (f.freeAll tx ps).pending, P e.1 ∧ q ∈ e.2) ↔
      ((∃ e ∈ f.pending, P e.1 ∧ q ∈ e.2) ∨ (P tx ∧ q ∈ ps)) := by
  unfold FL.freeAll
  induction ps generalizing f with
  | nil => simp
  | cons a rest ih =>
    rw [List.foldl_cons, ih]
    have := go_exists tx a P q f.pending
    simp only [FL.freePage, this, List.mem_cons]
    constructor
    · rintro ((h | ⟨hp, h⟩) | ⟨hp, h⟩)
      · exact Or.inl h
      · exact Or.inr ⟨hp, Or.inl h⟩
      · exact Or.inr ⟨hp, Or.inr h⟩
    · rintro (h | ⟨hp, h | h⟩)
      · exact Or.inl (Or.inl h)
      · exact Or.inl (Or.inr ⟨hp, h⟩)
      · exact Or.inr ⟨hp, h⟩

theorem freeAll_keys (tx : Nat) (ps : List Nat) (f : FL) :
    ∀ k ∈ (f.freeAll tx ps).pending.map (·.1), k = tx ∨ k ∈ f.pending.map (·.1) := by
  unfold FL.freeAll
  induction ps generalizing f with
  | nil => intro k hk; exact Or.inr hk
  | cons a rest ih =>
    intro k hk
    rw [List.foldl_cons] at hk
    rcases ih _ k hk with h | h
    · exact Or.inl h
    · exact go_keys tx a f.pending k h

theorem freeAll_keys_pairwise (tx : Nat) (ps : List Nat) (f : FL)
    (h : (f.pending.map (·.1)).Pairwise (· < ·)) :
    ((f.freeAll tx ps).pending.map (·.1)).Pairwise (· < ·) := by
  unfold FL.freeAll
  induction ps generalizing f with
  | nil => exact h
  | cons a rest ih =>
    rw [List.foldl_cons]
    exact ih _ (go_keys_pairwise tx a f.pending h)

theorem freeAll_perm (tx : Nat) (ps : List Nat) (f : FL) :
    (f.freeAll tx ps).pendingPages.Perm (f.pendingPages ++ ps) := by
  unfold FL.freeAll
  induction ps generalizing f with
  | nil => simp
  | cons a rest ih =>
    rw [List.foldl_cons]
    refine (ih _).trans ?_
    have : (f.freePage tx a).pendingPages.Perm (f.pendingPages ++ [a]) := go_perm tx a f.pending
    refine (List.Perm.append_right rest this).trans ?_
    simp

/-! ### `allocate` and the allocation loop -/

theorem allocate_some (f : FL) (n s : Nat) (f' : FL) (ha : f.free.Pairwise (· < ·))
    (h : f.allocate n = some (s, f')) :
    (∀ i, i < n → (s + i) ∈ f.free) ∧ f'.pending = f.pending ∧
    (∀ p, p ∈ f'.free ↔ (p ∈ f.free ∧ (p < s ∨ s + n ≤ p))) ∧ f'.free.Pairwise (· < ·) := by
  unfold FL.allocate at h
  split at h
  · simp at h
  · rename_i s' hs
    simp only [Option.some.injEq, Prod.mk.injEq] at h
    obtain ⟨rfl, rfl⟩ := h
    refine ⟨?_, rfl, ?_, ?_⟩
    · exact findRun_sound_aux n (· ∈ f.free) s' f.free 0 0 (fun p hp => hp) (fun h => absurd rfl h) hs
    · intro p; simp [List.mem_filter]
    · exact List.Pairwise.sublist List.filter_sublist ha

theorem allocate_none (f : FL) (n : Nat) (h : f.allocate n = none) : FL.findRun n f.free 0 0 = none := by
  unfold FL.allocate at h
  split at h
  · assumption
  · simp at h

theorem mem_runPages (s n q : Nat) : q ∈ (List.range n).map (· + s) ↔ (s ≤ q ∧ q < s + n) := by
  simp only [List.mem_map, List.mem_range]
  constructor
  · rintro ⟨i, hi, rfl⟩; omega
  · rintro ⟨h1, h2⟩; exact ⟨q - s, by omega, by omega⟩

theorem nodup_runPages (s n : Nat) : ((List.range n).map (· + s)).Nodup := by
  unfold List.Nodup
  rw [List.pairwise_map]
  exact List.Pairwise.imp (fun h => by omega) (List.nodup_range (n := n))

theorem expand_snoc (acc : List (Nat × Nat)) (s n : Nat) :
    expand (acc ++ [(s, n)]) = expand acc ++ (List.range n).map (· + s) := by
  simp [expand, List.flatMap_append]

def allocStep (acc : List (Nat × Nat) × TxFL) (n : Nat) : List (Nat × Nat) × TxFL :=
  let r := acc.2.allocate n
  (acc.1 ++ [(r.1, n)], r.2)

theorem run_eq (t : TxFL) (w : WriterTx) :
    t.run w = w.requests.foldl allocStep ([], { t with fl := t.fl.freeAll t.txId w.freed }) := rfl

/-- invariant of the allocation loop: `F` is the private free set and `N` the page count at the start -/
structure AInv (F : List Nat) (N : Nat) (pend : Pend) (tx : Nat) (st : List (Nat × Nat) × TxFL) : Prop where
  pend_eq : st.2.fl.pending = pend
  tx_eq : st.2.txId = tx
  asc : st.2.fl.free.Pairwise (· < ·)
  sub : ∀ p ∈ st.2.fl.free, p ∈ F
  mono : N ≤ st.2.numPages
  nd : (expand st.1).Nodup
  al : ∀ p ∈ expand st.1, (p ∈ F ∨ N ≤ p) ∧ p < st.2.numPages ∧ p ∉ st.2.fl.free

theorem AInv.step {F : List Nat} {N : Nat} {pend : Pend} {tx : Nat} {st : List (Nat × Nat) × TxFL}
    (hF : ∀ p ∈ F, p < N) (h : AInv F N pend tx st) (n : Nat) : AInv F N pend tx (allocStep st n) := by
  obtain ⟨acc, t⟩ := st
  obtain ⟨hpend, htx, hasc, hsub, hmono, hnd, hal⟩ := h
  simp only at hpend htx hasc hsub hmono hnd hal
  unfold allocStep TxFL.allocate
  simp only
  cases hA : t.fl.allocate n with
  | none =>
    simp only
    refine ⟨hpend, htx, hasc, hsub, by simp only; omega, ?_, ?_⟩
    · simp only [expand_snoc]
      rw [List.nodup_append]
      refine ⟨hnd, nodup_runPages _ _, ?_⟩
      intro a ha b hb hab
      subst hab
      have := (hal a ha).2.1
      have := (mem_runPages _ _ _).1 hb
      omega
    · intro p hp
      simp only [expand_snoc, List.mem_append] at hp
      rcases hp with hp | hp
      · obtain ⟨h1, h2, h3⟩ := hal p hp
        exact ⟨h1, by simp only; omega, h3⟩
      · have hr := (mem_runPages _ _ _).1 hp
        refine ⟨Or.inr (by omega), by simp only; omega, ?_⟩
        intro hfree
        have := hF p (hsub p hfree)
        omega
  | some r =>
    obtain ⟨s, fl'⟩ := r
    obtain ⟨hrun, hp', hmem, hasc'⟩ := allocate_some t.fl n s fl' hasc hA
    simp only
    refine ⟨hp'.trans hpend, htx, hasc', fun p hp => hsub p ((hmem p).1 hp).1, hmono, ?_, ?_⟩
    · simp only [expand_snoc]
      rw [List.nodup_append]
      refine ⟨hnd, nodup_runPages _ _, ?_⟩
      intro a ha b hb hab
      subst hab
      have hr := (mem_runPages _ _ _).1 hb
      have : a = s + (a - s) := by omega
      have hin := hrun (a - s) (by omega)
      rw [← this] at hin
      exact (hal a ha).2.2 hin
    · intro p hp
      simp only [expand_snoc, List.mem_append] at hp
      rcases hp with hp | hp
      · obtain ⟨h1, h2, h3⟩ := hal p hp
        exact ⟨h1, h2, fun hfree => h3 ((hmem p).1 hfree).1⟩
      · have hr := (mem_runPages _ _ _).1 hp
        have : p = s + (p - s) := by omega
        have hin := hrun (p - s) (by omega)
        rw [← this] at hin
        refine ⟨Or.inl (hsub p hin), ?_, ?_⟩
        · have := hF p (hsub p hin); simp only; omega
        · intro hfree
          have := ((hmem p).1 hfree).2
          omega

theorem AInv.foldl {F : List Nat} {N : Nat} {pend : Pend} {tx : Nat} (hF : ∀ p ∈ F, p < N) (reqs : List Nat) :
    ∀ (st : List (Nat × Nat) × TxFL), AInv F N pend tx st → AInv F N pend tx (reqs.foldl allocStep st) := by
  induction reqs with
  | nil => intro st h; exact h
  | cons n rest ih => intro st h; exact ih _ (h.step hF n)

end Jamm
