/-
Byte-level commit, the data writes: `commitData` stores everything of the new state but its header and changes
no byte outside the new state's runs; bytes outside those runs are bytes the old state keeps.
-/
import Jamm.Proofs.CommitFileLemmas
namespace Jamm

section
variable (L : Layout) (order : List MetaField) (pagesize : Nat)

/-- the free-list page writer changes no byte outside the run it writes, and not the size -/
theorem writeFreelistPage_frame (W : L.WFM) (pid overflow : Nat) (ids : List Nat) (s : Src) (i : Nat)
    (hfit : L.pgPtr + 8 * ids.length ≤ (overflow + 1) * pagesize)
    (h : i < pid * pagesize ∨ (pid + overflow + 1) * pagesize ≤ i) :
    (writeFreelistPage L pagesize pid overflow ids s).get i = s.get i ∧
    (writeFreelistPage L pagesize pid overflow ids s).size = s.size := by
  have pg1 := W.pg1; have pg2 := W.pg2; have pg3 := W.pg3; have pg4 := W.pg4
  refine ⟨?_, applyWrites_size _ _⟩
  rw [run_bytes] at h
  rw [writeFreelistPage]
  apply applyWrites_get_out
  simp only [freelistPageWrites, headerWrites, List.cons_append, List.nil_append, List.forall_mem_cons,
    List.not_mem_nil, false_imp_iff, implies_true, and_true, leBytes_length, List.length_cons, List.length_nil,
    flatMap_le8_length]
  and_intros <;> omega

/-- the data writes of a commit (`commitData`: every node of every bucket, then the free-list page) store
everything of the new state but its header, and change no byte outside the new state's runs -/
theorem commitData_stores (hE : L.WFEnc = true) (hL : L.WFMeta = true) (hhdr : L.pageSize ≤ pagesize)
    (ov : Nat → Nat) (st : Opened) (s : Src)
    (hfit : st.view.fits L pagesize ov s.size)
    (hdisj : (st.runs ov).Pairwise runsDisjoint)
    (hflfile : st.hdr.freelistPage * pagesize + (st.flOverflow + 1) * pagesize ≤ s.size)
    (hflfit : L.pgPtr + 8 * st.free.length ≤ (st.flOverflow + 1) * pagesize)
    (hflid : st.hdr.freelistPage < 2 ^ 64) (hflrun : (st.flOverflow + 1) * pagesize < 2 ^ 64)
    (hfree : ∀ x ∈ st.free, x < 2 ^ 64) :
    StoredV L pagesize ov (commitData L pagesize ov st s) st.view ∧
    (∃ p, decodePage L (commitData L pagesize ov st s) pagesize st.hdr.freelistPage = .ok p ∧
      p.body = .freelist st.free ∧ p.overflow = st.flOverflow) ∧
    (commitData L pagesize ov st s).size = s.size ∧
    (∀ i, (∀ r ∈ st.runs ov, i < r.1 * pagesize ∨ (r.1 + r.2 + 1) * pagesize ≤ i) →
      (commitData L pagesize ov st s).get i = s.get i) := by
  have W := Layout.WFM.of L hL
  rw [Opened.runs, List.pairwise_cons] at hdisj
  obtain ⟨hflv, hvd⟩ := hdisj
  have hsz1 : (writeView L pagesize ov st.view s).size = s.size := writeView_size L pagesize ov st.view s
  have hfr := fun i h => writeFreelistPage_frame L pagesize W st.hdr.freelistPage st.flOverflow st.free
    (writeView L pagesize ov st.view s) i hflfit h
  have hszc : (commitData L pagesize ov st s).size = s.size := by
    rw [commitData, ← hsz1]; exact applyWrites_size _ _
  refine ⟨?_, ?_, hszc, ?_⟩
  · have h1 := writeView_stored L pagesize hE hhdr ov s.size st.view s rfl hfit hvd
    refine StoredV.agree L pagesize (Layout.WF.of L hE) hhdr ov _ st.view _ (hszc.trans hsz1.symm) h1 ?_
    intro r hr i i1 i2
    exact (hfr i (runsDisjoint_out pagesize (hflv r hr).symm i i1 i2)).1
  · have hd := decode_writeFreelistPage L hL pagesize st.hdr.freelistPage st.flOverflow st.free
      (writeView L pagesize ov st.view s) (by rw [hsz1]; exact hflfile) hflfit hhdr hflid hflrun hfree
    exact ⟨_, hd, rfl, rfl⟩
  · intro i h
    rw [Opened.runs] at h
    rw [commitData, (hfr i (h _ List.mem_cons_self)).1]
    exact writeView_get L pagesize hE ov s.size i st.view s hfit (fun r hr => h r (List.mem_cons_of_mem _ hr))

/-- bytes outside the new state's runs are bytes the old state keeps, when the runs of the two states share no
page and the new runs start at page 2 or later -/
theorem keepsState_of_outside (ov : Nat → Nat) (s s' : Src) (slot : Nat) (old new : Opened)
    (hslot : slot < 2) (hsz : s'.size = s.size)
    (hout : ∀ i, (∀ r ∈ new.runs ov, i < r.1 * pagesize ∨ (r.1 + r.2 + 1) * pagesize ≤ i) → s'.get i = s.get i)
    (hnew2 : ∀ r ∈ new.runs ov, 2 ≤ r.1)
    (hsep : ∀ a ∈ old.runs ov, ∀ b ∈ new.runs ov, runsDisjoint a b) :
    KeepsState pagesize ov s s' slot old := by
  refine ⟨hsz, ?_, ?_⟩
  · intro i i1 i2
    apply hout
    intro r hr
    left
    have h2 := hnew2 r hr
    have h3 : 2 * pagesize ≤ r.1 * pagesize := Nat.mul_le_mul_right _ h2
    have h4 : (slot + 1) * pagesize ≤ 2 * pagesize := Nat.mul_le_mul_right _ (by omega)
    rw [Nat.add_mul, Nat.one_mul] at h4
    omega
  · intro r hr i i1 i2
    apply hout
    intro b hb
    exact runsDisjoint_out pagesize (hsep r hr b hb) i i1 i2

end
end Jamm
