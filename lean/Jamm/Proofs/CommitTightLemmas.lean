/-
Layer C proofs, part 4: tightness through a commit.  Leaf edits keep full tightness (`put_wfs'`,
`del_wfs'`); `rebalance` keeps it at every page the transaction has not materialised (`TightMT`); `spill`
re-keys every materialised node by its first key and so restores full tightness.  Plus: the loop that
adds new roots above a split root terminates.

Helper lemmas: `CommitTightBasic.lean` (induction principles, weakening, merge / `mergeChild` /
`atBranch`), `CommitTightSpill.lean` (`cutAt`, `splitIndexes`, shape of the pieces of `spillT`).
-/
import Jamm.Model.CommitTight
import Jamm.Proofs.CommitSepLemmas
import Jamm.Proofs.CommitLemmas
import Jamm.Proofs.SplitLemmas
import Jamm.Proofs.CommitTightBasic
import Jamm.Proofs.CommitTightSpill
set_option linter.unusedSectionVars false
open Std

namespace Jamm

section
variable {K E : Type} [Ord K] [TransOrd K] [LawfulEqOrd K] [DecidableEq K]

mutual
theorem tightMB_sound_aux (lo : Option K) (t : Tree K E) (h : tightMB lo t = true) : TightMT lo t := by
  match t with
  | .leaf p es => exact TightMT.leaf lo p es
  | .branch p kids =>
    by_cases hm : nodeMat p = true
    · match kids with
      | .nil => exact TightMT.emptyBranch lo p
      | .cons k t' rest =>
        rw [tightMB] at h
        simp only [hm, Bool.not_true, Bool.false_eq_true, if_false] at h
        exact TightMT.branch lo p k t' rest hm (tightMFB_sound (sepLo lo k) (.cons k t' rest) h)
    · have hm' : nodeMat p = false := by simpa using hm
      unfold tightMB at h
      simp only [hm', Bool.not_false, if_true] at h
      exact TightMT.unmat lo p kids hm' (tightB_sound lo _ h)
theorem tightMFB_sound (lo : Option K) (f : Forest K E) (h : tightMFB lo f = true) : TightMForest lo f := by
  match f with
  | .nil => simp [tightMFB] at h
  | .cons k t .nil =>
    simp only [tightMFB] at h
    exact TightMF.last lo k t (tightMB_sound_aux lo t h)
  | .cons k t (.cons k' t' rest') =>
    simp only [tightMFB, Bool.and_eq_true] at h
    exact TightMF.cons lo k t k' t' rest' (tightMB_sound_aux lo t h.1)
      (tightMFB_sound (some k') (.cons k' t' rest') h.2)
end

/-- T0: the executable check is sound -/
theorem tightMB_sound (lo : Option K) (t : Tree K E) (h : tightMB lo t = true) : TightMT lo t :=
  tightMB_sound_aux lo t h

/-- T1: full tightness is the special case in which nothing is materialised -/
theorem tight_tightM (lo : Option K) (t : Tree K E) (h : TightT lo t) : TightMT lo t :=
  tight_tightM_aux.1 lo t h

/-- T2: every reported step of `rebalance` keeps tightness at the untouched pages -/
theorem rbStep_tightM (t : Tree K E) (s : RbStep) (h : TightMT none t) : TightMT none (t.rbStep s) := by
  cases s with
  | merge parent i => exact atBranch_mergeChild_tightM h parent i
  | collapse =>
    cases h with
    | leaf _ p es => exact TightMT.leaf _ _ _
    | emptyBranch _ p => exact TightMT.emptyBranch _ _
    | unmat _ p kids hm ht =>
      cases ht with
      | emptyBranch => exact TightMT.emptyBranch _ _
      | branch _ _ k c rest hk hf =>
        cases hf with
        | last _ _ _ hc => exact tight_tightM _ _ hc
        | cons _ _ _ k' t' rest' hc hr =>
          exact TightMT.unmat _ _ _ hm
            (TightT.branch _ _ _ _ _ hk (TightF.cons _ _ _ _ _ _ hc hr))
    | branch _ p k c rest hm hf =>
      cases hf with
      | last _ _ _ hc => exact hc
      | cons _ _ _ k' t' rest' hc hr =>
        exact TightMT.branch _ _ _ _ _ hm (TightMF.cons _ _ _ _ _ _ hc hr)
  | emptyRoot =>
    cases h with
    | leaf _ p es => exact TightMT.leaf _ _ _
    | emptyBranch _ p => exact TightMT.leaf _ _ _
    | unmat _ p kids hm ht =>
      cases kids with
      | nil => exact TightMT.leaf _ _ _
      | cons k c rest => exact TightMT.unmat _ _ _ hm ht
    | branch _ p k c rest hm hf => exact TightMT.branch _ _ _ _ _ hm hf

/-- T3: … hence so does the whole replay -/
theorem rebalance_tightM (t : Tree K E) (steps : List RbStep) (h : TightMT none t) :
    TightMT none (t.rebalance steps) := by
  induction steps generalizing t with
  | nil => exact h
  | cons s rest ih =>
    show TightMT none (List.foldl Tree.rbStep t (s :: rest))
    rw [List.foldl_cons]
    exact ih _ (rbStep_tightM t s h)

end

section
variable {E : Type} (p : Params) (pagesize hdr leafHdr branchHdr : Nat) (esz : Bytes × E → Nat)

/-- the pieces of a node, each tight under its own key; the first under the node's lower bound when the
node is on the leftmost spine -/
def PiecesTight (lo : Option Bytes) : List (Bytes × Tree Bytes E) → Prop
  | [] => True
  | (k, t) :: rest => TightT (sepLo lo k) t ∧ ∀ q ∈ rest, TightT (some q.1) q.2

/-! helpers for T4 -/

theorem piecesTight_of_own (lo : Option Bytes) (l : List (Bytes × Tree Bytes E))
    (h : ∀ q ∈ l, TightT (some q.1) q.2) : PiecesTight lo l := by
  cases l with
  | nil => trivial
  | cons a rest =>
    obtain ⟨k, t⟩ := a
    exact ⟨(h (k, t) List.mem_cons_self).weaken_sepLo lo, fun q hq => h q (List.mem_cons_of_mem _ hq)⟩

theorem piecesTight_own_of_some (l : Bytes) (ps : List (Bytes × Tree Bytes E))
    (h : PiecesTight (some l) ps) : ∀ q ∈ ps, TightT (some q.1) q.2 := by
  cases ps with
  | nil => intro q hq; cases hq
  | cons a rest =>
    obtain ⟨k, t⟩ := a
    intro q hq
    rcases List.mem_cons.1 hq with rfl | hq
    · exact h.1
    · exact h.2 q hq

theorem piecesTight_append (lo : Option Bytes) (a b : List (Bytes × Tree Bytes E))
    (ha : PiecesTight lo a) (hb : ∀ q ∈ b, TightT (some q.1) q.2) : PiecesTight lo (a ++ b) := by
  cases a with
  | nil => exact piecesTight_of_own lo b hb
  | cons x rest =>
    obtain ⟨k, t⟩ := x
    refine ⟨ha.1, ?_⟩
    intro q hq
    rcases List.mem_append.1 hq with hq | hq
    · exact ha.2 q hq
    · exact hb q hq

/-- entries each tight under its own key make a branch that is tight under its first key -/
theorem tightF_ofList (lo : Option Bytes) (k : Bytes) (t : Tree Bytes E) :
    ∀ (r : List (Bytes × Tree Bytes E)), TightT lo t → (∀ q ∈ r, TightT (some q.1) q.2) →
      TightF lo k t (Forest.ofList r)
  | [], ht, _ => TightF.last _ _ _ ht
  | (k', t') :: r', ht, hr =>
    TightF.cons _ _ _ _ _ _ ht
      (tightF_ofList (some k') k' t' r' (hr (k', t') List.mem_cons_self)
        (fun q hq => hr q (List.mem_cons_of_mem _ hq)))

/-- a written branch piece, keyed by its first key -/
theorem piece_tight (lo : Option Bytes) (key : Bytes) (c : List (Bytes × Tree Bytes E))
    (h : PiecesTight lo c) : TightT (sepLo lo (firstKeyOr key c)) (.branch 0 (Forest.ofList c)) := by
  cases c with
  | nil => exact TightT.emptyBranch _ _
  | cons a r =>
    obtain ⟨k, t⟩ := a
    show TightT (sepLo lo k) (.branch 0 (.cons k t (Forest.ofList r)))
    refine TightT.branch _ _ _ _ _ ?_ ?_
    · cases lo with
      | none => trivial
      | some l => exact kle_refl k
    · rw [sepLo_sepLo]
      exact tightF_ofList _ k t r h.1 h.2

/-- the chunks of an entry list that is `PiecesTight`, each wrapped into a branch under its first key -/
theorem chunks_tight (lo : Option Bytes) (key : Bytes) (ents : List (Bytes × Tree Bytes E))
    (idx : List Nat) (hpos : ∀ i ∈ idx, 0 < i) (h : PiecesTight lo ents) :
    PiecesTight lo ((cutAt ents idx 0).map (fun c => (firstKeyOr key c, Tree.branch 0 (Forest.ofList c)))) := by
  cases ents with
  | nil =>
    apply piecesTight_of_own
    intro q hq
    simp only [List.mem_map] at hq
    obtain ⟨c, hc, rfl⟩ := hq
    rw [cutAt_nil idx 0 c hc]
    exact TightT.emptyBranch _ _
  | cons a l' =>
    obtain ⟨r, cs, heq, hr, hcs⟩ := cutAt_head a l' idx hpos
    obtain ⟨k, t⟩ := a
    rw [heq]
    simp only [List.map_cons]
    refine ⟨?_, ?_⟩
    · exact piece_tight lo key ((k, t) :: r) ⟨h.1, fun q hq => h.2 q (hr q hq)⟩
    · intro q hq
      simp only [List.mem_map] at hq
      obtain ⟨c, hc, rfl⟩ := hq
      have := piece_tight (some (firstKeyOr key c)) key c
        (piecesTight_of_own _ c (fun q hq => h.2 q (hcs c hc q hq)))
      exact this

theorem spillT_tight_aux :
    (∀ (lo : Option Bytes) (t : Tree Bytes E), TightMT lo t → ∀ key : Bytes, (lo = none ∨ lo = some key) →
      PiecesTight lo (spillT p pagesize hdr leafHdr branchHdr esz key t)) ∧
    (∀ (lo : Option Bytes) (k : Bytes) (t : Tree Bytes E) (rest : Forest Bytes E), TightMF lo k t rest →
      (lo = none ∨ lo = some k) →
      PiecesTight lo (spillF p pagesize hdr leafHdr branchHdr esz (.cons k t rest))) := by
  have hself : ∀ (lo : Option Bytes) (key : Bytes), (lo = none ∨ lo = some key) → sepLo lo key = lo := by
    intro lo key h
    rcases h with rfl | rfl <;> rfl
  apply tightM_induct
  · -- leaf
    intro lo pid es key hlo
    simp only [spillT]
    split
    · exact ⟨TightT.leaf _ _ _, fun q hq => by cases hq⟩
    · apply piecesTight_of_own
      intro q hq
      simp only [List.mem_map] at hq
      obtain ⟨c, _, rfl⟩ := hq
      exact TightT.leaf _ _ _
  · -- unmaterialised branch
    intro lo pid kids hm ht key hlo
    simp only [spillT, hm, Bool.not_false, if_true]
    refine ⟨?_, fun q hq => by cases hq⟩
    rw [hself lo key hlo]
    exact ht
  · -- branch without entries
    intro lo pid key hlo
    simp only [spillT]
    split
    · exact ⟨TightT.emptyBranch _ _, fun q hq => by cases hq⟩
    · exact chunks_tight lo key _ _ (splitIndexes_pos _ _ _ _ _) (by simp only [spillF]; trivial)
  · -- materialised branch
    intro lo pid k t rest hm _ ih key hlo
    simp only [spillT, hm, Bool.not_true, Bool.false_eq_true, if_false]
    refine chunks_tight lo key _ _ (splitIndexes_pos _ _ _ _ _) ?_
    have h1 := ih (sepLo_cases lo k)
    -- `PiecesTight (sepLo lo k)` and `PiecesTight lo` agree
    generalize spillF p pagesize hdr leafHdr branchHdr esz (.cons k t rest) = ents at h1
    cases ents with
    | nil => trivial
    | cons a l' =>
      obtain ⟨ka, ta⟩ := a
      refine ⟨?_, h1.2⟩
      have := h1.1
      rwa [sepLo_sepLo] at this
  · -- last entry
    intro lo k t _ ih hlo
    simp only [spillF, List.append_nil]
    exact ih k hlo
  · -- entry followed by others
    intro lo k t k' t' rest _ _ iht ihr hlo
    have h2 := ihr (Or.inr rfl)
    rw [spillF]
    exact piecesTight_append lo _ _ (iht k hlo) (piecesTight_own_of_some k' _ h2)

/-- T4: every piece written by `spill` is fully tight under the key its parent will hold for it -/
theorem spillT_tight (key : Bytes) (lo : Option Bytes) (t : Tree Bytes E)
    (hlo : lo = none ∨ lo = some key) (h : TightMT lo t) :
    PiecesTight lo (spillT p pagesize hdr leafHdr branchHdr esz key t) :=
  (spillT_tight_aux p pagesize hdr leafHdr branchHdr esz).1 lo t h key hlo

/-- T5: once the root has been written (it is no longer a materialised node), the tree is fully tight -/
theorem spillRoot_tight (fuel : Nat) (t : Tree Bytes E) (h : TightMT none t)
    (hdone : nodeMat (spillRoot p pagesize hdr leafHdr branchHdr esz fuel t).pid = false) :
    TightT none (spillRoot p pagesize hdr leafHdr branchHdr esz fuel t) := by
  induction fuel generalizing t with
  | zero =>
    simp only [spillRoot] at hdone ⊢
    exact h.tight_of_unmat hdone
  | succ fuel ih =>
    have hp := spillT_tight p pagesize hdr leafHdr branchHdr esz [] none t (Or.inl rfl) h
    unfold spillRoot at hdone ⊢
    split at hdone
    · exact h.tight_of_unmat hdone
    · rename_i k r heq
      rw [heq] at hp
      exact hp.1
    · rename_i many hne1 hne2
      · refine ih _ ?_ hdone
        generalize spillT p pagesize hdr leafHdr branchHdr esz [] t = many at hp hne1
        cases many with
        | nil => exact absurd rfl hne1
        | cons a rest =>
          obtain ⟨k, r⟩ := a
          exact TightMT.branch _ _ _ _ _ nodeMat_one (tightF_ofList _ k r rest hp.1 hp.2).toM

/-- T6 (termination): with at least two entries per split chunk the number of pieces at least halves
in every round, so as much fuel as the root has pieces is enough to finish -/
theorem spillRoot_terminates (hp : p.Valid) (h2 : 2 ≤ p.minKeysPerNode) (fuel : Nat) (t : Tree Bytes E)
    (hf : (spillT p pagesize hdr leafHdr branchHdr esz [] t).length ≤ fuel) :
    nodeMat (spillRoot p pagesize hdr leafHdr branchHdr esz fuel t).pid = false := by
  induction fuel generalizing t with
  | zero =>
    have hne := spillT_ne_nil p pagesize hdr leafHdr branchHdr esz [] t
    have : spillT p pagesize hdr leafHdr branchHdr esz [] t = [] := List.length_eq_zero_iff.1 (by omega)
    exact absurd this hne
  | succ fuel ih =>
    have hne := spillT_ne_nil p pagesize hdr leafHdr branchHdr esz [] t
    have hun := spillT_pieces_unmat p pagesize hdr leafHdr branchHdr esz [] t
    unfold spillRoot
    split
    · rename_i heq; exact absurd heq hne
    · rename_i k r heq
      rw [heq] at hun
      exact hun (k, r) List.mem_cons_self
    · rename_i many hne1 hne2
      apply ih
      generalize spillT p pagesize hdr leafHdr branchHdr esz [] t = many at hf hun hne1 hne2
      have hlen : 2 ≤ many.length := by
        match many, hne1, hne2 with
        | [], h1, _ => exact absurd rfl h1
        | [(k, r)], _, h2 => exact absurd rfl (h2 k r)
        | _ :: _ :: _, _, _ => simp
      have := spillT_newRoot_length p pagesize hdr leafHdr branchHdr esz hp h2 [] many hun hlen
      omega

end
end Jamm
