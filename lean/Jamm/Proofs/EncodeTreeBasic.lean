/-
Locality of the page decoder: `decodePage` of a tree page reads only bytes of the page's own run (and the
file size), so a source that agrees with another one on that run decodes to the same page.
-/
import Jamm.Model.EncodeTree
import Jamm.Proofs.EncodeLemmas

set_option linter.unusedSimpArgs false
set_option linter.unusedSectionVars false
set_option linter.unusedVariables false

namespace Jamm

namespace Src

/-- `s'` has the bytes of `s` on `[lo, hi)` -/
def AgreeOn (s s' : Src) (lo hi : Nat) : Prop := ∀ i, lo ≤ i → i < hi → s'.get i = s.get i

theorem AgreeOn.mono {s s' : Src} {lo hi lo' hi' : Nat} (h : AgreeOn s s' lo hi) (h1 : lo ≤ lo') (h2 : hi' ≤ hi) :
    AgreeOn s s' lo' hi' := fun i a b => h i (by omega) (by omega)

theorem AgreeOn.get {s s' : Src} {lo hi : Nat} (h : AgreeOn s s' lo hi) (off : Nat) (h1 : lo ≤ off) (h2 : off < hi) :
    s'.get off = s.get off := h off h1 h2

theorem AgreeOn.le {s s' : Src} {lo hi : Nat} (h : AgreeOn s s' lo hi) (n : Nat) : ∀ (off : Nat), lo ≤ off →
    off + n ≤ hi → s'.le off n = s.le off n := by
  induction n with
  | zero => intro off _ _; simp [Src.le]
  | succ n ih =>
    intro off h1 h2
    rw [le_succ, le_succ, ih (off + 1) (by omega) (by omega), h off h1 (by omega)]

theorem AgreeOn.bytes {s s' : Src} {lo hi : Nat} (h : AgreeOn s s' lo hi) (off n : Nat) (h1 : lo ≤ off)
    (h2 : off + n ≤ hi) : s'.bytes off n = s.bytes off n := by
  simp only [Src.bytes]
  apply List.map_congr_left
  intro i hi'
  rw [List.mem_range] at hi'
  exact h _ (by omega) (by omega)

end Src

section
variable (L : Layout)

theorem decodeBranchElems_congr (W : L.WF) (s s' : Src) (base runEnd : Nat)
    (h : Src.AgreeOn s s' base runEnd) : ∀ (n i : Nat),
    decodeBranchElems L s' base runEnd n i = decodeBranchElems L s base runEnd n i := by
  have br1 := W.br1; have br2 := W.br2; have br3 := W.br3
  intro n
  induction n with
  | zero => intro i; rfl
  | succ n ih =>
    intro i
    rw [decodeBranchElems, decodeBranchElems]
    simp only []
    by_cases hrec : base + L.pgPtr + i * L.branchSize + L.branchSize > runEnd
    · rw [if_pos hrec, if_pos hrec]
    · rw [if_neg hrec, if_neg hrec]
      rw [h.le 8 (base + L.pgPtr + i * L.branchSize + L.branchPage) (by omega) (by omega),
        h.le 8 (base + L.pgPtr + i * L.branchSize + L.branchKsize) (by omega) (by omega),
        h.le 8 (base + L.pgPtr + i * L.branchSize + L.branchPos) (by omega) (by omega)]
      generalize s.le (base + L.pgPtr + i * L.branchSize + L.branchPage) 8 = page
      generalize s.le (base + L.pgPtr + i * L.branchSize + L.branchKsize) 8 = ks
      generalize s.le (base + L.pgPtr + i * L.branchSize + L.branchPos) 8 = pos
      by_cases hend : base + L.pgPtr + i * L.branchSize + pos + ks > runEnd
      · rw [if_pos hend, if_pos hend]
      · rw [if_neg hend, if_neg hend, ih (i + 1),
          h.bytes (base + L.pgPtr + i * L.branchSize + pos) ks (by omega) (by omega)]

theorem decodeLeafElems_congr (W : L.WF) (s s' : Src) (base runEnd : Nat)
    (h : Src.AgreeOn s s' base runEnd) : ∀ (n i : Nat),
    decodeLeafElems L s' base runEnd n i = decodeLeafElems L s base runEnd n i := by
  have lf1 := W.lf1; have lf2 := W.lf2; have lf3 := W.lf3; have lf4 := W.lf4
  have bm1 := W.bm1; have bm2 := W.bm2
  intro n
  induction n with
  | zero => intro i; rfl
  | succ n ih =>
    intro i
    rw [decodeLeafElems, decodeLeafElems]
    simp only []
    by_cases hrec : base + L.pgPtr + i * L.leafSize + L.leafSize > runEnd
    · rw [if_pos hrec, if_pos hrec]
    · rw [if_neg hrec, if_neg hrec]
      rw [h.get (base + L.pgPtr + i * L.leafSize + L.leafType) (by omega) (by omega),
        h.le 8 (base + L.pgPtr + i * L.leafSize + L.leafPos) (by omega) (by omega),
        h.le 8 (base + L.pgPtr + i * L.leafSize + L.leafKsize) (by omega) (by omega),
        h.le 8 (base + L.pgPtr + i * L.leafSize + L.leafVsize) (by omega) (by omega)]
      generalize (s.get (base + L.pgPtr + i * L.leafSize + L.leafType)).toNat = ty
      generalize s.le (base + L.pgPtr + i * L.leafSize + L.leafPos) 8 = pos
      generalize s.le (base + L.pgPtr + i * L.leafSize + L.leafKsize) 8 = ks
      generalize s.le (base + L.pgPtr + i * L.leafSize + L.leafVsize) 8 = vs
      by_cases hend : base + L.pgPtr + i * L.leafSize + pos + ks + vs > runEnd
      · rw [if_pos hend, if_pos hend]
      · rw [if_neg hend, if_neg hend, ih (i + 1),
          h.bytes (base + L.pgPtr + i * L.leafSize + pos) ks (by omega) (by omega),
          h.bytes (base + L.pgPtr + i * L.leafSize + pos + ks) vs (by omega) (by omega)]
        by_cases hvs : vs = L.bmSize
        · rw [h.le 8 (base + L.pgPtr + i * L.leafSize + pos + ks + L.bmRoot) (by omega) (by omega),
            h.le 8 (base + L.pgPtr + i * L.leafSize + pos + ks + L.bmNextInt) (by omega) (by omega)]
        · simp only [if_neg hvs]

/-- the overflow field of a decoded page is the header field -/
theorem decodePage_overflow (s : Src) (pagesize pid : Nat) (p : LPage)
    (h : decodePage L s pagesize pid = .ok p) : p.overflow = s.le (pid * pagesize + L.pgOverflow) 8 := by
  unfold decodePage at h
  simp only [] at h
  split at h
  · cases h
  split at h
  · rw [← Except.ok.inj h]
  split at h
  · cases h
  split at h
  · split at h
    · cases h
    · rw [← Except.ok.inj h]
  split at h
  · split at h
    · cases h
    · rw [← Except.ok.inj h]
  split at h
  · split at h
    · cases h
    · rw [← Except.ok.inj h]
  · have h' := Except.ok.inj h
    rw [← h']

/-- a decoded page whose body is not a header record does not carry the header tag -/
theorem decodePage_notMeta (s : Src) (pagesize pid : Nat) (p : LPage)
    (h : decodePage L s pagesize pid = .ok p) (hb : ∀ m, p.body ≠ .hdr m) :
    (s.get (pid * pagesize + L.pgType)).toNat ≠ L.typeMeta := by
  intro hty
  unfold decodePage at h
  simp only [] at h
  split at h
  · cases h
  · exact hb _ (by rw [← Except.ok.inj h])

/-- locality of `decodePage`: a source with the same size and the same bytes on the run of the page decodes
to the same page (tree, free-list and unknown pages; a header page is read beyond any run) -/
theorem decodePage_congr (W : L.WF) (s s' : Src) (pagesize pid : Nat) (hhdr : L.pageSize ≤ pagesize)
    (hsz : s'.size = s.size)
    (hty : (s.get (pid * pagesize + L.pgType)).toNat ≠ L.typeMeta)
    (hag : Src.AgreeOn s s' (pid * pagesize)
      (pid * pagesize + (s.le (pid * pagesize + L.pgOverflow) 8 + 1) * pagesize)) :
    decodePage L s' pagesize pid = decodePage L s pagesize pid := by
  have pg1 := W.pg1; have pg2 := W.pg2; have pg3 := W.pg3; have pg4 := W.pg4; have pg5 := W.pg5
  have h1 : pagesize ≤ (s.le (pid * pagesize + L.pgOverflow) 8 + 1) * pagesize := by
    rw [Nat.add_mul, Nat.one_mul]; omega
  have e1 := hag.get (pid * pagesize + L.pgType) (by omega) (by omega)
  have e2 := hag.le 8 (pid * pagesize + L.pgCount) (by omega) (by omega)
  have e3 := hag.le 8 (pid * pagesize + L.pgOverflow) (by omega) (by omega)
  have e4 := hag.le 8 (pid * pagesize + L.pgId) (by omega) (by omega)
  unfold decodePage
  simp only [e1, e2, e3, e4, hsz, if_neg hty]
  rw [decodeBranchElems_congr L W s s' _ _ hag, decodeLeafElems_congr L W s s' _ _ hag]
  generalize hov : s.le (pid * pagesize + L.pgOverflow) 8 = ov at hag h1
  generalize hcnt : s.le (pid * pagesize + L.pgCount) 8 = count
  by_cases hfl : pid * pagesize + L.pgPtr + 8 * count > pid * pagesize + (ov + 1) * pagesize
  · simp only [if_pos hfl]
  · have : (List.range count).map (fun i => s'.le (pid * pagesize + L.pgPtr + 8 * i) 8) =
        (List.range count).map (fun i => s.le (pid * pagesize + L.pgPtr + 8 * i) 8) := by
      apply List.map_congr_left
      intro i hi
      rw [List.mem_range] at hi
      exact hag.le 8 _ (by omega) (by omega)
    rw [this]

/-- the form used for tree pages -/
theorem decodePage_agree (W : L.WF) (s s' : Src) (pagesize pid : Nat) (p : LPage) (hhdr : L.pageSize ≤ pagesize)
    (hsz : s'.size = s.size)
    (h : decodePage L s pagesize pid = .ok p) (hb : ∀ m, p.body ≠ .hdr m)
    (hag : Src.AgreeOn s s' (pid * pagesize) (pid * pagesize + (p.overflow + 1) * pagesize)) :
    decodePage L s' pagesize pid = .ok p := by
  rw [decodePage_congr L W s s' pagesize pid hhdr hsz (decodePage_notMeta L s pagesize pid p h hb), h]
  rw [← decodePage_overflow L s pagesize pid p h]
  exact hag

end
end Jamm
