/-
Byte-level commit atomicity, the composition: from a file that holds a state under one header slot,
* every file that keeps the bytes the state owns — whatever else was written, in whatever subset, torn at whatever
  granularity — still opens as that state, as long as the other header slot is unchanged or does not verify;
* the completed commit (`commitFile`: data writes, then the sealed header into the other slot) opens as the new
  state, still holds the previous state under the old slot (the fallback of C12 / the "previous snapshot"), and is
  again a file of the shape the theorem starts from (so the statement iterates over any number of commits).
-/
import Jamm.Proofs.CommitFileData
namespace Jamm

section
variable (L : Layout) (order : List MetaField) (pagesize : Nat)

/-- CRASH: any file that keeps the old state's bytes shows the old state, provided the header in the other slot
(whatever it holds now) does not verify or loses the choice -/
theorem crash_shows_old (WE : L.WF) (W : L.WFM) (hrec : L.pgPtr + L.metaSize ≤ pagesize)
    (hhdr : L.pageSize ≤ pagesize) (ov : Nat → Nat) (s c : Src) (slot : Nat) (hslot : slot = 0 ∨ slot = 1)
    (old : Opened) (h : Holds L order pagesize ov s slot old)
    (k : KeepsState pagesize ov s c slot old)
    (hother : OtherLoses pagesize slot (slotValid L order c pagesize (1 - slot)) old.hdr)
    (fuel : Nat) (hf : old.view.weight ≤ fuel) :
    openFile L order pagesize fuel c = some old := by
  have hc := h.transfer L order pagesize WE W hrec hhdr k
  refine openFile_of_holds L order pagesize ov c slot old hc ?_ fuel hf
  exact openSelect_of_wins L order pagesize c slot hslot old.hdr hc.valid hc.ps hother

/-- the shape of a file between commits: a state is stored under `slot` on pages `≥ 2`, and whatever sits in the
other header slot does not verify or loses the choice -/
def Committed (ov : Nat → Nat) (s : Src) (slot : Nat) (st : Opened) : Prop :=
  Holds L order pagesize ov s slot st ∧ (∀ r ∈ st.runs ov, 2 ≤ r.1) ∧
  OtherLoses pagesize slot (slotValid L order s pagesize (1 - slot)) st.hdr

/-- sealing a record whose fields fit their widths gives one that fits: the checksum is a 64-bit value -/
theorem seal_fits (m : MetaRec) (h : m.fits L = true) : (MetaRec.seal L order m).fits L = true := by
  simp only [MetaRec.fits, Bool.and_eq_true, decide_eq_true_eq, Bool.decide_and] at h ⊢
  obtain ⟨f1, f2, f3, f4, f5, f6, f7, f8, f9, _⟩ := h
  exact ⟨f1, f2, f3, f4, f5, f6, f7, f8, f9, UInt64.toNat_lt (fnv1a (metaHashInput L order m))⟩

/-- the hypotheses on the new state of a commit: what the data writes need (fit, disjoint runs on pages ≥ 2 that
the old state does not own) and what the header needs (sealed, fits, names the view, newer transaction id) -/
structure CommitOK (ov : Nat → Nat) (s : Src) (old new : Opened) : Prop where
  fit : new.view.fits L pagesize ov s.size
  disj : (new.runs ov).Pairwise runsDisjoint
  above : ∀ r ∈ new.runs ov, 2 ≤ r.1
  sep : ∀ a ∈ old.runs ov, ∀ b ∈ new.runs ov, runsDisjoint a b
  flfile : new.hdr.freelistPage * pagesize + (new.flOverflow + 1) * pagesize ≤ s.size
  flfit : L.pgPtr + 8 * new.free.length ≤ (new.flOverflow + 1) * pagesize
  flid : new.hdr.freelistPage < 2 ^ 64
  flrun : (new.flOverflow + 1) * pagesize < 2 ^ 64
  free : ∀ x ∈ new.free, x < 2 ^ 64
  ok : ViewOK new.view
  root : new.hdr.rootPage = new.view.tree.pid
  next : new.hdr.nextInt = new.view.nextInt
  hfits : new.hdr.fits L = true
  valid : metaValid L order new.hdr = true
  ps : new.hdr.pagesize = pagesize
  newer : new.hdr.txId > old.hdr.txId
  file : 2 * pagesize ≤ s.size

/-- the data writes of a commit keep the old state's bytes -/
theorem commitData_keeps_old (hE : L.WFEnc = true) (hL : L.WFMeta = true) (hhdr : L.pageSize ≤ pagesize)
    (ov : Nat → Nat) (s : Src) (slot : Nat) (hslot : slot < 2) (old new : Opened)
    (c : CommitOK L order pagesize ov s old new) :
    KeepsState pagesize ov s (commitData L pagesize ov new s) slot old := by
  obtain ⟨_, _, hsz, hout⟩ := commitData_stores L pagesize hE hL hhdr ov new s c.fit c.disj c.flfile c.flfit c.flid
    c.flrun c.free
  exact keepsState_of_outside pagesize ov s _ slot old new hslot hsz hout c.above c.sep

/-- COMPLETED COMMIT: after the data writes and the header write into the other slot, `open` shows the new state;
the previous state is still stored under the old slot; and the new state's rival loses, i.e. the file is again of
the shape this theorem starts from -/
theorem commit_shows_new (hE : L.WFEnc = true) (hL : L.WFMeta = true) (hrec : L.pgPtr + L.metaSize ≤ pagesize)
    (hhdr : L.pageSize ≤ pagesize) (ov : Nat → Nat) (s : Src) (slot : Nat) (hslot : slot = 0 ∨ slot = 1)
    (old new : Opened) (h : Holds L order pagesize ov s slot old) (habove : ∀ r ∈ old.runs ov, 2 ≤ r.1)
    (c : CommitOK L order pagesize ov s old new) (fuel : Nat) (hf : new.view.weight ≤ fuel) :
    openFile L order pagesize fuel (commitFile L pagesize ov (1 - slot) new s) = some new ∧
    Holds L order pagesize ov (commitFile L pagesize ov (1 - slot) new s) (1 - slot) new ∧
    Holds L order pagesize ov (commitFile L pagesize ov (1 - slot) new s) slot old ∧
    OtherLoses pagesize (1 - slot)
      (slotValid L order (commitFile L pagesize ov (1 - slot) new s) pagesize (1 - (1 - slot))) new.hdr := by
  have WE := Layout.WF.of L hE
  have W := Layout.WFM.of L hL
  have hs2 : slot < 2 := by omega
  have ho2 : 1 - slot < 2 := by omega
  have hoo : 1 - (1 - slot) = slot := by omega
  obtain ⟨hst, hfl, hsz, _⟩ := commitData_stores L pagesize hE hL hhdr ov new s c.fit c.disj c.flfile c.flfit c.flid
    c.flrun c.free
  have hkeep := commitData_keeps_old L order pagesize hE hL hhdr ov s slot hs2 old new c
  have hold1 : Holds L order pagesize ov (commitData L pagesize ov new s) slot old :=
    h.transfer L order pagesize WE W hrec hhdr hkeep
  have hfile : (1 - slot) * pagesize + pagesize ≤ (commitData L pagesize ov new s).size := by
    rw [hsz]
    have := c.file
    have : (1 - slot) * pagesize ≤ 1 * pagesize := Nat.mul_le_mul_right _ (by omega)
    omega
  have hnew : Holds L order pagesize ov (commitFile L pagesize ov (1 - slot) new s) (1 - slot) new :=
    holds_of_header_write L order pagesize hL WE hrec hhdr ov _ (1 - slot) new ho2 hfile c.hfits c.valid c.ps hst c.ok
      c.root c.next hfl c.above
  have hold2 : Holds L order pagesize ov (commitFile L pagesize ov (1 - slot) new s) slot old :=
    hold1.transfer L order pagesize WE W hrec hhdr
      (keepsState_header_write L pagesize hL hrec ov _ slot (1 - slot) new.hdr old hs2 ho2 (by omega) habove)
  refine ⟨?_, hnew, hold2, ?_⟩
  · refine openFile_of_holds L order pagesize ov _ (1 - slot) new hnew ?_ fuel hf
    refine openSelect_of_wins L order pagesize _ (1 - slot) (by omega) new.hdr hnew.valid hnew.ps ?_
    rw [hoo, hold2.valid]
    refine ⟨h.ps, ?_⟩
    have := c.newer
    split <;> omega
  · rw [hoo, hold2.valid]
    refine ⟨h.ps, ?_⟩
    have := c.newer
    split <;> omega

/-- what the header write of a commit needs of the new state, however its pages got into the file (written by this
commit, or shared with the previous state and already there): runs on pages ≥ 2, a consistent view that the header
names, a sealed record that fits, a newer transaction id -/
structure HeaderOK (ov' : Nat → Nat) (s1 : Src) (old new : Opened) : Prop where
  above : ∀ r ∈ new.runs ov', 2 ≤ r.1
  ok : ViewOK new.view
  root : new.hdr.rootPage = new.view.tree.pid
  next : new.hdr.nextInt = new.view.nextInt
  hfits : new.hdr.fits L = true
  valid : metaValid L order new.hdr = true
  ps : new.hdr.pagesize = pagesize
  newer : new.hdr.txId > old.hdr.txId
  file : 2 * pagesize ≤ s1.size

/-- THE HEADER WRITE SWITCHES STATES, copy-on-write commits included: `s1` is any byte source in which the previous
state still holds under `slot` and the new state's pages are stored — no matter which of them this commit wrote and
which it shares with the previous state.  After the header write into the other slot, `open` shows exactly the new
state, the previous state is still stored under the old slot, and the new state's rival loses (the file has again
the shape the statement starts from) -/
theorem header_write_switches (hE : L.WFEnc = true) (hL : L.WFMeta = true) (hrec : L.pgPtr + L.metaSize ≤ pagesize)
    (hhdr : L.pageSize ≤ pagesize) (ov ov' : Nat → Nat) (s1 : Src) (slot : Nat) (hslot : slot = 0 ∨ slot = 1)
    (old new : Opened) (hold1 : Holds L order pagesize ov s1 slot old) (habove : ∀ r ∈ old.runs ov, 2 ≤ r.1)
    (hst : StoredV L pagesize ov' s1 new.view)
    (hfl : ∃ p, decodePage L s1 pagesize new.hdr.freelistPage = .ok p ∧ p.body = .freelist new.free ∧
      p.overflow = new.flOverflow)
    (c : HeaderOK L order pagesize ov' s1 old new) (fuel : Nat) (hf : new.view.weight ≤ fuel) :
    openFile L order pagesize fuel (writeMetaPage L pagesize (1 - slot) new.hdr s1) = some new ∧
    Holds L order pagesize ov' (writeMetaPage L pagesize (1 - slot) new.hdr s1) (1 - slot) new ∧
    Holds L order pagesize ov (writeMetaPage L pagesize (1 - slot) new.hdr s1) slot old ∧
    OtherLoses pagesize (1 - slot)
      (slotValid L order (writeMetaPage L pagesize (1 - slot) new.hdr s1) pagesize (1 - (1 - slot))) new.hdr := by
  have WE := Layout.WF.of L hE
  have W := Layout.WFM.of L hL
  have hs2 : slot < 2 := by omega
  have ho2 : 1 - slot < 2 := by omega
  have hoo : 1 - (1 - slot) = slot := by omega
  have hfile : (1 - slot) * pagesize + pagesize ≤ s1.size := by
    have := c.file
    have : (1 - slot) * pagesize ≤ 1 * pagesize := Nat.mul_le_mul_right _ (by omega)
    omega
  have hnew : Holds L order pagesize ov' (writeMetaPage L pagesize (1 - slot) new.hdr s1) (1 - slot) new :=
    holds_of_header_write L order pagesize hL WE hrec hhdr ov' _ (1 - slot) new ho2 hfile c.hfits c.valid c.ps hst c.ok
      c.root c.next hfl c.above
  have hold2 : Holds L order pagesize ov (writeMetaPage L pagesize (1 - slot) new.hdr s1) slot old :=
    hold1.transfer L order pagesize WE W hrec hhdr
      (keepsState_header_write L pagesize hL hrec ov _ slot (1 - slot) new.hdr old hs2 ho2 (by omega) habove)
  refine ⟨?_, hnew, hold2, ?_⟩
  · refine openFile_of_holds L order pagesize ov' _ (1 - slot) new hnew ?_ fuel hf
    refine openSelect_of_wins L order pagesize _ (1 - slot) (by omega) new.hdr hnew.valid hnew.ps ?_
    rw [hoo, hold2.valid]
    refine ⟨hold1.ps, ?_⟩
    have := c.newer
    split <;> omega
  · rw [hoo, hold2.valid]
    refine ⟨hold1.ps, ?_⟩
    have := c.newer
    split <;> omega

/-- A HEADER WRITE THAT DID NOT COMPLETE (short write, write error after some bytes reached the file, torn page):
`d` is any byte source that differs from `s1` at most inside the new header page.  If what that page now holds
either does not verify or verifies as exactly the new record (the premise a checksum cannot give unconditionally:
no mix of old and new header bytes verifies as something else — evaluated on every tear / short write the run
synthesises), `open` shows exactly the previous or exactly the new state -/
theorem incomplete_header_write_old_or_new (hE : L.WFEnc = true) (hL : L.WFMeta = true)
    (hrec : L.pgPtr + L.metaSize ≤ pagesize) (hhdr : L.pageSize ≤ pagesize) (ov ov' : Nat → Nat) (s1 d : Src)
    (slot : Nat) (hslot : slot = 0 ∨ slot = 1) (old new : Opened)
    (hold1 : Holds L order pagesize ov s1 slot old) (habove : ∀ r ∈ old.runs ov, 2 ≤ r.1)
    (hst : StoredV L pagesize ov' s1 new.view)
    (hfl : ∃ p, decodePage L s1 pagesize new.hdr.freelistPage = .ok p ∧ p.body = .freelist new.free ∧
      p.overflow = new.flOverflow)
    (c : HeaderOK L order pagesize ov' s1 old new)
    (hsz : d.size = s1.size)
    (hout : ∀ i, i < (1 - slot) * pagesize ∨ (1 - slot) * pagesize + pagesize ≤ i → d.get i = s1.get i)
    (hno : slotValid L order d pagesize (1 - slot) = none ∨ slotValid L order d pagesize (1 - slot) = some new.hdr)
    (fuel : Nat) (hfo : old.view.weight ≤ fuel) (hfn : new.view.weight ≤ fuel) :
    openFile L order pagesize fuel d = some old ∨ openFile L order pagesize fuel d = some new := by
  have WE := Layout.WF.of L hE
  have W := Layout.WFM.of L hL
  have hs2 : slot < 2 := by omega
  have hoo : 1 - (1 - slot) = slot := by omega
  -- bytes of a run on pages ≥ 2, and of the old header page, are outside the new header page
  have hrun : ∀ r : Nat × Nat, 2 ≤ r.1 → Src.AgreeOn s1 d (r.1 * pagesize) ((r.1 + r.2 + 1) * pagesize) := by
    intro r hr i h1 _
    apply hout
    right
    have : 2 * pagesize ≤ r.1 * pagesize := Nat.mul_le_mul_right _ hr
    have : (1 - slot) * pagesize ≤ 1 * pagesize := Nat.mul_le_mul_right _ (by omega)
    omega
  have hpage : Src.AgreeOn s1 d (slot * pagesize) (slot * pagesize + pagesize) := by
    intro i h1 h2
    apply hout
    rcases hslot with rfl | rfl
    · left; simp only [Nat.zero_mul, Nat.zero_add, Nat.sub_zero, Nat.one_mul] at h1 h2 ⊢; exact h2
    · right; simp only [Nat.one_mul, Nat.sub_self, Nat.zero_mul, Nat.zero_add] at h1 h2 ⊢; exact h1
  have hkeep : KeepsState pagesize ov s1 d slot old := ⟨hsz, hpage, fun r hr => hrun r (habove r hr)⟩
  have holdd : Holds L order pagesize ov d slot old := hold1.transfer L order pagesize WE W hrec hhdr hkeep
  rcases hno with e | e
  · left
    refine openFile_of_holds L order pagesize ov d slot old holdd ?_ fuel hfo
    refine openSelect_of_wins L order pagesize d slot hslot old.hdr holdd.valid holdd.ps ?_
    rw [e]; trivial
  · right
    obtain ⟨p, hp, hb, hov⟩ := hfl
    have hnew : Holds L order pagesize ov' d (1 - slot) new := by
      refine ⟨e, c.ps, ?_, c.ok, c.root, c.next, ⟨p, ?_, hb, hov⟩⟩
      · exact StoredV.agree L pagesize WE hhdr ov' s1 new.view d hsz hst
          (fun r hr => hrun r (c.above r (List.mem_cons_of_mem _ hr)))
      · refine decodePage_agree L WE s1 d pagesize _ p hhdr hsz hp (by intro m hm; rw [hb] at hm; cases hm) ?_
        have h2 := hrun (new.hdr.freelistPage, new.flOverflow) (c.above _ List.mem_cons_self)
        rw [hov]
        simpa [run_bytes] using h2
    refine openFile_of_holds L order pagesize ov' d (1 - slot) new hnew ?_ fuel hfn
    refine openSelect_of_wins L order pagesize d (1 - slot) (by omega) new.hdr e c.ps ?_
    rw [hoo, holdd.valid]
    refine ⟨hold1.ps, ?_⟩
    have := c.newer
    split <;> omega

/-- a committed file opens as the state it holds -/
theorem committed_opens (ov : Nat → Nat) (s : Src) (slot : Nat) (hslot : slot = 0 ∨ slot = 1) (st : Opened)
    (h : Committed L order pagesize ov s slot st) (fuel : Nat) (hf : st.view.weight ≤ fuel) :
    openFile L order pagesize fuel s = some st :=
  openFile_of_holds L order pagesize ov s slot st h.1
    (openSelect_of_wins L order pagesize s slot hslot st.hdr h.1.valid h.1.ps h.2.2) fuel hf

/-- the files reachable from a file `(s, slot, st, ov)` by ANY NUMBER of completed copy-on-write commits: each step
takes the current file to some `s1` that keeps the current state's bytes and stores the next state's pages (its data
writes, whatever they are), then writes the next header into the other slot -/
inductive Commits : Src → Nat → Opened → (Nat → Nat) → Src → Nat → Opened → (Nat → Nat) → Prop where
  | refl (s : Src) (slot : Nat) (st : Opened) (ov : Nat → Nat) : Commits s slot st ov s slot st ov
  | step {s : Src} {slot : Nat} {st : Opened} {ov : Nat → Nat} {s' : Src} {slot' : Nat} {st' : Opened}
      {ov' : Nat → Nat} (s1 : Src) (new : Opened) (ov'' : Nat → Nat) :
      Commits s slot st ov s' slot' st' ov' →
      KeepsState pagesize ov' s' s1 slot' st' →
      StoredV L pagesize ov'' s1 new.view →
      (∃ p, decodePage L s1 pagesize new.hdr.freelistPage = .ok p ∧ p.body = .freelist new.free ∧
        p.overflow = new.flOverflow) →
      HeaderOK L order pagesize ov'' s1 st' new →
      Commits s slot st ov (writeMetaPage L pagesize (1 - slot') new.hdr s1) (1 - slot') new ov''

/-- ALONG EVERY HISTORY OF COMMITS the file stays committed and opens as exactly the state of the last commit -/
theorem commits_stay_committed (hE : L.WFEnc = true) (hL : L.WFMeta = true) (hrec : L.pgPtr + L.metaSize ≤ pagesize)
    (hhdr : L.pageSize ≤ pagesize) {s : Src} {slot : Nat} {st : Opened} {ov : Nat → Nat} {s' : Src} {slot' : Nat}
    {st' : Opened} {ov' : Nat → Nat} (hslot : slot = 0 ∨ slot = 1)
    (h0 : Committed L order pagesize ov s slot st)
    (hc : Commits L order pagesize s slot st ov s' slot' st' ov') :
    (slot' = 0 ∨ slot' = 1) ∧ Committed L order pagesize ov' s' slot' st' ∧
    ∀ fuel, st'.view.weight ≤ fuel → openFile L order pagesize fuel s' = some st' := by
  induction hc with
  | refl => exact ⟨hslot, h0, fun fuel hf => committed_opens L order pagesize _ _ _ hslot _ h0 fuel hf⟩
  | step s1 new ov'' _ hk hst hfl hh ih =>
    obtain ⟨hs', hcom, _⟩ := ih
    have hold1 := hcom.1.transfer L order pagesize (Layout.WF.of L hE) (Layout.WFM.of L hL) hrec hhdr hk
    obtain ⟨_, h2, _, h4⟩ := header_write_switches L order pagesize hE hL hrec hhdr _ ov'' s1 _ hs' _ new hold1
      hcom.2.1 hst hfl hh new.view.weight (Nat.le_refl _)
    refine ⟨by omega, ⟨h2, hh.above, h4⟩, fun fuel hf => ?_⟩
    exact committed_opens L order pagesize _ _ _ (by omega) _ ⟨h2, hh.above, h4⟩ fuel hf

end
end Jamm
