/-
Layer T: the order-free prediction of the overlay equals the tree obtained by applying the transaction's
edits one by one.

Route of the proofs: leaf edits keep the branch structure (`emptied_put`, `emptied_del`); the emptied
tree of a well-formed tree is well-formed (`wf_emptied`); a well-formed tree is determined by its
branch structure and its contents (`wf_unique`); putting a strictly ascending list into the empty list
one by one rebuilds it (`foldl_insert_sorted`).
-/
import Jamm.Model.Overlay
import Jamm.Proofs.TxLemmas
set_option linter.unusedSectionVars false
open Std

namespace Jamm

/-! ### structure only: no order on the keys -/

section structure_only
variable {K E : Type}

mutual
theorem Tree.emptied_emptied : (t : Tree K E) → t.emptied.emptied = t.emptied
  | .leaf p es => by simp only [Tree.emptied]
  | .branch p kids => by simp only [Tree.emptied, Forest.emptied_emptied kids]
theorem Forest.emptied_emptied : (f : Forest K E) → f.emptied.emptied = f.emptied
  | .nil => by simp only [Forest.emptied]
  | .cons k t rest => by
    simp only [Forest.emptied, Tree.emptied_emptied t, Forest.emptied_emptied rest]
end

/-- two lists split by the same predicate at the same place -/
theorem append_partition {α : Type} (p : α → Bool) :
    ∀ (l₁ m₁ l₂ m₂ : List α), (∀ a ∈ l₁, p a = true) → (∀ a ∈ m₁, p a = true) →
      (∀ a ∈ l₂, p a = false) → (∀ a ∈ m₂, p a = false) →
      l₁ ++ l₂ = m₁ ++ m₂ → l₁ = m₁ ∧ l₂ = m₂
  | [], [], _, _, _, _, _, _, h => ⟨rfl, h⟩
  | [], b :: m₁, l₂, m₂, _, hm₁, hl₂, _, h => by
    exfalso
    have hb : b ∈ l₂ := by
      have : l₂ = b :: (m₁ ++ m₂) := h
      rw [this]; exact List.mem_cons_self
    have h1 := hm₁ b List.mem_cons_self
    rw [hl₂ b hb] at h1
    exact Bool.false_ne_true h1
  | a :: l₁, [], l₂, m₂, hl₁, _, _, hm₂, h => by
    exfalso
    have ha : a ∈ m₂ := by
      have : a :: (l₁ ++ l₂) = m₂ := h
      rw [← this]; exact List.mem_cons_self
    have h1 := hl₁ a List.mem_cons_self
    rw [hm₂ a ha] at h1
    exact Bool.false_ne_true h1
  | a :: l₁, b :: m₁, l₂, m₂, hl₁, hm₁, hl₂, hm₂, h => by
    have h' : a :: (l₁ ++ l₂) = b :: (m₁ ++ m₂) := h
    injection h' with hab htl
    have ih := append_partition p l₁ m₁ l₂ m₂ (fun x hx => hl₁ x (List.mem_cons_of_mem _ hx))
      (fun x hx => hm₁ x (List.mem_cons_of_mem _ hx)) hl₂ hm₂ htl
    exact ⟨by rw [hab, ih.1], ih.2⟩

end structure_only

variable {K E : Type} [Ord K] [TransOrd K] [LawfulEqOrd K] [DecidableEq K]

/-! ### O1 -/

mutual
theorem Tree.emptied_put' (key : K) (e : E) : (t : Tree K E) → (t.put key e).emptied = t.emptied
  | .leaf p es => by simp only [Tree.put, Tree.emptied]
  | .branch p kids => by simp only [Tree.put, Tree.emptied, Forest.emptied_putAt key e kids]
theorem Forest.emptied_putAt (key : K) (e : E) :
    (f : Forest K E) → (i : Nat) → (Forest.putAt key e f i).emptied = f.emptied
  | .nil, _ => by simp only [Forest.putAt]
  | .cons k t rest, 0 => by simp only [Forest.putAt, Forest.emptied, Tree.emptied_put' key e t]
  | .cons k t rest, i + 1 => by
    simp only [Forest.putAt, Forest.emptied, Forest.emptied_putAt key e rest i]
end

mutual
theorem Tree.emptied_del' (key : K) : (t : Tree K E) → (t.del key).emptied = t.emptied
  | .leaf p es => by simp only [Tree.del, Tree.emptied]
  | .branch p kids => by simp only [Tree.del, Tree.emptied, Forest.emptied_delAt key kids]
theorem Forest.emptied_delAt (key : K) :
    (f : Forest K E) → (i : Nat) → (Forest.delAt key f i).emptied = f.emptied
  | .nil, _ => by simp only [Forest.delAt]
  | .cons k t rest, 0 => by simp only [Forest.delAt, Forest.emptied, Tree.emptied_del' key t]
  | .cons k t rest, i + 1 => by
    simp only [Forest.delAt, Forest.emptied, Forest.emptied_delAt key rest i]
end

/-- O1: leaf edits do not change the branch structure -/
theorem emptied_put (t : Tree K E) (key : K) (e : E) : (t.put key e).emptied = t.emptied :=
  Tree.emptied_put' key e t

theorem emptied_del (t : Tree K E) (key : K) : (t.del key).emptied = t.emptied :=
  Tree.emptied_del' key t

theorem emptied_applyOp (t : Tree K E) (op : TxOp K E) : (t.applyOp op).emptied = t.emptied := by
  cases op with
  | put k e => exact emptied_put t k e
  | del k => exact emptied_del t k

theorem emptied_applyOps (ops : List (TxOp K E)) (t : Tree K E) :
    (ops.foldl Tree.applyOp t).emptied = t.emptied := by
  induction ops generalizing t with
  | nil => rfl
  | cons op rest ih =>
    simp only [List.foldl_cons]
    rw [ih, emptied_applyOp]

/-! ### the emptied tree is well-formed -/

theorem wf_emptied_aux :
    (∀ (lo hi : Option K) (t : Tree K E), WF lo hi t → WF lo hi t.emptied) ∧
    (∀ (lo hi : Option K) (k : K) (t : Tree K E) (rest : Forest K E), WFF lo hi k t rest →
      WFF lo hi k t.emptied rest.emptied) := by
  apply wf_induct
  · intro lo hi p es _ _
    simp only [Tree.emptied]
    exact WF.leaf _ _ _ _ trivial (fun e he => nomatch he)
  · intro lo hi p k t rest _ ih
    simp only [Tree.emptied, Forest.emptied]
    exact WF.branch _ _ _ _ _ _ ih
  · intro lo hi k t _ ih
    simp only [Forest.emptied]
    exact WFF.last _ _ _ _ ih
  · intro lo hi k t k' t' rest hk hlo' hhi' _ _ iht ihr
    simp only [Forest.emptied]
    exact WFF.cons _ _ _ _ _ _ _ hk hlo' hhi' iht ihr

theorem wf_emptied (lo hi : Option K) (t : Tree K E) (h : WF lo hi t) : WF lo hi t.emptied :=
  wf_emptied_aux.1 lo hi t h

/-! ### a well-formed tree is determined by its branch structure and its contents -/

theorem wf_unique_aux :
    (∀ (lo hi : Option K) (t : Tree K E), WF lo hi t →
      ∀ s : Tree K E, WF lo hi s → s.emptied = t.emptied → s.flatten = t.flatten → s = t) ∧
    (∀ (lo hi : Option K) (k : K) (t : Tree K E) (rest : Forest K E), WFF lo hi k t rest →
      ∀ (t₂ : Tree K E) (rest₂ : Forest K E), WFF lo hi k t₂ rest₂ →
        t₂.emptied = t.emptied → rest₂.emptied = rest.emptied →
        Tree.flattenF (.cons k t₂ rest₂) = Tree.flattenF (.cons k t rest) →
        t₂ = t ∧ rest₂ = rest) := by
  apply wf_induct
  · intro lo hi p es _ _ s _ he hf
    cases s with
    | leaf p' es' =>
      simp only [Tree.emptied] at he
      simp only [Tree.flatten] at hf
      injection he with hp _
      rw [hp, hf]
    | branch p' kids =>
      simp only [Tree.emptied] at he
      cases he
  · intro lo hi p k t rest _ ih s hws he hf
    cases s with
    | leaf p' es' =>
      simp only [Tree.emptied] at he
      cases he
    | branch p' kids =>
      simp only [Tree.emptied] at he
      injection he with hp hk
      cases kids with
      | nil =>
        simp only [Forest.emptied] at hk
        cases hk
      | cons k₂ t₂ rest₂ =>
        simp only [Forest.emptied] at hk
        injection hk with hk1 ht hr
        subst hk1
        subst hp
        cases hws with
        | branch _ _ _ _ _ _ hwff =>
          rw [flatten_branch, flatten_branch] at hf
          obtain ⟨h1, h2⟩ := ih t₂ rest₂ hwff ht hr hf
          rw [h1, h2]
  · intro lo hi k t _ ih t₂ rest₂ hw₂ ht hr hf
    cases rest₂ with
    | cons k₃ t₃ rest₃ =>
      simp only [Forest.emptied] at hr
      cases hr
    | nil =>
      cases hw₂ with
      | last _ _ _ _ hwt₂ =>
        rw [flattenF_cons, flattenF_cons, flattenF_nil, List.append_nil, List.append_nil] at hf
        exact ⟨ih t₂ hwt₂ ht hf, rfl⟩
  · intro lo hi k t k' t' rest _ _ _ hwt hwr iht ihr t₂ rest₂ hw₂ ht hr hf
    cases rest₂ with
    | nil =>
      simp only [Forest.emptied] at hr
      cases hr
    | cons k₃ t₃ rest₃ =>
      simp only [Forest.emptied] at hr
      injection hr with hk3 ht3 hr3
      subst hk3
      cases hw₂ with
      | cons _ _ _ _ _ _ _ _ _ _ hwt₂ hwr₂ =>
        rw [flattenF_cons k t₂, flattenF_cons k t] at hf
        have hsplit := append_partition (fun x : K × E => klt x.1 k₃)
          t₂.flatten t.flatten (Tree.flattenF (.cons k₃ t₃ rest₃)) (Tree.flattenF (.cons k₃ t' rest))
          (fun a ha => ((flatten_sorted _ _ _ hwt₂).2 a ha).2)
          (fun a ha => ((flatten_sorted _ _ _ hwt).2 a ha).2)
          (fun a ha => by
            have h2 : kle k₃ a.1 = true := ((flattenF_sorted _ _ _ _ _ hwr₂).2 a ha).1
            rw [kle_iff_not_lt] at h2
            simpa using h2)
          (fun a ha => by
            have h2 : kle k₃ a.1 = true := ((flattenF_sorted _ _ _ _ _ hwr).2 a ha).1
            rw [kle_iff_not_lt] at h2
            simpa using h2)
          hf
        have h1 := iht t₂ hwt₂ ht hsplit.1
        obtain ⟨h2, h3⟩ := ihr t₃ rest₃ hwr₂ ht3 hr3 hsplit.2
        rw [h1, h2, h3]
        exact ⟨rfl, rfl⟩

/-- a well-formed tree is determined by its branch structure and its contents -/
theorem wf_unique (lo hi : Option K) (s t : Tree K E) (hs : WF lo hi s) (ht : WF lo hi t)
    (he : s.emptied = t.emptied) (hf : s.flatten = t.flatten) : s = t :=
  wf_unique_aux.1 lo hi t ht s hs he hf

/-! ### putting a strictly ascending list back one by one -/

theorem sorted_append_lt {α : Type} {l₁ l₂ : List (K × α)} (h : Spec.Sorted (l₁ ++ l₂)) :
    ∀ a ∈ l₁, ∀ b ∈ l₂, klt a.1 b.1 = true := by
  induction l₁ with
  | nil => intro a ha; exact nomatch ha
  | cons hd tl ih =>
    obtain ⟨k, x⟩ := hd
    rw [List.cons_append, Spec.sorted_cons] at h
    intro a ha b hb
    rcases List.mem_cons.mp ha with rfl | ha
    · exact h.1 b (List.mem_append_right _ hb)
    · exact ih h.2 a ha b hb

theorem foldl_insert_sorted {α : Type} (rest acc : List (K × α)) (h : Spec.Sorted (acc ++ rest)) :
    rest.foldl (fun a x => Spec.insert x.1 x.2 a) acc = acc ++ rest := by
  induction rest generalizing acc with
  | nil => simp only [List.foldl_nil, List.append_nil]
  | cons hd tl ih =>
    obtain ⟨k, x⟩ := hd
    have hlt : ∀ e ∈ acc, klt e.1 k = true :=
      fun e he => sorted_append_lt h e he (k, x) List.mem_cons_self
    have hins : Spec.insert k x acc = acc ++ [(k, x)] := by
      have := Spec.insert_append_of_lt (x := x) (l₂ := []) hlt
      rw [List.append_nil] at this
      rw [this]
      rfl
    have h' : Spec.Sorted ((acc ++ [(k, x)]) ++ tl) := by
      rw [List.append_assoc]
      exact h
    simp only [List.foldl_cons]
    rw [hins, ih _ h', List.append_assoc]
    rfl

/-- putting items one by one: contents, well-formedness, structure -/
theorem foldl_put_spec (items : List (K × E)) (t : Tree K E) (h : WF none none t) :
    (items.foldl (fun acc x => acc.put x.1 x.2) t).flatten =
        items.foldl (fun a x => Spec.insert x.1 x.2 a) t.flatten ∧
      WF none none (items.foldl (fun acc x => acc.put x.1 x.2) t) ∧
      (items.foldl (fun acc x => acc.put x.1 x.2) t).emptied = t.emptied := by
  induction items generalizing t with
  | nil => exact ⟨rfl, h, rfl⟩
  | cons hd tl ih =>
    have h1 := put_spec none none t h hd.1 hd.2 trivial trivial
    obtain ⟨h2, h3, h4⟩ := ih (t.put hd.1 hd.2) h1.2
    simp only [List.foldl_cons]
    refine ⟨?_, h3, ?_⟩
    · rw [h2, h1.1]
    · rw [h4, emptied_put]

theorem flatten_emptied_aux :
    (∀ t : Tree K E, t.emptied.flatten = []) ∧ (∀ f : Forest K E, Tree.flattenF f.emptied = []) := by
  refine ⟨fun t => ?_, fun f => ?_⟩
  · exact Tree.rec (motive_1 := fun t => t.emptied.flatten = [])
      (motive_2 := fun f => Tree.flattenF f.emptied = [])
      (fun p es => by simp only [Tree.emptied, Tree.flatten])
      (fun p kids ih => by simp only [Tree.emptied, Tree.flatten]; exact ih)
      (by simp only [Forest.emptied, Tree.flattenF])
      (fun k t rest iht ihr => by
        simp only [Forest.emptied, Tree.flattenF, iht, ihr, List.append_nil]) t
  · exact Forest.rec (motive_1 := fun t => t.emptied.flatten = [])
      (motive_2 := fun f => Tree.flattenF f.emptied = [])
      (fun p es => by simp only [Tree.emptied, Tree.flatten])
      (fun p kids ih => by simp only [Tree.emptied, Tree.flatten]; exact ih)
      (by simp only [Forest.emptied, Tree.flattenF])
      (fun k t rest iht ihr => by
        simp only [Forest.emptied, Tree.flattenF, iht, ihr, List.append_nil]) f

theorem flatten_emptied (t : Tree K E) : t.emptied.flatten = [] := flatten_emptied_aux.1 t

/-- refilling with the contents of any well-formed tree of the same structure rebuilds that tree -/
theorem refill_of_same_structure (t r : Tree K E) (hr : WF none none r)
    (he : r.emptied = t.emptied) : t.refill r.flatten = r := by
  unfold Tree.refill
  rw [← he]
  obtain ⟨h1, h2, h3⟩ := foldl_put_spec r.flatten r.emptied (wf_emptied none none r hr)
  apply wf_unique none none _ _ h2 hr
  · rw [h3, Tree.emptied_emptied]
  · rw [h1, flatten_emptied]
    have hs : Spec.Sorted ([] ++ r.flatten) := (flatten_sorted none none r hr).1
    exact foldl_insert_sorted r.flatten [] hs

/-- O2: a well-formed tree is rebuilt exactly by putting its contents back into its emptied structure -/
theorem refill_flatten (t : Tree K E) (h : WF none none t) : t.refill t.flatten = t :=
  refill_of_same_structure t t h rfl

/-- O3: for every sequence of edits, the overlay predicted from the committed tree and the final contents
is the tree the edits produce one by one -/
theorem refill_eq_edits (t0 : Tree K E) (h : WF none none t0) (ops : List (TxOp K E)) :
    t0.refill (ops.foldl Tree.applyOp t0).flatten = ops.foldl Tree.applyOp t0 :=
  refill_of_same_structure t0 _ (applyOps_spec t0 h ops).2 (emptied_applyOps ops t0)

end Jamm
