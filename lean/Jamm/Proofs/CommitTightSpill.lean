/-
Layer C proofs, part 4b: list facts about `cutAt` / `splitIndexes` / `spillT` used by the tightness and
termination theorems of `CommitTightLemmas.lean`.
-/
import Jamm.Model.Commit
import Jamm.Proofs.CommitBasic
import Jamm.Proofs.SplitLemmas
set_option linter.unusedSectionVars false
open Std

namespace Jamm

/-! ### `cutAt` -/

theorem splitIndexes_pos (p : Params) (pagesize hdr elemHdr : Nat) (sizes : List Nat) :
    ∀ i ∈ splitIndexes p pagesize hdr elemHdr sizes, 0 < i := by
  intro i hi
  unfold splitIndexes at hi
  split at hi
  · cases hi
  · have := (splitScan_inv p hdr elemHdr (pagesize * p.fillNum / p.fillDen)
      (sizes.take (sizes.length - 2)) 0 hdr 0).1 i hi
    omega

theorem cutAt_ne_nil {α : Type} (l : List α) (idx : List Nat) (off : Nat) : cutAt l idx off ≠ [] := by
  cases idx <;> simp [cutAt]

theorem cutAt_nil {α : Type} (idx : List Nat) (off : Nat) :
    ∀ c ∈ cutAt ([] : List α) idx off, c = [] := by
  intro c hc
  have h := cutAt_flatten' ([] : List α) idx off
  rw [List.flatten_eq_nil_iff] at h
  exact h c hc

/-- the first chunk starts with the first element; every other element of every chunk comes from the
tail -/
theorem cutAt_head {α : Type} (a : α) (l' : List α) (idx : List Nat) (hpos : ∀ i ∈ idx, 0 < i) :
    ∃ r cs, cutAt (a :: l') idx 0 = (a :: r) :: cs ∧ (∀ q ∈ r, q ∈ l') ∧ ∀ c ∈ cs, ∀ q ∈ c, q ∈ l' := by
  cases idx with
  | nil =>
    refine ⟨l', [], by simp [cutAt], fun q hq => hq, ?_⟩
    intro c hc; cases hc
  | cons i rest =>
    have hi : 0 < i := hpos i List.mem_cons_self
    obtain ⟨j, rfl⟩ : ∃ j, i = j + 1 := ⟨i - 1, by omega⟩
    refine ⟨l'.take j, cutAt (l'.drop j) rest (j + 1), by simp [cutAt], ?_, ?_⟩
    · intro q hq; exact List.mem_of_mem_take hq
    · intro c hc q hq
      have hfl := cutAt_flatten' (l'.drop j) rest (j + 1)
      have : q ∈ (cutAt (l'.drop j) rest (j + 1)).flatten := List.mem_flatten.2 ⟨c, hc, hq⟩
      rw [hfl] at this
      exact List.mem_of_mem_drop this

theorem flatten_length_ge {α : Type} (cs : List (List α)) (h : ∀ c ∈ cs, 2 ≤ c.length) :
    2 * cs.length ≤ cs.flatten.length := by
  induction cs with
  | nil => simp
  | cons c rest ih =>
    have h1 := h c List.mem_cons_self
    have h2 := ih (fun c' hc' => h c' (List.mem_cons_of_mem _ hc'))
    simp only [List.length_cons, List.flatten_cons, List.length_append]
    omega

/-- the number of chunks `Node::split` cuts a list of at least two entries into is smaller than the
number of entries -/
theorem split_chunks_count {α : Type} (p : Params) (hp : p.Valid) (h2 : 2 ≤ p.minKeysPerNode)
    (pagesize hdr elemHdr : Nat) (sizes : List Nat) (es : List α) (hl : es.length = sizes.length)
    (hes : 2 ≤ es.length) :
    (cutAt es (splitIndexes p pagesize hdr elemHdr sizes) 0).length + 1 ≤ es.length := by
  by_cases hne : splitIndexes p pagesize hdr elemHdr sizes = []
  · rw [hne]
    simp only [cutAt, List.length_singleton]
    omega
  · have hc := split_chunks_nonempty p hp pagesize hdr elemHdr sizes es hl
    have := flatten_length_ge (cutAt es (splitIndexes p pagesize hdr elemHdr sizes) 0)
      (fun c hcm => by have := hc c hcm hne; omega)
    rw [cutAt_flatten'] at this
    omega

/-! ### the pieces of `spillT` -/

section
variable {E : Type} (p : Params) (pagesize hdr leafHdr branchHdr : Nat) (esz : Bytes × E → Nat)

theorem nodeMat_zero : nodeMat 0 = false := by decide
theorem nodeMat_one : nodeMat 1 = true := by decide

/-- a node the transaction has not materialised is kept as it is -/
theorem spillT_unmat_eq (key : Bytes) (t : Tree Bytes E) (h : nodeMat t.pid = false) :
    spillT p pagesize hdr leafHdr branchHdr esz key t = [(key, t)] := by
  cases t with
  | leaf pid es =>
    simp only [Tree.pid] at h
    simp [spillT, h]
  | branch pid kids =>
    simp only [Tree.pid] at h
    simp [spillT, h]

theorem spillT_ne_nil (key : Bytes) (t : Tree Bytes E) :
    spillT p pagesize hdr leafHdr branchHdr esz key t ≠ [] := by
  cases t with
  | leaf pid es =>
    simp only [spillT]
    split
    · simp
    · simp [cutAt_ne_nil]
  | branch pid kids =>
    simp only [spillT]
    split
    · simp
    · simp [cutAt_ne_nil]

/-- every piece is a node that is not materialised any more -/
theorem spillT_pieces_unmat (key : Bytes) (t : Tree Bytes E) :
    ∀ q ∈ spillT p pagesize hdr leafHdr branchHdr esz key t, nodeMat q.2.pid = false := by
  intro q hq
  cases t with
  | leaf pid es =>
    simp only [spillT] at hq
    split at hq
    · rename_i hm
      simp only [List.mem_singleton] at hq
      subst hq
      simpa [Tree.pid] using hm
    · simp only [List.mem_map] at hq
      obtain ⟨c, _, rfl⟩ := hq
      exact nodeMat_zero
  | branch pid kids =>
    simp only [spillT] at hq
    split at hq
    · rename_i hm
      simp only [List.mem_singleton] at hq
      subst hq
      simpa [Tree.pid] using hm
    · simp only [List.mem_map] at hq
      obtain ⟨c, _, rfl⟩ := hq
      exact nodeMat_zero

theorem spillF_ofList (l : List (Bytes × Tree Bytes E)) (h : ∀ q ∈ l, nodeMat q.2.pid = false) :
    spillF p pagesize hdr leafHdr branchHdr esz (Forest.ofList l) = l := by
  induction l with
  | nil => simp [Forest.ofList, spillF]
  | cons a rest ih =>
    obtain ⟨k, t⟩ := a
    simp only [Forest.ofList, spillF]
    rw [spillT_unmat_eq p pagesize hdr leafHdr branchHdr esz k t (h (k, t) List.mem_cons_self),
      ih (fun q hq => h q (List.mem_cons_of_mem _ hq))]
    rfl

/-- a new root above at least two written pieces is written as fewer pieces -/
theorem spillT_newRoot_length (hp : p.Valid) (h2 : 2 ≤ p.minKeysPerNode) (key : Bytes)
    (many : List (Bytes × Tree Bytes E)) (h : ∀ q ∈ many, nodeMat q.2.pid = false)
    (hlen : 2 ≤ many.length) :
    (spillT p pagesize hdr leafHdr branchHdr esz key (.branch 1 (Forest.ofList many))).length + 1 ≤
      many.length := by
  simp only [spillT, nodeMat_one, Bool.not_true, Bool.false_eq_true, if_false, List.length_map]
  rw [spillF_ofList p pagesize hdr leafHdr branchHdr esz many h]
  exact split_chunks_count p hp h2 pagesize hdr branchHdr _ many (by simp) hlen

end
end Jamm
