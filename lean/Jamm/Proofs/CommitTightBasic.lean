/-
Layer C proofs, part 4a: tools for tightness (`TightT` / `TightMT`): joint induction, weakening of the
lower bound to `none`, full tightness implies `TightMT`, merging two adjacent nodes, the effect of
`Forest.mergeChild` on the entry list of a materialised branch, and lifting through `atBranch`.
-/
import Jamm.Model.CommitTight
import Jamm.Proofs.CommitSepBasic
import Jamm.Proofs.CommitSepDefs
set_option linter.unusedSectionVars false
open Std

namespace Jamm

section defs
variable {K E : Type} [Ord K]

/-- joint induction over `TightT` / `TightF` derivations -/
theorem tight_induct {P : Option K → Tree K E → Prop}
    {Q : Option K → K → Tree K E → Forest K E → Prop}
    (leaf : ∀ lo p es, P lo (.leaf p es))
    (emptyBranch : ∀ lo p, P lo (.branch p .nil))
    (branch : ∀ lo p k t rest, tightKey lo k → TightF (sepLo lo k) k t rest →
      Q (sepLo lo k) k t rest → P lo (.branch p (.cons k t rest)))
    (last : ∀ lo k t, TightT lo t → P lo t → Q lo k t .nil)
    (cons : ∀ lo k t k' t' rest, TightT lo t → TightF (some k') k' t' rest →
      P lo t → Q (some k') k' t' rest → Q lo k t (.cons k' t' rest)) :
    (∀ lo t, TightT lo t → P lo t) ∧ (∀ lo k t rest, TightF lo k t rest → Q lo k t rest) :=
  ⟨fun _ _ h => TightT.rec (motive_1 := fun lo t _ => P lo t)
      (motive_2 := fun lo k t rest _ => Q lo k t rest) leaf emptyBranch branch last cons h,
   fun _ _ _ _ h => TightF.rec (motive_1 := fun lo t _ => P lo t)
      (motive_2 := fun lo k t rest _ => Q lo k t rest) leaf emptyBranch branch last cons h⟩

/-- joint induction over `TightMT` / `TightMF` derivations -/
theorem tightM_induct {P : Option K → Tree K E → Prop}
    {Q : Option K → K → Tree K E → Forest K E → Prop}
    (leaf : ∀ lo p es, P lo (.leaf p es))
    (unmat : ∀ lo p kids, nodeMat p = false → TightT lo (.branch p kids) → P lo (.branch p kids))
    (emptyBranch : ∀ lo p, P lo (.branch p .nil))
    (branch : ∀ lo p k t rest, nodeMat p = true → TightMF (sepLo lo k) k t rest →
      Q (sepLo lo k) k t rest → P lo (.branch p (.cons k t rest)))
    (last : ∀ lo k t, TightMT lo t → P lo t → Q lo k t .nil)
    (cons : ∀ lo k t k' t' rest, TightMT lo t → TightMF (some k') k' t' rest →
      P lo t → Q (some k') k' t' rest → Q lo k t (.cons k' t' rest)) :
    (∀ lo t, TightMT lo t → P lo t) ∧ (∀ lo k t rest, TightMF lo k t rest → Q lo k t rest) :=
  ⟨fun _ _ h => TightMT.rec (motive_1 := fun lo t _ => P lo t)
      (motive_2 := fun lo k t rest _ => Q lo k t rest) leaf unmat emptyBranch branch last cons h,
   fun _ _ _ _ h => TightMF.rec (motive_1 := fun lo t _ => P lo t)
      (motive_2 := fun lo k t rest _ => Q lo k t rest) leaf unmat emptyBranch branch last cons h⟩

/-- `TightMF` stated on a whole entry list -/
def TightMForest (lo : Option K) : Forest K E → Prop
  | .nil => False
  | .cons k t rest => TightMF lo k t rest

theorem sepLo_sepLo (lo : Option K) (a b : K) : sepLo (sepLo lo a) b = sepLo lo b := by
  cases lo <;> rfl

theorem sepLo_none (k : K) : sepLo (none : Option K) k = none := rfl
theorem sepLo_some (l k : K) : sepLo (some l) k = some k := rfl

theorem sepLo_cases (lo : Option K) (k : K) : sepLo lo k = none ∨ sepLo lo k = some k := by
  cases lo with
  | none => exact Or.inl rfl
  | some l => exact Or.inr rfl

/-! ### weakening the lower bound to `none` -/

theorem tight_weaken_none_aux :
    (∀ (lo : Option K) (t : Tree K E), TightT lo t → TightT none t) ∧
    (∀ (lo : Option K) (k : K) (t : Tree K E) (rest : Forest K E), TightF lo k t rest →
      TightF none k t rest) := by
  apply tight_induct
  · intro lo p es; exact TightT.leaf _ _ _
  · intro lo p; exact TightT.emptyBranch _ _
  · intro lo p k t rest _ _ ih
    exact TightT.branch _ _ _ _ _ trivial ih
  · intro lo k t _ ih; exact TightF.last _ _ _ ih
  · intro lo k t k' t' rest _ hr ih _
    exact TightF.cons _ _ _ _ _ _ ih hr

theorem TightT.weaken_none {lo : Option K} {t : Tree K E} (h : TightT lo t) : TightT none t :=
  tight_weaken_none_aux.1 lo t h

theorem TightF.weaken_none {lo : Option K} {k : K} {t : Tree K E} {rest : Forest K E}
    (h : TightF lo k t rest) : TightF none k t rest :=
  tight_weaken_none_aux.2 lo k t rest h

/-- from the own key to `sepLo lo k` (which is `none` or `some k`) -/
theorem TightT.weaken_sepLo {k : K} {t : Tree K E} (h : TightT (some k) t) (lo : Option K) :
    TightT (sepLo lo k) t := by
  cases lo with
  | none => exact h.weaken_none
  | some l => exact h

theorem tightM_weaken_none_aux :
    (∀ (lo : Option K) (t : Tree K E), TightMT lo t → TightMT none t) ∧
    (∀ (lo : Option K) (k : K) (t : Tree K E) (rest : Forest K E), TightMF lo k t rest →
      TightMF none k t rest) := by
  apply tightM_induct
  · intro lo p es; exact TightMT.leaf _ _ _
  · intro lo p kids hm ht; exact TightMT.unmat _ _ _ hm ht.weaken_none
  · intro lo p; exact TightMT.emptyBranch _ _
  · intro lo p k t rest hm _ ih
    exact TightMT.branch _ _ _ _ _ hm ih
  · intro lo k t _ ih; exact TightMF.last _ _ _ ih
  · intro lo k t k' t' rest _ hr ih _
    exact TightMF.cons _ _ _ _ _ _ ih hr

theorem TightMT.weaken_none {lo : Option K} {t : Tree K E} (h : TightMT lo t) : TightMT none t :=
  tightM_weaken_none_aux.1 lo t h

theorem TightMF.weaken_none {lo : Option K} {k : K} {t : Tree K E} {rest : Forest K E}
    (h : TightMF lo k t rest) : TightMF none k t rest :=
  tightM_weaken_none_aux.2 lo k t rest h

theorem TightMF.weaken_sepLo {k : K} {t : Tree K E} {rest : Forest K E}
    (h : TightMF (some k) k t rest) (lo : Option K) : TightMF (sepLo lo k) k t rest := by
  cases lo with
  | none => exact h.weaken_none
  | some l => exact h

/-! ### full tightness is the special case of `TightMT` -/

theorem tight_tightM_aux :
    (∀ (lo : Option K) (t : Tree K E), TightT lo t → TightMT lo t) ∧
    (∀ (lo : Option K) (k : K) (t : Tree K E) (rest : Forest K E), TightF lo k t rest →
      TightMF lo k t rest) := by
  apply tight_induct
  · intro lo p es; exact TightMT.leaf _ _ _
  · intro lo p; exact TightMT.emptyBranch _ _
  · intro lo p k t rest hk hf ih
    by_cases hm : nodeMat p = true
    · exact TightMT.branch _ _ _ _ _ hm ih
    · exact TightMT.unmat _ _ _ (by simpa using hm) (TightT.branch _ _ _ _ _ hk hf)
  · intro lo k t _ ih; exact TightMF.last _ _ _ ih
  · intro lo k t k' t' rest _ _ ih ihr
    exact TightMF.cons _ _ _ _ _ _ ih ihr

theorem TightF.toM {lo : Option K} {k : K} {t : Tree K E} {rest : Forest K E}
    (h : TightF lo k t rest) : TightMF lo k t rest :=
  tight_tightM_aux.2 lo k t rest h

/-! ### inversions -/

/-- a node whose root is not materialised is fully tight -/
theorem TightMT.tight_of_unmat {lo : Option K} {t : Tree K E} (h : TightMT lo t)
    (hm : nodeMat t.pid = false) : TightT lo t := by
  cases h with
  | leaf _ p es => exact TightT.leaf _ _ _
  | unmat _ p kids _ ht => exact ht
  | emptyBranch _ p => exact TightT.emptyBranch _ _
  | branch _ p k t rest hp _ =>
    simp only [Tree.pid] at hm
    rw [hm] at hp
    exact absurd hp (by simp)

/-- the entry list of a branch under `TightMT`, whatever the branch's own status -/
theorem TightMT.kids {lo : Option K} {p : Nat} {k : K} {t : Tree K E} {rest : Forest K E}
    (h : TightMT lo (.branch p (.cons k t rest))) : TightMF (sepLo lo k) k t rest := by
  cases h with
  | unmat _ _ _ _ ht =>
    cases ht with
    | branch _ _ _ _ _ _ hf => exact hf.toM
  | branch _ _ _ _ _ _ hf => exact hf

theorem TightMF.head {lo : Option K} {k : K} {t : Tree K E} {rest : Forest K E}
    (h : TightMF lo k t rest) : TightMT lo t := by
  cases h with
  | last _ _ _ ht => exact ht
  | cons _ _ _ _ _ _ ht _ => exact ht

/-- replace the first child -/
theorem TightMF.replace_head {lo : Option K} {k : K} {t t₁ : Tree K E} {rest : Forest K E}
    (h : TightMF lo k t rest) (h₁ : TightMT lo t₁) : TightMF lo k t₁ rest := by
  cases h with
  | last _ _ _ _ => exact TightMF.last _ _ _ h₁
  | cons _ _ _ _ _ _ _ hr => exact TightMF.cons _ _ _ _ _ _ h₁ hr

/-- drop the second entry -/
theorem TightMF.drop2 {lo : Option K} {k k' : K} {t x : Tree K E} {rest : Forest K E}
    (h : TightMF lo k t (.cons k' x rest)) : TightMF lo k t rest := by
  cases h with
  | cons _ _ _ _ _ _ ht hx =>
    cases hx with
    | last _ _ _ _ => exact TightMF.last _ _ _ ht
    | cons _ _ _ _ _ _ _ hr => exact TightMF.cons _ _ _ _ _ _ ht hr

theorem TightMF.second {lo : Option K} {k k' : K} {t x : Tree K E} {rest : Forest K E}
    (h : TightMF lo k t (.cons k' x rest)) : TightMT (some k') x := by
  cases h with
  | cons _ _ _ _ _ _ _ hx => exact hx.head

end defs

variable {K E : Type} [Ord K] [TransOrd K] [LawfulEqOrd K] [DecidableEq K]

/-! ### merging adjacent nodes -/

theorem nodeMat_mkPid_true (n : Nat) : nodeMat (mkPid n true) = true := by
  simp only [nodeMat, mkPid, if_true, beq_iff_eq]
  omega

theorem tightMF_append {ks : K} {s0 : Tree K E} {srest : Forest K E}
    (hs : TightMF (some ks) ks s0 srest) :
    ∀ (xrest : Forest K E) (lo : Option K) (k : K) (t : Tree K E), TightMF lo k t xrest →
      TightMF lo k t (xrest.append (.cons ks s0 srest))
  | .nil, lo, k, t, h => by
    show TightMF lo k t (.cons ks s0 srest)
    exact TightMF.cons _ _ _ _ _ _ h.head hs
  | .cons k' t' rest', lo, k, t, h => by
    cases h with
    | cons _ _ _ _ _ _ ht hr =>
      show TightMF lo k t (.cons k' t' (rest'.append (.cons ks s0 srest)))
      exact TightMF.cons _ _ _ _ _ _ ht (tightMF_append hs rest' (some k') k' t' hr)

/-- the node `a` (lower bound `lo`) absorbs / is absorbed by its right neighbour `b` (lower bound its own
key `m`): the survivor is materialised, the entries keep their bounds -/
theorem merge_tightM {lo : Option K} {m : K} {a b : Tree K E} (p : Nat)
    (ha : TightMT lo a) (hb : TightMT (some m) b) : TightMT lo (Tree.mergeInto p a b) := by
  cases a with
  | leaf p1 es1 =>
    cases b with
    | branch p2 k2 => exact ha
    | leaf p2 es2 => exact TightMT.leaf _ _ _
  | branch p1 k1 =>
    cases b with
    | leaf p2 es2 => exact ha
    | branch p2 k2 =>
      show TightMT lo (.branch (mkPid (nodePage p) true) (k1.append k2))
      have hm := nodeMat_mkPid_true (nodePage p)
      cases k2 with
      | nil =>
        rw [Forest.append_nil]
        cases k1 with
        | nil => exact TightMT.emptyBranch _ _
        | cons kx x0 xrest => exact TightMT.branch _ _ _ _ _ hm ha.kids
      | cons ks s0 srest =>
        have hs : TightMF (some ks) ks s0 srest := hb.kids
        cases k1 with
        | nil =>
          show TightMT lo (.branch _ (.cons ks s0 srest))
          exact TightMT.branch _ _ _ _ _ hm (hs.weaken_sepLo lo)
        | cons kx x0 xrest =>
          show TightMT lo (.branch _ (.cons kx x0 (xrest.append (.cons ks s0 srest))))
          exact TightMT.branch _ _ _ _ _ hm (tightMF_append hs xrest _ kx x0 ha.kids)

/-! ### surgery on the entry list of a materialised branch -/

theorem mergeChild_succ_tightMF : ∀ (rest : Forest K E) (i : Nat) (lo : Option K) (k : K) (t : Tree K E),
    TightMF lo k t rest →
    ∃ t₁ rest₁, Forest.mergeChild (.cons k t rest) (i + 1) = .cons k t₁ rest₁ ∧ TightMF lo k t₁ rest₁
  | .nil, i, lo, k, t, h => ⟨t, .nil, mergeChild_single_succ k t i, h⟩
  | .cons k' x rest', 0, lo, k, t, h => by
    rw [mergeChild_cons_cons_one]
    by_cases hx : x.isEmptyNode = true
    · rw [if_pos hx]
      exact ⟨t, rest', rfl, h.drop2⟩
    · rw [if_neg hx]
      exact ⟨_, rest', rfl, h.drop2.replace_head (merge_tightM _ h.head h.second)⟩
  | .cons k' x rest', i + 1, lo, k, t, h => by
    rw [mergeChild_cons_cons_succ_succ]
    cases h with
    | cons _ _ _ _ _ _ ht hx =>
      obtain ⟨t₁, rest₁, heq, hw⟩ := mergeChild_succ_tightMF rest' i (some k') k' x hx
      rw [heq]
      exact ⟨t, .cons k' t₁ rest₁, rfl, TightMF.cons _ _ _ _ _ _ ht hw⟩

/-- `mergeChild` on the entry list of a branch gives a materialised branch that is still `TightMT` -/
theorem mergeChild_tightM {lo : Option K} {p : Nat} {kids : Forest K E}
    (h : TightMT lo (.branch p kids)) (p' : Nat) (hp' : nodeMat p' = true) (i : Nat) :
    TightMT lo (.branch p' (kids.mergeChild i)) := by
  cases kids with
  | nil => exact TightMT.emptyBranch _ _
  | cons k x rest =>
    have hf : TightMF (sepLo lo k) k x rest := h.kids
    cases i with
    | succ j =>
      obtain ⟨t₁, rest₁, heq, hw⟩ := mergeChild_succ_tightMF rest j _ k x hf
      rw [heq]
      exact TightMT.branch _ _ _ _ _ hp' hw
    | zero =>
      cases rest with
      | nil =>
        rw [mergeChild_single_zero]
        by_cases hx : x.isEmptyNode = true
        · rw [if_pos hx]; exact TightMT.emptyBranch _ _
        · rw [if_neg hx]; exact TightMT.branch _ _ _ _ _ hp' hf
      | cons k' s rest' =>
        rw [mergeChild_cons_cons_zero]
        by_cases hx : x.isEmptyNode = true
        · rw [if_pos hx]
          cases hf with
          | cons _ _ _ _ _ _ _ hs =>
            exact TightMT.branch _ _ _ _ _ hp' (hs.weaken_sepLo lo)
        · rw [if_neg hx]
          exact TightMT.branch _ _ _ _ _ hp'
            (hf.drop2.replace_head (merge_tightM _ hf.head hf.second))

/-! ### lifting through `atBranch` -/

theorem atBranch_tightM_aux (page : Nat) (f : Forest K E → Forest K E)
    (hf : ∀ (lo : Option K) (p : Nat) (kids : Forest K E), nodeMat p = true →
      TightMT lo (.branch p kids) → TightMT lo (.branch p (f kids))) :
    (∀ (lo : Option K) (t : Tree K E), TightMT lo t → TightMT lo (Tree.atBranch page f t)) ∧
    (∀ (lo : Option K) (k : K) (t : Tree K E) (rest : Forest K E), TightMF lo k t rest →
      TightMF lo k (Tree.atBranch page f t) (Forest.atBranch page f rest)) := by
  apply tightM_induct
  · intro lo p es
    simp only [Tree.atBranch]
    exact TightMT.leaf _ _ _
  · intro lo p kids hm ht
    simp only [Tree.atBranch, hm, Bool.not_false, if_true]
    exact TightMT.unmat _ _ _ hm ht
  · intro lo p
    simp only [Tree.atBranch]
    split
    · exact TightMT.emptyBranch _ _
    · rename_i hm
      split
      · exact hf _ p _ (by simpa using hm) (TightMT.emptyBranch _ _)
      · simp only [Forest.atBranch]
        exact TightMT.emptyBranch _ _
  · intro lo p k t rest hm hw ih
    simp only [Tree.atBranch]
    split
    · exact TightMT.branch _ _ _ _ _ hm hw
    · split
      · exact hf _ p _ hm (TightMT.branch _ _ _ _ _ hm hw)
      · simp only [Forest.atBranch]
        exact TightMT.branch _ _ _ _ _ hm ih
  · intro lo k t _ ih
    simp only [Forest.atBranch]
    exact TightMF.last _ _ _ ih
  · intro lo k t k' t' rest _ _ iht ihr
    simp only [Forest.atBranch] at ihr ⊢
    exact TightMF.cons _ _ _ _ _ _ iht ihr

theorem atBranch_mergeChild_tightM {lo : Option K} {t : Tree K E} (h : TightMT lo t) (page i : Nat) :
    TightMT lo (Tree.atBranch page (fun f => Forest.mergeChild f i) t) :=
  (atBranch_tightM_aux page (fun f => Forest.mergeChild f i)
    (fun _ p _ hp hb => mergeChild_tightM hb p hp i)).1 lo t h

end Jamm
