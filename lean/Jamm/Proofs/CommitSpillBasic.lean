/-
Layer C proofs, part 3a — helper lemmas for `CommitSpillLemmas.lean`: upper-bound weakening, splitting and
joining of `WFFS` forests given as lists, regrouping a well-formed branch (or a sorted leaf) into
consecutive non-empty chunks.
-/
import Jamm.Model.CommitInv
import Jamm.Proofs.CommitLemmas
import Jamm.Proofs.SplitLemmas
set_option linter.unusedSectionVars false
open Std

namespace Jamm

section
variable {K E : Type}

theorem uniformF_ofList (d : Nat) : ∀ (c : List (K × Tree K E)), (∀ e ∈ c, UniformT d e.2) →
    UniformF d (Forest.ofList c)
  | [], _ => UniformF.nil d
  | (k, t) :: rest, h => by
    simp only [Forest.ofList]
    exact UniformF.cons d k t _ (h (k, t) List.mem_cons_self)
      (uniformF_ofList d rest (fun e he => h e (List.mem_cons_of_mem _ he)))

theorem cutAt_ne_nil_sp {α : Type} (l : List α) (idx : List Nat) (off : Nat) : cutAt l idx off ≠ [] := by
  cases idx <;> simp [cutAt]

theorem mem_of_mem_cutAt {α : Type} {l : List α} {idx : List Nat} {off : Nat} {c : List α} {x : α}
    (hc : c ∈ cutAt l idx off) (hx : x ∈ c) : x ∈ l := by
  rw [← cutAt_flatten' l idx off]
  exact List.mem_flatten.mpr ⟨c, hc, hx⟩

/-- the chunks of `Node::split`: either the single empty chunk of an empty node, or all non-empty -/
theorem split_chunks_cases {α : Type} (p : Params) (hp : p.Valid) (pagesize hdr elemHdr : Nat)
    (sizes : List Nat) (es : List α) (hl : es.length = sizes.length) :
    (es = [] ∧ cutAt es (splitIndexes p pagesize hdr elemHdr sizes) 0 = [[]]) ∨
    (∀ c ∈ cutAt es (splitIndexes p pagesize hdr elemHdr sizes) 0, c ≠ []) := by
  by_cases hidx : splitIndexes p pagesize hdr elemHdr sizes = []
  · rw [hidx]
    cases es with
    | nil => left; simp [cutAt]
    | cons a rest => right; simp [cutAt]
  · right
    intro c hc he
    have := split_chunks_nonempty p hp pagesize hdr elemHdr sizes es hl c hc hidx
    have h1 : 1 ≤ p.minKeysPerNode := hp.1
    subst he
    simp only [List.length_nil] at this
    omega

end

section
variable {K E : Type} [Ord K] [TransOrd K] [LawfulEqOrd K] [DecidableEq K]

theorem sorted_iff_pairwise {α : Type} (l : List (K × α)) :
    Spec.Sorted l ↔ l.Pairwise (fun a b => klt a.1 b.1 = true) := by
  induction l with
  | nil => simp [Spec.Sorted]
  | cons hd tl ih =>
    obtain ⟨a, x⟩ := hd
    rw [Spec.sorted_cons, List.pairwise_cons, ih]
    rfl

theorem sepLo_sepLo_sp (lo : Option K) (k k' : K) : sepLo (sepLo lo k) k' = sepLo lo k' := by
  cases lo <;> rfl

theorem inLo_sepLo_self (lo : Option K) (k : K) : inLo (sepLo lo k) k := by
  cases lo with
  | none => trivial
  | some l => exact kle_refl k

theorem wfs_pid {lo hi : Option K} {p : Nat} (p' : Nat) {f : Forest K E}
    (h : WFS lo hi (.branch p f)) : WFS lo hi (.branch p' f) := by
  cases h with
  | branch _ _ _ k t rest h1 h2 h3 => exact WFS.branch _ _ _ _ _ _ h1 h2 h3
  | emptyBranch => exact WFS.emptyBranch _ _ _

/-- weakening the upper bound of `WFS` / `WFFS` -/
theorem wfs_weaken_hi_aux :
    (∀ (lo hi : Option K) (t : Tree K E), WFS lo hi t →
      ∀ hi' : Option K, (∀ x, inHi hi x → inHi hi' x) → WFS lo hi' t) ∧
    (∀ (lo hi : Option K) (k : K) (t : Tree K E) (rest : Forest K E), WFFS lo hi k t rest →
      ∀ hi' : Option K, (∀ x, inHi hi x → inHi hi' x) → WFFS lo hi' k t rest) := by
  apply wfs_induct
  · intro lo hi p es hs hb hi' hw
    exact WFS.leaf _ _ _ _ hs (fun e he => ⟨(hb e he).1, hw _ (hb e he).2⟩)
  · intro lo hi p k t rest hlo hhi _ ih hi' hw
    exact WFS.branch _ _ _ _ _ _ hlo (hw _ hhi) (ih hi' hw)
  · intro lo hi p hi' _
    exact WFS.emptyBranch _ _ _
  · intro lo hi k t _ ih hi' hw
    exact WFFS.last _ _ _ _ (ih hi' hw)
  · intro lo hi k t k' t' rest hk hlo hhi ht _ _ ihr hi' hw
    exact WFFS.cons _ _ _ _ _ _ _ hk hlo (hw _ hhi) ht (ihr hi' hw)

theorem wfs_weaken_hi_kle {lo : Option K} {a b : K} {t : Tree K E} (h : WFS lo (some a) t)
    (hab : kle a b = true) : WFS lo (some b) t :=
  wfs_weaken_hi_aux.1 _ _ _ h (some b) (fun _ hx => klt_of_klt_of_kle hx hab)

/-- a branch well-formed below the first key of its parent is well-formed for the parent's bound -/
theorem wfs_of_sepLo {lo hi : Option K} {k : K} {p : Nat} {f : Forest K E} (hk : inLo lo k)
    (h : WFS (sepLo lo k) hi (.branch p f)) : WFS lo hi (.branch p f) := by
  cases h with
  | branch _ _ _ k1 t rest h1 h2 h3 =>
    rw [sepLo_sepLo_sp] at h3
    exact WFS.branch _ _ _ _ _ _ (sepLo_weaken hk _ h1) h2 h3
  | emptyBranch => exact WFS.emptyBranch _ _ _

/-! ### joining -/

/-- a forest bounded by `m`, followed by a forest that starts at `b ≥ m` -/
theorem wffs_append_pieces {hi : Option K} {m b : K} {tb : Tree K E} {rb : List (K × Tree K E)}
    (hmb : kle m b = true) (hb : inHi hi b) (hB : WFFS (some b) hi b tb (Forest.ofList rb)) :
    ∀ (r : List (K × Tree K E)) (lo : Option K) (k : K) (t : Tree K E),
      WFFS lo (some m) k t (Forest.ofList r) → inLo lo k → klt k m = true →
      WFFS lo hi k t (Forest.ofList (r ++ (b, tb) :: rb))
  | [], lo, k, t, h, hlo, hkm => by
    simp only [Forest.ofList] at h
    cases h with
    | last _ _ _ _ ht =>
      have hkb : klt k b = true := klt_of_klt_of_kle hkm hmb
      simp only [List.nil_append, Forest.ofList]
      exact WFFS.cons _ _ _ _ _ _ _ hkb (inLo_of_kle hlo (kle_of_klt hkb)) hb
        (wfs_weaken_hi_kle ht hmb) hB
  | (a, ta) :: r2, lo, k, t, h, hlo, hkm => by
    simp only [Forest.ofList] at h
    cases h with
    | cons _ _ _ _ _ _ _ hka hla hha ht hr =>
      have ham : klt a m = true := hha
      have hab : klt a b = true := klt_of_klt_of_kle ham hmb
      simp only [List.cons_append, Forest.ofList]
      exact WFFS.cons _ _ _ _ _ _ _ hka hla (inHi_of_klt hab hb) ht
        (wffs_append_pieces hmb hb hB r2 (some a) a ta hr (kle_refl a) ham)

/-- two well-formed branches side by side -/
theorem wfs_branch_append {lo hi : Option K} {m : K} {p : Nat} {ps ps' : List (K × Tree K E)}
    (hps : ps ≠ []) (hps' : ps' ≠ [])
    (hA : WFS lo (some m) (.branch p (Forest.ofList ps)))
    (hB : WFS (some m) hi (.branch p (Forest.ofList ps'))) :
    WFS lo hi (.branch p (Forest.ofList (ps ++ ps'))) := by
  match ps, ps', hps, hps' with
  | (a, ta) :: ra, (b, tb) :: rb, _, _ =>
    simp only [Forest.ofList] at hA hB
    cases hA with
    | branch _ _ _ _ _ _ ha1 ha2 ha3 =>
      cases hB with
      | branch _ _ _ _ _ _ hb1 hb2 hb3 =>
        have ham : klt a m = true := ha2
        have hmb : kle m b = true := hb1
        have hab : klt a b = true := klt_of_klt_of_kle ham hmb
        simp only [List.cons_append, Forest.ofList]
        refine WFS.branch _ _ _ _ _ _ ha1 (inHi_of_klt hab hb2) ?_
        exact wffs_append_pieces hmb hb2 hb3 ra _ a ta ha3 (inLo_sepLo_self lo a) ham

/-! ### splitting -/

theorem wffs_split {hi : Option K} {k' : K} {t' : Tree K E} {s : List (K × Tree K E)} :
    ∀ (r : List (K × Tree K E)) (lo : Option K) (k : K) (t : Tree K E),
      WFFS lo hi k t (Forest.ofList (r ++ (k', t') :: s)) →
      WFFS lo (some k') k t (Forest.ofList r) ∧ klt k k' = true ∧ inLo lo k' ∧ inHi hi k' ∧
        WFFS (some k') hi k' t' (Forest.ofList s)
  | [], lo, k, t, h => by
    simp only [List.nil_append, Forest.ofList] at h
    cases h with
    | cons _ _ _ _ _ _ _ hk hlo hhi ht hr =>
      simp only [Forest.ofList]
      exact ⟨WFFS.last _ _ _ _ ht, hk, hlo, hhi, hr⟩
  | (a, ta) :: r2, lo, k, t, h => by
    simp only [List.cons_append, Forest.ofList] at h
    cases h with
    | cons _ _ _ _ _ _ _ hk hlo hhi ht hr =>
      obtain ⟨i1, i2, i3, i4, i5⟩ := wffs_split r2 (some a) a ta hr
      simp only [Forest.ofList]
      refine ⟨WFFS.cons _ _ _ _ _ _ _ hk hlo i2 ht i1, klt_trans hk i2,
        inLo_of_kle hlo (kle_of_klt i2), i4, i5⟩

/-! ### regrouping a branch into chunks -/

/-- the entry a chunk of branch entries is written as -/
def pieceB (key : K) (c : List (K × Tree K E)) : K × Tree K E :=
  (match c with | [] => key | (k, _) :: _ => k, Tree.branch 0 (Forest.ofList c))

theorem chunkB_aux (key : K) {hi : Option K} :
    ∀ (cs : List (List (K × Tree K E))), (∀ c ∈ cs, c ≠ []) →
    ∀ (lo : Option K) (k : K) (t : Tree K E) (r : List (K × Tree K E)),
      sepLo lo k = lo → inLo lo k → inHi hi k →
      WFFS lo hi k t (Forest.ofList (r ++ cs.flatten)) →
      WFFS lo hi k (.branch 0 (Forest.ofList ((k, t) :: r))) (Forest.ofList (cs.map (pieceB key)))
  | [], _, lo, k, t, r, hs, hlo, hhi, h => by
    simp only [List.flatten_nil, List.append_nil] at h
    simp only [List.map_nil, Forest.ofList]
    refine WFFS.last _ _ _ _ (WFS.branch _ _ _ _ _ _ hlo hhi ?_)
    rw [hs]; exact h
  | [] :: cs', hne, _, _, _, _, _, _, _, _ => absurd rfl (hne [] List.mem_cons_self)
  | ((k', t') :: r') :: cs', hne, lo, k, t, r, hs, hlo, hhi, h => by
    simp only [List.flatten_cons, List.cons_append] at h
    obtain ⟨i1, i2, i3, i4, i5⟩ := wffs_split r lo k t h
    have ih := chunkB_aux key cs' (fun c hc => hne c (List.mem_cons_of_mem _ hc)) (some k') k' t' r'
      rfl (kle_refl k') i4 i5
    simp only [List.map_cons, Forest.ofList, pieceB]
    refine WFFS.cons _ _ _ _ _ _ _ i2 i3 i4 (WFS.branch _ _ _ _ _ _ hlo i2 ?_) ih
    rw [hs]; exact i1

/-- C-chunk: a well-formed branch regrouped into consecutive non-empty chunks, each under its first
key, is a well-formed branch for the same bounds -/
theorem chunkB (key : K) {lo hi : Option K} (cs : List (List (K × Tree K E)))
    (hne : ∀ c ∈ cs, c ≠ []) (hcs : cs ≠ [])
    (h : WFS lo hi (.branch 0 (Forest.ofList cs.flatten))) :
    WFS lo hi (.branch 0 (Forest.ofList (cs.map (pieceB key)))) := by
  match cs, hcs with
  | [] :: cs', _ => exact absurd rfl (hne [] List.mem_cons_self)
  | ((k, t) :: r) :: cs', _ =>
    simp only [List.flatten_cons, List.cons_append, Forest.ofList] at h
    cases h with
    | branch _ _ _ _ _ _ h1 h2 h3 =>
      have := chunkB_aux key cs' (fun c hc => hne c (List.mem_cons_of_mem _ hc)) (sepLo lo k) k t r
        (sepLo_sepLo_sp lo k k) (inLo_sepLo_self lo k) h2 h3
      simp only [List.map_cons, Forest.ofList, pieceB]
      exact WFS.branch _ _ _ _ _ _ h1 h2 this

/-! ### regrouping a leaf into chunks -/

def pieceL (key : K) (c : List (K × E)) : K × Tree K E :=
  (match c with | [] => key | (k, _) :: _ => k, Tree.leaf 0 c)

theorem chunkL_aux (key : K) {hi : Option K} :
    ∀ (cs : List (List (K × E))), (∀ c ∈ cs, c ≠ []) →
    ∀ (lo : Option K) (k : K) (e : E) (r : List (K × E)),
      Spec.Sorted ((k, e) :: r ++ cs.flatten) →
      (∀ x ∈ (k, e) :: r ++ cs.flatten, inLo lo x.1 ∧ inHi hi x.1) →
      WFFS lo hi k (.leaf 0 ((k, e) :: r) : Tree K E) (Forest.ofList (cs.map (pieceL key)))
  | [], _, lo, k, e, r, hs, hb => by
    simp only [List.flatten_nil, List.append_nil] at hs hb
    simp only [List.map_nil, Forest.ofList]
    exact WFFS.last _ _ _ _ (WFS.leaf _ _ _ _ hs hb)
  | [] :: cs', hne, _, _, _, _, _, _ => absurd rfl (hne [] List.mem_cons_self)
  | ((k', e') :: r') :: cs', hne, lo, k, e, r, hs, hb => by
    simp only [List.flatten_cons] at hs hb
    rw [sorted_iff_pairwise, List.pairwise_append] at hs
    obtain ⟨hs1, hs2, hs3⟩ := hs
    have hkk' : klt k k' = true := hs3 (k, e) List.mem_cons_self (k', e') (by simp)
    have hbk' := hb (k', e') (by simp)
    have ih := chunkL_aux key cs' (fun c hc => hne c (List.mem_cons_of_mem _ hc)) (some k') k' e' r'
      ((sorted_iff_pairwise _).mpr hs2) (by
        intro x hx
        refine ⟨?_, (hb x (List.mem_append_right _ hx)).2⟩
        rw [List.cons_append, List.mem_cons] at hx
        rcases hx with rfl | hx
        · exact kle_refl _
        · rw [List.cons_append, List.pairwise_cons] at hs2
          exact kle_of_klt (hs2.1 x hx))
    simp only [List.map_cons, Forest.ofList, pieceL]
    refine WFFS.cons _ _ _ _ _ _ _ hkk' hbk'.1 hbk'.2 ?_ ih
    refine WFS.leaf _ _ _ _ ((sorted_iff_pairwise _).mpr hs1) ?_
    intro x hx
    exact ⟨(hb x (List.mem_append_left _ hx)).1, hs3 x hx (k', e') (by simp)⟩

/-- a sorted leaf regrouped into consecutive non-empty chunks, each under its first key, is a
well-formed branch for the bounds of the leaf -/
theorem chunkL (key : K) {lo hi : Option K} (cs : List (List (K × E)))
    (hne : ∀ c ∈ cs, c ≠ []) (hcs : cs ≠ [])
    (hs : Spec.Sorted cs.flatten) (hb : ∀ x ∈ cs.flatten, inLo lo x.1 ∧ inHi hi x.1) :
    WFS lo hi (.branch 0 (Forest.ofList (cs.map (pieceL key))) : Tree K E) := by
  match cs, hcs with
  | [] :: cs', _ => exact absurd rfl (hne [] List.mem_cons_self)
  | ((k, e) :: r) :: cs', _ =>
    simp only [List.flatten_cons] at hs hb
    have hk := hb (k, e) (by simp)
    have := chunkL_aux key (hi := hi) cs' (fun c hc => hne c (List.mem_cons_of_mem _ hc)) (sepLo lo k) k e r
      hs (by
        intro x hx
        refine ⟨?_, (hb x hx).2⟩
        cases lo with
        | none => trivial
        | some l =>
          rw [List.cons_append, List.mem_cons] at hx
          rcases hx with rfl | hx
          · exact kle_refl _
          · rw [List.cons_append, Spec.sorted_cons] at hs
            exact kle_of_klt (hs.1 x hx))
    simp only [List.map_cons, Forest.ofList, pieceL]
    exact WFS.branch _ _ _ _ _ _ hk.1 hk.2 this

end
end Jamm
