/-
Layer S proofs: the header checksum.  Each FNV-1a step `h ↦ (h ⊕ b)·p` is injective in `h` and in `b`
(the prime is odd, hence invertible mod 2^64), so two hash inputs of equal length that differ in
exactly one byte have different checksums; a header record with one damaged hashed byte is invalid.
-/
import Jamm.Model.Codec
set_option linter.unusedSectionVars false

namespace Jamm

/-- multiplicative inverse of the FNV prime modulo 2^64 -/
def fnvPrimeInv : UInt64 := 0xce965057aff6957b

theorem fnvPrime_inv : fnvPrime * fnvPrimeInv = 1 := by decide

theorem mul_fnvPrime_cancel (a b : UInt64) (e : a * fnvPrime = b * fnvPrime) : a = b := by
  have h := congrArg (· * fnvPrimeInv) e
  simp only [UInt64.mul_assoc, fnvPrime_inv, UInt64.mul_one] at h
  exact h

theorem xor_cancel_right (a b x : UInt64) (e : a ^^^ x = b ^^^ x) : a = b := by
  have h := congrArg (· ^^^ x) e
  simp only [UInt64.xor_assoc, UInt64.xor_self, UInt64.xor_zero] at h
  exact h

theorem xor_cancel_left (a b x : UInt64) (e : x ^^^ a = x ^^^ b) : a = b := by
  rw [UInt64.xor_comm x a, UInt64.xor_comm x b] at e
  exact xor_cancel_right a b x e

theorem u8_toUInt64_inj (b b' : UInt8) (e : b.toUInt64 = b'.toUInt64) : b = b' := by
  have h := congrArg UInt64.toNat e
  simp only [UInt8.toNat_toUInt64] at h
  exact UInt8.toNat_inj.1 h

/-- H1: a step is injective in the running hash -/
theorem fnvStep_inj_left (h h' : UInt64) (b : UInt8) (e : fnvStep h b = fnvStep h' b) : h = h' := by
  unfold fnvStep at e
  exact xor_cancel_right _ _ _ (mul_fnvPrime_cancel _ _ e)

/-- H2: a step is injective in the byte -/
theorem fnvStep_inj_right (h : UInt64) (b b' : UInt8) (e : fnvStep h b = fnvStep h b') : b = b' := by
  unfold fnvStep at e
  exact u8_toUInt64_inj _ _ (xor_cancel_left _ _ _ (mul_fnvPrime_cancel _ _ e))

theorem foldl_fnvStep_ne (post : List UInt8) : ∀ (h h' : UInt64), h ≠ h' →
    post.foldl fnvStep h ≠ post.foldl fnvStep h' := by
  induction post with
  | nil => intro h h' hne; exact hne
  | cons c rest ih =>
    intro h h' hne
    simp only [List.foldl_cons]
    exact ih _ _ (fun e => hne (fnvStep_inj_left h h' c e))

/-- H3: changing exactly one byte of the input changes the checksum -/
theorem fnv_single_byte (pre post : List UInt8) (b b' : UInt8) (hne : b ≠ b') :
    fnv1a (pre ++ b :: post) ≠ fnv1a (pre ++ b' :: post) := by
  unfold fnv1a
  simp only [List.foldl_append, List.foldl_cons]
  exact foldl_fnvStep_ne post _ _ (fun e => hne (fnvStep_inj_right _ b b' e))

/-- H4: a valid header record whose hash input is damaged in exactly one byte (the stored checksum
unchanged) is invalid -/
theorem one_hashed_byte_invalidates (L : Layout) (order : List MetaField) (m m' : MetaRec)
    (hv : metaValid L order m = true) (hh : m'.hash = m.hash)
    (pre post : List UInt8) (b b' : UInt8) (hne : b ≠ b')
    (h1 : metaHashInput L order m = pre ++ b :: post) (h2 : metaHashInput L order m' = pre ++ b' :: post) :
    metaValid L order m' = false := by
  unfold metaValid metaHash at hv ⊢
  rw [h1] at hv
  rw [h2, hh]
  have hv' := eq_of_beq hv
  rw [hv']
  apply beq_false_of_ne
  intro e
  exact fnv_single_byte pre post b b' hne (UInt64.toNat_inj.1 e)

/-- H5: a valid header record whose stored checksum is damaged (fields unchanged) is invalid -/
theorem damaged_checksum_invalidates (L : Layout) (order : List MetaField) (m m' : MetaRec)
    (hv : metaValid L order m = true) (hne : m'.hash ≠ m.hash)
    (hf : metaHashInput L order m' = metaHashInput L order m) :
    metaValid L order m' = false := by
  unfold metaValid metaHash at hv ⊢
  rw [hf]
  have hv' := eq_of_beq hv
  apply beq_false_of_ne
  rw [← hv']
  exact hne

end Jamm
