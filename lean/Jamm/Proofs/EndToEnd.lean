/-
End to end, through begin / commit / close / reopen, at the level of file bytes: a history of transactions, each a
list of write operations followed by a copy-on-write commit (`Commits` step), where each commit stores a database
whose logical contents (`TDB.abs ∘ viewToTDB`: every bucket path with its counter and its entries in order) are the
reference's contents after the transaction's operations.  Then `open` of the final file — header choice, walk from
the root page, free-list page — shows a database whose logical contents are the reference's after ALL operations of
the history, in order.  The per-commit premise (the stored database is the reference's next state) is what
`whole_history_refines` proves of the commit model and what the run compares on every real commit (contents of the
decoded file against the specification); this theorem is the composition with the byte-level layer.
-/
import Jamm.Proofs.CommitFileAtomic
import Jamm.Model.FileDB
namespace Jamm

section
variable (L : Layout) (order : List MetaField) (pagesize : Nat)

/-- the logical contents of an opened file: bucket path ↦ (counter, entries in key order) -/
def Opened.contents (st : Opened) : Spec.DB Bytes Bytes := TDB.abs (viewToTDB [] st.view)

/-- a history of transactions on a file: the write operations of each, and the commit that stored their result -/
inductive TxHistory : Src → Nat → Opened → (Nat → Nat) → List (TDB.Op Bytes Bytes) →
    Src → Nat → Opened → (Nat → Nat) → Prop where
  | refl (s : Src) (slot : Nat) (st : Opened) (ov : Nat → Nat) : TxHistory s slot st ov [] s slot st ov
  | step {s : Src} {slot : Nat} {st : Opened} {ov : Nat → Nat} {acc : List (TDB.Op Bytes Bytes)} {s' : Src}
      {slot' : Nat} {st' : Opened} {ov' : Nat → Nat} (ops : List (TDB.Op Bytes Bytes)) (s1 : Src) (new : Opened)
      (ov'' : Nat → Nat) :
      TxHistory s slot st ov acc s' slot' st' ov' →
      KeepsState pagesize ov' s' s1 slot' st' →
      StoredV L pagesize ov'' s1 new.view →
      (∃ p, decodePage L s1 pagesize new.hdr.freelistPage = .ok p ∧ p.body = .freelist new.free ∧
        p.overflow = new.flOverflow) →
      HeaderOK L order pagesize ov'' s1 st' new →
      new.contents = ops.foldl Spec.applyTOp st'.contents →
      TxHistory s slot st ov (acc ++ ops) (writeMetaPage L pagesize (1 - slot') new.hdr s1) (1 - slot') new ov''

/-- forgetting the operations, a transaction history is a history of commits -/
theorem TxHistory.commits {s : Src} {slot : Nat} {st : Opened} {ov : Nat → Nat} {acc : List (TDB.Op Bytes Bytes)}
    {s' : Src} {slot' : Nat} {st' : Opened} {ov' : Nat → Nat}
    (h : TxHistory L order pagesize s slot st ov acc s' slot' st' ov') :
    Commits L order pagesize s slot st ov s' slot' st' ov' := by
  induction h with
  | refl => exact Commits.refl _ _ _ _
  | step ops s1 new ov'' _ hk hst hfl hh _ ih => exact Commits.step s1 new ov'' ih hk hst hfl hh

/-- the stored state after a history has the reference's contents after all its operations -/
theorem TxHistory.contents_eq {s : Src} {slot : Nat} {st : Opened} {ov : Nat → Nat}
    {acc : List (TDB.Op Bytes Bytes)} {s' : Src} {slot' : Nat} {st' : Opened} {ov' : Nat → Nat}
    (h : TxHistory L order pagesize s slot st ov acc s' slot' st' ov') :
    st'.contents = acc.foldl Spec.applyTOp st.contents := by
  induction h with
  | refl => rfl
  | step ops s1 new ov'' _ _ _ _ _ hc ih => rw [hc, ih, List.foldl_append]

/-- END TO END: open the file a history of transactions left behind — the database it shows has exactly the
reference's contents after all the operations of the history, in order -/
theorem history_then_open (hE : L.WFEnc = true) (hL : L.WFMeta = true) (hrec : L.pgPtr + L.metaSize ≤ pagesize)
    (hhdr : L.pageSize ≤ pagesize) {s : Src} {slot : Nat} {st : Opened} {ov : Nat → Nat}
    {acc : List (TDB.Op Bytes Bytes)} {s' : Src} {slot' : Nat} {st' : Opened} {ov' : Nat → Nat}
    (hslot : slot = 0 ∨ slot = 1) (h0 : Committed L order pagesize ov s slot st)
    (h : TxHistory L order pagesize s slot st ov acc s' slot' st' ov') (fuel : Nat) (hf : st'.view.weight ≤ fuel) :
    ∃ o, openFile L order pagesize fuel s' = some o ∧
      o.contents = acc.foldl Spec.applyTOp st.contents := by
  obtain ⟨_, _, hopen⟩ := commits_stay_committed L order pagesize hE hL hrec hhdr hslot h0 (h.commits L order pagesize)
  exact ⟨st', hopen fuel hf, h.contents_eq L order pagesize⟩

end
end Jamm
