/-
Cursor proofs, part C: `RangeIt` against `Spec.range`.
-/
import Jamm.Proofs.CursorSearch
set_option linter.unusedSectionVars false
set_option linter.unusedVariables false
open Std

namespace Jamm

/-! ### sorted lists: prefix/suffix predicates are filters -/

section lists
variable {K : Type} [Ord K] [TransOrd K] [LawfulEqOrd K] [DecidableEq K] {α : Type}

theorem sorted_pairwise {l : List (K × α)} :
    Spec.Sorted l ↔ l.Pairwise (fun a b => klt a.1 b.1 = true) := by
  induction l with
  | nil => simp [Spec.Sorted]
  | cons a l ih =>
    obtain ⟨k, x⟩ := a
    rw [Spec.sorted_cons, List.pairwise_cons, ih]
    rfl

theorem takeWhile_eq_filter {β : Type} {R : β → β → Prop} {p : β → Bool} {l : List β}
    (h : l.Pairwise R) (hp : ∀ a b, R a b → p b = true → p a = true) :
    l.takeWhile p = l.filter p := by
  induction l with
  | nil => rfl
  | cons a l ih =>
    rw [List.pairwise_cons] at h
    rw [List.takeWhile_cons, List.filter_cons]
    by_cases ha : p a = true
    · rw [if_pos ha, if_pos ha, ih h.2]
    · rw [if_neg ha, if_neg ha]
      symm
      rw [List.filter_eq_nil_iff]
      intro b hb hpb
      exact ha (hp a b (h.1 b hb) hpb)

theorem belowHi_down (hi : Spec.Bound K) (a b : K) (hab : klt a b = true)
    (hb : Spec.belowHi hi b = true) : Spec.belowHi hi a = true := by
  cases hi with
  | incl e => exact kle_of_klt (klt_of_klt_of_kle hab hb)
  | excl e => exact klt_trans hab hb
  | unbounded => rfl

/-- skip the first entry when it satisfies `q` -/
def skip1 {β : Type} (q : β → Bool) : List β → List β
  | [] => []
  | d :: l => if q d then l else d :: l

variable {E : Type}

/-- facts about the split a seek produces, on sorted contents -/
theorem SeekPos.facts {key : K} {flat : List (K × E)} {ex : Bool} {out : List (K × E)}
    (hs : Spec.Sorted flat) (h : SeekPos key flat ex out) :
    flat.filter (fun e => kle key e.1) = skip1 (fun d => klt d.1 key) out ∧
    flat.filter (fun e => klt key e.1) = skip1 (fun d => klt d.1 key || decide (d.1 = key)) out := by
  obtain ⟨A, B, hf, hA, hc⟩ := h
  have hsB : Spec.Sorted B := by rw [hf] at hs; exact Spec.sorted_append_right hs
  have hA1 : A.filter (fun e => kle key e.1) = [] := by
    rw [List.filter_eq_nil_iff]
    intro a ha
    rw [kle_iff_not_lt, hA a ha]; simp
  have hA2 : A.filter (fun e => klt key e.1) = [] := by
    rw [List.filter_eq_nil_iff]
    intro a ha
    rw [klt_asymm (hA a ha)]; simp
  rw [hf, List.filter_append, List.filter_append, hA1, hA2, List.nil_append, List.nil_append]
  rcases hc with ⟨hex, b, B', h1, h2, h3⟩ | ⟨hex, h1, h2⟩
  · -- present: `B = b :: B'` with `b.1 = key`
    obtain ⟨bk, bx⟩ := b
    simp only at h2
    subst h2
    rw [h1] at hsB
    rw [Spec.sorted_cons] at hsB
    have hB' : ∀ e ∈ B', klt bk e.1 = true := hsB.1
    rw [h3, h1]
    constructor
    · simp only [skip1, klt_irrefl, Bool.false_eq_true, if_false]
      rw [List.filter_eq_self]
      intro e he
      rcases List.mem_cons.mp he with rfl | he
      · exact kle_refl _
      · exact kle_of_klt (hB' e he)
    · simp only [skip1, klt_irrefl, Bool.false_or, decide_true, if_true]
      rw [List.filter_cons]
      simp only [klt_irrefl, Bool.false_eq_true, if_false]
      rw [List.filter_eq_self]
      exact hB'
  · have hB1 : B.filter (fun e => kle key e.1) = B := by
      rw [List.filter_eq_self]; intro e he; exact kle_of_klt (h1 e he)
    have hB2 : B.filter (fun e => klt key e.1) = B := by
      rw [List.filter_eq_self]; exact h1
    rw [hB1, hB2]
    rcases h2 with h2 | ⟨A', p, h2, h3⟩
    · rw [h2]
      cases B with
      | nil => exact ⟨rfl, rfl⟩
      | cons b B' =>
        have hb := h1 b List.mem_cons_self
        have hne : ¬ (b.1 = key) := fun e => klt_ne hb e.symm
        simp [skip1, klt_asymm hb, hne]
    · have hp : klt p.1 key = true := hA p (by rw [h2]; simp)
      rw [h3]
      simp [skip1, hp]

end lists

variable {K E : Type} [Ord K] [TransOrd K] [LawfulEqOrd K] [DecidableEq K]

/-! ### one step of the range iterator -/

/-- the second half of `RangeIt.next`, once the start cursor is chosen -/
def rangeStep (r : RangeIt K E) (c1 : Cursor K E) : Option (K × E) × RangeIt K E :=
  match c1.next with
  | (none, c2) => (none, { r with c := c2 })
  | (some d, c2) =>
    if Spec.belowHi r.hi d.1 then (some d, { r with c := c2 }) else (none, { r with c := c2 })

/-- the optional skip `RangeIt.next` performs after its seek -/
def skipCursor (q : K × E → Bool) (c' : Cursor K E) : Cursor K E :=
  match current c'.stack with
  | some d => if q d then c'.next.2 else c'
  | none => c'

theorem range_next_called (r : RangeIt K E) (h : r.c.nextCalled = true) :
    r.next = rangeStep r r.c := by
  unfold RangeIt.next rangeStep; simp only [h, Bool.not_true, Bool.false_eq_true, if_false]; rfl

theorem range_next_unbounded (c : Cursor K E) (hi : Spec.Bound K) :
    RangeIt.next { c := c, lo := .unbounded, hi := hi } = rangeStep { c := c, lo := .unbounded, hi := hi } c := by
  unfold RangeIt.next rangeStep
  cases c.nextCalled <;> rfl

theorem range_next_incl (c : Cursor K E) (hc : c.nextCalled = false) (s : K) (hi : Spec.Bound K) :
    RangeIt.next { c := c, lo := .incl s, hi := hi } =
      rangeStep { c := c, lo := .incl s, hi := hi }
        (skipCursor (fun d => klt d.1 s) (c.seek s).2) := by
  unfold RangeIt.next rangeStep skipCursor
  simp only [hc, Bool.not_false, if_true]
  rfl

theorem range_next_excl (c : Cursor K E) (hc : c.nextCalled = false) (s : K) (hi : Spec.Bound K) :
    RangeIt.next { c := c, lo := .excl s, hi := hi } =
      rangeStep { c := c, lo := .excl s, hi := hi }
        (skipCursor (fun d => klt d.1 s || decide (d.1 = s)) (c.seek s).2) := by
  unfold RangeIt.next rangeStep skipCursor
  simp only [hc, Bool.not_false, if_true]
  rfl

theorem skipCursor_spec (t : Tree K E) (q : K × E → Bool) (c' : Cursor K E) (hc : CInv t c')
    (hcur : current c'.stack = (pending c').head?) :
    CInv t (skipCursor q c') ∧ pending (skipCursor q c') = skip1 q (pending c') := by
  unfold skipCursor
  rw [hcur]
  cases hp : pending c' with
  | nil => simp only [List.head?_nil, skip1]; exact ⟨hc, hp⟩
  | cons d l =>
    simp only [List.head?_cons, skip1]
    by_cases hq : q d = true
    · simp only [hq, if_true]
      obtain ⟨_, h2, _, h4⟩ := next_spec t c' hc
      exact ⟨h2, by rw [h4, hp]; rfl⟩
    · simp only [hq, Bool.false_eq_true, if_false]
      exact ⟨hc, hp⟩

/-! ### positioning on the first call -/

theorem range_position (t : Tree K E) (h : WF none none t) (lo hi : Spec.Bound K) :
    ∃ c1, CInv t c1 ∧ pending c1 = t.flatten.filter (fun e => Spec.aboveLo lo e.1) ∧
      RangeIt.next { c := { root := t }, lo := lo, hi := hi } =
        rangeStep { c := { root := t }, lo := lo, hi := hi } c1 := by
  have hsorted := (flatten_sorted none none t h).1
  cases lo with
  | unbounded =>
    obtain ⟨a, b⟩ := startCursor_spec t h.shp
    refine ⟨startCursor t, a, ?_, ?_⟩
    · rw [b]; symm; rw [List.filter_eq_self]; intro e _; rfl
    · rw [range_next_unbounded]
      unfold rangeStep
      rw [next_fresh t h.shp]
  | incl s =>
    obtain ⟨out, hc, _, hp, hcur, hpos⟩ := seek_core t h s
    rw [← hp] at hcur
    obtain ⟨a, b⟩ := skipCursor_spec t (fun d => klt d.1 s) _ hc hcur
    refine ⟨_, a, ?_, range_next_incl _ rfl s hi⟩
    rw [b, hp, ← (hpos.facts hsorted).1]
    rfl
  | excl s =>
    obtain ⟨out, hc, _, hp, hcur, hpos⟩ := seek_core t h s
    rw [← hp] at hcur
    obtain ⟨a, b⟩ := skipCursor_spec t (fun d => klt d.1 s || decide (d.1 = s)) _ hc hcur
    refine ⟨_, a, ?_, range_next_excl _ rfl s hi⟩
    rw [b, hp, ← (hpos.facts hsorted).2]
    rfl

/-! ### the loop -/

theorem rangeStep_spec (t : Tree K E) (r : RangeIt K E) (c1 : Cursor K E) (hc : CInv t c1) :
    (pending c1 = [] → (rangeStep r c1).1 = none) ∧
    (∀ d l, pending c1 = d :: l →
      (Spec.belowHi r.hi d.1 = false → (rangeStep r c1).1 = none) ∧
      (Spec.belowHi r.hi d.1 = true → ∃ c2, rangeStep r c1 = (some d, { r with c := c2 }) ∧
          CInv t c2 ∧ c2.nextCalled = true ∧ pending c2 = l)) := by
  obtain ⟨h1, h2, h3, h4⟩ := next_spec t c1 hc
  constructor
  · intro hp
    rw [hp] at h1
    have e : c1.next = (none, c1.next.2) := Prod.ext (by simpa using h1) rfl
    unfold rangeStep; rw [e]
  · intro d l hp
    rw [hp] at h1 h4
    have e : c1.next = (some d, c1.next.2) := Prod.ext (by simpa using h1) rfl
    constructor
    · intro hb
      unfold rangeStep; rw [e]; simp [hb]
    · intro hb
      refine ⟨c1.next.2, ?_, h2, h3, h4⟩
      unfold rangeStep; rw [e]; simp [hb]

theorem range_loop (t : Tree K E) (n : Nat) : ∀ (r : RangeIt K E), r.c.nextCalled = true →
    CInv t r.c → (pending r.c).length < n →
    RangeIt.drain n r = (pending r.c).takeWhile (fun e => Spec.belowHi r.hi e.1) := by
  induction n with
  | zero => intro r _ _ h; omega
  | succ n ih =>
    intro r hn hc hlen
    obtain ⟨s1, s2⟩ := rangeStep_spec t r r.c hc
    rw [RangeIt.drain, range_next_called r hn]
    cases hp : pending r.c with
    | nil =>
      have := s1 hp
      have e : rangeStep r r.c = (none, (rangeStep r r.c).2) := by rw [← this]
      rw [e]; rfl
    | cons d l =>
      obtain ⟨f1, f2⟩ := s2 d l hp
      rw [List.takeWhile_cons]
      cases hb : Spec.belowHi r.hi d.1 with
      | false =>
        have := f1 hb
        have e : rangeStep r r.c = (none, (rangeStep r r.c).2) := by rw [← this]
        rw [e]; simp
      | true =>
        obtain ⟨c2, e, g1, g2, g3⟩ := f2 hb
        rw [e]
        simp only [if_true]
        rw [ih { r with c := c2 } g2 g1 (by simp only; rw [g3]; rw [hp] at hlen; simpa using hlen)]
        simp only [g3]

theorem range_first (t : Tree K E) (n : Nat) (r : RangeIt K E) (c1 : Cursor K E) (hc : CInv t c1)
    (hr : r.next = rangeStep r c1) (hlen : (pending c1).length < n) :
    RangeIt.drain n r = (pending c1).takeWhile (fun e => Spec.belowHi r.hi e.1) := by
  cases n with
  | zero => omega
  | succ n =>
    obtain ⟨s1, s2⟩ := rangeStep_spec t r c1 hc
    rw [RangeIt.drain, hr]
    cases hp : pending c1 with
    | nil =>
      have := s1 hp
      have e : rangeStep r c1 = (none, (rangeStep r c1).2) := by rw [← this]
      rw [e]; rfl
    | cons d l =>
      obtain ⟨f1, f2⟩ := s2 d l hp
      rw [List.takeWhile_cons]
      cases hb : Spec.belowHi r.hi d.1 with
      | false =>
        have := f1 hb
        have e : rangeStep r c1 = (none, (rangeStep r c1).2) := by rw [← this]
        rw [e]; simp
      | true =>
        obtain ⟨c2, e, g1, g2, g3⟩ := f2 hb
        rw [e]
        simp only [if_true]
        rw [range_loop t n { r with c := c2 } g2 g1
          (by simp only; rw [g3]; rw [hp] at hlen; simpa using hlen)]
        simp only [g3]

end Jamm
