/-
Layer S: a whole tree written to pages reads back as the same tree.
-/
import Jamm.Model.EncodeTree
import Jamm.Proofs.EncodeLemmas
import Jamm.Proofs.EncodeTreeBasic
set_option linter.unusedSectionVars false
set_option linter.unusedVariables false
set_option linter.unusedSimpArgs false

namespace Jamm

section
variable (L : Layout) (pagesize : Nat)

/-! ### runs as byte ranges -/

/-- `i` is outside the byte range of every run of `rs` -/
def RunOut (rs : List (Nat × Nat)) (i : Nat) : Prop :=
  ∀ r ∈ rs, i < r.1 * pagesize ∨ (r.1 + r.2 + 1) * pagesize ≤ i

theorem run_bytes (p o : Nat) : (p + o + 1) * pagesize = p * pagesize + (o + 1) * pagesize := by
  rw [Nat.add_assoc, Nat.add_mul]

/-- runs that share no page share no byte -/
theorem runsDisjoint_out {a b : Nat × Nat} (h : runsDisjoint a b) (i : Nat) (h1 : a.1 * pagesize ≤ i)
    (h2 : i < (a.1 + a.2 + 1) * pagesize) : i < b.1 * pagesize ∨ (b.1 + b.2 + 1) * pagesize ≤ i := by
  rcases h with h | h
  · left; exact Nat.lt_of_lt_of_le h2 (Nat.mul_le_mul_right _ (by omega))
  · right; exact Nat.le_trans (Nat.mul_le_mul_right _ (by omega)) h1

/-! ### the tree writer: size and frame -/

theorem writeLeafPage_size (pid overflow : Nat) (es : List (Bytes × LeafVal)) (s : Src) :
    (writeLeafPage L pagesize pid overflow es s).size = s.size := by
  simp only [writeLeafPage]
  rw [writeLeafElems_size, writeHeader_size]

theorem writeBranchPage_size (pid overflow : Nat) (es : List (Bytes × Nat)) (s : Src) :
    (writeBranchPage L pagesize pid overflow es s).size = s.size := by
  simp only [writeBranchPage]
  rw [writeBranchElems_size, writeHeader_size]

mutual
theorem writeTreeT_size (ov : Nat → Nat) (t : Tree Bytes LeafVal) (s : Src) :
    (writeTreeT L pagesize ov t s).size = s.size := by
  match t with
  | .leaf p es => simp only [writeTreeT]; exact writeLeafPage_size L pagesize _ _ _ _
  | .branch p kids =>
    simp only [writeTreeT]
    rw [writeTreeF_size ov kids, writeBranchPage_size]
theorem writeTreeF_size (ov : Nat → Nat) (f : Forest Bytes LeafVal) (s : Src) :
    (writeTreeF L pagesize ov f s).size = s.size := by
  match f with
  | .nil => simp only [writeTreeF]
  | .cons k t rest =>
    simp only [writeTreeF]
    rw [writeTreeF_size ov rest, writeTreeT_size ov t]
end

mutual
theorem writeTreeT_get (hL : L.WFEnc = true) (ov : Nat → Nat) (sz : Nat) (t : Tree Bytes LeafVal) (s : Src) (i : Nat)
    (hfit : nodesFit L pagesize ov sz t = true) (h : RunOut pagesize (nodeRunsT ov t) i) :
    (writeTreeT L pagesize ov t s).get i = s.get i := by
  match t with
  | .leaf p es =>
    simp only [nodesFit, Bool.and_eq_true, decide_eq_true_eq] at hfit
    obtain ⟨⟨⟨⟨h1, h2⟩, h3⟩, h4⟩, h5⟩ := hfit
    have hr := h (p, ov p) (by simp [nodeRunsT])
    simp only [] at hr
    rw [run_bytes] at hr
    simp only [writeTreeT]
    exact (writeLeafPage_frame L hL pagesize p (ov p) es s i (by omega)).1
  | .branch p kids =>
    simp only [nodesFit, Bool.and_eq_true, decide_eq_true_eq] at hfit
    obtain ⟨⟨⟨⟨h1, h2⟩, h3⟩, h4⟩, h5⟩ := hfit
    have hr := h (p, ov p) (by simp [nodeRunsT])
    simp only [] at hr
    rw [run_bytes] at hr
    simp only [writeTreeT]
    rw [writeTreeF_get hL ov sz kids _ i h5 (fun r hr => h r (by simp [nodeRunsT, hr]))]
    exact (writeBranchPage_frame L hL pagesize p (ov p) _ s i (by omega)).1
theorem writeTreeF_get (hL : L.WFEnc = true) (ov : Nat → Nat) (sz : Nat) (f : Forest Bytes LeafVal) (s : Src) (i : Nat)
    (hfit : nodesFitF L pagesize ov sz f = true) (h : RunOut pagesize (nodeRunsF ov f) i) :
    (writeTreeF L pagesize ov f s).get i = s.get i := by
  match f with
  | .nil => simp only [writeTreeF]
  | .cons k t rest =>
    simp only [nodesFitF, Bool.and_eq_true] at hfit
    simp only [writeTreeF]
    rw [writeTreeF_get hL ov sz rest _ i hfit.2 (fun r hr => h r (by simp [nodeRunsF, hr])),
      writeTreeT_get hL ov sz t s i hfit.1 (fun r hr => h r (by simp [nodeRunsF, hr]))]
end

/-! ### what the written file holds -/

mutual
/-- every node of the tree decodes from its own page -/
def StoredT (ov : Nat → Nat) (s : Src) : Tree Bytes LeafVal → Prop
  | .leaf p es =>
    decodePage L s pagesize p = .ok { id := p, overflow := ov p, count := es.length, body := .leaf es }
  | .branch p kids =>
    decodePage L s pagesize p =
      .ok { id := p, overflow := ov p, count := (Forest.entries kids).length, body := .branch (Forest.entries kids) } ∧
    StoredF ov s kids
def StoredF (ov : Nat → Nat) (s : Src) : Forest Bytes LeafVal → Prop
  | .nil => True
  | .cons _ t rest => StoredT ov s t ∧ StoredF ov s rest
end

mutual
/-- `Stored` only depends on the bytes of the runs of the nodes (and the file size) -/
theorem StoredT.agree (W : L.WF) (hhdr : L.pageSize ≤ pagesize) (ov : Nat → Nat) (s s' : Src) (hsz : s'.size = s.size)
    (t : Tree Bytes LeafVal) (h : StoredT L pagesize ov s t)
    (hag : ∀ r ∈ nodeRunsT ov t, Src.AgreeOn s s' (r.1 * pagesize) ((r.1 + r.2 + 1) * pagesize)) :
    StoredT L pagesize ov s' t := by
  match t with
  | .leaf p es =>
    simp only [StoredT] at h ⊢
    have hr := hag (p, ov p) (by simp [nodeRunsT])
    simp only [] at hr
    rw [run_bytes] at hr
    exact decodePage_agree L W s s' pagesize p _ hhdr hsz h (by intro m hm; cases hm) hr
  | .branch p kids =>
    simp only [StoredT] at h ⊢
    have hr := hag (p, ov p) (by simp [nodeRunsT])
    simp only [] at hr
    rw [run_bytes] at hr
    exact ⟨decodePage_agree L W s s' pagesize p _ hhdr hsz h.1 (by intro m hm; cases hm) hr,
      StoredF.agree W hhdr ov s s' hsz kids h.2 (fun r hr => hag r (by simp [nodeRunsT, hr]))⟩
theorem StoredF.agree (W : L.WF) (hhdr : L.pageSize ≤ pagesize) (ov : Nat → Nat) (s s' : Src) (hsz : s'.size = s.size)
    (f : Forest Bytes LeafVal) (h : StoredF L pagesize ov s f)
    (hag : ∀ r ∈ nodeRunsF ov f, Src.AgreeOn s s' (r.1 * pagesize) ((r.1 + r.2 + 1) * pagesize)) :
    StoredF L pagesize ov s' f := by
  match f with
  | .nil => simp only [StoredF]
  | .cons k t rest =>
    simp only [StoredF] at h ⊢
    exact ⟨StoredT.agree W hhdr ov s s' hsz t h.1 (fun r hr => hag r (by simp [nodeRunsF, hr])),
      StoredF.agree W hhdr ov s s' hsz rest h.2 (fun r hr => hag r (by simp [nodeRunsF, hr]))⟩
end

theorem nodesFit_pid (ov : Nat → Nat) (sz : Nat) (t : Tree Bytes LeafVal)
    (h : nodesFit L pagesize ov sz t = true) : t.pid < 2 ^ 64 := by
  cases t with
  | leaf p es =>
    simp only [nodesFit, Bool.and_eq_true, decide_eq_true_eq] at h
    exact h.1.1.2
  | branch p kids =>
    simp only [nodesFit, Bool.and_eq_true, decide_eq_true_eq] at h
    exact h.1.1.2

theorem entries_lt (ov : Nat → Nat) (sz : Nat) : (f : Forest Bytes LeafVal) →
    nodesFitF L pagesize ov sz f = true → ∀ e ∈ Forest.entries f, e.2 < 2 ^ 64
  | .nil, _ => by intro e he; simp [Forest.entries] at he
  | .cons k t rest, h => by
    simp only [nodesFitF, Bool.and_eq_true] at h
    intro e he
    simp only [Forest.entries, List.mem_cons] at he
    rcases he with he | he
    · subst he; exact nodesFit_pid L pagesize ov sz t h.1
    · exact entries_lt ov sz rest h.2 e he

mutual
theorem writeTreeT_stored (hL : L.WFEnc = true) (hhdr : L.pageSize ≤ pagesize) (ov : Nat → Nat) (sz : Nat)
    (t : Tree Bytes LeafVal) (s : Src) (hs : s.size = sz)
    (hfit : nodesFit L pagesize ov sz t = true) (hdisj : (nodeRunsT ov t).Pairwise runsDisjoint) :
    StoredT L pagesize ov (writeTreeT L pagesize ov t s) t := by
  match t with
  | .leaf p es =>
    simp only [nodesFit, Bool.and_eq_true, decide_eq_true_eq, List.all_eq_true] at hfit
    obtain ⟨⟨⟨⟨h1, h2⟩, h3⟩, h4⟩, h5⟩ := hfit
    simp only [StoredT, writeTreeT]
    exact decode_writeLeafPage L hL pagesize p (ov p) es s (by omega) h1 hhdr h3 h4 h5
  | .branch p kids =>
    have hfit' := hfit
    simp only [nodesFit, Bool.and_eq_true, decide_eq_true_eq] at hfit
    obtain ⟨⟨⟨⟨h1, h2⟩, h3⟩, h4⟩, h5⟩ := hfit
    simp only [nodeRunsT, List.pairwise_cons] at hdisj
    obtain ⟨hA, hB⟩ := hdisj
    simp only [StoredT, writeTreeT]
    have hd := decode_writeBranchPage L hL pagesize p (ov p) (Forest.entries kids) s (by omega) h1 hhdr h3 h4
      (entries_lt L pagesize ov sz kids h5)
    have hs1 := writeBranchPage_size L pagesize p (ov p) (Forest.entries kids) s
    generalize writeBranchPage L pagesize p (ov p) (Forest.entries kids) s = s1 at hd hs1 ⊢
    refine ⟨?_, writeTreeF_stored hL hhdr ov sz kids s1 (by omega) h5 hB⟩
    refine decodePage_agree L (Layout.WF.of L hL) s1 _ pagesize p _ hhdr (writeTreeF_size L pagesize ov kids s1) hd
      (by intro m hm; cases hm) ?_
    intro i i1 i2
    rw [← run_bytes] at i2
    exact writeTreeF_get L pagesize hL ov sz kids s1 i h5 (fun r hr => runsDisjoint_out pagesize (hA r hr) i i1 i2)
theorem writeTreeF_stored (hL : L.WFEnc = true) (hhdr : L.pageSize ≤ pagesize) (ov : Nat → Nat) (sz : Nat)
    (f : Forest Bytes LeafVal) (s : Src) (hs : s.size = sz)
    (hfit : nodesFitF L pagesize ov sz f = true) (hdisj : (nodeRunsF ov f).Pairwise runsDisjoint) :
    StoredF L pagesize ov (writeTreeF L pagesize ov f s) f := by
  match f with
  | .nil => simp only [StoredF]
  | .cons k t rest =>
    simp only [nodesFitF, Bool.and_eq_true] at hfit
    simp only [nodeRunsF, List.pairwise_append] at hdisj
    obtain ⟨hA, hB, hC⟩ := hdisj
    simp only [StoredF, writeTreeF]
    have h1 := writeTreeT_stored hL hhdr ov sz t s hs hfit.1 hA
    have hs1 := writeTreeT_size L pagesize ov t s
    generalize writeTreeT L pagesize ov t s = s1 at h1 hs1 ⊢
    refine ⟨?_, writeTreeF_stored hL hhdr ov sz rest s1 (by omega) hfit.2 hB⟩
    refine StoredT.agree L pagesize (Layout.WF.of L hL) hhdr ov s1 _ (writeTreeF_size L pagesize ov rest s1) t h1 ?_
    intro r hr i i1 i2
    exact writeTreeF_get L pagesize hL ov sz rest s1 i hfit.2
      (fun r' hr' => runsDisjoint_out pagesize (hC r hr r' hr') i i1 i2)
end

/-! ### reading a stored tree back -/

mutual
theorem unfoldT_stored (ov : Nat → Nat) (s : Src) (t : Tree Bytes LeafVal) (h : StoredT L pagesize ov s t)
    (fuel : Nat) (hf : t.nodes ≤ fuel) : unfoldT (pageStoreOf L pagesize s) fuel t.pid = some t := by
  match t, fuel with
  | .leaf p es, 0 => simp [Tree.nodes] at hf
  | .leaf p es, fuel + 1 =>
    simp only [StoredT] at h
    simp only [unfoldT, Tree.pid, pageStoreOf, h]
  | .branch p kids, 0 => simp [Tree.nodes] at hf
  | .branch p kids, fuel + 1 =>
    simp only [StoredT] at h
    simp only [Tree.nodes] at hf
    simp only [unfoldT, Tree.pid, pageStoreOf, h.1]
    have := unfoldF_stored ov s kids h.2 fuel (by omega)
    rw [this]
    rfl
theorem unfoldF_stored (ov : Nat → Nat) (s : Src) (f : Forest Bytes LeafVal) (h : StoredF L pagesize ov s f)
    (fuel : Nat) (hf : Tree.nodesF f ≤ fuel) :
    unfoldF (pageStoreOf L pagesize s) fuel (Forest.entries f) = some f := by
  match f with
  | .nil => simp only [Forest.entries, unfoldF]
  | .cons k t rest =>
    simp only [StoredF] at h
    simp only [Tree.nodesF] at hf
    simp only [Forest.entries, unfoldF]
    rw [unfoldT_stored ov s t h.1 fuel (by omega), unfoldF_stored ov s rest h.2 fuel (by omega)]
end

/-! ### the two results -/

/-- W1: unfolding the file from the root page after `writeTreeT` gives back exactly the tree that was written
(keys, values, nested-bucket headers, page ids), for every tree whose nodes fit their runs and whose runs are
pairwise disjoint -/
theorem unfold_writeTree (hL : L.WFEnc = true) (hhdr : L.pageSize ≤ pagesize) (ov : Nat → Nat)
    (t : Tree Bytes LeafVal) (s : Src)
    (hfit : nodesFit L pagesize ov s.size t = true)
    (hdisj : (nodeRunsT ov t).Pairwise runsDisjoint)
    (fuel : Nat) (hfuel : t.nodes ≤ fuel) :
    unfoldT (pageStoreOf L pagesize (writeTreeT L pagesize ov t s)) fuel t.pid = some t :=
  unfoldT_stored L pagesize ov _ t (writeTreeT_stored L pagesize hL hhdr ov s.size t s rfl hfit hdisj) fuel hfuel

/-- W2: writing a tree changes no byte outside the runs of its nodes -/
theorem writeTree_frame (hL : L.WFEnc = true) (ov : Nat → Nat) (t : Tree Bytes LeafVal) (s : Src) (i : Nat)
    (hfit : nodesFit L pagesize ov s.size t = true)
    (h : ∀ r ∈ nodeRunsT ov t, i < r.1 * pagesize ∨ (r.1 + r.2 + 1) * pagesize ≤ i) :
    (writeTreeT L pagesize ov t s).get i = s.get i ∧ (writeTreeT L pagesize ov t s).size = s.size :=
  ⟨writeTreeT_get L pagesize hL ov s.size t s i hfit h, writeTreeT_size L pagesize ov t s⟩

end
end Jamm
