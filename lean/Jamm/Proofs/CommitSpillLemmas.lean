/-
Layer C proofs, part 3: `spill` (node split at commit) preserves uniform depth and the separator
invariant.  Statement: the pieces a node is written as, put side by side under one branch, form a
well-formed branch for the bounds of the node — where the lower bound of the node is either absent
(leftmost spine) or the key its parent holds for it.
-/
import Jamm.Model.CommitInv
import Jamm.Proofs.CommitLemmas
import Jamm.Proofs.SplitLemmas
import Jamm.Proofs.CommitSpillBasic
set_option linter.unusedSectionVars false
open Std

namespace Jamm

section
variable {E : Type} (p : Params) (pagesize hdr leafHdr branchHdr : Nat) (esz : Bytes × E → Nat)

theorem pieceL_eq (key : Bytes) :
    (fun c : List (Bytes × E) => (firstKeyOr key c, Tree.leaf 0 c)) = pieceL key := by
  funext c; cases c with
  | nil => rfl
  | cons a r => obtain ⟨k, e⟩ := a; rfl

theorem pieceB_eq (key : Bytes) :
    (fun c : List (Bytes × Tree Bytes E) => (firstKeyOr key c, Tree.branch 0 (Forest.ofList c))) =
      pieceB key := by
  funext c; cases c with
  | nil => rfl
  | cons a r => obtain ⟨k, e⟩ := a; rfl

theorem spillT_ne_nil (key : Bytes) (t : Tree Bytes E) :
    spillT p pagesize hdr leafHdr branchHdr esz key t ≠ [] := by
  cases t with
  | leaf pid es =>
    simp only [spillT]
    split
    · simp
    · simpa using cutAt_ne_nil_sp _ _ _
  | branch pid kids =>
    simp only [spillT]
    split
    · simp
    · simpa using cutAt_ne_nil_sp _ _ _

mutual
theorem spillT_uniform_aux (key : Bytes) (t : Tree Bytes E) (d : Nat) (hu : UniformT d t) :
    ∀ q ∈ spillT p pagesize hdr leafHdr branchHdr esz key t, UniformT d q.2 := by
  match t with
  | .leaf pid es =>
    cases hu
    simp only [spillT]
    split
    · intro q hq
      simp only [List.mem_singleton] at hq
      subst hq; exact UniformT.leaf _ _
    · intro q hq
      simp only [List.mem_map] at hq
      obtain ⟨c, _, rfl⟩ := hq
      exact UniformT.leaf _ _
  | .branch pid kids =>
    obtain ⟨d', rfl, hk⟩ := uniformT_branch_inv hu
    simp only [spillT]
    split
    · intro q hq
      simp only [List.mem_singleton] at hq
      subst hq; exact hu
    · intro q hq
      simp only [List.mem_map] at hq
      obtain ⟨c, hc, rfl⟩ := hq
      refine UniformT.branch _ _ _ (uniformF_ofList d' c ?_)
      intro e he
      exact spillF_uniform kids d' hk e (mem_of_mem_cutAt hc he)
theorem spillF_uniform (f : Forest Bytes E) (d : Nat) (hu : UniformF d f) :
    ∀ q ∈ spillF p pagesize hdr leafHdr branchHdr esz f, UniformT d q.2 := by
  match f with
  | .nil => simp [spillF]
  | .cons k t rest =>
    obtain ⟨ht, hr⟩ := uniformF_cons_inv hu
    intro q hq
    simp only [spillF, List.mem_append] at hq
    rcases hq with hq | hq
    · exact spillT_uniform_aux k t d ht q hq
    · exact spillF_uniform rest d hr q hq
end

/-- S1: every piece has the depth of the node it was cut from -/
theorem spillT_uniform (key : Bytes) (t : Tree Bytes E) (d : Nat) (hu : UniformT d t) :
    ∀ q ∈ spillT p pagesize hdr leafHdr branchHdr esz key t, UniformT d q.2 :=
  spillT_uniform_aux p pagesize hdr leafHdr branchHdr esz key t d hu

/-- S2: … so the rewritten tree has uniform depth -/
theorem spillRoot_uniform (fuel : Nat) (t : Tree Bytes E) (d : Nat) (hu : UniformT d t) :
    ∃ d', UniformT d' (spillRoot p pagesize hdr leafHdr branchHdr esz fuel t) := by
  induction fuel generalizing t d with
  | zero => exact ⟨d, hu⟩
  | succ fuel ih =>
    have hs := spillT_uniform p pagesize hdr leafHdr branchHdr esz [] t d hu
    simp only [spillRoot]
    split
    · exact ⟨d, hu⟩
    · rename_i k r heq
      rw [heq] at hs
      exact ⟨d, hs (k, r) List.mem_cons_self⟩
    · exact ih _ (d + 1) (UniformT.branch d 1 _ (uniformF_ofList d _ hs))

mutual
theorem spillT_wfs_aux (hp : p.Valid) (key : Bytes) (lo hi : Option Bytes) (t : Tree Bytes E)
    (hlo : lo = none ∨ lo = some key) (hhi : inHi hi key) (hw : WFS lo hi t) :
    WFS lo hi (.branch 0 (Forest.ofList (spillT p pagesize hdr leafHdr branchHdr esz key t))) := by
  have hlok : inLo lo key := by
    rcases hlo with rfl | rfl
    · trivial
    · exact kle_refl key
  have hsep : sepLo lo key = lo := by
    rcases hlo with rfl | rfl <;> rfl
  match t with
  | .leaf pid es =>
    simp only [spillT]
    split
    · simp only [Forest.ofList]
      refine WFS.branch _ _ _ _ _ _ hlok hhi (WFFS.last _ _ _ _ ?_)
      rw [hsep]; exact hw
    · rw [pieceL_eq]
      cases hw with
      | leaf _ _ _ _ hs hb =>
        rcases split_chunks_cases p hp pagesize hdr leafHdr (es.map (esz)) es (by simp)
          with ⟨rfl, hc⟩ | hne
        · rw [hc]
          simp only [List.map_cons, List.map_nil, pieceL, Forest.ofList]
          refine WFS.branch _ _ _ _ _ _ hlok hhi (WFFS.last _ _ _ _ (WFS.leaf _ _ _ _ trivial ?_))
          intro e he; cases he
        · refine chunkL key _ hne (cutAt_ne_nil_sp _ _ _) ?_ ?_
          · rw [cutAt_flatten']; exact hs
          · rw [cutAt_flatten']; exact hb
  | .branch pid kids =>
    simp only [spillT]
    split
    · simp only [Forest.ofList]
      refine WFS.branch _ _ _ _ _ _ hlok hhi (WFFS.last _ _ _ _ ?_)
      rw [hsep]; exact hw
    · rw [pieceB_eq]
      rcases split_chunks_cases p hp pagesize hdr branchHdr
          ((spillF p pagesize hdr leafHdr branchHdr esz kids).map (fun e => e.1.length))
          (spillF p pagesize hdr leafHdr branchHdr esz kids) (by simp)
        with ⟨_, hc⟩ | hne
      · rw [hc]
        simp only [List.map_cons, List.map_nil, pieceB, Forest.ofList]
        exact WFS.branch _ _ _ _ _ _ hlok hhi (WFFS.last _ _ _ _ (WFS.emptyBranch _ _ _))
      · refine chunkB key _ hne (cutAt_ne_nil_sp _ _ _) ?_
        rw [cutAt_flatten']
        match kids, hw with
        | .nil, _ =>
          simp only [spillF, Forest.ofList]
          exact WFS.emptyBranch _ _ _
        | .cons k t rest, hw =>
          cases hw with
          | branch _ _ _ _ _ _ h1 h2 h3 =>
            have hl : sepLo lo k = none ∨ sepLo lo k = some k := by
              cases lo with
              | none => exact Or.inl rfl
              | some l => exact Or.inr rfl
            exact wfs_of_sepLo h1 (spillF_wfs hp (sepLo lo k) hi (.cons k t rest) hl h2 h3)
theorem spillF_wfs (hp : p.Valid) (lo hi : Option Bytes) (f : Forest Bytes E) :
    match f with
    | .nil => True
    | .cons k t rest => (lo = none ∨ lo = some k) → inHi hi k → WFFS lo hi k t rest →
      WFS lo hi (.branch 0 (Forest.ofList (spillF p pagesize hdr leafHdr branchHdr esz (.cons k t rest)))) := by
  match f with
  | .nil => trivial
  | .cons k t .nil =>
    intro hlo hhi hw
    cases hw with
    | last _ _ _ _ ht =>
      simp only [spillF, List.append_nil]
      exact spillT_wfs_aux hp k lo hi t hlo hhi ht
  | .cons k t (.cons k' t' rest') =>
    intro hlo hhi hw
    cases hw with
    | cons _ _ _ _ _ _ _ hk hlo' hhi' ht hr =>
      have hA := spillT_wfs_aux hp k lo (some k') t hlo hk ht
      have hB := spillF_wfs hp (some k') hi (.cons k' t' rest') (Or.inr rfl) hhi' hr
      rw [spillF]
      refine wfs_branch_append (spillT_ne_nil p pagesize hdr leafHdr branchHdr esz k t) ?_ hA hB
      rw [spillF]
      intro h
      exact spillT_ne_nil p pagesize hdr leafHdr branchHdr esz k' t' (List.append_eq_nil_iff.mp h).1
end

/-- S3: the pieces of a node, side by side, are a well-formed branch for the node's bounds -/
theorem spillT_wfs (hp : p.Valid) (key : Bytes) (lo hi : Option Bytes) (t : Tree Bytes E) (d : Nat)
    (hlo : lo = none ∨ lo = some key) (hhi : inHi hi key)
    (hw : WFS lo hi t) (hu : UniformT d t) :
    WFS lo hi (.branch 0 (Forest.ofList (spillT p pagesize hdr leafHdr branchHdr esz key t))) := by
  have _ := hu   -- uniform depth is not needed for the separator invariant
  exact spillT_wfs_aux p pagesize hdr leafHdr branchHdr esz hp key lo hi t hlo hhi hw

/-- S4: spilling the root keeps the separator invariant -/
theorem spillRoot_wfs (hp : p.Valid) (fuel : Nat) (t : Tree Bytes E) (d : Nat)
    (hw : WFS none none t) (hu : UniformT d t) :
    WFS none none (spillRoot p pagesize hdr leafHdr branchHdr esz fuel t) := by
  induction fuel generalizing t d with
  | zero => exact hw
  | succ fuel ih =>
    have hs := spillT_uniform p pagesize hdr leafHdr branchHdr esz [] t d hu
    have hws := spillT_wfs_aux p pagesize hdr leafHdr branchHdr esz hp [] none none t (Or.inl rfl) trivial hw
    simp only [spillRoot]
    split
    · exact hw
    · rename_i k r heq
      rw [heq] at hws
      simp only [Forest.ofList] at hws
      cases hws with
      | branch _ _ _ _ _ _ _ _ h3 =>
        cases h3 with
        | last _ _ _ _ hr => exact hr
    · exact ih _ (d + 1) (wfs_pid 1 hws) (UniformT.branch d 1 _ (uniformF_ofList d _ hs))

end
end Jamm

