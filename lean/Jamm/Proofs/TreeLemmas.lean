/-
Layer Q/T proofs, part 1: `indexOf`, routing, point lookup, leaf edits.
-/
import Jamm.Model.Tree
import Jamm.Proofs.SpecLemmas
set_option linter.unusedSectionVars false
open Std

namespace Jamm
variable {K E : Type} [Ord K] [TransOrd K] [LawfulEqOrd K] [DecidableEq K]

/-- strictly ascending list of keys -/
def KeysSorted : List K → Prop
  | [] => True
  | [_] => True
  | a :: b :: rest => klt a b = true ∧ KeysSorted (b :: rest)

/-- number of keys strictly below `key` -/
def countBelow (keys : List K) (key : K) : Nat := (keys.takeWhile (fun a => klt a key)).length

/-! ### `countBelow` / `indexOf` basics -/

theorem indexOf_def (keys : List K) (key : K) :
    indexOf keys key =
      match keys[countBelow keys key]? with
      | some a => if compare a key == .eq then (countBelow keys key, true)
                  else (countBelow keys key - 1, false)
      | none => (countBelow keys key - 1, false) := rfl

theorem countBelow_nil (key : K) : countBelow ([] : List K) key = 0 := rfl

theorem countBelow_cons (a : K) (rest : List K) (key : K) :
    countBelow (a :: rest) key = if klt a key = true then countBelow rest key + 1 else 0 := by
  unfold countBelow
  rw [List.takeWhile_cons]
  split <;> simp

theorem keysSorted_cons {a : K} {l : List K} :
    KeysSorted (a :: l) ↔ (∀ b ∈ l, klt a b = true) ∧ KeysSorted l := by
  induction l generalizing a with
  | nil => simp [KeysSorted]
  | cons b tl ih =>
    simp only [KeysSorted]
    rw [ih]
    constructor
    · rintro ⟨hab, hb, hs⟩
      refine ⟨?_, hb, hs⟩
      intro e he
      rcases List.mem_cons.mp he with rfl | he
      · exact hab
      · exact klt_trans hab (hb e he)
    · rintro ⟨ha, hb, hs⟩
      exact ⟨ha b List.mem_cons_self, hb, hs⟩

/-- on strictly ascending keys, the number of keys below a present key is its position -/
theorem countBelow_of_getElem? (keys : List K) (key : K) (hs : KeysSorted keys) (i : Nat)
    (h : keys[i]? = some key) : countBelow keys key = i := by
  induction keys generalizing i with
  | nil => simp at h
  | cons a rest ih =>
    rw [keysSorted_cons] at hs
    cases i with
    | zero =>
      simp at h
      subst h
      simp [countBelow_cons, klt_irrefl]
    | succ i =>
      simp at h
      have hmem : key ∈ rest := List.mem_of_getElem? h
      rw [countBelow_cons, if_pos (hs.1 key hmem), ih hs.2 i h]

/-- the entry just after the keys below `key` is not below `key` -/
theorem not_klt_of_getElem?_countBelow (keys : List K) (key a : K)
    (h : keys[countBelow keys key]? = some a) : klt a key = false := by
  induction keys with
  | nil => simp at h
  | cons b rest ih =>
    rw [countBelow_cons] at h
    by_cases hb : klt b key = true
    · rw [if_pos hb] at h
      simp at h
      exact ih h
    · rw [if_neg hb] at h
      simp at h
      subst h
      simpa using hb

/-- Q1a: a present key is found at its position -/
theorem indexOf_mem (keys : List K) (key : K) (hs : KeysSorted keys) (i : Nat) (h : keys[i]? = some key) :
    indexOf keys key = (i, true) := by
  have hc := countBelow_of_getElem? keys key hs i h
  rw [indexOf_def, hc, h]
  simp [ReflCmp.compare_self]

/-- Q1b: an absent key yields the slot before its insertion point (saturating at 0) -/
theorem indexOf_not_mem (keys : List K) (key : K) (hs : KeysSorted keys) (h : key ∉ keys) :
    indexOf keys key = (countBelow keys key - 1, false) := by
  rw [indexOf_def]
  split
  · rename_i a ha
    have hmem : a ∈ keys := List.mem_of_getElem? ha
    have hne : ¬ (compare a key = .eq) := by
      intro he
      rw [compare_eq_iff_eq] at he
      subst he
      exact h hmem
    simp [hne]
  · rfl

/-! ### routing: `(indexOf keys key).1` on a branch's key list -/

theorem indexOf_single (k key : K) : (indexOf [k] key).1 = 0 := by
  rw [indexOf_def, countBelow_cons, countBelow_nil]
  by_cases hk : klt k key = true
  · simp [hk]
  · simp only [hk]
    simp only [Bool.false_eq_true, if_false, List.getElem?_cons_zero]
    split <;> rfl

theorem indexOf_cons_cons_lt (k k' : K) (rest : List K) (key : K)
    (h : klt key k' = true) : (indexOf (k :: k' :: rest) key).1 = 0 := by
  have h' : klt k' key = false := klt_asymm h
  have hne : ¬ (compare k' key = .eq) := by
    intro he
    rw [compare_eq_iff_eq] at he
    subst he
    rw [klt_irrefl] at h
    exact Bool.false_ne_true h
  rw [indexOf_def, countBelow_cons, countBelow_cons, h']
  by_cases hk : klt k key = true
  · simp [hk, hne]
  · simp only [hk]
    simp only [Bool.false_eq_true, if_false, List.getElem?_cons_zero]
    split <;> rfl

theorem indexOf_cons_cons_ge (k k' : K) (rest : List K) (key : K) (hk : klt k k' = true)
    (h : klt key k' = false) :
    (indexOf (k :: k' :: rest) key).1 = (indexOf (k' :: rest) key).1 + 1 := by
  have hle : kle k' key = true := by rw [kle_iff_not_lt, h]; rfl
  have hkk : klt k key = true := klt_of_klt_of_kle hk hle
  rw [indexOf_def, indexOf_def, countBelow_cons k, if_pos hkk, List.getElem?_cons_succ]
  generalize hm : countBelow (k' :: rest) key = m
  cases hg : (k' :: rest)[m]? with
  | none =>
    have : (k' :: rest).length ≤ m := List.getElem?_eq_none_iff.mp hg
    simp only [List.length_cons] at this
    show m + 1 - 1 = m - 1 + 1
    omega
  | some a =>
    by_cases he : compare a key = .eq
    · simp [he]
    · simp only [he, beq_iff_eq, if_false]
      show m + 1 - 1 = m - 1 + 1
      have hm1 : 1 ≤ m := by
        rw [countBelow_cons] at hm
        by_cases hk' : klt k' key = true
        · rw [if_pos hk'] at hm; omega
        · rw [if_neg hk'] at hm
          subst hm
          simp at hg
          subst hg
          exfalso
          apply he
          rw [compare_eq_iff_eq]
          rcases klt_trichotomy k' key with h1 | h1 | h1
          · exact absurd h1 hk'
          · exact h1
          · rw [h] at h1; exact absurd h1 Bool.false_ne_true
      omega

/-! ### sorted association lists: append lemmas -/

namespace Spec
variable {α : Type}

theorem sorted_append {l₁ l₂ : List (K × α)} (h₁ : Sorted l₁) (h₂ : Sorted l₂)
    (h : ∀ a ∈ l₁, ∀ b ∈ l₂, klt a.1 b.1 = true) : Sorted (l₁ ++ l₂) := by
  induction l₁ with
  | nil => exact h₂
  | cons hd tl ih =>
    obtain ⟨a, x⟩ := hd
    rw [sorted_cons] at h₁
    rw [List.cons_append, sorted_cons]
    refine ⟨?_, ih h₁.2 (fun a ha b hb => h a (List.mem_cons_of_mem _ ha) b hb)⟩
    intro e he
    rcases List.mem_append.mp he with he | he
    · exact h₁.1 e he
    · exact h (a, x) List.mem_cons_self e he

theorem lookup_append_of_lt {key : K} {l₁ l₂ : List (K × α)}
    (h : ∀ e ∈ l₁, klt e.1 key = true) : lookup key (l₁ ++ l₂) = lookup key l₂ := by
  induction l₁ with
  | nil => rfl
  | cons hd tl ih =>
    obtain ⟨a, x⟩ := hd
    have ha : a ≠ key := klt_ne (h (a, x) List.mem_cons_self)
    simp only [List.cons_append, lookup, if_neg ha]
    exact ih (fun e he => h e (List.mem_cons_of_mem _ he))

theorem lookup_append_of_gt {key : K} {l₁ l₂ : List (K × α)}
    (h : ∀ e ∈ l₂, klt key e.1 = true) : lookup key (l₁ ++ l₂) = lookup key l₁ := by
  induction l₁ with
  | nil => exact lookup_none_of_allAbove h
  | cons hd tl ih =>
    obtain ⟨a, x⟩ := hd
    simp only [List.cons_append, lookup, ih]

theorem insert_append_of_lt {key : K} {x : α} {l₁ l₂ : List (K × α)}
    (h : ∀ e ∈ l₁, klt e.1 key = true) : insert key x (l₁ ++ l₂) = l₁ ++ insert key x l₂ := by
  induction l₁ with
  | nil => rfl
  | cons hd tl ih =>
    obtain ⟨a, y⟩ := hd
    have hlt := h (a, y) List.mem_cons_self
    have ha : key ≠ a := fun e => klt_ne hlt e.symm
    have hnlt : ¬ (klt key a = true) := by rw [klt_asymm hlt]; exact Bool.false_ne_true
    simp only [List.cons_append, insert, if_neg ha, if_neg hnlt]
    rw [ih (fun e he => h e (List.mem_cons_of_mem _ he))]

theorem insert_of_allAbove {key : K} {x : α} {l : List (K × α)}
    (h : ∀ e ∈ l, klt key e.1 = true) : insert key x l = (key, x) :: l := by
  cases l with
  | nil => rfl
  | cons hd tl =>
    obtain ⟨a, y⟩ := hd
    have hlt := h (a, y) List.mem_cons_self
    simp only [insert, if_neg (klt_ne hlt), if_pos hlt]

theorem insert_append_of_gt {key : K} {x : α} {l₁ l₂ : List (K × α)}
    (h : ∀ e ∈ l₂, klt key e.1 = true) : insert key x (l₁ ++ l₂) = insert key x l₁ ++ l₂ := by
  induction l₁ with
  | nil => simp only [List.nil_append, insert_of_allAbove h, insert, List.cons_append]
  | cons hd tl ih =>
    obtain ⟨a, y⟩ := hd
    simp only [List.cons_append, insert, ih]
    split
    · rfl
    · split <;> rfl

theorem erase_append_of_lt {key : K} {l₁ l₂ : List (K × α)}
    (h : ∀ e ∈ l₁, klt e.1 key = true) : erase key (l₁ ++ l₂) = l₁ ++ erase key l₂ := by
  induction l₁ with
  | nil => rfl
  | cons hd tl ih =>
    obtain ⟨a, y⟩ := hd
    have ha : a ≠ key := klt_ne (h (a, y) List.mem_cons_self)
    simp only [List.cons_append, erase, if_neg ha]
    rw [ih (fun e he => h e (List.mem_cons_of_mem _ he))]

theorem erase_of_allAbove {key : K} {l : List (K × α)}
    (h : ∀ e ∈ l, klt key e.1 = true) : erase key l = l := by
  induction l with
  | nil => rfl
  | cons hd tl ih =>
    obtain ⟨a, y⟩ := hd
    have ha : a ≠ key := fun e => klt_ne (h (a, y) List.mem_cons_self) e.symm
    simp only [erase, if_neg ha]
    rw [ih (fun e he => h e (List.mem_cons_of_mem _ he))]

theorem erase_append_of_gt {key : K} {l₁ l₂ : List (K × α)}
    (h : ∀ e ∈ l₂, klt key e.1 = true) : erase key (l₁ ++ l₂) = erase key l₁ ++ l₂ := by
  induction l₁ with
  | nil => simp only [List.nil_append, erase_of_allAbove h, erase]
  | cons hd tl ih =>
    obtain ⟨a, y⟩ := hd
    simp only [List.cons_append, erase, ih]
    split <;> rfl

/-- in a sorted list the entry at any position is the one `lookup` finds -/
theorem lookup_of_getElem? {key : K} {x : α} {l : List (K × α)} (hs : Sorted l) (i : Nat)
    (h : l[i]? = some (key, x)) : lookup key l = some x := by
  induction l generalizing i with
  | nil => simp at h
  | cons hd tl ih =>
    obtain ⟨a, y⟩ := hd
    rw [sorted_cons] at hs
    cases i with
    | zero =>
      simp at h
      obtain ⟨rfl, rfl⟩ := h
      simp [lookup]
    | succ i =>
      simp at h
      have hmem : (key, x) ∈ tl := List.mem_of_getElem? h
      have ha : a ≠ key := klt_ne (hs.1 _ hmem)
      simp only [lookup, if_neg ha]
      exact ih hs.2 i h

theorem lookup_none_of_not_mem {key : K} {l : List (K × α)} (h : key ∉ l.map (·.1)) :
    lookup key l = none := by
  induction l with
  | nil => rfl
  | cons hd tl ih =>
    obtain ⟨a, y⟩ := hd
    simp only [List.map_cons, List.mem_cons, not_or] at h
    simp only [lookup, if_neg (Ne.symm h.1)]
    exact ih h.2

end Spec

theorem keysSorted_map_fst {α : Type} : ∀ (es : List (K × α)), Spec.Sorted es → KeysSorted (es.map (·.1))
  | [], _ => trivial
  | [_], _ => trivial
  | (_, _) :: (b, y) :: rest, h => ⟨h.1, keysSorted_map_fst ((b, y) :: rest) h.2⟩

/-- Q2 at a leaf -/
theorem lookup_leaf (p : Nat) (es : List (K × E)) (hs : Spec.Sorted es) (key : K) :
    (Tree.leaf p es).lookup key = (Spec.lookup key es).map (fun e => (key, e)) := by
  have hks := keysSorted_map_fst es hs
  unfold Tree.lookup
  by_cases hmem : key ∈ es.map (·.1)
  · obtain ⟨i, hi⟩ := List.getElem?_of_mem hmem
    rw [indexOf_mem _ key hks i hi]
    simp only [if_true]
    rw [List.getElem?_map] at hi
    cases hg : es[i]? with
    | none => rw [hg] at hi; simp at hi
    | some e =>
      obtain ⟨a, x⟩ := e
      rw [hg] at hi
      simp at hi
      subst hi
      rw [Spec.lookup_of_getElem? hs i hg]
      rfl
  · rw [indexOf_not_mem _ key hks hmem, Spec.lookup_none_of_not_mem hmem]
    rfl

theorem inHi_of_klt {hi : Option K} {a b : K} (h : klt a b = true) (hb : inHi hi b) : inHi hi a := by
  cases hi with
  | none => trivial
  | some x => exact klt_trans h hb

theorem inLo_of_kle {lo : Option K} {a b : K} (ha : inLo lo a) (h : kle a b = true) : inLo lo b := by
  cases lo with
  | none => trivial
  | some x => exact kle_trans ha h

end Jamm
