/-
Layer A: the plateau along every history (C10).  `extend_implies_small` bounds the page mark at one
extension; here the bound is carried through the allocation loop of one write transaction, through one
event, and through any history of protocol-abiding events: the page mark never exceeds the larger of its
initial value and `K·(n+2)+1`, where `K` bounds the requested run lengths and `n` the number of non-free
pages seen after each event.
-/
import Jamm.Model.Plateau
import Jamm.Proofs.PlateauLemmas
set_option linter.unusedSectionVars false
set_option linter.unusedVariables false

namespace Jamm

/-- a successful first fit never makes the free list longer -/
theorem allocate_free_length (f : FL) (n s : Nat) (f' : FL) (h : f.allocate n = some (s, f')) :
    f'.free.length ≤ f.free.length := by
  unfold FL.allocate at h
  split at h
  · simp at h
  · simp only [Option.some.injEq, Prod.mk.injEq] at h
    obtain ⟨_, rfl⟩ := h
    exact List.length_filter_le _ _

/-- one allocation keeps the plateau bound, stated against the non-free count *after* the allocation:
an extension happens only while the file is small (`extend_implies_small`), and a reuse does not move the
mark while the non-free count does not decrease -/
theorem alloc_plateau_step (t : TxFL) (k K M : Nat) (hk : 0 < k) (hkK : k ≤ K)
    (ha : t.fl.free.Pairwise (· < ·)) (hr : ∀ p ∈ t.fl.free, 2 ≤ p ∧ p < t.numPages) (hN : 2 ≤ t.numPages)
    (hb : t.numPages ≤ max M (K * (t.nonFree + 2) + 1)) :
    (t.allocate k).2.numPages ≤ max M (K * ((t.allocate k).2.nonFree + 2) + 1) := by
  cases hA : t.fl.allocate k with
  | none =>
    have hstep : t.allocate k = (t.numPages, { t with numPages := t.numPages + k }) := by
      unfold TxFL.allocate; rw [hA]
    have hne : (t.allocate k).2.numPages ≠ t.numPages := by
      rw [hstep]; simp only; omega
    have hs := extend_implies_small t k hk ((ascending_iff _).2 ha) hr hN hne
    have hlen : t.fl.free.length + 2 ≤ t.numPages := by
      rcases pairwise_lt_length_le t.numPages t.fl.free 2 ha hr with h1 | ⟨_, h2⟩
      · exact h1
      · omega
    rw [hstep]
    simp only [TxFL.nonFree]
    refine Nat.le_trans ?_ (Nat.le_max_right _ _)
    have e : t.numPages + k - 2 - t.fl.free.length + 2 = (t.numPages - 2 - t.fl.free.length) + k + 2 := by omega
    rw [e]
    generalize t.numPages - 2 - t.fl.free.length = nf at hs ⊢
    have h1 : k * (nf + 2) ≤ K * (nf + k + 2) := Nat.mul_le_mul hkK (by omega)
    have h2 : (k - 1) * (nf + 1) + (nf + 1) = k * (nf + 1) := by
      have : k = (k - 1) + 1 := by omega
      conv => rhs; rw [this, Nat.succ_mul]
    have h3 : k * (nf + 2) = k * (nf + 1) + k := Nat.mul_succ k (nf + 1)
    generalize (k - 1) * (nf + 1) = Y at hs h2
    generalize k * (nf + 1) = X at h2 h3
    generalize k * (nf + 2) = Z at h1 h3
    generalize K * (nf + k + 2) = W at h1 ⊢
    omega
  | some r =>
    obtain ⟨s, fl'⟩ := r
    have hstep : t.allocate k = (s, { t with fl := fl' }) := by
      unfold TxFL.allocate; rw [hA]
    have hlen := allocate_free_length t.fl k s fl' hA
    rw [hstep]
    simp only [TxFL.nonFree] at hb ⊢
    have h1 : K * (t.numPages - 2 - t.fl.free.length + 2) ≤ K * (t.numPages - 2 - fl'.free.length + 2) :=
      Nat.mul_le_mul_left K (by omega)
    generalize K * (t.numPages - 2 - t.fl.free.length + 2) = X at hb h1
    generalize K * (t.numPages - 2 - fl'.free.length + 2) = Y at h1 ⊢
    omega

/-- the allocation loop of one write transaction keeps the plateau bound (`F`, `N`: the private free set
and the page mark at the start of the loop; the side conditions of `alloc_plateau_step` come from `AInv`) -/
theorem plateau_foldl {F : List Nat} {N : Nat} {pend : Pend} {tx : Nat} (K M : Nat)
    (hF : ∀ p ∈ F, 2 ≤ p ∧ p < N) (hN : 2 ≤ N) (reqs : List Nat) :
    ∀ (st : List (Nat × Nat) × TxFL), AInv F N pend tx st → (∀ k ∈ reqs, 0 < k ∧ k ≤ K) →
      st.2.numPages ≤ max M (K * (st.2.nonFree + 2) + 1) →
      (reqs.foldl allocStep st).2.numPages ≤ max M (K * ((reqs.foldl allocStep st).2.nonFree + 2) + 1) := by
  induction reqs with
  | nil => intro st _ _ hb; exact hb
  | cons k rest ih =>
    intro st hA hk hb
    rw [List.foldl_cons]
    refine ih _ (hA.step (fun p hp => (hF p hp).2) k) (fun k' hk' => hk k' (List.mem_cons_of_mem _ hk')) ?_
    obtain ⟨hk0, hkK⟩ := hk k (List.mem_cons_self ..)
    have hmono := hA.mono
    show (st.2.allocate k).2.numPages ≤ max M (K * ((st.2.allocate k).2.nonFree + 2) + 1)
    refine alloc_plateau_step st.2 k K M hk0 hkK hA.asc ?_ (by omega) hb
    intro p hp
    have := hF p (hA.sub p hp)
    omega

/-- one committing writer: the new page mark is at most the larger of the old mark and
`K·(nonFree' + 2) + 1`, `nonFree'` the non-free count of the committed state -/
theorem commit_plateau {s : Sys} (hi : s.Inv) (w : WriterTx) (K : Nat)
    (hreq : ∀ k ∈ w.requests, 0 < k ∧ k ≤ K) :
    (s.step (.commitW w)).numPages ≤ max s.numPages (K * ((s.step (.commitW w)).nonFree + 2) + 1) := by
  show (s.beginWriter.run w).2.numPages ≤ max s.numPages (K * ((s.beginWriter.run w).2.nonFree + 2) + 1)
  rw [run_eq, beginWriter_eq]
  refine plateau_foldl (F := s.f1.free) (N := s.numPages) (pend := (s.f2 w).pending) (tx := s.cur.txId + 1)
    K s.numPages (fun p hp => f1_free_rng hi hp) hi.np _ _ ?_ hreq (Nat.le_max_left _ _)
  refine ⟨rfl, rfl, ?_, ?_, Nat.le_refl _, ?_, ?_⟩
  · simp only [freeAll_free]
    exact release_free_pairwise _ _ hi.ascFree
  · simp only [freeAll_free]
    exact fun p hp => hp
  · simp [expand]
  · simp [expand]

/-- one protocol-abiding event -/
theorem step_plateau (s : Sys) (ev : Ev) (K : Nat) (hi : s.invB = true) (hc : s.clientOkB ev = true)
    (hK : ev.requestsLe K = true) :
    (s.step ev).numPages ≤ max s.numPages (K * ((s.step ev).nonFree + 2) + 1) := by
  cases ev with
  | beginR => exact Nat.le_max_left _ _
  | endR i => exact Nat.le_max_left _ _
  | dropW w => exact Nat.le_max_left _ _
  | commitW w =>
    rw [invB_iff] at hi
    simp only [Sys.clientOkB, Bool.and_eq_true, List.all_eq_true, decide_eq_true_eq] at hc
    simp only [Ev.requestsLe, List.all_eq_true, decide_eq_true_eq] at hK
    exact commit_plateau hi w K (fun k hk => ⟨hc.2 k hk, hK k hk⟩)

/-- the plateau along every history: however many transactions run, in whatever interleaving with readers,
the page mark never exceeds the larger of where it started and `K·(n+2)+1` -/
theorem plateau_history (s : Sys) (evs : List Ev) (s' : Sys) (K n : Nat)
    (hi : s.invB = true) (h : s.runEvs evs = some s')
    (hK : requestsLe K evs = true) (hn : s.nonFreeLe n evs = true) :
    s'.numPages ≤ max s.numPages (K * (n + 2) + 1) := by
  induction evs generalizing s with
  | nil =>
    simp only [Sys.runEvs, Option.some.injEq] at h
    subst h; exact Nat.le_max_left _ _
  | cons ev rest ih =>
    unfold Sys.runEvs at h
    split at h
    · rename_i hc
      simp only [requestsLe, Bool.and_eq_true] at hK
      simp only [Sys.nonFreeLe, Bool.and_eq_true, decide_eq_true_eq] at hn
      have h1 := step_plateau s ev K hi hc hK.1
      have h2 := ih (s.step ev) (inv_step s ev hi hc) h hK.2 hn.2
      have h3 : K * ((s.step ev).nonFree + 2) ≤ K * (n + 2) := Nat.mul_le_mul_left K (by omega)
      generalize K * ((s.step ev).nonFree + 2) = X at h1 h3
      generalize K * (n + 2) = Y at h2 h3 ⊢
      omega
    · simp at h

end Jamm
