/-
What the independent checker established (`GoodView`) gives the walk of `implCheckLoop` its `Owns`
certificate: the bucket rooted at `root` owns exactly `expandRuns (v.runs pg)`.
-/
import Jamm.Proofs.ImplCheckWalk
import Jamm.Proofs.CheckFileSound
set_option linter.unusedSectionVars false
open Std

namespace Jamm

/-! ### keys strictly ascending within each page -/

mutual
def Tree.keysAsc : Tree Bytes LeafVal → Prop
  | .leaf _ es => strictlyAscending (es.map (·.1)) = true
  | .branch _ kids => strictlyAscending kids.keys = true ∧ Forest.keysAsc kids
def Forest.keysAsc : Forest Bytes LeafVal → Prop
  | .nil => True
  | .cons _ t rest => Tree.keysAsc t ∧ Forest.keysAsc rest
end

theorem strictlyAscending_of_sorted : ∀ (es : List (Bytes × LeafVal)), Spec.Sorted es →
    strictlyAscending (es.map (·.1)) = true
  | [], _ => rfl
  | [_], _ => rfl
  | (a, _) :: (b, y) :: rest, h => by
    simp only [Spec.Sorted] at h
    have ih := strictlyAscending_of_sorted ((b, y) :: rest) h.2
    simp only [List.map_cons] at ih
    simp only [List.map_cons, strictlyAscending, h.1, ih, Bool.and_self]

mutual
theorem wf_keysAsc (lo hi : Option Bytes) (t : Tree Bytes LeafVal) (h : WF lo hi t) : t.keysAsc := by
  match t, h with
  | .leaf p es, h =>
    cases h with
    | leaf _ _ _ _ hs _ => exact strictlyAscending_of_sorted es hs
  | .branch p kids, h =>
    cases h with
    | branch _ _ _ k t' rest hf => exact wff_keysAsc lo hi (.cons k t' rest) hf
theorem wff_keysAsc (lo hi : Option Bytes) (f : Forest Bytes LeafVal) (h : WFForest lo hi f) :
    strictlyAscending f.keys = true ∧ f.keysAsc := by
  match f, h with
  | .cons k t .nil, h =>
    cases h with
    | last _ _ _ _ ht => exact ⟨rfl, wf_keysAsc lo hi t ht, trivial⟩
  | .cons k t (.cons k' t' rest'), h =>
    cases h with
    | cons _ _ _ _ _ _ _ hk _ _ ht hr =>
      have ih := wff_keysAsc (some k') hi (.cons k' t' rest') hr
      refine ⟨?_, wf_keysAsc lo (some k') t ht, ih.2⟩
      have := ih.1
      simp only [Forest.keys] at this ⊢
      simp only [strictlyAscending, hk, this, Bool.and_self]
end

/-! ### inversion of the unfolding -/

theorem unfoldT_inv {pg : PageStore} {fuel pid : Nat} {t : Tree Bytes LeafVal}
    (h : unfoldT pg fuel pid = some t) :
    ∃ f p, fuel = f + 1 ∧ pg pid = some p ∧
      ((∃ es, p.body = .leaf es ∧ t = .leaf pid es) ∨
       (∃ es kids, p.body = .branch es ∧ unfoldF pg f es = some kids ∧ t = .branch pid kids)) := by
  cases fuel with
  | zero => simp [unfoldT] at h
  | succ f =>
    unfold unfoldT at h
    split at h
    · rename_i p hp
      refine ⟨f, p, rfl, hp, ?_⟩
      split at h
      · rename_i es hb
        simp only [Option.some.injEq] at h
        exact Or.inl ⟨es, hb, h.symm⟩
      · rename_i es hb
        simp only [Option.map_eq_some_iff] at h
        obtain ⟨kids, hk, ht⟩ := h
        exact Or.inr ⟨es, kids, hb, hk, ht.symm⟩
      · exact absurd h (by simp)
    · exact absurd h (by simp)

theorem unfoldF_nil_inv {pg : PageStore} {fuel : Nat} {es : List (Bytes × Nat)}
    (h : unfoldF pg fuel es = some .nil) : es = [] := by
  cases es with
  | nil => rfl
  | cons e rest =>
    obtain ⟨k, c⟩ := e
    unfold unfoldF at h
    split at h
    · exact absurd h (by simp)
    · exact absurd h (by simp)

theorem unfoldF_cons_inv {pg : PageStore} {fuel : Nat} {es : List (Bytes × Nat)} {k : Bytes}
    {t : Tree Bytes LeafVal} {rest : Forest Bytes LeafVal}
    (h : unfoldF pg fuel es = some (.cons k t rest)) :
    ∃ c es', es = (k, c) :: es' ∧ unfoldT pg fuel c = some t ∧ unfoldF pg fuel es' = some rest := by
  cases es with
  | nil => simp [unfoldF] at h
  | cons e es' =>
    obtain ⟨k', c⟩ := e
    unfold unfoldF at h
    split at h
    · rename_i t' f' h1 h2
      simp only [Option.some.injEq, Forest.cons.injEq] at h
      obtain ⟨rfl, rfl, rfl⟩ := h
      exact ⟨c, es', rfl, h1, h2⟩
    · exact absurd h (by simp)

theorem unfoldF_keys {pg : PageStore} : ∀ (kids : Forest Bytes LeafVal) (fuel : Nat) (es : List (Bytes × Nat)),
    unfoldF pg fuel es = some kids → kids.keys = es.map (·.1)
  | .nil, _, _, h => by rw [unfoldF_nil_inv h]; rfl
  | .cons k t rest, fuel, es, h => by
    obtain ⟨c, es', rfl, _, h2⟩ := unfoldF_cons_inv h
    simp only [Forest.keys, List.map_cons, unfoldF_keys rest fuel es' h2]

/-! ### splitting the nested buckets along an append -/

theorem GoodSubs.split {pg : PageStore} {f : Nat} : ∀ (a b : List (Bytes × Nat × Nat))
    (vs : List (Bytes × BucketView)), GoodSubs pg f (a ++ b) vs →
    ∃ va vb, vs = va ++ vb ∧ GoodSubs pg f a va ∧ GoodSubs pg f b vb
  | [], b, vs, h => ⟨[], vs, rfl, GoodSubs.nil f, h⟩
  | (k, r, n) :: a, b, vs, h => by
    rw [List.cons_append] at h
    cases h with
    | cons _ _ _ _ v _ vs' hv hn hrest =>
      obtain ⟨va, vb, rfl, h1, h2⟩ := GoodSubs.split a b vs' hrest
      exact ⟨(k, v) :: va, vb, rfl, GoodSubs.cons f k r n v a va hv hn h1, h2⟩

/-! ### the pages owned -/

theorem expandRuns_append (a b : List (Nat × Nat)) : expandRuns (a ++ b) = expandRuns a ++ expandRuns b := by
  simp [expandRuns]

theorem expandRuns_nil : expandRuns [] = [] := rfl

theorem expandRuns_cons (r : Nat × Nat) (rs : List (Nat × Nat)) :
    expandRuns (r :: rs) = expandRuns [r] ++ expandRuns rs := by
  simp [expandRuns]

theorem expandRuns_single (p n : Nat) : expandRuns [(p, n + 1)] = pageRun p n := by
  simp only [expandRuns, List.flatMap_cons, List.flatMap_nil, List.append_nil, pageRun,
    List.range_succ_eq_map, List.map_cons, List.map_map, Nat.zero_add, List.cons.injEq, true_and]
  apply List.map_congr_left
  intro a _
  simp only [Function.comp_apply]
  omega

/-- the run of the page `p`, as `BucketView.runs` reads it -/
def runOf (pg : PageStore) (p : Nat) : Nat × Nat :=
  (p, match pg p with | some q => q.overflow + 1 | none => 1)

theorem runs_eq' (pg : PageStore) (b : BucketView) :
    b.runs pg = b.tree.pids.map (runOf pg) ++ b.subs.flatMap (fun s => s.2.runs pg) :=
  BucketView.runs_eq pg b

theorem perm_swap4 (a b c d : List Nat) : ((b ++ d) ++ (a ++ c)).Perm ((a ++ b) ++ (c ++ d)) := by
  have h1 : ((b ++ d) ++ (a ++ c)).Perm ((a ++ c) ++ (b ++ d)) := List.perm_append_comm
  rw [List.append_assoc, List.append_assoc] at *
  exact h1.trans ((List.perm_append_comm_assoc c b d).append_left a)

section
variable (pg : PageStore) (fl f : Nat)
  (ihb : ∀ r v, GoodView pg f r v → Owns pg fl [r] (expandRuns (v.runs pg)))
include ihb

/-- the nested buckets named in a leaf page, as pushed by the walk -/
theorem subs_owns : ∀ (sb : List (Bytes × Nat × Nat)) (vs : List (Bytes × BucketView)), GoodSubs pg f sb vs →
    Owns pg fl ((sb.map (·.2.1)).reverse) (expandRuns (vs.flatMap (fun s => s.2.runs pg)))
  | [], vs, h => by
    cases h
    exact Owns.nil
  | (k, r, n) :: sb, vs, h => by
    cases h with
    | cons _ _ _ _ v _ vs' hv hn hrest =>
      have h1 := subs_owns sb vs' hrest
      have h2 := ihb r v hv
      simp only [List.map_cons, List.reverse_cons, List.flatMap_cons, expandRuns_append]
      exact Owns.perm _ _ _ (h1.append h2) List.perm_append_comm

mutual
theorem tree_owns (t : Tree Bytes LeafVal) (fuel pid : Nat) (vs : List (Bytes × BucketView))
    (hu : unfoldT pg fuel pid = some t) (hk : t.keysAsc) (hs : GoodSubs pg f (subBuckets t.flatten) vs) :
    Owns pg fl [pid] (expandRuns (t.pids.map (runOf pg)) ++ expandRuns (vs.flatMap (fun s => s.2.runs pg))) := by
  match t with
  | .leaf p' es' =>
    obtain ⟨f', p, rfl, hp, hcase⟩ := unfoldT_inv hu
    rcases hcase with ⟨es, hb, ht⟩ | ⟨es, kids, hb, _, ht⟩
    · simp only [Tree.leaf.injEq] at ht
      obtain ⟨rfl, rfl⟩ := ht
      simp only [Tree.keysAsc] at hk
      simp only [Tree.flatten] at hs
      have h1 := subs_owns pg fl f ihb _ _ hs
      have h2 := Owns.leaf (fl := fl) _ p es' [] _ hp hb hk (by rw [List.append_nil]; exact h1)
      simp only [Tree.pids, List.map_cons, List.map_nil, runOf, hp, expandRuns_single]
      exact h2
    · exact absurd ht (by simp)
  | .branch p' kids' =>
    obtain ⟨f', p, rfl, hp, hcase⟩ := unfoldT_inv hu
    rcases hcase with ⟨es, hb, ht⟩ | ⟨es, kids, hb, hf, ht⟩
    · exact absurd ht (by simp)
    · simp only [Tree.branch.injEq] at ht
      obtain ⟨rfl, rfl⟩ := ht
      simp only [Tree.keysAsc] at hk
      simp only [Tree.flatten] at hs
      have h1 := forest_owns kids' f' es vs hf hk.2 hs
      have hkeys := unfoldF_keys kids' f' es hf
      have h2 := Owns.branch (fl := fl) _ p es [] _ hp hb (hkeys ▸ hk.1) (by rw [List.append_nil]; exact h1)
      have e : runOf pg p' = (p', p.overflow + 1) := by simp only [runOf, hp]
      rw [Tree.pids, List.map_cons, expandRuns_cons, e, expandRuns_single, List.append_assoc]
      exact h2
theorem forest_owns (kids : Forest Bytes LeafVal) (fuel : Nat) (es : List (Bytes × Nat))
    (vs : List (Bytes × BucketView))
    (hu : unfoldF pg fuel es = some kids) (hk : kids.keysAsc)
    (hs : GoodSubs pg f (subBuckets (Tree.flattenF kids)) vs) :
    Owns pg fl ((es.map (·.2)).reverse)
      (expandRuns (kids.pids.map (runOf pg)) ++ expandRuns (vs.flatMap (fun s => s.2.runs pg))) := by
  match kids with
  | .nil =>
    rw [unfoldF_nil_inv hu]
    simp only [Tree.flattenF, subBuckets, List.filterMap_nil] at hs
    cases hs
    exact Owns.nil
  | .cons k t rest =>
    obtain ⟨c, es', rfl, h1, h2⟩ := unfoldF_cons_inv hu
    simp only [Forest.keysAsc] at hk
    simp only [Tree.flattenF, subBuckets, List.filterMap_append] at hs
    obtain ⟨va, vb, rfl, ha, hb⟩ := GoodSubs.split _ _ _ hs
    have o1 := tree_owns t fuel c va h1 hk.1 ha
    have o2 := forest_owns rest fuel es' vb h2 hk.2 hb
    simp only [List.map_cons, List.reverse_cons, Forest.pids, List.map_append, List.flatMap_append,
      expandRuns_append]
    exact Owns.perm _ _ _ (o2.append o1) (perm_swap4 _ _ _ _)
end

end

/-- a bucket the independent checker accepted owns exactly its runs -/
theorem view_owns (pg : PageStore) (fl : Nat) : ∀ (fuel root : Nat) (v : BucketView), GoodView pg fuel root v →
    Owns pg fl [root] (expandRuns (v.runs pg)) := by
  intro fuel
  induction fuel with
  | zero =>
    intro root v h
    cases h with
    | mk _ _ _ hu _ _ => simp [unfoldT] at hu
  | succ f ih =>
    intro root v h
    cases h with
    | mk _ _ _ hu hwf hs =>
      rw [runs_eq', expandRuns_append]
      exact tree_owns pg fl f ih v.tree (f + 1) root v.subs hu (wf_keysAsc none none v.tree hwf) hs

end Jamm
