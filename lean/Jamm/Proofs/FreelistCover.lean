/-
Layer A, no page is lost: every page below the high-water mark is reachable from the current snapshot,
free, or pending — along every history of protocol-abiding events.  Together with the disjointness part of
the invariant: each page is in exactly one of the three.
-/
import Jamm.Proofs.FreelistLemmas
set_option linter.unusedSectionVars false

namespace Jamm

/-- every page id in `[2, numPages)` is accounted for -/
def Sys.Covers (s : Sys) : Prop :=
  ∀ p, 2 ≤ p → p < s.numPages → p ∈ s.cur.reach ∨ p ∈ s.shared.free ∨ p ∈ s.shared.pendingPages

/-! ### the allocation loop hands out everything it takes or adds -/

/-- coverage invariant of the allocation loop (`F` the private free set, `N` the page count at the start):
every page below the current page count that was free at the start, or that lies in the extension, is still
free or is in one of the allocated runs -/
def ACov (F : List Nat) (N : Nat) (st : List (Nat × Nat) × TxFL) : Prop :=
  ∀ p, p < st.2.numPages → (p ∈ F ∨ N ≤ p) → p ∈ st.2.fl.free ∨ p ∈ expand st.1

theorem ACov.step {F : List Nat} {N : Nat} {st : List (Nat × Nat) × TxFL}
    (hasc : st.2.fl.free.Pairwise (· < ·)) (h : ACov F N st) (n : Nat) : ACov F N (allocStep st n) := by
  obtain ⟨acc, t⟩ := st
  simp only at hasc
  unfold ACov at h ⊢
  simp only at h
  unfold allocStep TxFL.allocate
  simp only
  cases hA : t.fl.allocate n with
  | none =>
    simp only [expand_snoc, List.mem_append, mem_runPages]
    intro p hp hF
    by_cases hlt : p < t.numPages
    · rcases h p hlt hF with h' | h'
      · exact Or.inl h'
      · exact Or.inr (Or.inl h')
    · exact Or.inr (Or.inr ⟨by omega, hp⟩)
  | some r =>
    obtain ⟨s, fl'⟩ := r
    obtain ⟨_, _, hmem, _⟩ := allocate_some t.fl n s fl' hasc hA
    simp only [expand_snoc, List.mem_append, mem_runPages]
    intro p hp hF
    rcases h p hp hF with h' | h'
    · by_cases hr : p < s ∨ s + n ≤ p
      · exact Or.inl ((hmem p).2 ⟨h', hr⟩)
      · exact Or.inr (Or.inr ⟨by omega, by omega⟩)
    · exact Or.inr (Or.inl h')

theorem ACov.foldl {F : List Nat} {N : Nat} {pend : Pend} {tx : Nat} (hF : ∀ p ∈ F, p < N) (reqs : List Nat) :
    ∀ (st : List (Nat × Nat) × TxFL), AInv F N pend tx st → ACov F N st →
      ACov F N (reqs.foldl allocStep st) := by
  induction reqs with
  | nil => intro st _ h; exact h
  | cons n rest ih => intro st hA h; exact ih _ (hA.step hF n) (h.step hA.asc n)

/-- after the writer's run: every page below the new page count that was in the private free set (after the
release) or lies at or above the old page count is free or allocated -/
theorem run_acov {s : Sys} (hi : s.Inv) (w : WriterTx) :
    ACov s.f1.free s.numPages (s.beginWriter.run w) := by
  rw [run_eq, beginWriter_eq]
  have hF : ∀ p ∈ s.f1.free, p < s.numPages := fun p hp => (f1_free_rng hi hp).2
  refine ACov.foldl (pend := (s.f2 w).pending) (tx := s.cur.txId + 1) hF _ _ ?_ ?_
  · refine ⟨rfl, rfl, ?_, ?_, Nat.le_refl _, ?_, ?_⟩
    · simp only [freeAll_free]
      exact release_free_pairwise _ _ hi.ascFree
    · simp only [freeAll_free]
      exact fun p hp => hp
    · simp [expand]
    · simp [expand]
  · intro p hp hc
    simp only at hp
    rcases hc with hc | hc
    · left
      simp only [freeAll_free]
      exact hc
    · omega

/-- the release loses nothing: a free or pending page is free or pending afterwards -/
theorem f1_cover {s : Sys} (hi : s.Inv) {p : Nat} (hp : p ∈ s.shared.free ∨ p ∈ s.shared.pendingPages) :
    p ∈ s.f1.free ∨ p ∈ s.f1.pendingPages := by
  rcases hp with hp | hp
  · exact Or.inl ((release_free_mem s.shared s.bound hi.ascKeys p).2 (Or.inl hp))
  · obtain ⟨e, he, hpe⟩ := (mem_pendingPages _ _).1 hp
    by_cases hb : e.1 < s.bound
    · exact Or.inl ((release_free_mem s.shared s.bound hi.ascKeys p).2 (Or.inr ⟨e, he, hb, hpe⟩))
    · refine Or.inr ((mem_pendingPages _ _).2 ⟨e, ?_, hpe⟩)
      exact (release_pending_mem s.shared s.bound hi.ascKeys e).2 ⟨he, by omega⟩

theorem covers_commit {s : Sys} (hi : s.Inv) (w : WriterTx) (h : s.Covers) :
    (s.step (.commitW w)).Covers := by
  have hA := run_ainv hi w
  have hC := run_acov hi w
  rw [step_commit_eq]
  generalize s.beginWriter.run w = res at hA hC
  have hpp : res.2.fl.pendingPages = (s.f2 w).pendingPages := pendingPages_congr hA.pend_eq
  intro p h2 hp
  show p ∈ s.cur.reach.filter (fun p => !w.freed.contains p) ++ expand res.1 ∨ p ∈ res.2.fl.free ∨
    p ∈ res.2.fl.pendingPages
  rw [hpp, List.mem_append]
  have hp' : p < res.2.numPages := hp
  -- a page of the private free set, or of the extension, ends up free or allocated
  have fromFree : (p ∈ s.f1.free ∨ s.numPages ≤ p) →
      (p ∈ s.cur.reach.filter (fun p => !w.freed.contains p) ∨ p ∈ expand res.1) ∨ p ∈ res.2.fl.free ∨
        p ∈ (s.f2 w).pendingPages := by
    intro hc
    rcases hC p hp' hc with h' | h'
    · exact Or.inr (Or.inl h')
    · exact Or.inl (Or.inr h')
  by_cases hlt : p < s.numPages
  · rcases h p h2 hlt with hr | hr | hr
    · by_cases hf : p ∈ w.freed
      · exact Or.inr (Or.inr ((mem_f2_pp s w p).2 (Or.inr hf)))
      · exact Or.inl (Or.inl ((mem_keep _ _ _).2 ⟨hr, hf⟩))
    · rcases f1_cover hi (Or.inl hr) with h' | h'
      · exact fromFree (Or.inl h')
      · exact Or.inr (Or.inr ((mem_f2_pp s w p).2 (Or.inl h')))
    · rcases f1_cover hi (Or.inr hr) with h' | h'
      · exact fromFree (Or.inl h')
      · exact Or.inr (Or.inr ((mem_f2_pp s w p).2 (Or.inl h')))
  · exact fromFree (Or.inr (by omega))

/-- V1: the initial file (two header pages, free-list page, root leaf) -/
theorem covers_init :
    ({ cur := { txId := 0, reach := [2, 3] }, shared := {}, readers := [], numPages := 4 } : Sys).Covers := by
  intro p h2 hp
  left
  show p ∈ [2, 3]
  have hp' : p < 4 := hp
  simp only [List.mem_cons, List.not_mem_nil, or_false]
  omega

/-- V2: every protocol-abiding event keeps the accounting complete: a freed page becomes pending, a
released page becomes free, an allocated run comes from the free list or extends the file by exactly the
run, and an extension leaves no gap -/
theorem covers_step (s : Sys) (ev : Ev) (hi : s.invB = true) (hc : s.clientOkB ev = true) (h : s.Covers) :
    (s.step ev).Covers := by
  rw [invB_iff] at hi
  cases ev with
  | beginR => exact h
  | endR i => exact h
  | dropW w => exact h
  | commitW w => exact covers_commit hi w h

/-- V3: … along any history -/
theorem covers_run (s : Sys) (evs : List Ev) (s' : Sys) (hi : s.invB = true) (hcov : s.Covers)
    (h : s.runEvs evs = some s') : s'.Covers := by
  induction evs generalizing s with
  | nil =>
    simp only [Sys.runEvs, Option.some.injEq] at h
    subst h; exact hcov
  | cons ev rest ih =>
    unfold Sys.runEvs at h
    split at h
    · rename_i hc
      exact ih (s.step ev) (inv_step s ev hi hc) (covers_step s ev hi hc hcov) h
    · simp at h

/-- V4: each page below the high-water mark is in exactly one of: reachable, free, pending -/
theorem exactly_one (s : Sys) (hi : s.invB = true) (hcov : s.Covers) (p : Nat) (h2 : 2 ≤ p) (hp : p < s.numPages) :
    (p ∈ s.cur.reach ∧ p ∉ s.shared.free ∧ p ∉ s.shared.pendingPages) ∨
    (p ∉ s.cur.reach ∧ p ∈ s.shared.free ∧ p ∉ s.shared.pendingPages) ∨
    (p ∉ s.cur.reach ∧ p ∉ s.shared.free ∧ p ∈ s.shared.pendingPages) := by
  rw [invB_iff] at hi
  rcases hcov p h2 hp with hr | hf | hq
  · exact Or.inl ⟨hr, hi.djRF p hr, hi.djRP p hr⟩
  · exact Or.inr (Or.inl ⟨fun hr => hi.djRF p hr hf, hf, hi.djFP p hf⟩)
  · exact Or.inr (Or.inr ⟨fun hr => hi.djRP p hr hq, fun hf => hi.djFP p hf hq, hq⟩)

end Jamm
