/-
API layer + commit model, whole histories: every transaction = a list of write operations at any nesting
depth followed by the commit of every bucket by the commit model.  If after each replay of `rebalance` steps
no bucket tree has a childless branch (evaluated by the run on every real replay), then along the whole
history the database refines the specification and every tree stays well-formed, so every read theorem applies
at every point.
-/
import Jamm.Proofs.TreeDBCommit
import Jamm.Proofs.CommitNeb
set_option linter.unusedSectionVars false
open Std

namespace Jamm.TDB
open Jamm.Spec (Path)

/-- no bucket tree has a childless branch -/
def AllNeb {K V : Type} (db : DB K V) : Prop := ∀ e ∈ db, nebT e.2.tree = true

/-- what a transaction does: its write operations, and per bucket the reported rebalance steps and the touched
header keys of its commit -/
structure TxRec where
  ops : List (Op Bytes Bytes)
  steps : Path Bytes → List RbStep
  touched : Path Bytes → List Bytes

section
variable (p : Params) (pagesize hdr leafHdr branchHdr bmSize : Nat)

def runTx (db : DB Bytes Bytes) (tx : TxRec) : DB Bytes Bytes :=
  commitDB p pagesize hdr leafHdr branchHdr bmSize tx.steps tx.touched (tx.ops.foldl applyOp db)

/-- the replayed steps of this commit leave no childless branch in any bucket -/
def RebalanceComplete (db : DB Bytes Bytes) (tx : TxRec) : Prop :=
  ∀ e ∈ tx.ops.foldl applyOp db,
    nebT ((e.2.tree.rebalance (tx.steps e.1)).touchAll (tx.touched e.1)) = true

/-- all transactions of a history, each complete at the point where it runs -/
def HistoryComplete : DB Bytes Bytes → List TxRec → Prop
  | _, [] => True
  | db, tx :: rest =>
    RebalanceComplete db tx ∧ HistoryComplete (runTx p pagesize hdr leafHdr branchHdr bmSize db tx) rest

theorem getBucket_neb {db : DB Bytes Bytes} (hw : AllNeb db) {q : Path Bytes} {b : TBucket Bytes Bytes}
    (h : getBucket db q = some b) : nebT b.tree = true :=
  getBucket_all (P := fun t => nebT t = true) hw h

theorem setBucket_neb {db : DB Bytes Bytes} (hw : AllNeb db) (q : Path Bytes) (b : TBucket Bytes Bytes)
    (hb : nebT b.tree = true) : AllNeb (setBucket db q b) :=
  setBucket_all (P := fun t => nebT t = true) hw q b hb

theorem removeTree_neb {db : DB Bytes Bytes} (hw : AllNeb db) (q : Path Bytes) : AllNeb (removeTree db q) :=
  removeTree_all (P := fun t => nebT t = true) hw q

theorem newTree_neb : nebT (newTree : Tree Bytes (Spec.Item Bytes)) = true := rfl

theorem put_allNeb (db : DB Bytes Bytes) (h : AllNeb db) (q : Path Bytes) (k v : Bytes) :
    AllNeb (put db q k v).2 := by
  unfold put
  cases hb : getBucket db q with
  | none => exact h
  | some b =>
    have hib := getBucket_neb h hb
    simp only
    cases find b.tree k with
    | none => exact setBucket_neb h _ _ (put_neb _ k _ hib)
    | some i =>
      cases i with
      | bkt => exact h
      | val old => exact setBucket_neb h _ _ (put_neb _ k _ hib)

theorem delete_allNeb (db : DB Bytes Bytes) (h : AllNeb db) (q : Path Bytes) (k : Bytes) :
    AllNeb (delete db q k).2 := by
  unfold delete
  cases hb : getBucket db q with
  | none => exact h
  | some b =>
    have hib := getBucket_neb h hb
    simp only
    cases find b.tree k with
    | none => exact h
    | some i =>
      cases i with
      | bkt => exact h
      | val v => exact setBucket_neb h _ _ (del_neb _ k hib)

theorem bucketGetter_allNeb (db : DB Bytes Bytes) (h : AllNeb db) (q : Path Bytes) (name : Bytes)
    (s m : Bool) : AllNeb (bucketGetter db q name s m).2 := by
  unfold bucketGetter
  cases hb : getBucket db q with
  | none => exact h
  | some b =>
    have hib := getBucket_neb h hb
    simp only
    cases find b.tree name with
    | none =>
      cases s with
      | false => exact h
      | true =>
        simp only [if_true]
        exact setBucket_neb (setBucket_neb h _ _ (put_neb _ name _ hib)) _ _ newTree_neb
    | some i =>
      cases i with
      | bkt => cases m <;> exact h
      | val v => exact h

theorem deleteBucket_allNeb (db : DB Bytes Bytes) (h : AllNeb db) (q : Path Bytes) (name : Bytes) :
    AllNeb (deleteBucket db q name).2 := by
  unfold deleteBucket
  cases hb : getBucket db q with
  | none => exact h
  | some b =>
    have hib := getBucket_neb h hb
    simp only
    cases find b.tree name with
    | none => exact h
    | some i =>
      cases i with
      | val v => exact h
      | bkt => exact setBucket_neb (removeTree_neb h _) _ _ (del_neb _ name hib)

theorem allNeb_applyOp (db : DB Bytes Bytes) (h : AllNeb db) (op : Op Bytes Bytes) :
    AllNeb (applyOp db op) := by
  cases op with
  | put q k v => exact put_allNeb db h q k v
  | delete q k => exact delete_allNeb db h q k
  | getter q n s m => exact bucketGetter_allNeb db h q n s m
  | deleteBucket q n => exact deleteBucket_allNeb db h q n

/-- H1: the write operations keep "no childless branch" -/
theorem allNeb_applyOps (db : DB Bytes Bytes) (h : AllNeb db) (ops : List (Op Bytes Bytes)) :
    AllNeb (ops.foldl applyOp db) := by
  induction ops generalizing db with
  | nil => exact h
  | cons op rest ih => exact ih _ (allNeb_applyOp db h op)

/-- H2: one transaction -/
theorem runTx_refines (hp : p.Valid) (h2 : 2 ≤ p.minKeysPerNode) (db : DB Bytes Bytes)
    (hi : AllInv db) (hn : AllNeb db) (tx : TxRec) (hc : RebalanceComplete db tx) :
    abs (runTx p pagesize hdr leafHdr branchHdr bmSize db tx) = tx.ops.foldl Spec.applyTOp (abs db) ∧
    AllInv (runTx p pagesize hdr leafHdr branchHdr bmSize db tx) ∧
    AllNeb (runTx p pagesize hdr leafHdr branchHdr bmSize db tx) ∧
    AllWF (runTx p pagesize hdr leafHdr branchHdr bmSize db tx) := by
  have hw : AllWF db := allInv_allWF_of_neb db hi hn
  have hie := allInv_applyOps db hi tx.ops
  have hinv : AllInv (runTx p pagesize hdr leafHdr branchHdr bmSize db tx) :=
    commitDB_inv p pagesize hdr leafHdr branchHdr bmSize tx.steps tx.touched hp h2 _ hie
  have hneb : AllNeb (runTx p pagesize hdr leafHdr branchHdr bmSize db tx) := by
    intro e he
    unfold runTx commitDB commitWith at he
    rw [List.mem_map] at he
    obtain ⟨e', he', rfl⟩ := he
    exact commitTree_neb p pagesize hdr leafHdr branchHdr (itemSize bmSize) hp (tx.steps e'.1)
      (tx.touched e'.1) e'.2.tree (hc e' he')
  refine ⟨?_, hinv, hneb, allInv_allWF_of_neb _ hinv hneb⟩
  unfold runTx
  rw [commitDB_invisible p pagesize hdr leafHdr branchHdr bmSize tx.steps tx.touched _ hie]
  exact (applyOps_refine db hw tx.ops).1

/-- H3: any history of transactions: the committed database is the specification's state after all the
operations, in order, and all its trees are well-formed -/
theorem history_refines (hp : p.Valid) (h2 : 2 ≤ p.minKeysPerNode) (db : DB Bytes Bytes)
    (hi : AllInv db) (hn : AllNeb db) (txs : List TxRec)
    (hc : HistoryComplete p pagesize hdr leafHdr branchHdr bmSize db txs) :
    abs (txs.foldl (runTx p pagesize hdr leafHdr branchHdr bmSize) db) =
      (txs.flatMap (·.ops)).foldl Spec.applyTOp (abs db) ∧
    AllWF (txs.foldl (runTx p pagesize hdr leafHdr branchHdr bmSize) db) := by
  induction txs generalizing db with
  | nil => exact ⟨rfl, allInv_allWF_of_neb db hi hn⟩
  | cons tx rest ih =>
    obtain ⟨hc1, hc2⟩ := hc
    obtain ⟨ha, hi', hn', _⟩ := runTx_refines p pagesize hdr leafHdr branchHdr bmSize hp h2 db hi hn tx hc1
    have := ih _ hi' hn' hc2
    rw [List.foldl_cons, List.flatMap_cons, List.foldl_append, ← ha]
    exact this

/-- H4: the empty database satisfies the hypotheses -/
theorem empty_good : AllInv ([([], { nextInt := 0, tree := newTree })] : DB Bytes Bytes) ∧
    AllNeb ([([], { nextInt := 0, tree := newTree })] : DB Bytes Bytes) := by
  refine ⟨allInv_empty, ?_⟩
  intro e he
  rw [List.mem_singleton] at he
  subst he
  rfl

end
end Jamm.TDB
