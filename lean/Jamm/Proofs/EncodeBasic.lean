/-
Byte-level lemmas for the page writer: `Src.write` algebra, little-endian read-back, `HasAt`.
-/
import Jamm.Model.Encode

set_option linter.unusedSimpArgs false
set_option linter.unusedSectionVars false
set_option linter.unusedVariables false

namespace Jamm

/-! ### lists of bytes -/

theorem leBytes_length (x n : Nat) : (leBytes x n).length = n := by
  simp [leBytes]

theorem leBytes_getD (x n j : Nat) (h : j < n) :
    (leBytes x n).getD j 0 = ((x / 256 ^ j) % 256).toUInt8 := by
  simp [leBytes, List.getD, h]

theorem toUInt8_toNat_of_lt (t : Nat) (h : t < 256) : (Nat.toUInt8 t).toNat = t := by
  simp [Nat.toUInt8, UInt8.toNat, UInt8.ofNat, Nat.mod_eq_of_lt h]

namespace Src

/-! ### reads -/

theorem le_succ (s : Src) (off n : Nat) :
    s.le off (n + 1) = (s.get off).toNat + 256 * s.le (off + 1) n := by
  simp only [Src.le, List.range_succ_eq_map, List.foldr_cons, List.foldr_map, Nat.add_zero]
  have : (fun x y => (s.get (off + Nat.succ x)).toNat + 256 * y) =
      (fun i acc => (s.get (off + 1 + i)).toNat + 256 * acc) := by
    funext x y; rw [Nat.succ_eq_add_one, Nat.add_assoc, Nat.add_comm 1 x]
  rw [this]

theorem le_eq_mod (s : Src) (n : Nat) : ∀ (off x : Nat),
    (∀ j, j < n → (s.get (off + j)).toNat = (x / 256 ^ j) % 256) → s.le off n = x % 256 ^ n := by
  induction n with
  | zero => intro off x _; simp [Src.le, Nat.mod_one]
  | succ n ih =>
    intro off x h
    rw [le_succ, ih (off + 1) (x / 256)]
    · have h0 := h 0 (Nat.succ_pos n)
      simp only [Nat.add_zero, Nat.pow_zero, Nat.div_one] at h0
      rw [h0, Nat.pow_succ', Nat.mod_mul]
    · intro j hj
      have := h (j + 1) (Nat.succ_lt_succ hj)
      rw [Nat.add_assoc, Nat.add_comm 1 j, this, Nat.pow_succ', Nat.div_div_eq_div_mul]

/-- the bytes of `s` at `[off, off + bs.length)` are `bs` -/
def HasAt (s : Src) (off : Nat) (bs : List UInt8) : Prop :=
  ∀ j, j < bs.length → s.get (off + j) = bs.getD j 0

theorem HasAt.bytes {s : Src} {off : Nat} {bs : List UInt8} (h : s.HasAt off bs) :
    s.bytes off bs.length = bs := by
  apply List.ext_getElem
  · simp [Src.bytes]
  · intro j h1 h2
    simp only [Src.bytes, List.getElem_map, List.getElem_range]
    rw [h j h2]
    simp [List.getD, h2]

theorem HasAt.bytes' {s : Src} {off n : Nat} {bs : List UInt8} (h : s.HasAt off bs) (hn : n = bs.length) :
    s.bytes off n = bs := by
  subst hn; exact h.bytes

theorem HasAt.le8 {s : Src} {off x : Nat} (h : s.HasAt off (leBytes x 8)) (hx : x < 2 ^ 64) :
    s.le off 8 = x := by
  rw [le_eq_mod s 8 off x]
  · exact Nat.mod_eq_of_lt (by simpa using hx)
  · intro j hj
    rw [h j (by simpa [leBytes_length] using hj), leBytes_getD x 8 j hj]
    exact toUInt8_toNat_of_lt _ (Nat.mod_lt _ (by decide))

theorem HasAt.get1 {s : Src} {off : Nat} {b : UInt8} (h : s.HasAt off [b]) : s.get off = b := by
  have := h 0 (by simp)
  simpa using this

theorem HasAt.append_left {s : Src} {off : Nat} {a b : List UInt8} (h : s.HasAt off (a ++ b)) :
    s.HasAt off a := by
  intro j hj
  rw [h j (by simp; omega)]
  simp [List.getD, List.getElem?_append_left hj]

theorem HasAt.append_right {s : Src} {off : Nat} {a b : List UInt8} (h : s.HasAt off (a ++ b)) :
    s.HasAt (off + a.length) b := by
  intro j hj
  rw [Nat.add_assoc, h (a.length + j) (by simp; omega)]
  simp [List.getD, List.getElem?_append_right]

/-- a window of a known range -/
theorem HasAt.sub {s : Src} {off o : Nat} {bs cs : List UInt8} (h : s.HasAt off bs)
    (hlen : o + cs.length ≤ bs.length)
    (hc : ∀ j, j < cs.length → bs.getD (o + j) 0 = cs.getD j 0) : s.HasAt (off + o) cs := by
  intro j hj
  rw [Nat.add_assoc, h (o + j) (by omega), hc j hj]

theorem HasAt.of_get_eq {s t : Src} {off : Nat} {bs : List UInt8} (h : s.HasAt off bs)
    (hg : ∀ k, off ≤ k → k < off + bs.length → t.get k = s.get k) : t.HasAt off bs := by
  intro j hj
  rw [hg (off + j) (by omega) (by omega), h j hj]

/-! ### writes -/

@[simp] theorem write_size (s : Src) (off : Nat) (bs : List UInt8) : (s.write off bs).size = s.size := rfl

theorem write_get_out (s : Src) (off : Nat) (bs : List UInt8) (i : Nat)
    (h : i < off ∨ off + bs.length ≤ i) : (s.write off bs).get i = s.get i := by
  simp only [Src.write]
  rw [if_neg]; omega

theorem write_get_in (s : Src) (off : Nat) (bs : List UInt8) (j : Nat) (h : j < bs.length) :
    (s.write off bs).get (off + j) = bs.getD j 0 := by
  simp only [Src.write]
  rw [if_pos (by omega), Nat.add_sub_cancel_left]

theorem hasAt_write_self (s : Src) (off : Nat) (bs : List UInt8) : (s.write off bs).HasAt off bs :=
  fun j hj => write_get_in s off bs j hj

theorem HasAt.write_disj {s : Src} {a : Nat} {bs : List UInt8} (h : s.HasAt a bs) (off : Nat)
    (cs : List UInt8) (hd : a + bs.length ≤ off ∨ off + cs.length ≤ a) : (s.write off cs).HasAt a bs :=
  h.of_get_eq (fun k h1 h2 => write_get_out s off cs k (by omega))

end Src

/-! ### bucket header record -/

theorem bktBytes_length (L : Layout) (r ni : Nat) : ((LeafVal.bkt r ni).bytes L).length = L.bmSize := by
  simp [LeafVal.bytes]

theorem bktBytes_root (L : Layout) (r ni : Nat) (h1 : L.bmRoot + 8 ≤ L.bmNextInt) (h2 : L.bmNextInt + 8 ≤ L.bmSize)
    (j : Nat) (hj : j < (leBytes r 8).length) :
    ((LeafVal.bkt r ni).bytes L).getD (L.bmRoot + j) 0 = (leBytes r 8).getD j 0 := by
  rw [leBytes_length] at hj
  have hlt : L.bmRoot + j < L.bmSize := by omega
  simp only [LeafVal.bytes, List.getD, List.getElem?_map, List.getElem?_range hlt, Option.map_some,
    Option.getD_some]
  rw [if_pos (by omega), Nat.add_sub_cancel_left]

theorem bktBytes_nextInt (L : Layout) (r ni : Nat) (h1 : L.bmRoot + 8 ≤ L.bmNextInt)
    (h2 : L.bmNextInt + 8 ≤ L.bmSize) (j : Nat) (hj : j < (leBytes ni 8).length) :
    ((LeafVal.bkt r ni).bytes L).getD (L.bmNextInt + j) 0 = (leBytes ni 8).getD j 0 := by
  rw [leBytes_length] at hj
  have hlt : L.bmNextInt + j < L.bmSize := by omega
  simp only [LeafVal.bytes, List.getD, List.getElem?_map, List.getElem?_range hlt, Option.map_some,
    Option.getD_some]
  rw [if_neg (by omega), if_pos (by omega), Nat.add_sub_cancel_left]

end Jamm
