/-
Soundness and completeness of the executable tightness check (definitions: Model/CommitTight.lean).
-/
import Jamm.Model.CommitTight
set_option linter.unusedSectionVars false
open Std

namespace Jamm

section
variable {K E : Type} [Ord K]

theorem tightKeyB_iff (lo : Option K) (k : K) : tightKeyB lo k = true ↔ tightKey lo k := by
  cases lo with
  | none => exact ⟨fun _ => trivial, fun _ => rfl⟩
  | some l => exact Iff.rfl

mutual
theorem tightB_sound (lo : Option K) (t : Tree K E) (h : tightB lo t = true) : TightT lo t := by
  match t with
  | .leaf p es => exact TightT.leaf lo p es
  | .branch p .nil => exact TightT.emptyBranch lo p
  | .branch p (.cons k t' rest) =>
    simp only [tightB, Bool.and_eq_true] at h
    exact TightT.branch lo p k t' rest ((tightKeyB_iff lo k).mp h.1)
      (tightFB_sound (sepLo lo k) (.cons k t' rest) h.2)
theorem tightFB_sound (lo : Option K) (f : Forest K E) (h : tightFB lo f = true) : TightForest lo f := by
  match f with
  | .nil => simp [tightFB] at h
  | .cons k t .nil =>
    simp only [tightFB] at h
    exact TightF.last lo k t (tightB_sound lo t h)
  | .cons k t (.cons k' t' rest') =>
    simp only [tightFB, Bool.and_eq_true] at h
    exact TightF.cons lo k t k' t' rest' (tightB_sound lo t h.1)
      (tightFB_sound (some k') (.cons k' t' rest') h.2)
end

mutual
theorem tightB_complete (lo : Option K) (t : Tree K E) (h : TightT lo t) : tightB lo t = true := by
  match t, h with
  | .leaf p es, _ => simp only [tightB]
  | .branch p .nil, _ => simp only [tightB]
  | .branch p (.cons k t' rest), .branch _ _ _ _ _ hk hf =>
    simp only [tightB, Bool.and_eq_true]
    exact ⟨(tightKeyB_iff lo k).mpr hk, tightFB_complete (sepLo lo k) k t' rest hf⟩
theorem tightFB_complete (lo : Option K) (k : K) (t : Tree K E) (rest : Forest K E)
    (h : TightF lo k t rest) : tightFB lo (.cons k t rest) = true := by
  match rest, h with
  | .nil, .last _ _ _ ht =>
    simp only [tightFB]
    exact tightB_complete lo t ht
  | .cons k' t' rest', .cons _ _ _ _ _ _ ht hr =>
    simp only [tightFB, Bool.and_eq_true]
    exact ⟨tightB_complete lo t ht, tightFB_complete (some k') k' t' rest' hr⟩
end

end
end Jamm
