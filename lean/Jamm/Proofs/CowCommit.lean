/-
A whole copy-on-write commit at the level of file bytes: only the nodes on fresh pages of every bucket are written
(`writeFreshView`), then the free-list page, then the sealed header into the other slot.  The new state shares every
other page with the previous one.  Composition of `Proofs/CowView.lean` with `Proofs/CommitFileAtomic.lean`.
-/
import Jamm.Proofs.CowView
import Jamm.Proofs.CommitFileAtomic
namespace Jamm

section
variable (L : Layout) (order : List MetaField) (pagesize : Nat)

/-- the runs a copy-on-write commit writes: the new free-list run and the runs of the fresh nodes -/
def Opened.freshRuns (fresh : Nat → Bool) (ov : Nat → Nat) (st : Opened) : List (Nat × Nat) :=
  (st.hdr.freelistPage, st.flOverflow) :: st.view.freshRuns fresh ov

/-- the data writes of a copy-on-write commit: the fresh nodes of every bucket, then the free-list page -/
def cowCommitData (fresh : Nat → Bool) (ov : Nat → Nat) (st : Opened) (s : Src) : Src :=
  writeFreelistPage L pagesize st.hdr.freelistPage st.flOverflow st.free (writeFreshView L pagesize fresh ov st.view s)

/-- the data writes of a copy-on-write commit leave the whole new state (but its header) stored and change no byte
outside the runs they write -/
theorem cowCommitData_stores (hE : L.WFEnc = true) (hL : L.WFMeta = true) (hhdr : L.pageSize ≤ pagesize)
    (fresh : Nat → Bool) (ov : Nat → Nat) (st : Opened) (s : Src)
    (hfit : st.view.fits L pagesize ov s.size)
    (hdisj : (st.runs ov).Pairwise runsDisjoint)
    (hsh : SharedV L pagesize fresh ov s st.view)
    (hflfile : st.hdr.freelistPage * pagesize + (st.flOverflow + 1) * pagesize ≤ s.size)
    (hflfit : L.pgPtr + 8 * st.free.length ≤ (st.flOverflow + 1) * pagesize)
    (hflid : st.hdr.freelistPage < 2 ^ 64) (hflrun : (st.flOverflow + 1) * pagesize < 2 ^ 64)
    (hfree : ∀ x ∈ st.free, x < 2 ^ 64) :
    StoredV L pagesize ov (cowCommitData L pagesize fresh ov st s) st.view ∧
    (∃ p, decodePage L (cowCommitData L pagesize fresh ov st s) pagesize st.hdr.freelistPage = .ok p ∧
      p.body = .freelist st.free ∧ p.overflow = st.flOverflow) ∧
    (cowCommitData L pagesize fresh ov st s).size = s.size ∧
    (∀ i, (∀ r ∈ st.freshRuns fresh ov, i < r.1 * pagesize ∨ (r.1 + r.2 + 1) * pagesize ≤ i) →
      (cowCommitData L pagesize fresh ov st s).get i = s.get i) := by
  have W := Layout.WFM.of L hL
  rw [Opened.runs, List.pairwise_cons] at hdisj
  obtain ⟨hflv, hvd⟩ := hdisj
  have hsz1 : (writeFreshView L pagesize fresh ov st.view s).size = s.size :=
    writeFreshView_size L pagesize fresh ov st.view s
  have hfr := fun i h => writeFreelistPage_frame L pagesize W st.hdr.freelistPage st.flOverflow st.free
    (writeFreshView L pagesize fresh ov st.view s) i hflfit h
  have hszc : (cowCommitData L pagesize fresh ov st s).size = s.size := by
    rw [cowCommitData, ← hsz1]; exact applyWrites_size _ _
  refine ⟨?_, ?_, hszc, ?_⟩
  · have h1 := writeFreshView_stored L pagesize hE hhdr fresh ov s.size st.view s rfl hfit hvd hsh
    refine StoredV.agree L pagesize (Layout.WF.of L hE) hhdr ov _ st.view _ (hszc.trans hsz1.symm) h1 ?_
    intro r hr i i1 i2
    exact (hfr i (runsDisjoint_out pagesize (hflv r hr).symm i i1 i2)).1
  · have hd := decode_writeFreelistPage L hL pagesize st.hdr.freelistPage st.flOverflow st.free
      (writeFreshView L pagesize fresh ov st.view s) (by rw [hsz1]; exact hflfile) hflfit hhdr hflid hflrun hfree
    exact ⟨_, hd, rfl, rfl⟩
  · intro i h
    rw [Opened.freshRuns] at h
    rw [cowCommitData, (hfr i (h _ List.mem_cons_self)).1]
    exact writeFreshView_get L pagesize hE fresh ov s.size i st.view s hfit
      (fun r hr => h r (List.mem_cons_of_mem _ hr))

/-- bytes outside a list of runs on pages ≥ 2 that share no page with what a state owns are bytes the state keeps -/
theorem keepsState_of_outside_runs (ov : Nat → Nat) (s s' : Src) (slot : Nat) (old : Opened)
    (runs : List (Nat × Nat)) (hslot : slot < 2) (hsz : s'.size = s.size)
    (hout : ∀ i, (∀ r ∈ runs, i < r.1 * pagesize ∨ (r.1 + r.2 + 1) * pagesize ≤ i) → s'.get i = s.get i)
    (h2 : ∀ r ∈ runs, 2 ≤ r.1)
    (hsep : ∀ a ∈ old.runs ov, ∀ b ∈ runs, runsDisjoint a b) :
    KeepsState pagesize ov s s' slot old := by
  refine ⟨hsz, ?_, ?_⟩
  · intro i i1 i2
    apply hout
    intro r hr
    left
    have h3 : 2 * pagesize ≤ r.1 * pagesize := Nat.mul_le_mul_right _ (h2 r hr)
    have h4 : (slot + 1) * pagesize ≤ 2 * pagesize := Nat.mul_le_mul_right _ (by omega)
    rw [Nat.add_mul, Nat.one_mul] at h4
    omega
  · intro r hr i i1 i2
    apply hout
    intro b hb
    exact runsDisjoint_out pagesize (hsep r hr b hb) i i1 i2

/-- A WHOLE COPY-ON-WRITE COMMIT IS ATOMIC IN FILE BYTES.  From a committed file, for a new state that shares any
subset of its pages with the previous one (`SharedV`: the nodes not on fresh pages are already stored) and whose
written runs (fresh nodes, free-list run) lie on pages ≥ 2 that the previous state does not own:
(1) the file after the data writes keeps the previous state — with `crash_shows_old`, any part of those writes does;
(2) after the header write `open` shows exactly the new state, the file is committed again, and the previous state
is still stored under the old slot -/
theorem cow_commit_atomic (hE : L.WFEnc = true) (hL : L.WFMeta = true) (hrec : L.pgPtr + L.metaSize ≤ pagesize)
    (hhdr : L.pageSize ≤ pagesize) (fresh : Nat → Bool) (ov ov' : Nat → Nat) (s : Src) (slot : Nat)
    (hslot : slot = 0 ∨ slot = 1) (old new : Opened)
    (h0 : Committed L order pagesize ov s slot old)
    (hfit : new.view.fits L pagesize ov' s.size)
    (hdisj : (new.runs ov').Pairwise runsDisjoint)
    (hsh : SharedV L pagesize fresh ov' s new.view)
    (hflfile : new.hdr.freelistPage * pagesize + (new.flOverflow + 1) * pagesize ≤ s.size)
    (hflfit : L.pgPtr + 8 * new.free.length ≤ (new.flOverflow + 1) * pagesize)
    (hflid : new.hdr.freelistPage < 2 ^ 64) (hflrun : (new.flOverflow + 1) * pagesize < 2 ^ 64)
    (hfree : ∀ x ∈ new.free, x < 2 ^ 64)
    (hfresh2 : ∀ r ∈ new.freshRuns fresh ov', 2 ≤ r.1)
    (hsep : ∀ a ∈ old.runs ov, ∀ b ∈ new.freshRuns fresh ov', runsDisjoint a b)
    (c : HeaderOK L order pagesize ov' s old new) (fuel : Nat) (hfo : old.view.weight ≤ fuel)
    (hfn : new.view.weight ≤ fuel) :
    openFile L order pagesize fuel (cowCommitData L pagesize fresh ov' new s) = some old ∧
    openFile L order pagesize fuel
      (writeMetaPage L pagesize (1 - slot) new.hdr (cowCommitData L pagesize fresh ov' new s)) = some new ∧
    Committed L order pagesize ov'
      (writeMetaPage L pagesize (1 - slot) new.hdr (cowCommitData L pagesize fresh ov' new s)) (1 - slot) new ∧
    Holds L order pagesize ov
      (writeMetaPage L pagesize (1 - slot) new.hdr (cowCommitData L pagesize fresh ov' new s)) slot old := by
  have WE := Layout.WF.of L hE
  have W := Layout.WFM.of L hL
  obtain ⟨hst, hfl, hsz, hout⟩ := cowCommitData_stores L pagesize hE hL hhdr fresh ov' new s hfit hdisj hsh hflfile
    hflfit hflid hflrun hfree
  have hk : ∀ sl, sl < 2 → KeepsState pagesize ov s (cowCommitData L pagesize fresh ov' new s) sl old :=
    fun sl hsl => keepsState_of_outside_runs pagesize ov s _ sl old (new.freshRuns fresh ov') hsl hsz hout hfresh2 hsep
  have hold1 : Holds L order pagesize ov (cowCommitData L pagesize fresh ov' new s) slot old :=
    h0.1.transfer L order pagesize WE W hrec hhdr (hk slot (by omega))
  have hother : slotValid L order (cowCommitData L pagesize fresh ov' new s) pagesize (1 - slot) =
      slotValid L order s pagesize (1 - slot) :=
    slotValid_agree L order pagesize W hrec s _ (1 - slot) hsz (hk (1 - slot) (by omega)).2.1
  have c' : HeaderOK L order pagesize ov' (cowCommitData L pagesize fresh ov' new s) old new :=
    ⟨c.above, c.ok, c.root, c.next, c.hfits, c.valid, c.ps, c.newer, by rw [hsz]; exact c.file⟩
  obtain ⟨h1, h2, h3, h4⟩ := header_write_switches L order pagesize hE hL hrec hhdr ov ov' _ slot hslot old new hold1
    h0.2.1 hst hfl c' fuel hfn
  refine ⟨?_, h1, ⟨h2, c.above, h4⟩, h3⟩
  refine openFile_of_holds L order pagesize ov _ slot old hold1 ?_ fuel hfo
  refine openSelect_of_wins L order pagesize _ slot hslot old.hdr hold1.valid hold1.ps ?_
  rw [hother]; exact h0.2.2

end
end Jamm
