/-
Plumbing for `TreeDBLemmas.lean`: the association-list operations of the tree-based database commute
with `abs`, and preserve `AllWF`.
-/
import Jamm.Model.TreeDB
import Jamm.Proofs.TxLemmas
set_option linter.unusedSectionVars false
open Std

namespace Jamm.TDB
open Jamm.Spec (Err Item Path)
variable {K V : Type} [Ord K] [TransOrd K] [LawfulEqOrd K] [DecidableEq K]

/-- forget one bucket's tree -/
def absB (b : TBucket K V) : Spec.Bucket K V := { nextInt := b.nextInt, items := b.tree.flatten }

theorem abs_eq (db : DB K V) : abs db = db.map (fun e => (e.1, absB e.2)) := rfl

theorem find_eq (t : Tree K (Item V)) (h : WF none none t) (k : K) :
    find t k = Spec.lookup k t.flatten := by
  unfold find
  rw [lookup_spec none none t h k trivial trivial, Option.map_map]
  cases Spec.lookup k t.flatten <;> rfl

theorem getBucket_abs (db : DB K V) (p : Path K) :
    Spec.getBucket (abs db) p = (getBucket db p).map absB := by
  rw [abs_eq]
  unfold Spec.getBucket getBucket
  induction db with
  | nil => rfl
  | cons e rest ih =>
    simp only [List.map_cons, List.find?_cons]
    by_cases he : e.1 = p
    · simp [he]
    · simp only [he, decide_false]
      exact ih

theorem abs_setBucket (db : DB K V) (p : Path K) (b : TBucket K V) :
    abs (setBucket db p b) = Spec.setBucket (abs db) p (absB b) := by
  simp only [abs_eq]
  unfold setBucket Spec.setBucket
  have hany : (db.map (fun e => (e.1, absB e.2))).any (fun e => decide (e.1 = p)) =
      db.any (fun e => decide (e.1 = p)) := by
    rw [List.any_map]; rfl
  rw [hany]
  cases db.any (fun e => decide (e.1 = p)) with
  | true =>
    simp only [if_true, List.map_map]
    apply List.map_congr_left
    intro e _
    simp only [Function.comp]
    by_cases he : e.1 = p
    · simp [he]
    · simp [he]
  | false =>
    simp [List.map_append]

theorem abs_removeTree (db : DB K V) (p : Path K) :
    abs (removeTree db p) = Spec.removeTree (abs db) p := by
  simp only [abs_eq]
  unfold removeTree Spec.removeTree
  rw [List.filter_map]
  rfl

theorem getBucket_mem {db : DB K V} {p : Path K} {b : TBucket K V} (h : getBucket db p = some b) :
    ∃ e ∈ db, e.2 = b := by
  unfold getBucket at h
  cases hf : db.find? (fun e => e.1 = p) with
  | none => rw [hf] at h; cases h
  | some e =>
    rw [hf] at h
    exact ⟨e, List.mem_of_find?_eq_some hf, by simpa using h⟩

theorem getBucket_wf {db : DB K V} (hw : AllWF db) {p : Path K} {b : TBucket K V}
    (h : getBucket db p = some b) : WF none none b.tree := by
  obtain ⟨e, he, rfl⟩ := getBucket_mem h
  exact hw e he

theorem setBucket_wf {db : DB K V} (hw : AllWF db) (p : Path K) (b : TBucket K V)
    (hb : WF none none b.tree) : AllWF (setBucket db p b) := by
  unfold setBucket
  split
  · intro e he
    rw [List.mem_map] at he
    obtain ⟨e', he', rfl⟩ := he
    split
    · exact hb
    · exact hw e' he'
  · intro e he
    rw [List.mem_append, List.mem_singleton] at he
    cases he with
    | inl h => exact hw e h
    | inr h => subst h; exact hb

theorem removeTree_wf {db : DB K V} (hw : AllWF db) (p : Path K) : AllWF (removeTree db p) := by
  intro e he
  exact hw e (List.mem_filter.mp he).1

theorem newTree_wf : WF none none (newTree : Tree K (Item V)) :=
  WF.leaf none none 0 [] trivial (by intro e he; cases he)

theorem newTree_flatten : (newTree : Tree K (Item V)).flatten = [] := rfl

end Jamm.TDB
