/- GENERATION FAILED -/
import Jamm.Model.Steps
import Jamm.Model.Layout
import Jamm.Model.Params
namespace Jamm.Gen
theorem translator_failed : False := by
  fail "translator: TxInner::write_data: expected exactly one `writeData`, found 0"
end Jamm.Gen
