/-
`#audit_ns <Prop-id>`: prints, for every theorem declared in namespace `Jamm.Props.<id>`, a line
`AUDIT <id> <theorem> <axiom,axiom,...>` listing the axioms its proof depends on.
-/
import Lean
open Lean Elab Command

namespace Jamm.AuditTool

elab "#audit_ns " id:ident : command => do
  let env ← getEnv
  let pfx := (`Jamm.Props) ++ id.getId
  let mut names : Array Name := #[]
  for (n, ci) in env.constants.map₁.toList ++ env.constants.map₂.toList do
    if pfx.isPrefixOf n && !n.isInternal then
      match ci with
      | .thmInfo _ => names := names.push n
      | _ => pure ()
  let sorted := names.qsort (fun a b => a.toString < b.toString)
  for n in sorted do
    let axs ← liftCoreM (Lean.collectAxioms n)
    let axs := axs.qsort (fun a b => a.toString < b.toString)
    IO.println s!"AUDIT {id.getId} {n.replacePrefix pfx .anonymous} {",".intercalate (axs.toList.map toString)}"

end Jamm.AuditTool
