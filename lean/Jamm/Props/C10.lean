/-
C10 — freed space is reused: file growth is bounded by live data.

Allocator theorems (for every free set and request size): first fit returns a run of free pages
(`first_fit_sound`), fails only when no run of that length exists (`first_fit_complete`), and the file
is extended only in that case (`extension_only_without_run`); release moves exactly the pages freed by
transactions older than the bound (`release_exact`); with no reader open the next writer releases
every pending page (`everything_released_without_readers`), while pages an open reader needs are
retained (C03).  The accounting invariant is preserved along every history (`invariant_always`).
The plateau: per allocation, the file is extended only while it is small relative to the non-free pages
(`plateau_pigeonhole`, `extension_implies_small`); along every history of protocol-abiding events, in any
interleaving of writers and readers and for any number of transactions, the page mark stays at most
`max numPages₀ (K·(n+2)+1)` when requests are at most `K` pages and at most `n` pages are non-free (live
or pending) after each event (`plateau_along_every_history`).  No page below the mark is ever lost
(`no_page_is_lost`, `each_page_in_exactly_one_set`).
Across close and reopen (`Sys.reopen`: no transaction survives, the persisted list `FL.pages` is read back by
`FL.init` and everything on it is free, the header is unchanged; `Sys.runSegs`: a history of segments
separated by reopens): a reopen keeps the accounting invariant (`reopen_keeps_invariant`), makes every page
that was free or pending at close free and leaves nothing pending (`reopen_frees_everything`), loses no page
(`no_page_is_lost_across_reopen`), and the plateau bound holds along every history with any number of
reopens (`plateau_across_reopens`; `invariant_always_across_reopens`).
Tie: exact comparison of the real in-memory free list with the model's after every commit, on long
overwrite / delete / bucket-delete workloads with and without reopen and with a reader held.
-/
import Jamm.Proofs.FreelistLemmas
import Jamm.Proofs.PlateauLemmas
import Jamm.Proofs.FreelistCover
import Jamm.Proofs.PlateauHistory
import Jamm.Proofs.ReopenLemmas
set_option linter.unusedSectionVars false

namespace Jamm.Props.C10
open Jamm

theorem first_fit_sound (n : Nat) (free : List Nat) (s : Nat) (hn : 0 < n) (ha : ascending free = true)
    (h2 : ∀ p ∈ free, 2 ≤ p) (h : FL.findRun n free 0 0 = some s) : ∀ i, i < n → (s + i) ∈ free :=
  findRun_sound n free s hn ha h2 h

theorem first_fit_complete (n : Nat) (free : List Nat) (hn : 0 < n) (ha : ascending free = true)
    (h2 : ∀ p ∈ free, 2 ≤ p) (h : FL.findRun n free 0 0 = none) : hasRun n free = false :=
  findRun_complete n free hn ha h2 h

theorem allocation_exact (f : FL) (n s : Nat) (f' : FL) (hn : 0 < n) (ha : ascending f.free = true)
    (h2 : ∀ p ∈ f.free, 2 ≤ p) (h : f.allocate n = some (s, f')) :
    (∀ i, i < n → (s + i) ∈ f.free) ∧ f'.pending = f.pending ∧
    (∀ p, p ∈ f'.free ↔ (p ∈ f.free ∧ (p < s ∨ s + n ≤ p))) ∧ ascending f'.free = true :=
  allocate_spec f n s f' hn ha h2 h

theorem extension_only_without_run (t : TxFL) (n : Nat) (hn : 0 < n) (ha : ascending t.fl.free = true)
    (h2 : ∀ p ∈ t.fl.free, 2 ≤ p) (h : (t.allocate n).2.numPages ≠ t.numPages) :
    hasRun n t.fl.free = false ∧ (t.allocate n).1 = t.numPages ∧ (t.allocate n).2.numPages = t.numPages + n :=
  extend_only_when_no_run t n hn ha h2 h

theorem release_exact (f : FL) (bound : Nat) (ha : ascending (f.pending.map (·.1)) = true) :
    (∀ p, p ∈ (f.release bound).free ↔ (p ∈ f.free ∨ ∃ e ∈ f.pending, e.1 < bound ∧ p ∈ e.2)) ∧
    (∀ e, e ∈ (f.release bound).pending ↔ (e ∈ f.pending ∧ bound ≤ e.1)) :=
  release_spec f bound ha

theorem everything_released_without_readers (s : Sys) (hi : s.invB = true) (h : s.readers = []) :
    s.beginWriter.fl.pending = [] :=
  release_all_when_no_reader s hi h

theorem invariant_always (s : Sys) (evs : List Ev) (s' : Sys) (hi : s.invB = true)
    (h : s.runEvs evs = some s') : s'.invB = true :=
  inv_run s evs s' hi h

/-- the plateau: if no run of `k` free pages exists below the mark `N`, then the free pages number at
most `(k-1)·(n+1)` where `n` is the number of non-free (live or still pending) pages — pigeonhole over
maximal free runs; independent of the number of transactions -/
theorem plateau_pigeonhole (k N : Nat) (free : List Nat) (hk : 0 < k) (ha : ascending free = true)
    (hr : ∀ p ∈ free, 2 ≤ p ∧ p < N) (hN : 2 ≤ N) (h : hasRun k free = false) :
    free.length ≤ (k - 1) * ((N - 2 - free.length) + 1) :=
  no_run_bound k N free hk ha hr hN h

/-- hence the file is extended only while it is small relative to the non-free pages:
`numPages ≤ (k-1)·(n+1) + n + 2` at every extension (the history-level consequence is
`plateau_along_every_history` below) -/
theorem extension_implies_small (t : TxFL) (k : Nat) (hk : 0 < k) (ha : ascending t.fl.free = true)
    (hr : ∀ p ∈ t.fl.free, 2 ≤ p ∧ p < t.numPages) (hN : 2 ≤ t.numPages)
    (h : (t.allocate k).2.numPages ≠ t.numPages) :
    t.numPages ≤ (k - 1) * ((t.numPages - 2 - t.fl.free.length) + 1) + (t.numPages - 2 - t.fl.free.length) + 2 :=
  extend_implies_small t k hk ha hr hN h

/-- the plateau along every history: however many transactions run, in whatever interleaving with
readers, the page mark never exceeds the larger of where it started and `K·(n+2)+1`, where `K` bounds the
length of every requested run (`requestsLe`) and `n` the number of non-free pages (live, or pending for a
reader / the next writer) observed after each event (`Sys.nonFreeLe`) -/
theorem plateau_along_every_history (s : Sys) (evs : List Ev) (s' : Sys) (K n : Nat)
    (hi : s.invB = true) (h : s.runEvs evs = some s')
    (hK : requestsLe K evs = true) (hn : s.nonFreeLe n evs = true) :
    s'.numPages ≤ max s.numPages (K * (n + 2) + 1) :=
  plateau_history s evs s' K n hi h hK hn

/-- non-vacuity of `plateau_along_every_history`: a history with a reader held across a commit (which
delays the reuse and costs one extension) satisfies every hypothesis with `K = 1`, `n = 4`; the file ends
at 6 pages, within the bound `max 4 (1·(4+2)+1) = 7`, and `n = 3` would not do -/
example :
    let s0 : Sys := { cur := { txId := 0, reach := [2, 3] }, shared := {}, readers := [], numPages := 4 }
    let evs : List Ev := [.commitW { freed := [3], requests := [1] }, .beginR,
                          .commitW { freed := [4], requests := [1] }, .endR 0,
                          .commitW { freed := [5], requests := [1] }, .commitW { freed := [3], requests := [1] }]
    s0.invB = true ∧ ((s0.runEvs evs).map (·.numPages)) = some 6 ∧
    requestsLe 1 evs = true ∧ s0.nonFreeLe 4 evs = true ∧ s0.nonFreeLe 3 evs = false ∧
    6 ≤ max s0.numPages (1 * (4 + 2) + 1) := by decide

/-- non-vacuity: the freed page of one commit is reused two commits later, the file does not grow -/
example :
    let s0 : Sys := { cur := { txId := 0, reach := [2, 3] }, shared := {}, readers := [], numPages := 4 }
    let evs : List Ev := [.commitW { freed := [3], requests := [1] }, .commitW { freed := [4], requests := [1] },
                          .commitW { freed := [3], requests := [1] }, .commitW { freed := [4], requests := [1] }]
    ((s0.runEvs evs).map (·.numPages)) = some 5 := by decide

/-- no page is lost: along every history of protocol-abiding events, every page below the high-water mark is
reachable from the current snapshot, free, or pending (so every page a transaction gives up is available
again once no reader needs it) -/
theorem no_page_is_lost (s : Sys) (evs : List Ev) (s' : Sys) (hi : s.invB = true) (hcov : s.Covers)
    (h : s.runEvs evs = some s') : s'.Covers :=
  covers_run s evs s' hi hcov h

/-- … and in exactly one of the three -/
theorem each_page_in_exactly_one_set (s : Sys) (hi : s.invB = true) (hcov : s.Covers) (p : Nat)
    (h2 : 2 ≤ p) (hp : p < s.numPages) :
    (p ∈ s.cur.reach ∧ p ∉ s.shared.free ∧ p ∉ s.shared.pendingPages) ∨
    (p ∉ s.cur.reach ∧ p ∈ s.shared.free ∧ p ∉ s.shared.pendingPages) ∨
    (p ∉ s.cur.reach ∧ p ∉ s.shared.free ∧ p ∈ s.shared.pendingPages) :=
  exactly_one s hi hcov p h2 hp

example : ({ cur := { txId := 0, reach := [2, 3] }, shared := {}, readers := [], numPages := 4 } : Sys).Covers :=
  covers_init

/-! ### across close and reopen -/

/-- close and reopen preserves the accounting invariant (the reopened free set is ascending whatever the
order of the persisted list, disjoint from the reachable pages and in range; nothing is pending, no reader
is open) -/
theorem reopen_keeps_invariant (s : Sys) (hi : s.invB = true) : (s.reopen).invB = true :=
  reopen_inv s hi

/-- … along any history with reopens -/
theorem invariant_always_across_reopens (s : Sys) (segs : List (List Ev)) (s' : Sys) (hi : s.invB = true)
    (h : s.runSegs segs = some s') : s'.invB = true :=
  inv_runSegs s segs s' hi h

/-- after a reopen nothing is pending and exactly the pages that were free or pending at close are free: a page
freed before the close (even one a reader of the closed process still pinned) is available to the first
writer after the open -/
theorem reopen_frees_everything (s : Sys) (hi : s.invB = true) :
    (s.reopen).shared.pending = [] ∧
    ∀ p, p ∈ (s.reopen).shared.free ↔ (p ∈ s.shared.free ∨ p ∈ s.shared.pendingPages) :=
  Jamm.reopen_frees_everything s hi

/-- no page is lost along any history with reopens: every page below the high-water mark stays reachable,
free or pending through every event and every close/reopen -/
theorem no_page_is_lost_across_reopen (s : Sys) (segs : List (List Ev)) (s' : Sys) (hi : s.invB = true)
    (hcov : s.Covers) (h : s.runSegs segs = some s') : s'.Covers :=
  covers_runSegs s segs s' hi hcov h

/-- the plateau across reopens: for any number of segments, transactions and reopens the page mark never
exceeds the larger of where it started and `K·(n+2)+1`, `K` bounding every requested run of every segment
(`requestsLeSegs`) and `n` the non-free count after each event of each segment (`Sys.nonFreeLeSegs`; a reopen
keeps the mark and does not increase the non-free count) -/
theorem plateau_across_reopens (s : Sys) (segs : List (List Ev)) (s' : Sys) (K n : Nat)
    (hi : s.invB = true) (h : s.runSegs segs = some s')
    (hK : requestsLeSegs K segs = true) (hn : s.nonFreeLeSegs n segs = true) :
    s'.numPages ≤ max s.numPages (K * (n + 2) + 1) :=
  plateau_with_reopens s segs s' K n hi h hK hn

/-- non-vacuity: in the first segment a reader is held (and never ended: the process closes), so pages 3 and 4
are still pending at close and the file has grown to 6 pages; after the reopen both are free, the writer of the
second segment reuses page 3 and the file stays at 6 pages — whereas the same writer without the reopen (reader
still held) extends the file to 7.  The two-segment history satisfies every hypothesis of
`plateau_across_reopens` with `K = 1`, `n = 4` (`n = 3` would not do).  (`reopen_eq` first replaces
`FL.pages` by `free ++ pendingPages`: `List.mergeSort` is defined by well-founded recursion and does not
evaluate under `decide`.) -/
example :
    let s0 : Sys := { cur := { txId := 0, reach := [2, 3] }, shared := {}, readers := [], numPages := 4 }
    let seg1 : List Ev := [.beginR, .commitW { freed := [3], requests := [1] },
                           .commitW { freed := [4], requests := [1] }]
    let seg2 : List Ev := [.commitW { freed := [5], requests := [1] }]
    s0.invB = true ∧
    ((s0.runEvs seg1).map (fun s => (s.shared.free, s.shared.pendingPages, s.numPages))) = some ([], [3, 4], 6) ∧
    ((s0.runSegs [seg1]).map (fun s => (s.shared.free, s.shared.pendingPages, s.numPages))) = some ([3, 4], [], 6) ∧
    ((s0.runSegs [seg1, seg2]).map (fun s => (s.cur.reach, s.shared.free, s.numPages))) = some ([2, 3], [4, 5], 6) ∧
    ((s0.runEvs (seg1 ++ seg2)).map (·.numPages)) = some 7 ∧
    requestsLeSegs 1 [seg1, seg2] = true ∧ s0.nonFreeLeSegs 4 [seg1, seg2] = true ∧
    s0.nonFreeLeSegs 3 [seg1, seg2] = false ∧
    6 ≤ max s0.numPages (1 * (4 + 2) + 1) := by
  simp only [Sys.runSegs, Sys.nonFreeLeSegs, Sys.stepAll, reopen_eq]
  decide

end Jamm.Props.C10
