/-
C03 — a read-only transaction sees one frozen snapshot for its whole life.

Model (`Jamm/Model/Freelist.lean`): snapshots are (transaction id, set of reachable pages); a reader
keeps the snapshot it started from *by value* (the code copies the header at begin and keeps its own
reference to the map); writers are abstract copy-on-write clients that free pages of the snapshot they
started from and write only pages they allocated; `Tx::new(writable)` releases pending pages older than
the oldest registered reader.  Theorems, for every history of protocol-abiding events and any number
of readers opened and closed in any order:
* the accounting invariant holds in every reachable state (`invariant_always`);
* no committing writer ever writes a page of an open reader's snapshot (`reader_pages_never_written`);
* no page of an open reader's snapshot is ever in the shared free set (`reader_pages_never_free`).
A page that is never written keeps its bytes, and a reader resolves its snapshot only through pages of
`reach`, so what it observes cannot change.  Readers may also begin and end WHILE a write transaction is open (between its begin, where it decides what
to release, and its commit): that order is covered by the model with the writer's begin and commit as
separate events (`Jamm/Model/Conc.lean`, shared with C04): `invariant_with_writer_open`,
`reader_pages_safe_with_writer_open`.
The tie to the code is exact and checked on every commit
of the correspondence run: the writer's freed / allocated page sets are extracted from consecutive
real files, the model applies its own release rule, and the real in-memory free list (hook accessor)
must equal the model's.
-/
import Jamm.Proofs.FreelistLemmas
import Jamm.Proofs.ConcLemmas
set_option linter.unusedSectionVars false

namespace Jamm.Props.C03
open Jamm

theorem invariant_initially :
    ({ cur := { txId := 0, reach := [2, 3] }, shared := {}, readers := [], numPages := 4 } : Sys).invB = true :=
  inv_init

theorem invariant_always (s : Sys) (evs : List Ev) (s' : Sys) (hi : s.invB = true)
    (h : s.runEvs evs = some s') : s'.invB = true :=
  inv_run s evs s' hi h

theorem reader_pages_never_written (s : Sys) (evs : List Ev) (s' : Sys) (hi : s.invB = true)
    (h : s.runEvs evs = some s') (w : WriterTx) (hc : s'.clientOkB (.commitW w) = true)
    (r : Snap) (hr : r ∈ s'.readers) : disjointB r.reach (s'.writes w) = true :=
  reader_pages_not_written s' w (inv_run s evs s' hi h) hc r hr

theorem reader_pages_never_free (s : Sys) (evs : List Ev) (s' : Sys) (hi : s.invB = true)
    (h : s.runEvs evs = some s') (r : Snap) (hr : r ∈ s'.readers) :
    disjointB r.reach s'.shared.free = true :=
  reader_pages_not_free s' (inv_run s evs s' hi h) r hr

/-- a reader's snapshot is a value: no event changes the snapshot an open reader holds -/
theorem reader_snapshot_is_a_value (s : Sys) (w : WriterTx) :
    (s.step (.commitW w)).readers = s.readers ∧ (s.step (.dropW w)).readers = s.readers := ⟨rfl, rfl⟩

/-- the same with the writer's begin and its commit as separate events, readers beginning and ending in
between (single-threaded histories in which a reader is opened or closed while a write transaction is open) -/
theorem invariant_with_writer_open (s : Sys2) (evs : List Ev2) (s' : Sys2) (hi : s.base.invB = true)
    (hw : s.writer = none) (hch : s.choosing = []) (hat : evs.all Ev2.atomic = true)
    (h : s.run evs = some s') : s'.base.invB = true :=
  inv2_run s evs s' hi hw hch hat h

/-- … and when the open writer commits, no page of any open reader's snapshot is free or written, whether
the reader began before the writer, or after the writer's begin -/
theorem reader_pages_safe_with_writer_open (s : Sys2) (evs : List Ev2) (s' : Sys2) (hi : s.base.invB = true)
    (hw : s.writer = none) (hch : s.choosing = []) (hat : evs.all Ev2.atomic = true)
    (h : s.run evs = some s') (w : WriterTx) (hen : s'.enabledB (.commitW w) = true) :
    s'.readersSafeB w = true :=
  readers_safe_run s evs s' hi hw hch hat h w hen

/-- non-vacuity: a reader begins after the writer's begin and is still open when the writer commits and
when the next writer reuses pages -/
example :
    let s0 : Sys2 := { cur := { txId := 0, reach := [2, 3] }, shared := {}, readers := [], numPages := 4 }
    let evs : List Ev2 := [.beginW, .beginR, .commitW { freed := [3], requests := [1] },
                           .beginW, .commitW { freed := [4], requests := [1] }, .beginW]
    ((s0.run evs).map (fun s => (s.readers.map (·.reach), s.readersSafeB { freed := [5], requests := [1] }))) =
      some ([[2, 3]], true) := by decide

/-- non-vacuity: a reader held across two page-reusing commits -/
example :
    let s0 : Sys := { cur := { txId := 0, reach := [2, 3] }, shared := {}, readers := [], numPages := 4 }
    let evs : List Ev := [.commitW { freed := [3], requests := [1] }, .beginR,
                          .commitW { freed := [4], requests := [2] }, .commitW { freed := [5], requests := [1] }]
    (s0.runEvs evs).isSome = true ∧ ((s0.runEvs evs).map (fun s => s.readers.map (·.reach))) = some [[2, 4]] := by
  decide

end Jamm.Props.C03
