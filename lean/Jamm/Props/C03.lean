import Jamm.Proofs.SpecLemmas
namespace Jamm.Props.C03
theorem placeholder : True := trivial
end Jamm.Props.C03
