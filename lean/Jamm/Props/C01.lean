/-
C01 — committed data reads back exactly as a reference ordered map would.

Property theorems only (helper lemmas live in `Jamm/Proofs`).  The reference is `Jamm.Spec`; this
file states what is proved about it and about the model of the code, layer by layer.
-/
import Jamm.Proofs.SpecLemmas
import Jamm.Proofs.TxLemmas
import Jamm.Proofs.CursorLemmas
import Jamm.Proofs.FileCheckLemmas
import Jamm.Proofs.CommitCompose
import Jamm.Proofs.EncodeTreeLemmas
import Jamm.Proofs.TreeDBLemmas
import Jamm.Proofs.EncodeViewLemmas
import Jamm.Proofs.FileDBLemmas
import Jamm.Proofs.TreeDBHistory
import Jamm.Proofs.EndToEnd
import Jamm.Proofs.CommitNeb
import Jamm.Gen.Layout
import Jamm.Gen.HashOrder
set_option linter.unusedSectionVars false
open Std

namespace Jamm.Props.C01
open Jamm Jamm.Spec
variable {K : Type} [Ord K] [TransOrd K] [LawfulEqOrd K] [DecidableEq K] {α : Type}

/-! ## The reference is an ordered map (so "ascending byte order" and "the value last written" mean
what they say). -/

/-- inserting keeps the item list strictly ascending -/
theorem ref_insert_sorted (k : K) (x : α) (l : List (K × α)) (h : Sorted l) : Sorted (Spec.insert k x l) :=
  insert_sorted k x l h

/-- a lookup after an insert returns the inserted value for that key and is unchanged elsewhere -/
theorem ref_lookup_insert (k k' : K) (x : α) (l : List (K × α)) :
    lookup k' (Spec.insert k x l) = if k' = k then some x else lookup k' l :=
  lookup_insert k k' x l

/-- erasing keeps the order, removes exactly that key -/
theorem ref_erase_sorted (k : K) (l : List (K × α)) (h : Sorted l) : Sorted (erase k l) :=
  erase_sorted k l h

theorem ref_lookup_erase (k k' : K) (l : List (K × α)) (h : Sorted l) :
    lookup k' (erase k l) = if k' = k then none else lookup k' l :=
  lookup_erase k k' l h

/-! ## The model of the code's reads and in-transaction writes refines the reference, per bucket.
`WF none none t` is what the verified checker `wfb` establishes on the real file after every commit
(C05) and what edits preserve (C07). -/

/-- `Bucket::get` on any well-formed tree returns what the reference returns on the tree's contents -/
theorem get_refines (t : Tree K α) (h : WF none none t) (key : K) :
    t.lookup key = (lookup key t.flatten).map (fun e => (key, e)) :=
  lookup_spec none none t h key trivial trivial

/-- a full scan returns the reference's items, which are in strictly ascending key order -/
theorem scan_refines (t : Tree K α) (h : WF none none t) (n : Nat) (hn : t.flatten.length < n) :
    (Cursor.drain n { root := t }).1 = t.flatten ∧ Sorted t.flatten := by
  obtain ⟨hc, hp⟩ := startCursor_spec t h.shp
  refine ⟨?_, (flatten_sorted none none t h).1⟩
  rw [drain_fresh_eq t h.shp, if_neg (by omega)]
  rw [(drain_spec t n _ hc (by rw [hp]; exact hn)).1, hp]

/-- `put` / `delete` (and the leaf edits of bucket creation / deletion) refine the reference's
insert / erase, for any sequence of them -/
theorem edits_refine (t : Tree K α) (h : WF none none t) (ops : List (TxOp K α)) :
    (ops.foldl Tree.applyOp t).flatten = ops.foldl Spec.applyOp t.flatten ∧
    WF none none (ops.foldl Tree.applyOp t) :=
  applyOps_spec t h ops

/-- a tree accepted by the executable checker (run on the real bytes after every commit) is
well-formed, so the three theorems above apply to what the code actually wrote -/
theorem checked_file_tree_wf (t : Tree K α) (h : wfb none none t = true) : WF none none t :=
  wfb_sound none none t h

/-- non-vacuity: a concrete sorted list and the laws on it -/
example : Sorted (Spec.insert (2 : Nat) "b" [(1, "a"), (3, "c")]) ∧
    lookup 2 (Spec.insert (2 : Nat) "b" [(1, "a"), (3, "c")]) = some "b" := by
  decide

/-! ## Layer C: commit.  The model of one bucket's commit is `commitTree`: the replay of the steps that
the real `rebalance` reports (any list of steps is covered), then `spill` (functional, no oracle).  The
correspondence run checks on every commit that this model predicts the exact shape of the tree the
real code wrote; the theorems say that such a commit cannot change what the bucket contains and keeps
the invariant under which the reads above are correct. -/

/-- commit does not change the contents of a bucket: for every list of rebalance steps, every list of
touched header keys, every page size, every split threshold -/
theorem commit_preserves_contents (p : Params) (pagesize hdr leafHdr branchHdr bmSize : Nat)
    (steps : List RbStep) (touched : List Bytes) (t : Tree Bytes Ent) (h : TreeInv t) :
    (commitTree p pagesize hdr leafHdr branchHdr (entSize bmSize) steps touched t).flatten = t.flatten := by
  obtain ⟨d, hu⟩ := h.uniform
  exact commitTree_flatten p pagesize hdr leafHdr branchHdr (entSize bmSize) steps touched t d hu

/-- the tree invariant (separators bound their subtrees, no routing gap, uniform depth) holds after
every edit of a transaction and after its commit, hence — by induction — at every point of every
history of transactions -/
theorem invariant_through_edits (t : Tree K α) (h : TreeInv t) (ops : List (TxOp K α)) :
    TreeInv (ops.foldl Tree.applyOp t) :=
  applyOps_inv t h ops

theorem invariant_through_commit (p : Params) (hp : p.Valid) (h2 : 2 ≤ p.minKeysPerNode)
    (pagesize hdr leafHdr branchHdr bmSize : Nat) (steps : List RbStep) (touched : List Bytes)
    (t : Tree Bytes Ent) (h : TreeInv t) :
    TreeInv (commitTree p pagesize hdr leafHdr branchHdr (entSize bmSize) steps touched t) :=
  commitTree_inv p pagesize hdr leafHdr branchHdr (entSize bmSize) hp h2 steps touched t h

/-- … and a tree with the invariant AND no childless branch (`nebT`) is well-formed for routing, so
`get_refines`, `scan_refines` and `edits_refine` apply to it.  `nebT` is kept by every edit
(`edits_keep_invariant_and_wellformedness`) and by `spill`; a replay of `rebalance` steps can break it only in
the middle (a branch emptied by a merge that later steps remove), so for commit it is a hypothesis on the
rebalanced tree (`commit_gives_wellformed_tree`), evaluated by the run on every real replay -/
theorem invariant_gives_wf (t : Tree K α) (h : TreeInv t) (hne : nebT t = true) : WF none none t :=
  wfs_wf none none t h.sep hne

/-- without tightness the separator invariant alone is *not* kept by `put` (the counterexample that
made tightness part of the invariant) -/
theorem sep_alone_not_inductive :
    ¬ (∀ (lo hi : Option Nat) (t : Tree Nat Unit), WFS lo hi t → ∀ (key : Nat) (e : Unit),
        inLo lo key → inHi hi key → WFS lo hi (t.put key e)) :=
  put_wfs_false

/-- non-vacuity: a two-level tree with a nested-bucket entry satisfies the invariant's executable form -/
example : wfsb (K := Nat) (E := Nat) none none
      (.branch 5 (.cons 10 (.leaf 6 [(3, 0), (10, 1)]) (.cons 20 (.leaf 7 [(20, 5)]) .nil))) = true ∧
    tightB (K := Nat) (E := Nat) none
      (.branch 5 (.cons 10 (.leaf 6 [(3, 0), (10, 1)]) (.cons 20 (.leaf 7 [(20, 5)]) .nil))) = true := by
  decide

/-! ## Layer S, writing: a tree written node by node to its pages (the model of `Page::write_node`, tied to the
real writer byte for byte on every commit) reads back, by unfolding from the root page, as exactly the same
tree — so what a commit writes is what the next transaction (same process or after reopen) reads. -/

theorem written_tree_reads_back (pagesize : Nat) (hhdr : Gen.layout.pageSize ≤ pagesize) (ov : Nat → Nat)
    (t : Tree Bytes LeafVal) (s : Src)
    (hfit : nodesFit Gen.layout pagesize ov s.size t = true)
    (hdisj : (nodeRunsT ov t).Pairwise runsDisjoint)
    (fuel : Nat) (hfuel : t.nodes ≤ fuel) :
    unfoldT (pageStoreOf Gen.layout pagesize (writeTreeT Gen.layout pagesize ov t s)) fuel t.pid = some t :=
  unfold_writeTree Gen.layout pagesize (by decide) hhdr ov t s hfit hdisj fuel hfuel

/-- … and writing it disturbs no byte outside the runs of its own nodes (other buckets, the snapshot a reader
holds, the other header) -/
theorem written_tree_is_local (pagesize : Nat) (ov : Nat → Nat) (t : Tree Bytes LeafVal) (s : Src) (i : Nat)
    (hfit : nodesFit Gen.layout pagesize ov s.size t = true)
    (h : ∀ r ∈ nodeRunsT ov t, i < r.1 * pagesize ∨ (r.1 + r.2 + 1) * pagesize ≤ i) :
    (writeTreeT Gen.layout pagesize ov t s).get i = s.get i :=
  (writeTree_frame Gen.layout pagesize (by decide) ov t s i hfit h).1

/-! ## The API layer: the database as the code holds it — every bucket a B+tree, the public operations the
control flow of `bucket.rs` over the tree operations (`Model/TreeDB.lean`) — refines the reference nested
ordered map: same return values and error kinds, same contents, counters and bucket structure, at every
nesting depth, for every sequence of operations; and a commit that rewrites every bucket's tree without
changing its contents (which `commit_preserves_contents` says of the commit model) is invisible. -/

/-- every write operation returns what the reference returns and leaves the reference's state -/
theorem api_put_refines (db : TDB.DB K α) (h : TDB.AllWF db) (p : Spec.Path K) (k : K) (v : α) :
    (TDB.put db p k v).1 = (Spec.put (TDB.abs db) p k v).1 ∧
    TDB.abs (TDB.put db p k v).2 = (Spec.put (TDB.abs db) p k v).2 ∧ TDB.AllWF (TDB.put db p k v).2 :=
  TDB.put_refines db h p k v

theorem api_delete_refines (db : TDB.DB K α) (h : TDB.AllWF db) (p : Spec.Path K) (k : K) :
    (TDB.delete db p k).1 = (Spec.delete (TDB.abs db) p k).1 ∧
    TDB.abs (TDB.delete db p k).2 = (Spec.delete (TDB.abs db) p k).2 ∧ TDB.AllWF (TDB.delete db p k).2 :=
  TDB.delete_refines db h p k

theorem api_bucket_getter_refines (db : TDB.DB K α) (h : TDB.AllWF db) (p : Spec.Path K) (name : K) (s m : Bool) :
    (TDB.bucketGetter db p name s m).1 = (Spec.bucketGetter (TDB.abs db) p name s m).1 ∧
    TDB.abs (TDB.bucketGetter db p name s m).2 = (Spec.bucketGetter (TDB.abs db) p name s m).2 ∧
    TDB.AllWF (TDB.bucketGetter db p name s m).2 :=
  TDB.bucketGetter_refines db h p name s m

theorem api_delete_bucket_refines (db : TDB.DB K α) (h : TDB.AllWF db) (p : Spec.Path K) (name : K) :
    (TDB.deleteBucket db p name).1 = (Spec.deleteBucket (TDB.abs db) p name).1 ∧
    TDB.abs (TDB.deleteBucket db p name).2 = (Spec.deleteBucket (TDB.abs db) p name).2 ∧
    TDB.AllWF (TDB.deleteBucket db p name).2 :=
  TDB.deleteBucket_refines db h p name

/-- reads: point lookup, counter, full scan -/
theorem api_reads_refine (db : TDB.DB K α) (h : TDB.AllWF db) (p : Spec.Path K) (k : K) :
    TDB.get db p k = Spec.get (TDB.abs db) p k ∧ TDB.nextInt db p = Spec.nextInt (TDB.abs db) p ∧
    TDB.scan db p = Spec.scan (TDB.abs db) p :=
  ⟨TDB.get_refines db h p k, TDB.nextInt_refines db p, TDB.scan_refines db p⟩

/-- any sequence of write operations on buckets at any depth -/
theorem api_history_refines (db : TDB.DB K α) (h : TDB.AllWF db) (ops : List (TDB.Op K α)) :
    TDB.abs (ops.foldl TDB.applyOp db) = ops.foldl Spec.applyTOp (TDB.abs db) ∧
    TDB.AllWF (ops.foldl TDB.applyOp db) :=
  TDB.applyOps_refine db h ops

/-- commit is invisible in the reference when it keeps each bucket's contents -/
theorem api_commit_invisible (f : Spec.Path K → Tree K (Spec.Item α) → Tree K (Spec.Item α)) (db : TDB.DB K α)
    (hf : ∀ e ∈ db, (f e.1 e.2.tree).flatten = e.2.tree.flatten) :
    TDB.abs (TDB.commitWith f db) = TDB.abs db :=
  TDB.commitWith_refines f db hf

/-! ## Composition across layers: file ↔ database state -/

/-- a whole database — every bucket at every nesting depth — written to pages (each tree node at its own run,
bucket entries naming the root page and counter of the bucket below) is read back, from the root page, as
exactly the same database: what a commit writes is what a later transaction, or a reopen, sees -/
theorem written_database_reads_back (pagesize : Nat) (hhdr : Gen.layout.pageSize ≤ pagesize) (ov : Nat → Nat)
    (v : BucketView) (s : Src) (hok : ViewOK v)
    (hfit : v.fits Gen.layout pagesize ov s.size)
    (hdisj : (v.allRuns ov).Pairwise runsDisjoint)
    (fuel : Nat) (hfuel : v.weight ≤ fuel) :
    viewBucket (pageStoreOf Gen.layout pagesize (writeView Gen.layout pagesize ov v s)) fuel v.tree.pid v.nextInt =
      .ok v :=
  viewBucket_writeView Gen.layout pagesize (by decide) hhdr ov v s hok hfit hdisj fuel hfuel

/-- the state read from a file that the checker accepts is an API-layer database all of whose trees are
well-formed, with the header's counter at the root: every `api_*` theorem above applies to it -/
theorem checked_file_is_a_wellformed_database (mt : MetaRec) (pg : PageStore) (fileSize pagesize : Nat)
    (sum : FileSummary) (h : checkFile mt pg fileSize pagesize = .ok sum) :
    TDB.AllWF (viewToTDB [] sum.root) ∧
    TDB.getBucket (viewToTDB [] sum.root) [] = some { nextInt := mt.nextInt, tree := sum.root.tree.mapE itemOf } :=
  ⟨checked_file_allwf mt pg fileSize pagesize sum h, checked_file_root mt pg fileSize pagesize sum h⟩

/-! ## Whole histories, values included.  `commitTree` is polymorphic in the payload; applied to the API-layer
database (trees carrying the real values and bucket markers) it gives `TDB.commitDB`.  One theorem for a whole
history of transactions — operations at any nesting depth, each followed by the commit of every bucket: -/

theorem edits_keep_invariant_and_wellformedness (t : Tree K α) (h : TreeInv t) (hn : nebT t = true)
    (ops : List (TxOp K α)) :
    TreeInv (ops.foldl Tree.applyOp t) ∧ nebT (ops.foldl Tree.applyOp t) = true ∧
    WF none none (ops.foldl Tree.applyOp t) :=
  applyOps_inv_neb t h hn ops

theorem commit_gives_wellformed_tree {E : Type} (p : Params) (hp : p.Valid) (h2 : 2 ≤ p.minKeysPerNode)
    (pagesize hdr leafHdr branchHdr : Nat) (esz : Bytes × E → Nat) (steps : List RbStep) (touched : List Bytes)
    (t : Tree Bytes E) (hi : TreeInv t) (h : nebT ((t.rebalance steps).touchAll touched) = true) :
    WF none none (commitTree p pagesize hdr leafHdr branchHdr esz steps touched t) :=
  commitTree_wf p pagesize hdr leafHdr branchHdr esz hp h2 steps touched t hi h

/-- for every history of transactions (each: any write operations, then the commit model on every bucket with
its own rebalance steps and touched keys), provided each replay of rebalance steps leaves no childless branch:
the committed database is exactly the reference's state after all the operations in order, and every tree is
well-formed, so every read theorem applies to it -/
theorem whole_history_refines (p : Params) (hp : p.Valid) (h2 : 2 ≤ p.minKeysPerNode)
    (pagesize hdr leafHdr branchHdr bmSize : Nat) (db : TDB.DB Bytes Bytes)
    (hi : TDB.AllInv db) (hn : TDB.AllNeb db) (txs : List TDB.TxRec)
    (hc : TDB.HistoryComplete p pagesize hdr leafHdr branchHdr bmSize db txs) :
    TDB.abs (txs.foldl (TDB.runTx p pagesize hdr leafHdr branchHdr bmSize) db) =
      (txs.flatMap (·.ops)).foldl Spec.applyTOp (TDB.abs db) ∧
    TDB.AllWF (txs.foldl (TDB.runTx p pagesize hdr leafHdr branchHdr bmSize) db) :=
  TDB.history_refines p pagesize hdr leafHdr branchHdr bmSize hp h2 db hi hn txs hc

/-- the database a new file starts as satisfies the hypotheses of `whole_history_refines` -/
theorem new_database_is_good :
    TDB.AllInv ([([], { nextInt := 0, tree := TDB.newTree })] : TDB.DB Bytes Bytes) ∧
    TDB.AllNeb ([([], { nextInt := 0, tree := TDB.newTree })] : TDB.DB Bytes Bytes) :=
  TDB.empty_good

/-! ## End to end through commit, close and reopen, at the level of file bytes -/

/-- a history of transactions on a FILE: each transaction's write operations, then a copy-on-write commit (any data
writes that keep the bytes the current state owns and leave the next database stored, then the sealed header into
the other slot) whose stored database has the reference's contents after the transaction's operations.  Opening the
file the history left behind — header choice, walk of every bucket from the root page, free-list page: what a fresh
transaction in the same process or after close + reopen reads — shows a database whose logical contents (every bucket
path with its counter and its entries in ascending order) are exactly the reference's after ALL operations of the
history, in order.  The per-commit premise is what `whole_history_refines` proves of the commit model and what the
run compares on every real commit; `Jamm.Props.C02` adds that every crash image in between shows the previous or the
next of these states. -/
theorem history_then_open_shows_reference_contents (pagesize : Nat)
    (hrec : Gen.layout.pgPtr + Gen.layout.metaSize ≤ pagesize) {s : Src} {slot : Nat} {st : Opened} {ov : Nat → Nat}
    {acc : List (TDB.Op Bytes Bytes)} {s' : Src} {slot' : Nat} {st' : Opened} {ov' : Nat → Nat}
    (hslot : slot = 0 ∨ slot = 1) (h0 : Committed Gen.layout Gen.hashOrder pagesize ov s slot st)
    (h : TxHistory Gen.layout Gen.hashOrder pagesize s slot st ov acc s' slot' st' ov')
    (fuel : Nat) (hf : st'.view.weight ≤ fuel) :
    ∃ o, openFile Gen.layout Gen.hashOrder pagesize fuel s' = some o ∧
      o.contents = acc.foldl Spec.applyTOp st.contents :=
  history_then_open Gen.layout Gen.hashOrder pagesize (by decide) (by decide) hrec (Nat.le_trans (by decide) hrec)
    hslot h0 h fuel hf

end Jamm.Props.C01
