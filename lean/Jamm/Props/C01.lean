/-
C01 — committed data reads back exactly as a reference ordered map would.

Property theorems only (helper lemmas live in `Jamm/Proofs`).  The reference is `Jamm.Spec`; this
file states what is proved about it and about the model of the code, layer by layer.
-/
import Jamm.Proofs.SpecLemmas
import Jamm.Proofs.TxLemmas
import Jamm.Proofs.CursorLemmas
import Jamm.Proofs.FileCheckLemmas
set_option linter.unusedSectionVars false
open Std

namespace Jamm.Props.C01
open Jamm Jamm.Spec
variable {K : Type} [Ord K] [TransOrd K] [LawfulEqOrd K] [DecidableEq K] {α : Type}

/-! ## The reference is an ordered map (so "ascending byte order" and "the value last written" mean
what they say). -/

/-- inserting keeps the item list strictly ascending -/
theorem ref_insert_sorted (k : K) (x : α) (l : List (K × α)) (h : Sorted l) : Sorted (Spec.insert k x l) :=
  insert_sorted k x l h

/-- a lookup after an insert returns the inserted value for that key and is unchanged elsewhere -/
theorem ref_lookup_insert (k k' : K) (x : α) (l : List (K × α)) :
    lookup k' (Spec.insert k x l) = if k' = k then some x else lookup k' l :=
  lookup_insert k k' x l

/-- erasing keeps the order, removes exactly that key -/
theorem ref_erase_sorted (k : K) (l : List (K × α)) (h : Sorted l) : Sorted (erase k l) :=
  erase_sorted k l h

theorem ref_lookup_erase (k k' : K) (l : List (K × α)) (h : Sorted l) :
    lookup k' (erase k l) = if k' = k then none else lookup k' l :=
  lookup_erase k k' l h

/-! ## The model of the code's reads and in-transaction writes refines the reference, per bucket.
`WF none none t` is what the verified checker `wfb` establishes on the real file after every commit
(C05) and what edits preserve (C07). -/

/-- `Bucket::get` on any well-formed tree returns what the reference returns on the tree's contents -/
theorem get_refines (t : Tree K α) (h : WF none none t) (key : K) :
    t.lookup key = (lookup key t.flatten).map (fun e => (key, e)) :=
  lookup_spec none none t h key trivial trivial

/-- a full scan returns the reference's items, which are in strictly ascending key order -/
theorem scan_refines (t : Tree K α) (h : WF none none t) (n : Nat) (hn : t.flatten.length < n) :
    (Cursor.drain n { root := t }).1 = t.flatten ∧ Sorted t.flatten := by
  obtain ⟨hc, hp⟩ := startCursor_spec t h.shp
  refine ⟨?_, (flatten_sorted none none t h).1⟩
  rw [drain_fresh_eq t h.shp, if_neg (by omega)]
  rw [(drain_spec t n _ hc (by rw [hp]; exact hn)).1, hp]

/-- `put` / `delete` (and the leaf edits of bucket creation / deletion) refine the reference's
insert / erase, for any sequence of them -/
theorem edits_refine (t : Tree K α) (h : WF none none t) (ops : List (TxOp K α)) :
    (ops.foldl Tree.applyOp t).flatten = ops.foldl Spec.applyOp t.flatten ∧
    WF none none (ops.foldl Tree.applyOp t) :=
  applyOps_spec t h ops

/-- a tree accepted by the executable checker (run on the real bytes after every commit) is
well-formed, so the three theorems above apply to what the code actually wrote -/
theorem checked_file_tree_wf (t : Tree K α) (h : wfb none none t = true) : WF none none t :=
  wfb_sound none none t h

/-- non-vacuity: a concrete sorted list and the laws on it -/
example : Sorted (Spec.insert (2 : Nat) "b" [(1, "a"), (3, "c")]) ∧
    lookup 2 (Spec.insert (2 : Nat) "b" [(1, "a"), (3, "c")]) = some "b" := by
  decide

end Jamm.Props.C01
