/-
C01 — committed data reads back exactly as a reference ordered map would.

Property theorems only (helper lemmas live in `Jamm/Proofs`).  The reference is `Jamm.Spec`; this
file states what is proved about it and about the model of the code, layer by layer.
-/
import Jamm.Proofs.SpecLemmas
set_option linter.unusedSectionVars false
open Std

namespace Jamm.Props.C01
open Jamm Jamm.Spec
variable {K : Type} [Ord K] [TransOrd K] [LawfulEqOrd K] [DecidableEq K] {α : Type}

/-! ## The reference is an ordered map (so "ascending byte order" and "the value last written" mean
what they say). -/

/-- inserting keeps the item list strictly ascending -/
theorem ref_insert_sorted (k : K) (x : α) (l : List (K × α)) (h : Sorted l) : Sorted (Spec.insert k x l) :=
  insert_sorted k x l h

/-- a lookup after an insert returns the inserted value for that key and is unchanged elsewhere -/
theorem ref_lookup_insert (k k' : K) (x : α) (l : List (K × α)) :
    lookup k' (Spec.insert k x l) = if k' = k then some x else lookup k' l :=
  lookup_insert k k' x l

/-- erasing keeps the order, removes exactly that key -/
theorem ref_erase_sorted (k : K) (l : List (K × α)) (h : Sorted l) : Sorted (erase k l) :=
  erase_sorted k l h

theorem ref_lookup_erase (k k' : K) (l : List (K × α)) (h : Sorted l) :
    lookup k' (erase k l) = if k' = k then none else lookup k' l :=
  lookup_erase k k' l h

/-- non-vacuity: a concrete sorted list and the laws on it -/
example : Sorted (Spec.insert (2 : Nat) "b" [(1, "a"), (3, "c")]) ∧
    lookup 2 (Spec.insert (2 : Nat) "b" [(1, "a"), (3, "c")]) = some "b" := by
  decide

end Jamm.Props.C01
