/-
C05 — every committed file is well-formed and accounts for each page exactly once.

What is proved here (for all trees / page lists):
* the executable checker `wfb` that the correspondence run evaluates on the *real bytes* of the file
  after every commit is sound for `WF` (`checker_sound`), hence every tree it accepts has strictly
  ascending contents inside its bounds (`checked_contents_sorted`) and is read back correctly by the
  model of the code's search (`checked_tree_lookup`);
* the accounting test of `checkFile` (sorted concatenation of reached runs, free-list run and
  free-list entries equals `2 .. numPages-1`) holds iff those pages are pairwise distinct and are
  exactly the pages below the high-water mark (`accounting_exact`).
* the whole executable check is sound (`file_check_is_sound`), and the database's own check, as modelled,
  accepts whatever it accepts (`own_check_agrees`);
* the page / free-list-page writers are inverse to the decoder and local (`*_roundtrip`, `page_write_is_local`).
Layer C: the model of one bucket's commit — replay of the reported `rebalance` steps, touches, then `spill` —
keeps the tree invariant for every tree, step list and page size, and — PROVIDED the replayed steps leave no
childless branch, which the run evaluates on every replay — yields a well-formed tree with strictly ascending
contents (`commit_keeps_tree_wellformed`); its pages: what it keeps are pages of the overlay, the overlay's
pages split into kept and freed, requests are non-empty (`commit_keeps_only_overlay_pages`,
`commit_pages_split` — the latter is set algebra over the definition of `commitFreed` once the former is known —,
`requests_nonempty`); and along every history of writers that free only pages of their snapshot each page is
in exactly one of reachable / free / pending (`accounting_exact_along_histories`).
What is *not* proved: that the real commit's allocation sequence is the model's (tied per commit: freed set,
new-page count, exact free-list state), nor one end-to-end theorem "commit yields an accepted file".
-/
import Jamm.Proofs.FileCheckLemmas
import Jamm.Proofs.CommitCompose
import Jamm.Gen.Params
import Jamm.Gen.Layout
import Jamm.Proofs.EncodeLemmas
import Jamm.Model.EncodeWrites
import Jamm.Proofs.EncodeMetaLemmas
import Jamm.Proofs.CommitPagesLemmas
import Jamm.Proofs.FreelistCover
import Jamm.Proofs.CheckFileSound
import Jamm.Proofs.ImplCheckLemmas
import Jamm.Proofs.CommitNeb
set_option linter.unusedSectionVars false
open Std

namespace Jamm.Props.C05
open Jamm
variable {K E : Type} [Ord K] [TransOrd K] [LawfulEqOrd K] [DecidableEq K]

theorem checker_sound (t : Tree K E) (h : wfb none none t = true) : WF none none t :=
  wfb_sound none none t h

theorem checked_contents_sorted (t : Tree K E) (h : wfb none none t = true) : Spec.Sorted t.flatten :=
  (flatten_sorted none none t (wfb_sound none none t h)).1

theorem checked_tree_lookup (t : Tree K E) (h : wfb none none t = true) (key : K) :
    t.lookup key = (Spec.lookup key t.flatten).map (fun e => (key, e)) :=
  lookup_spec none none t (wfb_sound none none t h) key trivial trivial

/-- the accounting comparison of `checkFile` is exact: no page twice, none missing, none outside -/
theorem accounting_exact (pages : List Nat) (n : Nat)
    (h : pages.mergeSort (· ≤ ·) = (List.range n).map (· + 2)) :
    pages.Nodup ∧ ∀ p, p ∈ pages ↔ 2 ≤ p ∧ p < n + 2 := by
  have hp : (pages.mergeSort (· ≤ ·)).Perm pages := List.mergeSort_perm pages _
  have hnd : ((List.range n).map (· + 2)).Nodup :=
    List.Pairwise.map (· + 2) (fun a b (hab : a ≠ b) => by show a + 2 ≠ b + 2; omega) List.nodup_range
  constructor
  · exact (hp.nodup_iff).mp (h ▸ hnd)
  · intro p
    rw [← hp.mem_iff, h, List.mem_map]
    constructor
    · rintro ⟨a, ha, rfl⟩
      have := List.mem_range.mp ha
      omega
    · rintro ⟨h1, h2⟩
      exact ⟨p - 2, List.mem_range.mpr (by omega), by omega⟩

/-- non-vacuity: a two-level tree with leftmost slack and an emptied leaf passes the checker -/
example : wfb (K := Nat) (E := Nat) none none
    (.branch 5 (.cons 10 (.leaf 6 [(3, 0), (10, 1)]) (.cons 20 (.leaf 7 []) (.cons 30 (.leaf 8 [(30, 2)]) .nil)))) = true := by
  decide

/-- commit keeps the tree invariant (separators bound their subtrees, uniform depth, no routing gap); when the
replayed rebalance steps leave no childless branch (a hypothesis on the rebalanced tree, evaluated by the run on
every real replay) the committed tree is well-formed, so its contents are strictly ascending -/
theorem commit_keeps_tree_wellformed (pagesize hdr leafHdr branchHdr bmSize : Nat)
    (steps : List RbStep) (touched : List Bytes) (t : Tree Bytes Ent) (h : TreeInv t)
    (hne : nebT ((t.rebalance steps).touchAll touched) = true) :
    WF none none (commitTree Gen.params pagesize hdr leafHdr branchHdr (entSize bmSize) steps touched t) ∧
    Spec.Sorted (commitTree Gen.params pagesize hdr leafHdr branchHdr (entSize bmSize) steps touched t).flatten := by
  have hw := commitTree_wf Gen.params pagesize hdr leafHdr branchHdr (entSize bmSize) (by decide) (by decide) steps
    touched t h hne
  exact ⟨hw, (flatten_sorted none none _ hw).1⟩

/-- the executable forms the correspondence run evaluates on the real trees are sound for the invariant -/
theorem invariant_checkers_sound (t : Tree K E) (h1 : wfsb none none t = true) (h2 : tightB none t = true)
    (d : Nat) (h3 : uniformB t = some d) : TreeInv t :=
  ⟨wfsb_sound none none t h1, tightB_sound none t h2, d, uniformB_sound t d h3⟩

/-! ### the page writer.  `writeLeafPage` / `writeBranchPage` model `Page::write_node`; the run checks after
every commit that every tree page of the real file holds exactly the bytes this writer produces for the node
the page decodes to. -/

/-- the regenerated layout table satisfies what the round trip needs (fields disjoint, tags distinct) -/
theorem layout_fit_for_roundtrip : Layout.WFEnc Gen.layout = true := by decide

/-- a leaf node that fits its page run, written with the current layout and decoded again, is the same node:
every key, value, nested-bucket header, for every page size and page id -/
theorem leaf_page_roundtrip (pagesize pid overflow : Nat) (es : List (Bytes × LeafVal)) (s : Src)
    (hfile : pid * pagesize + (overflow + 1) * pagesize ≤ s.size)
    (hfit : leafBytes Gen.layout es ≤ (overflow + 1) * pagesize)
    (hhdr : Gen.layout.pageSize ≤ pagesize) (hid : pid < 2 ^ 64) (hrun : (overflow + 1) * pagesize < 2 ^ 64)
    (hv : ∀ e ∈ es, e.2.fits = true) :
    decodePage Gen.layout (writeLeafPage Gen.layout pagesize pid overflow es s) pagesize pid =
      .ok { id := pid, overflow := overflow, count := es.length, body := .leaf es } :=
  decode_writeLeafPage Gen.layout layout_fit_for_roundtrip pagesize pid overflow es s hfile hfit hhdr hid hrun hv

theorem branch_page_roundtrip (pagesize pid overflow : Nat) (es : List (Bytes × Nat)) (s : Src)
    (hfile : pid * pagesize + (overflow + 1) * pagesize ≤ s.size)
    (hfit : branchBytes Gen.layout es ≤ (overflow + 1) * pagesize)
    (hhdr : Gen.layout.pageSize ≤ pagesize) (hid : pid < 2 ^ 64) (hrun : (overflow + 1) * pagesize < 2 ^ 64)
    (hv : ∀ e ∈ es, e.2 < 2 ^ 64) :
    decodePage Gen.layout (writeBranchPage Gen.layout pagesize pid overflow es s) pagesize pid =
      .ok { id := pid, overflow := overflow, count := es.length, body := .branch es } :=
  decode_writeBranchPage Gen.layout layout_fit_for_roundtrip pagesize pid overflow es s hfile hfit hhdr hid hrun hv

/-- writing a page changes no byte outside the bytes the node occupies: every other page decodes as before -/
theorem page_write_is_local (pagesize pid overflow : Nat) (es : List (Bytes × LeafVal)) (s : Src) (i : Nat)
    (h : i < pid * pagesize ∨ pid * pagesize + leafBytes Gen.layout es ≤ i) :
    (writeLeafPage Gen.layout pagesize pid overflow es s).get i = s.get i :=
  (writeLeafPage_frame Gen.layout layout_fit_for_roundtrip pagesize pid overflow es s i h).1

/-- the form the run evaluates: the writer is its list of (offset, bytes) writes applied in order -/
theorem writer_is_its_write_list (pagesize pid overflow : Nat) (es : List (Bytes × LeafVal)) (s : Src) :
    writeLeafPage Gen.layout pagesize pid overflow es s =
      applyWrites (leafPageWrites Gen.layout pagesize pid overflow es) s :=
  writeLeafPage_eq Gen.layout pagesize pid overflow es s

/-- the free-list page a commit writes decodes to exactly the page ids written -/
theorem freelist_page_roundtrip (pagesize pid overflow : Nat) (ids : List Nat) (s : Src)
    (hfile : pid * pagesize + (overflow + 1) * pagesize ≤ s.size)
    (hfit : Gen.layout.pgPtr + 8 * ids.length ≤ (overflow + 1) * pagesize)
    (hhdr : Gen.layout.pageSize ≤ pagesize) (hid : pid < 2 ^ 64) (hrun : (overflow + 1) * pagesize < 2 ^ 64)
    (hv : ∀ x ∈ ids, x < 2 ^ 64) :
    decodePage Gen.layout (writeFreelistPage Gen.layout pagesize pid overflow ids s) pagesize pid =
      .ok { id := pid, overflow := overflow, count := ids.length, body := .freelist ids } :=
  decode_writeFreelistPage Gen.layout (by decide) pagesize pid overflow ids s hfile hfit hhdr hid hrun hv

/-! ### pages: what one bucket's commit does to them (Layer C → Layer A).  `treeRuns` = every page, with
its overflow run, of every stored node of a tree; the run of a node is what `TxFreelist::allocate` computes for
`Node::size`.  The run checks on every commit that the pages the real commit gave up are exactly
`commitFreed` summed over the buckets the transaction changed (plus all pages of deleted buckets), and that
it took exactly as many new pages as `treeRequests` says. -/

/-- every stored page of the committed tree was a stored page of the overlay: commit never points at a page
it does not own and never keeps a node it rewrote — every list of rebalance steps, every touched key -/
theorem commit_keeps_only_overlay_pages (pagesize : Nat) (steps : List RbStep) (touched : List Bytes)
    (pre : Tree Bytes Ent) :
    ∀ q ∈ treeRuns Gen.layout pagesize (entSize Gen.layout.bmSize)
        (commitTree Gen.params pagesize Gen.layout.pageSize Gen.layout.leafSize
          Gen.layout.branchSize (entSize Gen.layout.bmSize) steps touched pre),
      q ∈ treeRuns Gen.layout pagesize (entSize Gen.layout.bmSize) pre :=
  commitTree_runs_sub Gen.layout pagesize (entSize Gen.layout.bmSize) Gen.params Gen.layout.pageSize
    Gen.layout.leafSize Gen.layout.branchSize
    (entSize Gen.layout.bmSize) steps touched pre

/-- the overlay's pages split exactly into those the committed tree keeps and those the commit frees; the
freed ones are pages of the overlay (the release protocol's client condition), none twice -/
theorem commit_pages_split (pagesize : Nat) (steps : List RbStep) (touched : List Bytes) (pre : Tree Bytes Ent) (q : Nat) :
    let post := commitTree Gen.params pagesize Gen.layout.pageSize Gen.layout.leafSize Gen.layout.branchSize
        (entSize Gen.layout.bmSize) steps touched pre
    q ∈ treeRuns Gen.layout pagesize (entSize Gen.layout.bmSize) pre ↔
      (q ∈ treeRuns Gen.layout pagesize (entSize Gen.layout.bmSize) post ∨
        q ∈ commitFreed Gen.layout pagesize (entSize Gen.layout.bmSize) pre post) :=
  commit_pages_partition Gen.layout pagesize (entSize Gen.layout.bmSize) Gen.params Gen.layout.pageSize
    Gen.layout.leafSize Gen.layout.branchSize
    (entSize Gen.layout.bmSize) steps touched pre q

theorem freed_pages_distinct (pagesize : Nat) (pre post : Tree Bytes Ent)
    (h : (treeRuns Gen.layout pagesize (entSize Gen.layout.bmSize) pre).Nodup) :
    (commitFreed Gen.layout pagesize (entSize Gen.layout.bmSize) pre post).Nodup :=
  commitFreed_nodup Gen.layout pagesize (entSize Gen.layout.bmSize) pre post h

/-- every run the commit requests is non-empty -/
theorem requests_nonempty (pagesize : Nat) (hps : 0 < pagesize) (t : Tree Bytes Ent) :
    ∀ n ∈ treeRequests Gen.layout pagesize (entSize Gen.layout.bmSize) t, 0 < n :=
  treeRequests_pos Gen.layout pagesize (entSize Gen.layout.bmSize) hps (by decide) t

/-- "never two of these and never none" at the level of the release protocol: for every history of writers
that free only pages of the snapshot they started from (which the three theorems above say of the commit
model) each page below the high-water mark is in exactly one of reachable / free / pending -/
theorem accounting_exact_along_histories (s : Sys) (evs : List Ev) (s' : Sys) (hi : s.invB = true) (hcov : s.Covers)
    (h : s.runEvs evs = some s') (p : Nat) (h2 : 2 ≤ p) (hp : p < s'.numPages) :
    (p ∈ s'.cur.reach ∧ p ∉ s'.shared.free ∧ p ∉ s'.shared.pendingPages) ∨
    (p ∉ s'.cur.reach ∧ p ∈ s'.shared.free ∧ p ∉ s'.shared.pendingPages) ∨
    (p ∉ s'.cur.reach ∧ p ∉ s'.shared.free ∧ p ∈ s'.shared.pendingPages) :=
  exactly_one s' (inv_run s evs s' hi h) (covers_run s evs s' hi hcov h) p h2 hp

/-! ### the checker as a whole -/

/-- soundness of the executable file check that the run evaluates on the real bytes after every commit: if it
accepts, every bucket at every nesting depth unfolds from its root page to a well-formed tree linked to its
parent's bucket entry, and the pages reached through the trees (with overflow runs), the free-list page's run
and the free-list entries are pairwise distinct and are exactly the pages `2 .. numPages-1` — "never two of
these and never none" — in a file long enough to hold them -/
theorem file_check_is_sound (mt : MetaRec) (pg : PageStore) (fileSize pagesize : Nat) (sum : FileSummary)
    (h : checkFile mt pg fileSize pagesize = .ok sum) :
    GoodView pg (mt.numPages + 1) mt.rootPage sum.root ∧
    sum.root.nextInt = mt.nextInt ∧
    sum.reach = expandRuns (sum.root.runs pg) ∧
    (∃ fp, pg mt.freelistPage = some fp ∧ fp.body = .freelist sum.free ∧
      sum.freelistRun = (List.range (fp.overflow + 1)).map (· + mt.freelistPage)) ∧
    (sum.reach ++ sum.freelistRun ++ sum.free).Nodup ∧
    (∀ p, p ∈ sum.reach ++ sum.freelistRun ++ sum.free ↔ 2 ≤ p ∧ p < mt.numPages) ∧
    mt.numPages * pagesize ≤ fileSize :=
  checkFile_sound mt pg fileSize pagesize sum h

/-- "… and the database's own consistency check agrees": `TxInner::check` (`tx.rs:394`, modelled by `implCheck`:
the depth-first walk over a set of unseen page ids) accepts every file the independent checker accepts — no
page reached twice, every overflow page and free-list entry still unseen when visited, keys strictly ascending
within each page, nothing left over at the end.  (So a commit whose file passes the per-commit check is never
rejected by strict mode, C16.) -/
theorem own_check_agrees (mt : MetaRec) (pg : PageStore) (fileSize pagesize : Nat) (sum : FileSummary)
    (h : checkFile mt pg fileSize pagesize = .ok sum) : implCheck mt pg = .ok () :=
  implCheck_of_checkFile mt pg fileSize pagesize sum h

end Jamm.Props.C05
