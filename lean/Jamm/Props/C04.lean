/-
C04 — snapshot isolation holds under every thread schedule.

Model (`Jamm/Model/Conc.lean`): the sequential release protocol with the writer's begin and commit as
separate events, readers registering and leaving in between on other threads.  A reader's begin is one
atomic event exactly when the header is read inside the reader-list critical section in which the
reader registers (and the writer decides what to release) — the obligation
`begin_registers_atomically`, decided on the step order regenerated from `Tx::new` on every run; it
failed for the pinned release (D10) and holds after the `fix:` commit.
Proved for every trace of atomic events, any number of readers and any interleaving:
* the accounting invariant holds in every reachable state (`invariant_under_interleaving`);
* when the open writer commits, no page of any registered reader's snapshot is free or written,
  however readers registered and left between the writer's begin and its commit
  (`readers_isolated_under_interleaving`) — so a reader observes exactly the state it registered;
* a writer starts from the newest committed snapshot and excludes other writers
  (`writer_starts_from_newest`), so a reader that begins after a commit returned registers a snapshot
  at least that new (the header it reads is the newest valid one: C12 `newest_wins`);
* `nonatomic_begin_is_unsafe`: with header read and registration as two steps, two commits in between
  write a page of the snapshot the reader has chosen (the machine-checked witness of D10).
Assumptions: a mutex-protected critical section is atomic with respect to other holders of that mutex;
a header slot is read atomically (A-hdr).
-/
import Jamm.Proofs.ConcLemmas
import Jamm.Gen.Steps
set_option linter.unusedSectionVars false

namespace Jamm.Props.C04
open Jamm

theorem begin_registers_atomically : BeginRegistersAtomically Gen.beginSteps = true := by decide

theorem invariant_under_interleaving (s : Sys2) (evs : List Ev2) (s' : Sys2) (hi : s.base.invB = true)
    (hw : s.writer = none) (hch : s.choosing = []) (hat : evs.all Ev2.atomic = true)
    (h : s.run evs = some s') : s'.base.invB = true :=
  inv2_run s evs s' hi hw hch hat h

theorem readers_isolated_under_interleaving (s : Sys2) (evs : List Ev2) (s' : Sys2) (hi : s.base.invB = true)
    (hw : s.writer = none) (hch : s.choosing = []) (hat : evs.all Ev2.atomic = true)
    (h : s.run evs = some s') (w : WriterTx) (hen : s'.enabledB (.commitW w) = true) :
    s'.readersSafeB w = true :=
  readers_safe_run s evs s' hi hw hch hat h w hen

theorem writer_starts_from_newest (s : Sys2) (h : s.enabledB .beginW = true) :
    ((s.step .beginW).writer.map (·.txId)) = some (s.cur.txId + 1) ∧ (s.step .beginW).enabledB .beginW = false :=
  Jamm.writer_starts_from_newest s h

/-- a registered reader's snapshot is a value no event changes -/
theorem reader_snapshot_is_a_value (s : Sys2) (w : WriterTx) (t : TxFL) (hw : s.writer = some t) :
    (s.step (.commitW w)).readers = s.readers ∧ (s.step .beginW).readers = s.readers ∧ (s.step .dropW).readers = s.readers := by
  simp [Sys2.step, hw]

theorem nonatomic_begin_is_unsafe :
    ((d10Init.run (d10Trace.take 4)).map (fun s =>
      (s.choosing.map (·.reach), s.writes { freed := [2], requests := [1, 1] }))) = some ([[2, 3]], [3, 5]) :=
  nonatomic_begin_unsafe

/-- the pinned order (header read before the reader-list lock) does not satisfy the obligation -/
theorem pinned_begin_not_atomic :
    BeginRegistersAtomically [.lockTx, .cloneFreelist, .readMeta, .lockReaders, .releaseOrRegister, .unlockReaders, .cloneMap] = false := by
  decide

end Jamm.Props.C04
