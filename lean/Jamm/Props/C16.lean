/-
C16 — open options change performance, not behaviour.

* The specification (`Jamm/Model/Spec.lean`) has no configuration parameter at all, and every Layer
  Q/T theorem (C01, C07, C08) is stated for arbitrary trees, i.e. for whatever node sizes a page size
  produces: behaviour is a function of the history only.  The correspondence run replays the same
  histories under the product of page sizes, initial page counts, strict mode and map-populate and
  compares each with the single specification run.
* The tunables the code derives thresholds from are regenerated from /repo/src and must satisfy the
  validity predicate the theorems assume (`params_valid`).
* Growth arithmetic (`tx.rs:299-307`): the computed extension always covers the required size, for
  every current size, requirement and step (`growth_covers`), in whole steps (`growth_whole_steps`).
* Layer C: the contents a commit leaves in a bucket do not depend on the page size or on any split
  threshold (`commit_contents_independent_of_pagesize`), and with the regenerated tunables commit keeps
  the tree invariant at every page size (`commit_invariant_any_pagesize`).
-/
import Jamm.Gen.Params
import Jamm.Gen.Steps
import Jamm.Proofs.CommitCompose
import Jamm.Proofs.ImplCheckLemmas
import Jamm.Proofs.TreeDBLemmas
import Jamm.Proofs.TreeDBCommit
set_option linter.unusedSectionVars false

namespace Jamm.Props.C16
open Jamm

theorem params_valid : Gen.params.Valid := by decide

/-- the builder refuses page sizes that would misalign the in-place page views (D14, repaired): every
accepted size is a multiple of 8, the alignment of the `repr(C)` page structures -/
theorem accepted_pagesizes_aligned : 8 ∣ Gen.params.pagesizeAlign ∧ 1024 ≤ Gen.params.minPagesize := by decide

/-- `alloc_size = ((size_diff / MIN_ALLOC_SIZE) + 1) * MIN_ALLOC_SIZE`, new length `= current + alloc_size` -/
def grownSize (current required minAlloc : Nat) : Nat :=
  if current < required then current + (((required - current) / minAlloc) + 1) * minAlloc else current

theorem growth_covers (current required minAlloc : Nat) (hm : 0 < minAlloc) :
    required ≤ grownSize current required minAlloc := by
  unfold grownSize
  split
  · rename_i h
    have h1 : (required - current) < ((required - current) / minAlloc + 1) * minAlloc := by
      have := Nat.lt_div_mul_add (a := required - current) hm
      rw [Nat.add_mul, Nat.one_mul]
      exact this
    omega
  · omega

theorem growth_whole_steps (current required minAlloc : Nat) :
    minAlloc ∣ (grownSize current required minAlloc - current) := by
  unfold grownSize
  split
  · rw [Nat.add_sub_cancel_left]; exact Nat.dvd_mul_left _ _
  · simp

/-- the file is grown before any page is written, in every regenerated commit order -/
theorem grow_before_writes : before Gen.commitSteps .grow .writeData = true := by decide

/-- non-vacuity -/
example : grownSize 4096 (9 * 1024 * 1024) Gen.params.minAllocSize = 4096 + 16 * 1024 * 1024 := by decide

/-- the same transaction committed under two page sizes (hence different split points and different
rebalance step lists) leaves the same contents in the bucket -/
theorem commit_contents_independent_of_pagesize (ps1 ps2 hdr leafHdr branchHdr bmSize : Nat)
    (steps1 steps2 : List RbStep) (touched1 touched2 : List Bytes) (t : Tree Bytes Ent) (h : TreeInv t) :
    (commitTree Gen.params ps1 hdr leafHdr branchHdr (entSize bmSize) steps1 touched1 t).flatten =
    (commitTree Gen.params ps2 hdr leafHdr branchHdr (entSize bmSize) steps2 touched2 t).flatten := by
  obtain ⟨d, hu⟩ := h.uniform
  rw [commitTree_flatten _ _ _ _ _ _ steps1 touched1 t d hu,
    commitTree_flatten _ _ _ _ _ _ steps2 touched2 t d hu]

/-- with the tunables of the current source, commit keeps the tree invariant at every page size -/
theorem commit_invariant_any_pagesize (pagesize hdr leafHdr branchHdr bmSize : Nat)
    (steps : List RbStep) (touched : List Bytes) (t : Tree Bytes Ent) (h : TreeInv t) :
    TreeInv (commitTree Gen.params pagesize hdr leafHdr branchHdr (entSize bmSize) steps touched t) :=
  commitTree_inv Gen.params pagesize hdr leafHdr branchHdr (entSize bmSize) params_valid (by decide) steps touched t h

/-- strict mode runs the database's own check before the header is written; it accepts every file the
independent checker accepts (which the run establishes for every commit), so strict mode never turns a valid
commit into an error -/
theorem strict_mode_never_rejects_a_checked_file (mt : MetaRec) (pg : PageStore) (fileSize pagesize : Nat)
    (sum : FileSummary) (h : checkFile mt pg fileSize pagesize = .ok sum) : implCheck mt pg = .ok () :=
  implCheck_of_checkFile mt pg fileSize pagesize sum h

/-! ### behaviour is a function of the history, not of the trees.  Two databases that hold the same logical
contents in differently shaped trees (the same history committed under two page sizes, initial page counts,
…) answer every call alike and still hold the same contents afterwards. -/
section
variable {K V : Type} [Ord K] [Std.TransOrd K] [Std.LawfulEqOrd K] [DecidableEq K]

theorem same_contents_same_answers (db1 db2 : TDB.DB K V) (h1 : TDB.AllWF db1) (h2 : TDB.AllWF db2)
    (hab : TDB.abs db1 = TDB.abs db2) (p : Spec.Path K) (k : K) (v : V) (s m : Bool) :
    (TDB.put db1 p k v).1 = (TDB.put db2 p k v).1 ∧
    (TDB.delete db1 p k).1 = (TDB.delete db2 p k).1 ∧
    (TDB.bucketGetter db1 p k s m).1 = (TDB.bucketGetter db2 p k s m).1 ∧
    (TDB.deleteBucket db1 p k).1 = (TDB.deleteBucket db2 p k).1 ∧
    TDB.get db1 p k = TDB.get db2 p k ∧ TDB.scan db1 p = TDB.scan db2 p ∧ TDB.nextInt db1 p = TDB.nextInt db2 p := by
  refine ⟨?_, ?_, ?_, ?_, ?_, ?_, ?_⟩
  · rw [(TDB.put_refines db1 h1 p k v).1, (TDB.put_refines db2 h2 p k v).1, hab]
  · rw [(TDB.delete_refines db1 h1 p k).1, (TDB.delete_refines db2 h2 p k).1, hab]
  · rw [(TDB.bucketGetter_refines db1 h1 p k s m).1, (TDB.bucketGetter_refines db2 h2 p k s m).1, hab]
  · rw [(TDB.deleteBucket_refines db1 h1 p k).1, (TDB.deleteBucket_refines db2 h2 p k).1, hab]
  · rw [TDB.get_refines db1 h1 p k, TDB.get_refines db2 h2 p k, hab]
  · rw [TDB.scan_refines db1 p, TDB.scan_refines db2 p, hab]
  · rw [TDB.nextInt_refines db1 p, TDB.nextInt_refines db2 p, hab]

/-- … and after any further sequence of write operations they still hold the same contents -/
theorem same_contents_preserved (db1 db2 : TDB.DB K V) (h1 : TDB.AllWF db1) (h2 : TDB.AllWF db2)
    (hab : TDB.abs db1 = TDB.abs db2) (ops : List (TDB.Op K V)) :
    TDB.abs (ops.foldl TDB.applyOp db1) = TDB.abs (ops.foldl TDB.applyOp db2) := by
  rw [(TDB.applyOps_refine db1 h1 ops).1, (TDB.applyOps_refine db2 h2 ops).1, hab]

/-- … and after commits that rewrite the trees in whatever configuration-dependent way, as long as each keeps
its bucket's contents (`commit_contents_independent_of_pagesize` says so of the commit model) -/
theorem same_contents_after_commits (f1 f2 : Spec.Path K → Tree K (Spec.Item V) → Tree K (Spec.Item V))
    (db1 db2 : TDB.DB K V) (hab : TDB.abs db1 = TDB.abs db2)
    (hf1 : ∀ e ∈ db1, (f1 e.1 e.2.tree).flatten = e.2.tree.flatten)
    (hf2 : ∀ e ∈ db2, (f2 e.1 e.2.tree).flatten = e.2.tree.flatten) :
    TDB.abs (TDB.commitWith f1 db1) = TDB.abs (TDB.commitWith f2 db2) := by
  rw [TDB.commitWith_refines f1 db1 hf1, TDB.commitWith_refines f2 db2 hf2, hab]

end

/-- the same database committed by the commit model under two page sizes (any split thresholds derived from
them, any rebalance steps, any touched keys), values included, has the same logical contents afterwards -/
theorem commit_under_two_page_sizes_same_contents (ps1 ps2 hdr leafHdr branchHdr bmSize : Nat)
    (steps1 steps2 : Spec.Path Bytes → List RbStep) (touched1 touched2 : Spec.Path Bytes → List Bytes)
    (db : TDB.DB Bytes Bytes) (h : TDB.AllInv db) :
    TDB.abs (TDB.commitDB Gen.params ps1 hdr leafHdr branchHdr bmSize steps1 touched1 db) =
    TDB.abs (TDB.commitDB Gen.params ps2 hdr leafHdr branchHdr bmSize steps2 touched2 db) := by
  rw [TDB.commitDB_invisible Gen.params ps1 hdr leafHdr branchHdr bmSize steps1 touched1 db h,
    TDB.commitDB_invisible Gen.params ps2 hdr leafHdr branchHdr bmSize steps2 touched2 db h]

end Jamm.Props.C16
