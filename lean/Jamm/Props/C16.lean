import Jamm.Proofs.SpecLemmas
namespace Jamm.Props.C16
theorem placeholder : True := trivial
end Jamm.Props.C16
