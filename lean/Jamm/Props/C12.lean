/-
C12 — damage to one header page falls back to the other.

Header choice (`DBInner::meta`, modelled by `slotValid` / `selectSlots` / `openAny` in
`Jamm/Model/Codec.lean`, after the `fix:` commit that treats a wrong page-type byte as invalid):
* a slot is trusted only if its page-type byte is META and its checksum verifies (`untrusted_*`);
* the chosen header is always one of the two slots as read — never a mix (`choice_is_a_slot`);
* with one slot invalid the other is chosen (`fallback_*`), with both valid the higher transaction id
  (ties: slot 1) (`newest_wins`);
* the checksum covers every field that carries meaning, in the regenerated order (`hash_covers`);
* one damaged byte of the hashed image, or a damaged stored checksum, always invalidates the record
  (`one_damaged_hashed_byte_is_detected`, `damaged_checksum_is_detected`) — no collision assumption is
  needed for single-byte damage because every FNV-1a step is a bijection;
* the same at the level of FILE bytes: changing exactly one byte of a valid header page at any checked offset
  (page-type byte, any byte of a hashed field, any byte of the stored checksum — `checked_offsets_are`, computed
  from the regenerated layout and hash order) invalidates the slot, and a file that agrees on the checked bytes
  keeps the slot with the same record (`one_damaged_file_byte_is_detected`,
  `undamaged_checked_bytes_keep_the_slot`; which file offset feeds which hashed byte is proved, not tested:
  `metaHashInput_readMeta` in `Jamm/Proofs/MetaBytes.lean`);
* the snapshot a commit replaced is not reused before the next writer begins, so the state the other
  header names is complete (`previous_snapshot_intact`).
* the header page a commit writes is read back as exactly the record written, is valid, and nothing outside
  that page is touched, so the other header is as it was (`written_header_reads_back`,
  `written_header_is_valid`, `header_write_is_local`);
Multi-byte damage is covered under the explicit hypothesis that the damaged record's checksum does not
collide (evaluated, not assumed, for every image the correspondence run creates).
-/
import Jamm.Model.Codec
import Jamm.Gen.Layout
import Jamm.Gen.HashOrder
import Jamm.Proofs.HashLemmas
import Jamm.Proofs.PrevSnapLemmas
import Jamm.Proofs.EncodeMetaLemmas
import Jamm.Proofs.MetaBytes
import Jamm.Proofs.CommitFileAtomic
set_option linter.unusedSectionVars false

namespace Jamm.Props.C12
open Jamm

theorem choice_is_a_slot (v0 v1 : Option MetaRec) (ps : Nat) (m : MetaRec)
    (h : selectSlots v0 v1 ps = .ok (some m)) : v0 = some m ∨ v1 = some m := by
  unfold selectSlots at h
  cases v0 <;> cases v1 <;> simp at h <;> (repeat' split at h) <;> simp_all

theorem fallback_to_slot1 (b : MetaRec) (ps : Nat) (hp : b.pagesize = ps) :
    selectSlots none (some b) ps = .ok (some b) := by
  simp [selectSlots, hp]

theorem fallback_to_slot0 (a : MetaRec) (ps : Nat) (hp : a.pagesize = ps) :
    selectSlots (some a) none ps = .ok (some a) := by
  simp [selectSlots, hp]

theorem newest_wins (a b : MetaRec) (ps : Nat) (ha : a.pagesize = ps) (hb : b.pagesize = ps) :
    selectSlots (some a) (some b) ps = .ok (some (if a.txId > b.txId then a else b)) := by
  simp only [selectSlots, ha, hb]
  by_cases h : a.txId > b.txId <;> simp [h]

theorem both_invalid_is_refused (L : Layout) (order : List MetaField) (s : Src) (ps : Nat)
    (h0 : slotValid L order s ps 0 = none) (h1 : slotValid L order s ps 1 = none) :
    openSelect L order s ps = .error .noValidMeta := by
  simp [openSelect, selectSlots, h0, h1]

/-- a slot whose page-type byte is not META is never trusted -/
theorem untrusted_without_meta_type (L : Layout) (order : List MetaField) (s : Src) (ps slot : Nat)
    (h : (s.get (slot * ps + L.pgType)).toNat ≠ L.typeMeta) : slotValid L order s ps slot = none := by
  unfold slotValid
  simp only []
  split
  · rfl
  · simp [h]

/-- a slot whose checksum does not verify is never trusted -/
theorem untrusted_without_checksum (L : Layout) (order : List MetaField) (s : Src) (ps slot : Nat)
    (h : metaValid L order (readMeta L s (slot * ps)) = false) : slotValid L order s ps slot = none := by
  unfold slotValid
  simp only []
  split
  · rfl
  · split
    · rfl
    · simp [h]

/-- what a trusted slot guarantees -/
theorem trusted_slot (L : Layout) (order : List MetaField) (s : Src) (ps slot : Nat) (m : MetaRec)
    (h : slotValid L order s ps slot = some m) :
    (s.get (slot * ps + L.pgType)).toNat = L.typeMeta ∧ m = readMeta L s (slot * ps) ∧ metaValid L order m = true := by
  unfold slotValid at h
  simp only [] at h
  split at h
  · simp at h
  · split at h
    · simp at h
    · split at h
      · rename_i h1 h2 h3
        simp at h
        subst h
        exact ⟨by simpa using h2, rfl, h3⟩
      · simp at h

/-- changing exactly one byte of the hashed image always changes the checksum (every FNV-1a step is
a bijection): no collision assumption for single-byte damage -/
theorem checksum_detects_one_byte (pre post : List UInt8) (b b' : UInt8) (hne : b ≠ b') :
    fnv1a (pre ++ b :: post) ≠ fnv1a (pre ++ b' :: post) :=
  fnv_single_byte pre post b b' hne

theorem one_damaged_hashed_byte_is_detected (L : Layout) (order : List MetaField) (m m' : MetaRec)
    (hv : metaValid L order m = true) (hh : m'.hash = m.hash)
    (pre post : List UInt8) (b b' : UInt8) (hne : b ≠ b')
    (h1 : metaHashInput L order m = pre ++ b :: post) (h2 : metaHashInput L order m' = pre ++ b' :: post) :
    metaValid L order m' = false :=
  one_hashed_byte_invalidates L order m m' hv hh pre post b b' hne h1 h2

theorem damaged_checksum_is_detected (L : Layout) (order : List MetaField) (m m' : MetaRec)
    (hv : metaValid L order m = true) (hne : m'.hash ≠ m.hash)
    (hf : metaHashInput L order m' = metaHashInput L order m) : metaValid L order m' = false :=
  damaged_checksum_invalidates L order m m' hv hne hf

/-! ### single-byte damage at the level of file bytes -/

/-- the checked offsets of a header page under the regenerated layout and hash order, relative to the start
of the page: the page-type byte 8, the record bytes 32..43 (meta page, magic, version) and 48..95 (page size,
root page, next int, number of pages, free-list page, transaction id), the stored checksum 96..103 -/
theorem checked_offsets_are :
    checkedOffsets Gen.layout Gen.hashOrder = 8 :: (List.range' 32 12 ++ List.range' 48 56) := by decide

/-- the bytes of the first `pgPtr + metaSize` = 104 bytes of a header page that are NOT checked: the page
header's id (0..7), the padding after the type byte and count / overflow (9..31), and the padding between
`version` and `pagesize` in the record (44..47) — none of them is read by `slotValid` / `readMeta` -/
theorem unchecked_offsets_are :
    (List.range (Gen.layout.pgPtr + Gen.layout.metaSize)).filter (fun o => !(checkedOffsets Gen.layout Gen.hashOrder).contains o) =
      List.range' 0 8 ++ List.range' 9 23 ++ List.range' 44 4 := by decide

/-- no checked offset is listed twice: the page-type byte, the hashed fields and the stored checksum occupy
pairwise distinct file bytes -/
theorem checked_offsets_distinct : (checkedOffsets Gen.layout Gen.hashOrder).Nodup := by decide

/-- every byte of every field that carries meaning is a checked offset -/
theorem checked_offsets_cover_semantic_fields :
    Pinned.semanticFields.all (fun f => (fieldOffsets Gen.layout f).all
      (fun o => (checkedOffsets Gen.layout Gen.hashOrder).contains o)) = true := by decide

/-- the hash order names every field of the record -/
theorem hash_order_is_total (f : MetaField) : f ∈ Gen.hashOrder := by cases f <;> decide

/-- changing exactly ONE byte of the file, at any checked offset of a header page that was valid, makes that
slot invalid — no collision assumption -/
theorem one_damaged_file_byte_is_detected (s s' : Src) (pagesize slot : Nat) (m : MetaRec) (off : Nat)
    (hv : slotValid Gen.layout Gen.hashOrder s pagesize slot = some m)
    (hsz : s'.size = s.size)
    (hsame : ∀ i, i ≠ slot * pagesize + off → s'.get i = s.get i)
    (hdiff : s'.get (slot * pagesize + off) ≠ s.get (slot * pagesize + off))
    (hin : off ∈ checkedOffsets Gen.layout Gen.hashOrder) :
    slotValid Gen.layout Gen.hashOrder s' pagesize slot = none :=
  one_damaged_file_byte_invalidates Gen.layout Gen.hashOrder checked_offsets_distinct s s' pagesize slot m off
    hv hsz hsame hdiff hin

/-- damage outside the checked bytes is harmless: the slot stays valid with the same record -/
theorem undamaged_checked_bytes_keep_the_slot (s s' : Src) (pagesize slot : Nat) (m : MetaRec)
    (hv : slotValid Gen.layout Gen.hashOrder s pagesize slot = some m) (hsz : s'.size = s.size)
    (hsame : ∀ off ∈ checkedOffsets Gen.layout Gen.hashOrder,
      s'.get (slot * pagesize + off) = s.get (slot * pagesize + off)) :
    slotValid Gen.layout Gen.hashOrder s' pagesize slot = some m :=
  same_checked_bytes_same_slot Gen.layout Gen.hashOrder hash_order_is_total s s' pagesize slot m hv hsz hsame

/-- non-vacuity of the two theorems' hypothesis: the header page the writer produces for a sealed record is a
valid slot -/
example :
    let m : MetaRec := { metaPage := 1, magic := 0xABCDEF, version := 1, pagesize := 256, rootPage := 3, nextInt := 0,
                         numPages := 4, freelistPage := 2, txId := 5, hash := 0 }
    let m1 := MetaRec.seal Gen.layout Gen.hashOrder m
    slotValid Gen.layout Gen.hashOrder (writeMetaPage Gen.layout 256 1 m1 ⟨512, fun _ => 0⟩) 256 1 = some m1 := by
  decide +kernel

/-- after a commit, no page of the snapshot it replaced is free, and the commit wrote none of them:
the state named by the other header is complete until the next writer begins -/
theorem previous_snapshot_intact (s : Sys) (w : WriterTx) (hi : s.invB = true)
    (hc : s.clientOkB (.commitW w) = true) :
    disjointB s.cur.reach (s.step (.commitW w)).shared.free = true ∧ disjointB s.cur.reach (s.writes w) = true :=
  ⟨prev_snapshot_not_free s w hi hc, commit_is_cow s w hi hc⟩

/-- non-vacuity: a concrete valid record; flipping one bit of its transaction id invalidates it -/
example :
    let m : MetaRec := { metaPage := 0, magic := 0xABCDEF, version := 1, pagesize := 1024, rootPage := 3, nextInt := 0,
                         numPages := 4, freelistPage := 2, txId := 5, hash := 0 }
    let m1 := { m with hash := metaHash Gen.layout Gen.hashOrder m }
    metaValid Gen.layout Gen.hashOrder m1 = true ∧ metaValid Gen.layout Gen.hashOrder { m1 with txId := 4 } = false := by
  decide +kernel

/-- every field that carries meaning is fed to the checksum (regenerated from `Meta::hash_self`) -/
theorem hash_covers : Pinned.semanticFields.all (fun f => Gen.hashOrder.contains f) = true := by decide

/-- the generated layout keeps the page-type byte and the record inside the first 112 bytes -/
theorem record_location : Gen.layout.pgType = 8 ∧ Gen.layout.pgPtr = 32 ∧ Gen.layout.metaSize = 72 := by decide

/-! ### the header writer (`TxInner::write_data`, modelled by `writeMetaPage`) -/

theorem layout_fit_for_header_roundtrip : Layout.WFMeta Gen.layout = true := by decide

/-- the header page written for `slot` decodes to exactly the record written -/
theorem written_header_reads_back (pagesize slot : Nat) (m : MetaRec) (s : Src)
    (hfile : slot * pagesize + pagesize ≤ s.size)
    (hrec : Gen.layout.pgPtr + Gen.layout.metaSize ≤ pagesize) (hhdr : Gen.layout.pageSize ≤ pagesize)
    (hslot : slot < 2 ^ 64) (hm : m.fits Gen.layout = true) :
    decodePage Gen.layout (writeMetaPage Gen.layout pagesize slot m s) pagesize slot =
      .ok { id := slot, overflow := 0, count := 0, body := .hdr m } :=
  decode_writeMetaPage Gen.layout layout_fit_for_header_roundtrip pagesize slot m s hfile hrec hhdr hslot hm

/-- a record sealed with its checksum is valid -/
theorem written_header_is_valid (m : MetaRec) :
    metaValid Gen.layout Gen.hashOrder (MetaRec.seal Gen.layout Gen.hashOrder m) = true :=
  seal_valid Gen.layout Gen.hashOrder m

/-- writing one header page changes no byte of any other page — in particular not the other header -/
theorem header_write_is_local (pagesize slot : Nat) (m : MetaRec) (s : Src) (i : Nat)
    (hrec : Gen.layout.pgPtr + Gen.layout.metaSize ≤ pagesize)
    (h : i < slot * pagesize ∨ slot * pagesize + pagesize ≤ i) :
    (writeMetaPage Gen.layout pagesize slot m s).get i = s.get i :=
  (writeMetaPage_frame Gen.layout pagesize slot m s i layout_fit_for_header_roundtrip hrec h).1

/-! ### the fallback shows the intact header's state IN FULL (file bytes → whole database) -/

/-- if the state of the intact header is stored under `slot` and the other header page no longer verifies —
whatever happened to it — `open` shows that state in full: every bucket at every nesting depth with its keys,
values and counters, and the persisted free list.  (`Holds`, `KeepsState`, `openFile`: `Proofs/CommitFileLemmas`,
`Model/CommitFile`; that a completed commit leaves BOTH states stored, the previous one under the old slot, is
`Jamm.Props.C02.header_write_switches_states`.) -/
theorem damaged_header_shows_the_intact_headers_state (pagesize : Nat)
    (hrec : Gen.layout.pgPtr + Gen.layout.metaSize ≤ pagesize) (ov : Nat → Nat) (s d : Src) (slot : Nat)
    (hslot : slot = 0 ∨ slot = 1) (st : Opened)
    (h : Holds Gen.layout Gen.hashOrder pagesize ov s slot st)
    (k : KeepsState pagesize ov s d slot st)
    (hbad : slotValid Gen.layout Gen.hashOrder d pagesize (1 - slot) = none)
    (fuel : Nat) (hf : st.view.weight ≤ fuel) :
    openFile Gen.layout Gen.hashOrder pagesize fuel d = some st := by
  have hE : Layout.WFEnc Gen.layout = true := by decide
  have hhdr : Gen.layout.pageSize ≤ pagesize := Nat.le_trans (by decide) hrec
  refine crash_shows_old Gen.layout Gen.hashOrder pagesize (Layout.WF.of _ hE)
    (Layout.WFM.of _ layout_fit_for_header_roundtrip) hrec hhdr ov s d slot hslot st h k ?_ fuel hf
  rw [hbad]; trivial

/-- ONE changed byte, at any checked offset of one header page that verified: `open` shows, in full, the state of
the other header — no collision assumption, any page size, any database -/
theorem one_damaged_header_byte_shows_the_other_headers_state (pagesize : Nat)
    (hrec : Gen.layout.pgPtr + Gen.layout.metaSize ≤ pagesize) (ov : Nat → Nat) (s d : Src) (slot : Nat)
    (hslot : slot = 0 ∨ slot = 1) (st : Opened) (m : MetaRec) (off : Nat)
    (h : Holds Gen.layout Gen.hashOrder pagesize ov s slot st) (habove : ∀ r ∈ st.runs ov, 2 ≤ r.1)
    (hv : slotValid Gen.layout Gen.hashOrder s pagesize (1 - slot) = some m)
    (hsz : d.size = s.size)
    (hsame : ∀ i, i ≠ (1 - slot) * pagesize + off → d.get i = s.get i)
    (hdiff : d.get ((1 - slot) * pagesize + off) ≠ s.get ((1 - slot) * pagesize + off))
    (hin : off ∈ checkedOffsets Gen.layout Gen.hashOrder) (hoff : off < pagesize)
    (fuel : Nat) (hf : st.view.weight ≤ fuel) :
    openFile Gen.layout Gen.hashOrder pagesize fuel d = some st := by
  have hbad := one_damaged_file_byte_is_detected s d pagesize (1 - slot) m off hv hsz hsame hdiff hin
  refine damaged_header_shows_the_intact_headers_state pagesize hrec ov s d slot hslot st h ⟨hsz, ?_, ?_⟩ hbad fuel hf
  · intro i h1 h2
    apply hsame
    rcases hslot with rfl | rfl
    · simp only [Nat.zero_mul, Nat.zero_add, Nat.sub_zero, Nat.one_mul] at h1 h2 ⊢; omega
    · simp only [Nat.one_mul, Nat.sub_self, Nat.zero_mul, Nat.zero_add] at h1 h2 ⊢; omega
  · intro r hr i h1 _
    apply hsame
    have h2 : 2 * pagesize ≤ r.1 * pagesize := Nat.mul_le_mul_right _ (habove r hr)
    have h3 : (1 - slot) * pagesize ≤ 1 * pagesize := Nat.mul_le_mul_right _ (by omega)
    omega

end Jamm.Props.C12
