/-
C09 — writers are serialised, no update is lost, and nobody deadlocks.

Model (`Jamm/Model/Locks.lean`): threads running scripts of transactions, each holding at most one at
a time; the file mutex (held by a write transaction from begin to drop), the map rwlock (read-held by
a read transaction for its life, write-taken by `resize`), with BOTH reader-admission policies of the
rwlock.  Proved for every number of threads, every script and every schedule:
* at most one write transaction is open at any time (`writers_serialised`);
* in every state in which some thread still has something to do, some thread can move — for both
  admission policies (`no_deadlock`); every step strictly decreases the remaining work, so every thread
  finishes under a fair scheduler (`progress`, `finished_iff_no_work`);
* a reader's begin is not blocked by an open, uncommitted writer (`reader_not_blocked`);
* no lost update: a writer starts from the newest committed snapshot (C04 `writer_starts_from_newest`).
Obligations on the regenerated step orders (`lock_order_*`): the writer lock is the first thing
`Tx::new` takes; `resize` takes the map write lock before the map-handle mutex; the header is read
(map-handle mutex) inside the reader-list mutex and never the other way round — so the three short
mutexes are leaf locks never held across a blocking acquisition of the two long-held locks.
-/
import Jamm.Proofs.LockLemmas
import Jamm.Proofs.ConcLemmas
import Jamm.Gen.Steps
set_option linter.unusedSectionVars false

namespace Jamm.Props.C09
open Jamm

theorem writers_serialised (scripts : List (List TxKind)) (admit : Bool) (sched : List Nat) :
    ((LockSys.initial scripts admit).run sched).oneWriter = true :=
  oneWriter_run scripts admit sched

theorem no_deadlock (s : LockSys) (h : s.allFinished = false) : ∃ i, s.enabled i = true :=
  deadlock_free s h

theorem progress (s : LockSys) (i : Nat) (he : s.enabled i = true) : (s.step i).work < s.work :=
  work_decreases s i he

theorem finished_iff_no_work (s : LockSys) : s.allFinished = true ↔ s.work = 0 :=
  Jamm.finished_iff_no_work s

theorem reader_not_blocked (s : LockSys) (i : Nat) (t : Thread)
    (ht : s.threads[i]? = some t) (hp : t.phase = .wantR) (hr : s.resizeWaiting = false) :
    s.enabled i = true :=
  reader_not_blocked_by_open_writer s i t ht hp hr

theorem no_lost_update (s : Sys2) (h : s.enabledB .beginW = true) :
    ((s.step .beginW).writer.map (·.txId)) = some (s.cur.txId + 1) ∧ (s.step .beginW).enabledB .beginW = false :=
  Jamm.writer_starts_from_newest s h

/-- `Tx::new` takes the transaction lock before anything else -/
theorem lock_order_tx_lock_first : Gen.beginSteps.head? = some .lockTx := by decide

/-- `resize`: map write lock, then the map-handle mutex, and nothing blocking after it -/
theorem lock_order_resize : Gen.resizeSteps = [.fallocate, .lockMapWrite, .lockData, .mmap, .storeMap] := by decide

/-- the reader-list mutex is released before the map handle is cloned; the header (map-handle mutex) is
read inside it: order reader-list → map-handle, consistent with `resize` (map → map-handle) -/
theorem lock_order_begin : before Gen.beginSteps .lockReaders .readMeta = true ∧
    before Gen.beginSteps .readMeta .unlockReaders = true ∧ before Gen.beginSteps .unlockReaders .cloneMap = true := by
  decide

/-- a reader's deregistration takes only the reader-list mutex -/
theorem lock_order_drop : Gen.dropSteps = [.lockReaders, .findReader, .removeReader] := by decide

/-- non-vacuity: three threads, one commit that must remap while a reader is open -/
example :
    let s := LockSys.initial [[.write true], [.read], [.write false, .read]] false
    (s.run [1, 1, 0, 0, 0, 0, 2, 1, 0, 0, 2, 2, 2, 2, 2, 2]).allFinished = true := by decide

end Jamm.Props.C09
