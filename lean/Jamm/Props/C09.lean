/-
C09 — writers are serialised, no update is lost, and nobody deadlocks.

Model (`Jamm/Model/Locks.lean`): threads running scripts of transactions, each holding at most one at
a time; the file mutex (held by a write transaction from begin to drop), the map rwlock (read-held by
a read transaction for its life, write-taken by `resize`), with BOTH reader-admission policies of the
rwlock.  Proved for every number of threads, every script and every schedule:
* at most one write transaction is open at any time (`writers_serialised`);
* in every state in which some thread still has something to do, some thread can move — for both
  admission policies (`no_deadlock`); every step strictly decreases the remaining work, so every thread
  finishes under a fair scheduler (`progress`, `finished_iff_no_work`);
* a reader's begin is not blocked by an open, uncommitted writer (`reader_not_blocked`);
* no lost update: a writer starts from the newest committed snapshot (C04 `writer_starts_from_newest`).
Obligations on the regenerated step orders (`lock_order_*`): the writer lock is the first thing
`Tx::new` takes; `resize` takes the map write lock before the map-handle mutex; the header is read
(map-handle mutex) inside the reader-list mutex and never the other way round — so the three short
mutexes are leaf locks never held across a blocking acquisition of the two long-held locks.

All five locks (`Jamm/Model/LockOrder.lean`, second half of this file): file mutex F, map rwlock M
(read / write mode, both admission policies), reader-list mutex O, map-handle mutex D, free-list
mutex L.  The thread programs are *computed* from the regenerated step tables
(`genProgram k = program ⟨Gen.beginSteps, Gen.commitSteps, Gen.resizeSteps, Gen.dropSteps⟩ k`), so a change
of the order in which the code takes its locks changes the programs the theorems are about.
* every generated transaction program — reader, writer that rolls back, writer that commits along any
  path (file grows or not, header re-read or not, free list published or not, error return after any
  number of steps) — respects the lock order F < M < O < D < L (`generated_programs_ordered`);
* any number of threads running any scripts of such transactions, under any schedule and either
  admission policy, never reach a state in which somebody has work left and nobody can move
  (`no_deadlock_five_locks`); every exclusive hold is exclusive, in particular at most one write
  transaction is open, and M-write excludes readers (`writers_serialised_five_locks`); every step
  consumes work, every reachable state can be run to completion and round-robin does so
  (`all_threads_finish_five_locks`);
* the order condition is not vacuous: with `resize` taking the map handle before the map write lock
  the program is not `Ordered` and a growing commit deadlocks against a beginning reader
  (`misordered_resize_deadlocks`); the generated programs nested on ONE thread (a write transaction,
  or with a writer-preferring rwlock a second read transaction, opened while a read transaction is
  open) are not `Ordered` and deadlock (`nested_write_in_read_deadlocks`,
  `nested_read_in_read_deadlocks`) — the model assumes a thread has one transaction open at a time.
-/
import Jamm.Proofs.LockLemmas
import Jamm.Proofs.LockOrderLemmas
import Jamm.Proofs.ConcLemmas
import Jamm.Gen.Steps
import Jamm.Gen.Sites
set_option linter.unusedSectionVars false

namespace Jamm.Props.C09
open Jamm

theorem writers_serialised (scripts : List (List TxKind)) (admit : Bool) (sched : List Nat) :
    ((LockSys.initial scripts admit).run sched).oneWriter = true :=
  oneWriter_run scripts admit sched

theorem no_deadlock (s : LockSys) (h : s.allFinished = false) : ∃ i, s.enabled i = true :=
  deadlock_free s h

theorem progress (s : LockSys) (i : Nat) (he : s.enabled i = true) : (s.step i).work < s.work :=
  work_decreases s i he

theorem finished_iff_no_work (s : LockSys) : s.allFinished = true ↔ s.work = 0 :=
  Jamm.finished_iff_no_work s

theorem reader_not_blocked (s : LockSys) (i : Nat) (t : Thread)
    (ht : s.threads[i]? = some t) (hp : t.phase = .wantR) (hr : s.resizeWaiting = false) :
    s.enabled i = true :=
  reader_not_blocked_by_open_writer s i t ht hp hr

theorem no_lost_update (s : Sys2) (h : s.enabledB .beginW = true) :
    ((s.step .beginW).writer.map (·.txId)) = some (s.cur.txId + 1) ∧ (s.step .beginW).enabledB .beginW = false :=
  Jamm.writer_starts_from_newest s h

/-- `Tx::new` takes the transaction lock before anything else -/
theorem lock_order_tx_lock_first : Gen.beginSteps.head? = some .lockTx := by decide

/-- `resize`: map write lock, then the map-handle mutex, and nothing blocking after it -/
theorem lock_order_resize : Gen.resizeSteps = [.fallocate, .lockMapWrite, .lockData, .mmap, .storeMap] := by decide

/-- the reader-list mutex is released before the map handle is cloned; the header (map-handle mutex) is
read inside it: order reader-list → map-handle, consistent with `resize` (map → map-handle) -/
theorem lock_order_begin : before Gen.beginSteps .lockReaders .readMeta = true ∧
    before Gen.beginSteps .readMeta .unlockReaders = true ∧ before Gen.beginSteps .unlockReaders .cloneMap = true := by
  decide

/-- a reader's deregistration takes only the reader-list mutex -/
theorem lock_order_drop : Gen.dropSteps = [.lockReaders, .findReader, .removeReader] := by decide

/-- non-vacuity: three threads, one commit that must remap while a reader is open -/
example :
    let s := LockSys.initial [[.write true], [.read], [.write false, .read]] false
    (s.run [1, 1, 0, 0, 0, 0, 2, 1, 0, 0, 2, 2, 2, 2, 2, 2]).allFinished = true := by decide

/-! ### all five locks, programs derived from the regenerated step tables -/

open Jamm.LockOrder (Lk Act Ordered Kind CommitPath Tables program beginActs dropActs openActs rounds)

/-- the step tables the translator extracted from the source -/
def genTables : Tables :=
  { begin := Gen.beginSteps, commit := Gen.commitSteps, resize := Gen.resizeSteps, drop := Gen.dropSteps,
    mlocks := Gen.metaLocks }

/-- the lock actions of one transaction of kind `k`, according to the generated tables -/
def genProgram (k : Kind) : List Act := program genTables k

/-- the four complete paths: reader; writer that rolls back; writer whose commit does not / does have to
grow the file -/
theorem generated_programs_ordered_complete :
    Ordered (genProgram .read) = true ∧
    Ordered (genProgram (.write none)) = true ∧
    Ordered (genProgram (.write (some (.full false)))) = true ∧
    Ordered (genProgram (.write (some (.full true)))) = true := by decide

/-- every path: also the publication decision after a failed header write (re-read of the header,
publication or not) and an error return after any number of commit steps -/
theorem generated_programs_ordered (k : Kind) : Ordered (genProgram k) = true := by
  have key : ∀ n, n ≤ Gen.commitSteps.length → ∀ g r p : Bool,
      Ordered (genProgram (.write (some ⟨g, r, p, some n⟩))) = true := by decide
  cases k with
  | read => decide
  | write c =>
    cases c with
    | none => decide
    | some c =>
      obtain ⟨g, r, p, n⟩ := c
      cases n with
      | none => cases g <;> cases r <;> cases p <;> decide
      | some n =>
        by_cases h : n ≤ Gen.commitSteps.length
        · exact key n h g r p
        · have hn : genProgram (.write (some ⟨g, r, p, some n⟩)) =
              genProgram (.write (some ⟨g, r, p, some Gen.commitSteps.length⟩)) := by
            simp only [genProgram, program, LockOrder.commitActs, genTables]
            rw [List.take_of_length_le (by omega), List.take_of_length_le (Nat.le_refl _)]
            have hca : LockOrder.commitAct ⟨g, r, p, some n⟩ Gen.resizeSteps Gen.metaLocks =
                LockOrder.commitAct ⟨g, r, p, some Gen.commitSteps.length⟩ Gen.resizeSteps Gen.metaLocks := by
              funext st; cases st <;> rfl
            rw [hca]
          rw [hn]
          exact key _ (Nat.le_refl _) g r p

/-- every acquisition of one of the five locks anywhere in the crate (regenerated: function, lock, mode, in
source order) is one the step → lock-action mapping of the model accounts for: `open` (D then L), `resize`
(M-write then D), `meta` (D — as `Gen.metaLocks` says), `Tx::new` (F or M-read, L, O, D), `write_data` (L),
`Drop` (O).  A function that starts taking another lock — `meta()` taking the map read lock, say — breaks
this, and the model's programs (which take `meta`'s locks from `Gen.metaLocks`) change with it. -/
theorem lock_sites_are_the_modelled_ones :
    Gen.lockSites = ["db.rs:open:data.lock", "db.rs:open:freelist.lock", "db.rs:resize:mmap_lock.write", "db.rs:resize:data.lock",
      "db.rs:meta:data.lock", "tx.rs:new:file.lock", "tx.rs:new:mmap_lock.read", "tx.rs:new:freelist.lock",
      "tx.rs:new:open_ro_txs.lock", "tx.rs:new:data.lock", "tx.rs:write_data:freelist.lock", "tx.rs:drop:open_ro_txs.lock"] ∧
    Gen.metaLocks = [.data] := by decide

/-- `DBInner::open` (single-threaded) is the one place where two of the short mutexes nest: D, then L -/
theorem open_ordered : Ordered (openActs Gen.metaLocks Gen.openInner) = true := by decide

/-- **no deadlock, five locks**: any number of threads, each running any script of transactions, either
admission policy of the rwlock, any schedule: if some thread still has something to do, some thread
can move -/
theorem no_deadlock_five_locks (scripts : List (List Kind)) (admit : Bool) (sched : List Nat) :
    let s := (LockOrder.Sys.ofScripts genProgram scripts admit).run sched
    s.allFinished = false → ∃ i, s.enabled i = true :=
  fun h => LockOrder.deadlock_free_inv _
    (LockOrder.inv_ofScripts genProgram generated_programs_ordered scripts admit sched) h

/-- the same for arbitrary programs: the only thing used about the generated ones is `Ordered` -/
theorem no_deadlock_ordered (progs : List (List Act)) (admit : Bool)
    (h : ∀ p ∈ progs, Ordered p = true) (sched : List Nat) :
    let s := (LockOrder.Sys.init progs admit).run sched
    s.allFinished = false → ∃ i, s.enabled i = true :=
  LockOrder.deadlock_free_ordered progs admit h sched

/-- **writers are serialised**: at most one thread holds the file mutex (= has a write transaction open);
more generally every exclusive hold is exclusive, and while the map write lock is held nobody holds the
map read lock -/
theorem writers_serialised_five_locks (scripts : List (List Kind)) (admit : Bool) (sched : List Nat) :
    let s := (LockOrder.Sys.ofScripts genProgram scripts admit).run sched
    s.exHolders .F ≤ 1 ∧ (∀ l, s.exHolders l ≤ 1) ∧ (s.exHolders .M ≠ 0 → s.readers = 0) := by
  have hinv := LockOrder.inv_ofScripts genProgram generated_programs_ordered scripts admit sched
  exact ⟨LockOrder.exHolders_le_one _ hinv .F, LockOrder.exHolders_le_one _ hinv,
    LockOrder.no_readers_while_write _ hinv⟩

/-- **everybody finishes**: a step consumes work; from every reachable state some continuation of the
schedule completes every transaction of every thread; and round-robin (a fair schedule) does so from the
start -/
theorem all_threads_finish_five_locks (scripts : List (List Kind)) (admit : Bool) :
    (∀ (s : LockOrder.Sys) (i : Nat), s.enabled i = true → (s.step i).work < s.work) ∧
    (∀ sched, ∃ more,
      ((LockOrder.Sys.ofScripts genProgram scripts admit).run (sched ++ more)).allFinished = true) ∧
    ((LockOrder.Sys.ofScripts genProgram scripts admit).run
      (rounds scripts.length (LockOrder.Sys.ofScripts genProgram scripts admit).work)).allFinished = true := by
  have hord := LockOrder.ofScripts_ordered genProgram generated_programs_ordered scripts
  refine ⟨LockOrder.work_decreases, fun sched => LockOrder.can_finish_ordered _ admit hord sched, ?_⟩
  have := LockOrder.round_robin_finishes_ordered _ admit hord
  simpa [LockOrder.Sys.ofScripts] using this

/-- non-vacuity: a growing commit (thread 0) that has to wait for an open reader (thread 1), a writer that
has to wait for the first writer and then reads (thread 2); everybody finishes, under the writer-preferring
policy -/
example :
    let s := LockOrder.Sys.ofScripts genProgram
      [[.write (some (.full true))], [.read], [.write (some (.full false)), .read]] false
    let s1 := s.run (List.replicate 9 1 ++ List.replicate 9 0)
    -- the reader is open, the first writer waits for M-write, the second for F
    s1.enabled 0 = false ∧ s1.enabled 2 = false ∧ s1.enabled 1 = true ∧
    (s1.run (List.replicate 3 1 ++ List.replicate 7 0 ++ List.replicate 24 2)).allFinished = true := by
  decide

/-! #### the order condition is not vacuous -/

/-- `resize` taking the map-handle mutex before the map write lock -/
def misorderedResize : List ResizeStep := [.fallocate, .lockData, .lockMapWrite, .mmap, .storeMap]

/-- with that `resize` the growing commit is not `Ordered`, and it deadlocks against a reader that is
beginning: the reader holds M-read and waits for D (to read the header), the writer holds D and waits
for M-write.  Either admission policy. -/
theorem misordered_resize_deadlocks (admit : Bool) :
    let bad : Kind → List Act := program { genTables with resize := misorderedResize }
    Ordered (bad (.write (some (.full true)))) = false ∧
    let s := (LockOrder.Sys.ofScripts bad [[.write (some (.full true))], [.read]] admit).run
      ([1] ++ List.replicate 10 0 ++ List.replicate 3 1)
    s.allFinished = false ∧ ∀ i, s.enabled i = false := by
  refine ⟨by decide, (LockOrder.Sys.stuck_iff _).mp ?_⟩
  cases admit <;> decide

/-- the generated programs, nested on one thread: a growing write transaction opened (and committed) while
the same thread has a read transaction open -/
def nestedWriteInRead : List Act :=
  beginActs false Gen.metaLocks Gen.beginSteps ++ genProgram (.write (some (.full true))) ++ dropActs false Gen.dropSteps

/-- … is not `Ordered` (F is taken while M-read is held) and deadlocks all by itself: `resize` waits for
the thread's own read lock -/
theorem nested_write_in_read_deadlocks (admit : Bool) :
    Ordered nestedWriteInRead = false ∧
    let s := (LockOrder.Sys.init [nestedWriteInRead] admit).run (List.replicate 18 0)
    s.allFinished = false ∧ ∀ i, s.enabled i = false := by
  refine ⟨by decide, (LockOrder.Sys.stuck_iff _).mp ?_⟩
  cases admit <;> decide

/-- a second read transaction opened while the same thread has a read transaction open -/
def nestedReadInRead : List Act :=
  beginActs false Gen.metaLocks Gen.beginSteps ++ genProgram .read ++ dropActs false Gen.dropSteps

/-- … is not `Ordered` (M-read is taken while M-read is held); with the writer-preferring rwlock it
deadlocks against a growing commit that arrives in between, with the reader-admitting one it does not:
the two admission policies really differ in the model -/
theorem nested_read_in_read_deadlocks :
    Ordered nestedReadInRead = false ∧
    (let s := (LockOrder.Sys.init [nestedReadInRead, genProgram (.write (some (.full true)))] false).run
        (List.replicate 9 0 ++ List.replicate 9 1)
     s.allFinished = false ∧ ∀ i, s.enabled i = false) ∧
    ((LockOrder.Sys.init [nestedReadInRead, genProgram (.write (some (.full true)))] true).run
        (List.replicate 9 0 ++ List.replicate 9 1 ++ List.replicate 15 0 ++ List.replicate 7 1)).allFinished
      = true := by
  refine ⟨by decide, (LockOrder.Sys.stuck_iff _).mp (by decide), by decide⟩

end Jamm.Props.C09
