/-
C14 — borrowed data cannot outlive its transaction; handles stay on their thread.

This property is about rustc's type checker, which a Lean development cannot be.  What is logic is the
signature-level discipline (`Jamm/Model/Api.lean`), evaluated over the table the translator regenerates
from nightly rustdoc JSON on every run:
* `discipline_holds_except_known`: every public method or trait method of every handed-out type (Tx,
  Bucket, Cursor, Range, Buckets, KVPairs, KVPair, Data, BucketName) whose result can hold bytes of the
  memory map returns a type that is transaction-bounded — except the listed known edges;
* `known_edges_are_open` (OPEN FINDING D13): `BucketName → ToBytes::to_bytes → Bytes<'tx>` (by value and
  by reference) drops the transaction borrow `'b`: safe code can keep the bytes past the transaction;
* `tx_bounded_by_db`: `DB::tx` returns a transaction borrowed from the handle;
* `every_public_mapped_type_is_handed_out`: the list of handed-out types is derived, not chosen: every public
  type that (through its private fields, transitively) can hold `Bytes` or the map is on it;
* `handles_not_send`, `db_is_send`: every handed-out type is `!Send` by the auto-trait evaluation over the
  regenerated (private) fields; `DB` is `Send`.
LABELLED PARTIAL: the region rule is an abstraction of the borrow checker, validated only on the
generated corpus (one escape program per table row + hand-written escape routes + positive controls,
type-checked by the real rustc on every run); variance, higher-ranked bounds and drop-check are not
modelled.
-/
import Jamm.Gen.Api
set_option linter.unusedSectionVars false

namespace Jamm.Props.C14
open Jamm

def handedOut : List String := ["Tx", "Bucket", "Cursor", "Range", "Buckets", "KVPairs", "KVPair", "Data", "BucketName"]

/-- the known edges (D13) -/
def knownEdges : List (String × String) := [("BucketName", "to_bytes")]

theorem discipline_holds_except_known :
    Gen.apiMethods.all (fun m => !handedOut.contains m.owner || methodOk m || knownEdges.contains (m.owner, m.name)) = true := by
  decide

theorem known_edges_are_open :
    (Gen.apiMethods.filter (fun m => m.owner == "BucketName" && m.name == "to_bytes")).all (fun m => m.outMapped && !outBounded m) = true ∧
    (Gen.apiMethods.filter (fun m => m.owner == "BucketName" && m.name == "to_bytes")).length = 2 := by
  decide

theorem tx_bounded_by_db :
    (Gen.apiMethods.filter (fun m => m.owner == "DB" && m.name == "tx")).all outBounded = true := by decide

theorem handles_not_send :
    (handedOut.filter (· != "KVPairs")).all (fun t => notSend Gen.apiTypes t) = true := by decide +kernel

/-- `KVPairs<I>` is a wrapper around the iterator it filters (a `Cursor` or a `Range`, both `!Send`): its
only field is the type parameter, so it is `Send` exactly when that iterator is -/
theorem kvpairs_is_its_iterator :
    (Gen.apiTypes.filter (fun t => t.name == "KVPairs")).map (·.fields) = [[["param:I"]]] := by decide

theorem db_is_send : notSend Gen.apiTypes "DB" = false := by decide +kernel

/-- every handed-out type is present in the regenerated table (a renamed or removed type breaks this) -/
theorem handed_out_types_exist : handedOut.all (fun t => Gen.apiTypes.any (fun a => a.name == t && a.isPublic)) = true := by
  decide

/-- the list of handed-out types is not chosen by hand: every PUBLIC type of the crate that can hold bytes
of the memory map — by the closure over the regenerated private fields, seeded with `Bytes` and the map —
is one of them (or `Bytes` itself, the payload, whose own lifetime parameter is what the owners' signatures
bound).  A new public type that hands out mapped bytes breaks this until it is classified. -/
theorem every_public_mapped_type_is_handed_out :
    (Gen.apiTypes.filter (fun t => t.isPublic && (mappedTypes Gen.apiTypes).contains t.name)).all
      (fun t => handedOut.contains t.name || t.name == "Bytes") = true := by decide +kernel

/-- … and conversely every handed-out type is in that closure (`KVPairs<I>` through its parameter only) -/
theorem handed_out_types_hold_mapped_bytes :
    (handedOut.filter (· != "KVPairs")).all (fun t => (mappedTypes Gen.apiTypes).contains t) = true := by decide +kernel

/-- every public type with a lifetime parameter is classified: handed out, or `Bytes` -/
theorem every_public_type_with_a_lifetime_is_classified :
    (Gen.apiTypes.filter (fun t => t.isPublic && !t.lifetimes.isEmpty)).all
      (fun t => handedOut.contains t.name || t.name == "Bytes") = true := by decide

end Jamm.Props.C14
