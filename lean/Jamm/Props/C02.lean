/-
C02 — a crash at any instant leaves the previous or the new commit, never a mix.

Model: `Jamm/Model/Io.lean` (pages with content tokens, two header slots, durable image + writes
pending since the last completed sync; a power loss keeps any subset of the pending writes, each
possibly torn; a process kill keeps all of them).  Proved for every commit context satisfying
`CommitCtx.Ok` (current header newest and intact, copy-on-write, new header newer):
* `power_loss_atomic`: after any prefix of the commit's operations and any fates of the pending
  writes, recovery finds the previous commit complete or the new commit complete;
* `durable_after_return`: once the final sync has completed, every later crash recovers the new commit;
* `kill_atomic`: the same for process kills (also without the intermediate sync);
* `generated_order_is_safe`: the operations `TxInner::write_data` issues, in the order regenerated
  from the source on every run, have exactly the safe shape (all data writes, sync, header into the
  other slot, sync) — this is the obligation that failed for the pinned release (D8) and holds after
  the `fix:` commit; `pinned_order_not_atomic` is the machine-checked witness of that defect.
Assumptions, stated where the theorems are (they are also in the evidence file):
* A-disk: a 512-byte sector is written atomically; no write issued after a COMPLETED sync is durable
  before one issued before it; the page cache is coherent with the map.
* Quiescent start: every statement starts from `{durable := c.img0, pending := []}` — no unsynced write
  is outstanding when the commit begins.  After a commit whose final sync FAILED this is an assumption
  about the kernel (what happens to dirty pages after a failed fsync), not something the model shows;
  C11's fault runs exercise the next commits on the real kernel but cannot exhibit a power loss there.
* File length: extending the file (`.grow`) and the durability of the new length are not modelled —
  `commitOps` drops the step; the crash images of the correspondence run are cut to the pages in use.
* NoTornCollision (`Io.lean`): a header page mixing old and new 8-byte words does not verify its checksum
  (evaluated on every tear the run synthesises).
`CommitCtx.Ok.cow` (the commit writes no page of the snapshot it started from) is Jamm.Props.C12
`previous_snapshot_intact` / C03 on the protocol model, and is checked per commit on real files.
-/
import Jamm.Proofs.IoLemmas
import Jamm.Gen.Steps
set_option linter.unusedSectionVars false

namespace Jamm.Props.C02
open Jamm

theorem power_loss_atomic (c : CommitCtx) (hc : c.Ok) (k : Nat) (fates : List Fate) :
    Atomic c ((({ durable := c.img0, pending := [] } : Disk).run ((safeShape c).take k)).crash fates) :=
  crash_atomic c hc k fates

theorem durable_after_return (c : CommitCtx) (hc : c.Ok) (fates : List Fate) :
    let i := ((({ durable := c.img0, pending := [] } : Disk).run (safeShape c)).crash fates)
    recover i = some c.hpost ∧ intact i c.sdPost :=
  Jamm.durable_after_return c hc fates

theorem kill_atomic (c : CommitCtx) (hc : c.Ok) (k : Nat) :
    Atomic c ((({ durable := c.img0, pending := [] } : Disk).run ((safeShape c).take k)).kill) :=
  Jamm.kill_atomic c hc k

theorem kill_atomic_without_intermediate_sync (c : CommitCtx) (hc : c.Ok) (k : Nat) :
    Atomic c ((({ durable := c.img0, pending := [] } : Disk).run ((unsyncedShape c).take k)).kill) :=
  kill_atomic_unsynced c hc k

/-- the regenerated order of `write_data`, instantiated with any commit's dirty pages, is the safe shape -/
theorem generated_order_is_safe (c : CommitCtx) :
    commitOps Gen.commitSteps c.dirty (1 - c.slot) c.hpost = safeShape c := by
  simp [commitOps, Gen.commitSteps, safeShape]

theorem generated_order_wellordered : CommitWellOrdered Gen.commitSteps = true := by decide

/-- D8 (repaired): the order of the pinned release is not crash atomic under power loss -/
theorem pinned_order_not_atomic :
    ∃ (c : CommitCtx), c.Ok ∧ ∃ (k : Nat) (fates : List Fate),
      ¬ Atomic c ((({ durable := c.img0, pending := [] } : Disk).run ((unsyncedShape c).take k)).crash fates) :=
  unsynced_not_atomic

end Jamm.Props.C02
