/-
C02 — a crash at any instant leaves the previous or the new commit, never a mix.

Model: `Jamm/Model/Io.lean` (pages with content tokens, two header slots, durable image + writes
pending since the last completed sync; a power loss keeps any subset of the pending writes, each
possibly torn; a process kill keeps all of them).  Proved for every commit context satisfying
`CommitCtx.Ok` (current header newest and intact, copy-on-write, new header newer):
* `power_loss_atomic`: after any prefix of the commit's operations and any fates of the pending
  writes, recovery finds the previous commit complete or the new commit complete;
* `durable_after_return`: once the final sync has completed, every later crash recovers the new commit;
* `kill_atomic`: the same for process kills (also without the intermediate sync);
* `generated_order_is_safe`: the operations `TxInner::write_data` issues, in the order regenerated
  from the source on every run, have exactly the safe shape (all data writes, sync, header into the
  other slot, sync) — this is the obligation that failed for the pinned release (D8) and holds after
  the `fix:` commit; `pinned_order_not_atomic` is the machine-checked witness of that defect.
Assumptions, stated where the theorems are (they are also in the evidence file):
* A-disk: a 512-byte sector is written atomically; no write issued after a COMPLETED sync is durable
  before one issued before it; the page cache is coherent with the map.
* Quiescent start: every statement starts from `{durable := c.img0, pending := []}` — no unsynced write
  is outstanding when the commit begins.  After a commit whose final sync FAILED this is an assumption
  about the kernel (what happens to dirty pages after a failed fsync), not something the model shows;
  C11's fault runs exercise the next commits on the real kernel but cannot exhibit a power loss there.
* File length: extending the file (`.grow`) and the durability of the new length are not modelled —
  `commitOps` drops the step; the crash images of the correspondence run are cut to the pages in use.
* NoTornCollision (`Io.lean`): a header page mixing old and new 8-byte words does not verify its checksum
  (evaluated on every tear the run synthesises).
`CommitCtx.Ok.cow` (the commit writes no page of the snapshot it started from) is Jamm.Props.C12
`previous_snapshot_intact` / C03 on the protocol model, and is checked per commit on real files.

THE SAME AT THE LEVEL OF FILE BYTES (second half of this file; `Model/CommitFile.lean`,
`Proofs/CommitFile*.lean`): the composition of the header choice, the whole-database round trip and the
page writers, at the regenerated layout and checksum order, for every page size that holds a header record.
`openFile` is what `open` shows of a byte source (header choice, walk of every bucket from the root page,
free-list page); `commitFile` is `write_data` as a function on bytes.  `Committed s slot st` = state `st` is
stored in `s` under header slot `slot` on pages ≥ 2 and the other slot loses the choice.  Proved:
* `any_partial_commit_shows_previous_state`: EVERY byte source that keeps the bytes the previous state owns
  (its header page, its tree runs, its free-list run) opens as exactly the previous state, whatever was
  written elsewhere — any subset of a commit's data writes, torn at any granularity, arbitrary garbage — as
  long as the other header page is unchanged or does not verify (no sampling of subsets, no sector assumption);
* `data_writes_alone_show_previous_state`: in particular the file after all data writes and before the header;
* `completed_commit_shows_new_state`: after the header write `open` shows exactly the new state (every bucket
  at every depth, values, counters, free list), the file is again `Committed` (so the statement iterates over
  any number of commits), and the previous state is still stored under the old slot;
* `damaged_new_header_shows_previous_state`: after a completed commit, any damage confined to the new header
  page that makes it fail verification gives back exactly the previous state (C12's fallback, in bytes);
* `every_history_of_commits_stays_committed`: induction over any number of such commits from any committed file;
* `copy_on_write_stores_the_whole_tree`: a writer that writes only the nodes on fresh pages leaves the whole tree
  (rewritten and shared nodes) stored and changes nothing outside the fresh runs — the two premises above, for one
  bucket's tree sharing any subset of its nodes with the previous state;
* `whole_copy_on_write_commit_is_atomic`: the same for a whole database (every bucket at every depth) written
  copy-on-write, with the free-list page and the header: data writes alone show the previous state, the completed
  commit shows the new one and is committed again;
* `allocator_model_delivers_the_premise`: the page-level guarantee of the allocator model (Layer A: a protocol-abiding
  writer writes no page of the snapshot it started from) is exactly the byte-level premise `KeepsState`;
* `fresh_file_is_committed`, `second_commit_premises_hold`, `two_commit_file_opens_as_second_state`: the premises are
  satisfiable (a four-page file as `init_file` writes it; a concrete second commit on a six-page one).
What these do NOT cover: that the real commit writes only pages the previous state does not own is the
hypothesis `CommitOK.sep` — Layer A proves it of the allocator model (`reader_pages_never_written`, C03), and
the run evaluates it on the observed writes of every real commit against the decoded previous file
(`jmodel cow`); the durable-subset semantics of a power loss is `Io.lean` above.
-/
import Jamm.Proofs.IoLemmas
import Jamm.Proofs.CommitFileAtomic
import Jamm.Proofs.CommitFileAlloc
import Jamm.Proofs.CowTree
import Jamm.Proofs.CowCommit
import Jamm.Gen.Steps
import Jamm.Gen.Layout
import Jamm.Gen.HashOrder
set_option linter.unusedSectionVars false

namespace Jamm.Props.C02
open Jamm

theorem power_loss_atomic (c : CommitCtx) (hc : c.Ok) (k : Nat) (fates : List Fate) :
    Atomic c ((({ durable := c.img0, pending := [] } : Disk).run ((safeShape c).take k)).crash fates) :=
  crash_atomic c hc k fates

theorem durable_after_return (c : CommitCtx) (hc : c.Ok) (fates : List Fate) :
    let i := ((({ durable := c.img0, pending := [] } : Disk).run (safeShape c)).crash fates)
    recover i = some c.hpost ∧ intact i c.sdPost :=
  Jamm.durable_after_return c hc fates

theorem kill_atomic (c : CommitCtx) (hc : c.Ok) (k : Nat) :
    Atomic c ((({ durable := c.img0, pending := [] } : Disk).run ((safeShape c).take k)).kill) :=
  Jamm.kill_atomic c hc k

theorem kill_atomic_without_intermediate_sync (c : CommitCtx) (hc : c.Ok) (k : Nat) :
    Atomic c ((({ durable := c.img0, pending := [] } : Disk).run ((unsyncedShape c).take k)).kill) :=
  kill_atomic_unsynced c hc k

/-- the regenerated order of `write_data`, instantiated with any commit's dirty pages, is the safe shape -/
theorem generated_order_is_safe (c : CommitCtx) :
    commitOps Gen.commitSteps c.dirty (1 - c.slot) c.hpost = safeShape c := by
  simp [commitOps, Gen.commitSteps, safeShape]

theorem generated_order_wellordered : CommitWellOrdered Gen.commitSteps = true := by decide

/-- D8 (repaired): the order of the pinned release is not crash atomic under power loss -/
theorem pinned_order_not_atomic :
    ∃ (c : CommitCtx), c.Ok ∧ ∃ (k : Nat) (fates : List Fate),
      ¬ Atomic c ((({ durable := c.img0, pending := [] } : Disk).run ((unsyncedShape c).take k)).crash fates) :=
  unsynced_not_atomic

/-! ## The same at the level of file bytes -/

/-- the shape of a file between commits, at the regenerated layout and checksum order -/
abbrev CommittedFile (pagesize : Nat) (ov : Nat → Nat) (s : Src) (slot : Nat) (st : Opened) : Prop :=
  Committed Gen.layout Gen.hashOrder pagesize ov s slot st

theorem layout_fit_for_commit : Layout.WFEnc Gen.layout = true ∧ Layout.WFMeta Gen.layout = true := by decide

/-- every byte source that keeps the bytes the previous state owns opens as exactly the previous state, whatever
else it holds, as long as the other header page has the bytes it had or does not verify -/
theorem any_partial_commit_shows_previous_state (pagesize : Nat)
    (hrec : Gen.layout.pgPtr + Gen.layout.metaSize ≤ pagesize) (ov : Nat → Nat) (s c : Src) (slot : Nat)
    (hslot : slot = 0 ∨ slot = 1) (old : Opened) (h : CommittedFile pagesize ov s slot old)
    (k : KeepsState pagesize ov s c slot old)
    (hother : Src.AgreeOn s c ((1 - slot) * pagesize) ((1 - slot) * pagesize + pagesize) ∨
      slotValid Gen.layout Gen.hashOrder c pagesize (1 - slot) = none)
    (fuel : Nat) (hf : old.view.weight ≤ fuel) :
    openFile Gen.layout Gen.hashOrder pagesize fuel c = some old := by
  have hE := layout_fit_for_commit.1
  have hL := layout_fit_for_commit.2
  have hhdr : Gen.layout.pageSize ≤ pagesize := Nat.le_trans (by decide) hrec
  refine crash_shows_old Gen.layout Gen.hashOrder pagesize (Layout.WF.of _ hE) (Layout.WFM.of _ hL) hrec hhdr ov s c
    slot hslot old h.1 k ?_ fuel hf
  rcases hother with e | e
  · rw [slotValid_agree Gen.layout Gen.hashOrder pagesize (Layout.WFM.of _ hL) hrec s c (1 - slot) k.1 e]
    exact h.2.2
  · rw [e]; trivial

/-- the file after all the data writes of a commit and before its header write shows the previous state -/
theorem data_writes_alone_show_previous_state (pagesize : Nat)
    (hrec : Gen.layout.pgPtr + Gen.layout.metaSize ≤ pagesize) (ov : Nat → Nat) (s : Src) (slot : Nat)
    (hslot : slot = 0 ∨ slot = 1) (old new : Opened) (h : CommittedFile pagesize ov s slot old)
    (c : CommitOK Gen.layout Gen.hashOrder pagesize ov s old new) (fuel : Nat) (hf : old.view.weight ≤ fuel) :
    openFile Gen.layout Gen.hashOrder pagesize fuel (commitData Gen.layout pagesize ov new s) = some old := by
  have hE := layout_fit_for_commit.1
  have hL := layout_fit_for_commit.2
  have hhdr : Gen.layout.pageSize ≤ pagesize := Nat.le_trans (by decide) hrec
  have k1 := commitData_keeps_old Gen.layout Gen.hashOrder pagesize hE hL hhdr ov s slot (by omega) old new c
  have k2 := commitData_keeps_old Gen.layout Gen.hashOrder pagesize hE hL hhdr ov s (1 - slot) (by omega) old new c
  exact any_partial_commit_shows_previous_state pagesize hrec ov s _ slot hslot old h k1 (Or.inl k2.2.1) fuel hf

/-- the completed commit shows exactly the new state, is again a committed file, and still stores the previous
state under the old slot -/
theorem completed_commit_shows_new_state (pagesize : Nat)
    (hrec : Gen.layout.pgPtr + Gen.layout.metaSize ≤ pagesize) (ov : Nat → Nat) (s : Src) (slot : Nat)
    (hslot : slot = 0 ∨ slot = 1) (old new : Opened) (h : CommittedFile pagesize ov s slot old)
    (c : CommitOK Gen.layout Gen.hashOrder pagesize ov s old new) (fuel : Nat) (hf : new.view.weight ≤ fuel) :
    openFile Gen.layout Gen.hashOrder pagesize fuel (commitFile Gen.layout pagesize ov (1 - slot) new s) = some new ∧
    CommittedFile pagesize ov (commitFile Gen.layout pagesize ov (1 - slot) new s) (1 - slot) new ∧
    Holds Gen.layout Gen.hashOrder pagesize ov (commitFile Gen.layout pagesize ov (1 - slot) new s) slot old := by
  have hhdr : Gen.layout.pageSize ≤ pagesize := Nat.le_trans (by decide) hrec
  obtain ⟨h1, h2, h3, h4⟩ := commit_shows_new Gen.layout Gen.hashOrder pagesize layout_fit_for_commit.1
    layout_fit_for_commit.2 hrec hhdr ov s slot hslot old new h.1 h.2.1 c fuel hf
  exact ⟨h1, ⟨h2, c.above, h4⟩, h3⟩

/-- COPY-ON-WRITE COMMITS (the general case: the new state shares every page it did not change with the previous
one).  `s1` is any byte source — e.g. the file after the data writes of a real commit — in which the previous state
still holds and the new state's pages are stored, however they got there.  After the header write `open` shows
exactly the new state, the file is again committed, the previous state is still stored under the old slot.
Together with `any_partial_commit_shows_previous_state` (which needs nothing of the new state): every crash
image of such a commit opens as exactly the previous or exactly the new state.  The run evaluates both premises on
every real commit of the C02 stream (`jmodel cow`: no data write touches a page the decoded previous state owns
or a header page; the view decoded from the new header is already readable from the file without the header) -/
theorem header_write_switches_states (pagesize : Nat)
    (hrec : Gen.layout.pgPtr + Gen.layout.metaSize ≤ pagesize) (ov ov' : Nat → Nat) (s1 : Src) (slot : Nat)
    (hslot : slot = 0 ∨ slot = 1) (old new : Opened)
    (hold : Holds Gen.layout Gen.hashOrder pagesize ov s1 slot old) (habove : ∀ r ∈ old.runs ov, 2 ≤ r.1)
    (hst : StoredV Gen.layout pagesize ov' s1 new.view)
    (hfl : ∃ p, decodePage Gen.layout s1 pagesize new.hdr.freelistPage = .ok p ∧ p.body = .freelist new.free ∧
      p.overflow = new.flOverflow)
    (c : HeaderOK Gen.layout Gen.hashOrder pagesize ov' s1 old new) (fuel : Nat) (hf : new.view.weight ≤ fuel) :
    openFile Gen.layout Gen.hashOrder pagesize fuel (writeMetaPage Gen.layout pagesize (1 - slot) new.hdr s1) = some new ∧
    CommittedFile pagesize ov' (writeMetaPage Gen.layout pagesize (1 - slot) new.hdr s1) (1 - slot) new ∧
    Holds Gen.layout Gen.hashOrder pagesize ov (writeMetaPage Gen.layout pagesize (1 - slot) new.hdr s1) slot old := by
  have hhdr : Gen.layout.pageSize ≤ pagesize := Nat.le_trans (by decide) hrec
  obtain ⟨h1, h2, h3, h4⟩ := header_write_switches Gen.layout Gen.hashOrder pagesize layout_fit_for_commit.1
    layout_fit_for_commit.2 hrec hhdr ov ov' s1 slot hslot old new hold habove hst hfl c fuel hf
  exact ⟨h1, ⟨h2, c.above, h4⟩, h3⟩

/-- after a completed commit, whatever happens to the new header page: if it no longer verifies, `open` shows
exactly the previous state -/
theorem damaged_new_header_shows_previous_state (pagesize : Nat)
    (hrec : Gen.layout.pgPtr + Gen.layout.metaSize ≤ pagesize) (ov : Nat → Nat) (s d : Src) (slot : Nat)
    (hslot : slot = 0 ∨ slot = 1) (old new : Opened) (h : CommittedFile pagesize ov s slot old)
    (c : CommitOK Gen.layout Gen.hashOrder pagesize ov s old new)
    (k : KeepsState pagesize ov (commitFile Gen.layout pagesize ov (1 - slot) new s) d slot old)
    (hbad : slotValid Gen.layout Gen.hashOrder d pagesize (1 - slot) = none)
    (fuel : Nat) (hf : old.view.weight ≤ fuel) :
    openFile Gen.layout Gen.hashOrder pagesize fuel d = some old := by
  have hE := layout_fit_for_commit.1
  have hL := layout_fit_for_commit.2
  have hhdr : Gen.layout.pageSize ≤ pagesize := Nat.le_trans (by decide) hrec
  obtain ⟨_, _, h3⟩ := completed_commit_shows_new_state pagesize hrec ov s slot hslot old new h c new.view.weight
    (Nat.le_refl _)
  refine crash_shows_old Gen.layout Gen.hashOrder pagesize (Layout.WF.of _ hE) (Layout.WFM.of _ hL) hrec hhdr ov _ d
    slot hslot old h3 k ?_ fuel hf
  rw [hbad]; trivial

/-- ALONG EVERY HISTORY: from any committed file (e.g. the fresh one), after any number of completed copy-on-write
commits — each an arbitrary set of data writes that keeps the bytes the current state owns and leaves the next
state's pages stored, followed by the header write into the other slot — the file is again committed and opens as
exactly the state of the last commit.  So `any_partial_commit_shows_previous_state` applies at every point of every
history: whatever part of the next commit is in the file, `open` shows the last committed state -/
theorem every_history_of_commits_stays_committed (pagesize : Nat)
    (hrec : Gen.layout.pgPtr + Gen.layout.metaSize ≤ pagesize) {s : Src} {slot : Nat} {st : Opened} {ov : Nat → Nat}
    {s' : Src} {slot' : Nat} {st' : Opened} {ov' : Nat → Nat} (hslot : slot = 0 ∨ slot = 1)
    (h0 : CommittedFile pagesize ov s slot st)
    (hc : Commits Gen.layout Gen.hashOrder pagesize s slot st ov s' slot' st' ov') :
    (slot' = 0 ∨ slot' = 1) ∧ CommittedFile pagesize ov' s' slot' st' ∧
    ∀ fuel, st'.view.weight ≤ fuel → openFile Gen.layout Gen.hashOrder pagesize fuel s' = some st' :=
  commits_stay_committed Gen.layout Gen.hashOrder pagesize layout_fit_for_commit.1 layout_fit_for_commit.2 hrec
    (Nat.le_trans (by decide) hrec) hslot h0 hc

/-- A COPY-ON-WRITE WRITER ESTABLISHES BOTH PREMISES for a tree that shares any subset of its nodes with the previous
state (`Proofs/CowTree.lean`): writing only the nodes on fresh pages (`writeFreshT`) leaves EVERY node of the tree —
rewritten or shared — decodable from its own page (`StoredT`: what `header_write_switches_states` needs of the new
state), provided the shared ones were stored before, every node fits its run and the runs of the tree are pairwise
disjoint; and it changes no byte outside the runs of the fresh nodes (so with fresh runs disjoint from what the
previous state owns, `KeepsState`: what `any_partial_commit_shows_previous_state` needs) -/
theorem copy_on_write_stores_the_whole_tree (pagesize : Nat) (hhdr : Gen.layout.pageSize ≤ pagesize)
    (fresh : Nat → Bool) (ov : Nat → Nat) (t : Tree Bytes LeafVal) (s : Src)
    (hfit : nodesFit Gen.layout pagesize ov s.size t = true) (hdisj : (nodeRunsT ov t).Pairwise runsDisjoint)
    (hsh : SharedT Gen.layout pagesize fresh ov s t) :
    StoredT Gen.layout pagesize ov (writeFreshT Gen.layout pagesize fresh ov t s) t ∧
    (writeFreshT Gen.layout pagesize fresh ov t s).size = s.size ∧
    ∀ i, (∀ r ∈ freshRunsT fresh ov t, i < r.1 * pagesize ∨ (r.1 + r.2 + 1) * pagesize ≤ i) →
      (writeFreshT Gen.layout pagesize fresh ov t s).get i = s.get i :=
  ⟨writeFreshT_stored Gen.layout pagesize layout_fit_for_commit.1 hhdr fresh ov s.size t s rfl hfit hdisj hsh,
   writeFreshT_size Gen.layout pagesize fresh ov t s,
   fun i h => writeFreshT_get Gen.layout pagesize layout_fit_for_commit.1 fresh ov s.size t s i hfit h⟩

/-- A WHOLE COPY-ON-WRITE COMMIT, every bucket at every nesting depth, in file bytes (`Proofs/CowView.lean`,
`CowCommit.lean`): only the nodes on fresh pages are written, then the free-list page, then the sealed header into the
other slot; the new state shares every other page with the previous one (`SharedV`).  If the written runs lie on pages
≥ 2 that the previous state does not own (what the allocator guarantees: `allocator_model_delivers_the_premise`), then
the file after the data writes still opens as exactly the previous state, and after the header write `open` shows
exactly the new state, the file is committed again and the previous state is still stored under the old slot -/
theorem whole_copy_on_write_commit_is_atomic (pagesize : Nat)
    (hrec : Gen.layout.pgPtr + Gen.layout.metaSize ≤ pagesize) (fresh : Nat → Bool) (ov ov' : Nat → Nat) (s : Src)
    (slot : Nat) (hslot : slot = 0 ∨ slot = 1) (old new : Opened)
    (h0 : CommittedFile pagesize ov s slot old)
    (hfit : new.view.fits Gen.layout pagesize ov' s.size)
    (hdisj : (new.runs ov').Pairwise runsDisjoint)
    (hsh : SharedV Gen.layout pagesize fresh ov' s new.view)
    (hflfile : new.hdr.freelistPage * pagesize + (new.flOverflow + 1) * pagesize ≤ s.size)
    (hflfit : Gen.layout.pgPtr + 8 * new.free.length ≤ (new.flOverflow + 1) * pagesize)
    (hflid : new.hdr.freelistPage < 2 ^ 64) (hflrun : (new.flOverflow + 1) * pagesize < 2 ^ 64)
    (hfree : ∀ x ∈ new.free, x < 2 ^ 64)
    (hfresh2 : ∀ r ∈ new.freshRuns fresh ov', 2 ≤ r.1)
    (hsep : ∀ a ∈ old.runs ov, ∀ b ∈ new.freshRuns fresh ov', runsDisjoint a b)
    (c : HeaderOK Gen.layout Gen.hashOrder pagesize ov' s old new) (fuel : Nat) (hfo : old.view.weight ≤ fuel)
    (hfn : new.view.weight ≤ fuel) :
    openFile Gen.layout Gen.hashOrder pagesize fuel (cowCommitData Gen.layout pagesize fresh ov' new s) = some old ∧
    openFile Gen.layout Gen.hashOrder pagesize fuel
      (writeMetaPage Gen.layout pagesize (1 - slot) new.hdr (cowCommitData Gen.layout pagesize fresh ov' new s)) = some new ∧
    CommittedFile pagesize ov'
      (writeMetaPage Gen.layout pagesize (1 - slot) new.hdr (cowCommitData Gen.layout pagesize fresh ov' new s)) (1 - slot) new ∧
    Holds Gen.layout Gen.hashOrder pagesize ov
      (writeMetaPage Gen.layout pagesize (1 - slot) new.hdr (cowCommitData Gen.layout pagesize fresh ov' new s)) slot old :=
  cow_commit_atomic Gen.layout Gen.hashOrder pagesize layout_fit_for_commit.1 layout_fit_for_commit.2 hrec
    (Nat.le_trans (by decide) hrec) fresh ov ov' s slot hslot old new h0 hfit hdisj hsh hflfile hflfit hflid hflrun hfree
    hfresh2 hsep c fuel hfo hfn

/-- LAYER A DELIVERS THE PREMISE: in any state of the release-protocol model that satisfies its invariant (proved
along every history: `Jamm.Props.C03.invariant_always`), for any protocol-abiding writer, a byte source that differs
from the file only inside the pages that writer writes (the runs first fit hands out) keeps the bytes of every state
whose pages are reachable in the current snapshot.  With `any_partial_commit_shows_previous_state`: whatever part of
such a commit reaches the file, `open` shows the previous state.  (That the real allocator is this first fit is the
call-by-call allocation tie of C10; that the real writes go only to allocated pages is `jmodel cow`.) -/
theorem allocator_model_delivers_the_premise (pagesize : Nat) (hps : 0 < pagesize) (ov : Nat → Nat) (s s' : Src)
    (slot : Nat) (hslot : slot < 2) (old : Opened) (sys : Sys) (w : WriterTx) (hi : sys.invB = true)
    (hc : sys.clientOkB (.commitW w) = true)
    (hreach : ∀ r ∈ old.runs ov, ∀ d, d ≤ r.2 → r.1 + d ∈ sys.cur.reach)
    (hsz : s'.size = s.size)
    (hsame : ∀ i, i / pagesize ∉ sys.writes w → s'.get i = s.get i) :
    KeepsState pagesize ov s s' slot old :=
  allocator_writes_keep_state pagesize hps ov s s' slot hslot old sys w hi hc hreach hsz hsame

/-! ### the premises are satisfiable: a fresh four-page file -/

/-- the state `init_file` writes, at page size 1024: empty root leaf at page 3, empty free list at page 2 -/
def freshState : Opened :=
  { hdr := MetaRec.seal Gen.layout Gen.hashOrder
      { metaPage := 0, magic := Gen.layout.magic, version := Gen.layout.version, pagesize := 1024, rootPage := 3,
        nextInt := 0, numPages := 4, freelistPage := 2, txId := 0, hash := 0 }
    view := { tree := .leaf 3 [], nextInt := 0, subs := [] }
    free := []
    flOverflow := 0 }

/-- four zeroed pages -/
def blankFile : Src := { size := 4096, get := fun _ => 0 }

/-- non-vacuity: writing `freshState` onto four blank pages (data, then the header into slot 0) gives a committed
file, so `CommittedFile` has an inhabitant and the theorems above have a starting point -/
theorem fresh_file_is_committed :
    CommittedFile 1024 (fun _ => 0) (commitFile Gen.layout 1024 (fun _ => 0) 0 freshState blankFile) 0 freshState := by
  have hE := layout_fit_for_commit.1
  have hL := layout_fit_for_commit.2
  have hruns : freshState.runs (fun _ => 0) = [(2, 0), (3, 0)] := by
    rw [Opened.runs, BucketView.allRuns_eq]
    rfl
  have hfits : freshState.view.fits Gen.layout 1024 (fun _ => 0) blankFile.size := by
    rw [BucketView.fits_eq]
    exact ⟨by decide, by intro x hx; cases hx⟩
  have hdisj : (freshState.runs (fun _ => 0)).Pairwise runsDisjoint := by
    rw [hruns]; simp [runsDisjoint]
  obtain ⟨hst, hfl, hsz, hout⟩ := commitData_stores Gen.layout 1024 hE hL (by decide) (fun _ => 0) freshState blankFile
    hfits hdisj (by decide) (by decide) (by decide) (by decide) (by intro x hx; cases hx)
  have hab : ∀ r ∈ freshState.runs (fun _ => 0), 2 ≤ r.1 := by
    rw [hruns]; intro r hr; simp at hr; rcases hr with rfl | rfl <;> decide
  have hok : ViewOK freshState.view := ViewOK.mk _ (by decide) (by
    show SubsOK (subBuckets (Tree.flatten (Tree.leaf 3 []))) []
    simp [Tree.flatten, subBuckets]; exact SubsOK.nil)
  have hh := holds_of_header_write Gen.layout Gen.hashOrder 1024 hL (Layout.WF.of _ hE) (by decide) (by decide)
    (fun _ => 0) (commitData Gen.layout 1024 (fun _ => 0) freshState blankFile) 0 freshState (by decide)
    (by rw [hsz]; decide) (seal_fits Gen.layout Gen.hashOrder _ (by decide)) (seal_valid _ _ _) rfl hst hok rfl rfl hfl hab
  refine ⟨hh, hab, ?_⟩
  -- slot 1 is still blank: its page-type byte is 0, not META
  have hb : ((commitFile Gen.layout 1024 (fun _ => 0) 0 freshState blankFile).get (1 * 1024 + Gen.layout.pgType)) = 0 := by
    show (writeMetaPage Gen.layout 1024 0 freshState.hdr _).get _ = 0
    rw [(writeMetaPage_frame Gen.layout 1024 0 freshState.hdr _ _ hL (by decide) (by right; decide)).1,
      hout _ (by rw [hruns]; intro r hr; simp at hr; rcases hr with rfl | rfl <;> (left; decide))]
    rfl
  have hnone : slotValid Gen.layout Gen.hashOrder (commitFile Gen.layout 1024 (fun _ => 0) 0 freshState blankFile) 1024
      (1 - 0) = none := by
    unfold slotValid
    simp only []
    split
    · rfl
    · rw [hb]; rfl
  rw [hnone]; trivial

/-- six zeroed pages: room for a second commit -/
def blankFile6 : Src := { size := 6144, get := fun _ => 0 }

/-- non-vacuity: writing `freshState` onto six blank pages (data, then the header into slot 0) gives a committed
file, so `CommittedFile` has an inhabitant and the theorems above have a starting point -/
theorem fresh_six_page_file_is_committed :
    CommittedFile 1024 (fun _ => 0) (commitFile Gen.layout 1024 (fun _ => 0) 0 freshState blankFile6) 0 freshState := by
  have hE := layout_fit_for_commit.1
  have hL := layout_fit_for_commit.2
  have hruns : freshState.runs (fun _ => 0) = [(2, 0), (3, 0)] := by
    rw [Opened.runs, BucketView.allRuns_eq]
    rfl
  have hfits : freshState.view.fits Gen.layout 1024 (fun _ => 0) blankFile6.size := by
    rw [BucketView.fits_eq]
    exact ⟨by decide, by intro x hx; cases hx⟩
  have hdisj : (freshState.runs (fun _ => 0)).Pairwise runsDisjoint := by
    rw [hruns]; simp [runsDisjoint]
  obtain ⟨hst, hfl, hsz, hout⟩ := commitData_stores Gen.layout 1024 hE hL (by decide) (fun _ => 0) freshState blankFile6
    hfits hdisj (by decide) (by decide) (by decide) (by decide) (by intro x hx; cases hx)
  have hab : ∀ r ∈ freshState.runs (fun _ => 0), 2 ≤ r.1 := by
    rw [hruns]; intro r hr; simp at hr; rcases hr with rfl | rfl <;> decide
  have hok : ViewOK freshState.view := ViewOK.mk _ (by decide) (by
    show SubsOK (subBuckets (Tree.flatten (Tree.leaf 3 []))) []
    simp [Tree.flatten, subBuckets]; exact SubsOK.nil)
  have hh := holds_of_header_write Gen.layout Gen.hashOrder 1024 hL (Layout.WF.of _ hE) (by decide) (by decide)
    (fun _ => 0) (commitData Gen.layout 1024 (fun _ => 0) freshState blankFile6) 0 freshState (by decide)
    (by rw [hsz]; decide) (seal_fits Gen.layout Gen.hashOrder _ (by decide)) (seal_valid _ _ _) rfl hst hok rfl rfl hfl hab
  refine ⟨hh, hab, ?_⟩
  -- slot 1 is still blank: its page-type byte is 0, not META
  have hb : ((commitFile Gen.layout 1024 (fun _ => 0) 0 freshState blankFile6).get (1 * 1024 + Gen.layout.pgType)) = 0 := by
    show (writeMetaPage Gen.layout 1024 0 freshState.hdr _).get _ = 0
    rw [(writeMetaPage_frame Gen.layout 1024 0 freshState.hdr _ _ hL (by decide) (by right; decide)).1,
      hout _ (by rw [hruns]; intro r hr; simp at hr; rcases hr with rfl | rfl <;> (left; decide))]
    rfl
  have hnone : slotValid Gen.layout Gen.hashOrder (commitFile Gen.layout 1024 (fun _ => 0) 0 freshState blankFile6) 1024
      (1 - 0) = none := by
    unfold slotValid
    simp only []
    split
    · rfl
    · rw [hb]; rfl
  rw [hnone]; trivial


/-- the first committed file on six pages -/
def file1 : Src := commitFile Gen.layout 1024 (fun _ => 0) 0 freshState blankFile6

theorem file1_size : file1.size = 6144 := by
  show (writeMetaPage Gen.layout 1024 0 freshState.hdr (commitData Gen.layout 1024 (fun _ => 0) freshState blankFile6)).size = 6144
  rw [(writeMetaPage_frame Gen.layout 1024 0 freshState.hdr _ 5000 layout_fit_for_commit.2 (by decide) (by right; decide)).2]
  show (writeFreelistPage Gen.layout 1024 _ _ _ (writeView Gen.layout 1024 (fun _ => 0) freshState.view blankFile6)).size = 6144
  rw [writeFreelistPage, applyWrites_size, writeView_size]
  rfl

/-- the state of a second transaction that put one key: a new root leaf on page 4, the new free list (the two pages
of the first state) on page 5, transaction id 1, header for slot 1 -/
def secondState : Opened :=
  { hdr := MetaRec.seal Gen.layout Gen.hashOrder
      { metaPage := 1, magic := Gen.layout.magic, version := Gen.layout.version, pagesize := 1024, rootPage := 4,
        nextInt := 0, numPages := 6, freelistPage := 5, txId := 1, hash := 0 }
    view := { tree := .leaf 4 [([107], .kv [118])], nextInt := 0, subs := [] }
    free := [2, 3]
    flOverflow := 0 }

/-- NON-VACUITY OF THE COMMIT STEP: the premises `CommitOK` of `completed_commit_shows_new_state` (hence `HeaderOK`,
`KeepsState`, … of the general theorems) hold for a concrete second commit on the fresh file -/
theorem second_commit_premises_hold :
    CommitOK Gen.layout Gen.hashOrder 1024 (fun _ => 0) file1 freshState secondState := by
  have hr1 : freshState.runs (fun _ => 0) = [(2, 0), (3, 0)] := by
    rw [Opened.runs, BucketView.allRuns_eq]; rfl
  have hr2 : secondState.runs (fun _ => 0) = [(5, 0), (4, 0)] := by
    rw [Opened.runs, BucketView.allRuns_eq]; rfl
  refine
    { fit := ?_, disj := ?_, above := ?_, sep := ?_, flfile := ?_, flfit := ?_, flid := ?_, flrun := ?_, free := ?_,
      ok := ?_, root := rfl, next := rfl, hfits := seal_fits Gen.layout Gen.hashOrder _ (by decide),
      valid := seal_valid _ _ _, ps := rfl, newer := ?_, file := ?_ }
  · rw [file1_size, BucketView.fits_eq]
    exact ⟨by decide, by intro x hx; cases hx⟩
  · rw [hr2]; simp [runsDisjoint]
  · rw [hr2]; intro r hr; simp at hr; rcases hr with rfl | rfl <;> decide
  · rw [hr1, hr2]; intro a ha b hb; simp at ha hb
    rcases ha with rfl | rfl <;> rcases hb with rfl | rfl <;> simp [runsDisjoint]
  · rw [file1_size]; decide
  · decide
  · decide
  · decide
  · intro x hx; simp [secondState] at hx; rcases hx with rfl | rfl <;> decide
  · exact ViewOK.mk _ (by decide) (by
      show SubsOK (subBuckets (Tree.flatten (Tree.leaf 4 [([107], LeafVal.kv [118])]))) []
      simp [Tree.flatten, subBuckets]; exact SubsOK.nil)
  · show (1 : Nat) > 0; decide
  · rw [file1_size]; decide

/-- … and so the two-commit file opens as exactly the second state, is committed again, and still stores the first -/
theorem two_commit_file_opens_as_second_state :
    openFile Gen.layout Gen.hashOrder 1024 2 (commitFile Gen.layout 1024 (fun _ => 0) 1 secondState file1) = some secondState ∧
    CommittedFile 1024 (fun _ => 0) (commitFile Gen.layout 1024 (fun _ => 0) 1 secondState file1) 1 secondState ∧
    Holds Gen.layout Gen.hashOrder 1024 (fun _ => 0) (commitFile Gen.layout 1024 (fun _ => 0) 1 secondState file1) 0 freshState :=
  completed_commit_shows_new_state 1024 (by decide) (fun _ => 0) file1 0 (Or.inl rfl) freshState secondState
    fresh_six_page_file_is_committed second_commit_premises_hold 2 (by
      show secondState.view.weight ≤ 2
      rw [BucketView.weight_eq]; decide)

end Jamm.Props.C02
