/-
C08 — cursors, seeks and ranges return the right entries in order.

The model is `Jamm/Model/Cursor.lean`: the stack machine of `cursor.rs` (after the `fix:` commits for
the empty-bucket underflow, the excluded start bound and leaves emptied inside a transaction).  All
theorems are for every key type with a lawful total order (byte strings are one), every tree, every
seek key and every pair of bounds; trees may contain leaves emptied by the current transaction, so the
same theorems cover committed and mid-transaction buckets (C07).
-/
import Jamm.Proofs.CursorLemmas
import Jamm.Proofs.FileCheckLemmas
set_option linter.unusedSectionVars false
open Std

namespace Jamm.Props.C08
open Jamm
variable {K E : Type} [Ord K] [TransOrd K] [LawfulEqOrd K] [DecidableEq K]

/-- a cursor yields every entry of its bucket exactly once, in tree order, for any tree whose
branches are non-empty — no ordering assumption is needed for this -/
theorem cursor_enumerates (t : Tree K E) (h : Shape t) (n : Nat) (hn : t.flatten.length < n) :
    (Cursor.drain n { root := t }).1 = t.flatten :=
  drain_fresh t h n hn

/-- on a well-formed tree that order is strictly ascending key order -/
theorem cursor_enumerates_ascending (t : Tree K E) (h : WF none none t) (n : Nat) (hn : t.flatten.length < n) :
    (Cursor.drain n { root := t }).1 = t.flatten ∧ Spec.Sorted t.flatten := by
  obtain ⟨hc, hp⟩ := startCursor_spec t h.shp
  refine ⟨?_, (flatten_sorted none none t h).1⟩
  rw [drain_fresh_eq t h.shp, if_neg (by omega)]
  rw [(drain_spec t n _ hc (by rw [hp]; exact hn)).1, hp]

/-- calling `next` again after the end is harmless: it keeps returning `none` -/
theorem next_after_end_is_none (t : Tree K E) (h : Shape t) (n : Nat) (hn : t.flatten.length < n) :
    let c := (Cursor.drain n { root := t }).2
    c.next.1 = none ∧ c.next.2.next.1 = none :=
  next_after_end t h n hn

/-- seek reports whether the key exists and positions iteration at that key or, if it is absent, at
an immediate neighbour, after which every later entry follows in order -/
theorem seek_correct (t : Tree K E) (h : WF none none t) (key : K) (n : Nat) (hn : t.flatten.length < n) :
    let r := Cursor.seek { root := t } key
    Spec.SeekOk t.flatten key r.1 (Cursor.drain n r.2).1 :=
  seek_spec t h key n hn

/-- `seek` re-positions a cursor whatever it did before (entries already yielded, exhausted): the result
depends on the tree and the key only, so `seek_correct` holds for every cursor on the tree -/
theorem seek_ignores_cursor_history (c : Cursor K E) (key : K) :
    Cursor.seek c key = Cursor.seek { root := c.root } key := rfl

theorem seek_correct_any_cursor (c : Cursor K E) (h : WF none none c.root) (key : K) (n : Nat)
    (hn : c.root.flatten.length < n) :
    let r := Cursor.seek c key
    Spec.SeekOk c.root.flatten key r.1 (Cursor.drain n r.2).1 := by
  rw [seek_ignores_cursor_history]
  exact seek_spec c.root h key n hn

/-- a range scan yields exactly the entries within its bounds, for all nine kinds of bound pairs
(inclusive / exclusive / unbounded on either side), present or absent, reversed or out of range -/
theorem range_correct (t : Tree K E) (h : WF none none t) (lo hi : Spec.Bound K) (n : Nat)
    (hn : t.flatten.length < n) :
    RangeIt.drain n { c := { root := t }, lo := lo, hi := hi } = Spec.range t.flatten lo hi :=
  range_spec t h lo hi n hn

/-- the bucket-only and pair-only iterators are filters of the cursor's output, hence neither skip
nor duplicate -/
theorem filters_correct (t : Tree K (Spec.Item V)) (h : Shape t) (n : Nat) (hn : t.flatten.length < n) :
    Spec.bucketsOf (Cursor.drain n { root := t }).1 = Spec.bucketsOf t.flatten ∧
    Spec.kvPairsOf (Cursor.drain n { root := t }).1 = Spec.kvPairsOf t.flatten := by
  rw [drain_fresh t h n hn]; exact ⟨rfl, rfl⟩

/-- the binary search: a present key is found at its position; an absent key yields the slot before
its insertion point, saturating at 0 -/
theorem index_present (keys : List K) (key : K) (hs : KeysSorted keys) (i : Nat) (h : keys[i]? = some key) :
    indexOf keys key = (i, true) :=
  indexOf_mem keys key hs i h

theorem index_absent (keys : List K) (key : K) (hs : KeysSorted keys) (h : key ∉ keys) :
    indexOf keys key = (countBelow keys key - 1, false) :=
  indexOf_not_mem keys key hs h

/-- non-vacuity: a three-level tree with leftmost-spine slack and emptied leaves is accepted by the
checker, and the theorems' conclusions can be observed on it -/
example :
    let t : Tree Nat Nat :=
      .branch 1 (.cons 10 (.branch 2 (.cons 10 (.leaf 3 [(3, 0), (10, 1), (12, 2)]) (.cons 20 (.leaf 4 []) (.cons 30 (.leaf 5 [(30, 3)]) .nil))))
                (.cons 40 (.branch 6 (.cons 40 (.leaf 7 []) (.cons 50 (.leaf 8 [(50, 4)]) .nil))) .nil))
    wfb none none t = true ∧
    (Cursor.drain 10 { root := t }).1 = [(3, 0), (10, 1), (12, 2), (30, 3), (50, 4)] ∧
    RangeIt.drain 10 { c := { root := t }, lo := .excl 10, hi := .incl 50 } = [(12, 2), (30, 3), (50, 4)] := by
  decide

end Jamm.Props.C08
