/-
C06 — uncommitted and failed work leaves no trace.

(a) every specification operation that returns an error leaves the state unchanged (the model of
    "a call that returns an error changes nothing"), for all states, paths, keys and values;
(b) a transaction that is dropped leaves the committed state as it was, and later transactions start
    from it (`drop_is_noop`, on the transactional world model);
(c) generated obligations, re-checked against /repo/src on every run: every public method of
    `Bucket` / `Tx` that can mutate starts with the read-only guard (`mutators_guarded`); every public
    method is classified (`api_classified`: a new method must be added to the table, mutating or not);
    every function of the crate that calls an inner mutator — cursors, iterator adaptors and the database
    handle included — is one of those guarded methods, `Tx::commit`, or an inner function below them
    (`mutation_only_below_the_guarded_api`);
    only `write_data`, `resize` and `init_file` touch the file (`file_mutation_only_in_commit`); only
    `write_data` (and the initial load in `open`) assign the shared free list.
The byte-level half ("the file's bytes are unchanged") is decided by the correspondence run, which
hashes the real file around rollbacks, failed calls, read-only use and reopen.
-/
import Jamm.Model.Spec
import Jamm.Gen.Sites
import Jamm.Gen.Steps
set_option linter.unusedSectionVars false
open Std

namespace Jamm.Props.C06
open Jamm Jamm.Spec
variable {K V : Type} [Ord K] [DecidableEq K]

/-! ### (a) a call that returns an error changes nothing -/

theorem put_error_noop (db : DB K V) (p : Path K) (k : K) (v : V) (e : Err)
    (h : (put db p k v).1 = .error e) : (put db p k v).2 = db := by
  unfold put at *
  split at h <;> try (simp at h)
  split at h <;> simp_all

theorem delete_error_noop (db : DB K V) (p : Path K) (k : K) (e : Err)
    (h : (delete db p k).1 = .error e) : (delete db p k).2 = db := by
  unfold delete at *
  split at h <;> try (simp at h) <;> try rfl
  split at h <;> simp_all

theorem bucketGetter_error_noop (db : DB K V) (p : Path K) (name : K) (sc mc : Bool) (e : Err)
    (h : (bucketGetter db p name sc mc).1 = .error e) : (bucketGetter db p name sc mc).2 = db := by
  unfold bucketGetter at *
  split at h <;> try rfl
  split at h
  · split at h <;> simp_all
  · rfl
  · split at h <;> simp_all

theorem deleteBucket_error_noop (db : DB K V) (p : Path K) (name : K) (e : Err)
    (h : (deleteBucket db p name).1 = .error e) : (deleteBucket db p name).2 = db := by
  unfold deleteBucket at *
  split at h <;> try rfl
  split at h <;> simp_all

/-- `get_bucket` never changes the state, whatever it returns -/
theorem getBucket_pure (db : DB K V) (p : Path K) (name : K) :
    (bucketGetter db p name false false).2 = db := by
  unfold bucketGetter
  split <;> try rfl
  split <;> simp

/-! ### (b) transactions: the world model -/

/-- a write transaction works on a private copy; only `commit` installs it -/
inductive TxEnd where | commit | drop

def endTx (w : World K V) (working : DB K V) : TxEnd → World K V
  | .commit => { committed := working }
  | .drop => w

theorem drop_is_noop (w : World K V) (working : DB K V) : endTx w working .drop = w := rfl

theorem commit_installs (w : World K V) (working : DB K V) :
    (endTx w working .commit).committed = working := rfl

/-! ### (c) obligations on the regenerated tables -/

theorem mutators_guarded : MutatorsGuarded Gen.api = true := by decide

/-- the classification every public method must appear in: `true` = may mutate -/
def classification : List (String × Bool) :=
  [("Bucket::put", true), ("Bucket::get", false), ("Bucket::get_kv", false), ("Bucket::delete", true),
   ("Bucket::get_bucket", false), ("Bucket::create_bucket", true), ("Bucket::get_or_create_bucket", true),
   ("Bucket::delete_bucket", true), ("Bucket::cursor", false), ("Bucket::next_int", false),
   ("Bucket::buckets", false), ("Bucket::kv_pairs", false), ("Bucket::range", false),
   ("Tx::get_bucket", false), ("Tx::create_bucket", true), ("Tx::get_or_create_bucket", true),
   ("Tx::delete_bucket", true), ("Tx::buckets", false), ("Tx::commit", true)]

theorem api_classified :
    Gen.api.all (fun f => classification.contains (f.name, f.mutates)) = true := by decide

theorem file_mutation_only_in_commit :
    Gen.fileMutators.all (fun f => ["db.rs:init_file", "db.rs:resize", "tx.rs:write_data"].contains f) = true := by
  decide

/-- mutation is reachable only through the guarded API: every function of the crate (whatever type it belongs
to — a cursor, an iterator adaptor, the database handle) that calls an inner mutator is one of the guarded
public methods of `Bucket` / `Tx` (`mutators_guarded`), `Tx::commit`, or an inner function below them -/
theorem mutation_only_below_the_guarded_api :
    Gen.mutatorCallSites.all (fun f =>
      ["bucket.rs:put", "bucket.rs:delete", "bucket.rs:create_bucket", "bucket.rs:get_or_create_bucket", "bucket.rs:delete_bucket",
       "tx.rs:create_bucket", "tx.rs:get_or_create_bucket", "tx.rs:delete_bucket", "tx.rs:commit",
       -- inner functions, reached only from the ones above
       "bucket.rs:put_leaf", "bucket.rs:bucket_getter", "bucket.rs:node", "bucket.rs:rebalance", "bucket.rs:merge_nodes", "bucket.rs:spill",
       "tx.rs:write_data", "db.rs:resize", "db.rs:init_file", "node.rs:spill", "node.rs:write", "node.rs:allocate", "node.rs:free_page",
       "freelist.rs:free", "freelist.rs:allocate"].contains f) = true := by
  decide

theorem shared_freelist_only_at_commit :
    Gen.sharedFreelistWriters.all (fun f => ["db.rs:open", "tx.rs:write_data"].contains f) = true := by decide

/-- a handle is writable only if the handle or transaction it was derived from is: the flag is copied
(`self.writable`, `b.writable`, `self.c.writable`, `tx.lock.writable()`), and the literal `true` occurs
only in the two `Tx` methods that have already refused a read-only transaction -/
theorem handles_inherit_writability :
    Gen.writableSources.all (fun e =>
      ["self.writable", "b.writable", "self.c.writable", "tx.lock.writable()"].contains e.2 ||
      (e.2 == "true" && ["tx.rs:create_bucket", "tx.rs:get_or_create_bucket"].contains e.1)) = true := by
  decide

/-- `commit` itself refuses a read-only transaction before doing anything -/
theorem commit_guard_first : Gen.commitOuter.head? = some .guardWritable := by decide

/-- non-vacuity: a failing and a succeeding call on a concrete state -/
example : (put (K := Nat) (V := Nat) [([], { nextInt := 1, items := [(5, .bkt)] })] [] 5 7).1 = .error .incompatibleValue ∧
    (put (K := Nat) (V := Nat) [([], { nextInt := 1, items := [(5, .bkt)] })] [] 6 7).1 = .ok none := by
  constructor <;> rfl

end Jamm.Props.C06
