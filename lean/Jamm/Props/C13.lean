/-
C13 — only one process at a time has the database open.

Model: `Jamm/Model/Proc.lean` (open the path, creating an empty file if there is none; blocking exclusive
advisory lock; initialise the file under the lock if it is still empty; map, read header, work, close),
any number of processes, every interleaving of their steps.  The file is missing, empty (length 0),
garbage (not empty, no valid header -- e.g. left by a process that died while initialising it) or ready
(valid header pages).  The model can express failure: as in `DBInner::open`, only an EMPTY file is
initialised; the opener of a garbage file fails and drops its handle, and the file is left as it is.
Proved:
* (a) at most one process is between lock-acquired and close, and whoever is inside has seen every
  commit made before it got in -- for every initial file state, garbage included, and every schedule
  (`mutual_exclusion`);
* (b, c) no process ever fails, for every initial file state other than garbage (missing, empty, ready)
  and every schedule (`no_opener_ever_fails`; `existing_file_never_fails` is the case of an initialised
  file); the hypothesis is needed: a file that is not empty and holds no valid header makes its opener
  fail, and it is never overwritten, under every schedule
  (`unreadable_file_is_reported_not_overwritten`);
  whoever is inside sees an initialised file, for every initial file state
  (`inside_sees_initialised_file`); the file is locked before it
  is mapped or read (`existing_open_locks_first`, decided on the regenerated step order);
* the former finding D12 is REPAIRED: the path is opened with create-if-missing and never tested for
  existence first (`open_outer_order`), and the lock is taken before a missing / empty file is initialised
  (`create_path_locked`: the obligation holds on the regenerated order).  The witness is kept about the
  order of the pinned release: there the obligation is false (`pinned_create_path_not_locked`) and
  `create_race_witness_pinned` is a two-process schedule in which the late opener gets the lock on the
  uninitialised file and fails; the repaired order passes the same schedule
  (`repaired_order_passes_that_schedule`).
Advisory-lock semantics (one holder, same host) are an assumption.
-/
import Jamm.Proofs.ProcLemmas
import Jamm.Gen.Steps
set_option linter.unusedSectionVars false

namespace Jamm.Props.C13
open Jamm

theorem mutual_exclusion (n : Nat) (file : FileSt) (sched : List Nat) :
    ((ProcSys.initial n file).run sched).exclusive = true ∧ ((ProcSys.initial n file).run sched).sawAll = true :=
  exclusive_run n file sched

theorem existing_file_never_fails (n : Nat) (sched : List Nat) :
    ((ProcSys.initial n .ready).run sched).noFailure = true :=
  existing_file_no_failure n sched

/-- when the initial file is missing, empty or initialised, no opener ever fails.  The hypothesis
`file ≠ .garbage` is needed: the opener of a non-empty file without a valid header does fail
(`unreadable_file_is_reported_not_overwritten`); what is proved is that no step of the protocol produces
such a file and that finding one is the only way to fail. -/
theorem no_opener_ever_fails (n : Nat) (file : FileSt) (hf : file ≠ .garbage) (sched : List Nat) :
    ((ProcSys.initial n file).run sched).noFailure = true :=
  never_fails n file hf sched

/-- a non-empty file without a valid header: its opener fails (a single process: open, lock, read the
header), and under every schedule of any number of processes the file is left as it is -- the code never
initialises a file that is not empty -/
theorem unreadable_file_is_reported_not_overwritten :
    ((ProcSys.initial 1 .garbage).run [0, 0, 0]).noFailure = false ∧
    ∀ (n : Nat) (sched : List Nat), ((ProcSys.initial n .garbage).run sched).file = .garbage :=
  ⟨garbage_file_fails, garbage_never_initialised⟩

/-- whoever is inside the database sees an initialised file -/
theorem inside_sees_initialised_file (n : Nat) (file : FileSt) (sched : List Nat) :
    let s := (ProcSys.initial n file).run sched
    (s.procs.any (fun p => match p with | .inside _ => true | _ => false)) = true → s.file = .ready :=
  inside_sees_ready_file n file sched

theorem existing_open_locks_first : OpenLocksBeforeMap Gen.openInner = true := by decide

/-- the open path opens the file (creating an empty one if it is missing) without testing for existence,
then calls `DBInner::open` (lock, initialise if empty, map) -/
theorem open_outer_order : Gen.openOuter = [.openOrCreate, .dbOpen] := by decide

/-- D12 repaired: the lock is held while a missing / empty file is initialised -/
theorem create_path_locked : OpenLocksBeforeInit Gen.openOuter Gen.initSteps Gen.openInner = true := by decide

/-- the pinned release did not hold the lock while it initialised the file -/
theorem pinned_create_path_not_locked :
    OpenLocksBeforeInit pinnedOpenOuter pinnedInitSteps pinnedOpenInner = false := by decide

/-- former finding D12, about the pinned order: the late opener gets the lock on the uninitialised file -/
theorem create_race_witness_pinned :
    ((ProcSys.initial 2 .missing).runPinned [0, 1, 1, 1]).noFailure = false :=
  Jamm.create_race_witness_pinned

theorem repaired_order_passes_that_schedule :
    ((ProcSys.initial 2 .missing).run [0, 1, 1, 1]).noFailure = true :=
  Jamm.repaired_order_passes_that_schedule

end Jamm.Props.C13
