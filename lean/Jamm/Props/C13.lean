/-
C13 — only one process at a time has the database open.

Model: `Jamm/Model/Proc.lean` (exists-check, create / open, blocking exclusive advisory lock, map, read
header, work, close), any number of processes, every interleaving of their steps.
Proved:
* (a) at most one process is between lock-acquired and close, and whoever is inside has seen every
  commit made before it got in — for every initial file state and every schedule (`mutual_exclusion`);
* (b, c) when the file exists and is initialised, no process ever fails, under every schedule
  (`existing_file_never_fails`); an *existing* file is locked before it is mapped or read
  (`existing_open_locks_first`, decided on the regenerated step order);
* OPEN FINDING D12: a missing file is created and initialised before the lock is taken
  (`create_path_not_locked`: the obligation is false on the regenerated order), and
  `create_race_witness` is a two-process schedule in which the late opener gets the lock on the
  uninitialised file and fails.  The correspondence run reproduces exactly this on the real code and
  reports it as KNOWN-FINDING; everything else is reported as a violation.
Advisory-lock semantics (one holder, same host) are an assumption.
-/
import Jamm.Proofs.ProcLemmas
import Jamm.Gen.Steps
set_option linter.unusedSectionVars false

namespace Jamm.Props.C13
open Jamm

theorem mutual_exclusion (n : Nat) (file : FileSt) (sched : List Nat) :
    ((ProcSys.initial n file).run sched).exclusive = true ∧ ((ProcSys.initial n file).run sched).sawAll = true :=
  exclusive_run n file sched

theorem existing_file_never_fails (n : Nat) (sched : List Nat) :
    ((ProcSys.initial n .ready).run sched).noFailure = true :=
  existing_file_no_failure n sched

theorem existing_open_locks_first : OpenLocksBeforeMap Gen.openInner = true := by decide

/-- the open path checks for the file, then initialises or opens it, then calls `DBInner::open` (lock) -/
theorem open_outer_order : Gen.openOuter = [.existsCheck, .initFile, .openFile, .dbOpen] := by decide

/-- OPEN FINDING D12: the creating path does not hold the lock while it initialises the file -/
theorem create_path_not_locked : OpenLocksBeforeInit Gen.initSteps Gen.openInner = false := by decide

theorem create_race_witness : ((ProcSys.initial 2 .missing).run [0, 1, 1, 1]).noFailure = false :=
  Jamm.create_race_witness

end Jamm.Props.C13
